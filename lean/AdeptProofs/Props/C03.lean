import AdeptProofs.Lemmas.ArrayADReduce
import Mathlib.Algebra.Order.Field.Rat
/-!
# C03 — array-statement derivatives match those of the equivalent scalar loops

Stated over `AdeptModel/ArrayAD.lean`.  `record` functions (`assignActive`, `assignPassive`, `assignScalar`, `assign`,
`whereAssign`, `eitherOr`, `idxAssign`, `reduceAll`, `reduceDimLit`, `diagVector`) transcribe the C++ loops; `denote…` is the
element-by-element scalar program, in index order, that the statement stands for; `runProg` runs a scalar program with
the scalar recording rules (`elemStep`: operations of the right-hand side, `push_lhs`, store).  A state is the memory
(values) together with the tape, so an equality of states is an equality of values AND of recorded statements.
All theorems are for arbitrary rank, extents, strides of either sign (zero strides = spread / outer_product),
offsets, expression trees, memory contents and earlier recordings.
-/
namespace Adept.ArrayAD
open Adept.Tape

section Elementwise
variable {R : Type} [Zero R] [Add R] [Sub R] [Mul R] [Div R] [Neg R] [One R] [LT R] [DecidableLT R]

/-- **Element-wise assignment of an active expression** (`T = expr`, `T op= expr`, any tree of `+ − * /`, unary minus,
    `noalias`, Array / view / FixedArray / adouble / integer-vector-indexed leaves, spread and outer_product as
    zero-stride leaves): the loop of `assign_expression_` — target traversed with `advance_index`, every leaf
    positioned by `set_location_` per row and stepped by `advance_location_` or, in the contiguous branch, by
    `++index` — records exactly the statements, and stores exactly the values, of the scalar loop
    `for p in index order: T[p] = expr[p]`. -/
theorem C03_record_eq_denote_assign (t : View) (e : AExpr R) (ht : TargetOK t)
    (hw : e.WF t.dims.length (t.rdims.headD 0)) (s : St R) :
    assignActive t e s = runProg s (denoteAssign t e) := by
  obtain ⟨dl, rd, sl, rs, h1, h2, h3, h4, h5, h6⟩ := ht.split
  rw [← h5, h6] at hw
  exact assignActive_eq t e dl sl rd rs h1 h2 h3 h4 hw s

/-- **Passive right-hand side** (`T = P`, `T = P*Q`, `T = c`): the `push_lhs_range` path, which pushes a whole row of
    left-hand sides before storing the row's values, records the same statements (one without operations per
    element, in index order, also for negative strides) and stores the same values as the scalar loop. -/
theorem C03_record_eq_denote_passive (t : View) (e : AExpr R) (ht : TargetOK t)
    (hw : e.WF t.dims.length (t.rdims.headD 0)) (s : St R) (g0 : Nat)
    (hsto : (s.mem.sto? t.sid).map (·.gbase) = some g0) (hpass : e.isActive s.mem.isActive = false) :
    assignPassive t e s = runProg s (denoteAssign t e) := by
  obtain ⟨dl, rd, sl, rs, h1, h2, h3, h4, h5, h6⟩ := ht.split
  rw [← h5, h6] at hw
  exact assignPassive_eq t e dl sl rd rs h1 h2 h3 h4 hw s g0 hsto hpass

/-- **Active scalar broadcast** (`T = s`, `s` an adouble): every element records `d T[p] = 1·d s`. -/
theorem C03_record_eq_denote_scalar (t : View) (c : Cell) (ht : TargetOK t) (s : St R) :
    assignScalar t c s = runProg s (denoteAssign t (.arr ⟨c.1, c.2, [], []⟩)) := by
  obtain ⟨dl, rd, sl, rs, h1, h2, h3, h4, _, _⟩ := ht.split
  exact assignScalar_eq t c dl sl rd rs h1 h2 h3 h4 s

/-- **The statement `T = expr` as `Array::operator=` runs it** when the alias test does not fire: the active or the
    passive loop is chosen by the activeness of the expression; either way the scalar loop. -/
theorem C03_assign_statement (t : View) (e : AExpr R) (ht : TargetOK t) (hw : e.WF t.dims.length (t.rdims.headD 0))
    (s : St R) (tmpSid tmpG W g0 : Nat) (hsto : (s.mem.sto? t.sid).map (·.gbase) = some g0)
    (hal : e.aliased t = false) :
    assign t e tmpSid tmpG W s = runProg s (denoteAssign t e) := by
  unfold assign assignNoAliasCheck
  simp only [hal, Bool.false_eq_true, if_false]
  split
  · exact C03_record_eq_denote_assign t e ht hw s
  · rename_i h
    exact C03_record_eq_denote_passive t e ht hw s g0 hsto (by simpa using h)

/-- … and when it fires: the expression is first assigned to a packed temporary `copy` (itself the scalar loop
    `copy[p] = expr[p]`), then `T[p] = copy[p]`; the temporary is dropped afterwards. -/
theorem C03_assign_statement_aliased (t : View) (e : AExpr R) (ht : TargetOK t)
    (hw : e.WF t.dims.length (t.rdims.headD 0)) (s : St R) (tmpSid tmpG W : Nat)
    (hact : e.isActive s.mem.isActive = true) (hal : e.aliased t = true) :
    assign t e tmpSid tmpG W s =
      (let tv := (tempView tmpSid t.dims W).1
       let s0 : St R := { s with mem := s.mem ++ [(tmpSid, ⟨tmpG, true, List.replicate (tempView tmpSid t.dims W).2 0⟩)] }
       let s2 := runProg (runProg s0 (denoteAssign tv e)) (denoteAssign t (.arr tv))
       { s2 with mem := s2.mem.filter (·.1 ≠ tmpSid) }) := by
  have hd := tempView_dims tmpSid t.dims W
  have htv : TargetOK (tempView tmpSid t.dims W).1 :=
    ⟨by rw [hd]; exact ht.rank, by rw [tempView_strides_length, hd], by rw [hd]; exact ht.pos⟩
  have hwv : e.WF (tempView tmpSid t.dims W).1.dims.length ((tempView tmpSid t.dims W).1.rdims.headD 0) := by
    unfold View.rdims; rw [hd]; exact hw
  unfold assign assignNoAliasCheck
  simp only [hal, if_true, hact]
  rw [C03_record_eq_denote_assign _ e htv hwv]
  rw [C03_record_eq_denote_assign t (.arr (tempView tmpSid t.dims W).1) ht
    ⟨htv.lens, Or.inr (by rw [hd])⟩]

/-- **Compound assignment** `T op= expr` is recorded as the assignment of `T op expr` with the target term exempt from
    alias checking; element `p` of that tree is `T[p] op expr[p]`, left operand first — so the tape is that of the
    scalar loop `for p: T[p] = T[p] op expr[p]`. -/
theorem C03_record_eq_denote_compound (t : View) (rhs : AExpr R) (op : AExpr R → AExpr R → AExpr R)
    (hop : op = .add ∨ op = .sub ∨ op = .mul ∨ op = .div) (ht : TargetOK t)
    (hw : rhs.WF t.dims.length (t.rdims.headD 0)) (s : St R) :
    assignActive t (op (.noalias (.arr t)) rhs) s = runProg s (denoteAssign t (op (.noalias (.arr t)) rhs)) ∧
    ∀ ri, ∃ sop : SExpr R → SExpr R → SExpr R, (sop = .add ∨ sop = .sub ∨ sop = .mul ∨ sop = .div) ∧
      (op (.noalias (.arr t)) rhs).at ri = sop (.noalias (.cell (t.cellAt ri))) (rhs.at ri) := by
  have hwt : (AExpr.noalias (AExpr.arr (R := R) t)).WF t.dims.length (t.rdims.headD 0) := ⟨ht.lens, Or.inr rfl⟩
  rcases hop with h | h | h | h <;> subst h
  · have h2 : (AExpr.add (.noalias (.arr t)) rhs).WF t.dims.length (t.rdims.headD 0) := ⟨hwt, hw⟩
    exact ⟨C03_record_eq_denote_assign t _ ht h2 s, fun ri => ⟨.add, Or.inl rfl, rfl⟩⟩
  · have h2 : (AExpr.sub (.noalias (.arr t)) rhs).WF t.dims.length (t.rdims.headD 0) := ⟨hwt, hw⟩
    exact ⟨C03_record_eq_denote_assign t _ ht h2 s, fun ri => ⟨.sub, Or.inr (Or.inl rfl), rfl⟩⟩
  · have h2 : (AExpr.mul (.noalias (.arr t)) rhs).WF t.dims.length (t.rdims.headD 0) := ⟨hwt, hw⟩
    exact ⟨C03_record_eq_denote_assign t _ ht h2 s, fun ri => ⟨.mul, Or.inr (Or.inr (Or.inl rfl)), rfl⟩⟩
  · have h2 : (AExpr.div (.noalias (.arr t)) rhs).WF t.dims.length (t.rdims.headD 0) := ⟨hwt, hw⟩
    exact ⟨C03_record_eq_denote_assign t _ ht h2 s, fun ri => ⟨.div, Or.inr (Or.inr (Or.inr rfl)), rfl⟩⟩

/-- **Element-wise `max`/`fmax`/`min`/`fmin` of two array expressions** (operands of any, DIFFERENT, layouts:
    transposed / strided / reversed / permuted views, an adouble or a passive scalar on either side, nested in any tree).
    (1) the array statement records and stores exactly the scalar loop `for p: T[p] = max(a[p], b[p])`;
    (2) inside the loop, after `set_location_`, the left operand is read at the locations `loc[MyArrayNum …]` and the
    right operand at `loc[MyArrayNum+L::n_arrays …]`, so that the element expression — including the comparison
    `is_left` that decides which operand receives the derivative — is `max (a[i]) (b[i])` with EACH operand at its own
    element `i`, whatever the two memory layouts are. -/
theorem C03_record_eq_denote_maxmin (t : View) (a b : AExpr R) (op : AExpr R → AExpr R → AExpr R)
    (sop : SExpr R → SExpr R → SExpr R) (hop : (op = .max ∧ sop = .max) ∨ (op = .min ∧ sop = .min)) (ht : TargetOK t)
    (ha : a.WF t.dims.length (t.rdims.headD 0)) (hb : b.WF t.dims.length (t.rdims.headD 0)) (s : St R) :
    assignActive t (op a b) s = runProg s (denoteAssign t (op a b)) ∧
    (∀ ri, (op a b).at ri = sop (a.at ri) (b.at ri)) ∧
    (∀ j r, (op a b).atLoc ((op a b).setLoc (j :: r)) = sop (a.at (j :: r)) (b.at (j :: r))) := by
  have hr : 0 < t.dims.length := List.length_pos_iff.mpr ht.rank
  rcases hop with ⟨h1, h2⟩ | ⟨h1, h2⟩ <;> subst h1 <;> subst h2
  · have hw : (AExpr.max a b).WF t.dims.length (t.rdims.headD 0) := ⟨ha, hb⟩
    exact ⟨C03_record_eq_denote_assign t _ ht hw s, fun _ => rfl,
      fun j r => atLoc_setLoc (AExpr.max a b) _ _ hr hw j r⟩
  · have hw : (AExpr.min a b).WF t.dims.length (t.rdims.headD 0) := ⟨ha, hb⟩
    exact ⟨C03_record_eq_denote_assign t _ ht hw s, fun _ => rfl,
      fun j r => atLoc_setLoc (AExpr.min a b) _ _ hr hw j r⟩

/-- **The recording rule of `max`/`min`** (policy classes Max, Min): the operations pushed are exactly those of ONE
    operand, with the incoming multiplier unchanged — for `max` the left operand iff `left > right` (a tie goes to the
    right operand), for `min` the right operand iff `right < left` (a tie goes to the left operand). -/
theorem C03_max_min_rule (m : Mem R) (a b : SExpr R) (w : Option R) :
    (SExpr.max a b).grad m w = (if b.eval m < a.eval m then a.grad m w else b.grad m w) ∧
    (SExpr.min a b).grad m w = (if b.eval m < a.eval m then b.grad m w else a.grad m w) := by
  constructor <;> by_cases h : b.eval m < a.eval m <;> simp [SExpr.grad, h]

/-- **Element-wise `abs`/`fabs`**: the array statement is the scalar loop `for p: T[p] = |expr[p]|`, each element
    recording the operations of its argument scaled by `(x>0)-(x<0)` (ADEPT_DEF_UNARY_FUNC(Abs, …)). -/
theorem C03_record_eq_denote_abs (t : View) (a : AExpr R) (ht : TargetOK t)
    (ha : a.WF t.dims.length (t.rdims.headD 0)) (s : St R) :
    assignActive t (.abs a) s = runProg s (denoteAssign t (.abs a)) ∧
    (∀ ri, (AExpr.abs a).at ri = .abs (a.at ri)) ∧
    (∀ (m : Mem R) (x : SExpr R), (SExpr.abs x).grad m none = x.grad m (some (sgn (x.eval m)))) :=
  ⟨C03_record_eq_denote_assign t (.abs a) ht ha s, fun _ => rfl, fun _ _ => rfl⟩

/-- **Conditional assignment** `T.where(mask) = expr`: for every selected element the statement of ITS right-hand-side
    element is recorded, for the others nothing — whatever the pattern of the mask (the `is_gap` resynchronisation of
    the right-hand side's location, across rows as well): the scalar loop `for p: if mask[p] then T[p] = expr[p]`. -/
theorem C03_record_eq_denote_where (t : View) (k : AMask R) (e : AExpr R) (ht : TargetOK t)
    (hw : e.WF t.dims.length (t.rdims.headD 0)) (hk : k.WF t.dims.length (t.rdims.headD 0)) (s : St R) :
    whereAssign t k e s = runProg s (denoteWhere t k e) := by
  obtain ⟨dl, rd, sl, rs, h1, h2, h3, h4, h5, h6⟩ := ht.split
  rw [← h5, h6] at hw hk
  exact whereAssign_eq t k e dl sl rd rs h1 h2 h3 h4 hw hk s

/-- `T.where(mask) = either_or(c, d)` (no operand aliased with the target): the loop for `!mask` with `d`, then the
    loop for `mask` with `c`. -/
theorem C03_record_eq_denote_either_or (t : View) (k : AMask R) (c d : AExpr R) (ht : TargetOK t)
    (hc : c.WF t.dims.length (t.rdims.headD 0)) (hd : d.WF t.dims.length (t.rdims.headD 0))
    (hk : k.WF t.dims.length (t.rdims.headD 0)) (s : St R) (tmpSid g1 g2 W : Nat)
    (hca : c.aliased t = false) (hda : d.aliased t = false) :
    eitherOr t k c d tmpSid g1 g2 W s =
      runProg s (denoteWhere t { k with neg := !k.neg } d ++ denoteWhere t k c) := by
  unfold eitherOr whereStmt
  simp only [hca, hda, Bool.false_eq_true, if_false]
  rw [C03_record_eq_denote_where t { k with neg := !k.neg } d ht hd hk, C03_record_eq_denote_where t k c ht hc hk]
  unfold runProg
  rw [List.foldl_append]

/-- **Integer-vector indexed target** `T(ix…) = expr` (active or passive expression, passive scalar, adouble):
    coordinates translated through the index vectors (`translate_coords_`, `get_value_with_len`), repeated indices
    included: the scalar loop `for p in index order of the index vectors: T[ix[p]] = expr[p]`.  (An indexed SOURCE is
    an `idx` leaf of the expression and is covered by every theorem here.) -/
theorem C03_record_eq_denote_indexed (t : View) (rix : List (List Nat)) (e : AExpr R)
    (hrix : rix ≠ []) (hstr : t.strides ≠ []) (hpos : ∀ l ∈ rix, 0 < l.length)
    (hw : e.WF rix.length (rix.headD []).length) (s : St R) :
    idxAssign t rix e s = runProg s (denoteIdx t rix e) := by
  cases rix with
  | nil => exact absurd rfl hrix
  | cons ix0 ixs =>
    cases hs : t.rstrides with
    | nil =>
      have : t.strides = [] := by simpa [View.rstrides] using hs
      exact absurd this hstr
    | cons s0 ss =>
      refine idxAssign_eq t (ix0 :: ixs) e ix0 ixs s0 ss rfl hs ?_ (by simpa using hw) s
      intro d hd
      obtain ⟨l, hl, rfl⟩ := List.mem_map.mp hd
      exact hpos l hl

/-- **`diag_vector(expr, k)` of an active rank-2 expression** (any tree, operands of any layout, `k` of either sign,
    non-square extents): the new vector's element `j` records the statement and receives the value of element
    `(j, j+k)` of the expression for `k ≥ 0` and of element `(j-k, j)` for `k < 0` — the scalar loop
    `for j: v[j] = expr[i(j)]` over `min(d0, d1-k)` resp. `min(d0+k, d1)` elements. -/
theorem C03_record_eq_denote_diag_vector (e : AExpr R) (d0 d1 : Nat) (k : Int) (res : View) (dl : Nat)
    (hw : e.WF 2 dl) (s : St R) :
    diagVector e d0 d1 k res s = runProg s (denoteDiag e d0 d1 k res) ∧
    (∀ j, 0 ≤ k → diagIx k j = [j + k.toNat, j]) ∧ (∀ j, k < 0 → diagIx k j = [j, j + (-k).toNat]) ∧
    (0 ≤ k → (diagLen d0 d1 k : Int) = max 0 (min (d0 : Int) (d1 - k))) ∧
    (k < 0 → (diagLen d0 d1 k : Int) = max 0 (min ((d0 : Int) + k) d1)) := by
  refine ⟨diagVector_eq e d0 d1 k res dl hw s, ?_, ?_, ?_, ?_⟩
  · intro j h; simp [diagIx, h]
  · intro j h; simp [diagIx, not_le.mpr h]
  · intro h; simp only [diagLen, ge_iff_le, h, if_true]; omega
  · intro h; simp only [diagLen, ge_iff_le, not_le.mpr h, if_false]; omega

/-- **Values**: every array statement leaves in memory exactly what its scalar program leaves (the element-wise
    families by the state equalities above, the reductions by the first halves of the two theorems above). -/
theorem C03_values (t : View) (e : AExpr R) (ht : TargetOK t) (hw : e.WF t.dims.length (t.rdims.headD 0)) (s : St R)
    (k : AMask R) (hk : k.WF t.dims.length (t.rdims.headD 0)) :
    (assignActive t e s).mem = (runProg s (denoteAssign t e)).mem ∧
    (whereAssign t k e s).mem = (runProg s (denoteWhere t k e)).mem := by
  rw [C03_record_eq_denote_assign t e ht hw s, C03_record_eq_denote_where t k e ht hw hk s]
  exact ⟨rfl, rfl⟩

end Elementwise

section Zero
variable {R : Type}

/-- **spread**: `spread<d>(a, n)` is modelled as a view of `a` with one more dimension of stride zero; its element at
    an index with `i` in the spread position is the element of `a` at the index without it (so every theorem above
    applies to expressions containing `spread`). -/
theorem C03_spread_denotes (v : View) (d n : Nat) (a b : List Nat) (i : Nat)
    (ha : a.length = (v.strides.drop d).length) :
    (AExpr.arr (spreadView v d n) : AExpr R).at (a ++ [i] ++ b) = (AExpr.arr v : AExpr R).at (a ++ b) := by
  simp only [AExpr.at, spreadView, View.rstrides, List.reverse_append, List.reverse_cons, List.reverse_nil,
    List.nil_append]
  have hv : v.strides.reverse = (v.strides.drop d).reverse ++ (v.strides.take d).reverse := by
    rw [← List.reverse_append, List.take_append_drop]
  rw [hv, List.append_assoc a, dotR_append a _ _ _ (by simpa using ha), dotR_append a _ _ _ (by simpa using ha)]
  simp [dotR]

/-- **outer_product**: `outer_product(a, b)(i, j) = a(i)·b(j)` with the left vector held still along a row and the
    right vector restarted on every row, as two zero-stride views. -/
theorem C03_outer_denotes (a b : View) (sa sb : Int) (ha : a.strides = [sa]) (hb : b.strides = [sb]) (na nb i j : Nat) :
    (AExpr.mul (.arr (outerL a nb)) (.arr (outerR b na)) : AExpr R).at [j, i] =
      .mul ((AExpr.arr a : AExpr R).at [i]) ((AExpr.arr b : AExpr R).at [j]) := by
  simp [AExpr.at, outerL, outerR, View.rstrides, ha, hb, dotR]

end Zero

section Reduce
variable {R : Type} [Field R] [DecidableEq R] [LT R] [DecidableLT R]

/-- **Whole-array reductions** `s = sum|mean|product|minval|maxval(expr)`.  The recorded tape is shaped differently
    from the scalar accumulation loop (sum: ONE statement carrying every element's operations; product: the
    `t·dx + x·dt` statements with the accumulator's operation last; minval/maxval: overwriting statements), but for
    every gradient vector that has a slot for the accumulator the tangent-linear sweeps of the two tapes agree —
    the same Jacobian — and the values agree.  Needs: the accumulator is a live active cell that no element of the
    expression (at the indices of the array) reads or shares a gradient index with (it is a fresh `Active<Type>`). -/
theorem C03_reduce_jacobian (f : RFun) (sc tot : Cell) (e : AExpr R) (rd : List Nat) (hne : rd ≠ [])
    (hpos : ∀ d ∈ rd, 0 < d) (hw : e.WF rd.length (rd.headD 0)) (s : St R) (hc : Clear s.mem tot e (InRange rd)) :
    (reduceAll f sc tot e rd s).mem = (runProg s (denoteReduce f sc tot e rd)).mem ∧
    ∀ g : Vec R, s.mem.gidx tot < g.length →
      fwd (reduceAll f sc tot e rd s).tape g = fwd (runProg s (denoteReduce f sc tot e rd)).tape g := by
  cases rd with
  | nil => exact absurd rfl hne
  | cons dl rd' => exact reduceAll_eqv f sc tot e dl rd' hpos (by simpa using hw) s hc

/-- **The strip order of `reduce_dimension`**: the C++ keeps the full index `i` and the result index `inew` side by side
    and advances both with its own odometer (last dimension outwards, stepping over the reduced one); transcribed
    literally (`reduceDimLit`: `advStrip`, `stripsLoop`) it takes the strips in index order of the result, every strip
    reading the elements `i = inew with the reduced dimension put back` and writing `result(inew)` — for every rank,
    every position of the reduced dimension and all positive extents. -/
theorem C03_reduce_dim_strip_order (f : RFun) (tot : Cell) (e : AExpr R) (rd : List Nat) (k : Nat) (res : View)
    (hpos : ∀ d ∈ rd, 0 < d) (hk : k < rd.length) (s : St R) :
    reduceDimLit f tot e rd k res s = reduceDim f tot e rd k res s :=
  reduceDimLit_eq f tot e rd k res hpos hk s

/-- **Reductions along one dimension** `result = f(expr, dim)` (the transcribed `reduce_dimension`): strip by strip
    (index order of the result), the same statement as above with the accumulator re-initialised by a recorded
    `total = first_value()` and copied into the result element. -/
theorem C03_reduce_dim_jacobian (f : RFun) (tot : Cell) (e : AExpr R) (rd : List Nat) (k : Nat) (res : View)
    (rank dl : Nat) (hr : 0 < rank) (hw : e.WF rank dl) (hpos : ∀ d ∈ rd, 0 < d) (hk : k < rd.length) (s : St R)
    (hc : Clear s.mem tot e (InStrips rd k)) :
    (reduceDimLit f tot e rd k res s).mem = (runProg s (denoteRdim f tot e rd k res)).mem ∧
    ∀ g : Vec R, s.mem.gidx tot < g.length →
      fwd (reduceDimLit f tot e rd k res s).tape g = fwd (runProg s (denoteRdim f tot e rd k res)).tape g := by
  rw [C03_reduce_dim_strip_order f tot e rd k res hpos hk s]
  exact reduceDim_eqv f tot e rd k res rank dl hr hw s hc

end Reduce

section Ordered
variable {R : Type} [Field R] [LinearOrder R] [IsStrictOrderedRing R]

/-- **Values of `max`, `min`, `abs`** over a linearly ordered field: the stored value is the mathematical maximum,
    minimum and absolute value of the operand values, and the factor `abs` puts on its argument's derivative is the
    sign `1`, `-1`, or `0` at `0`. -/
theorem C03_max_min_abs_values (m : Mem R) (a b : SExpr R) :
    (SExpr.max a b).eval m = max (a.eval m) (b.eval m) ∧ (SExpr.min a b).eval m = min (a.eval m) (b.eval m) ∧
    (SExpr.abs a).eval m = |a.eval m| ∧
    (0 < a.eval m → sgn (a.eval m) = 1) ∧ (a.eval m < 0 → sgn (a.eval m) = -1) ∧ (a.eval m = 0 → sgn (a.eval m) = 0) := by
  refine ⟨?_, ?_, ?_, ?_, ?_, ?_⟩
  · simp only [SExpr.eval]
    split
    · rename_i h; exact (max_eq_right (le_of_lt h)).symm
    · rename_i h; exact (max_eq_left (not_lt.mp h)).symm
  · simp only [SExpr.eval]
    split
    · rename_i h; exact (min_eq_left (le_of_lt h)).symm
    · rename_i h; exact (min_eq_right (not_lt.mp h)).symm
  · simp only [SExpr.eval]
    split
    · rename_i h; exact (abs_of_neg h).symm
    · rename_i h; exact (abs_of_nonneg (not_lt.mp h)).symm
  · intro h; simp [sgn, h, not_lt.mpr (le_of_lt h)]
  · intro h; simp [sgn, h, not_lt.mpr (le_of_lt h)]
  · intro h; simp [sgn, h]

end Ordered

/-! ### non-vacuity -/

/-- `min(A, B.T())` with `A` row-major 2×3 and `B.T()` the transposed view of a row-major 3×2 array (innermost strides
    1 and 2: different layouts) is well-formed for a rank-2 statement -/
example : (AExpr.min (.arr ⟨1, 0, [2, 3], [3, 1]⟩) (.arr ⟨2, 0, [2, 3], [1, 2]⟩) : AExpr Int).WF 2 3 :=
  ⟨⟨rfl, Or.inr rfl⟩, ⟨rfl, Or.inr rfl⟩⟩

/-- … and there the two operands of element (0,1) (innermost index first: `[1, 0]`) sit at DIFFERENT memory offsets:
    1 in `A`, 2 in `B.T()` — each is read at its own -/
example : (AExpr.min (.arr ⟨1, 0, [2, 3], [3, 1]⟩) (.arr ⟨2, 0, [2, 3], [1, 2]⟩) : AExpr Int).at [1, 0] =
    .min (.cell (1, 1)) (.cell (2, 2)) := by
  simp [AExpr.at, View.rstrides, dotR]

/-- the hypotheses of the strip-order theorem hold for a 4×3×2 expression reduced along its middle dimension -/
example : (∀ d ∈ [2, 3, 4], 0 < d) ∧ 1 < [2, 3, 4].length := ⟨by decide, by decide⟩

/-- … and there the odometer really steps over the reduced dimension: from `i = (1, ·, 1)`, `inew = (1, 1)` (innermost
    first `[1, 0, 1]`, `[1, 1]`) the next strip is `i = (2, ·, 0)`, `inew = (2, 0)` -/
example : advStrip [2, 3, 4] 1 [1, 0, 1] [1, 1] = ([0, 0, 2], [0, 2], false) := by decide

/-- the sign factor of `abs` at a positive, a negative and the zero rational -/
example : sgn (3 : ℚ) = 1 ∧ sgn (-2 : ℚ) = -1 ∧ sgn (0 : ℚ) = 0 := by
  refine ⟨?_, ?_, ?_⟩ <;> norm_num [sgn]

/-- a strided, reversed 2×3 view is a legal target -/
example : TargetOK ⟨0, 11, [2, 3], [-6, -2]⟩ := ⟨by decide, by decide, by decide⟩

/-- `A*B + c` over a transposed operand, an adouble and an indexed source is well-formed for a rank-2 statement whose
    innermost extent is 3 -/
example : (AExpr.add (.mul (.arr ⟨1, 0, [2, 3], [1, 2]⟩) (.arr ⟨2, 0, [], []⟩))
    (.idx ⟨3, 0, [4, 4], [4, 1]⟩ [[0, 3, 1], [2, 2]]) : AExpr Int).WF 2 3 :=
  ⟨⟨⟨rfl, Or.inr rfl⟩, ⟨rfl, Or.inl rfl⟩⟩, ⟨rfl, rfl, rfl⟩⟩

/-- the hypotheses of the reduction theorems hold for a fresh accumulator next to a vector of two elements -/
example : Clear (R := ℚ) [(0, ⟨0, true, [1, 2]⟩), (1, ⟨2, true, [0]⟩)] (1, 0) (.arr ⟨0, 0, [2], [1]⟩) (InRange [2]) := by
  refine ⟨⟨⟨2, true, [0]⟩, rfl, by decide, by decide⟩, rfl, ?_⟩
  rintro ri ⟨p, hp, rfl⟩ c hc
  simp only [AExpr.at, SExpr.cellsOf, List.mem_singleton] at hc
  subst hc
  refine ⟨by simp, ?_⟩
  have h2 : p % 2 < 2 := Nat.mod_lt _ (by decide)
  simp [Mem.gidx, Mem.sto?, List.find?, unflatR, View.rstrides, dotR]
  omega

end Adept.ArrayAD
