import AdeptProofs.Lemmas.Interp
/-!
# C20 — interpolation reproduces the piecewise-linear / nearest interpolant

Property theorems only; helper lemmas and the specification vocabulary (`IncOn`, `DecOn`, `Knots`,
`Inside`, `OffFirst`, `OffLast`, `lineThrough`, `IsPWL`, `IsNearestLow`, `Bracketed`, `op1`, `dotW`,
`interp1Elem`, `interp2Elem`, `interp3Elem`) live in `AdeptProofs/Lemmas/Interp.lean`.

All statements are about `AdeptModel/Interp.lean`, the transcription of `include/adept/interp.h`
(`interp`, `interp2d`, `interp3d`, `interp_get_indices_weights`, `extract_interp_extrap`) WITH the repair
of finding F-15 (fixes/F-15.patch); the correspondence check (checks/c20.py) ties that model to the C++
on every run.  They hold for every linear ordered field `α`, every knot count `n ≥ 2`, every strictly
monotone knot vector in either direction and every query; nothing is decided on a sample.

Note on F-15 (kept as documentation, not as a theorem): in the pinned tree the end branches of `interp`
read `else if (extrap_policy == ADEPT_EXTRAPOLATE_CLAMP)`, i.e. `endBranch` without the disjunct
`beq q (fin (x jend))`.  For that definition `C20_interp1_spec` and `C20_interp1_knots` are false under
the constant policy: knots 1 2 4, data 10 20 40, value -1, query 1 gives `.extrap`, hence -1 ≠ 10.
-/
set_option linter.unusedSectionVars false
namespace Adept.Interp
open Ext

variable {α : Type} [Field α] [LinearOrder α] [IsStrictOrderedRing α]

/-! ## option word -/

/-- `extract_interp_extrap`: the word is accepted iff the scheme bits are 0 (linear) or 1 (nearest), the
    policy is 0..3, and it is not nearest + linear extrapolation; everything else is `array_exception`.
    The default policy becomes linear extrapolation for the linear scheme and clamp for nearest. -/
theorem C20_options (o : Nat) :
    extractInterpExtrap o =
      if (o / 16 = 0 ∨ o / 16 = 1) ∧ o % 16 ≤ 3 ∧ ¬ (o / 16 = 1 ∧ o % 16 = 1) then
        .ok (16 * (o / 16), if o % 16 = 0 then (if o / 16 = 0 then 1 else 2) else o % 16)
      else .error .arrayException := extract_spec o

/-! ## bracket searches -/

/-- bisection of `interp`, normal ordering: for a query strictly between the end knots the loop exits
    with an adjacent pair `(j, j+1)`, `j + 1 ≤ n - 1`, and `x j < q ≤ x (j+1)` -/
theorem C20_bracket_inc (n : Nat) (x : Nat → α) (r : α) (hn : 2 ≤ n) (h0 : x 0 < r) (h1 : r < x (n - 1)) :
    (bisectInc x (fin r) 0 (n - 1)).2 = (bisectInc x (fin r) 0 (n - 1)).1 + 1 ∧
    (bisectInc x (fin r) 0 (n - 1)).2 ≤ n - 1 ∧
    x (bisectInc x (fin r) 0 (n - 1)).1 < r ∧ r ≤ x (bisectInc x (fin r) 0 (n - 1)).2 := by
  obtain ⟨a, _, c, d, e⟩ := bisectInc_spec x r 0 (n - 1) (by omega) h0 (le_of_lt h1)
  exact ⟨a, c, d, e⟩

/-- bisection of `interp`, reverse ordering: `x j > q ≥ x (j+1)` on exit -/
theorem C20_bracket_dec (n : Nat) (x : Nat → α) (r : α) (hn : 2 ≤ n) (h0 : r < x 0) (h1 : x (n - 1) < r) :
    (bisectDec x (fin r) 0 (n - 1)).2 = (bisectDec x (fin r) 0 (n - 1)).1 + 1 ∧
    (bisectDec x (fin r) 0 (n - 1)).2 ≤ n - 1 ∧
    r < x (bisectDec x (fin r) 0 (n - 1)).1 ∧ x (bisectDec x (fin r) 0 (n - 1)).2 ≤ r := by
  obtain ⟨a, _, c, d, e⟩ := bisectDec_spec x r 0 (n - 1) (by omega) h0 (le_of_lt h1)
  exact ⟨a, c, d, e⟩

/-- linear scan of `interp_get_indices_weights`, normal ordering: for `x 0 ≤ q ≤ x (n-1)` the loop
    exits with `j + 1 < n` and `x j ≤ q ≤ x (j+1)` (and `x j < q` unless `j = 0`) -/
theorem C20_scan_inc (n : Nat) (x : Nat → α) (r : α) (hn : 2 ≤ n) (h0 : x 0 ≤ r) (h1 : r ≤ x (n - 1)) :
    scanUp n x (fin r) 0 + 1 < n ∧ x (scanUp n x (fin r) 0) ≤ r ∧ r ≤ x (scanUp n x (fin r) 0 + 1) ∧
    (scanUp n x (fin r) 0 = 0 ∨ x (scanUp n x (fin r) 0) < r) := by
  obtain ⟨_, b, c, d⟩ := scanUp_spec n x r 0 (by omega) (Or.inl rfl) h1
  refine ⟨by omega, ?_, d, c⟩
  rcases c with c | c
  · rw [c]; exact h0
  · exact le_of_lt c

/-- linear scan, reverse ordering: for `x 0 ≥ q ≥ x (n-1)` the loop exits with `x j ≥ q ≥ x (j+1)` -/
theorem C20_scan_dec (n : Nat) (x : Nat → α) (r : α) (hn : 2 ≤ n) (h0 : r ≤ x 0) (h1 : x (n - 1) ≤ r) :
    scanDown x (fin r) (n - 2) + 1 < n ∧ x (scanDown x (fin r) (n - 2) + 1) ≤ r ∧
    r ≤ x (scanDown x (fin r) (n - 2)) := by
  have e : n - 2 + 1 = n - 1 := by omega
  obtain ⟨a, b, c⟩ := scanDown_spec x r h0 (n - 2) (by rw [e]; exact h1)
  exact ⟨by omega, b, c⟩

/-- weights: for a query inside the knot range `interp_get_indices_weights` returns a valid entry whose
    index brackets the query, and the weight `w` of the lower-index point satisfies `0 ≤ w ≤ 1`; the
    other weight is `1 - w`, so the two sum to one -/
theorem C20_weights {n : Nat} {x : Nat → α} (hx : Knots n x) (hn : 2 ≤ n) (policy : Nat) {r : α}
    (hr : Inside n x r) :
    Bracketed n x r (indexWeight n x (decide (x 1 > x 0)) policy (fin r)) ∧
    ∃ a : α, (indexWeight n x (decide (x 1 > x 0)) policy (fin r)).weight0 = fin a ∧ 0 ≤ a ∧ a ≤ 1 ∧
      fin (1 : α) - (indexWeight n x (decide (x 1 > x 0)) policy (fin r)).weight0 = fin (1 - a) ∧
      a + (1 - a) = 1 := by
  have h := indexWeight_inrange (hx.dir hn) hn policy (hx.inRange hn hr)
  exact ⟨h, h.weight_unit⟩

/-- the same for the two weights `(x(jmax) - q)/(x(jmax) - x(jmin))`, `(q - x(jmin))/(x(jmax) - x(jmin))`
    of the 1-D routine on a bracketing pair (either direction) -/
theorem C20_weights1 {xa xb r : α} (h : (xa ≤ r ∧ r ≤ xb ∧ xa < xb) ∨ (xb ≤ r ∧ r ≤ xa ∧ xb < xa)) :
    0 ≤ (xb - r) / (xb - xa) ∧ (xb - r) / (xb - xa) ≤ 1 ∧ 0 ≤ (r - xa) / (xb - xa) ∧ (r - xa) / (xb - xa) ≤ 1 ∧
    (xb - r) / (xb - xa) + (r - xa) / (xb - xa) = 1 := by
  rcases h with ⟨h1, h2, h3⟩ | ⟨h1, h2, h3⟩
  · have hd : 0 < xb - xa := sub_pos.mpr h3
    refine ⟨div_nonneg (by linarith) hd.le, by rw [div_le_one hd]; linarith, div_nonneg (by linarith) hd.le,
      by rw [div_le_one hd]; linarith, ?_⟩
    field_simp; ring
  · have hd : xb - xa < 0 := sub_neg.mpr h3
    refine ⟨div_nonneg_of_nonpos (by linarith) hd.le, by rw [div_le_one_of_neg hd]; linarith,
      div_nonneg_of_nonpos (by linarith) hd.le, by rw [div_le_one_of_neg hd]; linarith, ?_⟩
    have : xb - xa ≠ 0 := ne_of_lt hd
    field_simp; ring

/-! ## 1-D linear interpolation -/

/-- `interp`, linear scheme, any extrapolation policy, query anywhere in the closed knot range (end
    knots included): the result is finite and is the value of the piecewise-linear interpolant, i.e.
    `y j + (q - x j)·(y (j+1) - y j)/(x (j+1) - x j)` for a segment `j` containing `q`.
    Both forms of the formula (`a / d`, and `a * (1 / d)` for array slices and active data) are covered. -/
theorem C20_interp1_spec (recip : Bool) {n : Nat} {x : Nat → α} (y : Nat → α) (hx : Knots n x) (hn : 2 ≤ n)
    (policy : Nat) (ev : Ext α) {r : α} (hr : Inside n x r) :
    ∃ v, interp1Elem recip n x y ADEPT_INTERPOLATE_LINEAR policy ev (fin r) = fin v ∧ IsPWL n x y r v :=
  interp1_inrange recip y (hx.dir hn) hn policy ev (hx.inRange hn hr)

/-- the interpolant is single valued, so `C20_interp1_spec` determines the result: whichever segment
    containing `q` is used, the value is the same -/
theorem C20_interp1_unique {n : Nat} {x y : Nat → α} (hx : Knots n x) (hn : 2 ≤ n) {r v v' : α}
    (h : IsPWL n x y r v) (h' : IsPWL n x y r v') : v = v' :=
  IsPWL.unique (hx.dir hn) h h'

/-- at every knot `x k` (the two end knots included, under every policy, the constant policy too) the
    result is the data value `y k` itself -/
theorem C20_interp1_knots (recip : Bool) {n : Nat} {x : Nat → α} (y : Nat → α) (hx : Knots n x) (hn : 2 ≤ n)
    (policy : Nat) (ev : Ext α) {k : Nat} (hk : k < n) :
    interp1Elem recip n x y ADEPT_INTERPOLATE_LINEAR policy ev (fin (x k)) = fin (y k) := by
  obtain ⟨v, hv, hp⟩ := C20_interp1_spec recip y hx hn policy ev (hx.inside_knot hk)
  rw [hv, IsPWL.knot (hx.dir hn) hk hp]

/-! ## extrapolation (both schemes where applicable; `OffFirst`/`OffLast` include `±inf`) -/

/-- linear extrapolation: a finite query beyond the end where knot 0 lies gets the value of the straight
    line through the first two data points; beyond the other end, through the last two -/
theorem C20_extrap_linear (recip : Bool) {n : Nat} {x : Nat → α} (y : Nat → α) (hx : Knots n x) (hn : 2 ≤ n)
    (ev : Ext α) (r : α) :
    (OffFirst (decide (x 0 < x 1)) (x 0) (fin r) →
      interp1Elem recip n x y ADEPT_INTERPOLATE_LINEAR 1 ev (fin r) = fin (lineThrough (x 0) (x 1) (y 0) (y 1) r)) ∧
    (OffLast (decide (x 0 < x 1)) (x (n - 1)) (fin r) →
      interp1Elem recip n x y ADEPT_INTERPOLATE_LINEAR 1 ev (fin r)
        = fin (lineThrough (x (n - 2)) (x (n - 1)) (y (n - 2)) (y (n - 1)) r)) := by
  have hd := hx.dir hn
  constructor
  · intro h
    rw [interp1Elem, select1_offFirst n x _ 1 _ h]
    exact eval1_pair_linear recip x y _ ev r 0 1 (hd.ne (by omega : 0 + 1 < n))
  · intro h
    rw [interp1Elem, select1_offLast hd hn 1 _ h]
    have e : n - 2 + 1 = n - 1 := by omega
    have := hd.ne (by omega : (n - 2) + 1 < n)
    rw [e] at this
    exact eval1_pair_linear recip x y _ ev r (n - 2) (n - 1) this

/-- clamp policy: beyond an end (finite or infinite query) the result is the end data value -/
theorem C20_extrap_clamp (recip : Bool) {n : Nat} {x : Nat → α} (y : Nat → α) (hx : Knots n x) (hn : 2 ≤ n)
    (scheme : Nat) (ev q : Ext α) :
    (OffFirst (decide (x 0 < x 1)) (x 0) q → interp1Elem recip n x y scheme 2 ev q = fin (y 0)) ∧
    (OffLast (decide (x 0 < x 1)) (x (n - 1)) q → interp1Elem recip n x y scheme 2 ev q = fin (y (n - 1))) := by
  constructor
  · intro h
    rw [interp1Elem, select1_offFirst n x _ 2 _ h]; rfl
  · intro h
    rw [interp1Elem, select1_offLast (hx.dir hn) hn 2 _ h]; rfl

/-- constant policy: beyond an end (finite or infinite query) the result is the given value
    (NaN when the caller gave none: the driver passes `Ext.nan` for the default argument) -/
theorem C20_extrap_constant (recip : Bool) {n : Nat} {x : Nat → α} (y : Nat → α) (hx : Knots n x) (hn : 2 ≤ n)
    (scheme : Nat) (ev q : Ext α)
    (h : OffFirst (decide (x 0 < x 1)) (x 0) q ∨ OffLast (decide (x 0 < x 1)) (x (n - 1)) q) :
    interp1Elem recip n x y scheme 3 ev q = ev := by
  rcases h with h | h
  · rw [interp1Elem, select1_offFirst n x _ 3 _ h]; rfl
  · rw [interp1Elem, select1_offLast (hx.dir hn) hn 3 _ h]; rfl

/-- a NaN query under the linear scheme gives NaN (every comparison is false, the bisection runs to
    the first pair, and the formula propagates the NaN) -/
theorem C20_nan_query_linear (recip : Bool) (n : Nat) (x y : Nat → α) (policy : Nat) (ev : Ext α) :
    interp1Elem recip n x y ADEPT_INTERPOLATE_LINEAR policy ev nan = nan := by
  have h : ∀ a b : Nat, linFormula recip x y (nan : Ext α) a b = nan := by
    intro a b
    cases recip <;> rfl
  cases hd : decide (x 0 < x 1) <;>
    simp [interp1Elem, hd, select1, ble, bge, eval1, h]

/-- an infinite query under linear extrapolation (`interp`): the formula is evaluated on the end segment
    and its result is not a finite number (`±inf` or NaN, by the IEEE rules for `inf·y`, `inf - inf`) -/
theorem C20_extrap_linear_inf (recip : Bool) {n : Nat} {x : Nat → α} (y : Nat → α) (hx : Knots n x) (hn : 2 ≤ n)
    (ev q : Ext α) (hq : q = pinf ∨ q = ninf) :
    (interp1Elem recip n x y ADEPT_INTERPOLATE_LINEAR 1 ev q).isFin = false := by
  have hd := hx.dir hn
  have e : n - 2 + 1 = n - 1 := by omega
  have hl := hd.ne (by omega : (n - 2) + 1 < n)
  rw [e] at hl
  have h0 := hd.ne (by omega : 0 + 1 < n)
  have hoff : OffFirst (decide (x 0 < x 1)) (x 0) q ∨ OffLast (decide (x 0 < x 1)) (x (n - 1)) q := by
    rcases hq with rfl | rfl <;> cases hdec : decide (x 0 < x 1) <;> simp [OffFirst, OffLast]
  rcases hoff with h | h
  · rw [interp1Elem, select1_offFirst n x _ 1 _ h]
    simpa [offSel, eval1, ADEPT_INTERPOLATE_LINEAR] using linFormula_inf_nonfin recip x y 0 1 h0 q hq
  · rw [interp1Elem, select1_offLast hd hn 1 _ h]
    simpa [offSel, eval1, ADEPT_INTERPOLATE_LINEAR] using linFormula_inf_nonfin recip x y (n - 2) (n - 1) hl q hq

/-! ## nearest neighbour -/

/-- `interp`, nearest-neighbour scheme (policy clamp, the default, for every finite query; policy
    constant for queries in the closed knot range): the result is the data value at a knot `k` that is
    nearest to the query, and among equally near knots `k` is the one with the lowest index (the tie
    rule of the code: `xii-x(jmin) > x(jmax)-xii` picks `jmax`, otherwise `jmin`). -/
theorem C20_nearest_spec (recip : Bool) {n : Nat} {x : Nat → α} (y : Nat → α) (hx : Knots n x) (hn : 2 ≤ n)
    {policy : Nat} (ev : Ext α) {r : α} (hp : policy = 2 ∨ (policy = 3 ∧ Inside n x r)) :
    ∃ k, interp1Elem recip n x y ADEPT_INTERPOLATE_NEAREST policy ev (fin r) = fin (y k) ∧
      IsNearestLow n x r k := by
  refine interp1_nearest recip y (hx.dir hn) hn (by omega) ev ?_
  rcases hp with h | ⟨_, h⟩
  · exact Or.inl h
  · exact Or.inr (hx.inRange hn h)

/-! ## 2-D and 3-D: tensor product of the 1-D operators -/

/-- `interp2d`, linear scheme, both coordinates inside their knot ranges: the result is obtained by
    interpolating every column `M[·][j]` piecewise-linearly in `x` at `qx` (giving `g j`) and then
    interpolating `g` piecewise-linearly in `y` at `qy` — the textbook bilinear interpolant.
    The four direction combinations are covered. -/
theorem C20_interp2_spec [HasRound α] {nx ny : Nat} {x y : Nat → α} (m : Nat → Nat → α)
    (hx : Knots nx x) (hy : Knots ny y) (hnx : 2 ≤ nx) (hny : 2 ≤ ny) (policy : Nat) (ev : Ext α) {rx ry : α}
    (hrx : Inside nx x rx) (hry : Inside ny y ry) :
    ∃ (v : α) (g : Nat → α),
      interp2Elem nx ny x y m ADEPT_INTERPOLATE_LINEAR policy ev (fin rx) (fin ry) = fin v ∧
      (∀ j, IsPWL nx x (fun i => m i j) rx (g j)) ∧ IsPWL ny y g ry v := by
  have bx := indexWeight_inrange (hx.dir hnx) hnx policy (hx.inRange hnx hrx)
  have by' := indexWeight_inrange (hy.dir hny) hny policy (hy.inRange hny hry)
  refine ⟨_, fun j => op1 (indexWeight nx x (decide (x 0 < x 1)) policy (fin rx)) (fun i => m i j), ?_,
    fun j => bx.op1_isPWL _, by'.op1_isPWL _⟩
  rw [interp2Elem, indexWeightR_linear, indexWeightR_linear, decide_gt_eq, decide_gt_eq]
  exact eval2_tensor m ev bx.valid by'.valid bx.weight by'.weight

/-- at a grid point `(x a, y b)` `interp2d` returns `M[a][b]` -/
theorem C20_interp2_knots [HasRound α] {nx ny : Nat} {x y : Nat → α} (m : Nat → Nat → α)
    (hx : Knots nx x) (hy : Knots ny y) (hnx : 2 ≤ nx) (hny : 2 ≤ ny) (policy : Nat) (ev : Ext α)
    {a b : Nat} (ha : a < nx) (hb : b < ny) :
    interp2Elem nx ny x y m ADEPT_INTERPOLATE_LINEAR policy ev (fin (x a)) (fin (y b)) = fin (m a b) := by
  obtain ⟨v, g, hv, hg, hgv⟩ := C20_interp2_spec m hx hy hnx hny policy ev (hx.inside_knot ha) (hy.inside_knot hb)
  have e1 : ∀ j, g j = m a j := fun j => IsPWL.knot (hx.dir hnx) ha (hg j)
  have e2 : v = g b := IsPWL.knot (hy.dir hny) hb hgv
  rw [hv, e2, e1]

/-- `interp3d`, linear scheme, all coordinates inside: interpolate in `z`, then in `y`, then in `x`
    (the textbook trilinear interpolant); the eight direction combinations are covered -/
theorem C20_interp3_spec [HasRound α] {nx ny nz : Nat} {x y z : Nat → α} (m : Nat → Nat → Nat → α)
    (hx : Knots nx x) (hy : Knots ny y) (hz : Knots nz z) (hnx : 2 ≤ nx) (hny : 2 ≤ ny) (hnz : 2 ≤ nz)
    (policy : Nat) (ev : Ext α) {rx ry rz : α}
    (hrx : Inside nx x rx) (hry : Inside ny y ry) (hrz : Inside nz z rz) :
    ∃ (v : α) (g : Nat → Nat → α) (h : Nat → α),
      interp3Elem nx ny nz x y z m ADEPT_INTERPOLATE_LINEAR policy ev (fin rx) (fin ry) (fin rz) = fin v ∧
      (∀ i j, IsPWL nz z (fun k => m i j k) rz (g i j)) ∧ (∀ i, IsPWL ny y (g i) ry (h i)) ∧ IsPWL nx x h rx v := by
  have bx := indexWeight_inrange (hx.dir hnx) hnx policy (hx.inRange hnx hrx)
  have by' := indexWeight_inrange (hy.dir hny) hny policy (hy.inRange hny hry)
  have bz := indexWeight_inrange (hz.dir hnz) hnz policy (hz.inRange hnz hrz)
  refine ⟨_, fun i j => op1 (indexWeight nz z (decide (z 0 < z 1)) policy (fin rz)) (fun k => m i j k),
    fun i => op1 (indexWeight ny y (decide (y 0 < y 1)) policy (fin ry))
      (fun j => op1 (indexWeight nz z (decide (z 0 < z 1)) policy (fin rz)) (fun k => m i j k)), ?_,
    fun i j => bz.op1_isPWL _, fun i => by'.op1_isPWL _, bx.op1_isPWL _⟩
  rw [interp3Elem, indexWeightR_linear, indexWeightR_linear, indexWeightR_linear, decide_gt_eq, decide_gt_eq,
    decide_gt_eq]
  exact eval3_tensor m ev bx.valid by'.valid bz.valid bx.weight by'.weight bz.weight

/-- at a grid point `interp3d` returns `M[a][b][c]` -/
theorem C20_interp3_knots [HasRound α] {nx ny nz : Nat} {x y z : Nat → α} (m : Nat → Nat → Nat → α)
    (hx : Knots nx x) (hy : Knots ny y) (hz : Knots nz z) (hnx : 2 ≤ nx) (hny : 2 ≤ ny) (hnz : 2 ≤ nz)
    (policy : Nat) (ev : Ext α) {a b c : Nat} (ha : a < nx) (hb : b < ny) (hc : c < nz) :
    interp3Elem nx ny nz x y z m ADEPT_INTERPOLATE_LINEAR policy ev (fin (x a)) (fin (y b)) (fin (z c))
      = fin (m a b c) := by
  obtain ⟨v, g, h, hv, hg, hh, hhv⟩ := C20_interp3_spec m hx hy hz hnx hny hnz policy ev
    (hx.inside_knot ha) (hy.inside_knot hb) (hz.inside_knot hc)
  have e1 : ∀ i j, g i j = m i j c := fun i j => IsPWL.knot (hz.dir hnz) hc (hg i j)
  have e2 : ∀ i, h i = g i b := fun i => IsPWL.knot (hy.dir hny) hb (hh i)
  have e3 : v = h a := IsPWL.knot (hx.dir hnx) ha hhv
  rw [hv, e3, e2, e1]

/-- extrapolation in `interp_get_indices_weights` (shared by `interp2d` and `interp3d`; `±inf` included):
    beyond the end where knot 0 lies — constant policy: the entry is invalid; clamp: index 0 with
    weight 1 (the end value); linear, finite query: index 0 with the weight of the end segment's line.
    Beyond the other end: invalid / index `n-2` with weight 0 / the last segment's line. -/
theorem C20_index_weight_extrap {n : Nat} {x : Nat → α} (hx : Knots n x) (hn : 2 ≤ n) (q : Ext α) :
    (OffFirst (decide (x 1 > x 0)) (x 0) q →
      (indexWeight n x (decide (x 1 > x 0)) 3 q).valid = false ∧
      indexWeight n x (decide (x 1 > x 0)) 2 q = { ind0 := 0, weight0 := fin 1 } ∧
      ∀ r, q = fin r → indexWeight n x (decide (x 1 > x 0)) 1 q =
        { ind0 := 0, weight0 := fin ((x 1 - r) / (x 1 - x 0)) }) ∧
    (OffLast (decide (x 1 > x 0)) (x (n - 1)) q →
      (indexWeight n x (decide (x 1 > x 0)) 3 q).valid = false ∧
      indexWeight n x (decide (x 1 > x 0)) 2 q = { ind0 := n - 2, weight0 := fin 0 } ∧
      ∀ r, q = fin r → indexWeight n x (decide (x 1 > x 0)) 1 q =
        { ind0 := n - 2, weight0 := fin ((x (n - 1) - r) / (x (n - 1) - x (n - 2))) }) := by
  have hd := hx.dir hn
  rw [decide_gt_eq]
  constructor
  · intro h
    refine ⟨?_, ?_, ?_⟩
    · rw [indexWeight_offFirst n x _ 3 q h]; exact offEnd_constant x q 0 1
    · rw [indexWeight_offFirst n x _ 2 q h]; exact offEnd_clamp x q 0 1
    · rintro r rfl
      rw [indexWeight_offFirst n x _ 1 _ h]
      exact offEnd_linear x r 0 1 (hd.ne (by omega : 0 + 1 < n))
  · intro h
    have e : n - 2 + 1 = n - 1 := by omega
    refine ⟨?_, ?_, ?_⟩
    · rw [indexWeight_offLast hd hn 3 q h]; exact offEnd_constant x q (n - 2) 0
    · rw [indexWeight_offLast hd hn 2 q h]; exact offEnd_clamp x q (n - 2) 0
    · rintro r rfl
      rw [indexWeight_offLast hd hn 1 _ h, offEnd_linear x r (n - 2) 0 (hd.ne (by omega : (n - 2) + 1 < n)), e]

/-- the final loops: with valid entries and finite weights the result is the tensor product of the 1-D
    operators `f ↦ w·f(i) + (1-w)·f(i+1)`; if any entry is invalid (constant policy, a coordinate
    outside) the result is the extrapolation value -/
theorem C20_interp2_tensor (m : Nat → Nat → α) (ev : Ext α) (wx wy : IW α) :
    (wx.valid = true → wy.valid = true → ∀ a b, wx.weight0 = fin a → wy.weight0 = fin b →
      eval2 m ev wx wy = fin (op1 wy (fun j => op1 wx (fun i => m i j)))) ∧
    (wx.valid = false ∨ wy.valid = false → eval2 m ev wx wy = ev) :=
  ⟨fun hx hy _ _ ha hb => eval2_tensor m ev hx hy ha hb, eval2_invalid m ev⟩

theorem C20_interp3_tensor (m : Nat → Nat → Nat → α) (ev : Ext α) (wx wy wz : IW α) :
    (wx.valid = true → wy.valid = true → wz.valid = true → ∀ a b c, wx.weight0 = fin a → wy.weight0 = fin b →
      wz.weight0 = fin c →
      eval3 m ev wx wy wz = fin (op1 wx (fun i => op1 wy (fun j => op1 wz (fun k => m i j k))))) ∧
    (wx.valid = false ∨ wy.valid = false ∨ wz.valid = false → eval3 m ev wx wy wz = ev) :=
  ⟨fun hx hy hz _ _ _ ha hb hc => eval3_tensor m ev hx hy hz ha hb hc, eval3_invalid m ev⟩

/-- `interp2d`, nearest-neighbour scheme, both coordinates inside (over `ℚ`, where C `round()` is
    defined): the result is `M[kx][ky]` with `kx`, `ky` nearest knots in their dimensions, ties to the
    lower index — the same rule as the explicit comparison of the 1-D routine (`round(0.5) = 1`). -/
theorem C20_nearest2_spec {nx ny : Nat} {x y : Nat → ℚ} (m : Nat → Nat → ℚ)
    (hx : Knots nx x) (hy : Knots ny y) (hnx : 2 ≤ nx) (hny : 2 ≤ ny) (policy : Nat) (ev : Ext ℚ) {rx ry : ℚ}
    (hrx : Inside nx x rx) (hry : Inside ny y ry) :
    ∃ kx ky, interp2Elem nx ny x y m ADEPT_INTERPOLATE_NEAREST policy ev (fin rx) (fin ry) = fin (m kx ky) ∧
      IsNearestLow nx x rx kx ∧ IsNearestLow ny y ry ky := by
  obtain ⟨kx, hkx, vx, ⟨a, ha⟩, ox⟩ := indexWeightR_nearest (hx.dir hnx) hnx policy (hx.inRange hnx hrx)
  obtain ⟨ky, hky, vy, ⟨b, hb⟩, oy⟩ := indexWeightR_nearest (hy.dir hny) hny policy (hy.inRange hny hry)
  refine ⟨kx, ky, ?_, hkx, hky⟩
  rw [interp2Elem, decide_gt_eq, decide_gt_eq, eval2_tensor m ev vx vy ha hb, oy, ox]

/-- the same for `interp3d` -/
theorem C20_nearest3_spec {nx ny nz : Nat} {x y z : Nat → ℚ} (m : Nat → Nat → Nat → ℚ)
    (hx : Knots nx x) (hy : Knots ny y) (hz : Knots nz z) (hnx : 2 ≤ nx) (hny : 2 ≤ ny) (hnz : 2 ≤ nz)
    (policy : Nat) (ev : Ext ℚ) {rx ry rz : ℚ}
    (hrx : Inside nx x rx) (hry : Inside ny y ry) (hrz : Inside nz z rz) :
    ∃ kx ky kz,
      interp3Elem nx ny nz x y z m ADEPT_INTERPOLATE_NEAREST policy ev (fin rx) (fin ry) (fin rz) = fin (m kx ky kz) ∧
      IsNearestLow nx x rx kx ∧ IsNearestLow ny y ry ky ∧ IsNearestLow nz z rz kz := by
  obtain ⟨kx, hkx, vx, ⟨a, ha⟩, ox⟩ := indexWeightR_nearest (hx.dir hnx) hnx policy (hx.inRange hnx hrx)
  obtain ⟨ky, hky, vy, ⟨b, hb⟩, oy⟩ := indexWeightR_nearest (hy.dir hny) hny policy (hy.inRange hny hry)
  obtain ⟨kz, hkz, vz, ⟨c, hc⟩, oz⟩ := indexWeightR_nearest (hz.dir hnz) hnz policy (hz.inRange hnz hrz)
  refine ⟨kx, ky, kz, ?_, hkx, hky, hkz⟩
  rw [interp3Elem, decide_gt_eq, decide_gt_eq, decide_gt_eq, eval3_tensor m ev vx vy vz ha hb hc, ox]
  simp only [oy, oz]

/-! ## sizes, exceptions, trailing dimensions -/

/-- `size_mismatch`: `interp` when the knot count differs from the first extent of the data or is zero;
    `interp2d` / `interp3d` when a knot count differs from the corresponding extent, is below 2, or the
    query vectors differ in length — in each case before the option word is looked at -/
theorem C20_sizes [HasRound α] (e : Bool) (xs ys zs : Array α) (dims : List Nat) (data : Array α)
    (xi yi zi : List (Ext α)) (o : Nat) (ev : Ext α) :
    (xs.size ≠ dims.headD 0 ∨ xs.size = 0 → interp1 e xs dims data xi o ev = .error .sizeMismatch) ∧
    (xs.size ≠ dims.getD 0 0 ∨ ys.size ≠ dims.getD 1 0 ∨ xs.size < 2 ∨ ys.size < 2 ∨ xi.length ≠ yi.length →
      interp2 xs ys dims data xi yi o ev = .error .sizeMismatch) ∧
    (xs.size ≠ dims.getD 0 0 ∨ ys.size ≠ dims.getD 1 0 ∨ zs.size ≠ dims.getD 2 0 ∨
      xs.size < 2 ∨ ys.size < 2 ∨ zs.size < 2 ∨ xi.length ≠ yi.length ∨ xi.length ≠ zi.length →
      interp3 xs ys zs dims data xi yi zi o ev = .error .sizeMismatch) :=
  ⟨interp1_size_mismatch e xs dims data xi o ev, interp2_size_mismatch xs ys dims data xi yi o ev,
   interp3_size_mismatch xs ys zs dims data xi yi zi o ev⟩

/-- a single knot: the one slice is copied to every output, whatever the query and the option word -/
theorem C20_single_knot (e : Bool) (xs : Array α) (ydims : List Nat) (data : Array α) (xi : List (Ext α))
    (o : Nat) (ev : Ext α) (h : xs.size = ydims.headD 0) (h1 : xs.size = 1) :
    (interp1 e xs ydims data xi o ev).map Result.vals = .ok
      (xi.flatMap fun _ => (List.range (prod (ydims.drop 1))).map fun k => fin (data.getD k 0)) :=
  interp1_single e xs ydims data xi o ev h h1

/-- consistent sizes (at least two knots) and an unsupported option word: `array_exception` -/
theorem C20_bad_options [HasRound α] (e : Bool) (xs ys : Array α) (dims : List Nat) (data : Array α)
    (xi yi : List (Ext α)) (o : Nat) (ev : Ext α) (ho : extractInterpExtrap o = .error .arrayException) :
    (xs.size = dims.headD 0 → 2 ≤ xs.size → interp1 e xs dims data xi o ev = .error .arrayException) ∧
    (xs.size = dims.getD 0 0 → ys.size = dims.getD 1 0 → 2 ≤ xs.size → 2 ≤ ys.size → xi.length = yi.length →
      interp2 xs ys dims data xi yi o ev = .error .arrayException) :=
  ⟨fun h h2 => interp1_bad_options e xs dims data xi o ev h h2 ho,
   fun h1 h2 h3 h4 h5 => interp2_bad_options xs ys dims data xi yi o ev h1 h2 h3 h4 h5 ho⟩

/-- consistent sizes and a supported option word: the result of `interp` lists, query by query, for
    every element `k` of a slice (trailing dimensions flattened row-major) the element
    `interp1Elem` computed from the knots and the `k`-th data column: trailing dimensions are a `map`.
    The direction is decided by `x(0) < x(1)`. -/
theorem C20_array1 (e : Bool) (xs : Array α) (ydims : List Nat) (data : Array α) (xi : List (Ext α))
    (o : Nat) (ev : Ext α) (h : xs.size = ydims.headD 0) (h2 : 2 ≤ xs.size) {s p : Nat}
    (ho : extractInterpExtrap o = .ok (s, p)) :
    (interp1 e xs ydims data xi o ev).map Result.vals = .ok
      (xi.flatMap fun q => (List.range (prod (ydims.drop 1))).map fun k =>
        interp1Elem e xs.size (fun j => xs.getD j 0) (fun j => data.getD (j * prod (ydims.drop 1) + k) 0) s p ev q) :=
  interp1_ok e xs ydims data xi o ev h h2 ho

/-- the same for `interp2d` (queries are the pairs `(xi[i], yi[i])`) -/
theorem C20_array2 [HasRound α] (xs ys : Array α) (mdims : List Nat) (data : Array α)
    (xi yi : List (Ext α)) (o : Nat) (ev : Ext α)
    (h1 : xs.size = mdims.getD 0 0) (h2 : ys.size = mdims.getD 1 0) (h3 : 2 ≤ xs.size) (h4 : 2 ≤ ys.size)
    (h5 : xi.length = yi.length) {s p : Nat} (ho : extractInterpExtrap o = .ok (s, p)) :
    (interp2 xs ys mdims data xi yi o ev).map Result.vals = .ok
      ((xi.zip yi).flatMap fun q => (List.range (prod (mdims.drop 2))).map fun k =>
        interp2Elem xs.size ys.size (fun j => xs.getD j 0) (fun j => ys.getD j 0)
          (fun i j => data.getD ((i * ys.size + j) * prod (mdims.drop 2) + k) 0) s p ev q.1 q.2) :=
  interp2_ok xs ys mdims data xi yi o ev h1 h2 h3 h4 h5 ho

/-- and for `interp3d` -/
theorem C20_array3 [HasRound α] (xs ys zs : Array α) (mdims : List Nat) (data : Array α)
    (xi yi zi : List (Ext α)) (o : Nat) (ev : Ext α)
    (h1 : xs.size = mdims.getD 0 0) (h2 : ys.size = mdims.getD 1 0) (h2' : zs.size = mdims.getD 2 0)
    (h3 : 2 ≤ xs.size) (h4 : 2 ≤ ys.size) (h4' : 2 ≤ zs.size)
    (h5 : xi.length = yi.length) (h5' : xi.length = zi.length) {s p : Nat}
    (ho : extractInterpExtrap o = .ok (s, p)) :
    (interp3 xs ys zs mdims data xi yi zi o ev).map Result.vals = .ok
      ((xi.zip (yi.zip zi)).flatMap fun q => (List.range (prod (mdims.drop 3))).map fun l =>
        interp3Elem xs.size ys.size zs.size (fun j => xs.getD j 0) (fun j => ys.getD j 0) (fun j => zs.getD j 0)
          (fun i j k => data.getD (((i * ys.size + j) * zs.size + k) * prod (mdims.drop 3) + l) 0)
          s p ev q.1 q.2.1 q.2.2) :=
  interp3_ok xs ys zs mdims data xi yi zi o ev h1 h2 h2' h3 h4 h4' h5 h5' ho

/-! ## active data: the weights are the coefficients of the data -/

/-- For a finite query whose element is not the extrapolation constant, the value of an output element
    is the linear form `Σ w·y[j]` over the weight list the model reports (the list the correspondence check
    compares with the Jacobian computed by the Adept stack), and that list does not depend on the data.
    Hence the derivative of the output with respect to `y[j]` is the weight attached to `j`; for the
    extrapolation constant the list is empty and the derivative zero. -/
theorem C20_active_weights (recip : Bool) {n : Nat} {x : Nat → α} (y : Nat → α) (hx : Knots n x) (hn : 2 ≤ n)
    (scheme policy : Nat) (ev : Ext α) (r : α) :
    (select1 n x (decide (x 0 < x 1)) policy (fin r) ≠ .extrap →
      interp1Elem recip n x y scheme policy ev (fin r) = dotW (interp1Weights n x scheme policy (fin r)) y) ∧
    (select1 n x (decide (x 0 < x 1)) policy (fin r) = .extrap →
      interp1Elem recip n x y scheme policy ev (fin r) = ev ∧ interp1Weights n x scheme policy (fin r) = []) := by
  have hd := hx.dir hn
  constructor
  · intro hs
    refine eval1_eq_dotW recip x y _ scheme ev r _ hs ?_
    intro a b hab
    exact select1_pair_ne hd hn policy r hab
  · intro hs
    simp [interp1Elem, interp1Weights, hs, eval1, weights1]

/-- the same for `interp2d` / `interp3d`: with valid entries and finite weights the value is the linear
    form over the four / eight weights the model reports (products of the 1-D weights); with an invalid
    entry the value is the extrapolation constant and the weight list is empty -/
theorem C20_active_weights2 (m : Nat → Nat → α) (ev : Ext α) (wx wy : IW α) :
    (wx.valid = true → wy.valid = true → ∀ a b, wx.weight0 = fin a → wy.weight0 = fin b →
      eval2 m ev wx wy = dotW2 (weights2 wx wy) m) ∧
    (wx.valid = false ∨ wy.valid = false → eval2 m ev wx wy = ev ∧ weights2 wx wy = []) :=
  ⟨fun hx hy _ _ ha hb => eval2_eq_dotW2 m ev hx hy ha hb, fun h => ⟨eval2_invalid m ev h, weights2_invalid h⟩⟩

theorem C20_active_weights3 (m : Nat → Nat → Nat → α) (ev : Ext α) (wx wy wz : IW α) :
    (wx.valid = true → wy.valid = true → wz.valid = true → ∀ a b c, wx.weight0 = fin a → wy.weight0 = fin b →
      wz.weight0 = fin c → eval3 m ev wx wy wz = dotW3 (weights3 wx wy wz) m) ∧
    (wx.valid = false ∨ wy.valid = false ∨ wz.valid = false →
      eval3 m ev wx wy wz = ev ∧ weights3 wx wy wz = []) :=
  ⟨fun hx hy hz _ _ _ ha hb hc => eval3_eq_dotW3 m ev hx hy hz ha hb hc,
   fun h => ⟨eval3_invalid m ev h, weights3_invalid h⟩⟩

/-! ## non-vacuity -/

/-- the hypotheses are satisfiable: `x j = j` is an increasing knot vector of any length, `x j = -j` a
    decreasing one, and every knot is inside the range -/
example : Knots 5 (fun j => (j : ℚ)) ∧ Knots 5 (fun j => -(j : ℚ)) ∧ Inside 5 (fun j => (j : ℚ)) 3 := by
  refine ⟨Or.inl ?_, Or.inr ?_, ?_⟩
  · intro i j hij _; show ((i : ℚ) < (j : ℚ)); exact_mod_cast hij
  · intro i j hij _; show (-(j : ℚ) < -(i : ℚ)); rw [neg_lt_neg_iff]; exact_mod_cast hij
  · left; show ((0 : ℕ) : ℚ) ≤ 3 ∧ (3 : ℚ) ≤ ((5 - 1 : ℕ) : ℚ); norm_num

/-- F-15 regression on the model (FIXED code): knots 1 2 4, data 10 20 40, constant policy, value -1:
    the end-knot queries 1 and 4 return the data values, an outside query returns -1 -/
example :
    (interp1 false #[(1 : Rat), 2, 4] [3] #[10, 20, 40] [fin 1, fin 2, fin 4, fin (1/2), fin 3] 3 (fin (-1))).map
      (fun r => r.vals.map fun v => match v with | fin a => a | _ => 0)
      = .ok [10, 20, 40, -1, 30] := by decide +kernel

end Adept.Interp
