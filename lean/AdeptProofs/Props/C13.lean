import AdeptProofs.Lemmas.Tape
import AdeptProofs.Lemmas.TapeLawFree
/-!
# C13 — parallel Jacobian computation equals the serial one

The OpenMP routines are modelled (AdeptModel/Tape.lean) as a fold over the blocks in the order `sched`
in which the threads happen to execute them; each block starts from a freshly zeroed private buffer.

Two layers.  The first (`C13_omp_*_spec`, `C13_omp_eq_serial_*`) is stated over a commutative ring and says that the
parallel routines compute the Jacobian.  The second (`…_lawfree`, end of the file) assumes NO algebraic law at all: the
carrier has the operations `+ * 0 1` and a zero test and nothing else, so "equal" there means "the same tree of
operations" — on IEEE doubles, the same bits.  It is the statement the property makes ("element for element identical"),
and the one checks/c13.py ties to the C++ on tapes with non-integer multipliers, bit for bit.
-/
namespace Adept.Tape
variable {R : Type} [CommRing R] [DecidableEq R]

/-- The `⌈n/W⌉` blocks, the last one of size `n % W` when that is non-zero, tile `[0, n)` exactly. -/
theorem C13_omp_blocks_cover (W n : Nat) (hW : 0 < W) :
    (∀ j, j < n → ∃ ib, ib < nBlocks W n ∧ W * ib ≤ j ∧ j < W * ib + ompBlockSize W n (nBlocks W n) ib) ∧
    (∀ ib, ib < nBlocks W n → W * ib + ompBlockSize W n (nBlocks W n) ib ≤ n) :=
  omp_blocks_cover W n hW

/-- For EVERY schedule that executes each block exactly once (any permutation of the block indices, hence
    any number of threads and any static partition), the forward OpenMP routine meets the Jacobian
    specification … -/
theorem C13_omp_fwd_spec (t : List (Stmt R)) (c : JacCfg) (indep dep : List Nat) (sched : List Nat) (out : Out R)
    (hW : 0 < c.W) (ht : WF t c.maxGrad) (hi : ∀ x ∈ indep, x < c.maxGrad) (hd : ∀ y ∈ dep, y < c.maxGrad)
    (hl : LayoutOK dep.length indep.length c.depOff c.indepOff out.length)
    (hs : sched.Perm (List.range (nBlocks c.W indep.length))) :
    JacSpec t c.maxGrad indep dep c.depOff c.indepOff out (jacFwdOmp t c indep dep sched out) :=
  jacFwdOmp_spec t c indep dep sched out hW ht hi hd hl hs

/-- … and so does the reverse one. -/
theorem C13_omp_rev_spec (t : List (Stmt R)) (c : JacCfg) (indep dep : List Nat) (sched : List Nat) (out : Out R)
    (hW : 0 < c.W) (ht : WF t c.maxGrad) (hi : ∀ x ∈ indep, x < c.maxGrad) (hd : ∀ y ∈ dep, y < c.maxGrad)
    (hl : LayoutOK dep.length indep.length c.depOff c.indepOff out.length)
    (hs : sched.Perm (List.range (nBlocks c.W dep.length))) :
    JacSpec t c.maxGrad indep dep c.depOff c.indepOff out (jacRevOmp t c indep dep sched out) :=
  jacRevOmp_spec t c indep dep sched out hW ht hi hd hl hs

/-- Therefore the parallel result is element for element the serial result, for every schedule, every
    `(m, n, W)` and every recording — forward … -/
theorem C13_omp_eq_serial_fwd (t : List (Stmt R)) (c : JacCfg) (indep dep : List Nat) (sched : List Nat) (out : Out R)
    (hW : 0 < c.W) (ht : WF t c.maxGrad) (hi : ∀ x ∈ indep, x < c.maxGrad) (hd : ∀ y ∈ dep, y < c.maxGrad)
    (hl : LayoutOK dep.length indep.length c.depOff c.indepOff out.length)
    (hs : sched.Perm (List.range (nBlocks c.W indep.length))) :
    jacFwdOmp t c indep dep sched out = jacFwdSerial t c indep dep out :=
  omp_eq_serial_fwd t c indep dep sched out hW ht hi hd hl hs

/-- … and reverse. -/
theorem C13_omp_eq_serial_rev (t : List (Stmt R)) (c : JacCfg) (indep dep : List Nat) (sched : List Nat) (out : Out R)
    (hW : 0 < c.W) (ht : WF t c.maxGrad) (hi : ∀ x ∈ indep, x < c.maxGrad) (hd : ∀ y ∈ dep, y < c.maxGrad)
    (hl : LayoutOK dep.length indep.length c.depOff c.indepOff out.length)
    (hs : sched.Perm (List.range (nBlocks c.W dep.length))) :
    jacRevOmp t c indep dep sched out = jacRevSerial t c indep dep out :=
  omp_eq_serial_rev t c indep dep sched out hW ht hi hd hl hs

/-- The OpenMP path is taken iff it is compiled in, not manually disabled, there is more than one block
    and more than one thread is available. -/
theorem C13_dispatch (haveOmp disabled : Bool) (count W maxThreads : Nat) :
    useOmp haveOmp disabled count W maxThreads = true ↔
      haveOmp = true ∧ disabled = false ∧ W < count ∧ 1 < maxThreads := by
  simp [useOmp, and_assoc]

/-! The Jacobian routines only read the recording: in the model they take the tape as an argument and return
the output buffer (nothing to prove); on the real code the correspondence check compares the tape dump
before and after every Jacobian call. -/

/-! ## Law-free layer: the parallel result is the serial result operation for operation

No ring, no associativity, no `0 + x = x`: `R` is ANY type with `+ * 0 1`, `nz : R → Bool` is ANY zero test.  The forward
routines are `jacFwdSerial` / `jacFwdOmp` (they never needed a law to run); the reverse routines are the transcriptions
`jacRevSerialB` / `jacRevOmpB` of the code as compiled, with the block-wide `n_non_zero` flag (see AdeptModel/Tape.lean).
What differs between the two routines — which kernel runs on the short last block (full width with zero seeds in the
unused lanes in `jacobian_forward_openmp`, `kernel_extra` on `n % W` lanes in `jacobian_forward`), the order in which the
blocks are executed, by how many threads — is proved not to reach any output cell. -/

section LawFree
variable {R : Type} [Add R] [Mul R] [Zero R] [One R]

/-- Forward, law-free: for every carrier with the four operations, every recording, every `(m, n, W ≥ 1)`, every injective
    layout and EVERY schedule that runs each block once, `jacobian_forward_openmp` leaves in each cell `(i,j)` exactly the
    expression `Stack::compute_tangent_linear` computes from the seed `e_{x_j}`, read at `y_i`, and touches no other cell. -/
theorem C13_omp_fwd_cells_lawfree (t : List (Stmt R)) (c : JacCfg) (indep dep : List Nat) (sched : List Nat) (out : Out R)
    (hW : 0 < c.W) (hl : LayoutOK dep.length indep.length c.depOff c.indepOff out.length)
    (hs : sched.Perm (List.range (nBlocks c.W indep.length))) :
    LF.JacSpecE (fun i j => LF.entryFwd t c.maxGrad (indep.getD j 0) (dep.getD i 0)) dep.length indep.length
      c.depOff c.indepOff out (jacFwdOmp t c indep dep sched out) :=
  LF.jacFwdOmp_spec t c indep dep sched out hW hl hs

/-- Forward, law-free: parallel = serial as buffers, cell for cell, operation for operation — although the parallel
    routine runs the full-width kernel on the short last block and the serial one `jacobian_forward_kernel_extra`. -/
theorem C13_omp_eq_serial_fwd_lawfree (t : List (Stmt R)) (c : JacCfg) (indep dep : List Nat) (sched : List Nat) (out : Out R)
    (hW : 0 < c.W) (hl : LayoutOK dep.length indep.length c.depOff c.indepOff out.length)
    (hs : sched.Perm (List.range (nBlocks c.W indep.length))) :
    jacFwdOmp t c indep dep sched out = jacFwdSerial t c indep dep out :=
  (LF.jacFwdOmp_spec t c indep dep sched out hW hl hs).unique (LF.jacFwdSerial_spec t c indep dep out hW hl)

/-- Reverse, law-free, for ANY zero test: parallel = serial as buffers.  (Each block of `jacobian_reverse_openmp` is the
    same computation as the block of `jacobian_reverse` with the same index — same lanes, same flag — and the blocks write
    disjoint cells.) -/
theorem C13_omp_eq_serial_rev_lawfree (nz : R → Bool) (t : List (Stmt R)) (c : JacCfg) (indep dep : List Nat)
    (sched : List Nat) (out : Out R)
    (hW : 0 < c.W) (hl : LayoutOK dep.length indep.length c.depOff c.indepOff out.length)
    (hs : sched.Perm (List.range (nBlocks c.W dep.length))) :
    jacRevOmpB nz t c indep dep sched out = jacRevSerialB nz t c indep dep out :=
  (LF.jacRevOmpB_spec nz t c indep dep sched out hW hl hs).unique (LF.jacRevSerialB_spec nz t c indep dep out hW hl)

/-- Any two schedules (two thread counts, two static partitions, two runs) give the same forward buffer … -/
theorem C13_any_two_schedules_fwd_lawfree (t : List (Stmt R)) (c : JacCfg) (indep dep : List Nat) (s₁ s₂ : List Nat)
    (out : Out R) (hW : 0 < c.W) (hl : LayoutOK dep.length indep.length c.depOff c.indepOff out.length)
    (h₁ : s₁.Perm (List.range (nBlocks c.W indep.length))) (h₂ : s₂.Perm (List.range (nBlocks c.W indep.length))) :
    jacFwdOmp t c indep dep s₁ out = jacFwdOmp t c indep dep s₂ out :=
  (LF.jacFwdOmp_spec t c indep dep s₁ out hW hl h₁).unique (LF.jacFwdOmp_spec t c indep dep s₂ out hW hl h₂)

/-- … and the same reverse buffer. -/
theorem C13_any_two_schedules_rev_lawfree (nz : R → Bool) (t : List (Stmt R)) (c : JacCfg) (indep dep : List Nat)
    (s₁ s₂ : List Nat) (out : Out R) (hW : 0 < c.W)
    (hl : LayoutOK dep.length indep.length c.depOff c.indepOff out.length)
    (h₁ : s₁.Perm (List.range (nBlocks c.W dep.length))) (h₂ : s₂.Perm (List.range (nBlocks c.W dep.length))) :
    jacRevOmpB nz t c indep dep s₁ out = jacRevOmpB nz t c indep dep s₂ out :=
  (LF.jacRevOmpB_spec nz t c indep dep s₁ out hW hl h₁).unique (LF.jacRevOmpB_spec nz t c indep dep s₂ out hW hl h₂)

/-- The C++ kernels loop statement by statement over all lanes; lane by lane (`kernelFwd`, used above) is the same
    computation. -/
theorem C13_kernel_statement_major_lawfree (t : List (Stmt R)) (nl : Nat) (b : Buf R) :
    kernelFwdS t nl b = kernelFwd t nl b := LF.kernelFwdS_eq t nl b

end LawFree

/-- Link of the two layers: over a commutative ring the reverse routines as compiled (block-wide zero flag) ARE the
    lane-wise routines of the first layer, so `C13_omp_rev_spec` / `C13_omp_eq_serial_rev` speak about the compiled code. -/
theorem C13_rev_blockwise_eq_lanewise (t : List (Stmt R)) (c : JacCfg) (indep dep : List Nat) (sched : List Nat) (out : Out R) :
    jacRevOmpB (fun a => decide (a ≠ 0)) t c indep dep sched out = jacRevOmp t c indep dep sched out ∧
    jacRevSerialB (fun a => decide (a ≠ 0)) t c indep dep out = jacRevSerial t c indep dep out :=
  ⟨LF.jacRevOmpB_ring t c indep dep sched out, LF.jacRevSerialB_ring t c indep dep out⟩

/-! Non-vacuity: 5 independents, W = 2 gives 3 blocks, the last of size 1; `[2,0,1]` is a schedule. -/
example : nBlocks 2 5 = 3 ∧ ompBlockSize 2 5 3 2 = 1 ∧ ([2, 0, 1] : List Nat).Perm (List.range (nBlocks 2 5)) := by
  refine ⟨by decide, by decide, ?_⟩
  decide

end Adept.Tape
