import AdeptProofs.Lemmas.Tape
/-!
# C13 — parallel Jacobian computation equals the serial one

The OpenMP routines are modelled (AdeptModel/Tape.lean) as a fold over the blocks in the order `sched`
in which the threads happen to execute them; each block starts from a freshly zeroed private buffer.
-/
namespace Adept.Tape
variable {R : Type} [CommRing R] [DecidableEq R]

/-- The `⌈n/W⌉` blocks, the last one of size `n % W` when that is non-zero, tile `[0, n)` exactly. -/
theorem C13_omp_blocks_cover (W n : Nat) (hW : 0 < W) :
    (∀ j, j < n → ∃ ib, ib < nBlocks W n ∧ W * ib ≤ j ∧ j < W * ib + ompBlockSize W n (nBlocks W n) ib) ∧
    (∀ ib, ib < nBlocks W n → W * ib + ompBlockSize W n (nBlocks W n) ib ≤ n) :=
  omp_blocks_cover W n hW

/-- For EVERY schedule that executes each block exactly once (any permutation of the block indices, hence
    any number of threads and any static partition), the forward OpenMP routine meets the Jacobian
    specification … -/
theorem C13_omp_fwd_spec (t : List (Stmt R)) (c : JacCfg) (indep dep : List Nat) (sched : List Nat) (out : Out R)
    (hW : 0 < c.W) (ht : WF t c.maxGrad) (hi : ∀ x ∈ indep, x < c.maxGrad) (hd : ∀ y ∈ dep, y < c.maxGrad)
    (hl : LayoutOK dep.length indep.length c.depOff c.indepOff out.length)
    (hs : sched.Perm (List.range (nBlocks c.W indep.length))) :
    JacSpec t c.maxGrad indep dep c.depOff c.indepOff out (jacFwdOmp t c indep dep sched out) :=
  jacFwdOmp_spec t c indep dep sched out hW ht hi hd hl hs

/-- … and so does the reverse one. -/
theorem C13_omp_rev_spec (t : List (Stmt R)) (c : JacCfg) (indep dep : List Nat) (sched : List Nat) (out : Out R)
    (hW : 0 < c.W) (ht : WF t c.maxGrad) (hi : ∀ x ∈ indep, x < c.maxGrad) (hd : ∀ y ∈ dep, y < c.maxGrad)
    (hl : LayoutOK dep.length indep.length c.depOff c.indepOff out.length)
    (hs : sched.Perm (List.range (nBlocks c.W dep.length))) :
    JacSpec t c.maxGrad indep dep c.depOff c.indepOff out (jacRevOmp t c indep dep sched out) :=
  jacRevOmp_spec t c indep dep sched out hW ht hi hd hl hs

/-- Therefore the parallel result is element for element the serial result, for every schedule, every
    `(m, n, W)` and every recording — forward … -/
theorem C13_omp_eq_serial_fwd (t : List (Stmt R)) (c : JacCfg) (indep dep : List Nat) (sched : List Nat) (out : Out R)
    (hW : 0 < c.W) (ht : WF t c.maxGrad) (hi : ∀ x ∈ indep, x < c.maxGrad) (hd : ∀ y ∈ dep, y < c.maxGrad)
    (hl : LayoutOK dep.length indep.length c.depOff c.indepOff out.length)
    (hs : sched.Perm (List.range (nBlocks c.W indep.length))) :
    jacFwdOmp t c indep dep sched out = jacFwdSerial t c indep dep out :=
  omp_eq_serial_fwd t c indep dep sched out hW ht hi hd hl hs

/-- … and reverse. -/
theorem C13_omp_eq_serial_rev (t : List (Stmt R)) (c : JacCfg) (indep dep : List Nat) (sched : List Nat) (out : Out R)
    (hW : 0 < c.W) (ht : WF t c.maxGrad) (hi : ∀ x ∈ indep, x < c.maxGrad) (hd : ∀ y ∈ dep, y < c.maxGrad)
    (hl : LayoutOK dep.length indep.length c.depOff c.indepOff out.length)
    (hs : sched.Perm (List.range (nBlocks c.W dep.length))) :
    jacRevOmp t c indep dep sched out = jacRevSerial t c indep dep out :=
  omp_eq_serial_rev t c indep dep sched out hW ht hi hd hl hs

/-- The OpenMP path is taken iff it is compiled in, not manually disabled, there is more than one block
    and more than one thread is available. -/
theorem C13_dispatch (haveOmp disabled : Bool) (count W maxThreads : Nat) :
    useOmp haveOmp disabled count W maxThreads = true ↔
      haveOmp = true ∧ disabled = false ∧ W < count ∧ 1 < maxThreads := by
  simp [useOmp, and_assoc]

/-! The Jacobian routines only read the recording: in the model they take the tape as an argument and return
the output buffer (nothing to prove); on the real code the correspondence check compares the tape dump
before and after every Jacobian call. -/

/-! Non-vacuity: 5 independents, W = 2 gives 3 blocks, the last of size 1; `[2,0,1]` is a schedule. -/
example : nBlocks 2 5 = 3 ∧ ompBlockSize 2 5 3 2 = 1 ∧ ([2, 0, 1] : List Nat).Perm (List.range (nBlocks 2 5)) := by
  refine ⟨by decide, by decide, ?_⟩
  decide

end Adept.Tape
