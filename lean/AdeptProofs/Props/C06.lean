import AdeptProofs.Lemmas.Views
import AdeptProofs.Lemmas.ViewsElem
import AdeptProofs.Lemmas.IndexedViews
/-!
# C06 — views address exactly the elements their index expressions denote

Property theorems only; helper lemmas live in `AdeptProofs/Lemmas/Views.lean`.
All statements are about `AdeptModel/Views.lean`, the transcription of `Array::operator()` (scalar,
`range`, `stride`, `__`, `end` arithmetic), `subset`, `operator[]`, `T`, `permute`, `diag_vector`,
`submatrix_on_diagonal`, `reshape`, `soft_link` and `is_contiguous`; the correspondence check
(checks/c06.py) ties that model to the C++ on every run, in the default and in the
`-DADEPT_BOUNDS_CHECKING` build.  The last section (`C06_indexed_*`) is about integer-vector indexing
(`AdeptModel/IndexedViews.lean`, the transcription of `IndexedArray.h`): `A(idx)`, `M(rows,1)`,
`M(__,cols)`, `A(1,end,idx)`, `A(idx1,range(…),idx2)`, … whose result is an expression that translates
coordinates on every access instead of a (base, dims, strides) view.

A view is `(base, dims, strides)`; `addr v ix = base + Σ ixₖ·stridesₖ` is the offset of element `ix`
from the start of the parent allocation.  A view has no data of its own, so "reads the parent's
current values and writes through to exactly those cells" is the statement that the *address* of every
element of the derived view is the address of the parent element the index expression denotes
(`*_addr`), that this parent element exists (`*_inRange`, `within_parent`) and hence lies inside the
parent allocation (`within_allocation`).  Ranks, extents, strides and arguments are arbitrary
(lists of any length), `checked` selects the build.

Extents.  Every member but `T` builds its result with one of the two view constructors of `Array`, which (F-76)
set ALL dimensions to zero as soon as one of them is zero (`canonDims`, the convention of `Array::resize` for
arrays without elements): the extents of a view are the per-dimension counts, or all zero when one of them is
zero.  Then `empty()` (which tests dimension 0 only) is true exactly when the view has no element, so none of the
library's loops over "all elements" is entered for a selection that denotes nothing (`C06_empty_view_canonical`,
`C06_nonempty_unchanged`, `C06_reachable_canonical`, `C06_isEmpty_iff_no_element`).  The address theorems are
unaffected: `data_` and the offsets are stored as computed.
-/
namespace Adept.Views

/-! ## one address theorem per operation -/

/-- `A(i0,…)` with scalar / `range` / `stride` / `__` arguments, `end` resolved against each
    dimension: element `ix` of the result is the parent element `expandSlice …` (scalar arguments
    fixed, `b + i·s` in ranged dimensions).  Holds in both builds for every successful call, even
    for arguments the unchecked build should not have been given. -/
theorem C06_slice_addr {v w : View} {args : List Ix} {checked : Bool} (h : slice v args checked = .ok w) :
    w.WF ∧ ∀ ix : List Int, ix.length = w.dims.length →
      (expandSlice v.dims args ix).length = v.dims.length ∧
      addr w ix = addr v (expandSlice v.dims args ix) := by
  obtain ⟨u, hu, rfl⟩ := construct_ok h
  obtain ⟨h1, h2⟩ := sliceRaw_addr hu
  exact ⟨canon_WF.mpr h1, fun ix hix => h2 ix (by simpa [View.canon, canonDims_length] using hix)⟩

/-- rank of `A(i0,…)`: one dimension per ranged argument (scalar-indexed dimensions are dropped),
    and there must be one argument per dimension -/
theorem C06_slice_rank {v w : View} {args : List Ix} {checked : Bool} (h : slice v args checked = .ok w) :
    w.dims.length = rangedCount args ∧ args.length = v.dims.length := by
  obtain ⟨u, hu, rfl⟩ := construct_ok h
  obtain ⟨inc, hg, _⟩ := sliceRaw_ok hu
  simpa [View.canon, canonDims_length] using sliceGo_rank checked _ _ _ _ _ _ hg

/-- extent of a ranged dimension: the C++ formula `(end + stride - begin)/stride` (truncating), which
    for a direction-consistent range is the documented count `⌊|e-b|/|s|⌋ + 1`, is maximal (one more
    step passes `e`), and is never positive for an inconsistent direction -/
theorem C06_range_extent {checked : Bool} {len : Nat} {off : Int} {b e : EndExpr} {s inc o : Int} {n : Nat}
    (h : updateRange checked len off b e s = .ok (inc, n, o)) :
    (n : Int) = (e.resolve len + s - b.resolve len).tdiv s ∧ o = s * off ∧ inc = b.resolve len * off ∧
    (0 < s → b.resolve len ≤ e.resolve len →
        (n : Int) = (e.resolve len - b.resolve len) / s + 1 ∧ e.resolve len < b.resolve len + n * s) ∧
    (s < 0 → e.resolve len ≤ b.resolve len →
        (n : Int) = (b.resolve len - e.resolve len) / (-s) + 1 ∧ b.resolve len + n * s < e.resolve len) ∧
    ((0 < s ∧ e.resolve len < b.resolve len) ∨ (s < 0 ∧ b.resolve len < e.resolve len) → n = 0) := by
  obtain ⟨h1, h2, h3, h4, _⟩ := updateRange_ok h
  refine ⟨h4, h2, h1, ?_, ?_, ?_⟩
  · intro hs hbe
    exact ⟨by rw [h4, extent_documented_pos hs hbe], by rw [h4]; exact extent_maximal_pos hs hbe⟩
  · intro hs hbe
    exact ⟨by rw [h4, extent_documented_neg hs hbe], by rw [h4]; exact extent_maximal_neg hs hbe⟩
  · intro hd
    have := extent_inconsistent hd
    omega

/-- `A.subset(b0,e0,b1,e1,…)` addresses `A(range(b0,e0),range(b1,e1),…)` -/
theorem C06_subset_addr {v w : View} {be : List (EndExpr × EndExpr)} {checked : Bool}
    (h : subset v be checked = .ok w) :
    w.WF ∧ w.dims.length = v.dims.length ∧ ∀ ix : List Int, ix.length = w.dims.length →
      addr w ix = addr v (expandSlice v.dims (be.map fun p => Ix.range p.1 p.2) ix) := by
  obtain ⟨h1, h2⟩ := C06_slice_addr h
  obtain ⟨h3, h4⟩ := C06_slice_rank h
  refine ⟨h1, ?_, fun ix hix => (h2 ix hix).2⟩
  rw [h3, ← h4]
  clear h h1 h2 h3 h4
  induction be with
  | nil => rfl
  | cons p ps ih => simp [rangedCount, ih]

/-- `A[i]`: the rest of the dimensions (all zero if one of them is zero), at leading index `i` -/
theorem C06_sub1_addr {v w : View} {e : EndExpr} {checked : Bool} (hwf : v.WF) (h : sub1 v e checked = .ok w) :
    w.WF ∧ w.dims = canonDims v.dims.tail ∧ ∀ ix : List Int, ix.length = w.dims.length →
      addr w ix = addr v (e.resolve (v.dims.headD 0) :: ix) := by
  obtain ⟨u, hu, rfl⟩ := construct_ok h
  obtain ⟨h1, h2⟩ := sub1Raw_addr hwf hu
  obtain ⟨d, ds, s, ss, hd, _, rfl, _⟩ := sub1Raw_ok hu
  exact ⟨canon_WF.mpr h1, by simp [View.canon, hd],
    fun ix hix => (h2 ix (by simpa [View.canon, canonDims_length] using hix)).2⟩

/-- `A.T()`: element `(i,j)` is parent element `(j,i)`; extents swapped -/
theorem C06_T_addr {v w : View} (h : transpose v = .ok w) :
    w.WF ∧ w.dims = v.dims.reverse ∧ ∀ i j : Int, addr w [i, j] = addr v [j, i] := by
  obtain ⟨h1, h2⟩ := transpose_addr h
  obtain ⟨d0, d1, s0, s1, hd, _, rfl⟩ := transpose_ok h
  exact ⟨h1, by simp [hd], fun i j => (h2 [i, j] rfl).2⟩

/-- `A.permute(p)`: new dimension `i` is old dimension `p i` (extent and offset), so element `ix` is the
    parent element whose coordinate `p i` is `ix i` (`expandPermute`); no extent is zero (`permute` rejects an
    array with a zero extent: `empty_array` / `invalid_dimension`) -/
theorem C06_permute_addr {v w : View} {p : List Int} (h : permute v p = .ok w) :
    w.WF ∧ w.dims = p.map (fun x => v.dims.getD x.toNat 0) ∧ (∀ d ∈ w.dims, d ≠ 0) ∧
    ∀ ix : List Int, ix.length = w.dims.length → addr w ix = addr v (expandPermute v.dims.length p ix) := by
  obtain ⟨u, hu, rfl⟩ := construct_ok h
  obtain ⟨h1, h2⟩ := permuteRaw_addr hu
  have hpos := permuteRaw_pos hu
  obtain ⟨_, _, rfl, _⟩ := permuteRaw_ok hu
  have hc : canonDims (p.map fun x => v.dims.getD x.toNat 0) = p.map fun x => v.dims.getD x.toNat 0 :=
    canonDims_of_pos hpos
  refine ⟨canon_WF.mpr h1, hc, ?_, fun ix hix => (h2 ix ?_).2⟩
  · show ∀ d ∈ canonDims _, d ≠ 0
    rw [hc]; exact hpos
  · simpa [View.canon, canonDims_length] using hix

/-- `A.diag_vector(k)` of an `n × n` matrix: extent `n - |k|`, element `i` is `A(i, i+k)` for `k ≥ 0`
    and `A(i-k, i)` for `k < 0` -/
theorem C06_diag_addr {v w : View} {k : Int} {n : Nat} {s0 s1 : Int} (hd : v.dims = [n, n]) (hs : v.strides = [s0, s1])
    (hn : 0 < n) (h : diagVector v k = .ok w) :
    w.dims = [((n : Int) - k.natAbs).toNat] ∧ w.strides = [s0 + s1] ∧ (k.natAbs : Int) ≤ n ∧
    ∀ i : Int, addr w [i] = addr v (if k ≥ 0 then [i, i + k] else [i - k, i]) := by
  obtain ⟨u, hu, rfl⟩ := construct_ok h
  obtain ⟨h1, h2, h3⟩ := diagRaw_ok hd hs hn hu
  refine ⟨by simp only [View.canon, h2, canonDims_singleton], h3, h1, fun i => ?_⟩
  have := ((diagRaw_addr hu).2 [i] (by simp [h2])).2
  rw [canon_addr]
  simpa [expandOp] using this

/-- `A.submatrix_on_diagonal(b,e)`: the `(e-b+1) × (e-b+1)` block `A(range(b,e),range(b,e))`;
    the arguments are range-checked in both builds -/
theorem C06_subdiag_addr {v w : View} {b e : Int} (h : submatrixOnDiagonal v b e = .ok w) :
    w.WF ∧ w.dims = [(e - b + 1).toNat, (e - b + 1).toNat] ∧ w.strides = v.strides ∧
    (∃ d : Nat, v.dims = [d, d] ∧ 0 ≤ b ∧ b ≤ e ∧ e < d) ∧
    ∀ i j : Int, addr w [i, j] = addr v [i + b, j + b] := by
  obtain ⟨u, hu, rfl⟩ := construct_ok h
  obtain ⟨h1, h2⟩ := subdiagRaw_addr hu
  obtain ⟨d, s0, s1, hd, hs, h3, h4, h5, rfl⟩ := subdiagRaw_ok hu
  have hc : canonDims [(e - b + 1).toNat, (e - b + 1).toNat] = [(e - b + 1).toNat, (e - b + 1).toNat] :=
    canonDims_of_pos (by intro x hx; simp at hx; omega)
  exact ⟨canon_WF.mpr h1, hc, hs.symm, ⟨d, hd, h3, h4, h5⟩, fun i j => (h2 [i, j] rfl).2⟩

/-- `v.reshape(dims)` of a rank-1 view with any stride: extents `dims` (all zero if one of them is zero, i.e.
    when an empty vector is reshaped), element `ix` is vector element number `lin dims ix` (row-major position) -/
theorem C06_reshape_addr {v w : View} {nd : List Int} (h : reshape v nd = .ok w) :
    w.WF ∧ w.dims = canonDims (nd.map Int.toNat) ∧ (∃ d0 : Nat, v.dims = [d0] ∧ prodInt nd = d0) ∧
    ∀ ix : List Int, ix.length = w.dims.length → addr w ix = addr v [lin (nd.map Int.toNat) ix] := by
  obtain ⟨u, hu, rfl⟩ := construct_ok h
  obtain ⟨h1, h2⟩ := reshapeRaw_addr hu
  obtain ⟨d0, s0, hd, _, _, hp, _, rfl⟩ := reshapeRaw_ok hu
  exact ⟨canon_WF.mpr h1, rfl, ⟨d0, hd, hp⟩,
    fun ix hix => (h2 ix (by simpa [View.canon, canonDims_length] using hix)).2⟩

/-- `A.soft_link()` is the same view: same `data_`, same offsets, the same extents for every array the library can
    hand out (its extents are canonical already, `C06_reachable_canonical`); it is built by the second view
    constructor, so in general the extents are the canonical ones -/
theorem C06_softlink_addr {v w : View} (h : softLink v = .ok w) :
    w = v.canon ∧ (v.dims = canonDims v.dims → w = v) := by
  simp only [softLink, construct] at h
  cases h
  refine ⟨rfl, fun hc => ?_⟩
  cases v with
  | mk b d s => simp only [View.canon] at hc ⊢; rw [← hc]

/-! ## composition -/

/-- by induction over a *list* of operations: the derived view addresses the parent through the
    composed index map `expandAll` (of the right rank), whatever the operations and their number -/
theorem C06_compose_addr (checked : Bool) (ops : List Op) (v w : View) (hwf : v.WF)
    (h : run checked v ops = .ok w) :
    w.WF ∧ ∀ ix : List Int, ix.length = w.dims.length →
      (expandAll checked v ops ix).length = v.dims.length ∧
      addr w ix = addr v (expandAll checked v ops ix) := run_addr checked ops v w hwf h

/-- every element of a derived view is an element of the view it was derived from: for every valid
    index `ix` of the result, the composed index is a *valid* index of the parent with the same
    address.  `RunAdm`: the unchecked build is given in-range scalar indices and range end points
    (the checked build needs no such assumption, see `C06_within_parent_checked`) and `permute` is
    given a permutation. -/
theorem C06_within_parent (checked : Bool) (ops : List Op) (v w : View) (hwf : v.WF)
    (h : run checked v ops = .ok w) (hadm : RunAdm checked v ops) :
    ∀ ix : List Int, InRange ix w.dims →
      InRange (expandAll checked v ops ix) v.dims ∧ addr w ix = addr v (expandAll checked v ops ix) :=
  fun ix hix => ⟨run_inRange checked ops v w h hadm ix hix,
                 ((run_addr checked ops v w hwf h).2 ix (InRange_length hix)).2⟩

/-- hence reads and writes through the derived view touch cells of the parent view only -/
theorem C06_cells_subset (checked : Bool) (ops : List Op) (v w : View) (hwf : v.WF)
    (h : run checked v ops = .ok w) (hadm : RunAdm checked v ops) : ∀ a, cells w a → cells v a :=
  run_cells checked ops v w hwf h hadm

/-- and, for a freshly allocated parent (row- or column-major), only cells `0 … volume-1` of the
    allocation -/
theorem C06_within_allocation (checked rowMajor : Bool) (dims : List Nat) (ops : List Op) (w : View)
    (h : run checked (fresh rowMajor dims) ops = .ok w) (hadm : RunAdm checked (fresh rowMajor dims) ops) :
    ∀ ix : List Int, InRange ix w.dims → 0 ≤ addr w ix ∧ addr w ix < prodInt (dims.map Int.ofNat) := by
  intro ix hix
  obtain ⟨h1, h2⟩ := C06_within_parent checked ops _ w (fresh_WF rowMajor dims) h hadm ix hix
  rw [h2]
  exact fresh_addr_bounds rowMajor dims _ h1

/-! ## views without elements (F-76)

`applyRaw` is what each member function computes and hands to the view constructor — the result of the tree before
F-76, where `T(__,range(2,1),__)` had the extents `(2,0,4)`, was not `empty()` (dimension 0 is 2) and the library's
own loops (`= scalar`, `sum`, …) were entered for it.  `apply` is the constructed view. -/

/-- ANY zero extent ⇒ ALL extents zero, `empty()` is true and the view denotes no element: it has no valid index and
    the enumeration of its elements is empty.  Holds for the result of every operation that builds its result with a
    view constructor (all but `T`) whatever the receiver, and for `T` of a receiver whose extents are canonical
    (every array the library hands out, `C06_reachable_canonical`). -/
theorem C06_empty_view_canonical {checked : Bool} {v w : View} {op : Op}
    (hop : op.constructs = true ∨ v.dims = canonDims v.dims)
    (h : apply checked v op = .ok w) (hz : 0 ∈ w.dims) :
    (∀ d ∈ w.dims, d = 0) ∧ w.isEmpty = true ∧ allIndices w.dims = [] ∧ ∀ ix : List Int, ¬ InRange ix w.dims := by
  have hc : w.Canonical := apply_canonical hop h
  have hall := canonical_all_zero hc hz
  refine ⟨hall, ?_, allIndices_of_zero hz, fun ix => not_inRange_of_zero hz⟩
  unfold View.isEmpty
  cases hd : w.dims with
  | nil => rw [hd] at hz; simp at hz
  | cons d ds => simp [hall d (by rw [hd]; simp)]

/-- NO zero extent ⇒ exactly the old result: the view constructor changes nothing (same `data_`, extents, offsets),
    in both directions, and errors are the same errors. -/
theorem C06_nonempty_unchanged (checked : Bool) (v : View) (op : Op) :
    (∀ u, applyRaw checked v op = .ok u → 0 ∉ u.dims → apply checked v op = .ok u) ∧
    (∀ w, apply checked v op = .ok w → 0 ∉ w.dims → applyRaw checked v op = .ok w) ∧
    (∀ e, applyRaw checked v op = .error e ↔ apply checked v op = .error e) := by
  have hcanon : ∀ u : View, 0 ∉ u.dims → u.canon = u := by
    intro u hu
    cases u with
    | mk b d s =>
      simp only [View.canon]
      rw [canonDims_of_pos (fun x hx h0 => hu (h0 ▸ hx))]
  refine ⟨?_, ?_, ?_⟩
  · intro u hu hz
    rw [apply_eq, hu]
    split
    · simp only [construct, hcanon u hz]
    · rfl
  · intro w hw hz
    obtain ⟨u, hu, rfl⟩ := apply_ok hw
    split at hz
    · have hz' : 0 ∉ u.dims := by
        intro h0
        apply hz
        show 0 ∈ canonDims u.dims
        rw [canonDims_of_zero h0]
        exact List.mem_map.mpr ⟨0, h0, rfl⟩
      rw [if_pos (by assumption), hcanon u hz']
      exact hu
    · rw [if_neg (by assumption)]
      exact hu
  · intro e
    rw [apply_eq]
    cases hr : applyRaw checked v op with
    | ok u => split <;> simp [construct]
    | error e' => split <;> simp [construct]

/-- every view reachable from a receiver with canonical extents (a freshly allocated array, a default-constructed
    one) by ANY list of operations has canonical extents -/
theorem C06_reachable_canonical (checked : Bool) (ops : List Op) (v w : View) (hv : v.dims = canonDims v.dims)
    (h : run checked v ops = .ok w) : w.dims = canonDims w.dims := run_canonical checked ops v w hv h

/-- so for every such view `empty()` — which tests dimension 0 only — is true EXACTLY when the view has no element:
    the guard of the library's whole-array loops is exact -/
theorem C06_isEmpty_iff_no_element (checked rowMajor : Bool) (dims : List Nat) (hd : ∀ d ∈ dims, d ≠ 0)
    (ops : List Op) (w : View) (h : run checked (fresh rowMajor dims) ops = .ok w) :
    (w.isEmpty = true ↔ allIndices w.dims = []) ∧ (w.isEmpty = true ↔ ¬ ∃ ix : List Int, InRange ix w.dims) := by
  have hc : w.Canonical := run_canonical checked ops _ w (fresh_canonical rowMajor hd) h
  have key : w.isEmpty = true ↔ 0 ∈ w.dims := by
    unfold View.isEmpty
    cases hw : w.dims with
    | nil => simp
    | cons d ds =>
      constructor
      · intro h0
        have : d = 0 := by simpa using h0
        simp [this]
      · intro h0
        have := canonical_all_zero hc (by rw [hw]; exact h0) d (by rw [hw]; simp)
        simp [this]
  refine ⟨key.trans ⟨allIndices_of_zero, allIndices_eq_nil⟩, key.trans ⟨fun hz ⟨ix, hix⟩ => not_inRange_of_zero hz hix, ?_⟩⟩
  intro hno
  false_or_by_contra
  rename_i hz
  apply hno
  -- no zero extent: the enumeration is not empty and its members are valid indices
  have hne : allIndices w.dims ≠ [] := fun he => hz (allIndices_eq_nil he)
  obtain ⟨ix, hix⟩ := List.exists_mem_of_ne_nil _ hne
  exact ⟨ix, allIndices_inRange _ _ hix⟩

/-! ## the bounds-checked build -/

/-- `-DADEPT_BOUNDS_CHECKING`: if a scalar index or a range end point (after resolving `end`) is
    outside `0 … n-1` in some argument, `operator()` returns no view; it throws `index_out_of_bounds`
    (given that the call compiles and that no argument has a zero stride or a negative extent, where
    the C++ divides by zero or builds a negative dimension before reaching the offending argument) -/
theorem C06_checked_rejects {v : View} {args : List Ix} (hwf : v.WF) (hlen : args.length = v.dims.length)
    (hoob : ¬ ArgsAdm v.dims args) :
    (∀ w, slice v args true ≠ .ok w) ∧
    (ArgsDefined v.dims args → slice v args true = .error .index_out_of_bounds) := by
  constructor
  · intro w hw
    obtain ⟨u, hu, rfl⟩ := construct_ok hw
    obtain ⟨inc, hg, _⟩ := sliceRaw_ok hu
    exact hoob (sliceGo_checked_adm _ _ _ _ _ _ hg)
  · intro hdef
    unfold slice sliceRaw
    rw [sliceGo_checked_rejects v.dims v.strides args hwf hlen.symm hdef hoob]
    rfl

/-- the same for `operator[]` … -/
theorem C06_checked_rejects_sub1 {v : View} {e : EndExpr} {d : Nat} {ds : List Nat} {s : Int} {ss : List Int}
    (hd : v.dims = d :: ds) (hs : v.strides = s :: ss) (h : ¬ (0 ≤ e.resolve d ∧ e.resolve d < d)) :
    sub1 v e true = .error .index_out_of_bounds := construct_err (sub1Raw_checked_rejects hd hs h)

/-- … and for `subset` -/
theorem C06_checked_rejects_subset {v : View} {be : List (EndExpr × EndExpr)} (hwf : v.WF)
    (hlen : be.length = v.dims.length) (hoob : ¬ ArgsAdm v.dims (be.map fun p => Ix.range p.1 p.2)) :
    ∀ w, subset v be true ≠ .ok w := by
  have := (C06_checked_rejects (v := v) (args := be.map fun p => Ix.range p.1 p.2) hwf (by simpa using hlen) hoob).1
  exact this

/-- conversely a view returned by the checked build had admissible arguments, and it is the view
    the default build returns -/
theorem C06_checked_accepts {v w : View} {args : List Ix} (h : slice v args true = .ok w) :
    ArgsAdm v.dims args ∧ slice v args false = .ok w := by
  obtain ⟨u, hu, rfl⟩ := construct_ok h
  obtain ⟨inc, hg, _⟩ := sliceRaw_ok hu
  refine ⟨sliceGo_checked_adm _ _ _ _ _ _ hg, ?_⟩
  unfold slice
  rw [sliceRaw_checked_imp hu]
  rfl

/-- so in the checked build no assumption about index values is needed at all
    (only that `permute` gets a permutation) -/
theorem C06_within_parent_checked (ops : List Op) (v w : View) (hwf : v.WF) (h : run true v ops = .ok w)
    (hperm : ∀ (u : View) (p : List Int) (pre post : List Op), ops = pre ++ Op.permute p :: post →
       run true v pre = .ok u → IsPerm p u.dims.length) :
    ∀ ix : List Int, InRange ix w.dims →
      InRange (expandAll true v ops ix) v.dims ∧ addr w ix = addr v (expandAll true v ops ix) := by
  apply C06_within_parent true ops v w hwf h
  clear h hwf
  induction ops generalizing v with
  | nil => trivial
  | cons op ops ih =>
    refine ⟨?_, ?_⟩
    · cases op with
      | slice a => exact Or.inl rfl
      | subset a => exact Or.inl rfl
      | sub1 a => exact Or.inl rfl
      | permute p => exact hperm v p [] ops rfl rfl
      | T => trivial
      | diag k => trivial
      | subdiag b e => trivial
      | reshape nd => trivial
      | softLink => trivial
    · intro u hu
      apply ih
      intro u' p pre post hops hrun
      refine hperm u' p (op :: pre) post (by simp [hops]) ?_
      simp only [run, hu, hrun]

/-! ## is_contiguous -/

/-- `is_contiguous()` with the loop counting down (F-08 repaired: the pinned loop `++i` reads
    `offset_[Rank]`) holds exactly for the packed row-major offsets of the view's own extents -/
theorem C06_is_contiguous_iff (v : View) (hwf : v.WF) :
    isContiguous v = true ↔ v.strides = packRowMajor v.dims := isContiguous_iff v hwf

/-! ## integer-vector indexing (`IndexedArray`)

`indexed v sels checked` is the constructor of the `IndexedArray` returned by `A(s0,s1,…)` when at least
one selector is an integer vector (`Sel.vec`, entries possibly written with `end`), the others being
scalar (`int` or `end-k`), `range`/`stride` or `__`.  `ixAddr checked iv ix` is the cell a read or a write
of element `ix` accesses (`translate_coords_` + `get_value_with_len_` + `set_location`), or the exception
raised instead; `ixRead` / `ixStores` are the whole statements `B = A(…)` and `A(…) = values`. -/

/-- for every in-range index `ix` of the result, the cell that is accessed is
    `addr parent (expandSel selectors ix)`: scalar selectors fixed, `b + s·i` in ranged dimensions, `i`
    under `__`, entry number `i` of an index vector, EVERY selector (in particular a scalar `end-k`
    after other scalar selectors) resolved against the extent of its own dimension; ranks, extents and
    selectors arbitrary.  In the default build the access is always made; in the checked build it is
    made only if it does not raise. -/
theorem C06_indexed_addr {v : View} {sels : List Sel} {checked : Bool} {iv : IView}
    (h : indexed v sels checked = .ok iv) :
    iv.parent = v ∧ iv.sels = sels ∧
    ∀ ix : List Int, InRange ix iv.dims →
      (expandSel v.dims sels ix).length = v.dims.length ∧
      (∀ a, ixAddr checked iv ix = .ok a → a = addr v (expandSel v.dims sels ix)) ∧
      (checked = false → ixAddr checked iv ix = .ok (addr v (expandSel v.dims sels ix))) := by
  obtain ⟨_, hd, hp, hs⟩ := indexed_ok h
  refine ⟨hp, hs, fun ix hix => ⟨?_, ?_, ?_⟩⟩
  · exact expandSel_length checked _ _ _ _ hd (InRange_length hix)
  · intro a ha
    obtain ⟨r, hr, rfl⟩ := ixAddr_ok ha
    rw [hp, hs] at hr
    obtain ⟨h1, _⟩ := translateCoords_ok checked _ _ _ _ (InRange_nonneg hix) hr
    rw [hp, h1]
  · intro hc
    subst hc
    unfold ixAddr
    rw [hp, hs, translateCoords_unchecked _ _ _ _ hd hix]
    rfl

/-- rank and extents of `A(s0,s1,…)`: one selector per dimension of `A`; the rank is the number of
    non-scalar selectors; the extents are, in order, the number of entries of an index vector, the extent
    `(e + s - b)/s` of a range (the formula of `C06_range_extent`), the parent extent under `__` -/
theorem C06_indexed_extents {v : View} {sels : List Sel} {checked : Bool} {iv : IView}
    (h : indexed v sels checked = .ok iv) :
    sels.length = v.dims.length ∧ iv.dims.length = nonScalarCount sels ∧ iv.dims = selExtents v.dims sels := by
  obtain ⟨_, hd, _, _⟩ := indexed_ok h
  obtain ⟨h1, h2, h3⟩ := ixDims_ok checked _ _ _ hd
  exact ⟨h3, h2, h1⟩

/-- admissible selectors (`SelsAdm`: scalar indices, range end points and every index-vector entry, after
    resolving `end`, lie in `0 … n-1` of their dimension): in both builds every element of the result is
    accessed without exception and is an element of the parent — the composed index is a valid parent
    index, so the cell is a parent cell -/
theorem C06_indexed_within_parent {v : View} {sels : List Sel} {checked : Bool} {iv : IView}
    (h : indexed v sels checked = .ok iv) (hadm : SelsAdm v.dims sels) :
    ∀ ix : List Int, InRange ix iv.dims →
      InRange (expandSel v.dims sels ix) v.dims ∧
      ixAddr checked iv ix = .ok (addr v (expandSel v.dims sels ix)) ∧
      cells v (addr v (expandSel v.dims sels ix)) := by
  obtain ⟨_, hd, hp, hs⟩ := indexed_ok h
  intro ix hix
  obtain ⟨h1, h2⟩ := translateCoords_adm checked _ _ _ _ hadm hd hix
  refine ⟨h2, ?_, ⟨_, h2, rfl⟩⟩
  unfold ixAddr
  rw [hp, hs, h1]
  rfl

/-- hence, for admissible selectors, `B = A(s0,…)` reads exactly the denoted parent cells in index order
    and `A(s0,…) = values` stores value number `k` to the cell of element number `k`, for every element,
    and nothing else, raising nothing (both builds; nothing at all is accessed when an extent is 0) -/
theorem C06_indexed_read_write {v : View} {sels : List Sel} {checked : Bool} {iv : IView}
    (h : indexed v sels checked = .ok iv) (hadm : SelsAdm v.dims sels) (hne : iv.isEmpty = false) :
    ixRead checked iv = .ok ((allIndices iv.dims).map fun ix => addr v (expandSel v.dims sels ix)) ∧
    ∀ vals : List Int, vals.length = (allIndices iv.dims).length →
      ixStores checked iv vals =
        (((allIndices iv.dims).map fun ix => addr v (expandSel v.dims sels ix)).zip vals, none) := by
  have hall : ∀ ix ∈ allIndices iv.dims, ixAddr checked iv ix = .ok (addr v (expandSel v.dims sels ix)) :=
    fun ix hix => (C06_indexed_within_parent h hadm ix (allIndices_inRange _ _ hix)).2.1
  constructor
  · unfold ixRead
    rw [hne]
    exact mapM_ok_of_forall _ _ _ hall
  · intro vals hl
    unfold ixStores
    rw [hne]
    exact storesGo_total checked iv _ _ _ hall hl

/-- write-through to exactly those cells: after the stores of an assignment, a cell that is not the cell
    of some element keeps its value, and a cell of the selection holds a value that was assigned to an
    element denoting it (the last one, for a repeated index-vector entry) -/
theorem C06_indexed_write_through {v : View} {sels : List Sel} {checked : Bool} {iv : IView}
    (h : indexed v sels checked = .ok iv) (hadm : SelsAdm v.dims sels) (hne : iv.isEmpty = false)
    (vals : List Int) (hl : vals.length = (allIndices iv.dims).length) (mem : Int → Int) (a : Int) :
    let cellsOf := (allIndices iv.dims).map fun ix => addr v (expandSel v.dims sels ix)
    let after := applyStores mem (ixStores checked iv vals).1
    (a ∉ cellsOf → after a = mem a) ∧
    (a ∈ cellsOf → ∃ p ∈ cellsOf.zip vals, p.1 = a ∧ after a = p.2) := by
  intro cellsOf after
  have hst : (ixStores checked iv vals).1 = cellsOf.zip vals := by
    rw [(C06_indexed_read_write h hadm hne).2 vals hl]
  constructor
  · intro hna
    show applyStores mem (ixStores checked iv vals).1 a = mem a
    rw [hst]
    apply applyStores_other
    intro p hp hpa
    exact hna (hpa ▸ (List.of_mem_zip hp).1)
  · intro ha
    show ∃ p ∈ cellsOf.zip vals, p.1 = a ∧ applyStores mem (ixStores checked iv vals).1 a = p.2
    rw [hst]
    apply applyStores_mem
    obtain ⟨k, hk, rfl⟩ := List.mem_iff_getElem.mp ha
    have hk' : k < vals.length := by
      rw [hl]
      simpa [cellsOf] using hk
    exact ⟨(cellsOf[k], vals[k]), by
      rw [List.mem_iff_getElem]
      exact ⟨k, by rw [List.length_zip]; exact Nat.lt_min.mpr ⟨hk, hk'⟩, by simp⟩, rfl⟩

/-- `-DADEPT_BOUNDS_CHECKING`: an element whose composed parent index is not valid — because an
    index-vector ENTRY, a scalar index or a range value is outside `0 … n-1` of its dimension — is not
    accessed: `index_out_of_bounds` is raised instead; conversely every access that is made goes to a
    parent cell, so whatever the selectors hold no statement reads or writes outside the parent view.
    If some scalar index or index-vector entry is inadmissible and no extent is 0, the whole read
    `B = A(…)` and every assignment `A(…) = values` raise `index_out_of_bounds`. -/
theorem C06_indexed_checked_rejects {v : View} {sels : List Sel} {iv : IView}
    (h : indexed v sels true = .ok iv) :
    (∀ ix : List Int, InRange ix iv.dims → ¬ InRange (expandSel v.dims sels ix) v.dims →
        ixAddr true iv ix = .error .index_out_of_bounds) ∧
    (∀ ix : List Int, InRange ix iv.dims → ∀ a, ixAddr true iv ix = .ok a → cells v a) ∧
    (∀ vals : List Int, ∀ p ∈ (ixStores true iv vals).1, cells v p.1) ∧
    (¬ SelsAdm v.dims sels → iv.isEmpty = false →
        ixRead true iv = .error .index_out_of_bounds ∧
        ∀ vals : List Int, (allIndices iv.dims).length ≤ vals.length →
          (ixStores true iv vals).2 = some .index_out_of_bounds) := by
  obtain ⟨_, hd, hp, hs⟩ := indexed_ok h
  have hok : ∀ ix : List Int, InRange ix iv.dims → ∀ a, ixAddr true iv ix = .ok a →
      InRange (expandSel v.dims sels ix) v.dims ∧ a = addr v (expandSel v.dims sels ix) := by
    intro ix hix a ha
    obtain ⟨r, hr, rfl⟩ := ixAddr_ok ha
    rw [hp, hs] at hr
    obtain ⟨h1, _, h3⟩ := translateCoords_ok true _ _ _ _ (InRange_nonneg hix) hr
    rw [hp]
    exact ⟨h1 ▸ h3 rfl, by rw [h1]⟩
  have herr : ∀ ix : List Int, InRange ix iv.dims → ∀ e, ixAddr true iv ix = .error e → e = .index_out_of_bounds := by
    intro ix hix e he
    have := ixAddr_err he
    rw [hp, hs] at this
    exact (translateCoords_err true _ _ _ _ _ hd hix this).2
  have hrej : ∀ ix : List Int, InRange ix iv.dims → ¬ InRange (expandSel v.dims sels ix) v.dims →
      ixAddr true iv ix = .error .index_out_of_bounds := by
    intro ix hix hbad
    cases ha : ixAddr true iv ix with
    | ok a => exact absurd (hok ix hix a ha).1 hbad
    | error e => rw [herr ix hix e ha]
  refine ⟨hrej, ?_, ?_, ?_⟩
  · intro ix hix a ha
    obtain ⟨h1, rfl⟩ := hok ix hix a ha
    exact ⟨_, h1, rfl⟩
  · intro vals p hp'
    unfold ixStores at hp'
    split at hp'
    · simp at hp'
    · obtain ⟨ix, hix, ha⟩ := storesGo_mem true iv _ _ _ _ rfl p hp'
      obtain ⟨h1, h2⟩ := hok ix (allIndices_inRange _ _ hix) _ ha
      exact ⟨_, h1, h2.symm⟩
  · intro hadm hne
    obtain ⟨ix, hix, hbad⟩ := exists_oob_index _ _ _ hd (isEmpty_false hne) hadm
    have hex : ∃ ix ∈ allIndices iv.dims, ∃ e, ixAddr true iv ix = .error e :=
      ⟨ix, allIndices_complete _ _ hix, _, hrej ix hix hbad⟩
    have hall : ∀ ix ∈ allIndices iv.dims, ∀ e, ixAddr true iv ix = .error e → e = .index_out_of_bounds :=
      fun ix hix e he => herr ix (allIndices_inRange _ _ hix) e he
    constructor
    · unfold ixRead
      rw [hne]
      exact mapM_err_of_exists _ _ _ hex hall
    · intro vals hl
      unfold ixStores
      rw [hne]
      exact storesGo_err true iv _ _ _ hex hall hl

/-! ## `end` arithmetic and integer-vector expressions in index position

An index, a range end point or a stride may be any rank-0 integer expression built from `end`, and an index
vector any rank-1 integer expression: `k-end`, `end/2`, `k/end`, `2*end`, `(end-1)/2`, `(n-1)-idx`, `idx+1`, … .
The C++ evaluates them with `value_with_len_(j, len)` of the three classes of BinaryOperation.h
(`BinaryOpScalarLeft`, `BinaryOpScalarRight`, `BinaryOperation`) and of `EndIndex`; `EndExpr.resolve` /
`VExpr.valueWithLen` transcribe these.  All the address, extent, containment and rejection theorems above are
stated for ARBITRARY `EndExpr` arguments, hence hold for every such form; the theorems below state what the forms
evaluate to.  (The transcription is tied to the C++ by the correspondence runs: every compiled shape × role ×
position on every run, see checks/c06.py.) -/

/-- every form evaluates to "`end` is the last index `len-1`, then ordinary integer arithmetic with the operands in
    the order written and C++ truncating division": `end`; `end-k`; scalar on the LEFT `k OP e`
    (`BinaryOpScalarLeft`: `operation(left, right.value_with_len)`); scalar on the right `e OP k`
    (`BinaryOpScalarRight`); two expressions (`BinaryOperation`); the six operations -/
theorem C06_endexpr_forms (len : Nat) (k : Int) (e e₁ e₂ : EndExpr) (op : BinOp) :
    EndExpr.last.resolve len = (len : Int) - 1 ∧
    (EndExpr.fromEnd k).resolve len = (EndExpr.bin .sub .last (.lit k)).resolve len ∧
    (EndExpr.bin op (.lit k) e).resolve len = op.eval k (e.resolve len) ∧
    (EndExpr.bin op e (.lit k)).resolve len = op.eval (e.resolve len) k ∧
    (EndExpr.bin op e₁ e₂).resolve len = op.eval (e₁.resolve len) (e₂.resolve len) ∧
    (∀ a b : Int, BinOp.add.eval a b = a + b ∧ BinOp.sub.eval a b = a - b ∧ BinOp.mul.eval a b = a * b ∧
      BinOp.div.eval a b = a.tdiv b ∧ BinOp.max.eval a b = max a b ∧ BinOp.min.eval a b = min a b) := by
  refine ⟨rfl, rfl, rfl, rfl, rfl, fun a b => ⟨rfl, rfl, rfl, rfl, ?_, ?_⟩⟩
  · simp only [BinOp.eval]; split <;> omega
  · simp only [BinOp.eval]; split <;> omega

/-- the operand order matters for `-` and `/`: `k - end` is `k - (len-1)`, the NEGATIVE of `end - k`, and the two
    agree only when `k` is the last index itself; `k / end` for `0 ≤ k < end` is `0` whereas `end / k` is at least
    `1` (so an evaluator that swaps the operands of the scalar-left class is wrong exactly for `-` and `/`, while
    `+`, `*`, `max`, `min` do not depend on the order) -/
theorem C06_endexpr_operand_order (len : Nat) (k : Int) :
    (EndExpr.bin .sub (.lit k) .last).resolve len = k - ((len : Int) - 1) ∧
    (EndExpr.bin .sub (.lit k) .last).resolve len = - (EndExpr.bin .sub .last (.lit k)).resolve len ∧
    ((EndExpr.bin .sub (.lit k) .last).resolve len = (EndExpr.bin .sub .last (.lit k)).resolve len ↔ k = (len : Int) - 1) ∧
    (0 < k → k < (len : Int) - 1 →
      (EndExpr.bin .div (.lit k) .last).resolve len = 0 ∧ 1 ≤ (EndExpr.bin .div .last (.lit k)).resolve len) ∧
    (∀ (op : BinOp) (a b : Int), op = .add ∨ op = .mul ∨ op = .max ∨ op = .min → op.eval a b = op.eval b a) := by
  refine ⟨rfl, ?_, ?_, ?_, ?_⟩
  · simp only [EndExpr.resolve, BinOp.eval]; omega
  · simp only [EndExpr.resolve, BinOp.eval]; omega
  · intro h0 h1
    simp only [EndExpr.resolve, BinOp.eval]
    constructor
    · exact Int.tdiv_eq_zero_of_lt (by omega) h1
    · have h2 : k ≤ (len : Int) - 1 := by omega
      have h3 : k.tdiv k ≤ ((len : Int) - 1).tdiv k := Int.tdiv_le_tdiv h0 h2
      rw [Int.tdiv_self (by omega)] at h3
      exact h3
  · intro op a b h
    rcases h with h | h | h | h <;> subst h <;> simp only [BinOp.eval]
    · omega
    · exact Int.mul_comm a b
    · split <;> split <;> omega
    · split <;> split <;> omega

/-- the reversal idiom `v((n-1) - idx)` (scalar on the left of an index vector): entry `x` of `idx` denotes
    element `n-1-x`; for `0 ≤ x < n` this is a valid index, the map is an involution, and on a dimension of length
    `n` it is the same element as `end - idx` -/
theorem C06_endexpr_reversal (n : Nat) (x : Int) (len : Nat) :
    let rev : VExpr := .bin .sub (.lit ((n : Int) - 1)) .idx
    (rev.at x).resolve len = (n : Int) - 1 - x ∧
    (0 ≤ x ∧ x < n → 0 ≤ (rev.at x).resolve len ∧ (rev.at x).resolve len < n) ∧
    (rev.at ((rev.at x).resolve len)).resolve len = x ∧
    (rev.at x).resolve n = ((VExpr.bin .sub .last .idx).at x).resolve n := by
  intro rev
  refine ⟨rfl, ?_, ?_, ?_⟩
  · intro h
    simp only [rev, VExpr.at, EndExpr.resolve, BinOp.eval]
    omega
  · simp only [rev, VExpr.at, EndExpr.resolve, BinOp.eval]
    omega
  · simp only [rev, VExpr.at, EndExpr.resolve, BinOp.eval]

/-- the mid-point idioms are admissible on every non-empty dimension: `end/k` for `k ≥ 1` (in particular `end/2`),
    `(end-1)/2` (truncating division: `0` on a dimension of length 1) and `end - end/2` lie in `0 … len-1` -/
theorem C06_endexpr_midpoint_admissible (len : Nat) (hlen : 0 < len) (k : Int) (hk : 0 < k) :
    (0 ≤ (EndExpr.bin .div .last (.lit k)).resolve len ∧ (EndExpr.bin .div .last (.lit k)).resolve len < len) ∧
    (0 ≤ (EndExpr.bin .div (.bin .sub .last (.lit 1)) (.lit 2)).resolve len ∧
      (EndExpr.bin .div (.bin .sub .last (.lit 1)) (.lit 2)).resolve len < len) ∧
    (0 ≤ (EndExpr.bin .sub .last (.bin .div .last (.lit 2))).resolve len ∧
      (EndExpr.bin .sub .last (.bin .div .last (.lit 2))).resolve len < len) := by
  simp only [EndExpr.resolve, BinOp.eval]
  have h0 : (0 : Int) ≤ (len : Int) - 1 := by omega
  refine ⟨⟨Int.tdiv_nonneg h0 (by omega), ?_⟩, ?_, ?_⟩
  · have := Int.tdiv_le_self k h0
    omega
  · by_cases h1 : len = 1
    · subst h1; decide
    · have h2 : (0 : Int) ≤ (len : Int) - 1 - 1 := by omega
      rw [Int.tdiv_eq_ediv_of_nonneg h2]
      omega
  · rw [Int.tdiv_eq_ediv_of_nonneg h0]
    omega

/-- integer-vector expressions: entry number `j` of the index-vector expression `ve` over the intVector `xs`, as the
    model uses it (`VExpr.entries`, one scalar expression per entry), evaluates to `value_with_len_(j, len)` of the
    expression tree (`Array<1,int>::value_with_len_(j,len) = data_[j]` at the leaves), for every expression, every
    vector, every entry and every dimension length; and the expression has as many entries as the vector -/
theorem C06_vexpr_entry (ve : VExpr) (xs : List Int) (j : Nat) (len : Nat) (hj : j < xs.length) :
    ((ve.entries xs).getD j (.lit 0)).resolve len = ve.valueWithLen xs j len ∧
    (ve.entries xs).length = xs.length := by
  refine ⟨?_, by simp [VExpr.entries]⟩
  have hget : (ve.entries xs).getD j (.lit 0) = ve.at (xs.getD j 0) := by
    simp [VExpr.entries, List.getD_eq_getElem?_getD, List.getElem?_map, List.getElem?_eq_getElem hj]
  rw [hget]
  clear hget
  induction ve with
  | lit k => rfl
  | last => rfl
  | idx => rfl
  | bin op l r ihl ihr => simp only [VExpr.at, EndExpr.resolve, VExpr.valueWithLen, ihl, ihr]

/-- `stride(b,e,s)` with the stride itself an index expression (`get_stride_with_len`, never range-tested): the
    returned view of a rank-1 array starts at element `b`, its offset is `s·offset` with `s` resolved against the
    dimension, its extent is the formula of `C06_range_extent` for that `s`, and element `i` is parent element
    `b + i·s` -/
theorem C06_stride_expr_addr {base off : Int} {d : Nat} {b e s : EndExpr} {checked : Bool} {w : View}
    (h : slice ⟨base, [d], [off]⟩ [.stride b e s] checked = .ok w) :
    w.base = base + b.resolve d * off ∧ w.strides = [s.resolve d * off] ∧ s.resolve d ≠ 0 ∧
    (∃ n : Nat, w.dims = [n] ∧ (n : Int) = (e.resolve d + s.resolve d - b.resolve d).tdiv (s.resolve d)) ∧
    ∀ i : Int, addr w [i] = addr ⟨base, [d], [off]⟩ [b.resolve d + i * s.resolve d] := by
  have haddr := (C06_slice_addr h).2
  obtain ⟨u, hu', rfl⟩ := construct_ok h
  obtain ⟨inc, hg, hb⟩ := sliceRaw_ok hu'
  obtain ⟨i1, o1, i2, nd2, ns2, hu, hr, hinc, hm⟩ := sliceGo_cons_ok hg
  have hr' : sliceGo checked [] [] [] = .ok (i2, nd2, ns2) := hr
  simp only [sliceGo] at hr'
  cases hr'
  obtain ⟨n, o, rfl, hur⟩ := updateIndex_ok hu
  obtain ⟨hd, hs⟩ := hm
  obtain ⟨h1, h2, h3, h4, _⟩ := updateRange_ok hur
  have hd' : u.canon.dims = [n] := by simp only [View.canon, hd, canonDims_singleton]
  refine ⟨by show u.base = _; rw [hb, hinc, h1]; simp, by show u.strides = _; rw [hs, h2], h3, ⟨n, hd', h4⟩, fun i => ?_⟩
  have := (haddr [i] (by rw [hd']; rfl)).2
  simpa [expandSlice] using this

/-! ## element access: `A(i0,…,i_{R-1})` with only scalar arguments

The element accessors are separate functions in the C++: one per rank 1…7 and per const-ness in Array.h (sum of
`get_index_with_len(i_k,dimensions_[k])*offset_[k]`, transcription `elemOffset` / `elemAccess`) and again in
FixedArray.h (Horner form over the static extents, transcription `fixedElemGo` / `fixedElemAccess`).  The statements
below are for lists of any length: every rank, every position.  `resolveAll dims es` is the index list in which
argument `k` (an `int` or `end` arithmetic) is resolved against the length of dimension `k` — its own dimension. -/

/-- Position by position: component `k` of the indices an element access uses is argument `k` resolved against the
    length of dimension `k` (not of any other dimension). -/
theorem C06_elem_own_dimension (dims : List Nat) (es : List EndExpr) (k : Nat) (hd : k < dims.length) (he : k < es.length) :
    (resolveAll dims es)[k]? = some ((es[k]).resolve (dims[k])) :=
  resolveAll_getElem dims es k hd he

/-- `Array::operator()(i0,…)` (both builds, const or not, any rank): a successful access refers to the element at
    offset `base + Σ resolve(i_k, dim_k)·offset_k`, i.e. to `addr v (resolveAll v.dims es)`; the call had as many
    arguments as the array has dimensions; in the bounds-checked build every resolved index is inside its dimension. -/
theorem C06_elem_addr {v : View} {es : List EndExpr} {checked : Bool} {a : Int} (h : elemAccess v es checked = .ok a) :
    es.length = v.dims.length ∧ a = addr v (resolveAll v.dims es) ∧
      (checked = true → InRange (resolveAll v.dims es) v.dims) := by
  unfold elemAccess at h
  split at h
  · cases h
  · cases ho : elemOffset checked v.dims v.strides es with
    | error x => simp [ho, bind, Except.bind] at h
    | ok o =>
      simp only [ho, bind, Except.bind] at h
      cases h
      obtain ⟨_, h2, h3, h4⟩ := elemOffset_ok checked _ _ _ _ ho
      exact ⟨h2.symm, by simp [addr, h3], h4⟩

/-- The default build never raises: whatever the indices, the access goes to `addr v (resolveAll …)` (which is an
    element of the array exactly when the indices are in range: the caller's obligation in that build). -/
theorem C06_elem_unchecked_total {v : View} {es : List EndExpr} (hwf : v.WF) (hr : v.dims ≠ [])
    (hlen : es.length = v.dims.length) :
    elemAccess v es false = .ok (addr v (resolveAll v.dims es)) := by
  unfold elemAccess
  simp only [hr, if_false, elemOffset_unchecked v.dims v.strides es hwf hlen.symm, bind, Except.bind, addr]

/-- `-DADEPT_BOUNDS_CHECKING`: the access succeeds iff EVERY index, resolved against its own dimension, is in
    `0 … dim_k-1`, and raises `index_out_of_bounds` iff some index is not — judged against that dimension. -/
theorem C06_elem_checked_iff {v : View} {es : List EndExpr} (hwf : v.WF) (hr : v.dims ≠ [])
    (hlen : es.length = v.dims.length) :
    (elemAccess v es true = .ok (addr v (resolveAll v.dims es)) ↔ InRange (resolveAll v.dims es) v.dims) ∧
    (elemAccess v es true = .error .index_out_of_bounds ↔ ¬ InRange (resolveAll v.dims es) v.dims) := by
  by_cases hin : InRange (resolveAll v.dims es) v.dims
  · have : elemAccess v es true = .ok (addr v (resolveAll v.dims es)) := by
      unfold elemAccess
      simp only [hr, if_false, elemOffset_checked_ok v.dims v.strides es hwf hlen.symm hin, bind, Except.bind, addr]
    exact ⟨⟨fun _ => hin, fun _ => this⟩, ⟨fun h => (by rw [this] at h; cases h), fun h => absurd hin h⟩⟩
  · have : elemAccess v es true = .error .index_out_of_bounds := by
      unfold elemAccess
      simp only [hr, if_false, elemOffset_checked_err v.dims v.strides es hwf hlen.symm hin, bind, Except.bind]
    exact ⟨⟨fun h => (by rw [this] at h; cases h), fun h => absurd h hin⟩, ⟨fun _ => hin, fun _ => this⟩⟩

/-- Element access is the all-scalar case of `operator()`: it refers to the element the rank-0 view
    `slice v [at i0, …]` denotes, so the composition theorems (`C06_compose_addr`, `C06_within_parent`, …) apply to a
    chain of view-forming operations ending in an element access. -/
theorem C06_elem_is_rank0_slice (v : View) (es : List EndExpr) (checked : Bool) (hr : v.dims ≠ []) :
    slice v (es.map Ix.at) checked = (elemAccess v es checked).map elemView := by
  unfold slice sliceRaw elemAccess
  rw [sliceGo_all_scalar]
  simp only [hr, if_false]
  cases elemOffset checked v.dims v.strides es with
  | error x => rfl
  | ok o => rfl

/-- `FixedArray::operator()(i0,…)` (Horner form over the static extents; both builds, const or not, any rank): a
    successful access refers to the element of the packed row-major array with the indices `resolveAll dims es` — the
    same element `Array`'s accessor gives on a fresh row-major array of these extents —, and it lies inside the
    FixedArray's own storage when the indices are in range (bounds-checked build: always). -/
theorem C06_fixed_elem_addr {dims : List Nat} {es : List EndExpr} {checked : Bool} {a : Int}
    (h : fixedElemAccess dims es checked = .ok a) :
    es.length = dims.length ∧ a = addr (fresh true dims) (resolveAll dims es) ∧
      (checked = true → InRange (resolveAll dims es) dims ∧ 0 ≤ a ∧ a < prodInt (dims.map Int.ofNat)) := by
  unfold fixedElemAccess at h
  split at h
  · cases h
  · obtain ⟨h1, h2, h3⟩ := fixedElemGo_ok checked _ _ _ _ h
    have hl := resolveAll_length dims es h1
    have ha : a = addr (fresh true dims) (resolveAll dims es) := by
      rw [h2, horner_lin dims _ 0 hl]
      simp only [addr, fresh, if_true, dot_packRowMajor dims _ hl]
      omega
    refine ⟨h1.symm, ha, fun hc => ⟨h3 hc, ?_⟩⟩
    rw [ha]
    exact fresh_addr_bounds true dims _ (h3 hc)

/-- FixedArray, default build: never raises. -/
theorem C06_fixed_elem_unchecked_total {dims : List Nat} {es : List EndExpr} (hr : dims ≠ []) (hlen : es.length = dims.length) :
    fixedElemAccess dims es false = .ok (addr (fresh true dims) (resolveAll dims es)) := by
  unfold fixedElemAccess
  simp only [hr, if_false, fixedElemGo_unchecked dims es 0 hlen.symm]
  have hl := resolveAll_length dims es hlen.symm
  rw [horner_lin dims _ 0 hl]
  simp only [addr, fresh, if_true, dot_packRowMajor dims _ hl]
  congr 1
  omega

/-- FixedArray, `-DADEPT_BOUNDS_CHECKING`: raises `index_out_of_bounds` iff some index, resolved against ITS OWN static
    extent `J_k`, is outside `0 … J_k-1`; succeeds otherwise. -/
theorem C06_fixed_elem_checked_iff {dims : List Nat} {es : List EndExpr} (hr : dims ≠ []) (hlen : es.length = dims.length) :
    (fixedElemAccess dims es true = .error .index_out_of_bounds ↔ ¬ InRange (resolveAll dims es) dims) ∧
    ((∃ a, fixedElemAccess dims es true = .ok a) ↔ InRange (resolveAll dims es) dims) := by
  by_cases hin : InRange (resolveAll dims es) dims
  · have : fixedElemAccess dims es true = .ok (horner 0 dims (resolveAll dims es)) := by
      unfold fixedElemAccess
      simp only [hr, if_false, fixedElemGo_checked_ok dims es 0 hlen.symm hin]
    exact ⟨⟨fun h => (by rw [this] at h; cases h), fun h => absurd hin h⟩, ⟨fun _ => hin, fun _ => ⟨_, this⟩⟩⟩
  · have : fixedElemAccess dims es true = .error .index_out_of_bounds := by
      unfold fixedElemAccess
      simp only [hr, if_false, fixedElemGo_checked_err dims es 0 hlen.symm hin]
    exact ⟨⟨fun _ => hin, fun _ => this⟩, ⟨fun ⟨a, h⟩ => (by rw [this] at h; cases h), fun h => absurd h hin⟩⟩

/-- `permute(i0,i1,…)` (separate arguments) and `permute(const ExpressionSize<Rank>&)` address exactly what
    `permute(const Index*)` does: a successful call of the former IS a successful `permute` with the same list. -/
theorem C06_permute_args_addr {v w : View} {p : List Int} (h : permuteArgs v p = .ok w) :
    permute v p = .ok w ∧ ∀ x ∈ p, x ≠ -1 := by
  unfold permuteArgs at h
  split at h
  · cases h
  · rename_i hn
    refine ⟨h, fun x hx hx1 => hn ?_⟩
    simp only [List.any_eq_true, beq_iff_eq]
    exact ⟨x, hx, hx1⟩

/-! ## non-vacuity

A 3×4×5 parent; `A(1, stride(end,0,-1), range(1,end))`, then `T`, then `diag_vector(-1)`: the run
succeeds in the checked build, is admissible, and the result has the expected shape; the checked
build rejects an index one past the end; a direction-inconsistent range is empty. -/
example :
    run true (fresh true [3, 4, 5])
      [.slice [.at (.lit 1), .stride (.fromEnd 0) (.lit 0) (.lit (-1)), .range (.lit 1) (.fromEnd 0)], .T, .diag (-1)]
      = .ok ⟨37, [3], [-4]⟩ := by decide

example : RunAdm true (fresh true [3, 4, 5])
    [.slice [.at (.lit 1), .stride (.fromEnd 0) (.lit 0) (.lit (-1)), .range (.lit 1) (.fromEnd 0)], .T, .diag (-1)] := by
  refine ⟨Or.inl rfl, fun w _ => ⟨trivial, fun w' _ => ⟨trivial, fun _ _ => trivial⟩⟩⟩

example : slice (fresh true [3, 4]) [.at (.lit 3), .all] true = .error .index_out_of_bounds := by decide
example : ¬ ArgsAdm [3, 4] [.at (.lit 3), .all] := by simp [ArgsAdm, ArgAdm, EndExpr.resolve]
example : slice (fresh true [6]) [.range (.lit 3) (.lit 2)] true = .ok ⟨3, [0], [1]⟩ := by decide
example : IsPerm [2, 0, 1] 3 := ⟨rfl, by decide⟩

/-! Rank 3, nothing selected in the MIDDLE position, `T(__,range(2,1),__)` on a 2×3×4 array: the member function
computes the extents `(2,0,4)` (not `empty()`, although there is no element: the defect), the constructed view has the
extents `(0,0,0)`, is `empty()`, and keeps `data_` and the offsets; likewise `stride(1,2,-2)` in the last position
and `operator[]` of a view whose second extent is zero; a selection with elements is unchanged. -/
example : applyRaw false (fresh true [2, 3, 4]) (.slice [.all, .range (.lit 2) (.lit 1), .all]) = .ok ⟨8, [2, 0, 4], [12, 4, 1]⟩ := by
  decide
example : (View.isEmpty ⟨8, [2, 0, 4], [12, 4, 1]⟩ = false ∧ allIndices [2, 0, 4] = []) := by decide
example : apply false (fresh true [2, 3, 4]) (.slice [.all, .range (.lit 2) (.lit 1), .all]) = .ok ⟨8, [0, 0, 0], [12, 4, 1]⟩ := by
  decide
example : (Op.slice [.all, .range (.lit 2) (.lit 1), .all]).constructs = true ∧ 0 ∈ ([0, 0, 0] : List Nat) ∧
    View.isEmpty ⟨8, [0, 0, 0], [12, 4, 1]⟩ = true := by decide
example : apply true (fresh true [2, 3, 4]) (.slice [.all, .all, .stride (.lit 1) (.lit 2) (.lit (-2))]) = .ok ⟨1, [0, 0, 0], [12, 4, -2]⟩ := by
  decide
example : applyRaw true ⟨0, [2, 0, 4], [12, 4, 1]⟩ (.sub1 (.lit 1)) = .ok ⟨12, [0, 4], [4, 1]⟩ ∧
    apply true ⟨0, [2, 0, 4], [12, 4, 1]⟩ (.sub1 (.lit 1)) = .ok ⟨12, [0, 0], [4, 1]⟩ := by decide
example : applyRaw false (fresh true [2, 3, 4]) (.slice [.all, .range (.lit 1) (.lit 2), .at (.lit 1)]) = .ok ⟨5, [2, 2], [12, 4]⟩ ∧
    apply false (fresh true [2, 3, 4]) (.slice [.all, .range (.lit 1) (.lit 2), .at (.lit 1)]) = .ok ⟨5, [2, 2], [12, 4]⟩ ∧
    0 ∉ ([2, 2] : List Nat) := by decide
example : (fresh true [2, 3, 4]).dims = canonDims (fresh true [2, 3, 4]).dims ∧ ∀ d ∈ ([2, 3, 4] : List Nat), d ≠ 0 := by decide
example : run false (fresh true [2, 3, 4]) [.slice [.all, .range (.lit 2) (.lit 1), .all], .softLink, .sub1 (.lit 0), .T]
    = .ok ⟨8, [0, 0], [1, 4]⟩ := by decide

/-! `A(1, end, idx)` on a 2×5×4 array with `idx = (3,0,2)`: `end` is resolved against the extent 5 of
dimension 1 (cells 39, 36, 38 = row (1,4)); the selectors are admissible; in the checked build an entry
equal to the extent is rejected and the stores made before it stay inside the parent. -/
example : ∃ iv, indexed (fresh true [2, 5, 4]) [.at (.lit 1), .at (.fromEnd 0), .vec [.lit 3, .lit 0, .lit 2]] false = .ok iv ∧
    iv.dims = [3] ∧ ixRead false iv = .ok [39, 36, 38] := ⟨_, rfl, by decide, by decide⟩
example : SelsAdm [2, 5, 4] [.at (.lit 1), .at (.fromEnd 0), .vec [.lit 3, .lit 0, .lit 2]] := by
  simp [SelsAdm, SelAdm, EndExpr.resolve]
example : ∃ iv, indexed (fresh true [6]) [.vec [.lit 3, .lit 6, .lit 2]] true = .ok iv ∧ iv.isEmpty = false ∧
    ixRead true iv = .error .index_out_of_bounds ∧
    ixStores true iv [-1, -2, -3] = ([(3, -1)], some .index_out_of_bounds) := ⟨_, rfl, by decide, by decide, by decide⟩
example : ¬ SelsAdm [6] [.vec [.lit 3, .lit 6, .lit 2]] := by
  simp [SelsAdm, SelAdm, EndExpr.resolve]
example : ∃ iv, indexed (fresh true [3, 4]) [.all, .vec [.lit 3, .lit 1]] true = .ok iv ∧
    iv.dims = [3, 2] ∧ ixRead true iv = .ok [3, 1, 7, 5, 11, 9] := ⟨_, rfl, by decide, by decide⟩

/-! `v(12-end)` on 10 elements is element 3, not `end-12 = -3`; `stride(end/3, end, end/4)` on 10 elements is
3,5,7,9; `v(9-idx)` with `idx = (1,3,0)` is 8,6,9; a division by zero is flagged. -/
example : slice (fresh true [10]) [.at (.bin .sub (.lit 12) .last)] false = .ok ⟨3, [], []⟩ := by decide
example : slice (fresh true [10]) [.stride (.bin .div .last (.lit 3)) .last (.bin .div .last (.lit 4))] true
    = .ok ⟨3, [4], [2]⟩ := by decide
example : ((VExpr.bin .sub (.lit 9) .idx).entries [1, 3, 0]).map (EndExpr.resolve 10) = [8, 6, 9] := by decide
example : (EndExpr.bin .div (.lit 3) (.bin .sub .last (.lit 3))).defined 4 = false := by decide
example : (0 : Int) < 2 ∧ (2 : Int) < ((10 : Nat) : Int) - 1 := by decide

/- element access: a 2×3×4 array, `A(0,end,1)`: the middle `end` is 2 (its own dimension has length 3), the element is
   cell 9; resolved against the length of the LAST dimension it would be 3 — cell 13, and in the bounds-checked build an
   error.  `A(0,3,1)` is rejected by the bounds-checked build although 3 is a valid index of the last dimension. -/
example : elemAccess (fresh true [2, 3, 4]) [.lit 0, .last, .lit 1] true = .ok 9 := by decide
example : fixedElemAccess [2, 3, 4] [.lit 0, .last, .lit 1] false = .ok 9 := by decide
example : fixedElemAccess [2, 3, 4] [.lit 0, .lit 3, .lit 1] true = .error .index_out_of_bounds := by decide
example : ¬ InRange (resolveAll [2, 3, 4] [.lit 0, .lit 3, .lit 1]) [2, 3, 4] := by simp [resolveAll, InRange, EndExpr.resolve]
example : InRange (resolveAll [2, 3, 4] [.lit 0, .last, .lit 1]) [2, 3, 4] := by simp [resolveAll, InRange, EndExpr.resolve]
example : fixedElemAccess [3, 2, 5, 4] [.fromEnd 0, .bin .div .last (.lit 2), .bin .sub (.lit 7) .last, .last] true = .ok 95 := by decide
example : permuteArgs (fresh true [2, 3, 4]) [2, 0, 1] = .ok ⟨0, [4, 2, 3], [1, 12, 4]⟩ := by decide
example : permuteArgs (fresh true [2, 3]) [1, -1] = .error .invalid_dimension := by decide

end Adept.Views
