import AdeptProofs.Lemmas.Threads
/-!
# C12 — threads that each own a stack do not interfere

Property theorems only; helper lemmas are in `AdeptProofs/Lemmas/Threads.lean`.  All statements are about the
abstract machine of `AdeptModel/Threads.lean`: worlds with per-thread components and named shared locations, API
operations as atomic steps, a footprint table, schedules = lists of thread ids.  The machine is tied to the working tree
by the two GENERATED tables `Generated/Globals.lean` (symbol tables of the compiled library) and
`Generated/StorageCfg.lean` (`Storage.h`): the hypotheses of the general theorems are discharged from them by `decide`
over the whole table (`C12_globals_accounted`, `C12_hypothesis_generated`), so an edit that makes the stack pointer
process-wide, adds an unclassified writable global, or turns the storage counters back into plain integers breaks an
obligation here.  Whether the real binary performs only the accesses the table lists is OBSERVED (ThreadSanitizer runs
of harness/drv_threads.cpp), not proved.
-/
namespace Adept.Threads
open Adept.Generated

/-- The symbol table of the compiled library: `adept::_stack_current_thread` is there and thread-local, nothing else is
    thread-local, and every other writable data symbol is one the footprint table knows (`classify`). -/
theorem C12_globals_accounted : globalsAccounted Globals.table = true := by decide

/-- The hypothesis of the theorems below, for the default C++11 build of the working tree and the operation kinds of a
    C12 workload (own stack, recording, differentiation, private arrays and views, printing): the active-stack pointer is
    thread-local; no operation writes a shared location that an operation reads; wherever two operations touch the same
    shared location and one writes, both accesses are atomic (the two storage counters). -/
theorem C12_hypothesis_generated :
    cfgDefault.stackPtrTLS = true ∧ Isolated cfgDefault c12Kinds ∧ NoPlainConflict cfgDefault c12Kinds := by decide

/-- The literal hypothesis "no operation of the workload writes a shared location" is a special case of the one used. -/
theorem C12_no_shared_write_suffices (c : Cfg) (K : List OpKind) (h : NoSharedWrite c K) :
    Isolated c K ∧ NoPlainConflict c K := ⟨noSharedWrite_isolated h, noSharedWrite_noPlainConflict h⟩

/-- NON-INTERFERENCE.  If the stack pointer is thread-local and no operation kind of the workload writes a shared location
    that one of them reads, then after EVERY schedule what thread `t` sees (its stack pointer, its tape, every result it
    obtained, its arrays) is exactly what it sees after running the operations it has executed so far alone. -/
theorem C12_noninterference (c : Cfg) (W : Workload) (K : List OpKind) (w0 : World)
    (hT : c.stackPtrTLS = true) (hI : Isolated c K) (hU : UsesOnly W K) (sched : List Nat) (t : Nat) :
    view t (exec c W sched (Run.start w0)).w
      = view t (solo c t ((W t).take (min (sched.count t) (W t).length)) w0) := by
  have h := (niinv_exec c W K w0 hT hI hU sched).1 t
  have hpc := exec_pc c W t sched (Run.start w0) (by simp [Run.start])
  simp only [Run.start, Nat.zero_add] at hpc
  rw [h]; simp only [Run.start] at hpc ⊢; rw [hpc]

/-- … in particular, once the schedule has let `t` finish, `t` has exactly the results of its solo run. -/
theorem C12_noninterference_complete (c : Cfg) (W : Workload) (K : List OpKind) (w0 : World)
    (hT : c.stackPtrTLS = true) (hI : Isolated c K) (hU : UsesOnly W K) (sched : List Nat) (t : Nat)
    (hfin : (W t).length ≤ sched.count t) :
    view t (exec c W sched (Run.start w0)).w = view t (solo c t (W t) w0) := by
  rw [C12_noninterference c W K w0 hT hI hU sched t, Nat.min_eq_right hfin, List.take_length]

/-- Non-interference for the working tree: any number of threads, any C12 workload, any schedule. -/
theorem C12_noninterference_generated (W : Workload) (hU : UsesOnly W c12Kinds) (w0 : World) (sched : List Nat) (t : Nat)
    (hfin : (W t).length ≤ sched.count t) :
    view t (exec cfgDefault W sched (Run.start w0)).w = view t (solo cfgDefault t (W t) w0) :=
  C12_noninterference_complete cfgDefault W c12Kinds w0 C12_hypothesis_generated.1 C12_hypothesis_generated.2.1 hU sched t hfin

/-- RACE FREEDOM.  If all conflicting accesses to shared locations among the workload's operation kinds are atomic, then
    in every schedule no two executed steps of different threads contain a data race (same location, one a write, one
    plain).  Thread-local and owned locations of different threads are different locations. -/
theorem C12_race_free (c : Cfg) (W : Workload) (K : List OpKind) (hN : NoPlainConflict c K) (hU : UsesOnly W K)
    (sched : List Nat) (w0 : World) :
    ∀ e ∈ (exec c W sched (Run.start w0)).trace, ∀ e' ∈ (exec c W sched (Run.start w0)).trace,
      ∀ a ∈ footprint c e.2.kind, ∀ b ∈ footprint c e'.2.kind, ¬ Races e.1 a e'.1 b :=
  race_free_of_noPlainConflict c W K hN hU sched w0

/-- Race freedom for the working tree. -/
theorem C12_race_free_generated (W : Workload) (hU : UsesOnly W c12Kinds) (sched : List Nat) (w0 : World) :
    ∀ e ∈ (exec cfgDefault W sched (Run.start w0)).trace, ∀ e' ∈ (exec cfgDefault W sched (Run.start w0)).trace,
      ∀ a ∈ footprint cfgDefault e.2.kind, ∀ b ∈ footprint cfgDefault e'.2.kind, ¬ Races e.1 a e'.1 b :=
  C12_race_free cfgDefault W c12Kinds C12_hypothesis_generated.2.2 hU sched w0

/-- ACTIVE ONLY IN THE ACTIVATOR.  With a thread-local pointer, starting with no active stack anywhere: after every
    schedule, if thread `u` has an active stack then `u` itself executed the `Stack` constructor / `activate()` that put
    it there — no operation of another thread can make a stack active in `u`. -/
theorem C12_active_only_in_activator (c : Cfg) (hT : c.stackPtrTLS = true) (W : Workload) (w0 : World)
    (h0 : ∀ u, w0.tls u = 0) (sched : List Nat) (u : Nat)
    (hne : (exec c W sched (Run.start w0)).w.tls u ≠ 0) :
    ∃ op ∈ (W u).take ((exec c W sched (Run.start w0)).pc u),
      (op.kind = .newStack ∨ op.kind = .activate) ∧ (exec c W sched (Run.start w0)).w.tls u = op.arg + 1 :=
  actinv_exec c hT W sched w0 h0 u hne

/-- A thread that never creates or activates a stack observes `active_stack() == 0`, whatever the others do. -/
theorem C12_stackless_thread_reads_zero (c : Cfg) (hT : c.stackPtrTLS = true) (W : Workload) (w0 : World)
    (h0 : ∀ u, w0.tls u = 0) (sched : List Nat) (u : Nat)
    (hno : ∀ op ∈ W u, op.kind ≠ .newStack ∧ op.kind ≠ .activate) :
    (exec c W sched (Run.start w0)).w.tls u = 0 := by
  apply Classical.byContradiction
  intro hne
  obtain ⟨op, hop, hk, _⟩ := C12_active_only_in_activator c hT W w0 h0 sched u hne
  have := hno op (List.mem_of_mem_take hop)
  rcases hk with hk | hk
  · exact this.1 hk
  · exact this.2 hk

/-- `active_stack()` in thread `t` reports exactly `t`'s thread-local pointer. -/
theorem C12_active_stack_reports_own_pointer (c : Cfg) (hT : c.stackPtrTLS = true) (t a : Nat) (w : World) :
    ((step c t ⟨.readActive, a⟩ w).priv t).out = w.tls t :: (w.priv t).out := by
  simp [step, getPtr, hT, modPriv]

/-- A step of one thread changes neither what another thread owns nor the other thread's pointer. -/
theorem C12_step_leaves_other_threads (c : Cfg) (t u : Nat) (op : Op) (w : World) (h : u ≠ t) :
    (step c t op w).priv u = w.priv u ∧ (step c t op w).tls u = w.tls u := step_other c op w h

/-! ### The model distinguishes the configurations (what the tree looked like before the repair of F-16, and what a
process-wide stack pointer would do) -/

/-- F-16 as found: with plain `Index` counters the hypothesis fails, and two threads that each create one array race. -/
theorem C12_sensitivity_plain_counters_race :
    ¬ NoPlainConflict { cfgDefault with countersAtomic := false } c12Kinds ∧
    Races 0 ⟨.shared .nStorageCreated, .write, .plain⟩ 1 ⟨.shared .nStorageCreated, .write, .plain⟩ ∧
    (⟨.shared .nStorageCreated, .write, .plain⟩ : Access) ∈ footprint { cfgDefault with countersAtomic := false } .newArray := by
  refine ⟨by decide, ⟨by decide, rfl, Or.inl rfl, Or.inl rfl⟩, by decide⟩

/-- With a process-wide stack pointer the hypothesis fails, and there is a two-thread schedule after which thread 0 does
    NOT see what it sees alone (its constructor throws stack_already_active and its statement goes to the other
    thread's stack). -/
theorem C12_sensitivity_global_pointer_interferes :
    ¬ Isolated { cfgDefault with stackPtrTLS := false } c12Kinds ∧
    (let c : Cfg := { cfgDefault with stackPtrTLS := false }
     let W : Workload := fun t => if t = 0 then [⟨.newStack, 0⟩, ⟨.record, 5⟩, ⟨.differentiate, 0⟩]
                                  else if t = 1 then [⟨.newStack, 1⟩, ⟨.deactivate, 1⟩] else []
     ((exec c W [1, 0, 0, 0] (Run.start World.init)).w.priv 0).out ≠ ((solo c 0 (W 0) World.init).priv 0).out) := by
  refine ⟨by decide, by decide⟩

/-! ### The Stack constructor under allocation faults -/

/-- The order of the constructor's steps in the working tree (regenerated from Stack.h on every run) is the order the
    model calls `codeOrder`: allocate (`initialize`), `new_recording`, and only then `activate`. -/
theorem C12_ctor_order_generated : Ctor.generatedOrder = some Ctor.codeOrder := by decide

/-- FAILED CONSTRUCTION LEAVES THE THREAD'S POINTER ALONE.  For the code's order, whatever the thread's pointer `cur` was,
    whatever stack number is being constructed, activating or not, and WHATEVER step faults (`faultAt` ranges over all
    naturals: any of the three steps, or none): if the constructor exits by an exception (injected fault, or
    stack_already_active from `activate`) the thread's active pointer is exactly what it was before.  In particular a thread
    that owned no active stack still has `active_stack() == 0` after `new Stack` threw std::bad_alloc. -/
theorem C12_failed_ctor_pointer_unchanged (sid cur faultAt : Nat) (act : Bool) :
    let r := Ctor.construct Ctor.codeOrder sid act faultAt cur
    r.failed = true → r.ptr = cur := by
  simp only [Ctor.construct, Ctor.codeOrder, Ctor.crun]
  rcases Nat.lt_or_ge faultAt 3 with h | h
  · have : faultAt = 0 ∨ faultAt = 1 ∨ faultAt = 2 := by omega
    rcases this with rfl | rfl | rfl <;> cases act <;> simp [Ctor.cstep]
  · have h0 : (0 == faultAt) = false := by simp; omega
    have h1 : (0 + 1 == faultAt) = false := by simp; omega
    have h2 : (0 + 1 + 1 == faultAt) = false := by simp; omega
    simp only [h0, h1, h2]
    cases act <;> simp [Ctor.cstep]
    intro h; split at h <;> simp_all

/-- non-vacuity: the fault in each of the three steps does make the construction fail (and the pointer stays 0) -/
example : (Ctor.construct Ctor.codeOrder 1 true 0 0) = ⟨0, true⟩ ∧ (Ctor.construct Ctor.codeOrder 1 true 1 0) = ⟨0, true⟩ ∧
    (Ctor.construct Ctor.codeOrder 1 true 2 0) = ⟨0, true⟩ ∧ (Ctor.construct Ctor.codeOrder 2 true 9 1) = ⟨1, true⟩ := by decide

/-- ... and the thread can go on: after a failed construction in a thread without an active stack, the next constructor
    (any stack number, no fault) succeeds and its object is the thread's active stack. -/
theorem C12_stack_constructible_after_failed_ctor (sid sid' faultAt : Nat) (act : Bool) :
    let r := Ctor.construct Ctor.codeOrder sid act faultAt 0
    r.failed = true →
    Ctor.construct Ctor.codeOrder sid' true 3 r.ptr = ⟨sid', false⟩ := by
  intro r hf
  have h := C12_failed_ctor_pointer_unchanged sid 0 faultAt act hf
  show Ctor.construct Ctor.codeOrder sid' true 3 r.ptr = ⟨sid', false⟩
  rw [h]
  simp [Ctor.construct, Ctor.codeOrder, Ctor.crun, Ctor.cstep]

example : (Ctor.construct Ctor.codeOrder 1 true 0 0).failed = true := by decide

/-- REFUTATION of the swapped order (activate before allocating): a thread without an active stack constructs stack 0
    (pointer value 1) and the allocation step faults: the constructor has failed — the object does not exist — yet the thread's
    pointer designates it; the thread's next constructor then fails with stack_already_active although no fault is injected. -/
theorem C12_swapped_ctor_order_dangles :
    Ctor.construct Ctor.swappedOrder 1 true 1 0 = ⟨1, true⟩ ∧
    (Ctor.construct Ctor.swappedOrder 2 true 3 (Ctor.construct Ctor.swappedOrder 1 true 1 0).ptr).failed = true := by decide

/-! ### Non-vacuity: a concrete three-thread workload of C12 kinds (two threads with stacks, scalars and arrays, one
stack-less sampler), a concrete schedule, and what the theorems say about it. -/

def exampleW : Workload := fun t =>
  if t = 0 then [⟨.newStack, 0⟩, ⟨.newArray, 0⟩, ⟨.record, 3⟩, ⟨.record, 4⟩, ⟨.differentiate, 0⟩, ⟨.readActive, 0⟩,
                 ⟨.deleteArray, 0⟩, ⟨.destroyStack, 0⟩]
  else if t = 1 then [⟨.newStack, 1⟩, ⟨.record, 9⟩, ⟨.newArray, 0⟩, ⟨.viewOwn, 0⟩, ⟨.differentiate, 0⟩, ⟨.deleteArray, 0⟩]
  else if t = 2 then [⟨.readActive, 0⟩, ⟨.readActive, 0⟩]
  else []

example : UsesOnly exampleW c12Kinds := by
  intro t op h
  by_cases h0 : t = 0
  · subst h0; simp [exampleW] at h; rcases h with rfl | rfl | rfl | rfl | rfl | rfl | rfl | rfl <;> decide
  · by_cases h1 : t = 1
    · subst h1; simp [exampleW] at h; rcases h with rfl | rfl | rfl | rfl | rfl | rfl <;> decide
    · by_cases h2 : t = 2
      · subst h2; simp [exampleW] at h; rcases h with rfl | rfl <;> decide
      · simp [exampleW, h0, h1, h2] at h

/-- the interleaved run: both stacks active in their own threads, the sampler saw 0 twice, counters 2 created / 1 deleted -/
example :
    let r := exec cfgDefault exampleW [0, 1, 2, 1, 0, 0, 1, 1, 0, 2, 0, 1, 0, 0] (Run.start World.init)
    r.w.tls 0 = 1 ∧ r.w.tls 1 = 2 ∧ r.w.tls 2 = 0 ∧ (r.w.priv 2).out = [0, 0] ∧
      (r.w.priv 0).out = (( solo cfgDefault 0 ((exampleW 0).take 7) World.init).priv 0).out ∧
      r.w.sh .nStorageCreated = 2 ∧ r.w.sh .nStorageDeleted = 1 := by decide

end Adept.Threads
