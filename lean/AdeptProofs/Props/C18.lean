import AdeptProofs.Lemmas.Minimizer
/-!
# C18 — the minimizer never leaves the box and reports what it actually reached (exact-arithmetic part)

Property theorems only; helper lemmas live in `AdeptProofs/Lemmas/Minimizer.lean`.  All statements are about
`AdeptModel/MinimizerLogic.lean`, the transcription of the bounded minimizers and of `line_search` after the fixes
F-17, F-18, F-20, F-60, F-61, F-63; the decision functions of that model are re-evaluated against the decisions
logged by the real code on every run (hook H4, checks/c18.py).

Everything is proved over an arbitrary linear ordered field (exact arithmetic) and for ARBITRARY cost / gradient
oracles `f`, norms `nrm` (only `0 ≤ nrm v` is used), cubic steps `cubic`, direction strategies `D` and Newton steps.
What exact arithmetic cannot show (rounding of `x + (a*s)*d` at a face, finding F-19) is observed by the check.
-/
namespace Adept.Minimizer
set_option linter.unusedSectionVars false

variable {α : Type} [Field α] [LinearOrder α] [IsStrictOrderedRing α] {δ : Type}

/-! ## start: projection onto the box, truthful initial flags -/

/-- a start outside the box is first moved onto it: the projected start satisfies `lower ≤ x ≤ upper`,
    and is the start itself when that already lies in the box -/
theorem C18_start_projected {n : Nat} {lo up : Vec α} (hv : ValidBounds n lo up) (x0 : Vec α) :
    Box n lo up (project lo up x0) ∧ (Box n lo up x0 → ∀ i < n, project lo up x0 i = x0 i) :=
  ⟨project_box hv x0, project_of_box⟩

/-- the initial bound flags are truthful: a variable flagged ∓1 lies on that face of the projected start -/
theorem C18_flags_truthful_init {n : Nat} {lo up : Vec α} (hv : ValidBounds n lo up) (x0 : Vec α) :
    FlagsTrue n lo up (project lo up x0) (initBoundStatus lo up x0) :=
  initBoundStatus_true hv x0

/-! ## line search -/

/-- every step length `line_search` hands to the user's function, and the step it finally takes, is non-negative
    and, when a bound step length is given (`bound ≥ 0`), at most that length — for any cost function, any cubic
    step formula, any settings -/
theorem C18_ls_steps_within_bound (P : LSParams α) (phi : α → LSample α) (cubic : LSState α → α)
    (bound step0 cost0 grad0 curv : α) (u0 : Int) (hstep : 0 ≤ step0) :
    (∀ t ∈ (lineSearch P phi cubic bound step0 cost0 grad0 curv u0).evals, 0 ≤ t ∧ (0 ≤ bound → t ≤ bound)) ∧
    (0 ≤ (lineSearch P phi cubic bound step0 cost0 grad0 curv u0).t ∧
      (0 ≤ bound → (lineSearch P phi cubic bound step0 cost0 grad0 curv u0).t ≤ bound)) :=
  let h := lineSearch_ok P phi cubic bound step0 cost0 grad0 curv u0 hstep
  ⟨h.1, h.2.1⟩

/-- `line_search` terminates: both loops run on one counter that every pass decrements (after F-17), so the
    user's function is called at most `max_line_search_iterations_ + 1` times -/
theorem C18_ls_terminates (P : LSParams α) (phi : α → LSample α) (cubic : LSState α → α)
    (bound step0 cost0 grad0 curv : α) (u0 : Int) :
    (lineSearch P phi cubic bound step0 cost0 grad0 curv u0).evals.length ≤ P.maxIter + 1 :=
  lineSearch_evals_le P phi cubic bound step0 cost0 grad0 curv u0

/-- `line_search` reports `BOUND_REACHED` only if it has moved exactly onto the bound step, or the bound step has
    length zero and nothing was moved (F-60) -/
theorem C18_ls_bound_reached_means (P : LSParams α) (phi : α → LSample α) (cubic : LSState α → α)
    (bound step0 cost0 grad0 curv : α) (u0 : Int) (hstep : 0 ≤ step0) :
    (lineSearch P phi cubic bound step0 cost0 grad0 curv u0).exit = .boundReached →
      0 ≤ bound ∧
      (((lineSearch P phi cubic bound step0 cost0 grad0 curv u0).moved = true ∧
          (lineSearch P phi cubic bound step0 cost0 grad0 curv u0).t = bound) ∨
       ((lineSearch P phi cubic bound step0 cost0 grad0 curv u0).moved = false ∧ bound = 0)) :=
  lineSearch_boundExit P phi cubic bound step0 cost0 grad0 curv u0 hstep

/-! ## Conjugate-Gradient / L-BFGS (any direction strategy) -/

/-- the nearest-bound loop returns a step length not larger than the distance to ANY face a variable moves towards,
    and the variable it names attains it -/
theorem C18_nearest_bound (n : Nat) (big nd : α) (x d lo up : Vec α) :
    (∀ j < n, (d j > 0 ∧ up j < big → (nearestBound n big nd x d lo up).b ≤ nd * (up j - x j) / d j) ∧
              (d j < 0 ∧ lo j > -big → (nearestBound n big nd x d lo up).b ≤ nd * (lo j - x j) / d j)) ∧
    (∀ i, (nearestBound n big nd x d lo up).idx = some i → i < n ∧
      (((nearestBound n big nd x d lo up).ty = 1 ∧ d i > 0 ∧ up i < big ∧
          (nearestBound n big nd x d lo up).b = nd * (up i - x i) / d i) ∨
       ((nearestBound n big nd x d lo up).ty = -1 ∧ d i < 0 ∧ lo i > -big ∧
          (nearestBound n big nd x d lo up).b = nd * (lo i - x i) / d i))) :=
  let h := nearestBound_spec n big nd x d lo up
  ⟨h.2, h.1.2.2⟩

/-- **feasible_always** (line-search minimizers).  For any cost function `f`, any direction strategy `D` whose step
    sizes stay non-negative, any start and any valid bounds: every state handed to the user's callbacks during
    `minimize_*_bounded`, and the state returned, satisfies every bound that is not the `±max` sentinel.
    `hsent` is the trace hypothesis on the sentinel (`NBExact`): in every pass the nearest-bound loop registered a
    face whenever a variable was moving towards a real bound (it does unless that distance exceeds `max`). -/
theorem C18_feasible_always (S : Settings α) (f : Vec α → Sample α) (nrm : Vec α → α) (cubic : LSState α → α)
    (D : DirStrategy α δ) (x0 : Vec α) (d0 : δ) (step0 : α) (passes : Nat)
    (hv : boundsInvalid S.n S.lo S.up = false) (hn : ∀ v, 0 ≤ nrm v) (hD : DirOK D) (h0 : 0 ≤ step0)
    (hsent : ∀ k, SentOK S nrm D (lsRelease S nrm D (lsEval f (lsIter S f nrm cubic D (lsStart S x0 d0 step0) k)))) :
    (∀ c ∈ (lsMinimize S f nrm cubic D x0 d0 step0 passes).calls, InBox S.big S.n S.lo S.up c) ∧
    InBox S.big S.n S.lo S.up (lsMinimize S f nrm cubic D x0 d0 step0 passes).x := by
  unfold lsMinimize
  rw [hv]
  simp only [Bool.false_eq_true, ↓reduceIte]
  have hvb := boundsInvalid_false_iff.mp hv
  have h := lsEpilogue_inv f (lsIter_inv f cubic hn hD hsent (lsStart_inv hvb x0 d0 h0) passes)
  exact ⟨h.2.1, h.1⟩

/-- the Conjugate-Gradient strategies keep step sizes non-negative, so `C18_feasible_always` applies to them -/
theorem C18_cg_strategy_ok (n : Nat) (fr : Bool) : DirOK (cgStrategy (α := α) n fr) := by
  constructor
  · intro ds it x g s hs
    simp only [cgStrategy, cgDir]
    split <;> exact hs
  · intro s hs
    simp only [cgStrategy]
    have : (2.0 : α) = 2 := by norm_num
    rw [this]; linarith

/-- **invalid_bounds**: bounds with `lower ≥ upper` somewhere are answered with the documented status, without
    calling the user's function and without touching the state -/
theorem C18_invalid_bounds (S : Settings α) (f : Vec α → Sample α) (nrm : Vec α → α) (cubic : LSState α → α)
    (D : DirStrategy α δ) (x0 : Vec α) (d0 : δ) (step0 : α) (passes : Nat)
    (hv : boundsInvalid S.n S.lo S.up = true) :
    (lsMinimize S f nrm cubic D x0 d0 step0 passes).status = .invalidBounds ∧
    (lsMinimize S f nrm cubic D x0 d0 step0 passes).calls = [] ∧
    (lsMinimize S f nrm cubic D x0 d0 step0 passes).x = x0 := by
  unfold lsMinimize
  rw [hv]
  exact ⟨rfl, rfl, rfl⟩

/-- **iterations_bounded** and **terminates** (outer loop): the iteration counter never exceeds the number of
    passes, while the loop runs it equals it and stays below `max_iterations`; hence after `max(max_iterations,1)`
    passes the status is no longer "not yet converged" and the counter is at most `max(max_iterations,1)` -/
theorem C18_iterations_bounded (S : Settings α) (f : Vec α → Sample α) (nrm : Vec α → α) (cubic : LSState α → α)
    (D : DirStrategy α δ) (x0 : Vec α) (d0 : δ) (step0 : α) (k : Nat) :
    (lsIter S f nrm cubic D (lsStart S x0 d0 step0) k).nIter ≤ k ∧
    ((lsIter S f nrm cubic D (lsStart S x0 d0 step0) k).status = .notYet → 0 < k → (k : Int) < S.maxIter) :=
  let h := lsIter_count S f nrm cubic D (lsStart S x0 d0 step0) rfl k
  ⟨h.1, fun hs hk => (h.2 hs).2 hk⟩

theorem C18_terminates (S : Settings α) (f : Vec α → Sample α) (nrm : Vec α → α) (cubic : LSState α → α)
    (D : DirStrategy α δ) (x0 : Vec α) (d0 : δ) (step0 : α) (N : Nat) (hN : 0 < N) (hmax : S.maxIter ≤ (N : Int)) :
    (lsIter S f nrm cubic D (lsStart S x0 d0 step0) N).status ≠ .notYet ∧
    ∀ m, (lsIter S f nrm cubic D (lsStart S x0 d0 step0) (N + m)).nIter ≤ N := by
  have h := lsIter_count S f nrm cubic D (lsStart S x0 d0 step0) rfl N
  have hne : (lsIter S f nrm cubic D (lsStart S x0 d0 step0) N).status ≠ .notYet := by
    intro hs
    have := (h.2 hs).2 hN
    omega
  refine ⟨hne, fun m => ?_⟩
  have hst : lsRunning (lsIter S f nrm cubic D (lsStart S x0 d0 step0) N) = false := by
    simp [lsRunning, hne]
  unfold lsIter at hst ⊢
  rw [loopN_stable _ _ N m _ hst]
  exact h.1

/-- **flags_truthful** (line-search minimizers, one pass): if the flags are truthful before the line search and the
    search direction vanishes on the flagged variables (`DirZero`: true of steepest descent on the masked gradient,
    i.e. after every restart, which every change of the active set triggers), they are truthful afterwards: the
    variable named by the nearest-bound loop lands exactly on its face when `line_search` reports the bound, and no
    flagged variable moves.  `NormDef`: the norm oracle is non-negative and vanishes only on the zero vector. -/
theorem C18_flags_truthful (S : Settings α) (f : Vec α → Sample α) (nrm : Vec α → α) (cubic : LSState α → α)
    (D : DirStrategy α δ) (st : DSt α δ) (hn : NormDef S.n nrm) (hD : DirOK D) (hz : DirZero S D st)
    (h : PInv S st) (hf : FlagsTrue S.n S.lo S.up st.x st.bs) :
    FlagsTrue S.n S.lo S.up (lsSearch S f nrm cubic D st).x (lsSearch S f nrm cubic D st).bs :=
  lsSearch_flags f cubic hn hD hz h hf

/-- releasing never makes a flag untruthful -/
theorem C18_flags_truthful_release {n : Nat} {lo up x : Vec α} {bs : Nat → Int} (g dx : Vec α)
    (h : FlagsTrue n lo up x bs) : FlagsTrue n lo up x (releaseCG bs g) ∧ FlagsTrue n lo up x (releaseLM bs g dx) :=
  ⟨releaseCG_flags g h, releaseLM_flags g dx h⟩

/-- **converged_means** (line-search minimizers): the pass that declares convergence has found the norm of the
    gradient array over the unflagged variables at most the threshold (0 if none is free), and every variable
    still flagged has a gradient entry whose sign holds it on its bound.  When the pass began with an evaluation,
    that array is the user's gradient at the current state (`lsEval_grad`). -/
theorem C18_converged_means (S : Settings α) (nrm : Vec α → α) (D : DirStrategy α δ) (st1 : DSt α δ)
    (h1 : st1.status = .notYet) (h : (lsRelease S nrm D st1).status = .success) :
    gradNorm nrm S.n (lsRelease S nrm D st1).bs (maskGrad (lsRelease S nrm D st1).bs st1.g) ≤ S.tol ∧
    ∀ i, ((lsRelease S nrm D st1).bs i = -1 → 0 ≤ st1.g i) ∧ ((lsRelease S nrm D st1).bs i = 1 → st1.g i ≤ 0) :=
  lsRelease_converged h1 h

theorem C18_converged_means_gradient (f : Vec α → Sample α) (st : DSt α δ) (h : st.upToDate < 1) :
    (lsEval f st).g = (f st.x).grad ∧ (lsEval f st).x = st.x := lsEval_grad f st h

/-- **reported_cost_is_cost_at_x** and **cost_monotone** (line search): the cost `line_search` leaves in
    `cost_function_` is the user's cost at the step it took — also on the non-finite exit (F-20) — or the entry cost
    if it took none, and it never exceeds the entry cost -/
theorem C18_ls_reported_cost (P : LSParams α) (phi : α → LSample α) (cubic : LSState α → α)
    (bound step0 cost0 grad0 curv : α) (u0 : Int) (hstep : 0 ≤ step0) (ha : 0 ≤ P.armijo) :
    (lineSearch P phi cubic bound step0 cost0 grad0 curv u0).cost ≤ cost0 ∧
    ((lineSearch P phi cubic bound step0 cost0 grad0 curv u0).moved = true →
      (lineSearch P phi cubic bound step0 cost0 grad0 curv u0).cost =
        (phi (lineSearch P phi cubic bound step0 cost0 grad0 curv u0).t).cf) ∧
    ((lineSearch P phi cubic bound step0 cost0 grad0 curv u0).moved = false →
      (lineSearch P phi cubic bound step0 cost0 grad0 curv u0).cost = cost0) :=
  lineSearch_cost P phi cubic bound step0 cost0 grad0 curv u0 hstep ha

/-- **reported_cost_is_cost_at_x** and **cost_monotone** (one pass of a line-search minimizer): after the pass
    `cost_function_` is the user's cost at the current state, and it does not exceed the cost at the state the pass
    started from -/
theorem C18_reported_cost (S : Settings α) (f : Vec α → Sample α) (nrm : Vec α → α) (cubic : LSState α → α)
    (D : DirStrategy α δ) (st : DSt α δ) (hD : DirOK D) (h0 : 0 ≤ st.stepSize) (ha : 0 ≤ S.ls.armijo)
    (h : st.upToDate < 1 ∨ st.cost = (f st.x).cost) :
    (lsPass S f nrm cubic D st).cost = (f (lsPass S f nrm cubic D st).x).cost ∧
    (lsPass S f nrm cubic D st).cost ≤ (lsEval f st).cost :=
  lsPass_cost f nrm cubic hD h0 ha h

/-! ## Levenberg / Levenberg-Marquardt -/

/-- **feasible_always** and **flags_truthful** (Levenberg family), full strength: for any cost function, any damped
    Newton steps (`newtonFull`, `newtonSub` are arbitrary functions), any start, valid bounds and settings, the
    returned state and every state handed to the user satisfy `lower ≤ x ≤ upper`, and every variable flagged ∓1
    lies exactly on that face (this needs the `minloc` of F-18: the captured variable is the one that reaches its
    face first). -/
theorem C18_lm_feasible_flags (S : LMSettings α) (f : Vec α → Sample α) (cost : Vec α → α × Bool) (nrm : Vec α → α)
    (newtonFull newtonSub : Vec α → (Nat → Int) → α → Vec α) (x0 : Vec α) (damping0 : α) (fuel passes : Nat)
    (hv : boundsInvalid S.n S.lo S.up = false) :
    (∀ c ∈ (lmMinimize S f cost nrm newtonFull newtonSub x0 damping0 fuel passes).calls, Box S.n S.lo S.up c) ∧
    Box S.n S.lo S.up (lmMinimize S f cost nrm newtonFull newtonSub x0 damping0 fuel passes).x ∧
    FlagsTrue S.n S.lo S.up (lmMinimize S f cost nrm newtonFull newtonSub x0 damping0 fuel passes).x
      (lmMinimize S f cost nrm newtonFull newtonSub x0 damping0 fuel passes).bs := by
  unfold lmMinimize
  rw [hv]
  simp only [Bool.false_eq_true, ↓reduceIte]
  have hvb := boundsInvalid_false_iff.mp hv
  have h := lmEpilogue_inv f (lmIter_inv hvb f cost nrm newtonFull newtonSub fuel _ (lmStart_inv hvb x0 damping0) passes)
  exact ⟨h.2.1, h.1, h.2.2⟩

/-- in exact arithmetic the clamp of the trial state (F-63) is the identity: the captured fraction already keeps
    every free variable inside the box -/
theorem C18_lm_trial_needs_no_clamp (n : Nat) (free : Nat → Bool) (x dx lo up : Vec α) (hx : Box n lo up x) :
    Box n lo up (fun i => if free i then x i + dx i * (lmCapture n free x dx lo up).frac else x i) :=
  lmCapture_feasible n free hx

theorem C18_lm_invalid_bounds (S : LMSettings α) (f : Vec α → Sample α) (cost : Vec α → α × Bool) (nrm : Vec α → α)
    (newtonFull newtonSub : Vec α → (Nat → Int) → α → Vec α) (x0 : Vec α) (damping0 : α) (fuel passes : Nat)
    (hv : boundsInvalid S.n S.lo S.up = true) :
    (lmMinimize S f cost nrm newtonFull newtonSub x0 damping0 fuel passes).status = .invalidBounds ∧
    (lmMinimize S f cost nrm newtonFull newtonSub x0 damping0 fuel passes).calls = [] ∧
    (lmMinimize S f cost nrm newtonFull newtonSub x0 damping0 fuel passes).x = x0 := by
  unfold lmMinimize
  rw [hv]
  exact ⟨rfl, rfl, rfl⟩

/-- **terminates** (Levenberg family, inner loop): whatever the cost function does, the damping escalation makes at
    most `K + 2` trial steps, where `K` is any number with `restart * mult^K ≥ dmax` (and `d * mult^K ≥ dmax` for the
    damping `d > 0` on entry): giving the loop more fuel changes nothing -/
theorem C18_lm_inner_terminates (S : LMSettings α) (cost : Vec α → α × Bool) (newtonSub : Vec α → (Nat → Int) → α → Vec α)
    (hmult : 0 < S.mult) (hrestart : 0 < S.restart) (K : Nat) (hK : S.dmax ≤ S.restart * S.mult ^ K)
    (st : LMSt α) (hd : st.damping ≤ 0 ∨ S.dmax ≤ st.damping * S.mult ^ K) (m : Nat) :
    lmInner S cost newtonSub (K + 2 + m) st = lmInner S cost newtonSub (K + 2) st :=
  lmInner_fuel S cost newtonSub hmult hrestart K hK st hd m

/-- **iterations_bounded** / **terminates** (Levenberg family, outer loop): the iteration counter never exceeds the
    number of passes; while the loop runs it equals it and stays below `max_iterations` -/
theorem C18_lm_iterations_bounded (S : LMSettings α) (f : Vec α → Sample α) (cost : Vec α → α × Bool) (nrm : Vec α → α)
    (newtonFull newtonSub : Vec α → (Nat → Int) → α → Vec α) (x0 : Vec α) (damping0 : α) (fuel k : Nat) :
    (lmIter S f cost nrm newtonFull newtonSub fuel (lmStart S x0 damping0) k).nIter ≤ k ∧
    ((lmIter S f cost nrm newtonFull newtonSub fuel (lmStart S x0 damping0) k).status = .notYet →
      0 < k → (k : Int) < S.maxIter) :=
  let h := lmIter_count S f cost nrm newtonFull newtonSub fuel (lmStart S x0 damping0) rfl k
  ⟨h.1, fun hs hk => (h.2 hs).2 hk⟩

/-- **converged_means** for the Levenberg family holds only in a weakened form (finding F-65).  The full statement
    "every variable still flagged is held by the sign of its gradient" is FALSE for the code as written
    (`AdeptProofs/Refute/Minimizer.lean`): a flagged variable is released only if, in addition, the damped Newton
    step of the FULL system points into the box.  What does hold: the gradient norm over the unflagged variables is
    at most the threshold, and each flagged variable has an outward gradient OR a Newton step that does not point
    inward. -/
theorem C18_converged_means_lm_partial (S : LMSettings α) (f : Vec α → Sample α) (cost : Vec α → α × Bool) (nrm : Vec α → α)
    (newtonFull newtonSub : Vec α → (Nat → Int) → α → Vec α) (fuel : Nat) (st : LMSt α)
    (hok : (f st.x).costOk = true ∧ (f st.x).gradOk = true) (hnb : st.nbound > 0)
    (hgn : gradNorm nrm S.n (releaseLM st.bs (f st.x).grad (newtonFull st.x st.bs st.damping)) (f st.x).grad ≤ S.tol) :
    (lmPass S f cost nrm newtonFull newtonSub fuel st).status = .success ∧
    ∀ i, ((lmPass S f cost nrm newtonFull newtonSub fuel st).bs i = -1 →
            0 ≤ (f st.x).grad i ∨ newtonFull st.x st.bs st.damping i ≤ 0) ∧
         ((lmPass S f cost nrm newtonFull newtonSub fuel st).bs i = 1 →
            (f st.x).grad i ≤ 0 ∨ 0 ≤ newtonFull st.x st.bs st.damping i) := by
  have h := lmPass_converged f cost nrm newtonFull newtonSub fuel hok (by rw [if_pos hnb]; exact hgn)
  refine ⟨h.1, fun i => ?_⟩
  rw [h.2.2, if_pos hnb]
  exact releaseLM_held _ _ _ i

end Adept.Minimizer
