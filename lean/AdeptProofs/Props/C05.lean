import AdeptProofs.Lemmas.Simd
import AdeptProofs.Lemmas.SimdTraits
/-!
# C05 — vectorized evaluation equals scalar evaluation: the index and alignment logic

Property theorems only; helper lemmas live in `AdeptProofs/Lemmas/Simd.lean`.  All statements are about
`AdeptModel/Simd.lean`, the transcription of the loop-partition logic of `Array::assign_expression_`
(vectorized overloads), `reduce_inactive` (vectorized overload), `alignment_offset_`/`alignment_offset`,
`all_arrays_contiguous_`, `columns_aligned_` and `pack_row_major_`; checks/c05.py ties that model to the
C++ on every run through the hook counters (H2), per instruction-set build.

The trait `is_vectorizable` that selects between the packet overloads and the element-by-element overloads is part of the
model (`Expr.vectorizable`); the census of that trait over ALL expression node classes is regenerated from the sources on every
run (translate/vectrait.py -> `AdeptModel/Generated/VecTraits.lean`) and checked against the rule `Node.sound` here.

They hold for **every** packet size `W > 1` (the code has 2, 4, 8, 16), every length, address and expression
tree.  What they do *not* say: that a packet operation computes lane by lane what the scalar operation
computes, or anything about rounding — that part of C05 is observed, not proved (see the check).

`Cfg` records which form three code sites have (pinned / repaired, findings F-51, F-52, F-53).  Statements
that are false for the pinned form are given at full strength for the repaired form, as `…_partial` with the
excluding hypothesis for every form, and are refuted for the pinned form in `AdeptProofs/Refute/Simd.lean`.
-/
namespace Adept.Simd

/-! ## partition -/

/-- **partition (assignment).** Whatever the target view and right-hand side: `istartvec ≤ iendvec ≤ n`, the body
    is a whole number of packets, the head is shorter than a packet, the hook's packet count is rows × packets per
    row, and head, body and tail are `[0,n)` in order.  When the body is not empty the tail is shorter than a
    packet too (the partition is the longest possible). -/
theorem C05_partition_assign (cfg : Cfg) {W : Nat} (hW : 1 < W) (t : View) (rhs : Expr) :
    (assignPlan cfg W t rhs).istart ≤ (assignPlan cfg W t rhs).iend ∧
    (assignPlan cfg W t rhs).iend ≤ t.n ∧
    W ∣ ((assignPlan cfg W t rhs).iend - (assignPlan cfg W t rhs).istart) ∧
    (assignPlan cfg W t rhs).istart < W ∧
    (assignPlan cfg W t rhs).packets
      = rowsOf t.outerDims * (((assignPlan cfg W t rhs).iend - (assignPlan cfg W t rhs).istart) / W) ∧
    ((assignPlan cfg W t rhs).istart < (assignPlan cfg W t rhs).iend → t.n - (assignPlan cfg W t rhs).iend < W) ∧
    List.range t.n = List.range' 0 (assignPlan cfg W t rhs).istart
      ++ (List.range' (assignPlan cfg W t rhs).istart ((assignPlan cfg W t rhs).iend - (assignPlan cfg W t rhs).istart)
      ++ List.range' (assignPlan cfg W t rhs).iend (t.n - (assignPlan cfg W t rhs).iend)) := by
  have hW0 : 0 < W := by omega
  unfold assignPlan
  rw [if_neg (by omega)]
  split
  · rename_i hc
    simp only [Bool.and_eq_true, decide_eq_true_eq] at hc
    obtain ⟨_, h2, h3, h4, h5, h6, h7⟩ :=
      planCore_spec (rows := rowsOf t.outerDims) (tgt := some (arrOffset W t.a)) hW0
        (alignmentOffset_lt (cfg := cfg) hW0 rhs) hc.1.1.2
    exact ⟨h2, h3, h4, h5, h6, fun h => (h7 h).1, range_split h2 h3⟩
  · refine ⟨Nat.le_refl _, Nat.zero_le _, ⟨0, by simp [Plan.scalar]⟩, hW0, by simp [Plan.scalar], ?_, ?_⟩
    · intro h; exact absurd h (Nat.lt_irrefl _)
    · simp [Plan.scalar, List.range_eq_range']

/-- **partition (reduction).** The same for the vectorized `reduce_inactive`. -/
theorem C05_partition_reduce (cfg : Cfg) {W : Nat} (hW : 1 < W) (outerDims : List Nat) (n : Nat) (rhs : Expr) :
    (reducePlan cfg W outerDims n rhs).istart ≤ (reducePlan cfg W outerDims n rhs).iend ∧
    (reducePlan cfg W outerDims n rhs).iend ≤ n ∧
    W ∣ ((reducePlan cfg W outerDims n rhs).iend - (reducePlan cfg W outerDims n rhs).istart) ∧
    (reducePlan cfg W outerDims n rhs).istart < W ∧
    (reducePlan cfg W outerDims n rhs).packets
      = rowsOf outerDims * (((reducePlan cfg W outerDims n rhs).iend - (reducePlan cfg W outerDims n rhs).istart) / W) ∧
    ((reducePlan cfg W outerDims n rhs).istart < (reducePlan cfg W outerDims n rhs).iend →
      n - (reducePlan cfg W outerDims n rhs).iend < W) := by
  have hW0 : 0 < W := by omega
  unfold reducePlan
  rw [if_neg (by omega)]
  split
  · rename_i hc
    simp only [Bool.and_eq_true, decide_eq_true_eq] at hc
    obtain ⟨_, h2, h3, h4, h5, h6, h7⟩ :=
      planCore_spec (rows := rowsOf outerDims) (tgt := none) hW0 (alignmentOffset_lt (cfg := cfg) hW0 rhs) hc.1.2
    exact ⟨h2, h3, h4, h5, h6, fun h => (h7 h).1⟩
  · refine ⟨Nat.le_refl _, Nat.zero_le _, ⟨0, by simp [Plan.scalar]⟩, hW0, by simp [Plan.scalar], ?_⟩
    intro h; exact absurd h (Nat.lt_irrefl _)

/-! ## alignment of the packet body (first row) -/

/-- **body aligned, every form of the code.** When the packet loop of an assignment runs, the target and every
    `Array` leaf of the right-hand side are on a packet boundary at index `istartvec`: the aligned store `put` and
    the aligned loads `Packet(data_+loc)` are legal.  (`FixedArray` leaves: see below.) -/
theorem C05_body_aligned_partial (cfg : Cfg) {W : Nat} (hW : 1 < W) (t : View) (rhs : Expr)
    (h : (assignPlan cfg W t rhs).istart < (assignPlan cfg W t rhs).iend) :
    (t.a + (assignPlan cfg W t rhs).istart) % W = 0 ∧
    ∀ v ∈ rhs.arrLeaves, (v.a + (assignPlan cfg W t rhs).istart) % W = 0 := by
  have hW0 : 0 < W := by omega
  unfold assignPlan at h ⊢
  rw [if_neg (by omega)] at h ⊢
  split at h
  · rename_i hc
    rw [if_pos hc]
    simp only [Bool.and_eq_true, decide_eq_true_eq] at hc
    obtain ⟨_, _, _, _, _, _, h7⟩ :=
      planCore_spec (rows := rowsOf t.outerDims) (tgt := some (arrOffset W t.a)) hW0
        (alignmentOffset_lt (cfg := cfg) hW0 rhs) hc.1.1.2
    obtain ⟨_, hs0, his, hmm⟩ := h7 h
    generalize (planCore W t.n (rowsOf t.outerDims) (rhs.alignmentOffset cfg W) (some (arrOffset W t.a))).istart
      = is at his ⊢
    have hst : rhs.alignmentOffset cfg W = (arrOffset W t.a : Int) := by
      apply Classical.byContradiction; intro hne; exact hmm hne
    have hist : is = arrOffset W t.a := by omega
    refine ⟨by rw [hist]; exact arrOffset_aligned t.a hW0, ?_⟩
    intro v hv
    have hmem := arrLeaves_offs (cfg := cfg) (W := W) rhs v hv
    have hl := alignmentOffset_leaves (cfg := cfg) hW0 rhs _ rfl (by omega) _ hmem
    have hlt := arrOffset_lt v.a hW0
    have : arrOffset W v.a = is := by
      rcases hl with hl | hl <;> omega
    rw [← this]; exact arrOffset_aligned v.a hW0
  · exact absurd h (Nat.lt_irrefl _)

/-- **body aligned, repaired `FixedArray::alignment_offset_`.** With the repaired form every `FixedArray` leaf is
    on a packet boundary at `istartvec` as well. -/
theorem C05_body_aligned (cfg : Cfg) (hfix : cfg.fixedToBoundary = true) {W : Nat} (hW : 1 < W) (t : View)
    (rhs : Expr) (h : (assignPlan cfg W t rhs).istart < (assignPlan cfg W t rhs).iend) :
    (t.a + (assignPlan cfg W t rhs).istart) % W = 0 ∧
    (∀ v ∈ rhs.arrLeaves, (v.a + (assignPlan cfg W t rhs).istart) % W = 0) ∧
    (∀ q ∈ rhs.fixedLeaves, (q.1 + (assignPlan cfg W t rhs).istart) % W = 0) := by
  have hp := C05_body_aligned_partial cfg hW t rhs h
  refine ⟨hp.1, hp.2, ?_⟩
  have hW0 : 0 < W := by omega
  unfold assignPlan at h ⊢
  rw [if_neg (by omega)] at h ⊢
  split at h
  · rename_i hc
    rw [if_pos hc]
    simp only [Bool.and_eq_true, decide_eq_true_eq] at hc
    obtain ⟨_, _, _, _, _, _, h7⟩ :=
      planCore_spec (rows := rowsOf t.outerDims) (tgt := some (arrOffset W t.a)) hW0
        (alignmentOffset_lt (cfg := cfg) hW0 rhs) hc.1.1.2
    obtain ⟨_, hs0, his, _⟩ := h7 h
    generalize (planCore W t.n (rowsOf t.outerDims) (rhs.alignmentOffset cfg W) (some (arrOffset W t.a))).istart
      = is at his ⊢
    intro q hq
    have hmem := fixedLeaves_offs (cfg := cfg) (W := W) rhs q hq
    have hl := alignmentOffset_leaves (cfg := cfg) hW0 rhs _ rfl (by omega) _ hmem
    have hfo : fixedOffset cfg W q.1 = arrOffset W q.1 := by unfold fixedOffset arrOffset; rw [if_pos hfix]
    have hlt := arrOffset_lt q.1 hW0
    have : arrOffset W q.1 = is := by
      rw [hfo] at hl
      rcases hl with hl | hl <;> omega
    rw [← this]; exact arrOffset_aligned q.1 hW0
  · exact absurd h (Nat.lt_irrefl _)

/-- **reduction body aligned.** In the vectorized reduction every `Array` leaf (and, with the repaired
    `FixedArray::alignment_offset_`, every `FixedArray` leaf) is on a packet boundary at `istartvec`. -/
theorem C05_reduce_body_aligned (cfg : Cfg) {W : Nat} (hW : 1 < W) (outerDims : List Nat) (n : Nat) (rhs : Expr)
    (h : (reducePlan cfg W outerDims n rhs).istart < (reducePlan cfg W outerDims n rhs).iend) :
    (∀ v ∈ rhs.arrLeaves, (v.a + (reducePlan cfg W outerDims n rhs).istart) % W = 0) ∧
    (cfg.fixedToBoundary = true →
      ∀ q ∈ rhs.fixedLeaves, (q.1 + (reducePlan cfg W outerDims n rhs).istart) % W = 0) := by
  have hW0 : 0 < W := by omega
  unfold reducePlan at h ⊢
  rw [if_neg (by omega)] at h ⊢
  split at h
  · rename_i hc
    rw [if_pos hc]
    simp only [Bool.and_eq_true, decide_eq_true_eq] at hc
    obtain ⟨_, _, _, _, _, _, h7⟩ :=
      planCore_spec (rows := rowsOf outerDims) (tgt := none) hW0 (alignmentOffset_lt (cfg := cfg) hW0 rhs) hc.1.2
    obtain ⟨_, hs0, his, _⟩ := h7 h
    generalize (planCore W n (rowsOf outerDims) (rhs.alignmentOffset cfg W) none).istart = is at his ⊢
    refine ⟨?_, ?_⟩
    · intro v hv
      have hmem := arrLeaves_offs (cfg := cfg) (W := W) rhs v hv
      have hl := alignmentOffset_leaves (cfg := cfg) hW0 rhs _ rfl (by omega) _ hmem
      have hlt := arrOffset_lt v.a hW0
      have : arrOffset W v.a = is := by
        rcases hl with hl | hl <;> omega
      rw [← this]; exact arrOffset_aligned v.a hW0
    · intro hfix q hq
      have hmem := fixedLeaves_offs (cfg := cfg) (W := W) rhs q hq
      have hl := alignmentOffset_leaves (cfg := cfg) hW0 rhs _ rfl (by omega) _ hmem
      have hfo : fixedOffset cfg W q.1 = arrOffset W q.1 := by unfold fixedOffset arrOffset; rw [if_pos hfix]
      have hlt := arrOffset_lt q.1 hW0
      have : arrOffset W q.1 = is := by
        rw [hfo] at hl
        rcases hl with hl | hl <;> omega
      rw [← this]; exact arrOffset_aligned q.1 hW0
  · exact absurd h (Nat.lt_irrefl _)

/-! ## negotiation -/

/-- **negotiation, agreement.** `alignment_offset_<W>()` of a tree is `-1` or lies in `[0,W]`; if it is `k ≠ -1`,
    every leaf answered `k` or `W` ("alignment does not matter"); the public `alignment_offset()` returns
    `k ≥ 0` only in that situation (and `0` when no leaf cares). -/
theorem C05_negotiation_agree (cfg : Cfg) {W : Nat} (hW : 0 < W) (e : Expr) :
    (e.alignOff cfg W = -1 ∨ (0 ≤ e.alignOff cfg W ∧ e.alignOff cfg W ≤ W)) ∧
    (∀ k : Int, e.alignOff cfg W = k → k ≠ -1 → ∀ o ∈ e.leafOffs cfg W, o = k ∨ o = W) ∧
    (∀ k : Int, e.alignmentOffset cfg W = k → 0 ≤ k → ∀ o ∈ e.leafOffs cfg W, o = k ∨ o = W) :=
  ⟨alignOff_range hW e, alignOff_leaves e, fun k hk h0 => alignmentOffset_leaves hW e k hk h0⟩

/-- **negotiation, clash.** Two leaves that both care about alignment and disagree make the tree answer `-1`. -/
theorem C05_negotiation_clash (cfg : Cfg) {W : Nat} (hW : 0 < W) (e : Expr) (o₁ o₂ : Int)
    (h₁ : o₁ ∈ e.leafOffs cfg W) (h₂ : o₂ ∈ e.leafOffs cfg W) (n₁ : o₁ ≠ W) (n₂ : o₂ ≠ W) (hne : o₁ ≠ o₂) :
    e.alignOff cfg W = -1 ∧ e.alignmentOffset cfg W = -1 := by
  have h := alignOff_clash e o₁ o₂ h₁ h₂ n₁ n₂ hne
  refine ⟨h, ?_⟩
  unfold Expr.alignmentOffset
  show (if e.alignOff cfg W < W then e.alignOff cfg W else 0) = -1
  rw [h, if_pos (by omega)]

/-- **negotiation, scalar path forced.** A clash (`alignment_offset() < 0`) or a right-hand side whose offset
    differs from the target's makes `istartvec = iendvec = 0`: no packet is processed, every element takes the
    scalar loop. -/
theorem C05_negotiation_forces_scalar (cfg : Cfg) (W : Nat) (t : View) (rhs : Expr)
    (h : rhs.alignmentOffset cfg W < 0 ∨ rhs.alignmentOffset cfg W ≠ (arrOffset W t.a : Int)) :
    (assignPlan cfg W t rhs).istart = 0 ∧ (assignPlan cfg W t rhs).iend = 0 ∧
    (assignPlan cfg W t rhs).packets = 0 := by
  unfold assignPlan
  split
  · exact ⟨rfl, rfl, rfl⟩
  · split
    · rw [planCore_fallback (by simpa [tgtMismatch] using h)]; exact ⟨rfl, rfl, rfl⟩
    · exact ⟨rfl, rfl, rfl⟩

/-- the same for a reduction with a clash -/
theorem C05_negotiation_forces_scalar_reduce (cfg : Cfg) (W : Nat) (outerDims : List Nat) (n : Nat) (rhs : Expr)
    (h : rhs.alignmentOffset cfg W < 0) :
    (reducePlan cfg W outerDims n rhs).istart = 0 ∧ (reducePlan cfg W outerDims n rhs).iend = 0 ∧
    (reducePlan cfg W outerDims n rhs).packets = 0 := by
  unfold reducePlan
  split
  · exact ⟨rfl, rfl, rfl⟩
  · split
    · rw [planCore_fallback (Or.inl h)]; exact ⟨rfl, rfl, rfl⟩
    · exact ⟨rfl, rfl, rfl⟩

/-- and conversely the packet loop runs (over at least one packet per row) exactly when the negotiation succeeds
    on a long enough contiguous statement whose right-hand side has the vectorizable trait -/
theorem C05_negotiation_vector_taken (cfg : Cfg) {W : Nat} (hW : 1 < W) (t : View) (rhs : Expr)
    (hv : rhs.vectorizable = true) (hn : 2 * W ≤ t.n) (ht : arrContig cfg W t = true) (hr : rhs.allContig cfg W = true)
    (hs : rhs.alignmentOffset cfg W = (arrOffset W t.a : Int)) :
    (assignPlan cfg W t rhs).istart = arrOffset W t.a ∧
    (assignPlan cfg W t rhs).istart + W ≤ (assignPlan cfg W t rhs).iend := by
  have hW0 : 0 < W := by omega
  have hc : (rhs.vectorizable && decide (2 * W ≤ t.n) && arrContig cfg W t && rhs.allContig cfg W) = true := by
    simp [hv, hn, ht, hr]
  have hnf : ¬ (rhs.alignmentOffset cfg W < 0 ∨
      tgtMismatch (rhs.alignmentOffset cfg W) (some (arrOffset W t.a))) := by
    intro h; rcases h with h | h
    · omega
    · exact h hs
  unfold assignPlan
  rw [if_neg (by omega), if_pos hc]
  refine ⟨?_, planCore_nonfallback hW0 (alignmentOffset_lt (cfg := cfg) hW0 rhs) hn hnf⟩
  unfold planCore; rw [if_neg hnf]
  show (rhs.alignmentOffset cfg W).toNat = arrOffset W t.a
  omega

/-! ## row padding -/

/-- **row padding, the rule.** `pack_row_major_` never makes rows overlap, pads by less than one packet, pads to a
    multiple of the packet size exactly when the last extent is at least two packets (the same threshold as the
    vectorized branches use), and then *every* outer offset is a multiple of the packet size. -/
theorem C05_row_padding_rule {W : Nat} (hW : 0 < W) (outerDims : List Nat) (n : Nat) :
    n ≤ rowPitch W n ∧ rowPitch W n < n + W ∧ (n < 2 * W → packRowMajor W outerDims n = packContiguous outerDims n) ∧
    (2 * W ≤ n → ∀ o ∈ packRowMajor W outerDims n, W ∣ o) ∧
    (packRowMajor W outerDims n).length = outerDims.length := by
  obtain ⟨h1, h2, h3, h4⟩ := rowPitch_spec (n := n) hW
  refine ⟨h1, h2, ?_, ?_, outerOffsets_length _ _⟩
  · intro h; unfold packRowMajor packContiguous; rw [h4 h]
  · intro h o ho
    exact Nat.dvd_trans (h3 h) (outerOffsets_dvd _ _ o ho)

/-- **row padding, consequence.** If every outer offset of a view is a multiple of `W` then every row starts at the
    same alignment offset as row 0: an access that is aligned in row 0 at `istartvec + j·W` is aligned in every row.
    Any slice that keeps the last dimension last has outer offsets that are integer multiples of the parent's
    (strides multiply them, dropped and permuted dimensions select among them), so it inherits the property. -/
theorem C05_row_padding_rows {W a s : Nat} (outer : List Int) (hall : ∀ o ∈ outer, (W : Int) ∣ o)
    (h0 : (a + s) % W = 0) :
    (∀ (idx : List Nat) (j : Nat), ((a : Int) + rowStart outer idx + s + j * W) % (W : Int) = 0) ∧
    (∀ outer' : List Int, (∀ o' ∈ outer', ∃ o ∈ outer, ∃ c : Int, o' = o * c) → ∀ o' ∈ outer', (W : Int) ∣ o') := by
  refine ⟨fun idx j => aligned_shift j h0 (rowStart_dvd outer idx hall), ?_⟩
  intro outer' h o' ho'
  obtain ⟨o, ho, c, hc⟩ := h o' ho'
  rw [hc]; exact Int.dvd_trans (hall o ho) (Int.dvd_mul_right _ _)

/-- a freshly resized array (extents `outerDims ++ [n]`, `n ≥ 2W`) satisfies the hypothesis of the previous theorem -/
theorem C05_row_padding_fresh {W : Nat} (hW : 0 < W) (outerDims : List Nat) (n : Nat) (h : 2 * W ≤ n) :
    ∀ o ∈ (packRowMajor W outerDims n).map (fun x : Nat => (x : Int)), (W : Int) ∣ o := by
  intro o ho
  simp only [List.mem_map] at ho
  obtain ⟨x, hx, rfl⟩ := ho
  exact Int.natCast_dvd_natCast.mpr ((C05_row_padding_rule hW outerDims n).2.2.2.1 h x hx)

/-- **every packet access of an assignment is aligned, in every row — arrays of rank ≤ 2 or repaired
    `columns_aligned_`.** The test the code performs (`all_arrays_contiguous_`) suffices for the target and for every
    `Array` leaf that has at most two dimensions, and for any rank once `columns_aligned_` tests every outer offset. -/
theorem C05_rows_aligned_partial (cfg : Cfg) {W : Nat} (hW : 1 < W) (t : View) (rhs : Expr)
    (h : (assignPlan cfg W t rhs).istart < (assignPlan cfg W t rhs).iend) :
    ((t.outer.length ≤ 1 ∨ cfg.allOuterChecked = true) → ∀ (idx : List Nat) (j : Nat),
      ((t.a : Int) + rowStart t.outer idx + (assignPlan cfg W t rhs).istart + j * W) % (W : Int) = 0) ∧
    (∀ v ∈ rhs.arrLeaves, (v.outer.length ≤ 1 ∨ cfg.allOuterChecked = true) → ∀ (idx : List Nat) (j : Nat),
      ((v.a : Int) + rowStart v.outer idx + (assignPlan cfg W t rhs).istart + j * W) % (W : Int) = 0) := by
  obtain ⟨ha, hl⟩ := C05_body_aligned_partial cfg hW t rhs h
  have hc : (rhs.vectorizable && decide (2 * W ≤ t.n) && arrContig cfg W t && rhs.allContig cfg W) = true := by
    apply Classical.byContradiction; intro hc
    unfold assignPlan at h; rw [if_neg (by omega), if_neg hc] at h; exact absurd h (Nat.lt_irrefl _)
  simp only [Bool.and_eq_true, decide_eq_true_eq] at hc
  refine ⟨fun hr idx j => ?_, fun v hv hr idx j => ?_⟩
  · have hca : columnsAligned cfg W t.outer = true := by
      have := hc.1.2; unfold arrContig at this; simp only [Bool.and_eq_true] at this; exact this.2
    exact aligned_shift j ha (rowStart_dvd _ idx (columnsAligned_sound hW hca hr))
  · have hcv := allContig_arr rhs hc.2 v hv
    have hca : columnsAligned cfg W v.outer = true := by
      unfold arrContig at hcv; simp only [Bool.and_eq_true] at hcv; exact hcv.2
    exact aligned_shift j (hl v hv) (rowStart_dvd _ idx (columnsAligned_sound hW hca hr))

/-- outer offsets of a `FixedArray` with extents `dims` (contiguous storage) -/
def fixedOuter (dims : List Nat) : List Int :=
  match dims.getLast? with
  | none => []
  | some n => (packContiguous dims.dropLast n).map (fun x : Nat => (x : Int))

/-- **every packet access of an assignment is aligned, in every row — repaired tree.** With all three sites
    repaired the statement holds for every rank and every kind of leaf. -/
theorem C05_rows_aligned {W : Nat} (hW : 1 < W) (t : View) (rhs : Expr)
    (h : (assignPlan Cfg.repaired W t rhs).istart < (assignPlan Cfg.repaired W t rhs).iend) :
    (∀ (idx : List Nat) (j : Nat),
      ((t.a : Int) + rowStart t.outer idx + (assignPlan Cfg.repaired W t rhs).istart + j * W) % (W : Int) = 0) ∧
    (∀ v ∈ rhs.arrLeaves, ∀ (idx : List Nat) (j : Nat),
      ((v.a : Int) + rowStart v.outer idx + (assignPlan Cfg.repaired W t rhs).istart + j * W) % (W : Int) = 0) ∧
    (∀ q ∈ rhs.fixedLeaves, ∀ (idx : List Nat) (j : Nat),
      ((q.1 : Int) + rowStart (fixedOuter q.2) idx + (assignPlan Cfg.repaired W t rhs).istart + j * W) % (W : Int) = 0) := by
  obtain ⟨h1, h2⟩ := C05_rows_aligned_partial Cfg.repaired hW t rhs h
  refine ⟨h1 (Or.inr rfl), fun v hv => h2 v hv (Or.inr rfl), ?_⟩
  obtain ⟨_, _, hf⟩ := C05_body_aligned Cfg.repaired rfl hW t rhs h
  have hc : (rhs.vectorizable && decide (2 * W ≤ t.n) && arrContig Cfg.repaired W t && rhs.allContig Cfg.repaired W) = true := by
    apply Classical.byContradiction; intro hc
    unfold assignPlan at h; rw [if_neg (by omega), if_neg hc] at h; exact absurd h (Nat.lt_irrefl _)
  simp only [Bool.and_eq_true, decide_eq_true_eq] at hc
  intro q hq idx j
  have hfc := allContig_fixed rhs hc.2 q hq
  apply aligned_shift j (hf q hq)
  apply rowStart_dvd
  intro o ho
  unfold fixedOuter at ho
  unfold fixedContig at hfc
  simp only [Cfg.repaired, if_true, Bool.or_eq_true, decide_eq_true_eq] at hfc
  cases hg : q.2.getLast? with
  | none => rw [hg] at ho; simp at ho
  | some n =>
    rw [hg] at ho hfc
    simp only [List.mem_map] at ho
    obtain ⟨x, hx, rfl⟩ := ho
    rcases hfc with hlen | hmod
    · -- rank < 2: no outer dimension
      have : q.2.dropLast = [] := by
        match hq2 : q.2, hlen with
        | [], _ => rfl
        | [_], _ => rfl
        | _ :: _ :: _, hlen => simp at hlen; omega
      rw [this] at hx; simp [packContiguous, outerOffsets] at hx
    · have hWn : W ∣ n := Nat.dvd_of_mod_eq_zero (by simpa using hmod)
      exact Int.natCast_dvd_natCast.mpr (Nat.dvd_trans hWn (outerOffsets_dvd _ _ x hx))

/-! ## reduction split -/

/-- **reduce_split, multiset.** In the vectorized reduction of a row the indices accumulated into the scalar
    `total` (head, then tail) together with those accumulated into the `W` lanes of `ptotal` are a permutation of
    `[0,n)`: every element is accumulated exactly once. -/
theorem C05_reduce_split_perm (cfg : Cfg) {W : Nat} (hW : 1 < W) (outerDims : List Nat) (n : Nat) (rhs : Expr) :
    (scalarIdx n (reducePlan cfg W outerDims n rhs).istart (reducePlan cfg W outerDims n rhs).iend
      ++ (lanesIdx W (reducePlan cfg W outerDims n rhs).istart
          (((reducePlan cfg W outerDims n rhs).iend - (reducePlan cfg W outerDims n rhs).istart) / W)).flatten).Perm
      (List.range n) := by
  obtain ⟨h1, h2, h3, _⟩ := C05_partition_reduce cfg hW outerDims n rhs
  exact split_perm h1 h2 h3

/-- **reduce_split, value.** Hence over any commutative monoid (`min`/`max` on the extended reals: exactly; `+`
    and `×`: exactly over a ring, i.e. up to re-association in floating point) the vectorized reduction of a row
    equals the scalar left-to-right reduction. -/
theorem C05_reduce_split_value {α : Type} (op : α → α → α) (e : α)
    (hassoc : ∀ a b c, op (op a b) c = op a (op b c)) (hcomm : ∀ a b, op a b = op b a) (hid : ∀ a, op e a = a)
    (x : Nat → α) (cfg : Cfg) {W : Nat} (hW : 1 < W) (outerDims : List Nat) (n : Nat) (rhs : Expr) :
    reduceVec op e x W n (reducePlan cfg W outerDims n rhs).istart (reducePlan cfg W outerDims n rhs).iend
      = reduceScalar op e x n := by
  have hp := C05_reduce_split_perm cfg hW outerDims n rhs
  unfold reduceVec reduceScalar
  show op (foldIdx op x e _) (((lanesIdx W _ _).map (foldIdx op x e)).foldl op e) = foldIdx op x e (List.range n)
  rw [fold_lanes op e hassoc hcomm hid, hid, ← foldIdx_append op e hassoc hcomm hid]
  exact foldIdx_perm op e hassoc hcomm x hp

/-! ## the `is_vectorizable` trait -/

/-- **census.** Every expression node class of include/adept/*.h (the table is regenerated from the sources on every run)
    declares its `is_vectorizable` trait in a form that obeys the rule `Node.sound`: element-wise classes the conjunction of
    the traits of ALL their operands, of their operation's packet support and (two-sided classes) of the equality of the
    element types; `Spread` excludes exactly the LAST dimension of its result; the array leaves and `Scalar` their constants;
    every other class `false` (declared or inherited from `Expression`).  In particular a class without
    `packet_at_location_` never declares the trait, and the table is not empty. -/
theorem C05_every_node_vectorizable_trait_sound :
    TraitCensus.vecNodes.all TraitCensus.Node.sound = true ∧
    TraitCensus.vecNodes.all TraitCensus.Node.noPacketMeansFalse = true ∧
    TraitCensus.vecNodes.length ≥ 12 := by
  decide

open TraitCensus in
/-- **the model's trait is the census's trait.** For every constructor of the model's expression tree, `Expr.vectorizable` is
    the meaning (`Trait.eval`) of the declaration found in the sources for the class(es) the constructor stands for. -/
theorem C05_model_nodes_match_census :
    (∀ v, (Expr.arr v).vectorizable = evalCls "Array" [] true 0 0) ∧
    (∀ a d, (Expr.fixed a d).vectorizable = evalCls "FixedArray" [] true 0 0) ∧
    (Expr.agn.vectorizable = evalCls "Scalar" [] true 0 0) ∧
    (∀ b e, (Expr.un b e).vectorizable = evalCls "UnaryOperation" [e.vectorizable] b 0 0) ∧
    (∀ b e, (Expr.un b e).vectorizable = evalCls "BinaryOpScalarLeft" [e.vectorizable] b 0 0) ∧
    (∀ b e, (Expr.un b e).vectorizable = evalCls "BinaryOpScalarRight" [e.vectorizable] b 0 0) ∧
    (∀ e, (Expr.un true e).vectorizable = evalCls "NoAlias" [e.vectorizable] true 0 0) ∧
    (∀ e, (Expr.un false e).vectorizable = evalCls "UnaryBoolOperation" [e.vectorizable] false 0 0) ∧
    (∀ b l r, (Expr.bin b l r).vectorizable = evalCls "BinaryOperation" [l.vectorizable, r.vectorizable] b 0 0) ∧
    (∀ (d r : Nat) v, d ≤ r → (Expr.spread (d == r) v).vectorizable = evalCls "Spread" [] true d r) ∧
    (∀ l r, (Expr.outer l r).vectorizable = evalCls "OuterProduct" [] true 0 0) ∧
    (Expr.plain.vectorizable = evalCls "IndexedArray" [] true 0 0) ∧
    (Expr.plain.vectorizable = evalCls "SpecialMatrix" [] true 0 0) := by
  have hA : traitOf "Array" = some .packetType := by decide
  have hF : traitOf "FixedArray" = some .packetType := by decide
  have hS : traitOf "Scalar" = some .constTrue := by decide
  have hU : traitOf "UnaryOperation" = some (.conj ["R"] true false) := by decide
  have hL : traitOf "BinaryOpScalarLeft" = some (.conj ["R"] true true) := by decide
  have hR : traitOf "BinaryOpScalarRight" = some (.conj ["L"] true true) := by decide
  have hN : traitOf "NoAlias" = some (.conj ["R"] false false) := by decide
  have hUB : traitOf "UnaryBoolOperation" = some .absent := by decide
  have hB : traitOf "BinaryOperation" = some (.conj ["L", "R"] true true) := by decide
  have hSp : traitOf "Spread" = some (.spreadDimNe 0) := by decide
  have hO : traitOf "OuterProduct" = some .constFalse := by decide
  have hI : traitOf "IndexedArray" = some .absent := by decide
  have hM : traitOf "SpecialMatrix" = some .constFalse := by decide
  refine ⟨?_, ?_, ?_, ?_, ?_, ?_, ?_, ?_, ?_, ?_, ?_, ?_, ?_⟩
  · intro v; simp [evalCls, hA, Trait.eval, Expr.vectorizable]
  · intro a d; simp [evalCls, hF, Trait.eval, Expr.vectorizable]
  · simp [evalCls, hS, Trait.eval, Expr.vectorizable]
  · intro b e; cases b <;> cases h : e.vectorizable <;> simp [evalCls, hU, Trait.eval, Expr.vectorizable, h]
  · intro b e; cases b <;> cases h : e.vectorizable <;> simp [evalCls, hL, Trait.eval, Expr.vectorizable, h]
  · intro b e; cases b <;> cases h : e.vectorizable <;> simp [evalCls, hR, Trait.eval, Expr.vectorizable, h]
  · intro e; cases h : e.vectorizable <;> simp [evalCls, hN, Trait.eval, Expr.vectorizable, h]
  · intro e; simp [evalCls, hUB, Trait.eval, Expr.vectorizable]
  · intro b l r
    cases b <;> cases h1 : l.vectorizable <;> cases h2 : r.vectorizable <;>
      simp [evalCls, hB, Trait.eval, Expr.vectorizable, h1, h2]
  · intro d r v hdr
    simp only [evalCls, hSp, Trait.eval, Expr.vectorizable]
    by_cases h : d = r
    · subst h; simp
    · have : (d == r) = false := by simpa using h
      rw [this]; simp; omega
  · intro l r; simp [evalCls, hO, Trait.eval, Expr.vectorizable]
  · simp [evalCls, hI, Trait.eval, Expr.vectorizable]
  · simp [evalCls, hM, Trait.eval, Expr.vectorizable]

/-- **a non-vectorizable node anywhere.** A right-hand side is non-vectorizable exactly when SOME node of its tree — at any
    depth — is a spread along the last dimension, an outer product, an operation without a packet form (or over two element
    types), or a leaf with `Expression`'s fall-back trait. -/
theorem C05_nonvectorizable_node_anywhere (rhs : Expr) :
    rhs.vectorizable = false ↔ ∃ s ∈ rhs.subterms, s.nonVecNode = true := by
  constructor
  · exact subterms_of_not_vectorizable rhs
  · rintro ⟨s, hs, hn⟩
    cases h : rhs.vectorizable with
    | false => rfl
    | true => have := vectorizable_of_subterms rhs h s hs; rw [this] at hn; exact absurd hn (by decide)

/-- **such a statement runs NO packets.** Whatever the target, the lengths and the addresses: an assignment or a reduction
    whose right-hand side contains a non-vectorizable node takes the element-by-element overload — no vectorizable branch is
    entered, `istartvec = iendvec = 0`, no packet is processed (what hook H2 reports as `vec=0 is=0 ie=0 pk=0`).  Conversely a
    statement that processes a packet has a right-hand side every node of which is packet-safe. -/
theorem C05_nonvectorizable_runs_no_packets (cfg : Cfg) (W : Nat) (t : View) (outerDims : List Nat) (n : Nat) (rhs : Expr) :
    ((∃ s ∈ rhs.subterms, s.nonVecNode = true) →
      assignPlan cfg W t rhs = Plan.scalar ∧ reducePlan cfg W outerDims n rhs = Plan.scalar) ∧
    ((assignPlan cfg W t rhs).vec = true ∨ 0 < (assignPlan cfg W t rhs).packets ∨
      (reducePlan cfg W outerDims n rhs).vec = true ∨ 0 < (reducePlan cfg W outerDims n rhs).packets →
      ∀ s ∈ rhs.subterms, s.nonVecNode = false) := by
  have key : rhs.vectorizable = false →
      assignPlan cfg W t rhs = Plan.scalar ∧ reducePlan cfg W outerDims n rhs = Plan.scalar := by
    intro h
    unfold assignPlan reducePlan
    simp [h]
  refine ⟨fun h => key ((C05_nonvectorizable_node_anywhere rhs).mpr h), ?_⟩
  intro h
  cases hv : rhs.vectorizable with
  | true => exact vectorizable_of_subterms rhs hv
  | false =>
    obtain ⟨h1, h2⟩ := key hv
    rw [h1, h2] at h
    simp [Plan.scalar] at h

/-! ## non-vacuity -/

/-- the hypotheses above are met: a 19-element float statement (`W = 4`) whose target and two operands all sit
    3 elements past a boundary takes the packet path with `istartvec = 1`, `iendvec = 17`, four packets -/
example : assignPlan Cfg.pinned 4 { a := 35, n := 19 }
    (.bin true (.arr { a := 35, n := 19 }) (.un true (.arr { a := 7, n := 19 }))) = ⟨true, 1, 17, 4⟩ := by decide

/-- and a clash sends the same statement to the scalar loop -/
example : assignPlan Cfg.pinned 4 { a := 35, n := 19 }
    (.bin true (.arr { a := 35, n := 19 }) (.arr { a := 8, n := 19 })) = ⟨true, 0, 0, 0⟩ := by decide

/-- spread along the FIRST dimension of a 2 x 19 float result is vectorizable and takes the packet path in both rows … -/
example : assignPlan Cfg.pinned 4 { a := 35, outerDims := [2], outer := [20], n := 19 }
    (.bin true (.spread false { a := 7, n := 19 }) (.agn)) = ⟨true, 1, 17, 8⟩ := by decide

/-- … the same statement with the spread along the LAST dimension, or with `pow` instead of `+`, runs no packet -/
example : assignPlan Cfg.pinned 4 { a := 35, outerDims := [2], outer := [20], n := 19 }
    (.bin true (.spread true { a := 7, n := 2 }) (.agn)) = Plan.scalar := by decide
example : assignPlan Cfg.pinned 4 { a := 35, outerDims := [2], outer := [20], n := 19 }
    (.bin false (.spread false { a := 7, n := 19 }) (.agn)) = Plan.scalar := by decide
example : ∃ s ∈ (Expr.bin true (.un true (.spread true { a := 7, n := 2 })) (.agn)).subterms, s.nonVecNode = true :=
  ⟨.spread true { a := 7, n := 2 }, by simp [Expr.subterms], rfl⟩

end Adept.Simd
