import AdeptProofs.Lemmas.MisuseStack
import AdeptProofs.Lemmas.MisuseArr
/-!
# C11 — misuse is reported by the documented exception, never by memory corruption

Part A (this section): misuse of the stack protocol, stated over `AdeptModel/StackProto.lean`.
Operations return `Except Exc …`: a failing operation returns *no* new state, the caller keeps the one it had
(`stepOp` in `Lemmas/MisuseStack.lean` is that convention written out); the one exception is `St.seed`, which
returns the state explicitly because `Stack::set_gradients` initialises the working vector *before* its range test.
-/
namespace Adept.StackProto
open Adept.Tape Adept.GradAlloc

/-- A derivative pass before any seed has been set since the last `clear_gradients`/`new_recording` raises
    `gradients_not_initialized`, forward and reverse, and the state is the one the caller had. -/
theorem C11_pass_before_seed (s : St) (h : s.gradInit = false) :
    s.forward = .error .gradients_not_initialized ∧ s.reverse = .error .gradients_not_initialized ∧
    stepOp s .fwd = (s, .error .gradients_not_initialized) ∧ stepOp s .rev = (s, .error .gradients_not_initialized) := by
  simp [St.forward, St.reverse, stepOp, h]

/-- Reading a gradient before any seed raises `gradients_not_initialized` (whatever the index). -/
theorem C11_get_before_seed (s : St) (idx : Nat) (h : s.gradInit = false) :
    s.getGrad idx = .error .gradients_not_initialized ∧ stepOp s (.get idx) = (s, .error .gradients_not_initialized) := by
  simp [St.getGrad, stepOp, h]

/-- An object created after the first seed whose gradient index lies beyond the vector that was allocated at that
    first seed: seeding it raises `gradient_out_of_range` and returns the state unchanged (in particular `grad`);
    reading it raises the same exception.  The index is compared with the *allocated* length `grad.length`,
    not with `max_gradient_`, which has grown with the registration. -/
theorem C11_created_after_seed (s : St) (idx : Nat) (v : Int) (hi : s.gradInit = true) (h : idx + 1 > s.grad.length) :
    s.seed idx v = (s, some .gradient_out_of_range) ∧ s.getGrad idx = .error .gradient_out_of_range := by
  rw [seed_of_init s idx v hi]
  simp [St.getGrad, hi, h]

/-- The same misuse committed as the very first seed: the only change is the documented lazy initialisation of the
    working vector (`initialize_gradients`, all zeros, length `max_gradient_`), nothing is written into it. -/
theorem C11_created_after_seed_first (s : St) (idx : Nat) (v : Int) (hi : s.gradInit = false) (h : idx + 1 > s.ga.maxGrad) :
    s.seed idx v = (s.initGradients, some .gradient_out_of_range) ∧
    s.initGradients.grad = List.replicate s.ga.maxGrad 0 := by
  rw [seed_of_not_init s idx v hi, seed_of_init _ idx v (initGradients_gradInit s), initGradients_length]
  simp [h, initGradients_grad]

/-- Whenever a seed fails, it fails with `gradient_out_of_range` and the state is the given one, up to that
    lazy initialisation. -/
theorem C11_seed_failure_shape (s s' : St) (idx : Nat) (v : Int) (e : Exc) (h : s.seed idx v = (s', some e)) :
    s' = (if s.gradInit then s else s.initGradients) ∧ e = .gradient_out_of_range :=
  seed_fail_state s idx v e s' h

/-- A pass requested while objects registered after the first seed make `max_gradient_` exceed the allocated
    vector raises `gradient_out_of_range` instead of sweeping over statements whose indices lie beyond it. -/
theorem C11_pass_after_creation (s : St) (hi : s.gradInit = true) (h : s.ga.maxGrad > s.grad.length) :
    s.forward = .error .gradient_out_of_range ∧ s.reverse = .error .gradient_out_of_range ∧
    stepOp s .fwd = (s, .error .gradient_out_of_range) ∧ stepOp s .rev = (s, .error .gradient_out_of_range) := by
  simp [St.forward, St.reverse, stepOp, hi, h]

/-- A Jacobian requested while the independents or the dependents have not been identified raises
    `dependents_or_independents_not_identified`, in the raw-pointer form and (with a target of the right,
    i.e. degenerate, size) in the matrix form. -/
theorem C11_jacobian_no_lists (s : St) (mode : JMode) (dO iO : Int) (nc : Nat) (fill : Int)
    (h : s.indep = [] ∨ s.dep = []) :
    s.jacPtr mode dO iO nc fill = .error .dependents_or_independents_not_identified ∧
    s.jacMat mode s.dep.length s.indep.length = .error .dependents_or_independents_not_identified := by
  have hb : (s.indep.isEmpty || s.dep.isEmpty) = true := by
    cases h with
    | inl h => simp [h]
    | inr h => simp [h]
  constructor
  · unfold St.jacPtr; rw [if_pos hb]
  · unfold St.jacMat St.jacPtr; simp [hb]

/-- A Jacobian requested into a matrix whose extents are not (number of dependents) × (number of independents)
    raises `size_mismatch` — too large as well as too small — before anything is computed or written. -/
theorem C11_jacobian_wrong_size (s : St) (mode : JMode) (rows cols : Nat)
    (h : rows ≠ s.dep.length ∨ cols ≠ s.indep.length) :
    s.jacMat mode rows cols = .error .size_mismatch ∧ stepOp s (.jacMat mode rows cols) = (s, .error .size_mismatch) := by
  have hb : (rows ≠ s.dep.length || cols ≠ s.indep.length) = true := by
    cases h with
    | inl h => simp [h]
    | inr h => simp [h]
  simp only [stepOp]
  unfold St.jacMat
  rw [if_pos hb]
  exact ⟨rfl, rfl⟩

/-- Jacobian requests never change the protocol state, whether they fail or not. -/
theorem C11_jacobian_pure (s : St) (mode : JMode) (dO iO : Int) (nc : Nat) (fill : Int) (rows cols : Nat) :
    (stepOp s (.jacPtr mode dO iO nc fill)).1 = s ∧ (stepOp s (.jacMat mode rows cols)).1 = s := ⟨rfl, rfl⟩

/-- `append_derivative_dependence` on a variable that is not the left-hand side of the most recent statement
    (or when only the null statement is on the stack) raises `wrong_gradient` and leaves the recording untouched:
    no operation has been pushed. -/
theorem C11_append_wrong_lhs (s : St) (lhs x : Nat) (m : Int) (hr : s.isRecording = true)
    (h : ∀ last, s.tape.getLast? = some last → last.lhs ≠ lhs) :
    s.appendDependence lhs x m = .error .wrong_gradient ∧ stepOp s (.append lhs x m) = (s, .error .wrong_gradient) := by
  have e := (append_dependence s lhs x m hr).2 h
  simp [stepOp, e]

/-- A second activating `Stack` in a thread that already has an active one: `stack_already_active`, and the
    state of the first stack is untouched (the model has no other outcome for this operation). -/
theorem C11_second_stack (s : St) : stepOp s .stack2 = (s, .error .stack_already_active) := rfl

/-- No wild access.  (1) `initialize_gradients` allocates exactly `max_gradient_` entries.  (2) A seed that succeeds
    wrote at an index below the allocated length of the vector it wrote to, and did not change that length.
    (3) A read that succeeds used an index below the allocated length.  (4) A pass that is performed runs over a
    vector at least `max_gradient_` long; hence, if every index recorded on the tape is below `max_gradient_`
    (the invariant of recording, C08/C10), every index the sweep touches is below the allocated length. -/
theorem C11_no_wild_access (s : St) :
    s.initGradients.grad.length = s.ga.maxGrad ∧
    (∀ idx v s', s.seed idx v = (s', none) →
        idx < s'.grad.length ∧ s'.grad.length = (if s.gradInit then s.grad.length else s.ga.maxGrad)) ∧
    (∀ idx g, s.getGrad idx = .ok g → idx < s.grad.length ∧ g = s.grad.getD idx 0) ∧
    (∀ s', (s.forward = .ok s' ∨ s.reverse = .ok s') →
        s.ga.maxGrad ≤ s.grad.length ∧ (TapeBelow s.tape s.ga.maxGrad → TapeBelow s.tape s.grad.length)) := by
  refine ⟨initGradients_length s, ?_, ?_, ?_⟩
  · intro idx v s' h
    by_cases hi : s.gradInit = true
    · rw [seed_of_init s idx v hi] at h
      split at h
      · simp at h
      · rename_i hlt
        simp only [Prod.mk.injEq, and_true] at h
        subst h
        simp only [List.length_set, hi, if_true]
        exact ⟨by omega, trivial⟩
    · have hi' : s.gradInit = false := by simpa using hi
      rw [seed_of_not_init s idx v hi', seed_of_init _ idx v (initGradients_gradInit s)] at h
      split at h
      · simp at h
      · rename_i hlt
        simp only [Prod.mk.injEq, and_true] at h
        subst h
        simp only [List.length_set, hi, initGradients_length] at hlt ⊢
        simp only [Bool.false_eq_true, if_false]
        exact ⟨by omega, trivial⟩
  · intro idx g h
    unfold St.getGrad at h
    split at h
    · simp at h
    · split at h
      · simp at h
      · rename_i hlt
        simp only [Except.ok.injEq] at h
        exact ⟨by omega, h.symm⟩
  · intro s' h
    have hle : s.ga.maxGrad ≤ s.grad.length := by
      cases h with
      | inl h =>
        unfold St.forward at h
        split at h
        · split at h
          · simp at h
          · omega
        · simp at h
      | inr h =>
        unfold St.reverse at h
        split at h
        · split at h
          · simp at h
          · omega
        · simp at h
    exact ⟨hle, fun ht => ht.mono hle⟩

/-- Usable after.  Run any history of these operations from any state; remove from it every operation that failed
    (a failing *first* seed stays: its lazy initialisation is its documented effect).  The shortened history ends in
    the same state and every remaining operation shows exactly what it showed in the full history: nothing of a
    failed operation leaks into later results. -/
theorem C11_usable_after (s : St) (ops : List POp) :
    run s (dropFailed s ops) = runKept s ops ∧ (runKept s ops).1 = (run s ops).1 :=
  ⟨run_dropFailed s ops, runKept_state s ops⟩

/-- Each removed operation had handed back exactly the state it was given. -/
theorem C11_failed_unchanged (s : St) (o : POp) (h : dropped s o = true) : (stepOp s o).1 = s :=
  dropped_state s o h

/-- When the vector is long enough for everything registered, an initialised stack performs the passes. -/
theorem C11_pass_ok (s : St) (hi : s.gradInit = true) (h : s.ga.maxGrad ≤ s.grad.length) :
    s.forward = .ok { s with grad := fwd s.tape s.grad } ∧ s.reverse = .ok { s with grad := rev s.tape s.grad } := by
  have : ¬ (s.ga.maxGrad > s.grad.length) := by omega
  simp [St.forward, St.reverse, hi, this]

/-! Non-vacuity: states satisfying the hypotheses exist. -/
example : ∃ s : St, s.gradInit = true ∧ (0 : Nat) + 1 > s.grad.length := ⟨{ gradInit := true }, rfl, by decide⟩
example : ∃ s : St, s.gradInit = true ∧ s.ga.maxGrad > s.grad.length :=
  ⟨{ gradInit := true, ga := { stackInit with maxGrad := 3 } }, rfl, by decide⟩
example : ∃ s : St, s.isRecording = true ∧ ∀ last, s.tape.getLast? = some last → last.lhs ≠ 7 :=
  ⟨{}, rfl, by intro last h; simp at h⟩
example : ∃ (s : St) (o : POp), dropped s o = true := ⟨{}, .fwd, by decide⟩
example : ∃ s : St, s.gradInit = true ∧ s.ga.maxGrad ≤ s.grad.length ∧ TapeBelow s.tape s.ga.maxGrad :=
  ⟨{ gradInit := true, grad := [0, 0, 0] }, rfl, by decide, by intro st h; simp at h⟩

/-- RANGE READS (`Stack::get_gradients(start, end_plus_one, out[, src_stride, target_stride])`, what `Array::get_gradient`
    calls for an active array or a strided view of one).  Before any seed: `gradients_not_initialized`.  A range whose SPAN
    — one past the LAST element touched, `start + (n-1)*stride + 1`, not the number of elements — reaches beyond the vector
    that was allocated at the first seed (an active array created after it) raises `gradient_out_of_range`.  A read that
    completes touched only cells below the allocated length and returns exactly their contents, in order. -/
theorem C11_range_get (s : St) (start n ss : Nat) :
    (s.gradInit = false → s.getRange start n ss = .error .gradients_not_initialized) ∧
    (s.gradInit = true → rangeEnd start n ss > s.grad.length → s.getRange start n ss = .error .gradient_out_of_range) ∧
    (∀ gs, s.getRange start n ss = .ok gs →
        gs.length = n ∧ ∀ j, j < n → start + j * ss < s.grad.length ∧ gs.getD j 0 = s.grad.getD (start + j * ss) 0) := by
  refine ⟨fun h => by simp [St.getRange, h], fun h h2 => by simp [St.getRange, h, h2], ?_⟩
  intro gs h
  unfold St.getRange at h
  split at h
  · cases h
  · split at h
    · cases h
    · rename_i hle
      cases h
      refine ⟨by simp, fun j hj => ⟨?_, ?_⟩⟩
      · have hm := Nat.mul_le_mul_right ss (show j ≤ n - 1 by omega)
        have hn : n ≠ 0 := by omega
        simp only [rangeEnd, hn, if_false] at hle
        omega
      · simp [List.getD_eq_getElem?_getD, List.getElem?_map, List.getElem?_range hj]

/-- RANGE WRITES (`Stack::set_gradients(start, start+n, values)`): the lazy initialisation comes first (as for one element);
    a range that reaches beyond the allocated vector raises `gradient_out_of_range` and writes nothing; a write that completes
    changed exactly the cells `start … start+n-1`, all below the allocated length. -/
theorem C11_range_set (s : St) (start : Nat) (vs : List Int) :
    (start + vs.length > (if s.gradInit then s else s.initGradients).grad.length →
        s.setRange start vs = ((if s.gradInit then s else s.initGradients), some .gradient_out_of_range)) ∧
    (start + vs.length ≤ (if s.gradInit then s else s.initGradients).grad.length →
        ∃ s', s.setRange start vs = (s', none) ∧
          s'.grad.length = (if s.gradInit then s else s.initGradients).grad.length ∧
          (∀ i, i < start ∨ start + vs.length ≤ i →
              s'.grad.getD i 0 = (if s.gradInit then s else s.initGradients).grad.getD i 0) ∧
          (∀ j, j < vs.length → s'.grad.getD (start + j) 0 = vs.getD j 0)) := by
  refine ⟨fun h => by simp [St.setRange, h], fun h => ?_⟩
  have hn : ¬ (start + vs.length > (if s.gradInit then s else s.initGradients).grad.length) := by omega
  refine ⟨{ (if s.gradInit then s else s.initGradients) with
             grad := writeFrom (if s.gradInit then s else s.initGradients).grad start vs }, ?_, ?_, ?_, ?_⟩
  · simp only [St.setRange, hn, if_false]
  · simp [writeFrom_length]
  · intro i hi; exact writeFrom_outside _ _ _ _ hi
  · intro j hj; exact writeFrom_inside _ _ _ _ hj h

/-! Non-vacuity: a late 3-element array at indices 2,3,4 behind a vector of 4 cells: the strided read of cells 2 and 4
(two elements, separation 2) is refused although `2 + 2 ≤ 4`; the contiguous read of cells 2,3 is served. -/
example : ({ gradInit := true, grad := [5, 6, 7, 8] } : St).getRange 2 2 2 = .error .gradient_out_of_range ∧
    ({ gradInit := true, grad := [5, 6, 7, 8] } : St).getRange 2 2 1 = .ok [7, 8] ∧
    (({ gradInit := true, grad := [5, 6, 7, 8] } : St).setRange 1 [1, 2]).1.grad = [5, 1, 2, 8] := by decide

end Adept.StackProto

/-!
Part B: misuse of arrays, stated over `AdeptModel/Misuse.lean`.  `step s op = (s, .error e)` says both things at once:
the operation raises `e`, and the pool (every array, the target included) is the one it was given.
-/
namespace Adept.Misuse
set_option linter.unusedSimpArgs false

/-- Constructing an array with a negative extent (not preceded by a zero extent, which already makes the array the
    empty one) raises `invalid_dimension`; no object comes into being, the pool is unchanged.  All ranks of the model,
    all extents. -/
theorem C11_arr_negative_extent_new (s : State) (k : Nat) (dbl : Bool) (seed : Int) (dims : List Int)
    (hr : dims.length = 1 ∨ dims.length = 2) (h : NegFirst dims) :
    step s (.new k dbl seed dims) = (s, .error .invalid_dimension) := by
  have hr' : 1 ≤ dims.length ∧ dims.length ≤ 4 := by omega
  simp [step, hr', newArr, resizeLoop_neg dims h, commit]

/-- `resize` with a negative extent raises `invalid_dimension` and leaves the array intact (its old extents *and* its
    old data): the integer form validates every extent, the `ExpressionSize` / `resize_row_major` /
    `resize_column_major` form every extent up to the first zero. -/
theorem C11_arr_negative_extent_resize (s : State) (k : Nat) (seed : Int) (dims : List Int) (t : Arr)
    (hk : s.get? k = some t) (hr : dims.length = t.rank) :
    (dims.any (· < 0) = true → step s (.resize k seed dims) = (s, .error .invalid_dimension)) ∧
    (NegFirst dims → step s (.resized k seed dims) = (s, .error .invalid_dimension)) := by
  constructor
  · intro h
    simp only [step, hk, hr, if_true, resizeInt, h, commit]
  · intro h
    simp only [step, hk, hr, if_true, resizeDims, resizeLoop_neg dims h, commit]

/-- An element-wise expression whose two operands have different extents raises `size_mismatch` when it is
    assigned — to any target, empty or not, even one of the operands — and nothing is modified. -/
theorem C11_arr_expr_mismatch (s : State) (k i j : Nat) (op : BinOp) (t x y : Arr)
    (hk : s.get? k = some t) (hi : s.get? i = some x) (hj : s.get? j = some y)
    (hkind : (t.sameKind x && t.sameKind y) = true) (h : x.dims ≠ y.dims) :
    step s (.asg k i op j) = (s, .error .size_mismatch) := by
  simp [step, hk, hi, hj, hkind, exprDims, h, assign, commit]

/-- Assigning a valid expression (or another array) to a non-empty array of different extents raises
    `size_mismatch`; the target keeps its extents and its data. -/
theorem C11_arr_assign_mismatch (s : State) (k i j : Nat) (op : BinOp) (t x y : Arr)
    (hk : s.get? k = some t) (hi : s.get? i = some x) (hj : s.get? j = some y)
    (hkx : t.sameKind x = true) (hky : t.sameKind y = true) (hxy : x.dims = y.dims)
    (hne : t.isEmpty = false) (h : x.dims ≠ t.dims) :
    step s (.asg k i op j) = (s, .error .size_mismatch) ∧ step s (.cp k i) = (s, .error .size_mismatch) := by
  have h' : y.dims ≠ t.dims := hxy ▸ h
  constructor
  · simp [step, hk, hi, hj, hkx, hky, exprDims, hxy, assign, hne, commit, h']
  · simp [step, hk, hi, hkx, assign, hne, commit, h]

/-- `a op= b` with operands of different extents raises `size_mismatch` (it is `a = noalias(a op b)`). -/
theorem C11_arr_compound_mismatch (s : State) (k i : Nat) (op : BinOp) (t x : Arr)
    (hk : s.get? k = some t) (hi : s.get? i = some x) (hkx : t.sameKind x = true) (h : t.dims ≠ x.dims) :
    step s (.comp k op i) = (s, .error .size_mismatch) := by
  simp [step, hk, hi, hkx, exprDims, h, assign, commit]

/-- `a.where(mask) = b` with a mask or a right-hand side whose extents differ from the target's raises
    `size_mismatch`; the target is unchanged. -/
theorem C11_arr_where_mismatch (s : State) (k m i : Nat) (t mk x : Arr)
    (hk : s.get? k = some t) (hm : s.get? m = some mk) (hi : s.get? i = some x)
    (hkind : (t.sameKind x && t.rank == mk.rank) = true) (h : mk.dims ≠ t.dims ∨ x.dims ≠ t.dims) :
    step s (.whr k m i) = (s, .error .size_mismatch) := by
  simp only [step, hk, hm, hi, hkind, if_true, whereAssign]
  cases h with
  | inl h => simp [h, commit]
  | inr h =>
    by_cases hm' : mk.dims = t.dims
    · simp [hm', h, commit]
    · simp [hm', commit]

/-- Filling an empty array with `<<` raises `empty_array`, whatever is on the right; nothing changes. -/
theorem C11_arr_fill_empty (s : State) (k : Nat) (items : List Item) (t : Arr) (ps : List Piece)
    (hk : s.get? k = some t) (hres : resolve s t.rank items = some ps) (hps : ps ≠ []) (he : t.isEmpty = true) :
    step s (.fill k items) = (s, .error .empty_array) := by
  simp [step, hk, hres, hps, fill, he]

/-- Over-filling with scalars, for every size.  A vector of length `n` (a matrix of `R × C`) takes the first `n`
    (`R·C`) values in row-major order; one value more raises `index_out_of_bounds`, and exactly the documented partial
    effect remains: the elements written before the exception stay written (all of them, here).  With at most as many
    values as elements there is no exception and the remaining elements keep their old values. -/
theorem C11_arr_fill_overflow (t : Arr) (vs : List Int) :
    (∀ n, t.dims = [n] → 0 < n → t.vals.length = n →
      fill t (vs.map Piece.s) =
        if vs.length ≤ n then ({ t with vals := vs ++ t.vals.drop vs.length }, none)
        else ({ t with vals := vs.take n }, some .index_out_of_bounds)) ∧
    (∀ R C, t.dims = [R, C] → 0 < R → 0 < C → t.vals.length = R * C →
      fill t (vs.map Piece.s) =
        if vs.length ≤ R * C then ({ t with vals := vs ++ t.vals.drop vs.length }, none)
        else ({ t with vals := vs.take (R * C) }, some .index_out_of_bounds)) := by
  constructor
  · intro n hd hn hl
    have hne : t.isEmpty = false := by simp [Arr.isEmpty, hd]; omega
    simp only [fill, hne, hd, Bool.false_eq_true, if_false]
    rw [al1Run_scalars n vs t.vals 0 (by omega) hl]
    simp only [Nat.zero_add, Nat.sub_zero]
    by_cases hle : vs.length ≤ n
    · simp only [hle, if_true]
      rw [setRun_eq _ _ _ (by omega)]
      simp
    · simp only [hle, if_false]
      have hlt : (vs.take n).length = n := by simp [List.length_take]; omega
      rw [setRun_eq _ _ _ (by omega), hlt]
      simp [← hl]
  · intro R C hd hR hC hl
    have hne : t.isEmpty = false := by simp [Arr.isEmpty, hd]; omega
    simp only [fill, hne, hd, Bool.false_eq_true, if_false]
    have inv : Inv2 R C ⟨t.vals, 0, 0, 0⟩ := ⟨by simp, hR, Or.inl rfl, hl⟩
    have h := al2Run_scalars R C hC vs ⟨t.vals, 0, 0, 0⟩ inv
    have hp : pos2 C ⟨t.vals, 0, 0, 0⟩ = 0 := by simp [pos2]
    rw [hp] at h
    simp only [Nat.zero_add, Nat.sub_zero] at h
    by_cases hle : vs.length ≤ R * C
    · simp only [hle, if_true] at h ⊢
      rw [setRun_eq _ _ _ (by simp; omega)] at h
      simp only [List.take_zero, List.nil_append, Nat.zero_add, Prod.mk.injEq] at h
      rw [h.1, h.2]
    · simp only [hle, if_false] at h ⊢
      have hlt : (vs.take (R * C)).length = R * C := by simp [List.length_take]; omega
      rw [setRun_eq _ _ _ (by simp; omega), hlt] at h
      simp only [List.take_zero, List.nil_append, Nat.zero_add, Prod.mk.injEq] at h
      rw [h.1, h.2]
      simp [← hl]

/-- Over-filling with array-valued objects (`v << w << w`).  (1) An object that does not fit from the current position
    raises `index_out_of_bounds` and stores nothing — vector target; (2) matrix target, object too wide or too tall.
    (3) Whatever the pieces, a piece that fails leaves the elements written so far exactly as they are, and (4)–(5) on a
    well-formed target the *only* exception a `<<` chain can end with is `index_out_of_bounds`: in particular no store
    ever goes outside the target (`Err.wild`, the modelled fault, does not occur). -/
theorem C11_arr_fill_object_overflow :
    (∀ (n : Nat) (al : Al1) (x : Arr), x.isEmpty = false → al.c + x.vals.length > n →
        al1Step n al (.a x) = (al, some .index_out_of_bounds)) ∧
    (∀ (R C : Nat) (al : Al2) (x : Arr), x.isEmpty = false → al.c < C → (al.c = 0 ∨ al.obj = (Piece.a x).shape.lead) →
        (((Piece.a x).shape.mat = true ∧ al.r + (Piece.a x).shape.p > R) ∨ al.c + (Piece.a x).shape.q > C) →
        al2Step R C al (.a x) = (al, some .index_out_of_bounds)) ∧
    (∀ (n R C : Nat) (a1 : Al1) (a2 : Al2) (p : Piece) (e : Err),
        ((al1Step n a1 p).2 = some e → (al1Step n a1 p).1 = a1) ∧
        ((al2Step R C a2 p).2 = some e → (al2Step R C a2 p).1 = a2)) ∧
    (∀ (n : Nat) (ps : List Piece) (vals : List Int) (e : Err), vals.length = n →
        (al1Run n ⟨vals, 0⟩ ps).2 = some e → e = .index_out_of_bounds) ∧
    (∀ (R C : Nat) (ps : List Piece) (vals : List Int) (e : Err), 0 < R → 0 < C → vals.length = R * C →
        (al2Run R C ⟨vals, 0, 0, 0⟩ ps).2 = some e → e = .index_out_of_bounds) := by
  refine ⟨?_, ?_, ?_, ?_, ?_⟩
  · intro n al x hx hfit
    by_cases hc : al.c ≥ n
    · simp [al1Step, hx, hc]
    · simp [al1Step, hx, hc, hfit]
  · intro R C al x hx hc hlead hfit
    have hc' : ¬ al.c ≥ C := by omega
    have hsc : (Piece.a x).shape.scalar = false := by
      simp only [Piece.shape]; split <;> rfl
    simp only [al2Step, hx, Bool.false_eq_true, if_false, al2Put, al2Place, hsc, hc']
    have h1 : ¬ (al.c ≠ 0 ∧ al.obj ≠ (Piece.a x).shape.lead) := by
      intro ⟨h1, h2⟩
      cases hlead with
      | inl h => exact h1 h
      | inr h => exact h2 h
    simp only [h1, if_false]
    cases hfit with
    | inl h => simp [h.1, h.2]
    | inr h =>
      by_cases hm : (Piece.a x).shape.mat = true ∧ al.r + (Piece.a x).shape.p > R
      · simp [hm.1, hm.2]
      · simp only [hm, if_false, h, if_true]
  · intro n R C a1 a2 p e
    exact ⟨fun h => (al1Step_fail n a1 p e h).1, fun h => (al2Step_fail R C a2 p e h).1⟩
  · intro n ps vals e hl h
    exact (al1Run_err n ps ⟨vals, 0⟩ hl).2 e h
  · intro R C ps vals e hR hC hl h
    exact (al2Run_err R C hC ps ⟨vals, 0, 0, 0⟩ hl hR).2 e h

/-- `diag_vector`, `submatrix_on_diagonal` and `inv` on a matrix that is not square raise `invalid_operation`
    (for every offset / range argument); nothing changes. -/
theorem C11_arr_not_square (s : State) (k : Nat) (t : Arr) (R C : Nat) (hk : s.get? k = some t)
    (hd : t.dims = [R, C]) (hR : 0 < R) (h : R ≠ C) :
    (∀ o, step s (.diag k o) = (s, .error .invalid_operation)) ∧
    (∀ ib ie, step s (.subdiag k ib ie) = (s, .error .invalid_operation)) ∧
    (t.dbl = true → step s (.inv k) = (s, .error .invalid_operation)) := by
  have hrank : t.rank = 2 := by simp [Arr.rank, hd]
  have hne : t.isEmpty = false := by simp [Arr.isEmpty, hd]; omega
  refine ⟨?_, ?_, ?_⟩
  · intro o; simp [step, hk, hrank, diagVector, hne, hd, h, viewRes]
  · intro ib ie; simp [step, hk, hrank, subDiag, hd, h, viewRes]
  · intro hdbl; simp [step, hk, hrank, hdbl, invMat, hd, h, viewRes]

/-- Linking to an empty array raises `empty_array`; the would-be link keeps its own data (it is not cleared first). -/
theorem C11_arr_link_empty (s : State) (k i : Nat) (t x : Arr) (hk : s.get? k = some t) (hi : s.get? i = some x)
    (hkx : t.sameKind x = true) (h : x.isEmpty = true) :
    step s (.link k i) = (s, .error .empty_array) := by
  simp [step, hk, hi, hkx, h]

/-- A matrix product with an empty operand raises `empty_array` — also when the inner extents disagree as well: the
    emptiness test comes first — and the target is unchanged. -/
theorem C11_arr_matmul_empty (s : State) (k i j : Nat) (t x y : Arr)
    (hk : s.get? k = some t) (hi : s.get? i = some x) (hj : s.get? j = some y)
    (hkind : (t.dbl && x.dbl && y.dbl && decide (x.rank + y.rank > 2) && decide (x.rank ≤ 2) && decide (y.rank ≤ 2)
        && decide (1 ≤ x.rank) && decide (1 ≤ y.rank) && t.rank + 2 == x.rank + y.rank) = true)
    (h : x.isEmpty = true ∨ y.isEmpty = true) :
    matmulDims x y = .error .empty_array ∧ step s (.matmul k i j) = (s, .error .empty_array) := by
  have hd : matmulDims x y = .error .empty_array := by
    unfold matmulDims
    cases h with
    | inl h => simp [h]
    | inr h => simp [h]
  refine ⟨hd, ?_⟩
  simp only [step, hk, hi, hj, hkind, if_true, hd]

/-- A matrix product of non-empty operands whose inner extents disagree raises `inner_dimension_mismatch`, in all
    three operand forms (matrix·vector, matrix·matrix, vector·matrix). -/
theorem C11_arr_matmul_inner (x y : Arr) (m k k' n : Nat) (hk : k ≠ k')
    (hx : x.isEmpty = false) (hy : y.isEmpty = false) :
    (x.dims = [m, k] → y.dims = [k'] → matmulDims x y = .error .inner_dimension_mismatch) ∧
    (x.dims = [m, k] → y.dims = [k', n] → matmulDims x y = .error .inner_dimension_mismatch) ∧
    (x.dims = [k] → y.dims = [k', n] → matmulDims x y = .error .inner_dimension_mismatch) := by
  refine ⟨?_, ?_, ?_⟩ <;> intro h1 h2 <;> simp [matmulDims, h1, h2, hx, hy, hk]

/-- … and the operation as a whole hands the pool back untouched. -/
theorem C11_arr_matmul_inner_step (s : State) (k i j : Nat) (t x y : Arr)
    (hk : s.get? k = some t) (hi : s.get? i = some x) (hj : s.get? j = some y)
    (hd : matmulDims x y = .error .inner_dimension_mismatch) :
    step s (.matmul k i j) = (s, .error .inner_dimension_mismatch) ∨ step s (.matmul k i j) = (s, .error .bad) := by
  simp only [step, hk, hi, hj, hd]
  split
  · exact Or.inl rfl
  · exact Or.inr rfl

/-- `permute` of a matrix with anything but a permutation of (0, 1): a missing argument, an index out of range or a
    repeated index raise `invalid_dimension`; an empty array raises `empty_array`.  Never a view. -/
theorem C11_arr_permute_invalid (t : Arr) (p0 p1 : Int) (h : ¬ ((p0 = 0 ∧ p1 = 1) ∨ (p0 = 1 ∧ p1 = 0))) :
    permute2 t p0 p1 = .error .invalid_dimension ∨ (t.isEmpty = true ∧ permute2 t p0 p1 = .error .empty_array) := by
  unfold permute2
  by_cases h1 : p0 = -1 ∨ p1 = -1
  · simp [h1]
  · by_cases he : t.isEmpty = true
    · simp [h1, he]
    · by_cases h2 : (0 ≤ p0 ∧ p0 < 2 ∧ 0 ≤ p1 ∧ p1 < 2)
      · have h3 : p0 = p1 := by omega
        simp [h1, he, h2, h3]
      · simp [h1, he, h2]

/-- With `ADEPT_BOUNDS_CHECKING`, an element access with an index outside `0 … n−1` in some dimension raises
    `index_out_of_bounds` (and reads nothing). -/
theorem C11_arr_index_out_of_bounds (s : State) (k : Nat) (t : Arr) (idx : List Int) (hk : s.get? k = some t)
    (hb : s.bounds = true) (hl : idx.length = t.rank)
    (h : ((List.zip idx t.dims).all fun p => decide (0 ≤ p.1) && decide (p.1 < (p.2 : Int))) = false) :
    step s (.get k idx) = (s, .error .index_out_of_bounds) := by
  simp only [step, hk, hl, if_true, getElem, h, hb]
  rfl

/-- Views that would have a negative extent raise `invalid_dimension` instead of being returned: a reversed range,
    a diagonal beyond the last one, a reshape to negative extents (or to extents whose product is not the length). -/
theorem C11_arr_view_invalid (t : Arr) :
    (∀ (bnd : Bool) (b e : Int) (n : Nat), t.dims = [n] → 0 ≤ b → b < n → 0 ≤ e → e < n → e - b + 1 < 0 →
        rangeView bnd t b e = .error .invalid_dimension) ∧
    (∀ (n : Nat) (o : Int), t.dims = [n, n] → 0 < n → (o > n ∨ o < -(n : Int)) →
        diagVector t o = .error .invalid_dimension) ∧
    (∀ (r c : Int), (r * c ≠ (t.dims.getD 0 0 : Int) ∨ r < 0 ∨ c < 0) → reshape2 t r c = .error .invalid_dimension) := by
  refine ⟨?_, ?_, ?_⟩
  · intro bnd b e n hd h1 h2 h3 h4 h5
    have : (0 ≤ b ∧ b < (n : Int) ∧ 0 ≤ e ∧ e < (n : Int)) := ⟨h1, h2, h3, h4⟩
    simp [rangeView, hd, this, h5]
  · intro n o hd hn ho
    have hne : t.isEmpty = false := by simp [Arr.isEmpty, hd]; omega
    simp only [diagVector, hne, hd, Bool.false_eq_true, if_false]
    simp only [List.getD_cons_zero, List.getD_cons_succ, ne_eq, not_true_eq_false, if_false]
    have : (if o ≥ 0 then min (n : Int) ((n : Int) - o) else min ((n : Int) + o) n) < 0 := by
      split <;> omega
    simp [this]
  · intro r c h
    unfold reshape2
    by_cases h1 : r * c ≠ (t.dims.getD 0 0 : Int)
    · rw [if_pos h1]
    · have : r < 0 ∨ c < 0 := by
        cases h with
        | inl h => exact absurd h h1
        | inr h => exact h
      rw [if_neg h1, if_pos this]

/-- No wild access.  (1)–(2) A `<<` step on a well-formed target (memory of `n`, resp. `R·C`, elements; current row
    inside the target) never stores outside the allocated memory — the stores are modelled as faulting
    (`writeRunChk`), and the fault is unreachable — and the well-formedness is preserved.  (3) An element read that
    succeeds used indices inside the extents. -/
theorem C11_arr_no_wild_access :
    (∀ (n : Nat) (al : Al1) (p : Piece), al.vals.length = n →
        (al1Step n al p).2 ≠ some .wild ∧ (al1Step n al p).1.vals.length = n) ∧
    (∀ (R C : Nat) (al : Al2) (p : Piece), 0 < C → al.vals.length = R * C → al.r < R →
        (al2Step R C al p).2 ≠ some .wild ∧ (al2Step R C al p).1.vals.length = R * C ∧ (al2Step R C al p).1.r < R) ∧
    (∀ (b : Bool) (t : Arr) (idx : List Int) (x : Int), getElem b t idx = .ok x →
        ∀ p ∈ List.zip idx t.dims, 0 ≤ p.1 ∧ p.1 < (p.2 : Int)) := by
  refine ⟨fun n al p hl => al1Step_no_wild n al p hl, fun R C al p hC hl hr => al2Step_no_wild R C hC al p hl hr, ?_⟩
  intro b t idx x h p hp
  unfold getElem at h
  by_cases hin : ((List.zip idx t.dims).all fun p => decide (0 ≤ p.1) && decide (p.1 < (p.2 : Int))) = true
  · rw [List.all_eq_true] at hin
    have := hin p hp
    simpa using this
  · simp only [hin] at h
    cases b <;> simp at h

/-- Usable after.  Run any history of array operations (all kinds: passive arrays of rank 1–4, FixedArray / SymmMatrix /
    TridiagMatrix objects, active arrays inside a recording) from any pool; remove every operation that failed and left
    the pool as it was.  The shortened history ends in the same pool and every remaining operation shows exactly what it
    showed in the full history.  And every failing operation other than `<<` and `where(m) = either_or(c, d)` *is* such an
    operation: it handed back the pool it was given (a failing `<<` keeps what it had written: the documented partial
    effect; `either_or` is two conditional assignments, the first of which stays when the second is refused:
    `C11_arr_eor_mismatch`). -/
theorem C11_arr_usable_after (s : State) (ops : List Op) :
    run s (dropFailed s ops) = runKept s ops ∧ (runKept s ops).1 = (run s ops).1 ∧
    (∀ (s' : State) (o : Op), (step s' o).2.failed = true → (∀ k items, o ≠ .fill k items) →
      (∀ k m c d, o ≠ .eor k m c d) → (step s' o).1 = s') :=
  ⟨run_dropFailed s ops, runKept_state s ops, fun s' o hf hfill heor => fail_unchanged s' o hf hfill heor⟩


/-! #### ranks 1 – 4, expressions that are not assignments, special targets, active arrays -/

/-- Negative extents for every rank of the model: a passive array of rank 1 … 4 and an active array of rank 1 or 2 cannot
    be constructed with a negative extent (`invalid_dimension`, pool unchanged), and the `resize` forms of an active
    array refuse one while leaving the array (values, derivative rows, input status) as it was. -/
theorem C11_arr_negative_extent_ranks (s : State) (k : Nat) (seed : Int) (dims : List Int) (h : NegFirst dims) :
    (∀ dbl, 1 ≤ dims.length → dims.length ≤ 4 → step s (.new k dbl seed dims) = (s, .error .invalid_dimension)) ∧
    (dims.length = 1 ∨ dims.length = 2 → step s (.newA k seed dims) = (s, .error .invalid_dimension)) ∧
    (∀ t, s.getA? k = some t → dims.length = t.a.rank →
        step s (.resizedA k seed dims) = (s, .error .invalid_dimension)) ∧
    (∀ t, s.getA? k = some t → dims.length = t.a.rank → dims.any (· < 0) = true →
        step s (.resizeA k seed dims) = (s, .error .invalid_dimension)) := by
  refine ⟨?_, ?_, ?_, ?_⟩
  · intro dbl h1 h4
    have hr : 1 ≤ dims.length ∧ dims.length ≤ 4 := ⟨h1, h4⟩
    simp [step, hr, newArr, resizeLoop_neg dims h, commit]
  · intro hr
    show step2 s (.newA k seed dims) = _
    simp [step2, hr, newArr, resizeLoop_neg dims h]
  · intro t hk hr
    show step2 s (.resizedA k seed dims) = _
    simp [step2, hk, hr, resizeDims, resizeLoop_neg dims h]
  · intro t hk hr hneg
    show step2 s (.resizeA k seed dims) = _
    simp [step2, hk, hr, resizeInt, hneg]

/-- A reduction — `sum`, `mean`, `product`, `minval`, `maxval`, `norm2` of `x op y`, `all`, `any`, `count` of `x > y` — whose
    operands have different extents raises `size_mismatch`: over the whole expression for every rank, along a dimension for
    every rank above 1 and *every* value of the dimension argument (the size test comes first), and for rank 1 with the
    only admissible dimension argument 0.  Nothing is modified. -/
theorem C11_arr_reduce_mismatch (s : State) (fn : RedFn) (i j : Nat) (op : BinOp) (x y : Arr)
    (hi : s.get? i = some x) (hj : s.get? j = some y) (hk : x.sameKind y = true) (hok : redOk fn op x = true)
    (h : x.dims ≠ y.dims) :
    step s (.red fn i op j) = (s, .error .size_mismatch) ∧
    (x.rank ≠ 1 → ∀ dim, step s (.redd fn i op j dim) = (s, .error .size_mismatch)) ∧
    (x.rank = 1 → fn.isBool = false → step s (.redd fn i op j 0) = (s, .error .size_mismatch)) := by
  refine ⟨?_, ?_, ?_⟩
  · show step2 s (.red fn i op j) = _
    simp [step2, hi, hj, hk, hok, exprDims, h, reduceWhole]
  · intro hr dim
    show step2 s (.redd fn i op j dim) = _
    have hb : (fn.isBool && x.rank == 1) = false := by simp [hr]
    simp [step2, hi, hj, hk, hok, hb, exprDims, h, reduceDim, hr, redRes]
  · intro hr hb
    show step2 s (.redd fn i op j 0) = _
    simp [step2, hi, hj, hk, hok, hb, exprDims, h, reduceDim, hr, reduceWhole, redRes]

/-- The dimension argument of a reduction along a dimension.  Rank 1: any argument other than 0 raises
    `invalid_dimension` (whatever the operands).  Rank above 1, consistent non-empty operands: an argument outside
    `0 … rank−1` — negative as well as too large — raises `invalid_dimension`.  Nothing is modified.  (For a negative
    argument the pinned tree overruns a stack buffer instead: reported by the check as a finding.) -/
theorem C11_arr_reduce_dim_invalid (s : State) (fn : RedFn) (i j : Nat) (op : BinOp) (x y : Arr) (dim : Int)
    (hi : s.get? i = some x) (hj : s.get? j = some y) (hk : x.sameKind y = true) (hok : redOk fn op x = true) :
    (x.rank = 1 → fn.isBool = false → dim ≠ 0 → step s (.redd fn i op j dim) = (s, .error .invalid_dimension)) ∧
    (x.rank ≠ 1 → x.dims = y.dims → x.isEmpty = false → (dim < 0 ∨ dim ≥ (x.rank : Int)) →
        step s (.redd fn i op j dim) = (s, .error .invalid_dimension)) := by
  constructor
  · intro hr hb hd
    show step2 s (.redd fn i op j dim) = _
    simp [step2, hi, hj, hk, hok, hb, reduceDim, hr, hd, redRes]
  · intro hr hxy hne hdim
    show step2 s (.redd fn i op j dim) = _
    have hb : (fn.isBool && x.rank == 1) = false := by simp [hr]
    have hne' : ¬ y.dims.head?.getD 0 = 0 := by rw [← hxy]; simpa [Arr.isEmpty] using hne
    have hdim' : dim < 0 ∨ (x.rank : Int) ≤ dim := hdim
    simp [step2, hi, hj, hk, hok, hb, exprDims, hxy, reduceDim, hr, redRes, hne', hdim']

/-- What the code does with EMPTY operands (the manual is silent): every whole-array reduction of a valid empty expression
    is 0 — also `all`, `minval`, `maxval` —, a reduction along a dimension is the empty array *whatever* the dimension
    argument (the emptiness test precedes the range test), and `minloc` / `maxloc` answer 0.  No exception, nothing read. -/
theorem C11_arr_reduce_empty (fn : RedFn) (x y : Arr) (op : BinOp) (hxy : x.dims = y.dims) (he : x.isEmpty = true) :
    reduceWhole fn (exprDims x y) (redVals fn op x y) = .ok (.int 0) ∧
    (x.rank ≠ 1 → ∀ dim, reduceDim fn x.rank (exprDims x y) (redVals fn op x y) dim = .ok (.arr (List.replicate (x.rank - 1) 0) [])) ∧
    (x.vals = [] → ∀ isMin, locOp isMin (exprDims x y) (exprVals op x y) = .ok 0) := by
  have he' : y.dims.head?.getD 0 = 0 := by rw [← hxy]; simpa [Arr.isEmpty] using he
  refine ⟨?_, ?_, ?_⟩
  · simp [reduceWhole, exprDims, hxy, he']
  · intro hr dim
    simp [reduceDim, hr, exprDims, hxy, he']
  · intro hv isMin
    simp [locOp, exprDims, hxy, locList, exprVals, hv]

/-- `minloc`, `maxloc`, `find` and `dot_product` applied to vectors of different lengths raise `size_mismatch` (for
    `dot_product` also when one of the two is empty); nothing is modified. -/
theorem C11_arr_loc_mismatch (s : State) (i j : Nat) (x y : Arr) (hi : s.get? i = some x) (hj : s.get? j = some y)
    (hk : (x.sameKind y && x.rank == 1) = true) (h : x.dims ≠ y.dims) :
    (∀ isMin op, step s (.loc isMin i op j) = (s, .error .size_mismatch)) ∧
    step s (.find i j) = (s, .error .size_mismatch) ∧ step s (.dot i j) = (s, .error .size_mismatch) := by
  refine ⟨?_, ?_, ?_⟩
  · intro isMin op
    show step2 s (.loc isMin i op j) = _
    simp [step2, hi, hj, hk, exprDims, h, locOp]
  · show step2 s (.find i j) = _
    simp [step2, hi, hj, hk, findOp, h, viewRes]
  · show step2 s (.dot i j) = _
    simp [step2, hi, hj, hk, dotOp, exprDims, h, reduceWhole]

/-- `outer_product(x + y, z)`, `spread<D>(x + y, n)`, `diag_vector(x + y, o)` and `diag_matrix(x + y)` whose inner operands
    disagree raise `size_mismatch`, whatever the target; so does an outer product with an empty factor (an outer product
    without elements is an invalid expression in the code; the manual names no class for it). -/
theorem C11_arr_expand_mismatch (t x y z : Arr) (D : Nat) (n o : Int) :
    (x.dims ≠ y.dims → outerOp t x y z = .error .size_mismatch ∧ spreadOp t x y D n = .error .size_mismatch ∧
        diagvOp x y o = .error .size_mismatch ∧ diagmOp x y = .error .size_mismatch) ∧
    (x.dims = y.dims → (x.isEmpty = true ∨ z.isEmpty = true) → outerOp t x y z = .error .size_mismatch) := by
  constructor
  · intro h
    simp [outerOp, spreadOp, diagvOp, diagmOp, h]
  · intro hxy he
    have : (x.isEmpty || z.isEmpty) = true := by
      cases he with
      | inl h => simp [h]
      | inr h => simp [h]
    simp [outerOp, hxy, this]

/-- `T = spread<D>(x + y, n)` with consistent operands: a non-empty target of other extents raises `size_mismatch`; an
    empty target is resized to the extents of the expression, and a negative `n` (not preceded by a zero extent) is
    refused by that resize with `invalid_dimension`.  The target is not touched. -/
theorem C11_arr_spread_target (t x y : Arr) (D : Nat) (n : Int) (hxy : x.dims = y.dims) :
    (t.isEmpty = false → spreadDims x D n ≠ t.dims.map Int.ofNat → spreadOp t x y D n = .error .size_mismatch) ∧
    (t.isEmpty = true → NegFirst (spreadDims x D n) → spreadOp t x y D n = .error .invalid_dimension) := by
  constructor
  · intro hne hd
    simp [spreadOp, hxy, hne, hd]
  · intro he hneg
    simp [spreadOp, hxy, he, resizeLoop_neg _ hneg]

/-- … and at the level of the operations the pool is handed back untouched. -/
theorem C11_arr_expand_step (s : State) (k i j z D : Nat) (n o : Int) (e : Err) :
    ((step s (.outer k i j z)).2 = .error e → (step s (.outer k i j z)).1 = s) ∧
    ((step s (.spread k D i j n)).2 = .error e → (step s (.spread k D i j n)).1 = s) ∧
    (step s (.diagv i j o)).1 = s ∧ (step s (.diagm i j)).1 = s := by
  refine ⟨?_, ?_, ?_, ?_⟩
  · intro h
    exact step2_safe s _ (by intro _ _ _ _ hh; cases hh) (by show (step2 s _).2.failed = true; rw [show step2 s (.outer k i j z) = step s (.outer k i j z) from rfl, h]; rfl)
  · intro h
    exact step2_safe s _ (by intro _ _ _ _ hh; cases hh) (by show (step2 s _).2.failed = true; rw [show step2 s (.spread k D i j n) = step s (.spread k D i j n) from rfl, h]; rfl)
  · show (step2 s (.diagv i j o)).1 = s
    simp only [step2]
    repeat' split
    all_goals first | rfl | exact viewRes_state _ _
  · show (step2 s (.diagm i j)).1 = s
    simp only [step2]
    repeat' split
    all_goals first | rfl | exact viewRes_state _ _

/-- `t.where(m1 > m2) = x + y`: a mask whose operands disagree, a mask of other extents than the target, a right-hand side
    whose operands disagree or of other extents than the target — each raises `size_mismatch`, and the target is unchanged. -/
theorem C11_arr_wherex_mismatch (s : State) (k m1 m2 i j : Nat) (t a1 a2 x y : Arr)
    (hk : s.get? k = some t) (h1 : s.get? m1 = some a1) (h2 : s.get? m2 = some a2) (hi : s.get? i = some x)
    (hj : s.get? j = some y) (hkind : (t.sameKind a1 && t.sameKind a2 && t.sameKind x && t.sameKind y) = true)
    (h : a1.dims ≠ a2.dims ∨ a1.dims ≠ t.dims ∨ x.dims ≠ y.dims ∨ x.dims ≠ t.dims) :
    step s (.whrx k m1 m2 i j) = (s, .error .size_mismatch) := by
  show step2 s (.whrx k m1 m2 i j) = _
  have hw : whereExpr t a1 a2 x y = .error .size_mismatch := by
    unfold whereExpr
    split; · rfl
    split; · rfl
    split; · rfl
    split; · rfl
    rename_i n1 n2 n3 n4
    exfalso
    simp only [bne_iff_ne, ne_eq, Decidable.not_not] at n1 n2 n3 n4
    rcases h with h | h | h | h <;> contradiction
  simp only [step2, hk, h1, h2, hi, hj, hkind, if_true, hw, commit]

/-- `t.where(m > 0) = either_or(c, d)`.  A mask of other extents, or a `d` of other extents: `size_mismatch`, nothing
    changed.  A `c` of other extents while mask and `d` fit: `size_mismatch` as well, but the code has by then performed
    the first of its two conditional assignments — the target holds `d` where the mask is false, exactly that and nothing
    else (this partial effect is what the code does; the manual does not mention it). -/
theorem C11_arr_eor_mismatch (s : State) (k m c d : Nat) (t mk cc dd : Arr)
    (hk : s.get? k = some t) (hm : s.get? m = some mk) (hc : s.get? c = some cc) (hd : s.get? d = some dd)
    (hkind : (t.sameKind mk && t.sameKind cc && t.sameKind dd) = true) :
    (mk.dims ≠ t.dims → step s (.eor k m c d) = (s, .error .size_mismatch)) ∧
    (mk.dims = t.dims → dd.dims ≠ t.dims → step s (.eor k m c d) = (s, .error .size_mismatch)) ∧
    (mk.dims = t.dims → dd.dims = t.dims → cc.dims ≠ t.dims → c ≠ k →
      ∃ t1, condAssign t mk dd false = .ok t1 ∧ t1.dims = t.dims ∧
        step s (.eor k m c d) = (if t1 = t then s else s.put k t1, .error .size_mismatch)) := by
  refine ⟨?_, ?_, ?_⟩
  · intro h
    show step2 s (.eor k m c d) = _
    simp [step2, hk, hm, hc, hd, hkind, eitherOr, h]
  · intro h1 h2
    show step2 s (.eor k m c d) = _
    simp [step2, hk, hm, hc, hd, hkind, eitherOr, h1, condAssign, h2]
  · intro h1 h2 h3 hck
    have hck' : (c == k) = false := by simpa using hck
    cases hca : condAssign t mk dd false with
    | error e =>
      simp only [condAssign, h2, bne_self_eq_false, Bool.false_eq_true, if_false] at hca
      split at hca <;> simp at hca
    | ok t1 =>
      have hd1 : t1.dims = t.dims := by
        simp only [condAssign, h2, bne_self_eq_false, Bool.false_eq_true, if_false] at hca
        split at hca <;> (simp only [Except.ok.injEq] at hca; subst hca; rfl)
      have h2nd : ∀ mm, condAssign t1 mm cc true = .error .size_mismatch := by
        intro mm; simp [condAssign, hd1, h3]
      refine ⟨t1, rfl, hd1, ?_⟩
      show step2 s (.eor k m c d) = _
      simp only [step2, hk, hm, hc, hd, hkind, if_true, eitherOr, h1, bne_self_eq_false, Bool.false_eq_true, if_false,
        hca, hck', h2nd]

/-- `solve(A, b)` with a non-square `A` raises `invalid_operation`; with a square `A` and a right-hand side with another
    number of rows, `size_mismatch` (vector and matrix right-hand sides). -/
theorem C11_arr_solve_invalid (a b : Arr) (R C : Nat) (hd : a.dims = [R, C]) :
    (R ≠ C → solveOp a b = .error .invalid_operation) ∧
    (R = C → b.dims.getD 0 0 ≠ R → solveOp a b = .error .size_mismatch) := by
  constructor
  · intro h; simp [solveOp, hd, h]
  · intro h hb
    subst h
    have : ¬ R = b.dims[0]?.getD 0 := fun e => hb (by simpa using e.symm)
    simp [solveOp, hd, this]

/-- SymmMatrix / TridiagMatrix: a negative extent and the two-extent form with different extents are refused with
    `invalid_dimension` by the constructors and by `resize`, before the old data is released: the pool is unchanged. -/
theorem C11_arr_special_resize (s : State) (k : Nat) (seed : Int) (dims : List Int) (c : SCls) (hc : c ≠ .fix)
    (h : (∃ n, dims = [n] ∧ n < 0) ∨ (∃ n m, dims = [n, m] ∧ (n ≠ m ∨ n < 0))) :
    squareExtent dims = .error .invalid_dimension ∧
    step s (.newS k c seed dims) = (s, .error .invalid_dimension) ∧
    (∀ t, s.getS? k = some t → t.cls ≠ .fix → step s (.resizeS k seed dims) = (s, .error .invalid_dimension)) := by
  have hs : squareExtent dims = .error .invalid_dimension := by
    rcases h with ⟨n, rfl, hn⟩ | ⟨n, m, rfl, hnm⟩
    · simp [squareExtent, hn]
    · by_cases e : n = m
      · subst e
        have : n < 0 := by
          rcases hnm with h | h
          · exact absurd rfl h
          · exact h
        simp [squareExtent, this]
      · simp [squareExtent, e]
  have hl : dims.length = 1 ∨ dims.length = 2 := by
    rcases h with ⟨n, rfl, _⟩ | ⟨n, m, rfl, _⟩ <;> simp
  refine ⟨hs, ?_, ?_⟩
  · show step2 s (.newS k c seed dims) = _
    cases c with
    | fix => exact absurd rfl hc
    | sym => simp [step2, hl, hs]
    | tri => simp [step2, hl, hs]
  · intro t hk ht
    show step2 s (.resizeS k seed dims) = _
    have : (t.cls != SCls.fix) = true := by simpa using ht
    simp [step2, hk, this, hl, hs]

/-- Assignment of an expression to a FixedArray, SymmMatrix or TridiagMatrix: an invalid expression (operands of
    different extents, also special matrices of different sizes) raises `size_mismatch`; so does a valid expression of
    other extents than the (non-empty) target; an EMPTY square matrix is resized to the expression and refuses a
    non-square one with `invalid_dimension`.  The target is not touched. -/
theorem C11_arr_special_assign_mismatch (t : SArr) (d : List Nat) (vals : List Int) :
    assignS t none vals = .error .size_mismatch ∧
    (t.a.isEmpty = false → d ≠ t.a.dims → assignS t (some d) vals = .error .size_mismatch) ∧
    (t.cls = .fix → d ≠ t.a.dims → assignS t (some d) vals = .error .size_mismatch) ∧
    (t.cls ≠ .fix → t.a.isEmpty = true → d.getD 0 0 ≠ d.getD 1 0 → assignS t (some d) vals = .error .invalid_dimension) := by
  refine ⟨rfl, ?_, ?_, ?_⟩
  · intro hne hd
    cases hc : t.cls <;> simp [assignS, hc, hne, hd]
  · intro hc hd
    simp [assignS, hc, hd]
  · intro hc he hd
    have hd' : ¬ d[0]?.getD 0 = d[1]?.getD 0 := by simpa using hd
    cases hc' : t.cls with
    | fix => exact absurd hc' hc
    | sym => simp [assignS, hc', he, hd']
    | tri => simp [assignS, hc', he, hd']

/-- … at the level of the operations: element-wise expressions whose operands disagree (two arrays, two special matrices
    of different sizes, a FixedArray next to an array of another size), assigned to a special target or to an array. -/
theorem C11_arr_special_expr_mismatch (s : State) (k i j : Nat) (op : BinOp) :
    (∀ t x y, s.getS? k = some t → specOperand s t i = some x → specOperand s t j = some y →
        (s.get? i).isSome = (s.get? j).isSome → x.dims ≠ y.dims → step s (.asgS k i op j) = (s, .error .size_mismatch)) ∧
    (∀ t x y, s.get? k = some t → s.getS? i = some x → s.getS? j = some y → x.cls ≠ .fix →
        (t.dbl && t.rank == 2 && x.cls == y.cls) = true → x.a.dims ≠ y.a.dims →
        step s (.asgDS k i op j) = (s, .error .size_mismatch)) ∧
    (∀ t x y, s.get? k = some t → s.getS? i = some x → s.get? j = some y → x.cls = .fix →
        (t.dbl && y.dbl && t.rank == x.a.rank && y.rank == x.a.rank) = true → x.a.dims ≠ y.dims →
        step s (.asgDS k i op j) = (s, .error .size_mismatch)) := by
  refine ⟨?_, ?_, ?_⟩
  · intro t x y hk hx hy hsame h
    show step2 s (.asgS k i op j) = _
    simp [step2, hk, hx, hy, hsame, exprDims, h, assignS, commitS]
  · intro t x y hk hx hy hc hkind h
    show step2 s (.asgDS k i op j) = _
    have : (x.cls == SCls.fix) = false := by simpa using hc
    simp [step2, hk, hx, hy, this, hkind, exprDims, h, assign, commit]
  · intro t x y hk hx hy hc hkind h
    show step2 s (.asgDS k i op j) = _
    simp [step2, hk, hx, hy, hc, hkind, exprDims, h, assign, commit]

/-- Special objects that need a square or non-empty argument: `diag_vector` / `submatrix_on_diagonal` of the 2 × 3
    FixedArray raise `invalid_operation`; `submatrix_on_diagonal` of a square special matrix with a range outside it
    (in particular: any range on an empty one) raises `index_out_of_bounds`; linking to an empty special matrix raises
    `empty_array`.  Nothing changes. -/
theorem C11_arr_special_not_square (s : State) (k : Nat) (t : SArr) (hk : s.getS? k = some t) :
    (t.cls = .fix → t.a.dims = [2, 3] → (∀ o, step s (.diagF k o) = (s, .error .invalid_operation)) ∧
        ∀ ib ie, step s (.subdiagS k ib ie) = (s, .error .invalid_operation)) ∧
    (∀ n ib ie, t.a.dims = [n, n] → (ib < 0 ∨ ib > ie ∨ ie ≥ (n : Int)) →
        step s (.subdiagS k ib ie) = (s, .error .index_out_of_bounds)) ∧
    (∀ i x, s.getS? i = some x → (t.cls == x.cls && t.cls != .fix) = true → x.a.isEmpty = true →
        step s (.linkS k i) = (s, .error .empty_array)) := by
  refine ⟨?_, ?_, ?_⟩
  · intro hc hd
    have hr : t.a.rank = 2 := by simp [Arr.rank, hd]
    have hne : t.a.isEmpty = false := by simp [Arr.isEmpty, hd]
    constructor
    · intro o
      show step2 s (.diagF k o) = _
      simp [step2, hk, hc, hr, diagVector, hne, hd, viewRes]
    · intro ib ie
      show step2 s (.subdiagS k ib ie) = _
      simp [step2, hk, hr, subDiag, hd, viewRes]
  · intro n ib ie hd hrange
    have hr : t.a.rank = 2 := by simp [Arr.rank, hd]
    show step2 s (.subdiagS k ib ie) = _
    simp [step2, hk, hr, subDiag, hd, hrange, viewRes]
  · intro i x hi hkind he
    show step2 s (.linkS k i) = _
    simp [step2, hk, hi, hkind, he]

/-- ACTIVE arrays while recording.  An element-wise statement, a compound assignment, a conditional assignment, a
    whole-array reduction and a reduction along a dimension whose operands have different extents raise `size_mismatch`
    and hand back the pool *as a whole*: the values, the derivative rows (the model's picture of what is on the recording)
    and the input status of every active array are those from before the statement. -/
theorem C11_arr_active_mismatch (s : State) (k i j : Nat) (op : BinOp) (t x y : AArr)
    (hk : s.getA? k = some t) (hi : s.getA? i = some x) (hj : s.getA? j = some y) (h : x.a.dims ≠ y.a.dims) :
    ((t.a.sameKind x.a && t.a.sameKind y.a) = true → step s (.asgA k i op j) = (s, .error .size_mismatch)) ∧
    (∀ fn, (x.a.sameKind y.a && isNumFn fn && op != .sub) = true → step s (.reda k fn i op j) = (s, .error .size_mismatch)) ∧
    (∀ fn dim, (t.a.rank == 1 && x.a.rank == 2 && y.a.rank == 2 && isIntFn fn && op == .add) = true →
        step s (.redda k fn i op j dim) = (s, .error .size_mismatch)) ∧
    (∀ o, (t.a.rank == 1 && x.a.rank == 2 && y.a.rank == 2) = true → step s (.diagva k i j o) = (s, .error .size_mismatch)) := by
  refine ⟨?_, ?_, ?_, ?_⟩
  · intro hkind
    show step2 s (.asgA k i op j) = _
    simp [step2, hk, hi, hj, hkind, exprDims, h, assignA, assign, commitA]
  · intro fn hkind
    show step2 s (.reda k fn i op j) = _
    simp [step2, hk, hi, hj, hkind, exprDims, h, reduceWholeA]
  · intro fn dim hkind
    show step2 s (.redda k fn i op j dim) = _
    simp [step2, hk, hi, hj, hkind, exprDims, h, reduceDimA]
  · intro o hkind
    show step2 s (.diagva k i j o) = _
    simp [step2, hk, hi, hj, hkind, diagvOp, h]

/-- … assignment of an active array, or of an expression, to a non-empty active array of other extents; a conditional
    assignment with a mask or a right-hand side of other extents; a reduction along a dimension outside `0, 1`. -/
theorem C11_arr_active_target_mismatch (s : State) (k i : Nat) (t x : AArr)
    (hk : s.getA? k = some t) (hi : s.getA? i = some x) (hkind : t.a.sameKind x.a = true) :
    (t.a.isEmpty = false → x.a.dims ≠ t.a.dims → step s (.cpA k i) = (s, .error .size_mismatch) ∧
        ∀ op, step s (.compA k op i) = (s, .error .size_mismatch)) ∧
    (∀ m mk, s.getA? m = some mk → t.a.sameKind mk.a = true → (mk.a.dims ≠ t.a.dims ∨ x.a.dims ≠ t.a.dims) →
        step s (.whrA k m i) = (s, .error .size_mismatch)) ∧
    (∀ fn j y dim, s.getA? j = some y → (t.a.rank == 1 && x.a.rank == 2 && y.a.rank == 2 && isIntFn fn) = true →
        x.a.dims = y.a.dims → x.a.isEmpty = false → (dim < 0 ∨ dim ≥ 2) →
        step s (.redda k fn i .add j dim) = (s, .error .invalid_dimension)) := by
  refine ⟨?_, ?_, ?_⟩
  · intro hne hd
    constructor
    · show step2 s (.cpA k i) = _
      simp [step2, hk, hi, hkind, assignA, assign, hne, hd, commitA]
    · intro op
      show step2 s (.compA k op i) = _
      have hd' : t.a.dims ≠ x.a.dims := fun e => hd e.symm
      simp [step2, hk, hi, hkind, exprDims, hd', assignA, assign, commitA]
  · intro m mk hm hkm h
    show step2 s (.whrA k m i) = _
    have hw : whereAssign t.a mk.a x.a = .error .size_mismatch := by
      unfold whereAssign
      by_cases c1 : mk.a.dims = t.a.dims
      · have c2 : x.a.dims ≠ t.a.dims := by
          rcases h with h | h
          · exact absurd c1 h
          · exact h
        simp [c1, c2]
      · simp [c1]
    simp [step2, hk, hi, hm, hkind, hkm, whereAssignA, hw, commitA]
  · intro fn j y dim hj hk2 hxy hne hdim
    show step2 s (.redda k fn i .add j dim) = _
    have hne' : ¬ y.a.dims.head?.getD 0 = 0 := by rw [← hxy]; simpa [Arr.isEmpty] using hne
    have hdim' : dim < 0 ∨ (2 : Int) ≤ dim := hdim
    simp [step2, hk, hi, hj, hk2, exprDims, hxy, reduceDimA, hne', hdim']

/-- No wild access in the new expression kinds.  (1) Every element a reduction along a dimension reads — the `q`-th
    element of the `t`-th strip along `dim`, for a valid `dim` and positive extents — has its flat index inside the memory
    of the operand, for every rank.  (2) So has every element `diag_vector(expression, o)` reads, for every diagonal of an
    `R × C` expression that exists (non-negative length).  (3) A reduction along a dimension that returns an array was
    given a dimension argument inside `0 … rank−1` or an empty operand: no strip is ever formed for another argument. -/
theorem C11_arr_reduce_no_wild_access :
    (∀ (dims : List Nat) (dim t : Nat), dim < dims.length → (∀ d ∈ dims, 0 < d) → ∀ i ∈ stripIdx dims dim t, i < prod dims) ∧
    (∀ (R C : Nat) (o : Int) (len : Nat), (len : Int) ≤ diagLen R C o → ∀ i ∈ diagIdx C o len, i < R * C) ∧
    (∀ (fn : RedFn) (rank : Nat) (d : List Nat) (vals : List Int) (dim : Int) (od : List Nat) (ov : List Num),
        rank ≠ 1 → reduceDim fn rank (some d) vals dim = .ok (.arr od ov) → d.headD 0 = 0 ∨ (0 ≤ dim ∧ dim < (rank : Int))) := by
  refine ⟨stripIdx_lt, diagIdx_lt, ?_⟩
  intro fn rank d vals dim od ov hr h
  unfold reduceDim at h
  rw [if_neg hr] at h
  simp only at h
  by_cases he : (d.headD 0 == 0) = true
  · exact Or.inl (by simpa using he)
  · rw [if_neg he] at h
    by_cases hd : dim < 0 ∨ dim ≥ (rank : Int)
    · rw [if_pos hd] at h; cases h
    · exact Or.inr (by omega)

/-- A failed statement leaves no trace on a later derivative pass: after any failing operation other than `<<` and
    `either_or`, every Jacobian request (`jac k i`, of the elements of any active array with respect to any input array)
    answers exactly what it would have answered had the failing operation never been issued. -/
theorem C11_arr_active_failed_jac (s : State) (o : Op) (hf : (step s o).2.failed = true)
    (hfill : ∀ k items, o ≠ .fill k items) (heor : ∀ k m c d, o ≠ .eor k m c d) (k i : Nat) :
    step (step s o).1 (.jac k i) = step s (.jac k i) := by
  rw [fail_unchanged s o hf hfill heor]

/-! Non-vacuity of the hypotheses. -/
example : NegFirst [3, -1] := by simp [NegFirst]
example : ∃ (s : State) (o : Op), dropped s o = true := ⟨{}, .clear 0, by decide⟩
example : ∃ al : Al2, Inv2 2 3 al := ⟨⟨List.replicate 6 0, 0, 0, 0⟩, by simp, by simp, Or.inl rfl, by simp⟩
example : ∃ (x : Arr), x.isEmpty = false ∧ (Piece.a x).shape.mat = true ∧ (0 : Nat) + (Piece.a x).shape.p > 1 :=
  ⟨⟨true, [2, 2], [1, 2, 3, 4]⟩, by decide, by decide, by decide⟩

/-- a pool with two vectors of different lengths, a matrix, a symmetric matrix and two active vectors -/
def demoPool : State :=
  { arrs := [(0, ⟨true, [3], [1, 2, 3]⟩), (1, ⟨true, [4], [1, 2, 3, 4]⟩), (2, ⟨true, [2, 3], [1, 2, 3, 4, 5, 6]⟩),
             (3, ⟨true, [3, 2], [1, 2, 3, 4, 5, 6]⟩)],
    specs := [(8, ⟨.sym, ⟨true, [2, 2], [1, 2, 2, 3]⟩⟩), (9, ⟨.fix, ⟨true, [2, 3], [1, 2, 3, 4, 5, 6]⟩⟩)],
    acts := [(12, { a := ⟨true, [2], [1, 2]⟩, der := [[], []] }), (13, { a := ⟨true, [3], [1, 2, 3]⟩, der := [[], [], []] })] }

example : step demoPool (.red .sum 0 .add 1) = (demoPool, .error .size_mismatch) := by decide
example : step demoPool (.redd .maxval 2 .mul 3 1) = (demoPool, .error .size_mismatch) := by decide
example : step demoPool (.redd .sum 2 .add 2 (-1)) = (demoPool, .error .invalid_dimension) := by decide
example : step demoPool (.redd .sum 2 .add 2 1) = (demoPool, .ok (.nview [2] [.int 12, .int 30])) := by decide
example : step demoPool (.asgA 12 12 .mul 13) = (demoPool, .error .size_mismatch) := by decide
example : step demoPool (.asgS 8 2 .add 2) = (demoPool, .error .size_mismatch) := by decide
example : step demoPool (.diagF 9 0) = (demoPool, .error .invalid_operation) := by decide
example : step demoPool (.resizeS 8 0 [-1]) = (demoPool, .error .invalid_dimension) := by decide
example : ∃ (s : State) (o : Op), (step s o).2.failed = true ∧ (∀ k items, o ≠ .fill k items) ∧ (∀ k m c d, o ≠ .eor k m c d) :=
  ⟨demoPool, .red .sum 0 .add 1, (by decide), (by intro _ _ h; cases h), (by intro _ _ _ _ h; cases h)⟩
example : NegFirst (spreadDims ⟨true, [3], [1, 2, 3]⟩ 1 (-2)) := by simp [spreadDims, NegFirst]
example : (2 : Int) ≤ diagLen 2 3 1 := by decide
example : ∀ d ∈ [2, 3, 4], 0 < d := by decide

end Adept.Misuse
