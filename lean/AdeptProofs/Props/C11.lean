import AdeptProofs.Lemmas.MisuseStack
import AdeptProofs.Lemmas.MisuseArr
/-!
# C11 — misuse is reported by the documented exception, never by memory corruption

Part A (this section): misuse of the stack protocol, stated over `AdeptModel/StackProto.lean`.
Operations return `Except Exc …`: a failing operation returns *no* new state, the caller keeps the one it had
(`stepOp` in `Lemmas/MisuseStack.lean` is that convention written out); the one exception is `St.seed`, which
returns the state explicitly because `Stack::set_gradients` initialises the working vector *before* its range test.
-/
namespace Adept.StackProto
open Adept.Tape Adept.GradAlloc

/-- A derivative pass before any seed has been set since the last `clear_gradients`/`new_recording` raises
    `gradients_not_initialized`, forward and reverse, and the state is the one the caller had. -/
theorem C11_pass_before_seed (s : St) (h : s.gradInit = false) :
    s.forward = .error .gradients_not_initialized ∧ s.reverse = .error .gradients_not_initialized ∧
    stepOp s .fwd = (s, .error .gradients_not_initialized) ∧ stepOp s .rev = (s, .error .gradients_not_initialized) := by
  simp [St.forward, St.reverse, stepOp, h]

/-- Reading a gradient before any seed raises `gradients_not_initialized` (whatever the index). -/
theorem C11_get_before_seed (s : St) (idx : Nat) (h : s.gradInit = false) :
    s.getGrad idx = .error .gradients_not_initialized ∧ stepOp s (.get idx) = (s, .error .gradients_not_initialized) := by
  simp [St.getGrad, stepOp, h]

/-- An object created after the first seed whose gradient index lies beyond the vector that was allocated at that
    first seed: seeding it raises `gradient_out_of_range` and returns the state unchanged (in particular `grad`);
    reading it raises the same exception.  The index is compared with the *allocated* length `grad.length`,
    not with `max_gradient_`, which has grown with the registration. -/
theorem C11_created_after_seed (s : St) (idx : Nat) (v : Int) (hi : s.gradInit = true) (h : idx + 1 > s.grad.length) :
    s.seed idx v = (s, some .gradient_out_of_range) ∧ s.getGrad idx = .error .gradient_out_of_range := by
  rw [seed_of_init s idx v hi]
  simp [St.getGrad, hi, h]

/-- The same misuse committed as the very first seed: the only change is the documented lazy initialisation of the
    working vector (`initialize_gradients`, all zeros, length `max_gradient_`), nothing is written into it. -/
theorem C11_created_after_seed_first (s : St) (idx : Nat) (v : Int) (hi : s.gradInit = false) (h : idx + 1 > s.ga.maxGrad) :
    s.seed idx v = (s.initGradients, some .gradient_out_of_range) ∧
    s.initGradients.grad = List.replicate s.ga.maxGrad 0 := by
  rw [seed_of_not_init s idx v hi, seed_of_init _ idx v (initGradients_gradInit s), initGradients_length]
  simp [h, initGradients_grad]

/-- Whenever a seed fails, it fails with `gradient_out_of_range` and the state is the given one, up to that
    lazy initialisation. -/
theorem C11_seed_failure_shape (s s' : St) (idx : Nat) (v : Int) (e : Exc) (h : s.seed idx v = (s', some e)) :
    s' = (if s.gradInit then s else s.initGradients) ∧ e = .gradient_out_of_range :=
  seed_fail_state s idx v e s' h

/-- A pass requested while objects registered after the first seed make `max_gradient_` exceed the allocated
    vector raises `gradient_out_of_range` instead of sweeping over statements whose indices lie beyond it. -/
theorem C11_pass_after_creation (s : St) (hi : s.gradInit = true) (h : s.ga.maxGrad > s.grad.length) :
    s.forward = .error .gradient_out_of_range ∧ s.reverse = .error .gradient_out_of_range ∧
    stepOp s .fwd = (s, .error .gradient_out_of_range) ∧ stepOp s .rev = (s, .error .gradient_out_of_range) := by
  simp [St.forward, St.reverse, stepOp, hi, h]

/-- A Jacobian requested while the independents or the dependents have not been identified raises
    `dependents_or_independents_not_identified`, in the raw-pointer form and (with a target of the right,
    i.e. degenerate, size) in the matrix form. -/
theorem C11_jacobian_no_lists (s : St) (mode : JMode) (dO iO : Int) (nc : Nat) (fill : Int)
    (h : s.indep = [] ∨ s.dep = []) :
    s.jacPtr mode dO iO nc fill = .error .dependents_or_independents_not_identified ∧
    s.jacMat mode s.dep.length s.indep.length = .error .dependents_or_independents_not_identified := by
  have hb : (s.indep.isEmpty || s.dep.isEmpty) = true := by
    cases h with
    | inl h => simp [h]
    | inr h => simp [h]
  constructor
  · unfold St.jacPtr; rw [if_pos hb]
  · unfold St.jacMat St.jacPtr; simp [hb]

/-- A Jacobian requested into a matrix whose extents are not (number of dependents) × (number of independents)
    raises `size_mismatch` — too large as well as too small — before anything is computed or written. -/
theorem C11_jacobian_wrong_size (s : St) (mode : JMode) (rows cols : Nat)
    (h : rows ≠ s.dep.length ∨ cols ≠ s.indep.length) :
    s.jacMat mode rows cols = .error .size_mismatch ∧ stepOp s (.jacMat mode rows cols) = (s, .error .size_mismatch) := by
  have hb : (rows ≠ s.dep.length || cols ≠ s.indep.length) = true := by
    cases h with
    | inl h => simp [h]
    | inr h => simp [h]
  simp only [stepOp]
  unfold St.jacMat
  rw [if_pos hb]
  exact ⟨rfl, rfl⟩

/-- Jacobian requests never change the protocol state, whether they fail or not. -/
theorem C11_jacobian_pure (s : St) (mode : JMode) (dO iO : Int) (nc : Nat) (fill : Int) (rows cols : Nat) :
    (stepOp s (.jacPtr mode dO iO nc fill)).1 = s ∧ (stepOp s (.jacMat mode rows cols)).1 = s := ⟨rfl, rfl⟩

/-- `append_derivative_dependence` on a variable that is not the left-hand side of the most recent statement
    (or when only the null statement is on the stack) raises `wrong_gradient` and leaves the recording untouched:
    no operation has been pushed. -/
theorem C11_append_wrong_lhs (s : St) (lhs x : Nat) (m : Int) (hr : s.isRecording = true)
    (h : ∀ last, s.tape.getLast? = some last → last.lhs ≠ lhs) :
    s.appendDependence lhs x m = .error .wrong_gradient ∧ stepOp s (.append lhs x m) = (s, .error .wrong_gradient) := by
  have e := (append_dependence s lhs x m hr).2 h
  simp [stepOp, e]

/-- A second activating `Stack` in a thread that already has an active one: `stack_already_active`, and the
    state of the first stack is untouched (the model has no other outcome for this operation). -/
theorem C11_second_stack (s : St) : stepOp s .stack2 = (s, .error .stack_already_active) := rfl

/-- No wild access.  (1) `initialize_gradients` allocates exactly `max_gradient_` entries.  (2) A seed that succeeds
    wrote at an index below the allocated length of the vector it wrote to, and did not change that length.
    (3) A read that succeeds used an index below the allocated length.  (4) A pass that is performed runs over a
    vector at least `max_gradient_` long; hence, if every index recorded on the tape is below `max_gradient_`
    (the invariant of recording, C08/C10), every index the sweep touches is below the allocated length. -/
theorem C11_no_wild_access (s : St) :
    s.initGradients.grad.length = s.ga.maxGrad ∧
    (∀ idx v s', s.seed idx v = (s', none) →
        idx < s'.grad.length ∧ s'.grad.length = (if s.gradInit then s.grad.length else s.ga.maxGrad)) ∧
    (∀ idx g, s.getGrad idx = .ok g → idx < s.grad.length ∧ g = s.grad.getD idx 0) ∧
    (∀ s', (s.forward = .ok s' ∨ s.reverse = .ok s') →
        s.ga.maxGrad ≤ s.grad.length ∧ (TapeBelow s.tape s.ga.maxGrad → TapeBelow s.tape s.grad.length)) := by
  refine ⟨initGradients_length s, ?_, ?_, ?_⟩
  · intro idx v s' h
    by_cases hi : s.gradInit = true
    · rw [seed_of_init s idx v hi] at h
      split at h
      · simp at h
      · rename_i hlt
        simp only [Prod.mk.injEq, and_true] at h
        subst h
        simp only [List.length_set, hi, if_true]
        exact ⟨by omega, trivial⟩
    · have hi' : s.gradInit = false := by simpa using hi
      rw [seed_of_not_init s idx v hi', seed_of_init _ idx v (initGradients_gradInit s)] at h
      split at h
      · simp at h
      · rename_i hlt
        simp only [Prod.mk.injEq, and_true] at h
        subst h
        simp only [List.length_set, hi, initGradients_length] at hlt ⊢
        simp only [Bool.false_eq_true, if_false]
        exact ⟨by omega, trivial⟩
  · intro idx g h
    unfold St.getGrad at h
    split at h
    · simp at h
    · split at h
      · simp at h
      · rename_i hlt
        simp only [Except.ok.injEq] at h
        exact ⟨by omega, h.symm⟩
  · intro s' h
    have hle : s.ga.maxGrad ≤ s.grad.length := by
      cases h with
      | inl h =>
        unfold St.forward at h
        split at h
        · split at h
          · simp at h
          · omega
        · simp at h
      | inr h =>
        unfold St.reverse at h
        split at h
        · split at h
          · simp at h
          · omega
        · simp at h
    exact ⟨hle, fun ht => ht.mono hle⟩

/-- Usable after.  Run any history of these operations from any state; remove from it every operation that failed
    (a failing *first* seed stays: its lazy initialisation is its documented effect).  The shortened history ends in
    the same state and every remaining operation shows exactly what it showed in the full history: nothing of a
    failed operation leaks into later results. -/
theorem C11_usable_after (s : St) (ops : List POp) :
    run s (dropFailed s ops) = runKept s ops ∧ (runKept s ops).1 = (run s ops).1 :=
  ⟨run_dropFailed s ops, runKept_state s ops⟩

/-- Each removed operation had handed back exactly the state it was given. -/
theorem C11_failed_unchanged (s : St) (o : POp) (h : dropped s o = true) : (stepOp s o).1 = s :=
  dropped_state s o h

/-- When the vector is long enough for everything registered, an initialised stack performs the passes. -/
theorem C11_pass_ok (s : St) (hi : s.gradInit = true) (h : s.ga.maxGrad ≤ s.grad.length) :
    s.forward = .ok { s with grad := fwd s.tape s.grad } ∧ s.reverse = .ok { s with grad := rev s.tape s.grad } := by
  have : ¬ (s.ga.maxGrad > s.grad.length) := by omega
  simp [St.forward, St.reverse, hi, this]

/-! Non-vacuity: states satisfying the hypotheses exist. -/
example : ∃ s : St, s.gradInit = true ∧ (0 : Nat) + 1 > s.grad.length := ⟨{ gradInit := true }, rfl, by decide⟩
example : ∃ s : St, s.gradInit = true ∧ s.ga.maxGrad > s.grad.length :=
  ⟨{ gradInit := true, ga := { stackInit with maxGrad := 3 } }, rfl, by decide⟩
example : ∃ s : St, s.isRecording = true ∧ ∀ last, s.tape.getLast? = some last → last.lhs ≠ 7 :=
  ⟨{}, rfl, by intro last h; simp at h⟩
example : ∃ (s : St) (o : POp), dropped s o = true := ⟨{}, .fwd, by decide⟩
example : ∃ s : St, s.gradInit = true ∧ s.ga.maxGrad ≤ s.grad.length ∧ TapeBelow s.tape s.ga.maxGrad :=
  ⟨{ gradInit := true, grad := [0, 0, 0] }, rfl, by decide, by intro st h; simp at h⟩

end Adept.StackProto

/-!
Part B: misuse of arrays, stated over `AdeptModel/Misuse.lean`.  `step s op = (s, .error e)` says both things at once:
the operation raises `e`, and the pool (every array, the target included) is the one it was given.
-/
namespace Adept.Misuse
set_option linter.unusedSimpArgs false

/-- Constructing an array with a negative extent (not preceded by a zero extent, which already makes the array the
    empty one) raises `invalid_dimension`; no object comes into being, the pool is unchanged.  All ranks of the model,
    all extents. -/
theorem C11_arr_negative_extent_new (s : State) (k : Nat) (dbl : Bool) (seed : Int) (dims : List Int)
    (hr : dims.length = 1 ∨ dims.length = 2) (h : NegFirst dims) :
    step s (.new k dbl seed dims) = (s, .error .invalid_dimension) := by
  simp [step, hr, newArr, resizeLoop_neg dims h, commit]

/-- `resize` with a negative extent raises `invalid_dimension` and leaves the array intact (its old extents *and* its
    old data): the integer form validates every extent, the `ExpressionSize` / `resize_row_major` /
    `resize_column_major` form every extent up to the first zero. -/
theorem C11_arr_negative_extent_resize (s : State) (k : Nat) (seed : Int) (dims : List Int) (t : Arr)
    (hk : s.get? k = some t) (hr : dims.length = t.rank) :
    (dims.any (· < 0) = true → step s (.resize k seed dims) = (s, .error .invalid_dimension)) ∧
    (NegFirst dims → step s (.resized k seed dims) = (s, .error .invalid_dimension)) := by
  constructor
  · intro h
    simp only [step, hk, hr, if_true, resizeInt, h, commit]
  · intro h
    simp only [step, hk, hr, if_true, resizeDims, resizeLoop_neg dims h, commit]

/-- An element-wise expression whose two operands have different extents raises `size_mismatch` when it is
    assigned — to any target, empty or not, even one of the operands — and nothing is modified. -/
theorem C11_arr_expr_mismatch (s : State) (k i j : Nat) (op : BinOp) (t x y : Arr)
    (hk : s.get? k = some t) (hi : s.get? i = some x) (hj : s.get? j = some y)
    (hkind : (t.sameKind x && t.sameKind y) = true) (h : x.dims ≠ y.dims) :
    step s (.asg k i op j) = (s, .error .size_mismatch) := by
  simp [step, hk, hi, hj, hkind, exprDims, h, assign, commit]

/-- Assigning a valid expression (or another array) to a non-empty array of different extents raises
    `size_mismatch`; the target keeps its extents and its data. -/
theorem C11_arr_assign_mismatch (s : State) (k i j : Nat) (op : BinOp) (t x y : Arr)
    (hk : s.get? k = some t) (hi : s.get? i = some x) (hj : s.get? j = some y)
    (hkx : t.sameKind x = true) (hky : t.sameKind y = true) (hxy : x.dims = y.dims)
    (hne : t.isEmpty = false) (h : x.dims ≠ t.dims) :
    step s (.asg k i op j) = (s, .error .size_mismatch) ∧ step s (.cp k i) = (s, .error .size_mismatch) := by
  have h' : y.dims ≠ t.dims := hxy ▸ h
  constructor
  · simp [step, hk, hi, hj, hkx, hky, exprDims, hxy, assign, hne, commit, h']
  · simp [step, hk, hi, hkx, assign, hne, commit, h]

/-- `a op= b` with operands of different extents raises `size_mismatch` (it is `a = noalias(a op b)`). -/
theorem C11_arr_compound_mismatch (s : State) (k i : Nat) (op : BinOp) (t x : Arr)
    (hk : s.get? k = some t) (hi : s.get? i = some x) (hkx : t.sameKind x = true) (h : t.dims ≠ x.dims) :
    step s (.comp k op i) = (s, .error .size_mismatch) := by
  simp [step, hk, hi, hkx, exprDims, h, assign, commit]

/-- `a.where(mask) = b` with a mask or a right-hand side whose extents differ from the target's raises
    `size_mismatch`; the target is unchanged. -/
theorem C11_arr_where_mismatch (s : State) (k m i : Nat) (t mk x : Arr)
    (hk : s.get? k = some t) (hm : s.get? m = some mk) (hi : s.get? i = some x)
    (hkind : (t.sameKind x && t.rank == mk.rank) = true) (h : mk.dims ≠ t.dims ∨ x.dims ≠ t.dims) :
    step s (.whr k m i) = (s, .error .size_mismatch) := by
  simp only [step, hk, hm, hi, hkind, if_true, whereAssign]
  cases h with
  | inl h => simp [h, commit]
  | inr h =>
    by_cases hm' : mk.dims = t.dims
    · simp [hm', h, commit]
    · simp [hm', commit]

/-- Filling an empty array with `<<` raises `empty_array`, whatever is on the right; nothing changes. -/
theorem C11_arr_fill_empty (s : State) (k : Nat) (items : List Item) (t : Arr) (ps : List Piece)
    (hk : s.get? k = some t) (hres : resolve s t.rank items = some ps) (hps : ps ≠ []) (he : t.isEmpty = true) :
    step s (.fill k items) = (s, .error .empty_array) := by
  simp [step, hk, hres, hps, fill, he]

/-- Over-filling with scalars, for every size.  A vector of length `n` (a matrix of `R × C`) takes the first `n`
    (`R·C`) values in row-major order; one value more raises `index_out_of_bounds`, and exactly the documented partial
    effect remains: the elements written before the exception stay written (all of them, here).  With at most as many
    values as elements there is no exception and the remaining elements keep their old values. -/
theorem C11_arr_fill_overflow (t : Arr) (vs : List Int) :
    (∀ n, t.dims = [n] → 0 < n → t.vals.length = n →
      fill t (vs.map Piece.s) =
        if vs.length ≤ n then ({ t with vals := vs ++ t.vals.drop vs.length }, none)
        else ({ t with vals := vs.take n }, some .index_out_of_bounds)) ∧
    (∀ R C, t.dims = [R, C] → 0 < R → 0 < C → t.vals.length = R * C →
      fill t (vs.map Piece.s) =
        if vs.length ≤ R * C then ({ t with vals := vs ++ t.vals.drop vs.length }, none)
        else ({ t with vals := vs.take (R * C) }, some .index_out_of_bounds)) := by
  constructor
  · intro n hd hn hl
    have hne : t.isEmpty = false := by simp [Arr.isEmpty, hd]; omega
    simp only [fill, hne, hd, Bool.false_eq_true, if_false]
    rw [al1Run_scalars n vs t.vals 0 (by omega) hl]
    simp only [Nat.zero_add, Nat.sub_zero]
    by_cases hle : vs.length ≤ n
    · simp only [hle, if_true]
      rw [setRun_eq _ _ _ (by omega)]
      simp
    · simp only [hle, if_false]
      have hlt : (vs.take n).length = n := by simp [List.length_take]; omega
      rw [setRun_eq _ _ _ (by omega), hlt]
      simp [← hl]
  · intro R C hd hR hC hl
    have hne : t.isEmpty = false := by simp [Arr.isEmpty, hd]; omega
    simp only [fill, hne, hd, Bool.false_eq_true, if_false]
    have inv : Inv2 R C ⟨t.vals, 0, 0, 0⟩ := ⟨by simp, hR, Or.inl rfl, hl⟩
    have h := al2Run_scalars R C hC vs ⟨t.vals, 0, 0, 0⟩ inv
    have hp : pos2 C ⟨t.vals, 0, 0, 0⟩ = 0 := by simp [pos2]
    rw [hp] at h
    simp only [Nat.zero_add, Nat.sub_zero] at h
    by_cases hle : vs.length ≤ R * C
    · simp only [hle, if_true] at h ⊢
      rw [setRun_eq _ _ _ (by simp; omega)] at h
      simp only [List.take_zero, List.nil_append, Nat.zero_add, Prod.mk.injEq] at h
      rw [h.1, h.2]
    · simp only [hle, if_false] at h ⊢
      have hlt : (vs.take (R * C)).length = R * C := by simp [List.length_take]; omega
      rw [setRun_eq _ _ _ (by simp; omega), hlt] at h
      simp only [List.take_zero, List.nil_append, Nat.zero_add, Prod.mk.injEq] at h
      rw [h.1, h.2]
      simp [← hl]

/-- Over-filling with array-valued objects (`v << w << w`).  (1) An object that does not fit from the current position
    raises `index_out_of_bounds` and stores nothing — vector target; (2) matrix target, object too wide or too tall.
    (3) Whatever the pieces, a piece that fails leaves the elements written so far exactly as they are, and (4)–(5) on a
    well-formed target the *only* exception a `<<` chain can end with is `index_out_of_bounds`: in particular no store
    ever goes outside the target (`Err.wild`, the modelled fault, does not occur). -/
theorem C11_arr_fill_object_overflow :
    (∀ (n : Nat) (al : Al1) (x : Arr), x.isEmpty = false → al.c + x.vals.length > n →
        al1Step n al (.a x) = (al, some .index_out_of_bounds)) ∧
    (∀ (R C : Nat) (al : Al2) (x : Arr), x.isEmpty = false → al.c < C → (al.c = 0 ∨ al.obj = (Piece.a x).shape.lead) →
        (((Piece.a x).shape.mat = true ∧ al.r + (Piece.a x).shape.p > R) ∨ al.c + (Piece.a x).shape.q > C) →
        al2Step R C al (.a x) = (al, some .index_out_of_bounds)) ∧
    (∀ (n R C : Nat) (a1 : Al1) (a2 : Al2) (p : Piece) (e : Err),
        ((al1Step n a1 p).2 = some e → (al1Step n a1 p).1 = a1) ∧
        ((al2Step R C a2 p).2 = some e → (al2Step R C a2 p).1 = a2)) ∧
    (∀ (n : Nat) (ps : List Piece) (vals : List Int) (e : Err), vals.length = n →
        (al1Run n ⟨vals, 0⟩ ps).2 = some e → e = .index_out_of_bounds) ∧
    (∀ (R C : Nat) (ps : List Piece) (vals : List Int) (e : Err), 0 < R → 0 < C → vals.length = R * C →
        (al2Run R C ⟨vals, 0, 0, 0⟩ ps).2 = some e → e = .index_out_of_bounds) := by
  refine ⟨?_, ?_, ?_, ?_, ?_⟩
  · intro n al x hx hfit
    by_cases hc : al.c ≥ n
    · simp [al1Step, hx, hc]
    · simp [al1Step, hx, hc, hfit]
  · intro R C al x hx hc hlead hfit
    have hc' : ¬ al.c ≥ C := by omega
    have hsc : (Piece.a x).shape.scalar = false := by
      simp only [Piece.shape]; split <;> rfl
    simp only [al2Step, hx, Bool.false_eq_true, if_false, al2Put, al2Place, hsc, hc']
    have h1 : ¬ (al.c ≠ 0 ∧ al.obj ≠ (Piece.a x).shape.lead) := by
      intro ⟨h1, h2⟩
      cases hlead with
      | inl h => exact h1 h
      | inr h => exact h2 h
    simp only [h1, if_false]
    cases hfit with
    | inl h => simp [h.1, h.2]
    | inr h =>
      by_cases hm : (Piece.a x).shape.mat = true ∧ al.r + (Piece.a x).shape.p > R
      · simp [hm.1, hm.2]
      · simp only [hm, if_false, h, if_true]
  · intro n R C a1 a2 p e
    exact ⟨fun h => (al1Step_fail n a1 p e h).1, fun h => (al2Step_fail R C a2 p e h).1⟩
  · intro n ps vals e hl h
    exact (al1Run_err n ps ⟨vals, 0⟩ hl).2 e h
  · intro R C ps vals e hR hC hl h
    exact (al2Run_err R C hC ps ⟨vals, 0, 0, 0⟩ hl hR).2 e h

/-- `diag_vector`, `submatrix_on_diagonal` and `inv` on a matrix that is not square raise `invalid_operation`
    (for every offset / range argument); nothing changes. -/
theorem C11_arr_not_square (s : State) (k : Nat) (t : Arr) (R C : Nat) (hk : s.get? k = some t)
    (hd : t.dims = [R, C]) (hR : 0 < R) (h : R ≠ C) :
    (∀ o, step s (.diag k o) = (s, .error .invalid_operation)) ∧
    (∀ ib ie, step s (.subdiag k ib ie) = (s, .error .invalid_operation)) ∧
    (t.dbl = true → step s (.inv k) = (s, .error .invalid_operation)) := by
  have hrank : t.rank = 2 := by simp [Arr.rank, hd]
  have hne : t.isEmpty = false := by simp [Arr.isEmpty, hd]; omega
  refine ⟨?_, ?_, ?_⟩
  · intro o; simp [step, hk, hrank, diagVector, hne, hd, h, viewRes]
  · intro ib ie; simp [step, hk, hrank, subDiag, hd, h, viewRes]
  · intro hdbl; simp [step, hk, hrank, hdbl, invMat, hd, h, viewRes]

/-- Linking to an empty array raises `empty_array`; the would-be link keeps its own data (it is not cleared first). -/
theorem C11_arr_link_empty (s : State) (k i : Nat) (t x : Arr) (hk : s.get? k = some t) (hi : s.get? i = some x)
    (hkx : t.sameKind x = true) (h : x.isEmpty = true) :
    step s (.link k i) = (s, .error .empty_array) := by
  simp [step, hk, hi, hkx, h]

/-- A matrix product with an empty operand raises `empty_array` — also when the inner extents disagree as well: the
    emptiness test comes first — and the target is unchanged. -/
theorem C11_arr_matmul_empty (s : State) (k i j : Nat) (t x y : Arr)
    (hk : s.get? k = some t) (hi : s.get? i = some x) (hj : s.get? j = some y)
    (hkind : (t.dbl && x.dbl && y.dbl && decide (x.rank + y.rank > 2) && decide (x.rank ≤ 2) && decide (y.rank ≤ 2)
        && decide (1 ≤ x.rank) && decide (1 ≤ y.rank) && t.rank + 2 == x.rank + y.rank) = true)
    (h : x.isEmpty = true ∨ y.isEmpty = true) :
    matmulDims x y = .error .empty_array ∧ step s (.matmul k i j) = (s, .error .empty_array) := by
  have hd : matmulDims x y = .error .empty_array := by
    unfold matmulDims
    cases h with
    | inl h => simp [h]
    | inr h => simp [h]
  refine ⟨hd, ?_⟩
  simp only [step, hk, hi, hj, hkind, if_true, hd]

/-- A matrix product of non-empty operands whose inner extents disagree raises `inner_dimension_mismatch`, in all
    three operand forms (matrix·vector, matrix·matrix, vector·matrix). -/
theorem C11_arr_matmul_inner (x y : Arr) (m k k' n : Nat) (hk : k ≠ k')
    (hx : x.isEmpty = false) (hy : y.isEmpty = false) :
    (x.dims = [m, k] → y.dims = [k'] → matmulDims x y = .error .inner_dimension_mismatch) ∧
    (x.dims = [m, k] → y.dims = [k', n] → matmulDims x y = .error .inner_dimension_mismatch) ∧
    (x.dims = [k] → y.dims = [k', n] → matmulDims x y = .error .inner_dimension_mismatch) := by
  refine ⟨?_, ?_, ?_⟩ <;> intro h1 h2 <;> simp [matmulDims, h1, h2, hx, hy, hk]

/-- … and the operation as a whole hands the pool back untouched. -/
theorem C11_arr_matmul_inner_step (s : State) (k i j : Nat) (t x y : Arr)
    (hk : s.get? k = some t) (hi : s.get? i = some x) (hj : s.get? j = some y)
    (hd : matmulDims x y = .error .inner_dimension_mismatch) :
    step s (.matmul k i j) = (s, .error .inner_dimension_mismatch) ∨ step s (.matmul k i j) = (s, .error .bad) := by
  simp only [step, hk, hi, hj, hd]
  split
  · exact Or.inl rfl
  · exact Or.inr rfl

/-- `permute` of a matrix with anything but a permutation of (0, 1): a missing argument, an index out of range or a
    repeated index raise `invalid_dimension`; an empty array raises `empty_array`.  Never a view. -/
theorem C11_arr_permute_invalid (t : Arr) (p0 p1 : Int) (h : ¬ ((p0 = 0 ∧ p1 = 1) ∨ (p0 = 1 ∧ p1 = 0))) :
    permute2 t p0 p1 = .error .invalid_dimension ∨ (t.isEmpty = true ∧ permute2 t p0 p1 = .error .empty_array) := by
  unfold permute2
  by_cases h1 : p0 = -1 ∨ p1 = -1
  · simp [h1]
  · by_cases he : t.isEmpty = true
    · simp [h1, he]
    · by_cases h2 : (0 ≤ p0 ∧ p0 < 2 ∧ 0 ≤ p1 ∧ p1 < 2)
      · have h3 : p0 = p1 := by omega
        simp [h1, he, h2, h3]
      · simp [h1, he, h2]

/-- With `ADEPT_BOUNDS_CHECKING`, an element access with an index outside `0 … n−1` in some dimension raises
    `index_out_of_bounds` (and reads nothing). -/
theorem C11_arr_index_out_of_bounds (s : State) (k : Nat) (t : Arr) (idx : List Int) (hk : s.get? k = some t)
    (hb : s.bounds = true) (hl : idx.length = t.rank)
    (h : ((List.zip idx t.dims).all fun p => decide (0 ≤ p.1) && decide (p.1 < (p.2 : Int))) = false) :
    step s (.get k idx) = (s, .error .index_out_of_bounds) := by
  simp only [step, hk, hl, if_true, getElem, h, hb]
  rfl

/-- Views that would have a negative extent raise `invalid_dimension` instead of being returned: a reversed range,
    a diagonal beyond the last one, a reshape to negative extents (or to extents whose product is not the length). -/
theorem C11_arr_view_invalid (t : Arr) :
    (∀ (bnd : Bool) (b e : Int) (n : Nat), t.dims = [n] → 0 ≤ b → b < n → 0 ≤ e → e < n → e - b + 1 < 0 →
        rangeView bnd t b e = .error .invalid_dimension) ∧
    (∀ (n : Nat) (o : Int), t.dims = [n, n] → 0 < n → (o > n ∨ o < -(n : Int)) →
        diagVector t o = .error .invalid_dimension) ∧
    (∀ (r c : Int), (r * c ≠ (t.dims.getD 0 0 : Int) ∨ r < 0 ∨ c < 0) → reshape2 t r c = .error .invalid_dimension) := by
  refine ⟨?_, ?_, ?_⟩
  · intro bnd b e n hd h1 h2 h3 h4 h5
    have : (0 ≤ b ∧ b < (n : Int) ∧ 0 ≤ e ∧ e < (n : Int)) := ⟨h1, h2, h3, h4⟩
    simp [rangeView, hd, this, h5]
  · intro n o hd hn ho
    have hne : t.isEmpty = false := by simp [Arr.isEmpty, hd]; omega
    simp only [diagVector, hne, hd, Bool.false_eq_true, if_false]
    simp only [List.getD_cons_zero, List.getD_cons_succ, ne_eq, not_true_eq_false, if_false]
    have : (if o ≥ 0 then min (n : Int) ((n : Int) - o) else min ((n : Int) + o) n) < 0 := by
      split <;> omega
    simp [this]
  · intro r c h
    unfold reshape2
    by_cases h1 : r * c ≠ (t.dims.getD 0 0 : Int)
    · rw [if_pos h1]
    · have : r < 0 ∨ c < 0 := by
        cases h with
        | inl h => exact absurd h h1
        | inr h => exact h
      rw [if_neg h1, if_pos this]

/-- No wild access.  (1)–(2) A `<<` step on a well-formed target (memory of `n`, resp. `R·C`, elements; current row
    inside the target) never stores outside the allocated memory — the stores are modelled as faulting
    (`writeRunChk`), and the fault is unreachable — and the well-formedness is preserved.  (3) An element read that
    succeeds used indices inside the extents. -/
theorem C11_arr_no_wild_access :
    (∀ (n : Nat) (al : Al1) (p : Piece), al.vals.length = n →
        (al1Step n al p).2 ≠ some .wild ∧ (al1Step n al p).1.vals.length = n) ∧
    (∀ (R C : Nat) (al : Al2) (p : Piece), 0 < C → al.vals.length = R * C → al.r < R →
        (al2Step R C al p).2 ≠ some .wild ∧ (al2Step R C al p).1.vals.length = R * C ∧ (al2Step R C al p).1.r < R) ∧
    (∀ (b : Bool) (t : Arr) (idx : List Int) (x : Int), getElem b t idx = .ok x →
        ∀ p ∈ List.zip idx t.dims, 0 ≤ p.1 ∧ p.1 < (p.2 : Int)) := by
  refine ⟨fun n al p hl => al1Step_no_wild n al p hl, fun R C al p hC hl hr => al2Step_no_wild R C hC al p hl hr, ?_⟩
  intro b t idx x h p hp
  unfold getElem at h
  by_cases hin : ((List.zip idx t.dims).all fun p => decide (0 ≤ p.1) && decide (p.1 < (p.2 : Int))) = true
  · rw [List.all_eq_true] at hin
    have := hin p hp
    simpa using this
  · simp only [hin] at h
    cases b <;> simp at h

/-- Usable after.  Run any history of array operations from any pool; remove every operation that failed and left the
    pool as it was.  The shortened history ends in the same pool and every remaining operation shows exactly what it
    showed in the full history.  And every failing operation other than `<<` *is* such an operation: it handed back the
    pool it was given (a failing `<<` keeps what it had written: the documented partial effect). -/
theorem C11_arr_usable_after (s : State) (ops : List Op) :
    run s (dropFailed s ops) = runKept s ops ∧ (runKept s ops).1 = (run s ops).1 ∧
    (∀ (s' : State) (o : Op), (step s' o).2.failed = true → (∀ k items, o ≠ .fill k items) → (step s' o).1 = s') :=
  ⟨run_dropFailed s ops, runKept_state s ops, fun s' o hf hfill => fail_unchanged s' o hf hfill⟩

/-! Non-vacuity of the hypotheses. -/
example : NegFirst [3, -1] := by simp [NegFirst]
example : ∃ (s : State) (o : Op), dropped s o = true := ⟨{}, .clear 0, by decide⟩
example : ∃ al : Al2, Inv2 2 3 al := ⟨⟨List.replicate 6 0, 0, 0, 0⟩, by simp, by simp, Or.inl rfl, by simp⟩
example : ∃ (x : Arr), x.isEmpty = false ∧ (Piece.a x).shape.mat = true ∧ (0 : Nat) + (Piece.a x).shape.p > 1 :=
  ⟨⟨true, [2, 2], [1, 2, 3, 4]⟩, by decide, by decide, by decide⟩

end Adept.Misuse
