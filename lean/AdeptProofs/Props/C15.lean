import AdeptProofs.Lemmas.Matmul
/-!
# C15 — matrix multiplication returns the true product for every operand form

Property theorems only; helper lemmas live in `AdeptProofs/Lemmas/Matmul.lean`.  All statements are about
`AdeptModel/Matmul.lean` (the transcription of `include/adept/matmul.h` and `adept/cppblas.cpp`, with the
repairs F-13, F-14, F-26) on top of `AdeptModel/Blas.lean` (the BLAS contract transcribed from the Netlib
reference); the correspondence check (checks/c15.py) ties the model to the C++ on every run by comparing the
logged Fortran arguments, the touched index ranges and the results of a spy BLAS with the model's.

Conventions: `A.get i k` is the cell `A.mem (addr A.v i k)`, `addr v i k = base + i·o0 + k·o1`; `sumTo f n = Σ_{l<n} f l`.
The theorems hold over every commutative ring, for all extents ≥ 1 and — after the repairs — for ALL strides of the
matrix operands (positive, negative, zero, overlapping): an operand that is neither row- nor column-contiguous is
copied.  The only layout hypotheses left are those BLAS itself imposes on what matmul.h passes through unchanged:
a vector increment must be non-zero, the offset of a symmetric matrix at least its dimension and the offset of a
band matrix at least `LDiags + UDiags` (true of every matrix `resize` or `submatrix_on_diagonal` can produce).

Before the repairs the dense paths needed "all strides positive" (`…_partial`), see the note at the end of this
file and `AdeptProofs/Refute/Matmul.lean`.

The derivative clause: `gemvRecord` / `gemmRecord` / `bandVRecord` transcribe the recording loops of matmul.h literally
(gradient index arithmetic with the operands' offsets, multiplier addresses into the operands' memory); `C15_tape_*` give
their closed forms (left-hand side = gradient index of the result element, operations exactly
`{(B[k,j], gidx A[i,k])} ∪ {(A[i,k], gidx B[k,j])}`, for a band matrix the in-band `k` only), `C15_stmt_differential_*`
show that such a statement denotes the differential of the defining sum, and `C15_active_derivative_*` run the
tangent-linear sweep over EVERYTHING a product records — the element-wise copies of doubly strided operands
included — and obtain `Σₖ B[k,j]·dA[i,k] + A[i,k]·dB[k,j]` in terms of the ORIGINAL operands' gradient cells, for every
layout.  The check compares the model's statements with the implementation's tape exactly on every active case.

Not proved here (correspondence and oracle only): `reads_within` for the band · matrix form (it is proved for the
band · vector call, of which the matrix form issues one per column), and the conversions `promote_array` performs before
`matmul_` is entered (expressions, active or square / triangular special matrices, fixed arrays: Driver/Matmul.lean;
their statements — one per element, multiplier 2 resp. 1, empty for structural zeros — are part of the compared tape).
-/
namespace Adept.Matmul
open Adept.Blas

variable {α : Type} [CommRing α]

/-! ## dense operands -/

/-- **gemm_path.**  `matmul(L,R)[i,j] = Σₖ L[i,k]·R[k,j]` for dense matrices of any layout: row-contiguous,
    column-contiguous or strided in both directions (then copied), in every combination; the ?GEMM call is
    accepted (no illegal leading dimension) and the result has the extents of the product. -/
theorem C15_gemm_path {pw : Nat} (hpw : 1 ≤ pw) (L Rm : Mat α)
    (hm : 1 ≤ L.v.d0) (hk : 1 ≤ L.v.d1) (hn : 1 ≤ Rm.v.d1) (hkk : L.v.d1 = Rm.v.d0) :
    ∃ o, matmulMM pw L Rm = .ok o ∧ gemmInfo o.call.args = 0 ∧
      o.ans.v.d0 = L.v.d0 ∧ o.ans.v.d1 = Rm.v.d1 ∧
      ∀ i j, i < L.v.d0 → j < Rm.v.d1 → o.ans.get i j = sumTo (fun k => L.get i k * Rm.get k j) L.v.d1 := by
  refine ⟨gemmDense pw (prep pw L) (prep pw Rm), ?_, ?_, prep_d0 pw L, prep_d1 pw Rm, ?_⟩
  · unfold matmulMM
    rw [if_neg (by omega), if_neg (by omega)]
  · exact gemmDense_info hpw _ _ (prep_contig hpw L) (prep_contig hpw Rm) (by rw [prep_d0]; exact hm) (by rw [prep_d1]; exact hk)
      (by rw [prep_d1]; exact hn) (by rw [prep_d1, prep_d0]; exact hkk)
  · intro i j hi hj
    have h := gemmDense_get hpw (prep pw L) (prep pw Rm) (prep_contig hpw L) (prep_contig hpw Rm) (by rw [prep_d0]; exact hm)
      (by rw [prep_d1]; exact hk) (by rw [prep_d1]; exact hn) (by rw [prep_d1, prep_d0]; exact hkk)
      (i := i) (j := j) (by rw [prep_d0]; exact hi) (by rw [prep_d1]; exact hj)
    rw [h, prep_d1]
    apply sumTo_congr
    intro l hl
    rw [prep_get hpw L hi hl, prep_get hpw Rm (by omega) hj]

/-- **gemm reads_within.**  Every index ?GEMM reads lies at an element address of the array it was handed, and
    that array is the caller's operand itself or the fresh temporary that holds a copy of it. -/
theorem C15_gemm_reads_within {pw : Nat} (hpw : 1 ≤ pw) (L Rm : Mat α) (hm : 1 ≤ L.v.d0) (hk : 1 ≤ L.v.d1) (hkk : L.v.d1 = Rm.v.d0) :
    ∃ o, matmulMM pw L Rm = .ok o ∧
      (o.l = L ∨ o.l = copyMat pw L) ∧ (o.r = Rm ∨ o.r = copyMat pw Rm) ∧
      (∀ p ∈ gemmReadA o.call.args, ∃ l j, l < o.r.v.d0 ∧ j < o.r.v.d1 ∧ o.call.pa.off + p = o.r.v.addr l j) ∧
      (∀ p ∈ gemmReadB o.call.args, ∃ i l, i < o.l.v.d0 ∧ l < o.l.v.d1 ∧ o.call.pb.off + p = o.l.v.addr i l) ∧
      o.call.pa.buf = o.r.buf ∧ o.call.pb.buf = o.l.buf := by
  refine ⟨gemmDense pw (prep pw L) (prep pw Rm), ?_, prep_cases pw L, prep_cases pw Rm, ?_, ?_, ?_, ?_⟩
  · unfold matmulMM
    rw [if_neg (by omega), if_neg (by omega)]
  · exact (gemmDense_reads hpw _ _ (prep_contig hpw L) (prep_contig hpw Rm) (by rw [prep_d1, prep_d0]; exact hkk)).1
  · exact (gemmDense_reads hpw _ _ (prep_contig hpw L) (prep_contig hpw Rm) (by rw [prep_d1, prep_d0]; exact hkk)).2
  · rw [(gemmDense_call hpw _ _).2.2.2.1]; rfl
  · rw [(gemmDense_call hpw _ _).2.2.2.2]; rfl

/-- **gemv_path.**  `matmul(L,x)[i] = Σₖ L[i,k]·x[k]` for a dense matrix of any layout and a vector with any
    non-zero stride, negative strides included (F-13). -/
theorem C15_gemv_path {pw : Nat} (hpw : 1 ≤ pw) (L : Mat α) (x : Vec α)
    (hm : 1 ≤ L.v.d0) (hk : 1 ≤ L.v.d1) (hkk : L.v.d1 = x.v.d) (hx : x.v.o ≠ 0) :
    ∃ o, matmulMV pw L x = .ok o ∧ gemvInfo o.call.args = 0 ∧ o.ans.v.d = L.v.d0 ∧
      ∀ i, i < L.v.d0 → o.ans.get i = sumTo (fun k => L.get i k * x.get k) L.v.d1 := by
  refine ⟨gemvDense (prep pw L) x, ?_, ?_, ?_, ?_⟩
  · unfold matmulMV
    rw [if_neg (by omega), if_neg (by omega)]
  · exact gemvDense_info _ x (prep_contig hpw L) (by rw [prep_d0]; exact hm) (by rw [prep_d1]; exact hk) hx
  · show (prep pw L).v.d0 = _
    exact prep_d0 pw L
  · intro i hi
    have h := gemvDense_get (prep pw L) x (prep_contig hpw L) (by rw [prep_d0]; exact hm) (by rw [prep_d1]; exact hk)
      (by rw [prep_d1]; exact hkk) hx (i := i) (by rw [prep_d0]; exact hi)
    rw [h, prep_d1]
    apply sumTo_congr
    intro l hl
    rw [prep_get hpw L hi hl]

/-- **vector · matrix.**  `matmul(x,R)[j] = Σₖ x[k]·R[k,j]` (evaluated as `matmul(R.T(), x)`). -/
theorem C15_vecmat_path {pw : Nat} (hpw : 1 ≤ pw) (x : Vec α) (Rm : Mat α)
    (hk : 1 ≤ Rm.v.d0) (hn : 1 ≤ Rm.v.d1) (hkk : x.v.d = Rm.v.d0) (hx : x.v.o ≠ 0) :
    ∃ o, matmulVM pw x Rm = .ok o ∧ gemvInfo o.call.args = 0 ∧ o.ans.v.d = Rm.v.d1 ∧
      ∀ j, j < Rm.v.d1 → o.ans.get j = sumTo (fun k => x.get k * Rm.get k j) Rm.v.d0 := by
  obtain ⟨o, h1, h2, h3, h4⟩ := C15_gemv_path hpw Rm.T x (by exact hn) (by exact hk) (by exact hkk.symm) hx
  refine ⟨o, h1, h2, h3, ?_⟩
  intro j hj
  rw [h4 j hj]
  show sumTo _ Rm.v.d0 = _
  apply sumTo_congr
  intro l _
  rw [Mat.T_get, mul_comm]

/-- **gemv reads_within.**  ?GEMV reads only elements of the matrix it was handed (the operand or its copy) and
    only elements of the vector: with a negative increment the pointer is moved to the lowest address first. -/
theorem C15_gemv_reads_within {pw : Nat} (hpw : 1 ≤ pw) (L : Mat α) (x : Vec α)
    (hm : 1 ≤ L.v.d0) (hk : 1 ≤ L.v.d1) (hkk : L.v.d1 = x.v.d) :
    ∃ o, matmulMV pw L x = .ok o ∧ (o.l = L ∨ o.l = copyMat pw L) ∧
      (∀ p ∈ gemvReadA o.call.args, ∃ i l, i < o.l.v.d0 ∧ l < o.l.v.d1 ∧ o.call.pa.off + p = o.l.v.addr i l) ∧
      (∀ p ∈ gemvReadX o.call.args, ∃ l, l < x.v.d ∧ o.call.px.off + p = x.v.addr l) ∧
      o.call.pa.buf = o.l.buf ∧ o.call.px.buf = x.buf := by
  refine ⟨gemvDense (prep pw L) x, ?_, prep_cases pw L, ?_, ?_, ?_, ?_⟩
  · unfold matmulMV
    rw [if_neg (by omega), if_neg (by omega)]
  · exact (gemvDense_reads _ x (prep_contig hpw L) (by rw [prep_d1]; exact hkk)).1
  · exact (gemvDense_reads _ x (prep_contig hpw L) (by rw [prep_d1]; exact hkk)).2
  · rw [(gemvDense_call _ x).2.2.2.1]; rfl
  · rw [(gemvDense_call _ x).2.2.2.2]

/-- **copies are faithful.**  The array handed to BLAS has the extents and the element values of the operand and is
    row- or column-contiguous, whatever the operand's strides. -/
theorem C15_prepared_operand {pw : Nat} (hpw : 1 ≤ pw) (A : Mat α) :
    (prep pw A).v.d0 = A.v.d0 ∧ (prep pw A).v.d1 = A.v.d1 ∧
    (isRowContig (prep pw A).v = true ∨ isColContig (prep pw A).v = true) ∧
    ∀ i k, i < A.v.d0 → k < A.v.d1 → (prep pw A).get i k = A.get i k :=
  ⟨prep_d0 pw A, prep_d1 pw A, prep_contig hpw A, fun _ _ hi hk => prep_get hpw A hi hk⟩

/-! ## errors -/

/-- **errors (matrix · matrix).**  An empty operand raises `empty_array` — also when the inner extents disagree
    as well — and otherwise mismatched inner extents raise `inner_dimension_mismatch`. -/
theorem C15_errors_mm (pw : Nat) (L Rm : Mat α) :
    ((L.v.d0 = 0 ∨ Rm.v.d0 = 0) → matmulMM pw L Rm = .error .emptyArray) ∧
    (L.v.d0 ≠ 0 → Rm.v.d0 ≠ 0 → L.v.d1 ≠ Rm.v.d0 → matmulMM pw L Rm = .error .innerDimensionMismatch) := by
  constructor
  · intro h; unfold matmulMM; rw [if_pos h]
  · intro h1 h2 h3; unfold matmulMM; rw [if_neg (by omega), if_pos h3]

/-- **errors (matrix · vector, vector · matrix).** -/
theorem C15_errors_mv (pw : Nat) (L : Mat α) (x : Vec α) :
    ((L.v.d0 = 0 ∨ x.v.d = 0) → matmulMV pw L x = .error .emptyArray) ∧
    (L.v.d0 ≠ 0 → x.v.d ≠ 0 → L.v.d1 ≠ x.v.d → matmulMV pw L x = .error .innerDimensionMismatch) ∧
    ((L.v.d1 = 0 ∨ x.v.d = 0) → matmulVM pw x L = .error .emptyArray) ∧
    (L.v.d1 ≠ 0 → x.v.d ≠ 0 → L.v.d0 ≠ x.v.d → matmulVM pw x L = .error .innerDimensionMismatch) := by
  refine ⟨?_, ?_, ?_, ?_⟩
  · intro h; unfold matmulMV; rw [if_pos h]
  · intro h1 h2 h3; unfold matmulMV; rw [if_neg (by omega), if_pos h3]
  · intro h; unfold matmulVM matmulMV; rw [if_pos (show L.T.v.d0 = 0 ∨ x.v.d = 0 from h)]
  · intro h1 h2 h3; unfold matmulVM matmulMV
    rw [if_neg (show ¬ (L.T.v.d0 = 0 ∨ x.v.d = 0) by show ¬ (L.v.d1 = 0 ∨ x.v.d = 0); omega),
      if_pos (show L.T.v.d1 ≠ x.v.d from h3)]

/-- **errors (special matrices).**  Same order for symmetric and band operands (`check_inner_dimensions_sqr`);
    the combinations matmul.h does not implement are refused with `invalid_operation` only after these checks. -/
theorem C15_errors_special (pw : Nat) (lAct rAct : Bool) (s : Symm α) (b : Band α) (x : Vec α) (Rm : Mat α) :
    ((s.dim = 0 ∨ x.v.d = 0) → matmulSymV lAct rAct s x = .error .emptyArray) ∧
    (s.dim ≠ 0 → x.v.d ≠ 0 → s.dim ≠ x.v.d → matmulSymV lAct rAct s x = .error .innerDimensionMismatch) ∧
    ((s.dim = 0 ∨ Rm.v.d0 = 0) → matmulSymM pw lAct rAct s Rm = .error .emptyArray) ∧
    (s.dim ≠ 0 → Rm.v.d0 ≠ 0 → s.dim ≠ Rm.v.d0 → matmulSymM pw lAct rAct s Rm = .error .innerDimensionMismatch) ∧
    ((b.dim = 0 ∨ x.v.d = 0) → matmulBandV lAct b x = .error .emptyArray) ∧
    (b.dim ≠ 0 → x.v.d ≠ 0 → b.dim ≠ x.v.d → matmulBandV lAct b x = .error .innerDimensionMismatch) ∧
    ((b.dim = 0 ∨ Rm.v.d0 = 0) → matmulBandM pw lAct rAct b Rm = .error .emptyArray) ∧
    (b.dim ≠ 0 → Rm.v.d0 ≠ 0 → b.dim ≠ Rm.v.d0 → matmulBandM pw lAct rAct b Rm = .error .innerDimensionMismatch) := by
  refine ⟨?_, ?_, ?_, ?_, ?_, ?_, ?_, ?_⟩
  · intro h; unfold matmulSymV; rw [if_pos h]
  · intro h1 h2 h3; unfold matmulSymV; rw [if_neg (by omega), if_pos h3]
  · intro h; unfold matmulSymM; rw [if_pos h]
  · intro h1 h2 h3; unfold matmulSymM; rw [if_neg (by omega), if_pos h3]
  · intro h; unfold matmulBandV; rw [if_pos h]
  · intro h1 h2 h3; unfold matmulBandV; rw [if_neg (by omega), if_pos h3]
  · intro h; unfold matmulBandM; rw [if_pos h]
  · intro h1 h2 h3; unfold matmulBandM; rw [if_neg (by omega), if_pos h3]

/-! ## symmetric matrices -/

/-- **symv_path.**  `matmul(S,x)[i] = Σₖ S[i,k]·x[k]` for both orientations of a passive symmetric matrix, where
    `S[i,k]` is the cell `SymmEngine::index(i,k)` (so only the stored triangle is involved). -/
theorem C15_symv_path (s : Symm α) (x : Vec α) (hn : 1 ≤ s.dim) (hd : s.dim = x.v.d)
    (hoff : (s.dim : Int) ≤ s.off) (hx : x.v.o ≠ 0) :
    ∃ o, matmulSymV false false s x = .ok o ∧ symvInfo o.call.args = 0 ∧ o.ans.v.d = s.dim ∧
      ∀ i, i < s.dim → o.ans.get i = sumTo (fun k => s.get i k * x.get k) s.dim := by
  refine ⟨symvCore s x, ?_, symvCore_info s x hd hn hoff hx, hd.symm, fun i hi => symvCore_get s x hd hn hoff hx hi⟩
  unfold matmulSymV
  rw [if_neg (by omega), if_neg (by omega), if_neg (by simp)]

/-- **vector · symmetric.**  `matmul(x,S)[j] = Σₖ x[k]·S[k,j]`. -/
theorem C15_vecsym_path (s : Symm α) (x : Vec α) (hn : 1 ≤ s.dim) (hd : s.dim = x.v.d)
    (hoff : (s.dim : Int) ≤ s.off) (hx : x.v.o ≠ 0) :
    ∃ o, matmulVSym false false x s = .ok o ∧ symvInfo o.call.args = 0 ∧
      ∀ j, j < s.dim → o.ans.get j = sumTo (fun k => x.get k * s.get k j) s.dim := by
  obtain ⟨o, h1, h2, -, h4⟩ := C15_symv_path s x hn hd hoff hx
  refine ⟨o, h1, h2, ?_⟩
  intro j hj
  rw [h4 j hj]
  apply sumTo_congr
  intro l _
  rw [Symm.get_comm, mul_comm]

/-- **symm_path.**  `matmul(S,R)[i,j] = Σₖ S[i,k]·R[k,j]` for a passive symmetric matrix and a dense matrix of any
    layout (row-contiguous: row-major ?SYMM rewritten to SIDE = R; column-contiguous: SIDE = L; otherwise copied). -/
theorem C15_symm_path {pw : Nat} (hpw : 1 ≤ pw) (s : Symm α) (Rm : Mat α) (hn : 1 ≤ s.dim) (hc : 1 ≤ Rm.v.d1)
    (hd : s.dim = Rm.v.d0) (hoff : (s.dim : Int) ≤ s.off) :
    ∃ o, matmulSymM pw false false s Rm = .ok o ∧ symmInfo o.call.args = 0 ∧
      ∀ i j, i < s.dim → j < Rm.v.d1 → o.ans.get i j = sumTo (fun k => s.get i k * Rm.get k j) s.dim := by
  have hd' : s.dim = (prep pw Rm).v.d0 := by rw [prep_d0]; exact hd
  have hc' : 1 ≤ (prep pw Rm).v.d1 := by rw [prep_d1]; exact hc
  refine ⟨symmCore pw s (prep pw Rm), ?_, symmCore_info hpw s _ (prep_contig hpw Rm) hd' hn hc' hoff, ?_⟩
  · unfold matmulSymM
    rw [if_neg (by omega), if_neg (by omega), if_neg (by simp)]
  · intro i j hi hj
    rw [symmCore_get hpw s _ (prep_contig hpw Rm) hd' hn hc' hoff hi (by rw [prep_d1]; exact hj)]
    apply sumTo_congr
    intro l hl
    rw [prep_get hpw Rm (by omega) hj]

/-- **matrix · symmetric.**  `matmul(L,S)[i,j] = Σₖ L[i,k]·S[k,j]` (evaluated as `matmul(S, L.T()).T()`). -/
theorem C15_matsym_path {pw : Nat} (hpw : 1 ≤ pw) (L : Mat α) (s : Symm α) (hn : 1 ≤ s.dim) (hm : 1 ≤ L.v.d0)
    (hd : s.dim = L.v.d1) (hoff : (s.dim : Int) ≤ s.off) :
    ∃ o, matmulMSym pw false false L s = .ok o ∧ symmInfo o.call.args = 0 ∧
      ∀ i j, i < L.v.d0 → j < s.dim → o.ans.get i j = sumTo (fun k => L.get i k * s.get k j) s.dim := by
  obtain ⟨o, h1, h2, h3⟩ := C15_symm_path hpw s L.T hn (by exact hm) (by exact hd) hoff
  refine ⟨{ o with ans := o.ans.T }, ?_, h2, ?_⟩
  · unfold matmulMSym; rw [h1]
  · intro i j hi hj
    show o.ans.T.get i j = _
    rw [Mat.T_get, h3 j i hj (by exact hi)]
    apply sumTo_congr
    intro l _
    rw [Mat.T_get, Symm.get_comm, mul_comm]

/-- **symmetric reads_within.**  ?SYMV / ?SYMM read the symmetric matrix only at cells of elements `(i,j)` of the
    matrix, and the other operand only at its element addresses. -/
theorem C15_sym_reads_within {pw : Nat} (hpw : 1 ≤ pw) (s : Symm α) (x : Vec α) (Rm : Mat α) (hdx : s.dim = x.v.d) (hdr : s.dim = Rm.v.d0) :
    ((∀ p ∈ symvReadA (symvCore s x).call.args, ∃ i j, i < s.dim ∧ j < s.dim ∧ (symvCore s x).call.pa.off + p = s.cell i j) ∧
     (∀ p ∈ symvReadX (symvCore s x).call.args, ∃ l, l < x.v.d ∧ (symvCore s x).call.px.off + p = x.v.addr l)) ∧
    ((∀ p ∈ symmReadA (symmCore pw s (prep pw Rm)).call.args,
        ∃ i j, i < s.dim ∧ j < s.dim ∧ (symmCore pw s (prep pw Rm)).call.pa.off + p = s.cell i j) ∧
     (∀ p ∈ symmReadB (symmCore pw s (prep pw Rm)).call.args,
        ∃ l j, l < (prep pw Rm).v.d0 ∧ j < (prep pw Rm).v.d1 ∧ (symmCore pw s (prep pw Rm)).call.pb.off + p = (prep pw Rm).v.addr l j)) :=
  ⟨symvCore_reads s x hdx, symmCore_reads s _ (prep_contig hpw Rm) (by rw [prep_d0]; exact hdr)⟩

/-! ## band matrices -/

/-- **gbmv_path.**  `matmul(B,x)[i] = Σₖ B[i,k]·x[k]` for a passive band matrix with ANY numbers of sub- and
    super-diagonals in row- or column-major storage (KL/KU exchanged and the matrix transposed in row-major; start
    pointer `ptr − LDiags` resp. `ptr − UDiags`, F-26), `B[i,k]` being zero outside the band and the cell
    `BandEngine::index(i,k)` inside. -/
theorem C15_gbmv_path (b : Band α) (x : Vec α) (hn : 1 ≤ b.dim) (hd : b.dim = x.v.d)
    (hoff : (b.kl : Int) + (b.ku : Int) ≤ b.off) (hx : x.v.o ≠ 0) :
    ∃ o, matmulBandV false b x = .ok o ∧ gbmvInfo o.call.args = 0 ∧ o.ans.v.d = b.dim ∧
      ∀ i, i < b.dim → o.ans.get i = sumTo (fun k => b.get i k * x.get k) b.dim := by
  refine ⟨bandVCore b x, ?_, bandVCore_info b x hoff hx, hd.symm, fun i hi => bandVCore_get b x hd hoff hx hi⟩
  unfold matmulBandV
  rw [if_neg (by omega), if_neg (by omega), if_neg (by simp)]

/-- **vector · band.**  `matmul(x,B)[j] = Σₖ x[k]·B[k,j]` (the band matrix is re-described as its transpose). -/
theorem C15_vecband_path (b : Band α) (x : Vec α) (hn : 1 ≤ b.dim) (hd : b.dim = x.v.d)
    (hoff : (b.kl : Int) + (b.ku : Int) ≤ b.off) (hx : x.v.o ≠ 0) :
    ∃ o, matmulVBand false x b = .ok o ∧ gbmvInfo o.call.args = 0 ∧
      ∀ j, j < b.dim → o.ans.get j = sumTo (fun k => x.get k * b.get k j) b.dim := by
  obtain ⟨o, h1, h2, -, h4⟩ := C15_gbmv_path b.T x (by exact hn) (by exact hd) (by show ((b.ku : Int) + (b.kl : Int) ≤ b.off); omega) hx
  refine ⟨o, h1, h2, ?_⟩
  intro j hj
  rw [h4 j (by exact hj)]
  show sumTo _ b.dim = _
  apply sumTo_congr
  intro l _
  rw [Band.T_get, mul_comm]

/-- **band · matrix.**  `matmul(B,R)[i,j] = Σₖ B[i,k]·R[k,j]`: one ?GBMV per column of `R`, each accepted, each
    writing only its own column of the (row-major, possibly padded) result; `R` may have any strides with a
    non-zero row stride (it is used as the vector increment; negative values included). -/
theorem C15_bandmat_path {pw : Nat} (hpw : 1 ≤ pw) (b : Band α) (Rm : Mat α) (hn : 1 ≤ b.dim) (hc : 1 ≤ Rm.v.d1)
    (hd : b.dim = Rm.v.d0) (hoff : (b.kl : Int) + (b.ku : Int) ≤ b.off) (hx : Rm.v.o0 ≠ 0) :
    ∃ o, matmulBandM pw false false b Rm = .ok o ∧ (∀ c ∈ o.calls, gbmvInfo c.args = 0) ∧ o.calls.length = Rm.v.d1 ∧
      ∀ i j, i < b.dim → j < Rm.v.d1 → o.ans.get i j = sumTo (fun k => b.get i k * Rm.get k j) b.dim := by
  refine ⟨bandMCore pw b Rm, ?_, bandMCore_info hpw b Rm hd hc hoff hx, ?_, fun i j hi hj => bandMCore_get hpw b Rm hd hc hoff hx hi hj⟩
  · unfold matmulBandM
    rw [if_neg (by omega), if_neg (by omega), if_neg (by simp)]
  · show ((List.range Rm.v.d1).map _).length = _
    simp

/-- **matrix · band.**  `matmul(L,B)[i,j] = Σₖ L[i,k]·B[k,j]` (evaluated as `matmul(Bᵀ, L.T()).T()`). -/
theorem C15_matband_path {pw : Nat} (hpw : 1 ≤ pw) (L : Mat α) (b : Band α) (hn : 1 ≤ b.dim) (hm : 1 ≤ L.v.d0)
    (hd : b.dim = L.v.d1) (hoff : (b.kl : Int) + (b.ku : Int) ≤ b.off) (hx : L.v.o1 ≠ 0) :
    ∃ o, matmulMBand pw false false L b = .ok o ∧ (∀ c ∈ o.calls, gbmvInfo c.args = 0) ∧
      ∀ i j, i < L.v.d0 → j < b.dim → o.ans.get i j = sumTo (fun k => L.get i k * b.get k j) b.dim := by
  obtain ⟨o, h1, h2, -, h4⟩ := C15_bandmat_path hpw b.T L.T (by exact hn) (by exact hm) (by exact hd)
    (by show ((b.ku : Int) + (b.kl : Int) ≤ b.off); omega) (by exact hx)
  refine ⟨{ o with ans := o.ans.T }, ?_, h2, ?_⟩
  · unfold matmulMBand; rw [h1]
  · intro i j hi hj
    show o.ans.T.get i j = _
    rw [Mat.T_get, h4 j i (by exact hj) (by exact hi)]
    show sumTo _ b.dim = _
    apply sumTo_congr
    intro l _
    rw [Band.T_get, Mat.T_get, mul_comm]

/-- **gbmv reads_within.**  ?GBMV reads the band matrix only at cells of elements inside the band (never the
    "missing" corners before and after the storage) and the vector only at its elements. -/
theorem C15_gbmv_reads_within (b : Band α) (x : Vec α) (hd : b.dim = x.v.d) :
    (∀ p ∈ gbmvReadA (bandVCore b x).call.args,
        ∃ i j, i < b.dim ∧ j < b.dim ∧ j ≤ i + b.ku ∧ i ≤ j + b.kl ∧ (bandVCore b x).call.pa.off + p = b.cell i j) ∧
    (∀ p ∈ gbmvReadX (bandVCore b x).call.args, ∃ l, l < x.v.d ∧ (bandVCore b x).call.px.off + p = x.v.addr l) :=
  bandVCore_reads b x hd

/-! ## active operands -/

omit [CommRing α] in
/-- **active_product (matrix · matrix).**  The operations pushed for result element `(i,j)` are exactly
    `R[l,j]·d L[i,l]` (if the left operand is active) followed by `L[i,l]·d R[l,j]` (if the right one is), `l`
    over the inner extent: the partial derivatives of the defining sum `Σₗ L[i,l]·R[l,j]`, attached to the
    gradient cells `addr L [i,l]`, `addr R [l,j]`. -/
theorem C15_active_product_mm [Add α] [Mul α] [Zero α] (lAct rAct : Bool) (L Rm : Mat α) (i j : Nat) :
    gemmOps lAct rAct L Rm i j =
      (if lAct then (List.range Rm.v.d0).map (fun l => (Rm.get l j, L.buf, L.v.addr i l)) else []) ++
      (if rAct then (List.range Rm.v.d0).map (fun l => (L.get i l, Rm.buf, Rm.v.addr l j)) else []) :=
  gemmOps_eq lAct rAct L Rm i j

omit [CommRing α] in
/-- **active_product (matrix · vector).** -/
theorem C15_active_product_mv [Add α] [Mul α] [Zero α] (lAct rAct : Bool) (L : Mat α) (x : Vec α) (i : Nat) :
    gemvOps lAct rAct L x i =
      (if lAct then (List.range x.v.d).map (fun l => (x.get l, L.buf, L.v.addr i l)) else []) ++
      (if rAct then (List.range x.v.d).map (fun l => (L.get i l, x.buf, x.v.addr l)) else []) :=
  gemvOps_eq lAct rAct L x i

/-! ## active operands: the recorded statements, literally transcribed, and what they denote -/

omit [CommRing α] in
/-- **tape (matrix · matrix).**  The loop `matmul_(Array<2>,Array<2>)` runs after ?GEMM records, for ALL extents and ALL
    offsets of either sign (transposed, strided, reversed operands; `gl`/`gr` say which operands are active and where
    their gradient blocks lie), one statement per result element in row-major order; the statement of `(i,j)` has the
    left-hand side `gidx C[i,j]` and the operations `(R[k,j], gidx L[i,k])`, `k < n`, if the left operand is active,
    followed by `(L[i,k], gidx R[k,j])`, `k < n`, if the right one is — nothing else. -/
theorem C15_tape_mm [Add α] [Mul α] [Zero α] (gl gr : Grad) (L Rm : Mat α) (ans : View2) :
    gemmRecord gl gr L Rm ans =
      if gl.act || gr.act then
        pairs ans.d0 ans.d1 (fun (i j : Nat) =>
          ({ lhs := ⟨.C, ans.addr i j⟩,
             ops := (if gl.act then (List.range Rm.v.d0).map (fun (k : Nat) => (Rm.get k j, gl.idx (L.v.addr i k))) else []) ++
                    (if gr.act then (List.range Rm.v.d0).map (fun (k : Nat) => (L.get i k, gr.idx (Rm.v.addr k j))) else []) } : Stmt α))
      else [] :=
  gemmRecord_eq gl gr L Rm ans

omit [CommRing α] in
/-- **tape (matrix · vector).**  Same for `matmul_(Array<2>,Array<1>)`; vector · matrix is recorded by the same loop
    on `(right.T(), left)`. -/
theorem C15_tape_mv [Add α] [Mul α] [Zero α] (gl gr : Grad) (L : Mat α) (x : Vec α) (ans : View1) :
    gemvRecord gl gr L x ans =
      if gl.act || gr.act then
        (List.range ans.d).map (fun (i : Nat) =>
          ({ lhs := ⟨.C, ans.addr i⟩,
             ops := (if gl.act then (List.range x.v.d).map (fun (k : Nat) => (x.get k, gl.idx (L.v.addr i k))) else []) ++
                    (if gr.act then (List.range x.v.d).map (fun (k : Nat) => (L.get i k, gr.idx (x.v.addr k))) else []) } : Stmt α))
      else [] :=
  gemvRecord_eq gl gr L x ans

omit [CommRing α] in
/-- **tape (band · active vector).**  For ALL `(dim, LDiags, UDiags)`, both storage orders of the band matrix and any
    stride of the vector the loops of `matmul_band` record, per row `i`, the left-hand side `gidx C[i]` and the
    operations `(B.mem(index(i,k)), gidx x[k])` for `k = j_start … j_end_plus_1−1` (ascending), `index` being
    `BandEngine<Order>::index`; and for a row `i < dim` that range is EXACTLY the set of in-band columns, where
    `B.mem(index(i,k)) = B[i,k]`. -/
theorem C15_tape_band [Add α] [Mul α] [Zero α] (b : Band α) (gr : Grad) (x : Vec α) (ans : View1) :
    bandVRecord b gr x ans =
      (if gr.act then
        (List.range ans.d).map (fun (i : Nat) =>
          ({ lhs := ⟨.C, ans.addr i⟩,
             ops := (List.range (bandJEnd b.ku b.dim i - bandJStart b.kl i)).map (fun (l : Nat) =>
                      (b.mem (b.cell i (bandJStart b.kl i + l)), gr.idx (x.v.addr (bandJStart b.kl i + l)))) } : Stmt α))
      else []) ∧
    ∀ i k, i < b.dim →
      ((bandJStart b.kl i ≤ k ∧ k < bandJEnd b.ku b.dim i) ↔ (k < b.dim ∧ k ≤ i + b.ku ∧ i ≤ k + b.kl)) ∧
      ((k ≤ i + b.ku ∧ i ≤ k + b.kl) → b.mem (b.cell i k) = b.get i k) := by
  refine ⟨bandVRecord_eq b gr x ans, fun i k hi => ⟨band_range_iff hi k, fun h => ?_⟩⟩
  unfold Band.get
  rw [if_neg (by omega)]

/-- **the differential of the defining sum.**  In any commutative ring, perturbing the factors of `Σₖ aₖ·bₖ` by
    `ε·da`, `ε·db` changes the sum by `ε·Σₖ (bₖ·daₖ + aₖ·dbₖ)` plus a term in `ε²`: the first-order coefficient — the
    differential — is the linear form with the coefficients `bₖ` on `daₖ` and `aₖ` on `dbₖ`. -/
theorem C15_defining_sum_differential (a b da db : Nat → α) (e : α) (n : Nat) :
    sumTo (fun k => (a k + e * da k) * (b k + e * db k)) n =
      sumTo (fun k => a k * b k) n + e * sumTo (fun k => b k * da k + a k * db k) n + e * e * sumTo (fun k => da k * db k) n :=
  sumTo_product_rule a b da db e n

/-- **a dense statement denotes that differential.**  For any assignment `d` of differentials to gradient indices the
    statement recorded for `(i,j)` (closed form of `C15_tape_mm`) evaluates to
    `Σₖ R[k,j]·d(gidx L[i,k]) + L[i,k]·d(gidx R[k,j])`, the terms of a passive operand dropped. -/
theorem C15_stmt_differential_mm (gl gr : Grad) (L Rm : Mat α) (ans : View2) (i j : Nat) (d : Ptr → α) :
    (({ lhs := ⟨.C, ans.addr i j⟩,
        ops := (if gl.act then (List.range Rm.v.d0).map (fun (k : Nat) => (Rm.get k j, gl.idx (L.v.addr i k))) else []) ++
               (if gr.act then (List.range Rm.v.d0).map (fun (k : Nat) => (L.get i k, gr.idx (Rm.v.addr k j))) else []) } : Stmt α).diff d) =
      sumTo (fun k => (if gl.act then Rm.get k j * d (gl.idx (L.v.addr i k)) else 0) +
                      (if gr.act then L.get i k * d (gr.idx (Rm.v.addr k j)) else 0)) Rm.v.d0 :=
  gemm_stmt_diff gl gr L Rm i j d

/-- **a band statement denotes the differential over ALL columns.**  The statement of row `i < dim` evaluates to
    `Σ_{k<dim} B[i,k]·d(gidx x[k])`: the columns it omits are exactly those where `B[i,k]` is structurally zero. -/
theorem C15_stmt_differential_band (b : Band α) (gr : Grad) (x : Vec α) (ans : View1) {i : Nat} (hi : i < b.dim) (d : Ptr → α) :
    (({ lhs := ⟨.C, ans.addr i⟩,
        ops := (List.range (bandJEnd b.ku b.dim i - bandJStart b.kl i)).map (fun (l : Nat) =>
                 (b.mem (b.cell i (bandJStart b.kl i + l)), gr.idx (x.v.addr (bandJStart b.kl i + l)))) } : Stmt α).diff d) =
      sumTo (fun k => b.get i k * d (gr.idx (x.v.addr k))) b.dim :=
  band_stmt_diff b gr x hi d

/-- **active_derivative (matrix · matrix), end to end.**  Run the tangent-linear sweep (`fwd`, what
    `Stack::compute_tangent_linear` does) over EVERYTHING `matmul_(Array<2>,Array<2>)` records — the element-wise copy
    statements of an operand that is strided in both directions (left, right or both; their gradient blocks `T`
    allocated one after the other from `T+t`) followed by the statements of the result elements — starting from any
    differentials `d`: the gradient index of result element `(i,j)` ends up holding
    `Σₖ R[k,j]·d(gidx L[i,k]) + L[i,k]·d(gidx R[k,j])` with `gidx` of the operands AS PASSED, for all extents, all offsets
    and every activity pattern with at least one active operand.  `GradOutside g A t`: the operand's gradient indices are
    not result indices and, if they are `T` indices (an operand converted by `promote_array`), lie below `t`; operands
    whose gradients live in the caller's blocks `L`, `R` satisfy it for every `t` (`C15_operand_gradients_outside`). -/
theorem C15_active_derivative_mm {pw : Nat} (hpw : 1 ≤ pw) (gl gr : Grad) (t : Int) (L Rm : Mat α)
    (hgl : GradOutside gl L t) (hgr : GradOutside gr Rm t)
    (hact : (gl.act || gr.act) = true) (hkk : L.v.d1 = Rm.v.d0) (d : Ptr → α) {i j : Nat} (hi : i < L.v.d0) (hj : j < Rm.v.d1) :
    fwd (matmulMMTape pw gl gr t L Rm) d ⟨.C, (gemmDense pw (prep pw L) (prep pw Rm)).ans.v.addr i j⟩ =
      sumTo (fun k => (if gl.act then Rm.get k j * d (gl.idx (L.v.addr i k)) else 0) +
                      (if gr.act then L.get i k * d (gr.idx (Rm.v.addr k j)) else 0)) L.v.d1 :=
  matmulMMTape_fwd hpw gl gr t L Rm hgl hgr hact hkk d hi hj

/-- **active_derivative (matrix · vector), end to end**, the copy of a doubly strided matrix and the gradient indices of
    the abandoned outer result array included; any stride of the vector (negative: the multipliers are read from
    `const_data()`, not from the BLAS start pointer). -/
theorem C15_active_derivative_mv {pw : Nat} (hpw : 1 ≤ pw) (gl gr : Grad) (t : Int) (L : Mat α) (x : Vec α)
    (hgl : GradOutside gl L t) (hgr : GradOutsideV gr x t)
    (hact : (gl.act || gr.act) = true) (hkk : L.v.d1 = x.v.d) (d : Ptr → α) {i : Nat} (hi : i < L.v.d0) :
    fwd (matmulMVTape pw gl gr t L x) d ⟨.C, (gemvDense (prep pw L) x).ans.v.addr i⟩ =
      sumTo (fun k => (if gl.act then x.get k * d (gl.idx (L.v.addr i k)) else 0) +
                      (if gr.act then L.get i k * d (gr.idx (x.v.addr k)) else 0)) L.v.d1 :=
  matmulMVTape_fwd hpw gl gr t L x hgl hgr hact hkk d hi

/-- **active_derivative (vector · matrix), end to end.** -/
theorem C15_active_derivative_vm {pw : Nat} (hpw : 1 ≤ pw) (gl gr : Grad) (t : Int) (x : Vec α) (Rm : Mat α)
    (hgl : GradOutsideV gl x t) (hgr : GradOutside gr Rm t)
    (hact : (gl.act || gr.act) = true) (hkk : x.v.d = Rm.v.d0) (d : Ptr → α) {j : Nat} (hj : j < Rm.v.d1) :
    fwd (matmulVMTape pw gl gr t x Rm) d ⟨.C, (gemvDense (prep pw Rm.T) x).ans.v.addr j⟩ =
      sumTo (fun k => (if gl.act then Rm.get k j * d (gl.idx (x.v.addr k)) else 0) +
                      (if gr.act then x.get k * d (gr.idx (Rm.v.addr k j)) else 0)) Rm.v.d0 :=
  matmulVMTape_fwd hpw gl gr t x Rm hgl hgr hact hkk d hj

/-- **active_derivative (band · active vector and active vector · band), end to end**: for every `(dim, LDiags, UDiags)`,
    both storage orders and any stride of the vector the sweep leaves `Σ_{k<dim} B[i,k]·d(gidx x[k])` in the gradient
    index of result element `i`, resp. `Σ_{k<dim} B[k,i]·d(gidx x[k])` for the vector · band form, which matmul.h records
    through the transposed description of the band matrix (other storage order, `LDiags` and `UDiags` exchanged). -/
theorem C15_active_derivative_band (b : Band α) (g : Grad) (hg : g.blk ≠ .C) (x : Vec α) (hact : g.act = true)
    (hd : b.dim = x.v.d) (d : Ptr → α) {i : Nat} (hi : i < b.dim) :
    fwd (matmulBandVTape b g x) d ⟨.C, (bandVCore b x).ans.v.addr i⟩ = sumTo (fun k => b.get i k * d (g.idx (x.v.addr k))) b.dim ∧
    fwd (matmulVBandTape g x b) d ⟨.C, (bandVCore b.T x).ans.v.addr i⟩ = sumTo (fun k => b.get k i * d (g.idx (x.v.addr k))) b.dim :=
  ⟨matmulBandVTape_fwd b g hg x hact hd d hi, matmulVBandTape_fwd b g hg x hact hd d hi⟩

/-- **operands of the caller.**  An operand whose gradient block is the left or the right parent's satisfies the
    hypothesis of the `active_derivative` theorems for every `t`. -/
theorem C15_operand_gradients_outside {g : Grad} (hg : g.blk = .L ∨ g.blk = .R) (A : Mat α) (x : Vec α) (t : Int) :
    GradOutside g A t ∧ GradOutsideV g x t :=
  ⟨GradOutside.of_operand hg A t, GradOutsideV.of_operand hg x t⟩

/-- **conversion statements (`promote_array`, copies).**  The element-wise evaluation of an active expression, special
    matrix or doubly strided array into a fresh packed `d0 × d1` array with gradient block `T+t …` (`convRecord`: one
    statement per element, operations `src i k`, which do not read what the conversion assigns): after the sweep the
    gradient index of element `(i,k)` holds `Σ src i k` and nothing outside `T ∩ [t, t + offset(0)·d0)` has changed. -/
theorem C15_conversion_statements {pw : Nat} (hpw : 1 ≤ pw) (d0 d1 : Nat) (t : Int) (src : Nat → Nat → List (α × Ptr))
    (hsrc : ∀ i k, i < d0 → k < d1 → ∀ op ∈ src i k, op.2.buf ≠ .T ∨ op.2.off < t) (d : Ptr → α) :
    (∀ p : Ptr, (p.buf ≠ .T ∨ p.off < t ∨ t + (packRowMajor pw d0 d1).o0 * (d0 : Int) ≤ p.off) →
        fwd (convRecord (packRowMajor pw d0 d1) t d0 d1 src) d p = d p) ∧
    (∀ i k, i < d0 → k < d1 →
        fwd (convRecord (packRowMajor pw d0 d1) t d0 d1 src) d ⟨.T, t + (packRowMajor pw d0 d1).addr i k⟩ =
          (src i k).foldr (fun p acc => p.1 * d p.2 + acc) 0) :=
  convRecord_spec hpw d0 d1 t src hsrc d

/-- **active_derivative through a conversion.**  An ACTIVE left operand that `promote_array` evaluated element-wise into
    the fresh array `X` (values `lval`, statements `src`: `[(2, gidx A[i,k])]` for `2.0*A`, `[(1,·),(1,·)]` for `A+A`,
    `[(1, gidx S[i,k])]` resp. `[]` for a stored resp. structurally zero element of a special matrix) times any dense
    matrix: the sweep over the conversion statements followed by everything the product records leaves
    `Σₖ R[k,j]·(Σ src i k) + X[i,k]·d(gidx R[k,j])` — the differentials flow through the conversion whatever its
    operations are.  (The other forms follow in the same way from `C15_conversion_statements` and the
    `active_derivative` theorems, whose hypotheses allow converted operands.) -/
theorem C15_active_derivative_promoted_mm {pw : Nat} (hpw : 1 ≤ pw) (d0 d1 : Nat) (lval : Nat → Nat → α)
    (src : Nat → Nat → List (α × Ptr)) (hsrc : ∀ i k, i < d0 → k < d1 → ∀ op ∈ src i k, op.2.buf ≠ .T ∨ op.2.off < 0)
    (gr : Grad) (hgr : gr.blk = .L ∨ gr.blk = .R) (Rm : Mat α) (hkk : d1 = Rm.v.d0) (d : Ptr → α)
    {i j : Nat} (hi : i < d0) (hj : j < Rm.v.d1) :
    fwd (convRecord (packRowMajor pw d0 d1) 0 d0 d1 src ++
         matmulMMTape pw ⟨true, .T, 0⟩ gr ((packRowMajor pw d0 d1).o0 * (d0 : Int)) (freshMat pw d0 d1 lval) Rm) d
        ⟨.C, (gemmDense pw (prep pw (freshMat pw d0 d1 lval)) (prep pw Rm)).ans.v.addr i j⟩ =
      sumTo (fun k => Rm.get k j * (src i k).foldr (fun p acc => p.1 * d p.2 + acc) 0 +
                      (if gr.act then lval i k * d (gr.idx (Rm.v.addr k j)) else 0)) d1 :=
  promotedMM_fwd hpw d0 d1 lval src hsrc gr hgr Rm hkk d hi hj

/-! ## non-vacuity

The hypotheses are met by ordinary operands; two concrete instances over `Int` in which the model is evaluated:
the witness of F-13 (`A ** v(stride(2,0,-1))`, reversed part of a longer vector) and of F-14
(`A(stride(2,0,-1),__).T() ** v`).  The results are the true products. -/

private def memA : Int → Int := fun p => [1, 2, 3, 4, 5, 6, 7, 8, 10].getD p.toNat 0
private def memBig : Int → Int := fun p => [-9, -9, 1, 10, 100, -7, -7].getD p.toNat 0
private def memV : Int → Int := fun p => [1, 10, 100].getD p.toNat 0

example :
    (match matmulMV 2 { v := { base := 0, d0 := 3, d1 := 3, o0 := 3, o1 := 1 }, mem := memA, buf := .L }
                      { v := { base := 4, d := 3, o := -1 }, mem := memBig, buf := .R } with
     | .ok o => [o.ans.get 0, o.ans.get 1, o.ans.get 2] | .error _ => []) = [123, 456, 790] := by decide

example :
    (match matmulMV 2 { v := { base := 6, d0 := 3, d1 := 3, o0 := 1, o1 := -3 }, mem := memA, buf := .L }
                      { v := { base := 0, d := 3, o := 1 }, mem := memV, buf := .R } with
     | .ok o => [o.ans.get 0, o.ans.get 1, o.ans.get 2] | .error _ => []) = [147, 258, 370] := by decide

/-- an active doubly strided left operand (every second column of a 2×4 row-major array: copied) times an active
    column-major 2×2 matrix: the sweep over copy + product statements leaves `∂C[0,0]/∂L[0,1] = R[1,0] = 2` and
    `∂C[1,1]/∂R[0,1] = L[1,0] = 5` -/
example :
    let Lx : Mat Int := { v := { base := 0, d0 := 2, d1 := 2, o0 := 4, o1 := 2 }, mem := fun p => [1, 2, 3, 4, 5, 6, 7, 8].getD p.toNat 0, buf := .L }
    let Rx : Mat Int := { v := { base := 0, d0 := 2, d1 := 2, o0 := 1, o1 := 2 }, mem := fun p => [1, 2, 3, 4].getD p.toNat 0, buf := .R }
    (matmulMMTape 2 ⟨true, .L, 0⟩ ⟨true, .R, 0⟩ 0 Lx Rx).length = 8 ∧
    fwd (matmulMMTape 2 ⟨true, .L, 0⟩ ⟨true, .R, 0⟩ 0 Lx Rx) (fun p => if p = ⟨.L, 2⟩ then 1 else 0) ⟨.C, 0⟩ = 2 ∧
    fwd (matmulMMTape 2 ⟨true, .L, 0⟩ ⟨true, .R, 0⟩ 0 Lx Rx) (fun p => if p = ⟨.R, 2⟩ then 1 else 0) ⟨.C, 3⟩ = 5 := by decide

/-- the active expression `2.0*A` (A row-major 1×2 with the cells `[3, 4]`) times a passive 2×1 matrix `[5, 6]ᵀ`: conversion
    statements `T+k = 2·L+k`, then `C+0 = 5·T+0 + 6·T+1`; `∂C[0,0]/∂A[0,1] = 2·6 = 12` -/
example :
    let Rx : Mat Int := { v := { base := 0, d0 := 2, d1 := 1, o0 := 1, o1 := 1 }, mem := fun p => [5, 6].getD p.toNat 0, buf := .R }
    fwd (convRecord (packRowMajor 2 1 2) 0 1 2 (fun _ k => [((2 : Int), (⟨.L, (k : Int)⟩ : Ptr))]) ++
         matmulMMTape 2 ⟨true, .T, 0⟩ ⟨false, .R, 0⟩ 2 (freshMat 2 1 2 (fun _ k => 2 * [3, 4].getD k 0)) Rx)
      (fun p => if p = ⟨.L, 1⟩ then 1 else 0) ⟨.C, 0⟩ = 12 := by decide

/-- a passive row-major band matrix with one sub- and two super-diagonals times a reversed active vector: row 2 of the
    3×3 matrix has the in-band columns 1, 2 only -/
example :
    let bx : Band Int := { base := 0, rowMajor := true, kl := 1, ku := 2, dim := 3, off := 3, mem := fun p => [1, 2, 3, 4, 5, 6, 7, 8, 9].getD p.toNat 0, buf := .L }
    let xx : Vec Int := { v := { base := 2, d := 3, o := -1 }, mem := fun p => [5, 6, 7].getD p.toNat 0, buf := .R }
    ((matmulBandVTape bx ⟨true, .R, 0⟩ xx).map (fun s => s.ops.length)) = [3, 3, 2] ∧
    fwd (matmulBandVTape bx ⟨true, .R, 0⟩ xx) (fun p => if p = ⟨.R, 0⟩ then 1 else 0) ⟨.C, 2⟩ = 9 := by decide

/-! ## note on the unrepaired tree

As pinned, `is_column_contiguous` ignored `offset[1]` and vectors were always passed through `const_data()`, so the
dense path theorems held only for `…_partial` versions assuming all strides positive, and `C15_gbmv_path` only for
`LDiags = UDiags`.  `AdeptProofs/Refute/Matmul.lean` keeps machine-checked witnesses of the three old defects
(F-13, F-14, F-26) against the BLAS contract. -/

end Adept.Matmul
