import AdeptProofs.Lemmas.Matmul
/-!
# C15 — matrix multiplication returns the true product for every operand form

Property theorems only; helper lemmas live in `AdeptProofs/Lemmas/Matmul.lean`.  All statements are about
`AdeptModel/Matmul.lean` (the transcription of `include/adept/matmul.h` and `adept/cppblas.cpp`, with the
repairs F-13, F-14, F-26) on top of `AdeptModel/Blas.lean` (the BLAS contract transcribed from the Netlib
reference); the correspondence check (checks/c15.py) ties the model to the C++ on every run by comparing the
logged Fortran arguments, the touched index ranges and the results of a spy BLAS with the model's.

Conventions: `A.get i k` is the cell `A.mem (addr A.v i k)`, `addr v i k = base + i·o0 + k·o1`; `sumTo f n = Σ_{l<n} f l`.
The theorems hold over every commutative ring, for all extents ≥ 1 and — after the repairs — for ALL strides of the
matrix operands (positive, negative, zero, overlapping): an operand that is neither row- nor column-contiguous is
copied.  The only layout hypotheses left are those BLAS itself imposes on what matmul.h passes through unchanged:
a vector increment must be non-zero, the offset of a symmetric matrix at least its dimension and the offset of a
band matrix at least `LDiags + UDiags` (true of every matrix `resize` or `submatrix_on_diagonal` can produce).

Before the repairs the dense paths needed "all strides positive" (`…_partial`), see the note at the end of this
file and `AdeptProofs/Refute/Matmul.lean`.

Not proved here (correspondence and oracle only): `reads_within` for the band · matrix form (it is proved for the
band · vector call, of which the matrix form issues one per column), the derivative statements of the
band · active-vector path (not modelled), and the conversions `promote_array` performs before `matmul_` is entered
(expressions, active or square / triangular special matrices, fixed arrays: Driver/Matmul.lean).
-/
namespace Adept.Matmul
open Adept.Blas

variable {α : Type} [CommRing α]

/-! ## dense operands -/

/-- **gemm_path.**  `matmul(L,R)[i,j] = Σₖ L[i,k]·R[k,j]` for dense matrices of any layout: row-contiguous,
    column-contiguous or strided in both directions (then copied), in every combination; the ?GEMM call is
    accepted (no illegal leading dimension) and the result has the extents of the product. -/
theorem C15_gemm_path {pw : Nat} (hpw : 1 ≤ pw) (L Rm : Mat α)
    (hm : 1 ≤ L.v.d0) (hk : 1 ≤ L.v.d1) (hn : 1 ≤ Rm.v.d1) (hkk : L.v.d1 = Rm.v.d0) :
    ∃ o, matmulMM pw L Rm = .ok o ∧ gemmInfo o.call.args = 0 ∧
      o.ans.v.d0 = L.v.d0 ∧ o.ans.v.d1 = Rm.v.d1 ∧
      ∀ i j, i < L.v.d0 → j < Rm.v.d1 → o.ans.get i j = sumTo (fun k => L.get i k * Rm.get k j) L.v.d1 := by
  refine ⟨gemmDense pw (prep pw L) (prep pw Rm), ?_, ?_, prep_d0 pw L, prep_d1 pw Rm, ?_⟩
  · unfold matmulMM
    rw [if_neg (by omega), if_neg (by omega)]
  · exact gemmDense_info hpw _ _ (prep_contig hpw L) (prep_contig hpw Rm) (by rw [prep_d0]; exact hm) (by rw [prep_d1]; exact hk)
      (by rw [prep_d1]; exact hn) (by rw [prep_d1, prep_d0]; exact hkk)
  · intro i j hi hj
    have h := gemmDense_get hpw (prep pw L) (prep pw Rm) (prep_contig hpw L) (prep_contig hpw Rm) (by rw [prep_d0]; exact hm)
      (by rw [prep_d1]; exact hk) (by rw [prep_d1]; exact hn) (by rw [prep_d1, prep_d0]; exact hkk)
      (i := i) (j := j) (by rw [prep_d0]; exact hi) (by rw [prep_d1]; exact hj)
    rw [h, prep_d1]
    apply sumTo_congr
    intro l hl
    rw [prep_get hpw L hi hl, prep_get hpw Rm (by omega) hj]

/-- **gemm reads_within.**  Every index ?GEMM reads lies at an element address of the array it was handed, and
    that array is the caller's operand itself or the fresh temporary that holds a copy of it. -/
theorem C15_gemm_reads_within {pw : Nat} (hpw : 1 ≤ pw) (L Rm : Mat α) (hm : 1 ≤ L.v.d0) (hk : 1 ≤ L.v.d1) (hkk : L.v.d1 = Rm.v.d0) :
    ∃ o, matmulMM pw L Rm = .ok o ∧
      (o.l = L ∨ o.l = copyMat pw L) ∧ (o.r = Rm ∨ o.r = copyMat pw Rm) ∧
      (∀ p ∈ gemmReadA o.call.args, ∃ l j, l < o.r.v.d0 ∧ j < o.r.v.d1 ∧ o.call.pa.off + p = o.r.v.addr l j) ∧
      (∀ p ∈ gemmReadB o.call.args, ∃ i l, i < o.l.v.d0 ∧ l < o.l.v.d1 ∧ o.call.pb.off + p = o.l.v.addr i l) ∧
      o.call.pa.buf = o.r.buf ∧ o.call.pb.buf = o.l.buf := by
  refine ⟨gemmDense pw (prep pw L) (prep pw Rm), ?_, prep_cases pw L, prep_cases pw Rm, ?_, ?_, ?_, ?_⟩
  · unfold matmulMM
    rw [if_neg (by omega), if_neg (by omega)]
  · exact (gemmDense_reads hpw _ _ (prep_contig hpw L) (prep_contig hpw Rm) (by rw [prep_d1, prep_d0]; exact hkk)).1
  · exact (gemmDense_reads hpw _ _ (prep_contig hpw L) (prep_contig hpw Rm) (by rw [prep_d1, prep_d0]; exact hkk)).2
  · rw [(gemmDense_call hpw _ _).2.2.2.1]; rfl
  · rw [(gemmDense_call hpw _ _).2.2.2.2]; rfl

/-- **gemv_path.**  `matmul(L,x)[i] = Σₖ L[i,k]·x[k]` for a dense matrix of any layout and a vector with any
    non-zero stride, negative strides included (F-13). -/
theorem C15_gemv_path {pw : Nat} (hpw : 1 ≤ pw) (L : Mat α) (x : Vec α)
    (hm : 1 ≤ L.v.d0) (hk : 1 ≤ L.v.d1) (hkk : L.v.d1 = x.v.d) (hx : x.v.o ≠ 0) :
    ∃ o, matmulMV pw L x = .ok o ∧ gemvInfo o.call.args = 0 ∧ o.ans.v.d = L.v.d0 ∧
      ∀ i, i < L.v.d0 → o.ans.get i = sumTo (fun k => L.get i k * x.get k) L.v.d1 := by
  refine ⟨gemvDense (prep pw L) x, ?_, ?_, ?_, ?_⟩
  · unfold matmulMV
    rw [if_neg (by omega), if_neg (by omega)]
  · exact gemvDense_info _ x (prep_contig hpw L) (by rw [prep_d0]; exact hm) (by rw [prep_d1]; exact hk) hx
  · show (prep pw L).v.d0 = _
    exact prep_d0 pw L
  · intro i hi
    have h := gemvDense_get (prep pw L) x (prep_contig hpw L) (by rw [prep_d0]; exact hm) (by rw [prep_d1]; exact hk)
      (by rw [prep_d1]; exact hkk) hx (i := i) (by rw [prep_d0]; exact hi)
    rw [h, prep_d1]
    apply sumTo_congr
    intro l hl
    rw [prep_get hpw L hi hl]

/-- **vector · matrix.**  `matmul(x,R)[j] = Σₖ x[k]·R[k,j]` (evaluated as `matmul(R.T(), x)`). -/
theorem C15_vecmat_path {pw : Nat} (hpw : 1 ≤ pw) (x : Vec α) (Rm : Mat α)
    (hk : 1 ≤ Rm.v.d0) (hn : 1 ≤ Rm.v.d1) (hkk : x.v.d = Rm.v.d0) (hx : x.v.o ≠ 0) :
    ∃ o, matmulVM pw x Rm = .ok o ∧ gemvInfo o.call.args = 0 ∧ o.ans.v.d = Rm.v.d1 ∧
      ∀ j, j < Rm.v.d1 → o.ans.get j = sumTo (fun k => x.get k * Rm.get k j) Rm.v.d0 := by
  obtain ⟨o, h1, h2, h3, h4⟩ := C15_gemv_path hpw Rm.T x (by exact hn) (by exact hk) (by exact hkk.symm) hx
  refine ⟨o, h1, h2, h3, ?_⟩
  intro j hj
  rw [h4 j hj]
  show sumTo _ Rm.v.d0 = _
  apply sumTo_congr
  intro l _
  rw [Mat.T_get, mul_comm]

/-- **gemv reads_within.**  ?GEMV reads only elements of the matrix it was handed (the operand or its copy) and
    only elements of the vector: with a negative increment the pointer is moved to the lowest address first. -/
theorem C15_gemv_reads_within {pw : Nat} (hpw : 1 ≤ pw) (L : Mat α) (x : Vec α)
    (hm : 1 ≤ L.v.d0) (hk : 1 ≤ L.v.d1) (hkk : L.v.d1 = x.v.d) :
    ∃ o, matmulMV pw L x = .ok o ∧ (o.l = L ∨ o.l = copyMat pw L) ∧
      (∀ p ∈ gemvReadA o.call.args, ∃ i l, i < o.l.v.d0 ∧ l < o.l.v.d1 ∧ o.call.pa.off + p = o.l.v.addr i l) ∧
      (∀ p ∈ gemvReadX o.call.args, ∃ l, l < x.v.d ∧ o.call.px.off + p = x.v.addr l) ∧
      o.call.pa.buf = o.l.buf ∧ o.call.px.buf = x.buf := by
  refine ⟨gemvDense (prep pw L) x, ?_, prep_cases pw L, ?_, ?_, ?_, ?_⟩
  · unfold matmulMV
    rw [if_neg (by omega), if_neg (by omega)]
  · exact (gemvDense_reads _ x (prep_contig hpw L) (by rw [prep_d1]; exact hkk)).1
  · exact (gemvDense_reads _ x (prep_contig hpw L) (by rw [prep_d1]; exact hkk)).2
  · rw [(gemvDense_call _ x).2.2.2.1]; rfl
  · rw [(gemvDense_call _ x).2.2.2.2]

/-- **copies are faithful.**  The array handed to BLAS has the extents and the element values of the operand and is
    row- or column-contiguous, whatever the operand's strides. -/
theorem C15_prepared_operand {pw : Nat} (hpw : 1 ≤ pw) (A : Mat α) :
    (prep pw A).v.d0 = A.v.d0 ∧ (prep pw A).v.d1 = A.v.d1 ∧
    (isRowContig (prep pw A).v = true ∨ isColContig (prep pw A).v = true) ∧
    ∀ i k, i < A.v.d0 → k < A.v.d1 → (prep pw A).get i k = A.get i k :=
  ⟨prep_d0 pw A, prep_d1 pw A, prep_contig hpw A, fun _ _ hi hk => prep_get hpw A hi hk⟩

/-! ## errors -/

/-- **errors (matrix · matrix).**  An empty operand raises `empty_array` — also when the inner extents disagree
    as well — and otherwise mismatched inner extents raise `inner_dimension_mismatch`. -/
theorem C15_errors_mm (pw : Nat) (L Rm : Mat α) :
    ((L.v.d0 = 0 ∨ Rm.v.d0 = 0) → matmulMM pw L Rm = .error .emptyArray) ∧
    (L.v.d0 ≠ 0 → Rm.v.d0 ≠ 0 → L.v.d1 ≠ Rm.v.d0 → matmulMM pw L Rm = .error .innerDimensionMismatch) := by
  constructor
  · intro h; unfold matmulMM; rw [if_pos h]
  · intro h1 h2 h3; unfold matmulMM; rw [if_neg (by omega), if_pos h3]

/-- **errors (matrix · vector, vector · matrix).** -/
theorem C15_errors_mv (pw : Nat) (L : Mat α) (x : Vec α) :
    ((L.v.d0 = 0 ∨ x.v.d = 0) → matmulMV pw L x = .error .emptyArray) ∧
    (L.v.d0 ≠ 0 → x.v.d ≠ 0 → L.v.d1 ≠ x.v.d → matmulMV pw L x = .error .innerDimensionMismatch) ∧
    ((L.v.d1 = 0 ∨ x.v.d = 0) → matmulVM pw x L = .error .emptyArray) ∧
    (L.v.d1 ≠ 0 → x.v.d ≠ 0 → L.v.d0 ≠ x.v.d → matmulVM pw x L = .error .innerDimensionMismatch) := by
  refine ⟨?_, ?_, ?_, ?_⟩
  · intro h; unfold matmulMV; rw [if_pos h]
  · intro h1 h2 h3; unfold matmulMV; rw [if_neg (by omega), if_pos h3]
  · intro h; unfold matmulVM matmulMV; rw [if_pos (show L.T.v.d0 = 0 ∨ x.v.d = 0 from h)]
  · intro h1 h2 h3; unfold matmulVM matmulMV
    rw [if_neg (show ¬ (L.T.v.d0 = 0 ∨ x.v.d = 0) by show ¬ (L.v.d1 = 0 ∨ x.v.d = 0); omega),
      if_pos (show L.T.v.d1 ≠ x.v.d from h3)]

/-- **errors (special matrices).**  Same order for symmetric and band operands (`check_inner_dimensions_sqr`);
    the combinations matmul.h does not implement are refused with `invalid_operation` only after these checks. -/
theorem C15_errors_special (pw : Nat) (lAct rAct : Bool) (s : Symm α) (b : Band α) (x : Vec α) (Rm : Mat α) :
    ((s.dim = 0 ∨ x.v.d = 0) → matmulSymV lAct rAct s x = .error .emptyArray) ∧
    (s.dim ≠ 0 → x.v.d ≠ 0 → s.dim ≠ x.v.d → matmulSymV lAct rAct s x = .error .innerDimensionMismatch) ∧
    ((s.dim = 0 ∨ Rm.v.d0 = 0) → matmulSymM pw lAct rAct s Rm = .error .emptyArray) ∧
    (s.dim ≠ 0 → Rm.v.d0 ≠ 0 → s.dim ≠ Rm.v.d0 → matmulSymM pw lAct rAct s Rm = .error .innerDimensionMismatch) ∧
    ((b.dim = 0 ∨ x.v.d = 0) → matmulBandV lAct b x = .error .emptyArray) ∧
    (b.dim ≠ 0 → x.v.d ≠ 0 → b.dim ≠ x.v.d → matmulBandV lAct b x = .error .innerDimensionMismatch) ∧
    ((b.dim = 0 ∨ Rm.v.d0 = 0) → matmulBandM pw lAct rAct b Rm = .error .emptyArray) ∧
    (b.dim ≠ 0 → Rm.v.d0 ≠ 0 → b.dim ≠ Rm.v.d0 → matmulBandM pw lAct rAct b Rm = .error .innerDimensionMismatch) := by
  refine ⟨?_, ?_, ?_, ?_, ?_, ?_, ?_, ?_⟩
  · intro h; unfold matmulSymV; rw [if_pos h]
  · intro h1 h2 h3; unfold matmulSymV; rw [if_neg (by omega), if_pos h3]
  · intro h; unfold matmulSymM; rw [if_pos h]
  · intro h1 h2 h3; unfold matmulSymM; rw [if_neg (by omega), if_pos h3]
  · intro h; unfold matmulBandV; rw [if_pos h]
  · intro h1 h2 h3; unfold matmulBandV; rw [if_neg (by omega), if_pos h3]
  · intro h; unfold matmulBandM; rw [if_pos h]
  · intro h1 h2 h3; unfold matmulBandM; rw [if_neg (by omega), if_pos h3]

/-! ## symmetric matrices -/

/-- **symv_path.**  `matmul(S,x)[i] = Σₖ S[i,k]·x[k]` for both orientations of a passive symmetric matrix, where
    `S[i,k]` is the cell `SymmEngine::index(i,k)` (so only the stored triangle is involved). -/
theorem C15_symv_path (s : Symm α) (x : Vec α) (hn : 1 ≤ s.dim) (hd : s.dim = x.v.d)
    (hoff : (s.dim : Int) ≤ s.off) (hx : x.v.o ≠ 0) :
    ∃ o, matmulSymV false false s x = .ok o ∧ symvInfo o.call.args = 0 ∧ o.ans.v.d = s.dim ∧
      ∀ i, i < s.dim → o.ans.get i = sumTo (fun k => s.get i k * x.get k) s.dim := by
  refine ⟨symvCore s x, ?_, symvCore_info s x hd hn hoff hx, hd.symm, fun i hi => symvCore_get s x hd hn hoff hx hi⟩
  unfold matmulSymV
  rw [if_neg (by omega), if_neg (by omega), if_neg (by simp)]

/-- **vector · symmetric.**  `matmul(x,S)[j] = Σₖ x[k]·S[k,j]`. -/
theorem C15_vecsym_path (s : Symm α) (x : Vec α) (hn : 1 ≤ s.dim) (hd : s.dim = x.v.d)
    (hoff : (s.dim : Int) ≤ s.off) (hx : x.v.o ≠ 0) :
    ∃ o, matmulVSym false false x s = .ok o ∧ symvInfo o.call.args = 0 ∧
      ∀ j, j < s.dim → o.ans.get j = sumTo (fun k => x.get k * s.get k j) s.dim := by
  obtain ⟨o, h1, h2, -, h4⟩ := C15_symv_path s x hn hd hoff hx
  refine ⟨o, h1, h2, ?_⟩
  intro j hj
  rw [h4 j hj]
  apply sumTo_congr
  intro l _
  rw [Symm.get_comm, mul_comm]

/-- **symm_path.**  `matmul(S,R)[i,j] = Σₖ S[i,k]·R[k,j]` for a passive symmetric matrix and a dense matrix of any
    layout (row-contiguous: row-major ?SYMM rewritten to SIDE = R; column-contiguous: SIDE = L; otherwise copied). -/
theorem C15_symm_path {pw : Nat} (hpw : 1 ≤ pw) (s : Symm α) (Rm : Mat α) (hn : 1 ≤ s.dim) (hc : 1 ≤ Rm.v.d1)
    (hd : s.dim = Rm.v.d0) (hoff : (s.dim : Int) ≤ s.off) :
    ∃ o, matmulSymM pw false false s Rm = .ok o ∧ symmInfo o.call.args = 0 ∧
      ∀ i j, i < s.dim → j < Rm.v.d1 → o.ans.get i j = sumTo (fun k => s.get i k * Rm.get k j) s.dim := by
  have hd' : s.dim = (prep pw Rm).v.d0 := by rw [prep_d0]; exact hd
  have hc' : 1 ≤ (prep pw Rm).v.d1 := by rw [prep_d1]; exact hc
  refine ⟨symmCore pw s (prep pw Rm), ?_, symmCore_info hpw s _ (prep_contig hpw Rm) hd' hn hc' hoff, ?_⟩
  · unfold matmulSymM
    rw [if_neg (by omega), if_neg (by omega), if_neg (by simp)]
  · intro i j hi hj
    rw [symmCore_get hpw s _ (prep_contig hpw Rm) hd' hn hc' hoff hi (by rw [prep_d1]; exact hj)]
    apply sumTo_congr
    intro l hl
    rw [prep_get hpw Rm (by omega) hj]

/-- **matrix · symmetric.**  `matmul(L,S)[i,j] = Σₖ L[i,k]·S[k,j]` (evaluated as `matmul(S, L.T()).T()`). -/
theorem C15_matsym_path {pw : Nat} (hpw : 1 ≤ pw) (L : Mat α) (s : Symm α) (hn : 1 ≤ s.dim) (hm : 1 ≤ L.v.d0)
    (hd : s.dim = L.v.d1) (hoff : (s.dim : Int) ≤ s.off) :
    ∃ o, matmulMSym pw false false L s = .ok o ∧ symmInfo o.call.args = 0 ∧
      ∀ i j, i < L.v.d0 → j < s.dim → o.ans.get i j = sumTo (fun k => L.get i k * s.get k j) s.dim := by
  obtain ⟨o, h1, h2, h3⟩ := C15_symm_path hpw s L.T hn (by exact hm) (by exact hd) hoff
  refine ⟨{ o with ans := o.ans.T }, ?_, h2, ?_⟩
  · unfold matmulMSym; rw [h1]
  · intro i j hi hj
    show o.ans.T.get i j = _
    rw [Mat.T_get, h3 j i hj (by exact hi)]
    apply sumTo_congr
    intro l _
    rw [Mat.T_get, Symm.get_comm, mul_comm]

/-- **symmetric reads_within.**  ?SYMV / ?SYMM read the symmetric matrix only at cells of elements `(i,j)` of the
    matrix, and the other operand only at its element addresses. -/
theorem C15_sym_reads_within {pw : Nat} (hpw : 1 ≤ pw) (s : Symm α) (x : Vec α) (Rm : Mat α) (hdx : s.dim = x.v.d) (hdr : s.dim = Rm.v.d0) :
    ((∀ p ∈ symvReadA (symvCore s x).call.args, ∃ i j, i < s.dim ∧ j < s.dim ∧ (symvCore s x).call.pa.off + p = s.cell i j) ∧
     (∀ p ∈ symvReadX (symvCore s x).call.args, ∃ l, l < x.v.d ∧ (symvCore s x).call.px.off + p = x.v.addr l)) ∧
    ((∀ p ∈ symmReadA (symmCore pw s (prep pw Rm)).call.args,
        ∃ i j, i < s.dim ∧ j < s.dim ∧ (symmCore pw s (prep pw Rm)).call.pa.off + p = s.cell i j) ∧
     (∀ p ∈ symmReadB (symmCore pw s (prep pw Rm)).call.args,
        ∃ l j, l < (prep pw Rm).v.d0 ∧ j < (prep pw Rm).v.d1 ∧ (symmCore pw s (prep pw Rm)).call.pb.off + p = (prep pw Rm).v.addr l j)) :=
  ⟨symvCore_reads s x hdx, symmCore_reads s _ (prep_contig hpw Rm) (by rw [prep_d0]; exact hdr)⟩

/-! ## band matrices -/

/-- **gbmv_path.**  `matmul(B,x)[i] = Σₖ B[i,k]·x[k]` for a passive band matrix with ANY numbers of sub- and
    super-diagonals in row- or column-major storage (KL/KU exchanged and the matrix transposed in row-major; start
    pointer `ptr − LDiags` resp. `ptr − UDiags`, F-26), `B[i,k]` being zero outside the band and the cell
    `BandEngine::index(i,k)` inside. -/
theorem C15_gbmv_path (b : Band α) (x : Vec α) (hn : 1 ≤ b.dim) (hd : b.dim = x.v.d)
    (hoff : (b.kl : Int) + (b.ku : Int) ≤ b.off) (hx : x.v.o ≠ 0) :
    ∃ o, matmulBandV false b x = .ok o ∧ gbmvInfo o.call.args = 0 ∧ o.ans.v.d = b.dim ∧
      ∀ i, i < b.dim → o.ans.get i = sumTo (fun k => b.get i k * x.get k) b.dim := by
  refine ⟨bandVCore b x, ?_, bandVCore_info b x hoff hx, hd.symm, fun i hi => bandVCore_get b x hd hoff hx hi⟩
  unfold matmulBandV
  rw [if_neg (by omega), if_neg (by omega), if_neg (by simp)]

/-- **vector · band.**  `matmul(x,B)[j] = Σₖ x[k]·B[k,j]` (the band matrix is re-described as its transpose). -/
theorem C15_vecband_path (b : Band α) (x : Vec α) (hn : 1 ≤ b.dim) (hd : b.dim = x.v.d)
    (hoff : (b.kl : Int) + (b.ku : Int) ≤ b.off) (hx : x.v.o ≠ 0) :
    ∃ o, matmulVBand false x b = .ok o ∧ gbmvInfo o.call.args = 0 ∧
      ∀ j, j < b.dim → o.ans.get j = sumTo (fun k => x.get k * b.get k j) b.dim := by
  obtain ⟨o, h1, h2, -, h4⟩ := C15_gbmv_path b.T x (by exact hn) (by exact hd) (by show ((b.ku : Int) + (b.kl : Int) ≤ b.off); omega) hx
  refine ⟨o, h1, h2, ?_⟩
  intro j hj
  rw [h4 j (by exact hj)]
  show sumTo _ b.dim = _
  apply sumTo_congr
  intro l _
  rw [Band.T_get, mul_comm]

/-- **band · matrix.**  `matmul(B,R)[i,j] = Σₖ B[i,k]·R[k,j]`: one ?GBMV per column of `R`, each accepted, each
    writing only its own column of the (row-major, possibly padded) result; `R` may have any strides with a
    non-zero row stride (it is used as the vector increment; negative values included). -/
theorem C15_bandmat_path {pw : Nat} (hpw : 1 ≤ pw) (b : Band α) (Rm : Mat α) (hn : 1 ≤ b.dim) (hc : 1 ≤ Rm.v.d1)
    (hd : b.dim = Rm.v.d0) (hoff : (b.kl : Int) + (b.ku : Int) ≤ b.off) (hx : Rm.v.o0 ≠ 0) :
    ∃ o, matmulBandM pw false false b Rm = .ok o ∧ (∀ c ∈ o.calls, gbmvInfo c.args = 0) ∧ o.calls.length = Rm.v.d1 ∧
      ∀ i j, i < b.dim → j < Rm.v.d1 → o.ans.get i j = sumTo (fun k => b.get i k * Rm.get k j) b.dim := by
  refine ⟨bandMCore pw b Rm, ?_, bandMCore_info hpw b Rm hd hc hoff hx, ?_, fun i j hi hj => bandMCore_get hpw b Rm hd hc hoff hx hi hj⟩
  · unfold matmulBandM
    rw [if_neg (by omega), if_neg (by omega), if_neg (by simp)]
  · show ((List.range Rm.v.d1).map _).length = _
    simp

/-- **matrix · band.**  `matmul(L,B)[i,j] = Σₖ L[i,k]·B[k,j]` (evaluated as `matmul(Bᵀ, L.T()).T()`). -/
theorem C15_matband_path {pw : Nat} (hpw : 1 ≤ pw) (L : Mat α) (b : Band α) (hn : 1 ≤ b.dim) (hm : 1 ≤ L.v.d0)
    (hd : b.dim = L.v.d1) (hoff : (b.kl : Int) + (b.ku : Int) ≤ b.off) (hx : L.v.o1 ≠ 0) :
    ∃ o, matmulMBand pw false false L b = .ok o ∧ (∀ c ∈ o.calls, gbmvInfo c.args = 0) ∧
      ∀ i j, i < L.v.d0 → j < b.dim → o.ans.get i j = sumTo (fun k => L.get i k * b.get k j) b.dim := by
  obtain ⟨o, h1, h2, -, h4⟩ := C15_bandmat_path hpw b.T L.T (by exact hn) (by exact hm) (by exact hd)
    (by show ((b.ku : Int) + (b.kl : Int) ≤ b.off); omega) (by exact hx)
  refine ⟨{ o with ans := o.ans.T }, ?_, h2, ?_⟩
  · unfold matmulMBand; rw [h1]
  · intro i j hi hj
    show o.ans.T.get i j = _
    rw [Mat.T_get, h4 j i (by exact hj) (by exact hi)]
    show sumTo _ b.dim = _
    apply sumTo_congr
    intro l _
    rw [Band.T_get, Mat.T_get, mul_comm]

/-- **gbmv reads_within.**  ?GBMV reads the band matrix only at cells of elements inside the band (never the
    "missing" corners before and after the storage) and the vector only at its elements. -/
theorem C15_gbmv_reads_within (b : Band α) (x : Vec α) (hd : b.dim = x.v.d) :
    (∀ p ∈ gbmvReadA (bandVCore b x).call.args,
        ∃ i j, i < b.dim ∧ j < b.dim ∧ j ≤ i + b.ku ∧ i ≤ j + b.kl ∧ (bandVCore b x).call.pa.off + p = b.cell i j) ∧
    (∀ p ∈ gbmvReadX (bandVCore b x).call.args, ∃ l, l < x.v.d ∧ (bandVCore b x).call.px.off + p = x.v.addr l) :=
  bandVCore_reads b x hd

/-! ## active operands -/

omit [CommRing α] in
/-- **active_product (matrix · matrix).**  The operations pushed for result element `(i,j)` are exactly
    `R[l,j]·d L[i,l]` (if the left operand is active) followed by `L[i,l]·d R[l,j]` (if the right one is), `l`
    over the inner extent: the partial derivatives of the defining sum `Σₗ L[i,l]·R[l,j]`, attached to the
    gradient cells `addr L [i,l]`, `addr R [l,j]`. -/
theorem C15_active_product_mm [Add α] [Mul α] [Zero α] (lAct rAct : Bool) (L Rm : Mat α) (i j : Nat) :
    gemmOps lAct rAct L Rm i j =
      (if lAct then (List.range Rm.v.d0).map (fun l => (Rm.get l j, L.buf, L.v.addr i l)) else []) ++
      (if rAct then (List.range Rm.v.d0).map (fun l => (L.get i l, Rm.buf, Rm.v.addr l j)) else []) :=
  gemmOps_eq lAct rAct L Rm i j

omit [CommRing α] in
/-- **active_product (matrix · vector).** -/
theorem C15_active_product_mv [Add α] [Mul α] [Zero α] (lAct rAct : Bool) (L : Mat α) (x : Vec α) (i : Nat) :
    gemvOps lAct rAct L x i =
      (if lAct then (List.range x.v.d).map (fun l => (x.get l, L.buf, L.v.addr i l)) else []) ++
      (if rAct then (List.range x.v.d).map (fun l => (L.get i l, x.buf, x.v.addr l)) else []) :=
  gemvOps_eq lAct rAct L x i

/-! ## non-vacuity

The hypotheses are met by ordinary operands; two concrete instances over `Int` in which the model is evaluated:
the witness of F-13 (`A ** v(stride(2,0,-1))`, reversed part of a longer vector) and of F-14
(`A(stride(2,0,-1),__).T() ** v`).  The results are the true products. -/

private def memA : Int → Int := fun p => [1, 2, 3, 4, 5, 6, 7, 8, 10].getD p.toNat 0
private def memBig : Int → Int := fun p => [-9, -9, 1, 10, 100, -7, -7].getD p.toNat 0
private def memV : Int → Int := fun p => [1, 10, 100].getD p.toNat 0

example :
    (match matmulMV 2 { v := { base := 0, d0 := 3, d1 := 3, o0 := 3, o1 := 1 }, mem := memA, buf := .L }
                      { v := { base := 4, d := 3, o := -1 }, mem := memBig, buf := .R } with
     | .ok o => [o.ans.get 0, o.ans.get 1, o.ans.get 2] | .error _ => []) = [123, 456, 790] := by decide

example :
    (match matmulMV 2 { v := { base := 6, d0 := 3, d1 := 3, o0 := 1, o1 := -3 }, mem := memA, buf := .L }
                      { v := { base := 0, d := 3, o := 1 }, mem := memV, buf := .R } with
     | .ok o => [o.ans.get 0, o.ans.get 1, o.ans.get 2] | .error _ => []) = [147, 258, 370] := by decide

/-! ## note on the unrepaired tree

As pinned, `is_column_contiguous` ignored `offset[1]` and vectors were always passed through `const_data()`, so the
dense path theorems held only for `…_partial` versions assuming all strides positive, and `C15_gbmv_path` only for
`LDiags = UDiags`.  `AdeptProofs/Refute/Matmul.lean` keeps machine-checked witnesses of the three old defects
(F-13, F-14, F-26) against the BLAS contract. -/

end Adept.Matmul
