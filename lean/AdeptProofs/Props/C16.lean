import AdeptProofs.Lemmas.Solve
import AdeptProofs.Lemmas.LapackInstance
import Mathlib.Algebra.Field.Rat
import Mathlib.Tactic.NormNum
/-!
# C16 — solve and inv satisfy their defining equations (marshalling proved; LAPACK's numerics assumed)

Property theorems only; helper lemmas live in `AdeptProofs/Lemmas/Solve.lean`.
All statements are about `AdeptModel/Solve.lean`, the transcription of `adept/solve.cpp`, `adept/inv.cpp`,
`adept/cpplapack.h` and the overload sets of `include/adept/solve.h`, `include/adept/inv.h`; the correspondence
check (checks/c16.py) ties that model to the C++ on every run (logged LAPACK arguments, exception classes,
operands after the call).

Every theorem is `∀ L, Contract L → …`: `L` is ANY implementation of `?gesv ?sysv ?getrf ?getri ?sytrf ?sytri`
meeting the contract of `AdeptModel/Lapack.lean` (a hypothesis, not an axiom; `AdeptProofs/Lemmas/LapackInstance.lean`
shows that the contract is satisfiable over every field).  The carrier `α` is any type with `0 1 + *` — in
particular every field, `Rat` included: no algebraic law is used, the numerical content is the contract's.
What is NOT proved: that a floating-point LAPACK meets the contract up to the condition-number bound
(observed by checks/c16.py, level "exploration" for that part).

Vocabulary: `Mat`/`Vec`/`Sym` are operands as seen through `operator()` (a view of ANY layout or an expression);
`MatArg`/`VecArg` say which overload the argument selects (`dense`/`obj`: an `Array` object, i.e. any view;
`symm`: a `SymmMatrix` object of either orientation; `expr`: any other expression, e.g. `2.0*A`).
`Heap.Extends h h'`: no buffer that existed in `h` has been written.
-/
set_option linter.unusedSectionVars false
namespace Adept.Solve
open Adept.Lapack

variable {α : Type} [Zero α] [One α] [Add α] [Mul α] (L : Impl α)

/-- `solve(A,b)`, general square `A` (an `Array<2>` of any layout) and vector `b` (any layout): whenever a
    value `x` is returned, `A·x = b`. -/
theorem C16_solve_general (hL : Contract L) (h : Heap α) (A : Mat α) (b : Vec α)
    (hsq : A.rows = A.cols) (hb : b.n = A.rows) (x : Vec α) (hx : (solveGenVec L h A b).res = .ok x) :
    x.n = b.n ∧ ∀ i, i < A.rows → sumTo A.rows (fun j => A.get i j * x.get j) = b.get i :=
  (solveGenVec_spec L hL h A b hsq hb).1 x hx

/-- `solve(A,B)`, general square `A` and a right-hand side with any number of columns, every layout of `A`
    and of `B`: whenever `X` is returned it has the shape of `B` and `A·X = B`. -/
theorem C16_solve_general_multi (hL : Contract L) (h : Heap α) (A B : Mat α)
    (hsq : A.rows = A.cols) (hb : B.rows = A.rows) (X : Mat α) (hX : (solveGenMat L h A B).res = .ok X) :
    X.rows = B.rows ∧ X.cols = B.cols ∧ IsSolution A.rows B.cols A.get X.get B.get :=
  (solveGenMat_spec L hL h A B hsq hb).1 X hX

/-- The orientation ↦ `uplo` lemma, both directions and both orientations.
    Input: the temporary `A_` (offset `n`; only the stored triangle is copied, the other elements are whatever
    the allocation held) read by Fortran as column-major with `uplo = 'U'` for `ROW_LOWER_COL_UPPER` and `'L'`
    for `ROW_UPPER_COL_LOWER` is the operand.  Output: a buffer read back as a `SymmMatrix` of the same
    orientation is the symmetric matrix that `(uplo, lda = n)` denotes. -/
theorem C16_uplo_orientation (S : Sym α) (junk : Buf α) (hsym : ∀ i j, S.get i j = S.get j i) :
    (∀ i j, i < S.n → j < S.n → syMat (uploOf S.orient) S.n (fillSym S junk) i j = S.get i j) ∧
    (∀ (buf : Buf α) i j, (Sym.ofStorage S.orient S.n 0 S.n buf).get i j = syMat (uploOf S.orient) S.n buf i j) :=
  ⟨fun _ _ hi hj => fillSym_syMat S junk hsym hi hj, fun buf i j => ofStorage_syMat S.orient S.n buf i j⟩

/-- a `SymmMatrix` object in storage is symmetric, whatever the storage holds (so `hsym` below is not a
    restriction on operands that are `SymmMatrix` objects) -/
theorem C16_symm_object_symmetric (o : Orient) (n off offset : Nat) (buf : Buf α) (i j : Nat) :
    (Sym.ofStorage o n off offset buf).get i j = (Sym.ofStorage o n off offset buf).get j i :=
  Sym.ofStorage_symm o n off offset buf i j

/-- `solve(S,b)` and `solve(S,B)` for a `SymmMatrix` `S` of EITHER orientation (`S.orient` is universally
    quantified): whenever a value is returned it solves the system with the symmetric matrix `S` stands for.
    The vector form includes its second attempt with `?gesv` (on the original operands, fix F-21). -/
theorem C16_solve_symm (hL : Contract L) (h : Heap α) (S : Sym α) (hsym : ∀ i j, S.get i j = S.get j i) :
    (∀ (b x : Vec α), b.n = S.n → (solveSymVec L h S b).res = .ok x →
        x.n = b.n ∧ ∀ i, i < S.n → sumTo S.n (fun j => S.get i j * x.get j) = b.get i) ∧
    (∀ (B X : Mat α), B.rows = S.n → (solveSymMat L h S B).res = .ok X →
        X.rows = B.rows ∧ X.cols = B.cols ∧ IsSolution S.n B.cols S.get X.get B.get) :=
  ⟨fun b x hb hx => (solveSymVec_spec L hL h S b hsym hb).1 x hx,
   fun B X hb hX => (solveSymMat_spec L hL h S B hsym hb).1 X hX⟩

/-- `solve` through the whole overload set — dense objects of any layout, `SymmMatrix` objects of either
    orientation, arbitrary expressions on either side (which the generic templates first evaluate into dense
    temporaries): a returned value satisfies the defining equation. -/
theorem C16_solve_any_form (hL : Contract L) (h : Heap α) (A : MatArg α) (hwf : A.WF)
    (hsq : A.mat.rows = A.mat.cols) :
    (∀ (b : VecArg α) (x : Vec α), b.vec.n = A.mat.rows → (solveVec L h A b).res = .ok x →
        x.n = b.vec.n ∧ ∀ i, i < A.mat.rows → sumTo A.mat.rows (fun j => A.mat.get i j * x.get j) = b.vec.get i) ∧
    (∀ (B : MatArg α) (X : Mat α), B.mat.rows = A.mat.rows → (solveMat L h A B).res = .ok X →
        X.rows = B.mat.rows ∧ X.cols = B.mat.cols ∧ IsSolution A.mat.rows B.mat.cols A.mat.get X.get B.mat.get) :=
  ⟨fun b x hb hx => (solveVec_spec L hL h A b hwf hsq hb).1 x hx,
   fun B X hb hX => (solveMat_spec L hL h A B hwf hsq hb).1 X hX⟩

/-- `inv(A)` for every square argument form (dense of any layout, `SymmMatrix` of either orientation,
    expression): the returned matrix `R` satisfies `A·R = 1` and `R·A = 1`. -/
theorem C16_inv_left_right (hL : Contract L) (h : Heap α) (A : MatArg α) (hwf : A.WF)
    (hsq : A.mat.rows = A.mat.cols) (R : InvRes α) (hR : (inv L h A).res = .ok R) :
    IsInverse A.mat.rows A.mat.get R.mat.get :=
  (inv_spec L hL h A hwf hsq).1 R hR

/-- The arguments are left unmodified: every entry point of the overload sets works on buffers it has allocated
    itself, so every buffer that existed before the call (the operands' storage included) is what it was — on
    the successful and on the raising paths, whatever LAPACK does (no contract needed) and whatever the operand
    shapes (no hypothesis on dimensions), the symmetric vector form with its second attempt included. -/
theorem C16_args_unmodified (h : Heap α) (A : MatArg α) :
    (∀ b : VecArg α, h.Extends (solveVec L h A b).heap) ∧
    (∀ B : MatArg α, h.Extends (solveMat L h A B).heap) ∧
    h.Extends (inv L h A).heap :=
  ⟨fun b => solveVec_extends L h A b, fun B => solveMat_extends L h A B, inv_extends L h A⟩

/-- An exactly singular matrix raises `matrix_ill_conditioned`: every form of `solve` (the symmetric vector
    form included: with fix F-21 its second attempt sees the original, singular matrix) and of `inv`. -/
theorem C16_singular_raises (hL : Contract L) (h : Heap α) (A : MatArg α) (hwf : A.WF)
    (hsq : A.mat.rows = A.mat.cols) (hs : Singular A.mat.rows A.mat.get) :
    (∀ b : VecArg α, b.vec.n = A.mat.rows → (solveVec L h A b).res = .error .matrix_ill_conditioned) ∧
    (∀ B : MatArg α, B.mat.rows = A.mat.rows → (solveMat L h A B).res = .error .matrix_ill_conditioned) ∧
    (inv L h A).res = .error .matrix_ill_conditioned :=
  ⟨fun b hb => (solveVec_spec L hL h A b hwf hsq hb).2.1 hs,
   fun B hb => (solveMat_spec L hL h A B hwf hsq hb).2.1 hs,
   (inv_spec L hL h A hwf hsq).2.1 hs⟩

/-- Conversely a non-singular system is never refused: a value is returned (and by the theorems above it is
    the solution / the inverse). -/
theorem C16_regular_returns (hL : Contract L) (h : Heap α) (A : MatArg α) (hwf : A.WF)
    (hsq : A.mat.rows = A.mat.cols) (hs : ¬ Singular A.mat.rows A.mat.get) :
    (∀ b : VecArg α, b.vec.n = A.mat.rows → ∃ x, (solveVec L h A b).res = .ok x) ∧
    (∀ B : MatArg α, B.mat.rows = A.mat.rows → ∃ X, (solveMat L h A B).res = .ok X) ∧
    (∃ R, (inv L h A).res = .ok R) :=
  ⟨fun b hb => (solveVec_spec L hL h A b hwf hsq hb).2.2.1 hs,
   fun B hb => (solveMat_spec L hL h A B hwf hsq hb).2.2.1 hs,
   (inv_spec L hL h A hwf hsq).2.2.1 hs⟩

/-- Asking for the inverse of a non-square matrix raises `invalid_operation`, before any LAPACK routine is
    called (no contract needed), and nothing that existed is written. -/
theorem C16_nonsquare_inv_raises (h : Heap α) (A : MatArg α) (hns : A.mat.rows ≠ A.mat.cols) :
    (inv L h A).res = .error .invalid_operation ∧ (inv L h A).log = [] ∧ h.Extends (inv L h A).heap :=
  inv_nonsquare L h A hns

/-- Row-major, column-major, `.T()`, strided and sub-block views are all `Mat.ofView`s (element `(i,j)` at
    `off + i·s0 + j·s1` of the owning buffer), so the theorems above, which hold for every `Mat`, hold for each
    of them; likewise `Vec.ofView`. -/
theorem C16_views_are_operands (rows cols off s0 s1 : Nat) (buf : Buf α) (i j : Nat) :
    (Mat.ofView rows cols off s0 s1 buf).get i j = buf (off + i * s0 + j * s1) ∧
    (Vec.ofView rows off s0 buf).get i = buf (off + i * s0) := ⟨rfl, rfl⟩

/-! ## Non-vacuity -/

/-- The contract every theorem above assumes has a model over every field (Mathlib's nonsingular inverse), and
    its notion of exact singularity — a non-zero kernel vector — is `det = 0`. -/
theorem C16_contract_satisfiable (K : Type) [Field K] :
    (∃ L : Impl K, Contract L) ∧ ∀ (n : Nat) (M : Nat → Nat → K), Singular n M ↔ (toM n n M).det = 0 :=
  ⟨⟨classicalImpl K, classicalImpl_contract K⟩, singular_iff_det⟩

/-- a regular instance: `[[2,1],[1,3]]` as a row-major view, `b = (3,5)`, over `ℚ` with a contract-abiding
    LAPACK: a value is returned and it satisfies both equations; nothing that existed is touched -/
example : ∃ x : Vec ℚ,
    (solveVec (classicalImpl ℚ) ⟨1, fun _ k => [2, 1, 1, 3].getD k 0⟩
      (.dense (Mat.ofView 2 2 0 2 1 (fun k => [2, 1, 1, 3].getD k 0)))
      (.obj (Vec.ofView 2 0 1 (fun k => [3, 5].getD k 0)))).res = .ok x ∧
    2 * x.get 0 + x.get 1 = 3 ∧ x.get 0 + 3 * x.get 1 = 5 := by
  have hreg : ¬ Singular 2 (Mat.ofView 2 2 0 2 1 (fun k => ([2, 1, 1, 3] : List ℚ).getD k 0)).get := by
    rw [singular_iff_det, Matrix.det_fin_two]
    simp [toM, Mat.ofView]
    norm_num
  obtain ⟨x, hx⟩ := (C16_regular_returns (classicalImpl ℚ) (classicalImpl_contract ℚ)
    ⟨1, fun _ k => [2, 1, 1, 3].getD k 0⟩ (.dense (Mat.ofView 2 2 0 2 1 (fun k => [2, 1, 1, 3].getD k 0)))
    trivial rfl hreg).1 (.obj (Vec.ofView 2 0 1 (fun k => [3, 5].getD k 0))) rfl
  refine ⟨x, hx, ?_⟩
  have := (C16_solve_general (classicalImpl ℚ) (classicalImpl_contract ℚ) _ _ _ rfl rfl x hx).2
  have e0 := this 0 (by decide)
  have e1 := this 1 (by decide)
  simp [sumTo, Mat.ofView, Vec.ofView] at e0 e1
  exact ⟨e0, e1⟩

/-- a singular instance: `[[1,1],[1,1]]` as a `ROW_LOWER_COL_UPPER` `SymmMatrix` whose unused element is junk
    (777): symmetric, exactly singular, and every form raises `matrix_ill_conditioned` -/
example : (solveVec (classicalImpl ℚ) ⟨0, fun _ _ => 0⟩
      (.symm (Sym.ofStorage .rowLower 2 0 2 (fun k => [1, 777, 1, 1].getD k 0)))
      (.obj ⟨2, fun k => [1, 2].getD k 0⟩)).res = .error .matrix_ill_conditioned := by
  have hs : Singular 2 (Sym.ofStorage .rowLower 2 0 2 (fun k => ([1, 777, 1, 1] : List ℚ).getD k 0)).get := by
    refine ⟨fun j => if j = 0 then 1 else -1, ⟨0, by decide, by simp⟩, fun i hi => ?_⟩
    have : i = 0 ∨ i = 1 := by omega
    rcases this with rfl | rfl <;> simp [sumTo, Sym.ofStorage, symIndex]
  exact (C16_singular_raises (classicalImpl ℚ) (classicalImpl_contract ℚ) ⟨0, fun _ _ => 0⟩
    (.symm (Sym.ofStorage .rowLower 2 0 2 (fun k => [1, 777, 1, 1].getD k 0)))
    (Sym.ofStorage_symm _ _ _ _ _) rfl hs).1 (.obj ⟨2, fun k => [1, 2].getD k 0⟩) rfl

end Adept.Solve
