import AdeptProofs.Lemmas.GradAlloc
import AdeptProofs.Lemmas.GradObj
/-!
# C08 — every live active object owns a distinct gradient slot, in any order

Property theorems only; helper lemmas live in `AdeptProofs/Lemmas/GradAlloc.lean`.
The first part is about `AdeptModel/GradAlloc.lean`, the transcription of
`Stack::register_gradient(s)`, `unregister_gradient(s)` and `new_recording`; the second part (`C08_obj_…`) is about the
OBJECT layer `AdeptModel/GradObj.lean` (Active, Storage reference counting, Array / SpecialMatrix construction, copy, link, views,
resize, clear, assignment to an empty array, swap, destruction, FixedArray, std::vector<adouble>, adouble[n], allocation
failure, construction from / assignment of nested initializer lists, EMPTY views, link to a temporary view), whose operations are sequences of allocator calls: it DISCHARGES the hypothesis `Legal` of the first part.  The
correspondence check (checks/c08.py) ties both models to the C++ on every run.
-/
namespace Adept.GradAlloc

/-- the constructor's state satisfies the invariant with no live block -/
theorem C08_inv_init : Inv stackInit [] := inv_init

/-- every legal operation preserves the invariant -/
theorem C08_inv_step {s : GA} {L : List Block} (op : Op) (h : Inv s L) (hl : Legal L op) :
    Inv (step s op).1 (ghost s L op) := inv_step op h hl

/-- hence it holds after every finite legal history, whatever its length or order -/
theorem C08_inv_reachable (ops : List Op) {s : GA} {L : List Block}
    (h : runHist stackInit [] ops = some (s, L)) : Inv s L := inv_reachable ops h

/-- a freshly returned block is disjoint from every live block, lies below the number of
    gradients the stack reports as needed (`max_gradients()`), and afterwards the number
    reported as registered is the number of live slots -/
theorem C08_fresh_disjoint {s : GA} {L : List Block} (n : Nat) (hn : 0 < n) (h : Inv s L) :
    (∀ j, inBlock ((regN n s).2, n) j → ¬ isLive L j) ∧ (regN n s).2 + n ≤ (regN n s).1.maxGrad :=
  fresh_disjoint n hn h

theorem C08_fresh_disjoint1 {s : GA} {L : List Block} (h : Inv s L) :
    (¬ isLive L (reg1 s).2) ∧ (reg1 s).2 + 1 ≤ (reg1 s).1.maxGrad :=
  fresh_disjoint1 h

/-- all live slots are pairwise distinct and below `max_gradients()`; the counter is exact -/
theorem C08_live_distinct_below {s : GA} {L : List Block} (h : Inv s L) :
    L.Pairwise (fun B C => ∀ j, ¬ (inBlock B j ∧ inBlock C j)) ∧
    (∀ j, isLive L j → j < s.maxGrad) ∧
    s.nReg = (L.map (fun B => (B.2 : Int))).sum :=
  live_distinct_below h

/-- released slots are recycled but never held twice: a slot is in a gap iff no live block owns it -/
theorem C08_recycled_never_shared {s : GA} {L : List Block} (h : Inv s L) (j : Nat) (hj : j < s.iGrad) :
    isFree s.gaps j ↔ ¬ isLive L j := h.tile j hj

/-- the gap list is a function of the live set alone: two invariant states with the same top
    and the same live blocks have the same gap list -/
theorem C08_gaps_canonical {s s' : GA} {L : List Block} (h : Inv s L) (h' : Inv s' L)
    (ht : s.iGrad = s'.iGrad) : s.gaps = s'.gaps := gaps_canonical h h' ht

/-- so the `most_recent_gap_` fast path never changes which slots are free:
    releasing with and without a cursor gives the same gap list and the same top -/
theorem C08_cursor_irrelevant {s : GA} {L : List Block} (i n : Nat) (h : Inv s L) (hl : (i, n) ∈ L) :
    (unregN i n s).gaps = (unregN i n { s with recent := none }).gaps ∧
    (unregN i n s).iGrad = (unregN i n { s with recent := none }).iGrad :=
  cursor_irrelevant i n h hl

/-! Non-vacuity: a concrete non-LIFO history (three scalars, a block of 3, release of the
middle scalar and of the block, re-registration into the recycled gap) is legal, so the
hypotheses of `C08_inv_reachable` are met by a state with a non-empty gap list and a cursor. -/
example : ∃ s L, runHist stackInit []
    [.reg1, .reg1, .regN 3, .reg1, .unreg1 1, .unregN 2 3, .reg1, .regN 2] = some (s, L)
    ∧ s.gaps = [(4, 4)] ∧ s.recent = some 0 ∧ L.length = 4 := by
  refine ⟨_, _, rfl, ?_⟩
  decide

/-! ## The object layer: `Legal` is discharged

`orun (initP P) ops` is the state after the object-level history `ops` on a fresh stack (`P` = packet size of the build, which
decides the padding of matrix rows); `trace s` is the sequence of allocator operations performed so far; `blocks s` are the slot
blocks of the live OWNERS (every adouble / vector element / adouble[] element, every active FixedArray, every Storage). -/
open Adept.GradObj

/-- Every object-level history, of any length and in any order (inapplicable operations included: they do nothing), performs a
    LEGAL allocator history — every release names a block that is live — which leads exactly to the allocator state of the stack,
    and the live blocks of that allocator history are the blocks of the live owners, no more (nothing leaks) and no fewer. -/
theorem C08_obj_history_legal {P : Nat} (hP : 0 < P) (ops : List OOp) :
    ∃ L, runHist stackInit [] (trace (orun (initP P) ops)) = some ((orun (initP P) ops).ga, L) ∧
         (blocks (orun (initP P) ops)).Perm L := by
  obtain ⟨L, h⟩ := orun_inv ops (oinv_init hP)
  exact ⟨L, h.hist, h.perm⟩

/-- the same for every sequence of the primitive member-level actions (register / unregister / new Storage / add_link /
    remove_link / swap) the object operations are made of -/
theorem C08_obj_prim_history_legal {P : Nat} (hP : 0 < P) (ps : List Prim) :
    ∃ L, runHist stackInit [] (trace (prun (initP P) ps)) = some ((prun (initP P) ps).ga, L) ∧
         (blocks (prun (initP P) ps)).Perm L := by
  obtain ⟨L, h⟩ := prun_inv ps (oinv_init hP)
  exact ⟨L, h.hist, h.perm⟩

/-- At every point of every object-level history the slot blocks of distinct live owners (scalars, vector elements, fixed
    arrays, storages) are pairwise disjoint, non-empty, below `max_gradients()`, and `n_gradients_registered()` is the total
    size of the live owners. -/
theorem C08_obj_owners_disjoint {P : Nat} (hP : 0 < P) (ops : List OOp) :
    let s := orun (initP P) ops
    (blocks s).Pairwise (fun B C => ∀ j, ¬ (inBlock B j ∧ inBlock C j)) ∧
    (∀ B ∈ blocks s, 0 < B.2 ∧ B.1 + B.2 ≤ s.ga.maxGrad) ∧
    s.ga.nReg = ((blocks s).map (fun B => (B.2 : Int))).sum := by
  intro s
  obtain ⟨L, h⟩ := orun_inv ops (oinv_init hP)
  have hinv := inv_of_OInv h
  refine ⟨h.perm.symm.pairwise hinv.disj (fun hxy => disj_symm hxy), ?_, ?_⟩
  · intro B hB
    have := hinv.below B (h.perm.mem_iff.1 hB)
    exact ⟨this.1, Nat.le_trans this.2 hinv.le_max⟩
  · rw [hinv.count]
    exact (perm_sum_int _ h.perm).symm

/-- Views, copies and links share their owner's slots and nothing else: an array object that points to a storage points to a
    LIVE storage (one of the owners), its gradient index is the storage's plus its data offset, every slot it addresses lies in
    the block of that storage, and therefore in the block of no other live owner. -/
theorem C08_obj_views_within_owner {P : Nat} (hP : 0 < P) (ops : List OOp) :
    let s := orun (initP P) ops
    ∀ p ∈ s.arrs, ∀ sid, p.2.st = some sid →
      ∃ t ∈ s.heap, t.sid = sid ∧ (t.gi, t.n) ∈ blocks s ∧ p.2.g = some (t.gi + p.2.off) ∧
        (∀ j, t.gi + p.2.off ≤ j → j ≤ t.gi + p.2.off + ext p.2.dims p.2.strides → inBlock (t.gi, t.n) j) ∧
        (∀ B ∈ blocks s, B ≠ (t.gi, t.n) →
          ∀ j, t.gi + p.2.off ≤ j → j ≤ t.gi + p.2.off + ext p.2.dims p.2.strides → ¬ inBlock B j) := by
  intro s p hp sid hst
  obtain ⟨L, h⟩ := orun_inv ops (oinv_init hP)
  obtain ⟨t, ht, h1, h2, h3⟩ := h.refs p hp sid hst
  have hmem : (t.gi, t.n) ∈ blocks s := by
    simp only [blocks, List.mem_append]
    exact Or.inr (List.mem_map.2 ⟨t, ht, rfl⟩)
  have hin : ∀ j, t.gi + p.2.off ≤ j → j ≤ t.gi + p.2.off + ext p.2.dims p.2.strides → inBlock (t.gi, t.n) j := by
    intro j hj1 hj2
    simp only [inBlock]
    omega
  refine ⟨t, ht, h1, hmem, h3, hin, ?_⟩
  intro B hB hne j hj1 hj2 hBj
  have hd := (C08_obj_owners_disjoint hP ops).1
  exact pairwise_mem (fun hxy => disj_symm hxy) hd hB hmem hne j ⟨hBj, hin j hj1 hj2⟩

/-- The gradients of a storage are held exactly as long as some array links to it: the link count of every live storage is the
    number of array objects pointing to it and is positive (a storage without link does not exist: `remove_link` released its
    block when the LAST link went), every `storage_` pointer names a live storage, and no dangling pointer is ever followed. -/
theorem C08_obj_storage_live_iff_linked {P : Nat} (hP : 0 < P) (ops : List OOp) :
    let s := orun (initP P) ops
    (∀ t ∈ s.heap, 0 < t.links ∧ t.links = refcount s.arrs t.sid) ∧
    (∀ p ∈ s.arrs, ∀ sid, p.2.st = some sid → ∃ t ∈ s.heap, t.sid = sid) ∧
    s.ub = false := by
  intro s
  obtain ⟨L, h⟩ := orun_inv ops (oinv_init hP)
  refine ⟨h.links, ?_, h.noub⟩
  intro p hp sid hst
  obtain ⟨t, ht, h1, _⟩ := h.refs p hp sid hst
  exact ⟨t, ht, h1⟩

/-- Allocation failure: a constructor whose data allocation throws calls the allocator not at all and leaves no owner behind
    (in ANY state), and a resize whose data allocation throws does exactly what `clear()` does: it releases this reference and
    registers nothing. -/
theorem C08_obj_alloc_fault_registers_nothing (s : OS) (h kind : Nat) (dims : List Nat) :
    ((ostep s (.arr h kind dims true)).ga = s.ga ∧ trace (ostep s (.arr h kind dims true)) = trace s ∧
      blocks (ostep s (.arr h kind dims true)) = blocks s) ∧
    (expand s (.resize h dims true) = none ∨ ostep s (.resize h dims true) = ostep s (.clear h)) := by
  constructor
  · have e : expand s (.arr h kind dims true) =
        (if (freshHandle s h && dims.length == nArgs kind) = true then
          (if dims.any (fun d => d == 0) = true then some [Prim.arrNew h kind]
           else some [Prim.arrNew h kind, Prim.arrDel h])
         else none) := rfl
    obtain ⟨h1, h2, h3, h4⟩ := pstep_arrNew_frame s h kind
    obtain ⟨g1, g2, g3, g4⟩ := pstep_arrDel_frame (pstep s (.arrNew h kind)) h
    unfold ostep
    rw [e]
    by_cases c1 : (freshHandle s h && dims.length == nArgs kind) = true
    · by_cases c2 : dims.any (fun d => d == 0) = true
      · rw [if_pos c1, if_pos c2]
        simp only [prun, trace, blocks, h1, h2, h3, h4, and_self]
      · rw [if_pos c1, if_neg c2]
        simp only [prun, trace, blocks, h1, h2, h3, h4, g1, g2, g3, g4, and_self]
    · rw [if_neg c1]
      simp only [and_self]
  · have e1 : expand s (.resize h dims true) =
        (match s.arrs.lookup h with
         | some a =>
           if (dims.length != nArgs a.kind) = true then none
           else if dims.any (fun d => d == 0) = true then some [Prim.arrRelease h]
           else some [Prim.arrRelease h]
         | none => none) := rfl
    have e2 : expand s (.clear h) =
        (match s.arrs.lookup h with
         | some _ => some [Prim.arrRelease h]
         | none => none) := rfl
    unfold ostep
    rw [e1, e2]
    cases hl : s.arrs.lookup h with
    | none => left; rfl
    | some a =>
      by_cases hlen : (dims.length != nArgs a.kind) = true
      · left; simp [hlen]
      · right
        simp [hlen]

/-- Registration count of an object CONSTRUCTED FROM AN INITIALIZER LIST, FixedArray (`FixedArray.h`, the `std::initializer_list`
    constructors of every rank: `GradientIndex<IsActive>(length_, false)`): in ANY state, an ACTIVE FixedArray of extents `dims` makes
    exactly ONE allocator call, `register_gradients(length_)` with `length_` the product of its extents, and holds exactly the block
    that call returned; an INACTIVE one calls the allocator not at all. -/
theorem C08_obj_list_fixed_registers_length (s : OS) (h : Nat) (dims : List Nat)
    (hf : freshHandle s h = true) (hne : dims ≠ []) (hpos : dims.all (fun d => 0 < d) = true) (hl : 0 < prodDims dims) :
    (trace (ostep s (.listFixed h dims true)) = trace s ++ [Op.regN (prodDims dims)] ∧
      (ostep s (.listFixed h dims true)).owns.lookup h =
        some { scalar := false, bs := [((regN (prodDims dims) s.ga).2, prodDims dims)], cap := 0, tag := 5 }) ∧
    ((ostep s (.listFixed h dims false)).ga = s.ga ∧ trace (ostep s (.listFixed h dims false)) = trace s ∧
      ((ostep s (.listFixed h dims false)).owns.lookup h).map (·.bs) = some []) := by
  have hown : s.owns.lookup h = none := by
    simp only [freshHandle, Bool.and_eq_true, Option.isNone_iff_eq_none] at hf
    exact hf.1
  have hne' : (dims != []) = true := by simpa using hne
  constructor
  · simp [ostep, expand, hf, hne', hpos, prun, pstep, hown, hl, callRegN, putOwn, trace, insertAt]
  · simp [ostep, expand, hf, hne', hpos, prun, pstep, hown, trace]

/-- Registration count of an Array CONSTRUCTED FROM AN INITIALIZER LIST (`Array.h`, the `std::initializer_list` constructors:
    `data_(0), storage_(0), dimensions_(0)`, then `*this = list`, which resizes the EMPTY array to the shape of the list): in ANY
    state an ACTIVE Array makes exactly ONE allocator call, `register_gradients(data volume of the shape)` (for a vector: its
    length), made by its new Storage, which it alone links to; an INACTIVE one calls the allocator not at all. -/
theorem C08_obj_list_array_registers_volume (s : OS) (h : Nat) (dims : List Nat)
    (hf : freshHandle s h = true) (hne : dims ≠ []) (hlen : dims.length < 8) (hpos : dims.all (fun d => 0 < d) = true) :
    (trace (ostep s (.listArr h dims true)) = trace s ++ [Op.regN (layout dims.length s.packet dims).2.2] ∧
      (ostep s (.listArr h dims true)).heap =
        { sid := s.nextSid, n := (layout dims.length s.packet dims).2.2, links := 1,
          gi := (regN (layout dims.length s.packet dims).2.2 s.ga).2 } :: s.heap) ∧
    ((ostep s (.listArr h dims false)).ga = s.ga ∧ trace (ostep s (.listArr h dims false)) = trace s ∧
      (ostep s (.listArr h dims false)).heap = s.heap) ∧
    (∀ n P, (layout 1 P [n]).2.2 = n) := by
  have hown : s.owns.lookup h = none := by
    simp only [freshHandle, Bool.and_eq_true, Option.isNone_iff_eq_none] at hf
    exact hf.1
  have harr : s.arrs.lookup h = none := by
    simp only [freshHandle, Bool.and_eq_true, Option.isNone_iff_eq_none] at hf
    exact hf.2
  have hne' : (dims != []) = true := by simpa using hne
  have hk : nArgs dims.length = dims.length := by
    simp only [nArgs]; split <;> omega
  refine ⟨?_, ?_, ?_⟩
  · simp [ostep, expand, hf, hne', hlen, hpos, prun, pstep, harr, emptyArr, hne, hk, callRegN, putArr, trace]
  · simp [ostep, expand, hf, hne', hlen, hpos, prun, pstep, hown, trace]
  · intro n P
    simp [layout, packAux]

/-- ASSIGNMENT of an initializer list to an object that has elements (an Array that is not `empty()` and has the shape of the list, an
    object made from a list) calls the allocator not at all and changes no object; assigned to an `empty()` array WITHOUT storage it is
    the construction above: one `register_gradients` by a new Storage. -/
theorem C08_obj_list_assign_registers_nothing (s : OS) (h : Nat) (dims : List Nat) (a : ArrObj)
    (hown : s.owns.lookup h = none) (ha : s.arrs.lookup h = some a) (hk : a.kind < 10) (hlen : dims.length = a.kind)
    (hpos : dims.all (fun d => 0 < d) = true) :
    (isEmptyArr a = false → a.dims = dims → ostep s (.assignList h dims) = s) ∧
    (a.st = none → ostep s (.assignList h dims) = pstep s (.arrAlloc h dims)) := by
  have hk' : ¬ (a.kind ≥ 10) := by omega
  have hl' : (dims.length != a.kind) = false := by simp [hlen]
  constructor
  · intro he hd
    simp [ostep, expand, hown, ha, hk', hl', hpos, he, hd, prun]
  · intro hst
    have he : isEmptyArr a = true := by simp [isEmptyArr, hst]
    simp [ostep, expand, hown, ha, hk', hl', hpos, he, hst, prun]

/-! Non-vacuity of the object-layer theorems: a concrete history — a scalar, a 2x5 matrix whose rows are padded (packet size 2:
12 slots), a copy of it, a view of its second row, destruction of the PARENT, a scalar, a linked vector that is then resized
(releases only its own reference), a failing construction — reaches a state with a storage of three links that outlived its
parent, views inside it, a recycled gap and a legal trace. -/
example :
    let s := orun (initP 2) [.act 0, .arr 1 2 [2, 5] false, .copy 2 1, .slice 3 1 [.fix 1, .rng 0 4 1], .del 1, .act 4,
                             .arr 5 1 [3] false, .arr 6 1 [2] false, .link 6 5, .resize 6 [4] false, .arr 7 1 [9] true,
                             .del 0, .actTemp 8]
    s.heap.map (fun t => (t.gi, t.n, t.links)) = [(17, 4, 1), (14, 3, 1), (1, 12, 2)] ∧
    s.arrs.map (fun p => (p.1, p.2.g, ext p.2.dims p.2.strides + 1)) =
      [(6, some 17, 4), (5, some 14, 3), (3, some 7, 5), (2, some 1, 11)] ∧
    s.owns.map (fun p => (p.1, p.2.bs)) = [(8, [(21, 1)]), (4, [(13, 1)])] ∧
    s.ga.gaps = [(0, 0)] ∧ s.ga.nReg = 21 ∧ s.ub = false ∧
    trace s = [.reg1, .regN 12, .reg1, .regN 3, .regN 2, .unregN 17 2, .regN 4, .unreg1 0, .reg1, .reg1, .unreg1 0] := by
  decide

/-! Non-vacuity of the initializer-list / empty-view / link-to-temporary part: the hypotheses of the three `C08_obj_list_…` theorems hold in
a concrete state, and a concrete history — a 2x3 active matrix and a 2x1x2 active FixedArray made from lists, an inactive FixedArray, an
EMPTY view of the matrix (it links: two links, extents all zero) that outlives the matrix, a default-constructed vector assigned a list,
a vector linked to a TEMPORARY view of it, the empty view assigned a list (it gives its link back — the matrix' six slots are released —
and gets a new Storage of six), the FixedArray destroyed — ends with exact link counts and a legal trace. -/
example :
    freshHandle (initP 2) 0 = true ∧ ([2, 1, 2] : List Nat) ≠ [] ∧ ([2, 1, 2] : List Nat).all (fun d => 0 < d) = true ∧
      0 < prodDims [2, 1, 2] := by
  decide

example :
    let s := orun (initP 2) [.act 0, .listArr 1 [2, 3] true, .listFixed 2 [2, 1, 2] true, .listFixed 3 [3] false,
                              .slice 4 1 [.rng 1 0 1, .rng 0 2 1]]
    s.heap.map (fun t => (t.gi, t.n, t.links)) = [(1, 6, 2)] ∧
    s.arrs.map (fun p => (p.1, p.2.g, p.2.dims, p.2.off)) = [(4, some 4, [0, 0], 3), (1, some 1, [2, 3], 0)] := by
  decide

example :
    let s := orun (initP 2) [.act 0, .listArr 1 [2, 3] true, .listFixed 2 [2, 1, 2] true, .listFixed 3 [3] false,
                              .slice 4 1 [.rng 1 0 1, .rng 0 2 1], .del 1, .act 5, .arr 7 1 [0] false, .assignList 7 [3],
                              .arr 8 1 [2] false, .linkTemp 8 7 [.rng 1 2 1], .assignList 4 [2, 3], .del 2]
    s.heap.map (fun t => (t.gi, t.n, t.links)) = [(1, 6, 1), (12, 3, 2)] ∧
    s.arrs.map (fun p => (p.1, p.2.g, p.2.dims, p.2.off)) = [(4, some 1, [2, 3], 0), (8, some 13, [2], 1), (7, some 12, [3], 0)] ∧
    s.owns.map (fun p => (p.1, p.2.bs)) = [(5, [(11, 1)]), (3, []), (0, [(0, 1)])] ∧
    s.ga.gaps = [(7, 10)] ∧ s.ga.nReg = 11 ∧ s.ub = false ∧
    trace s = [.reg1, .regN 6, .regN 4, .reg1, .regN 3, .regN 2, .unregN 15 2, .unregN 1 6, .regN 6, .unregN 7 4] := by
  decide

end Adept.GradAlloc
