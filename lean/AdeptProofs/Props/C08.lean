import AdeptProofs.Lemmas.GradAlloc
/-!
# C08 — every live active object owns a distinct gradient slot, in any order

Property theorems only; helper lemmas live in `AdeptProofs/Lemmas/GradAlloc.lean`.
All statements are about `AdeptModel/GradAlloc.lean`, the transcription of
`Stack::register_gradient(s)`, `unregister_gradient(s)` and `new_recording`; the
correspondence check (checks/c08.py) ties that model to the C++ on every run.
-/
namespace Adept.GradAlloc

/-- the constructor's state satisfies the invariant with no live block -/
theorem C08_inv_init : Inv stackInit [] := inv_init

/-- every legal operation preserves the invariant -/
theorem C08_inv_step {s : GA} {L : List Block} (op : Op) (h : Inv s L) (hl : Legal L op) :
    Inv (step s op).1 (ghost s L op) := inv_step op h hl

/-- hence it holds after every finite legal history, whatever its length or order -/
theorem C08_inv_reachable (ops : List Op) {s : GA} {L : List Block}
    (h : runHist stackInit [] ops = some (s, L)) : Inv s L := inv_reachable ops h

/-- a freshly returned block is disjoint from every live block, lies below the number of
    gradients the stack reports as needed (`max_gradients()`), and afterwards the number
    reported as registered is the number of live slots -/
theorem C08_fresh_disjoint {s : GA} {L : List Block} (n : Nat) (hn : 0 < n) (h : Inv s L) :
    (∀ j, inBlock ((regN n s).2, n) j → ¬ isLive L j) ∧ (regN n s).2 + n ≤ (regN n s).1.maxGrad :=
  fresh_disjoint n hn h

theorem C08_fresh_disjoint1 {s : GA} {L : List Block} (h : Inv s L) :
    (¬ isLive L (reg1 s).2) ∧ (reg1 s).2 + 1 ≤ (reg1 s).1.maxGrad :=
  fresh_disjoint1 h

/-- all live slots are pairwise distinct and below `max_gradients()`; the counter is exact -/
theorem C08_live_distinct_below {s : GA} {L : List Block} (h : Inv s L) :
    L.Pairwise (fun B C => ∀ j, ¬ (inBlock B j ∧ inBlock C j)) ∧
    (∀ j, isLive L j → j < s.maxGrad) ∧
    s.nReg = (L.map (fun B => (B.2 : Int))).sum :=
  live_distinct_below h

/-- released slots are recycled but never held twice: a slot is in a gap iff no live block owns it -/
theorem C08_recycled_never_shared {s : GA} {L : List Block} (h : Inv s L) (j : Nat) (hj : j < s.iGrad) :
    isFree s.gaps j ↔ ¬ isLive L j := h.tile j hj

/-- the gap list is a function of the live set alone: two invariant states with the same top
    and the same live blocks have the same gap list -/
theorem C08_gaps_canonical {s s' : GA} {L : List Block} (h : Inv s L) (h' : Inv s' L)
    (ht : s.iGrad = s'.iGrad) : s.gaps = s'.gaps := gaps_canonical h h' ht

/-- so the `most_recent_gap_` fast path never changes which slots are free:
    releasing with and without a cursor gives the same gap list and the same top -/
theorem C08_cursor_irrelevant {s : GA} {L : List Block} (i n : Nat) (h : Inv s L) (hl : (i, n) ∈ L) :
    (unregN i n s).gaps = (unregN i n { s with recent := none }).gaps ∧
    (unregN i n s).iGrad = (unregN i n { s with recent := none }).iGrad :=
  cursor_irrelevant i n h hl

/-! Non-vacuity: a concrete non-LIFO history (three scalars, a block of 3, release of the
middle scalar and of the block, re-registration into the recycled gap) is legal, so the
hypotheses of `C08_inv_reachable` are met by a state with a non-empty gap list and a cursor. -/
example : ∃ s L, runHist stackInit []
    [.reg1, .reg1, .regN 3, .reg1, .unreg1 1, .unregN 2 3, .reg1, .regN 2] = some (s, L)
    ∧ s.gaps = [(4, 4)] ∧ s.recent = some 0 ∧ L.length = 4 := by
  refine ⟨_, _, rfl, ?_⟩
  decide

end Adept.GradAlloc
