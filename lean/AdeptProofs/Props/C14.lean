import AdeptProofs.Lemmas.Threads
/-!
# C14 — shared array data can be linked / sliced concurrently when built thread-safe

Property theorems only; helper lemmas are in `AdeptProofs/Lemmas/Threads.lean`.  Statements are about the `n_links_`
machine of `AdeptModel/Threads.lean` (part 3: one shared Storage object, threads executing atomic steps in any
interleaving) and about the footprint table (part 1).  The machine is instantiated with the flags GENERATED from
`include/adept/Storage.h` (`Generated/StorageCfg.lean`): the type of `n_links_` with and without
ADEPT_STORAGE_THREAD_SAFE, whether `remove_link()` tests the result of ONE read-modify-write, whether it starts with a
separate load, the type of the global counters.  That the compiled code performs exactly these atomic steps is OBSERVED
(ThreadSanitizer runs of harness/drv_threads.cpp in both builds), not proved; std::atomic is trusted.
-/
namespace Adept.Threads
open Adept.Generated NLinks

/-- What `Storage.h` says for the thread-safe build: `n_links_` is a std::atomic, `add_link()` is one read-modify-write,
    `remove_link()` tests the value returned by ONE read-modify-write — the shape the theorems below are about; the two
    global counters are atomic as well. -/
theorem C14_thread_safe_build_shape :
    shapeOf (StorageCfg.nLinksAtomicThreadSafe && StorageCfg.addLinkSingleRmw) StorageCfg.removeLinkRmwResultTested = .rmwTested ∧
    cfgThreadSafe.nLinksAtomic = true ∧ cfgThreadSafe.countersAtomic = true := by decide

/-- `-DADEPT_STORAGE_THREAD_SAFE` means the same thing whatever else is configured: for EVERY configuration macro the headers
    test (the list is regenerated from the `#if`s of include/adept/*.h; Storage.h is preprocessed once per macro, with that macro
    and ADEPT_STORAGE_THREAD_SAFE defined together) the reference counter is still a std::atomic, `remove_link`/`add_link` keep
    the single read-modify-write shape of `C14_thread_safe_build_shape`, and the storage counters stay atomic — no other switch
    (ADEPT_FAST, ADEPT_STACK_THREAD_UNSAFE, …) silently cancels the request.  The census is taken TWICE: without and with the
    compiler's OpenMP switch (`-fopenmp`, i.e. the predefined `_OPENMP`), over the same rows (first row: no other macro), so an
    `#if defined(ADEPT_STORAGE_THREAD_SAFE) && defined(_OPENMP)` (or `&& !defined(_OPENMP)`) falsifies one of the two tables.
    Whole-table `decide`. -/
theorem C14_thread_safe_under_every_config :
    StorageCfg.threadSafeUnderConfig.all (fun c => c.2) = true ∧ 20 ≤ StorageCfg.threadSafeUnderConfig.length ∧
    StorageCfg.threadSafeUnderConfigOpenMP.all (fun c => c.2) = true ∧
    StorageCfg.threadSafeUnderConfigOpenMP.map (fun c => c.1) = StorageCfg.threadSafeUnderConfig.map (fun c => c.1) := by decide

/-- FREED EXACTLY ONCE (micro-step level).  `T` threads; thread `t` starts owning `h0 t` views of the shared data (at
    least one view exists) and runs a well-formed program (it only copies/slices a view it owns and only destroys views
    it owns).  After EVERY interleaving of their atomic steps:
    the data has been freed at most once; no step ever touched the counter after the free; it has been freed if and
    only if no thread owns a view any more (so the freeing step is the removal of the last view); while it is not freed
    the counter equals the number of views; and once it is freed every thread has only counter-free steps left. -/
theorem C14_atomic_freed_once (T : Nat) (h0 : Nat → Nat) (progs : Nat → List MOp)
    (hwf : ∀ t, t < T → wfM (h0 t) (progs t) = true) (hpos : ∃ t, t < T ∧ 1 ≤ h0 t) (sched : List Nat) :
    let s := mexec sched (St.init T h0 progs)
    s.frees ≤ 1 ∧ s.touchedAfterFree = 0 ∧ (s.frees = 1 ↔ ∀ t, s.held t = 0) ∧
      (s.frees = 0 → s.count = (sumTo T s.held : Nat)) ∧ (s.frees = 1 → ∀ t, ∀ m ∈ s.rem t, m = .nop) := by
  intro s
  have h : Inv T s := inv_exec sched _ (inv_init T h0 progs hwf hpos)
  have hall : s.frees = 1 → ∀ t, s.held t = 0 := by
    intro hf t
    by_cases ht : t < T
    · exact sumTo_eq_zero _ _ (h.dead (by omega)).2 t ht
    · exact h.out t (by omega)
  refine ⟨?_, h.clean, ⟨hall, ?_⟩, fun hf => (h.live hf).1, ?_⟩
  · by_cases hf : s.frees = 0
    · omega
    · have := (h.dead hf).1; omega
  · intro hz
    by_cases hf : s.frees = 0
    · have := (h.live hf).2
      have := sumTo_zero_of_all s.held hz T
      omega
    · exact (h.dead hf).1
  · intro hf t m hm
    have hw := h.wf t
    rw [hall hf t] at hw
    exact wfM_zero_all_nop _ hw m hm

/-- FREED EXACTLY ONCE (API level, thread-safe build of the working tree).  Threads run arbitrary well-formed sequences
    of add-link (copy-construct, link, slice), remove-link (destroy a view), soft-view and private-array operations;
    these expand to the atomic steps `Storage.h` prescribes for the thread-safe build (generated flags).  Same conclusion. -/
theorem C14_freed_once_thread_safe_build (T : Nat) (h0 : Nat → Nat) (progs : Nat → List LOp)
    (hwf : ∀ t, t < T → wfL (h0 t) (progs t) = true) (hpos : ∃ t, t < T ∧ 1 ≤ h0 t) (sched : List Nat) :
    let sh := shapeOf (StorageCfg.nLinksAtomicThreadSafe && StorageCfg.addLinkSingleRmw) StorageCfg.removeLinkRmwResultTested
    let s := mexec sched (St.init T h0 fun t => expandAll sh StorageCfg.removeLinkLeadingLoad (progs t))
    s.frees ≤ 1 ∧ s.touchedAfterFree = 0 ∧ (s.frees = 1 ↔ ∀ t, s.held t = 0) ∧
      (s.frees = 0 → s.count = (sumTo T s.held : Nat)) ∧ (s.frees = 1 → ∀ t, ∀ m ∈ s.rem t, m = .nop) := by
  intro sh
  have hsh : sh = .rmwTested := C14_thread_safe_build_shape.1
  rw [hsh]
  exact C14_atomic_freed_once T h0 _ (fun t ht => wfM_expand _ _ _ (hwf t ht)) hpos sched

/-- The model distinguishes the configurations (1): if the decrement and the test are two statements
    (`--n_links_; if (n_links_ == 0) delete this`, even on a std::atomic), two threads that each destroy their one view
    can BOTH free the data. -/
theorem C14_split_can_double_free :
    ∃ sched : List Nat,
      (mexec sched (St.init 2 (fun _ => 1) fun _ => expandAll .rmwThenReload true [.removeLink])).frees = 2 :=
  ⟨[0, 0, 1, 1, 0, 1], by decide⟩

/-- The model distinguishes the configurations (2): with a plain `int` (`if (--n_links_ == 0)` is a load and a store),
    there is a two-thread schedule of well-formed programs that frees the data while a view is alive, touches the freed
    counter, and frees twice. -/
theorem C14_plain_int_can_double_free :
    ∃ sched : List Nat,
      let s := mexec sched (St.init 2 (fun _ => 1) fun t =>
        expandAll .loadStore false (if t = 0 then [.addLink, .removeLink, .addLink, .removeLink, .removeLink] else [.removeLink]))
      s.frees = 2 ∧ 0 < s.touchedAfterFree :=
  ⟨[1, 0, 1, 0, 0, 0, 0, 0, 0, 0], by decide⟩

/-- and a build whose `n_links_` is not atomic (the default build of the pinned tree) is never of the safe shape: only soft
    links are safe there -/
theorem C14_default_build_shape :
    StorageCfg.nLinksAtomicDefault = false →
      shapeOf (StorageCfg.nLinksAtomicDefault && StorageCfg.addLinkSingleRmw) StorageCfg.removeLinkRmwResultTested ≠ .rmwTested := by
  decide

/-- SOFT LINKS NEVER TOUCH THE COUNT (footprint table): a view made through `soft_link()` accesses no shared location at
    all, in any configuration. -/
theorem C14_soft_link_no_count (c : Cfg) : ∀ a ∈ footprint c .softView, a.loc.isShared = false := by
  intro a ha
  simp [footprint] at ha
  subst ha
  rfl

/-- SOFT LINKS NEVER TOUCH THE COUNT (machine): threads that only create/destroy soft views and private arrays leave the
    counter, the free count and everybody's views unchanged — in every shape of `remove_link`, for every schedule. -/
theorem C14_soft_link_machine (sh : Shape) (lead : Bool) (T : Nat) (h0 : Nat → Nat) (progs : Nat → List LOp)
    (hsoft : ∀ t, ∀ o ∈ progs t, o = .softView ∨ o = .privArray) (sched : List Nat) :
    let s0 := St.init T h0 fun t => expandAll sh lead (progs t)
    (mexec sched s0).count = s0.count ∧ (mexec sched s0).frees = 0 ∧ (mexec sched s0).touchedAfterFree = 0 ∧
      (mexec sched s0).held = s0.held := by
  intro s0
  have hn : AllNop s0 := by
    intro t m hm
    by_cases ht : t < T
    · simp only [s0, St.init, ht, if_true] at hm
      exact expandAll_soft sh lead _ (hsoft t) m hm
    · simp [s0, St.init, ht] at hm
  obtain ⟨h1, h2, h3, h4⟩ := allNop_exec sched s0 hn
  exact ⟨h1, h2, h3, h4⟩

/-- NO DATA RACE ON LIBRARY STATE, thread-safe build: for the operation kinds of a C14 workload (link / unlink / soft view
    of the shared array, creation and destruction of private arrays, views of own data) every pair of conflicting
    accesses to a shared location is atomic (`n_links_`, the two storage counters) … -/
theorem C14_hypothesis_thread_safe : NoPlainConflict cfgThreadSafe c14Kinds := by decide

/-- … hence no schedule of any such workload contains a data race. -/
theorem C14_race_free_thread_safe (W : Workload) (hU : UsesOnly W c14Kinds) (sched : List Nat) (w0 : World) :
    ∀ e ∈ (exec cfgThreadSafe W sched (Run.start w0)).trace, ∀ e' ∈ (exec cfgThreadSafe W sched (Run.start w0)).trace,
      ∀ a ∈ footprint cfgThreadSafe e.2.kind, ∀ b ∈ footprint cfgThreadSafe e'.2.kind, ¬ Races e.1 a e'.1 b :=
  race_free_of_noPlainConflict cfgThreadSafe W c14Kinds C14_hypothesis_thread_safe hU sched w0

/-- NO DATA RACE, default build, soft links only: the same for workloads that use soft views and private arrays. -/
theorem C14_hypothesis_soft_default : NoPlainConflict cfgDefault c14SoftKinds := by decide

theorem C14_race_free_soft_default (W : Workload) (hU : UsesOnly W c14SoftKinds) (sched : List Nat) (w0 : World) :
    ∀ e ∈ (exec cfgDefault W sched (Run.start w0)).trace, ∀ e' ∈ (exec cfgDefault W sched (Run.start w0)).trace,
      ∀ a ∈ footprint cfgDefault e.2.kind, ∀ b ∈ footprint cfgDefault e'.2.kind, ¬ Races e.1 a e'.1 b :=
  race_free_of_noPlainConflict cfgDefault W c14SoftKinds C14_hypothesis_soft_default hU sched w0

/-- The model distinguishes the configurations (3): in a DEFAULT build with a plain `n_links_`, real links from several threads do race on
    `n_links_` (which is why the property asks for soft links there). -/
theorem C14_sensitivity_default_build_links_race :
    cfgDefault.nLinksAtomic = false → ¬ NoPlainConflict cfgDefault c14Kinds := by decide

/-! ### Non-vacuity of `C14_freed_once_thread_safe_build`: three threads, thread 0 is the creator (one view), threads 1
and 2 were each handed one view; they copy, slice and destroy; the creator leaves first in this schedule, thread 2
destroys the last view and is the one step that frees. -/
example :
    let progs : Nat → List LOp := fun t =>
      if t = 0 then [.removeLink] else if t = 1 then [.addLink, .removeLink, .privArray, .removeLink]
      else [.addLink, .addLink, .removeLink, .softView, .removeLink, .removeLink]
    (∀ t, t < 3 → wfL 1 (progs t) = true) ∧
    (let s := mexec [0, 0, 1, 2, 2, 1, 1, 2, 2, 1, 1, 1, 2, 2, 2] (St.init 3 (fun _ => 1) fun t => expandAll .rmwTested true (progs t))
     s.frees = 0 ∧ s.count = 1 ∧ s.held 2 = 1) ∧
    (let s := mexec [0, 0, 1, 2, 2, 1, 1, 2, 2, 1, 1, 1, 2, 2, 2, 2, 2] (St.init 3 (fun _ => 1) fun t => expandAll .rmwTested true (progs t))
     s.frees = 1 ∧ s.count = 0 ∧ s.touchedAfterFree = 0) := by
  refine ⟨?_, by decide, by decide⟩
  intro t ht
  have : t = 0 ∨ t = 1 ∨ t = 2 := by omega
  rcases this with rfl | rfl | rfl <;> decide

end Adept.Threads
