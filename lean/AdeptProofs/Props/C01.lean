import AdeptProofs.Lemmas.ExprProg
/-!
# C01 — reverse-mode gradients equal the true derivatives of the recorded program

Property theorems only (helper lemmas: `AdeptProofs/Lemmas/Expr{Real,Unary,Binary,Tree,Prog}.lean`).
Everything is about `AdeptModel/Expr.lean` (the transcription of `Active.h`, `Expression.h`, the node templates of
`UnaryOperation.h` / `BinaryOperation.h`, `noalias.h`) instantiated at ℝ, and about the tables
`AdeptModel/Generated/UnaryTable.lean`, `BinaryTable.lean`, which `translate/unary.py` and `translate/binary.py`
REGENERATE from the headers on every run: the theorems below are re-checked against what the code says now.
The correspondence check (checks/c01.py) ties the model to the C++ on generated programs.

What each real function *is* (erf as its integral, atan2 as the complex argument, cbrt, the rounding functions with
C tie rules, decimal literals ↦ exact constants) is fixed in `Lemmas/ExprReal.lean`.  No hypothesis about `erf` is
needed: its derivative is proved from the fundamental theorem of calculus.

Branching programs: a recording is the straight-line trace of the branch taken; T4/T5 are about that trace and equal
the derivative of the branching program wherever the branch conditions are locally constant (not modelled).
Rounding is not modelled: the theorems are over ℝ.
-/
namespace Adept.Expr
open Adept Adept.Tape

/-- **T0.** For EVERY entry `f` of the generated unary table and every `x` in the open domain of `f`
    (`0 < x` for log*/sqrt, `|x| < 1` for asin acos atanh, `1 < x` for acosh, `cos x ≠ 0` for tan, `x ≠ 0` for abs fabs
    cbrt `!`, non-integers for ceil floor trunc, non-half-integers for round rint nearbyint, `-1 < x` for log1p):
    the C++ derivative expression, evaluated at `val = x`, `result = f x`, is the derivative of `f` at `x`. -/
theorem C01_unary_table_sound (f : UFun) (x : ℝ) (hx : f.dom x) :
    HasDerivAt (UFun.fn f) (UFun.dexpr f x (UFun.fn f x)) x := unary_table_sound f x hx

/-- **T1 (values).** `value_stored_<·,k>` after `value_at_location_store_<·,k>` returns the value of the tree,
    for every tree, every slot `k` and every initial (uninitialised) scratch content. -/
theorem C01_store_stored (n : Node ℝ) (k : Nat) (s : Scratch ℝ) : n.stored k (n.store k s).2 = n.eval :=
  store_stored n k s

/-- **T1 (frame).** The store path writes only the slots `[k, k + n_scratch)` it owns. -/
theorem C01_store_frame (n : Node ℝ) (k : Nat) (s : Scratch ℝ) (j : Nat) (hj : j < k ∨ k + n.nScratch ≤ j) :
    (n.store k s).2 j = s j := store_frame n k s j hj

/-- **T6.** The value a recording statement computes (`scalar_value_and_gradient`, with `a/b` evaluated as
    `a * (1/b)`) is the plain evaluation of the same expression. -/
theorem C01_values_plain (e : Node ℝ) (init : Scratch ℝ) : (e.valueAndGradient init).1 = e.eval :=
  valueAndGradient_fst e init

/-- **T2 (table).** In each policy the `calc_left/calc_right` overloads WITH an incoming multiplier hand down `m ×`
    what the overloads without hand down, under the same guard. -/
theorem C01_mul_linear (op : BOp) (m L R RES AUX : ℝ) :
    ((op.leftMul (some m) L R RES AUX).getD 1 = m * (op.leftMul none L R RES AUX).getD 1 ∧
     (op.rightMul (some m) L R RES AUX).getD 1 = m * (op.rightMul none L R RES AUX).getD 1) ∧
    (op.leftGuard true L R = op.leftGuard false L R ∧ op.rightGuard true L R = op.rightGuard false L R) :=
  ⟨mul_linear op m L R RES AUX, guard_same op L R⟩

/-- **T2 (trees).** For every tree, slot and scratch content, `calc_gradient_` with multiplier `m` pushes `m ×` what
    `calc_gradient_` without multiplier pushes (as linear forms in the gradients). -/
theorem C01_grad_linear (n : Node ℝ) (k : Nat) (s : Scratch ℝ) (m : ℝ) (g : Nat → ℝ) :
    dotOps (n.grad k s (some m)) g = m * dotOps (n.grad k s none) g := grad_linear n k s (some m) g

/-- **T2 (partials).** The generated binary multiplier formulas are the partial derivatives of the operation
    (`a/b` with the stored `1/b`, `atan2` with the stored `1/(l²+r²)`): on the open domain (`r ≠ 0` for `/`, `0 < l` for
    `pow`, `r + l·i` off the closed negative real axis for `atan2`, `l ≠ r` for max/min). -/
theorem C01_bin_partials (op : BOp) (L R : ℝ) (hd : op.dom L R) :
    HasDerivAt (fun x => op.operation false x R) (op.dL L R) L ∧
    HasDerivAt (fun y => op.operation false L y) (op.dR L R) R := bin_partials op L R hd

/-- **T2 (chain rule form).** Along any differentiable pair of arguments the operation has derivative `dL·l' + dR·r'`. -/
theorem C01_bin_chain (op : BOp) {l r : ℝ → ℝ} {l' r' t : ℝ} (hl : HasDerivAt l l' t) (hr : HasDerivAt r r' t)
    (hd : op.dom (l t) (r t)) :
    HasDerivAt (fun s => op.operation false (l s) (r s)) (op.dL (l t) (r t) * l' + op.dR (l t) (r t) * r') t :=
  bin_chain op hl hr hd

/-- Tie behaviour of `max` (NOT a derivative: none exists at a tie): everything goes to the right operand. -/
theorem C01_max_tie (x : ℝ) : BOp.dL .Max x x = 0 ∧ BOp.dR .Max x x = 1 := max_tie x
/-- Tie behaviour of `min`: everything goes to the left operand. -/
theorem C01_min_tie (x : ℝ) : BOp.dL .Min x x = 1 ∧ BOp.dR .Min x x = 0 := min_tie x

/-- The `int`-operand overloads of max/min (`left < right ? …`) are the same functions as fmax/fmin. -/
theorem C01_operation_mixed (op : BOp) (L R : ℝ) : op.operation true L R = op.operation false L R :=
  operation_mixed op L R

/-- **T3.** For any curve of inputs `γ` differentiable at `t₀` and any well-formed tree that is in domain at `t₀`:
    the value of the tree along the curve is differentiable and its derivative is `Σ_{(m,i) ∈ grad} m · γ'ᵢ`, where
    `grad` is what `calc_gradient_<·,k>` pushes after `value_at_location_store_<·,k>` (any slot `k`, any initial scratch). -/
theorem C01_grad_hasDerivAt (γ : ℝ → Nat → ℝ) (γ' : Nat → ℝ) (t₀ : ℝ)
    (hγ : ∀ i, HasDerivAt (fun t => γ t i) (γ' i) t₀) (n : Node ℝ) (k : Nat) (s : Scratch ℝ)
    (hwf : (n.rebind (γ t₀)).wf = true) (hdom : (n.rebind (γ t₀)).dom) :
    HasDerivAt (fun t => (n.rebind (γ t)).eval)
      (dotOps ((n.rebind (γ t₀)).grad k ((n.rebind (γ t₀)).store k s).2 none) γ') t₀ :=
  grad_hasDerivAt γ γ' t₀ hγ n k _ hwf hdom (store_ScrOK _ k s)

/-- **T4.** Straight-line programs (assignments of expressions incl. copies and unpacked compound operators,
    (re)initialisation with passive values, passive `+=`/`-=`; slots may be reused): along any differentiable curve of
    initial values, every final value is differentiable and its derivative is the tangent-linear sweep of the recorded
    tape applied to the velocity of the curve. -/
theorem C01_program_tangent (P : List PStmt) (γ : ℝ → Nat → ℝ) (γ' : Nat → ℝ) (t₀ : ℝ)
    (hγ : ∀ i, HasDerivAt (fun t => γ t i) (γ' i) t₀) (hdom : ProgDom P (γ t₀)) (i : Nat) :
    HasDerivAt (fun t => run P (γ t) i) (fwdF (tapeOf P (γ t₀)) γ' i) t₀ := program_tangent P γ γ' t₀ hγ hdom i

/-- The tangent sweep on functions used in T4 is `Stack::compute_tangent_linear` of `AdeptModel/Tape.lean`. -/
theorem C01_fwdF_is_tape_fwd (N : Nat) (t : List (Stmt ℝ)) (g : Vec ℝ) (hwf : WF t N) (hg : g.length = N) :
    rd (fwd t g) = fwdF t (rd g) := rd_fwd N t g hwf hg

/-- **T5.** Seeding output slot `y` with 1 and running `Stack::compute_adjoint` over the recorded tape leaves at input
    slot `x` the partial derivative of the final value of `y` with respect to the initial value of `x`. -/
theorem C01_adjoint_is_gradient (P : List PStmt) (env₀ : Nat → ℝ) (N x y : Nat) (hx : x < N) (hy : y < N)
    (hwf : WF (tapeOf P env₀) N) (hdom : ProgDom P env₀) :
    HasDerivAt (fun τ => run P (updF env₀ x τ) y) (rd (rev (tapeOf P env₀) (unit N y)) x) (env₀ x) :=
  adjoint_is_gradient P env₀ N x y hx hy hwf hdom

/-- The statement forms of the executable model (`St.assign`, used for `x = e`, copies, construction from an expression
    and the unpacked compound operators) append exactly the statement T4 reasons about and store the plain value. -/
theorem C01_assign_records (s : St ℝ) (h : Nat) (x : Var ℝ) (e : Node ℝ) (init : Scratch ℝ) (hp : s.pend = []) :
    (s.assign h x e init).tape = s.tape ++ [⟨x.idx, (e.valueAndGradient init).2⟩] ∧
    (s.assign h x e init).pend = [] ∧
    ((s.assign h x e init).var? h).map (fun v => (v.idx, v.val)) = some (x.idx, e.eval) :=
  assign_records s h x e init hp

/-! Non-vacuity: the hypotheses are satisfiable on non-trivial instances. -/
example : UFun.dom .Log (2:ℝ) := by simp [UFun.dom]
example : UFun.dom .Round (0.25:ℝ) := by
  intro n h
  have h4 : (4:ℝ) * 0.25 = 4 * ((n:ℝ) + 1 / 2) := by rw [h]
  have : (4 * n + 1 : ℝ) = 0 := by norm_num at h4; linarith
  have h' : (4 * n + 1 : ℤ) = 0 := by exact_mod_cast this
  omega
example : BOp.dom .Atan2 (1:ℝ) (-1) := Or.inr one_ne_zero
example : (Node.bin .Divide (.active 0 (2:ℝ)) (.un .Exp (.active 1 0))).dom := by
  simp [Node.dom, UFun.dom, BOp.dom, Node.eval, UFun.fn, UFun.cfun, realCfun]
example : (Node.binR .Multiply false (.noalias (.active 0 (2:ℝ))) 3).wf = true := by
  simp [Node.wf, Node.isActive, BOp.storeResult]
example : (Node.binR .Pow true (.active 0 (-2:ℝ)) 3).dom := by
  refine ⟨trivial, Or.inr ⟨rfl, ?_, 3, by norm_num⟩⟩
  simp [Node.eval]
example : ProgDom [.assign 2 (.bin .Multiply (.active 0 0) (.noalias (.active 1 0))), .shift 2 1, .passive 0 5]
    (fun _ => (1:ℝ)) := by
  simp [ProgDom, Node.rebind, Node.wf, Node.dom, BOp.dom]

/-- **Branches on comparisons.**  `if (L OP R) x = e1; else x = e2;` with `L`, `R` active expressions or passive numbers in any
    combination: over ℝ each of the six operators decides the relation it denotes between the VALUES of its two sides, taken
    in the order written (`c < x` is `c < x`, not `x < c`), and the recording is exactly the assignment of the selected branch —
    so T4/T5 apply to the trace, whichever branch each comparison selects. -/
theorem C01_branch_is_selected_assignment (s : St ℝ) (h : Nat) (x : Var ℝ) (o : CmpOp) (l r : CmpSide ℝ)
    (e1 e2 : Node ℝ) (init : Scratch ℝ) :
    (o.holds l.value r.value = true ↔
      (match o with
       | .lt => l.value < r.value | .gt => l.value > r.value | .le => l.value ≤ r.value
       | .ge => l.value ≥ r.value | .eq => l.value = r.value | .ne => l.value ≠ r.value)) ∧
    s.branch h x o l r e1 e2 init =
      (if o.holds l.value r.value = true then s.assign h x e1 init else s.assign h x e2 init) := by
  refine ⟨?_, ?_⟩
  · cases o <;> simp only [CmpOp.holds, lt_real, le_real, decide_eq_true_eq, Bool.and_eq_true, Bool.not_eq_true',
      Bool.and_eq_false_iff, decide_eq_false_iff_not, gt_iff_lt, ge_iff_le]
    · exact ⟨fun ⟨a, b⟩ => le_antisymm a b, fun e => ⟨le_of_eq e, ge_of_eq e⟩⟩
    · constructor
      · rintro (h1 | h1) e
        · exact h1 (le_of_eq e)
        · exact h1 (ge_of_eq e)
      · intro hne
        by_cases h1 : l.value ≤ r.value
        · right; intro h2; exact hne (le_antisymm h1 h2)
        · left; exact h1
  · unfold St.branch
    by_cases hb : o.holds l.value r.value = true <;> simp [hb]

/-- non-vacuity: `2 < x` at `x = 3` selects the first branch, `x < 2` does not -/
example : CmpOp.holds .lt (CmpSide.num (2 : ℝ)).value (CmpSide.num (3 : ℝ)).value = true ∧
    CmpOp.holds .lt (CmpSide.num (3 : ℝ)).value (CmpSide.num (2 : ℝ)).value = false := by
  norm_num [CmpOp.holds, CmpSide.value]

end Adept.Expr
