import AdeptProofs.Lemmas.Tape
import AdeptProofs.Lemmas.TapeLawFree
/-!
# C02 — forward, reverse and Jacobian results of one recording agree

Property theorems only (helper lemmas: `AdeptProofs/Lemmas/Tape.lean`).  Everything is stated over an
arbitrary commutative ring `R` and over `AdeptModel/Tape.lean`, the transcription of
`Stack::compute_tangent_linear`, `Stack::compute_adjoint` and the Jacobian routines of `jacobian.cpp`;
the correspondence check (checks/c02.py) ties that model to the C++ on every run.

Second layer (`…_lawfree`, end of the file): which of these equalities hold OPERATION FOR OPERATION, i.e. with no algebraic
law assumed (any carrier with `+ * 0 1` and any zero test; on IEEE doubles: bit for bit), and which do not:

* forward Jacobian, any block width, column `j` = the tangent-linear pass of `e_{x_j}`            — law-free (proved)
* forward Jacobian blocked = unblocked (`W` = any two widths)                                    — law-free (proved)
* reverse Jacobian, `W = 1`, row `i` = the adjoint pass of `e_{y_i}`                             — law-free (proved)
* reverse Jacobian, `W > 1`, row = adjoint pass / blocked = unblocked                            — NOT law-free: the sweeps
  test the adjoints of a whole block at once, so a lane whose own adjoint is zero still executes `+= m*0` when a
  neighbouring lane is non-zero.  Proved under the one hypothesis `nz a = false → x + m*a = x` (true in every ring), and
  in the sharp form `C02_jac_row_eq_adjoint_pass_of_good` with that hypothesis restricted to the values the buffers can
  hold and the multipliers of the recording (true on doubles when the multipliers are finite: the buffers never hold
  `-0.0`; false for `m = ±Inf, NaN`: `Inf*0 = NaN`); refuted without it in `AdeptProofs/Refute/Tape.lean`
  (`C02_refute_rev_row_lawfree`, `C02_refute_rev_blocked_lawfree`).
* forward Jacobian = reverse Jacobian                                                            — needs the ring laws
  (`C02_jac_fwd_eq_rev`, `C02_fwd_routine_eq_rev_routine` above keep their `CommRing` statement): the two sweeps multiply
  the same factors in opposite association; refuted over a commutative, non-associative (truncating) multiplication in
  `C02_refute_fwd_eq_rev_lawfree`.  The property asks for "equal to rounding" there.
-/
namespace Adept.Tape
variable {R : Type} [CommRing R] [DecidableEq R]

/-- The tangent-linear sweep and the adjoint sweep of ANY tape are adjoint linear maps:
    `⟨fwd t g, h⟩ = ⟨g, rev t h⟩` (repeated indices, `lhs` among its own operands, re-assignment of a slot
    and the `a ≠ 0` short cut of the C++ included). -/
theorem C02_adjoint_tape (N : Nat) (t : List (Stmt R)) (g h : Vec R) (ht : WF t N)
    (hg : g.length = N) (hh : h.length = N) :
    dot N (fwd t g) h = dot N g (rev t h) := adjoint_tape N t g h ht hg hh

/-- Hence every Jacobian entry is the same whether computed column-wise by a unit-seeded forward pass
    or row-wise by a unit-seeded reverse pass. -/
theorem C02_jac_fwd_eq_rev (N : Nat) (t : List (Stmt R)) (x y : Nat) (ht : WF t N) (hx : x < N) (hy : y < N) :
    jacEntryFwd t N x y = jacEntryRev t N x y := jac_fwd_eq_rev N t x y ht hx hy

/-- `v·(J u) = (Jᵀ v)·u` for arbitrary seed vectors. -/
theorem C02_duality (N : Nat) (t : List (Stmt R)) (u v : Vec R) (ht : WF t N)
    (hu : u.length = N) (hv : v.length = N) :
    dot N v (fwd t u) = dot N (rev t v) u := duality N t u v ht hu hv

/-- The serial forward routine, for EVERY block width `W ≥ 1` and every `m`, `n` (whatever `n / W`, `n % W`):
    the full blocks and the leftover kernel together write entry (i,j) of the unblocked Jacobian into cell
    `i*depOff + j*indepOff`, and nothing else. -/
theorem C02_blocked_eq_unblocked_fwd (t : List (Stmt R)) (c : JacCfg) (indep dep : List Nat) (out : Out R)
    (hW : 0 < c.W) (ht : WF t c.maxGrad) (hi : ∀ x ∈ indep, x < c.maxGrad) (hd : ∀ y ∈ dep, y < c.maxGrad)
    (hl : LayoutOK dep.length indep.length c.depOff c.indepOff out.length) :
    JacSpec t c.maxGrad indep dep c.depOff c.indepOff out (jacFwdSerial t c indep dep out) :=
  jacFwdSerial_spec t c indep dep out hW ht hi hd hl

/-- The same for the serial reverse routine (blocks of `W` dependents, `m / W`, `m % W`). -/
theorem C02_blocked_eq_unblocked_rev (t : List (Stmt R)) (c : JacCfg) (indep dep : List Nat) (out : Out R)
    (hW : 0 < c.W) (ht : WF t c.maxGrad) (hi : ∀ x ∈ indep, x < c.maxGrad) (hd : ∀ y ∈ dep, y < c.maxGrad)
    (hl : LayoutOK dep.length indep.length c.depOff c.indepOff out.length) :
    JacSpec t c.maxGrad indep dep c.depOff c.indepOff out (jacRevSerial t c indep dep out) :=
  jacRevSerial_spec t c indep dep out hW ht hi hd hl

/-- Consequently forward and reverse routines return the same buffer. -/
theorem C02_fwd_routine_eq_rev_routine (t : List (Stmt R)) (c : JacCfg) (indep dep : List Nat) (out : Out R)
    (hW : 0 < c.W) (ht : WF t c.maxGrad) (hi : ∀ x ∈ indep, x < c.maxGrad) (hd : ∀ y ∈ dep, y < c.maxGrad)
    (hl : LayoutOK dep.length indep.length c.depOff c.indepOff out.length) :
    jacFwdSerial t c indep dep out = jacRevSerial t c indep dep out :=
  fwd_routine_eq_rev_routine t c indep dep out hW ht hi hd hl

/-- The two default raw-pointer layouts are admissible: dependents fastest (`dep_offset = 1`,
    `indep_offset = m`: column-major m×n) … -/
theorem C02_layout_colmajor (m n : Nat) : LayoutOK m n 1 m (m * n) := layout_colmajor m n

/-- … and independents fastest (`indep_offset = 1`, `dep_offset = n`: row-major, the Matrix forms). -/
theorem C02_layout_rowmajor (m n : Nat) : LayoutOK m n n 1 (m * n) := layout_rowmajor m n

/-- `Stack::jacobian` picks the forward routine iff `n ≤ m`. -/
theorem C02_chooser (n m : Nat) : chooseForward n m = true ↔ n ≤ m := by simp [chooseForward]

/-! ## Law-free layer -/

section LawFree
variable {R : Type} [Add R] [Mul R] [Zero R] [One R]

/-- Column by column, operation for operation: for every carrier with the four operations, every recording, every block
    width `W ≥ 1` and every `m`, `n`, the serial forward routine leaves in cell `(i,j)` exactly the expression
    `Stack::compute_tangent_linear` computes from the seed `e_{x_j}`, read at `y_i` (accumulator started at `0`, terms
    added in push order, `multiplier * gradient`), and touches no other cell.  No hypothesis on the recording. -/
theorem C02_jac_col_eq_tangent_pass_lawfree (t : List (Stmt R)) (c : JacCfg) (indep dep : List Nat) (out : Out R)
    (hW : 0 < c.W) (hl : LayoutOK dep.length indep.length c.depOff c.indepOff out.length) :
    LF.JacSpecE (fun i j => LF.entryFwd t c.maxGrad (indep.getD j 0) (dep.getD i 0)) dep.length indep.length
      c.depOff c.indepOff out (jacFwdSerial t c indep dep out) :=
  LF.jacFwdSerial_spec t c indep dep out hW hl

/-- Blocked = unblocked, forward, operation for operation: any two block widths give the same buffer (lane `j` of a block
    of width `W` computes exactly what a pass of width 1 computes; the full kernel and `kernel_extra` agree lane by lane). -/
theorem C02_blocked_eq_unblocked_fwd_lawfree (t : List (Stmt R)) (c : JacCfg) (W' : Nat) (indep dep : List Nat) (out : Out R)
    (hW : 0 < c.W) (hW' : 0 < W') (hl : LayoutOK dep.length indep.length c.depOff c.indepOff out.length) :
    jacFwdSerial t c indep dep out = jacFwdSerial t { c with W := W' } indep dep out :=
  (LF.jacFwdSerial_spec t c indep dep out hW hl).unique
    (LF.jacFwdSerial_spec t { c with W := W' } indep dep out hW' hl)

/-- Row by row, operation for operation, when the blocks have ONE lane (`ADEPT_MULTIPASS_SIZE = 1` without packets): the
    serial reverse routine leaves in cell `(i,j)` exactly what `Stack::compute_adjoint` computes from the seed `e_{y_i}`,
    read at `x_j` — for ANY zero test. -/
theorem C02_jac_row_eq_adjoint_pass_W1_lawfree (nz : R → Bool) (t : List (Stmt R)) (c : JacCfg) (indep dep : List Nat)
    (out : Out R) (hW : c.W = 1) (hl : LayoutOK dep.length indep.length c.depOff c.indepOff out.length) :
    LF.JacSpecE (fun i j => LF.entryRev nz t c.maxGrad (indep.getD j 0) (dep.getD i 0)) dep.length indep.length
      c.depOff c.indepOff out (jacRevSerialB nz t c indep dep out) :=
  (LF.jacRevSerialB_spec nz t c indep dep out (by omega) hl).congr
    (fun i j hi _ => LF.revVal_one_lane nz t c indep dep j i hW hi)

/-- The same for every block width, under the single hypothesis that adding `m * a` for an `a` the zero test calls zero
    changes nothing (`hskip`).  Every ring satisfies it; doubles satisfy it for finite `m` and `x ≠ -0.0`. -/
theorem C02_jac_row_eq_adjoint_pass_of_skip (nz : R → Bool) (hskip : ∀ x m a : R, nz a = false → x + m * a = x)
    (t : List (Stmt R)) (c : JacCfg) (indep dep : List Nat) (out : Out R)
    (hW : 0 < c.W) (hl : LayoutOK dep.length indep.length c.depOff c.indepOff out.length) :
    LF.JacSpecE (fun i j => LF.entryRev nz t c.maxGrad (indep.getD j 0) (dep.getD i 0)) dep.length indep.length
      c.depOff c.indepOff out (jacRevSerialB nz t c indep dep out) :=
  (LF.jacRevSerialB_spec nz t c indep dep out hW hl).congr
    (fun i j hi _ => LF.revVal_of_skip nz hskip t c indep dep j i hW hi)

/-- The sharp form, with an invariant: it is enough that `x + m*a = x` holds for the accumulator values `x ∈ G` the
    buffers can hold and the multipliers `m ∈ Mok` the recording contains (`LF.SkipOK`: `G` contains `0`, `1` and is closed
    under `x ↦ x + m*a`).  IEEE doubles in round-to-nearest satisfy `SkipOK (· != 0.0) (· is not -0.0) (· is finite)`, so
    on every recording with FINITE multipliers — overflow to `Inf`, `NaN` results, underflow, denormals and signed-zero
    multipliers included — every row of the reverse Jacobian is bit for bit the adjoint pass, for every block width. -/
theorem C02_jac_row_eq_adjoint_pass_of_good (nz : R → Bool) (G Mok : R → Prop) (ok : LF.SkipOK nz G Mok)
    (t : List (Stmt R)) (c : JacCfg) (indep dep : List Nat) (out : Out R)
    (hW : 0 < c.W) (hl : LayoutOK dep.length indep.length c.depOff c.indepOff out.length)
    (hm : ∀ s ∈ t, ∀ p ∈ s.ops, Mok p.1) :
    LF.JacSpecE (fun i j => LF.entryRev nz t c.maxGrad (indep.getD j 0) (dep.getD i 0)) dep.length indep.length
      c.depOff c.indepOff out (jacRevSerialB nz t c indep dep out) :=
  (LF.jacRevSerialB_spec nz t c indep dep out hW hl).congr
    (fun i j hi _ => LF.revVal_of_good ok t c indep dep j i hW hi hm)

/-- Hence, under `hskip`, blocked = unblocked for the reverse routine too. -/
theorem C02_blocked_eq_unblocked_rev_of_skip (nz : R → Bool) (hskip : ∀ x m a : R, nz a = false → x + m * a = x)
    (t : List (Stmt R)) (c : JacCfg) (W' : Nat) (indep dep : List Nat) (out : Out R)
    (hW : 0 < c.W) (hW' : 0 < W') (hl : LayoutOK dep.length indep.length c.depOff c.indepOff out.length) :
    jacRevSerialB nz t c indep dep out = jacRevSerialB nz t { c with W := W' } indep dep out :=
  (C02_jac_row_eq_adjoint_pass_of_skip nz hskip t c indep dep out hW hl).unique
    (C02_jac_row_eq_adjoint_pass_of_skip nz hskip t { c with W := W' } indep dep out hW' hl)

end LawFree

/-- Link of the two layers: over a commutative ring the serial reverse routine as compiled (block-wide zero flag) is the
    lane-wise routine the ring theorems above speak about, and the law-free entry is the ring entry. -/
theorem C02_rev_blockwise_eq_lanewise (t : List (Stmt R)) (c : JacCfg) (indep dep : List Nat) (out : Out R) (N x y : Nat) :
    jacRevSerialB (fun a => decide (a ≠ 0)) t c indep dep out = jacRevSerial t c indep dep out ∧
    LF.entryFwd t N x y = jacEntryFwd t N x y ∧
    LF.entryRev (fun a => decide (a ≠ 0)) t N x y = jacEntryRev t N x y :=
  ⟨LF.jacRevSerialB_ring t c indep dep out, rfl, by unfold LF.entryRev jacEntryRev; rw [LF.revZ_decide]; rfl⟩

/-! Non-vacuity: a two-statement tape with a repeated operand and a re-assigned slot is well formed,
and its Jacobian entry is not trivially zero. -/
example : WF ([⟨2, [((3 : Int), 0), (2, 1)]⟩, ⟨2, [(5, 2), (1, 0)]⟩] : List (Stmt Int)) 3 := by
  intro s hs; simp at hs; rcases hs with rfl | rfl <;> simp
example : jacEntryFwd ([⟨2, [((3 : Int), 0), (2, 1)]⟩, ⟨2, [(5, 2), (1, 0)]⟩] : List (Stmt Int)) 3 0 2 = 16 := by decide
example : jacEntryRev ([⟨2, [((3 : Int), 0), (2, 1)]⟩, ⟨2, [(5, 2), (1, 0)]⟩] : List (Stmt Int)) 3 0 2 = 16 := by decide

end Adept.Tape
