import AdeptProofs.Lemmas.Tape
/-!
# C02 — forward, reverse and Jacobian results of one recording agree

Property theorems only (helper lemmas: `AdeptProofs/Lemmas/Tape.lean`).  Everything is stated over an
arbitrary commutative ring `R` and over `AdeptModel/Tape.lean`, the transcription of
`Stack::compute_tangent_linear`, `Stack::compute_adjoint` and the Jacobian routines of `jacobian.cpp`;
the correspondence check (checks/c02.py) ties that model to the C++ on every run.
-/
namespace Adept.Tape
variable {R : Type} [CommRing R] [DecidableEq R]

/-- The tangent-linear sweep and the adjoint sweep of ANY tape are adjoint linear maps:
    `⟨fwd t g, h⟩ = ⟨g, rev t h⟩` (repeated indices, `lhs` among its own operands, re-assignment of a slot
    and the `a ≠ 0` short cut of the C++ included). -/
theorem C02_adjoint_tape (N : Nat) (t : List (Stmt R)) (g h : Vec R) (ht : WF t N)
    (hg : g.length = N) (hh : h.length = N) :
    dot N (fwd t g) h = dot N g (rev t h) := adjoint_tape N t g h ht hg hh

/-- Hence every Jacobian entry is the same whether computed column-wise by a unit-seeded forward pass
    or row-wise by a unit-seeded reverse pass. -/
theorem C02_jac_fwd_eq_rev (N : Nat) (t : List (Stmt R)) (x y : Nat) (ht : WF t N) (hx : x < N) (hy : y < N) :
    jacEntryFwd t N x y = jacEntryRev t N x y := jac_fwd_eq_rev N t x y ht hx hy

/-- `v·(J u) = (Jᵀ v)·u` for arbitrary seed vectors. -/
theorem C02_duality (N : Nat) (t : List (Stmt R)) (u v : Vec R) (ht : WF t N)
    (hu : u.length = N) (hv : v.length = N) :
    dot N v (fwd t u) = dot N (rev t v) u := duality N t u v ht hu hv

/-- The serial forward routine, for EVERY block width `W ≥ 1` and every `m`, `n` (whatever `n / W`, `n % W`):
    the full blocks and the leftover kernel together write entry (i,j) of the unblocked Jacobian into cell
    `i*depOff + j*indepOff`, and nothing else. -/
theorem C02_blocked_eq_unblocked_fwd (t : List (Stmt R)) (c : JacCfg) (indep dep : List Nat) (out : Out R)
    (hW : 0 < c.W) (ht : WF t c.maxGrad) (hi : ∀ x ∈ indep, x < c.maxGrad) (hd : ∀ y ∈ dep, y < c.maxGrad)
    (hl : LayoutOK dep.length indep.length c.depOff c.indepOff out.length) :
    JacSpec t c.maxGrad indep dep c.depOff c.indepOff out (jacFwdSerial t c indep dep out) :=
  jacFwdSerial_spec t c indep dep out hW ht hi hd hl

/-- The same for the serial reverse routine (blocks of `W` dependents, `m / W`, `m % W`). -/
theorem C02_blocked_eq_unblocked_rev (t : List (Stmt R)) (c : JacCfg) (indep dep : List Nat) (out : Out R)
    (hW : 0 < c.W) (ht : WF t c.maxGrad) (hi : ∀ x ∈ indep, x < c.maxGrad) (hd : ∀ y ∈ dep, y < c.maxGrad)
    (hl : LayoutOK dep.length indep.length c.depOff c.indepOff out.length) :
    JacSpec t c.maxGrad indep dep c.depOff c.indepOff out (jacRevSerial t c indep dep out) :=
  jacRevSerial_spec t c indep dep out hW ht hi hd hl

/-- Consequently forward and reverse routines return the same buffer. -/
theorem C02_fwd_routine_eq_rev_routine (t : List (Stmt R)) (c : JacCfg) (indep dep : List Nat) (out : Out R)
    (hW : 0 < c.W) (ht : WF t c.maxGrad) (hi : ∀ x ∈ indep, x < c.maxGrad) (hd : ∀ y ∈ dep, y < c.maxGrad)
    (hl : LayoutOK dep.length indep.length c.depOff c.indepOff out.length) :
    jacFwdSerial t c indep dep out = jacRevSerial t c indep dep out :=
  fwd_routine_eq_rev_routine t c indep dep out hW ht hi hd hl

/-- The two default raw-pointer layouts are admissible: dependents fastest (`dep_offset = 1`,
    `indep_offset = m`: column-major m×n) … -/
theorem C02_layout_colmajor (m n : Nat) : LayoutOK m n 1 m (m * n) := layout_colmajor m n

/-- … and independents fastest (`indep_offset = 1`, `dep_offset = n`: row-major, the Matrix forms). -/
theorem C02_layout_rowmajor (m n : Nat) : LayoutOK m n n 1 (m * n) := layout_rowmajor m n

/-- `Stack::jacobian` picks the forward routine iff `n ≤ m`. -/
theorem C02_chooser (n m : Nat) : chooseForward n m = true ↔ n ≤ m := by simp [chooseForward]

/-! Non-vacuity: a two-statement tape with a repeated operand and a re-assigned slot is well formed,
and its Jacobian entry is not trivially zero. -/
example : WF ([⟨2, [((3 : Int), 0), (2, 1)]⟩, ⟨2, [(5, 2), (1, 0)]⟩] : List (Stmt Int)) 3 := by
  intro s hs; simp at hs; rcases hs with rfl | rfl <;> simp
example : jacEntryFwd ([⟨2, [((3 : Int), 0), (2, 1)]⟩, ⟨2, [(5, 2), (1, 0)]⟩] : List (Stmt Int)) 3 0 2 = 16 := by decide
example : jacEntryRev ([⟨2, [((3 : Int), 0), (2, 1)]⟩, ⟨2, [(5, 2), (1, 0)]⟩] : List (Stmt Int)) 3 0 2 = 16 := by decide

end Adept.Tape
