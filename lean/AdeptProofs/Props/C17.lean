import AdeptProofs.Lemmas.Special
import AdeptProofs.Lemmas.SpecialTape
/-!
# C17 — special matrices behave as the dense matrices they stand for

Property theorems only; helper lemmas and the specification vocabulary (`WF`, `InPattern`, `isSymm`,
`Canonical`, `SM.Adm`, `RExpr.val`, `SM.Stores`, `AExpr.Stores`, `AExpr.AllAdm`, `AExpr.DimIs`, `AExpr.Plain`,
`SM.canonPositions`, `SM.addr`) live in `AdeptProofs/Lemmas/Special.lean` and `AdeptProofs/Lemmas/SpecialTape.lean`.

All statements are about
* `AdeptModel/Generated/Engines.lean` — the engine policy structs of `include/adept/SpecialMatrix.h`, regenerated
  from the header by `translate/engines.py` on every run of the check (so a changed formula breaks a proof), and
* `AdeptModel/Special.lean` — the hand-written transcription of the `SpecialMatrix` member functions that call them,
  tied to the C++ by the exhaustive correspondence run of `checks/c17.py`.

They hold for **every** engine the header defines (both storage orders / orientations, every band width
`LDiags, UDiags ≥ 0`), every dimension `≥ 1`, every offset `≥ pack_offset(dim)` (packed matrices, sub-matrices and
`diag_matrix()` views alike) and every `(i,j)`.  C++ `Index` arithmetic is modelled without overflow.

These files match the tree **with fixes/F-27.patch applied** (`BandEngine<COL_MAJOR,0,0>` specialised).  On the
unpatched tree `C17_rhs_traversal` is false for that engine at offset 0 and this file does not build — which is the
gate reporting finding F-27.
-/
namespace Adept.Special
open Adept.Engines

/-- the proofs below were written for exactly these engine structs; a new or renamed struct in the header changes
    the generated list and fails here -/
theorem C17_engines_covered :
    Engine.structs = ["SquareEngine<Order>", "SquareEngine<COL_MAJOR>", "BandEngineHelper<LDiags,UDiags>",
      "BandEngineHelper<0,0>", "BandEngineHelper<1,1>", "BandEngineHelper<2,2>", "BandEngine<Order,LDiags,UDiags>",
      "BandEngine<COL_MAJOR,LDiags,UDiags>", "BandEngine<COL_MAJOR,0,0>", "SymmEngine<Orient>",
      "SymmEngine<ROW_UPPER_COL_LOWER>", "LowerBase<Order>", "LowerEngine<Order>", "LowerEngine<COL_MAJOR>",
      "UpperBase<Order>", "UpperEngine<Order>", "UpperEngine<COL_MAJOR>"] := rfl

/-- zero_outside: `get_scalar` reads raw element `index(i,j,offset)` exactly inside the triangle / band
    (everywhere for square and symmetric engines) and a structural zero exactly outside — also when the band is
    wider than the matrix -/
theorem C17_zero_outside (e : Engine) (i j dim offset : Int) :
    (InPattern e i j → e.get_scalar i j dim offset = some (e.index i j offset)) ∧
    (¬ InPattern e i j → e.get_scalar i j dim offset = none) := get_scalar_spec e i j dim offset

/-- rvalue and lvalue access, passive and active, test the same condition and address the same raw element
    (lvalue access throws exactly where the rvalue is a structural zero) -/
theorem C17_access_overloads_agree (e : Engine) (i j dim offset : Int) :
    e.get_scalar_active i j dim offset = e.get_scalar i j dim offset ∧
    e.get_reference i j dim offset = e.get_scalar i j dim offset ∧
    e.get_reference_active i j dim offset = e.get_scalar i j dim offset := overloads_agree e i j dim offset

/-- stored_in_range: every stored position lies inside the allocation `[0, data_size(dim, offset))` -/
theorem C17_stored_in_range (e : Engine) (he : WF e) (dim offset i j : Int) (hd : 1 ≤ dim)
    (ho : e.pack_offset dim ≤ offset) (hi0 : 0 ≤ i) (hi : i < dim) (hj0 : 0 ≤ j) (hj : j < dim)
    (hp : InPattern e i j) :
    0 ≤ e.index i j offset ∧ e.index i j offset < e.data_size dim offset :=
  index_in_range e he dim offset i j hd ho hi0 hi hj0 hj hp

/-- stored_injective: two stored positions share a raw element only if they are the same position or, for a
    symmetric engine, mirror images -/
theorem C17_stored_injective (e : Engine) (he : WF e) (dim offset i j i' j' : Int)
    (ho : e.pack_offset dim ≤ offset) (hi0 : 0 ≤ i) (hi : i < dim) (hj0 : 0 ≤ j) (hj : j < dim)
    (hi0' : 0 ≤ i') (hi' : i' < dim) (hj0' : 0 ≤ j') (hj' : j' < dim)
    (hp : InPattern e i j) (hp' : InPattern e i' j')
    (h : e.index i j offset = e.index i' j' offset) :
    (i = i' ∧ j = j') ∨ (isSymm e = true ∧ i = j' ∧ j = i') :=
  index_injective e he dim offset i j i' j' ho hi0 hi hj0 hj hi0' hi' hj0' hj' hp hp' h

/-- mirror: a symmetric engine (either orientation) stores (i,j) and (j,i) in the same raw element -/
theorem C17_mirror (e : Engine) (hs : isSymm e = true) (i j offset : Int) :
    e.index i j offset = e.index j i offset := index_mirror e hs i j offset

/-- row_range: for every row, `get_row_range` enumerates exactly the columns of the positions a statement has to
    write (the pattern; for a symmetric engine the designated triangle), and `index_start + (j - j_start) *
    index_stride` is `index(i,j,offset)` for each of them -/
theorem C17_row_range (e : Engine) (he : WF e) (dim offset i : Int) (hi0 : 0 ≤ i) (hi : i < dim) :
    (∀ j, (e.get_row_range_j_start i dim offset ≤ j ∧ j < e.get_row_range_j_end_plus_1 i dim offset) ↔
          (0 ≤ j ∧ j < dim ∧ Canonical e i j)) ∧
    (∀ j, e.get_row_range_j_start i dim offset ≤ j → j < e.get_row_range_j_end_plus_1 i dim offset →
          e.get_row_range_index_start i dim offset
            + (j - e.get_row_range_j_start i dim offset) * e.get_row_range_index_stride i dim offset
          = e.index i j offset) := row_range_spec e he dim offset i hi0 hi

/-- every stored element is enumerated by `get_row_range`, directly or as the mirror image of an enumerated one -/
theorem C17_row_range_covers (e : Engine) (i j : Int) (hp : InPattern e i j) :
    Canonical e i j ∨ (isSymm e = true ∧ Canonical e j i) := canonical_cover e i j hp

/-- transpose_engine: `E::transpose_engine` on the same data, dimension and offset reads at (i,j) what `E` reads
    at (j,i); it is again admissible with the same packed offset and allocation size, has the transposed pattern,
    and transposing twice gives `E` back -/
theorem C17_transpose_engine (e : Engine) (he : WF e) (i j dim offset : Int) :
    e.transpose.get_scalar i j dim offset = e.get_scalar j i dim offset ∧
    WF e.transpose ∧ (InPattern e.transpose i j ↔ InPattern e j i) ∧
    e.transpose.pack_offset dim = e.pack_offset dim ∧ e.transpose.data_size dim offset = e.data_size dim offset ∧
    e.transpose.transpose = e :=
  ⟨transpose_get_scalar e i j dim offset, transpose_wf e he, transpose_pattern e i j,
   (transpose_sizes e he dim offset).1, (transpose_sizes e he dim offset).2, transpose_transpose e⟩

/-- the dense view: `M(i,j)` is the raw element `index(i,j,offset)` inside the pattern and 0 outside -/
theorem C17_read (m : SM) (d : Raw) (i j : Int) :
    (InPattern m.e i j → m.get d i j = d (m.base + m.e.index i j m.offset)) ∧
    (¬ InPattern m.e i j → m.get d i j = 0) := m.get_eq d i j

/-- symmetric engines read mirrored values: `M(i,j) = M(j,i)` -/
theorem C17_read_mirror (m : SM) (hs : isSymm m.e = true) (d : Raw) (i j : Int) : m.get d i j = m.get d j i := by
  rw [(m.get_eq d i j).1 (symm_all_pattern _ hs i j), (m.get_eq d j i).1 (symm_all_pattern _ hs j i),
    index_mirror m.e hs]

/-- write_hits_one: a write through `M(i,j)` (passive or active lvalue) changes the dense view at (i,j), at the
    mirror image for a symmetric engine, and nowhere else -/
theorem C17_write_hits_one (m : SM) (ha : m.Adm) (d : Raw) (act : Bool) (i j k v : Int)
    (hi0 : 0 ≤ i) (hi : i < m.dim) (hj0 : 0 ≤ j) (hj : j < m.dim) (href : m.ref act i j = some k)
    (i' j' : Int) (hi0' : 0 ≤ i') (hi' : i' < m.dim) (hj0' : 0 ≤ j') (hj' : j' < m.dim) :
    m.get (d.set k v) i' j' =
      if (i' = i ∧ j' = j) ∨ (isSymm m.e = true ∧ i' = j ∧ j' = i) then v else m.get d i' j' :=
  m.write_hits_one ha d act i j k v hi0 hi hj0 hj href i' j' hi0' hi' hj0' hj'

/-- lvalue access succeeds exactly on the pattern -/
theorem C17_lvalue (m : SM) (act : Bool) (i j : Int) :
    (InPattern m.e i j → m.ref act i j = some (m.base + m.e.index i j m.offset)) ∧
    (¬ InPattern m.e i j → m.ref act i j = none) := m.ref_eq act i j

/-- `M.T()` is the transposed dense matrix and is again an admissible object -/
theorem C17_transpose_view (m : SM) (ha : m.Adm) (d : Raw) (i j : Int) :
    m.T.get d i j = m.get d j i ∧ m.T.Adm := ⟨m.T_get d i j, m.T_adm ha⟩

/-- rhs_traversal: used as an operand of an expression (`set_location` at (i,j0), then `n` times
    `value_at_location` / `advance_location`), a special matrix delivers `M(i,j0), M(i,j0+1), …` -/
theorem C17_rhs_traversal (m : SM) (ha : m.Adm) (d : Raw) (i j0 : Int) (n : Nat) :
    m.rowFrom d (m.setLocation i j0) n = (List.range n).map (fun (t : Nat) => m.get d i (j0 + (t : Int))) :=
  m.rowFrom_spec ha d i n j0

/-- element-wise expressions over special matrices, dense matrices, scalar multiples and sums deliver, element by
    element, the same values as the same expression over the dense equivalents -/
theorem C17_expression_rows (r : RExpr) (hr : r.AllAdm) (i j0 : Int) (n : Nat) :
    r.row i j0 n = (List.range n).map (fun (t : Nat) => r.val i (j0 + (t : Int))) := r.row_spec hr i j0 n

/-- conversion to a dense `Matrix` (`Matrix D(expr)`, `D = expr`) stores `expr(i,j)` at every (i,j) -/
theorem C17_to_dense (r : RExpr) (hr : r.AllAdm) (n : Nat) :
    r.toDense n =
      (List.range n).flatMap (fun (i : Nat) => (List.range n).map (fun (j : Nat) => r.val (i : Int) (j : Int))) :=
  r.toDense_spec hr n

/-- assignment `M = expr` (from a dense matrix, a scalar or an expression; no aliasing): every position
    `get_row_range` enumerates receives the value of the right-hand side there and no other raw element changes -/
theorem C17_assign_raw (m : SM) (ha : m.Adm) (rhs : RExpr) (hr : rhs.AllAdm) (d : Raw) :
    (∀ i j : Int, 0 ≤ i → i < m.dim → 0 ≤ j → j < m.dim → Canonical m.e i j →
        m.assign rhs d (m.base + m.e.index i j m.offset) = rhs.val i j) ∧
    (∀ k : Int, (∀ i j : Int, 0 ≤ i → i < m.dim → 0 ≤ j → j < m.dim → Canonical m.e i j →
        k ≠ m.base + m.e.index i j m.offset) → m.assign rhs d k = d k) := m.assign_raw ha rhs hr d

/-- hence the dense view after `M = expr` is `expr` on the pattern (for a symmetric engine: the triangle its
    orientation designates, mirrored) and zero elsewhere -/
theorem C17_assign_view (m : SM) (ha : m.Adm) (rhs : RExpr) (hr : rhs.AllAdm) (d : Raw) (i j : Int)
    (hi0 : 0 ≤ i) (hi : i < m.dim) (hj0 : 0 ≤ j) (hj : j < m.dim) :
    (Canonical m.e i j → m.get (m.assign rhs d) i j = rhs.val i j) ∧
    (isSymm m.e = true → Canonical m.e j i → m.get (m.assign rhs d) i j = rhs.val j i) ∧
    (¬ InPattern m.e i j → m.get (m.assign rhs d) i j = 0) := m.assign_view ha rhs hr d i j hi0 hi hj0 hj

/-- diag_vector(k): when it does not throw, element `t` of the returned view is `M(t, t+k)` (`k ≥ 0`) resp.
    `M(t-k, t)` (`k < 0`), a stored position, and the view has `dim - |k|` elements; it throws exactly when the whole
    diagonal lies outside the pattern (where the dense equivalent is zero) -/
theorem C17_diag_vector (m : SM) (ha : m.Adm) (k : Int) :
    (∀ v, m.diag k = some v →
        v.len = (if k ≥ 0 then m.dim - k else m.dim + k) ∧
        ∀ (d : Raw) (t : Int), InPattern m.e (drow k t) (dcol k t) ∧
          d (v.base + t * v.stride) = m.get d (drow k t) (dcol k t)) ∧
    (m.diag k = none →
        ∀ (d : Raw) (t : Int), ¬ InPattern m.e (drow k t) (dcol k t) ∧ m.get d (drow k t) (dcol k t) = 0) :=
  m.diag_spec ha k

/-- submatrix_on_diagonal(a,b): throws exactly for an invalid range; otherwise the result is an admissible object
    of dimension `b-a+1` whose (i,j) is `M(a+i, a+j)` -/
theorem C17_submatrix (m : SM) (ha : m.Adm) (a b : Int) :
    (m.sub a b = none ↔ ¬ (0 ≤ a ∧ a ≤ b ∧ b < m.dim)) ∧
    (∀ x, m.sub a b = some x →
        x.Adm ∧ x.dim = b - a + 1 ∧ ∀ (d : Raw) (i j : Int), x.get d i j = m.get d (a + i) (a + j)) :=
  m.sub_spec ha a b

/-- `v.diag_matrix()` (Array.h) of a vector view with stride `s ≥ 1` — a `BandEngine<ROW_MAJOR,0,0>` matrix on the
    vector's data with offset `s-1` — is an admissible object (so all theorems above apply to it, packed or not) and
    its diagonal element (i,i) is the vector's element i -/
theorem C17_diag_matrix_view (n s b : Int) (hn : 1 ≤ n) (hs : 1 ≤ s) (d : Raw) (i : Int) :
    let m : SM := { e := .BandEngine_ROW_MAJOR 0 0, dim := n, offset := s - 1, base := b }
    m.Adm ∧ m.get d i i = d (b + i * s) := by
  intro m
  refine ⟨⟨⟨le_refl _, le_refl _⟩, hn, ?_⟩, ?_⟩
  · show Engine.pack_offset (.BandEngine_ROW_MAJOR 0 0) n ≤ s - 1
    engine_unfold; omega
  · have hp : InPattern m.e i i := by show i - 0 ≤ i ∧ i ≤ i + 0; omega
    rw [(m.get_eq d i i).1 hp]
    show d (b + Engine.index (.BandEngine_ROW_MAJOR 0 0) i i (s - 1)) = _
    engine_unfold
    congr 1; ring

/-- alias_conservative: `is_aliased` (the `data_range` overlap test of `SpecialMatrix::is_aliased_`, combined over
    the expression tree) errs only on the safe side.  If it answers false for the target's `data_range`, no stored
    element of the target is a stored element of any special-matrix leaf of the right-hand side — for every
    engine, size, offset and base address of target and leaves (blocks of one matrix, transposes, other matrices
    in the same Storage object).  The boundary matters: `data_end` points AT the last element, so the test must be
    `ptr_end >= mem1` (see the example below, where the two ranges share exactly one element). -/
theorem C17_alias_conservative (m : SM) (ha : m.Adm) (rhs : AExpr) (hr : rhs.AllAdm) (hp : rhs.Plain)
    (h : rhs.isAliased m.dataBegin m.dataEnd = false) (k : Int) (hk : m.Stores k) : ¬ rhs.Stores k :=
  fun hs => rhs.not_aliased_range hp _ _ h k (rhs.stores_in_range hr k hs) (m.stores_in_range ha k hk)

/-- self_assign_semantics: `M = rhs` (`SpecialMatrix::operator=(const Expression&)`: alias test, then either a
    temporary copy or the in-place row traversal in which every `next_value` reads the storage as the previous
    stores left it) where the leaves of `rhs` are special matrices in M's OWN Storage object — anywhere in it,
    overlapping M or not — written without `noalias` wrappers (`rhs.Plain`; a wrapper switches the test off, see
    `C17_compound_semantics` for the one the compound operators add).  The result is "evaluate the whole right-hand side, then store": every position
    `get_row_range` enumerates holds the value the right-hand side had there BEFORE the statement (`rhs.bind d`
    reads the old storage `d`), and no other raw element changes.  All engines, sizes, offsets. -/
theorem C17_self_assign_semantics (m : SM) (ha : m.Adm) (rhs : AExpr) (hr : rhs.AllAdm) (hp : rhs.Plain)
    (hn : rhs.DimIs m.dim) (d : Raw) :
    (∀ i j : Int, 0 ≤ i → i < m.dim → 0 ≤ j → j < m.dim → Canonical m.e i j →
        m.assignExpr rhs d (m.base + m.e.index i j m.offset) = (rhs.bind d).val i j) ∧
    (∀ k : Int, (∀ i j : Int, 0 ≤ i → i < m.dim → 0 ≤ j → j < m.dim → Canonical m.e i j →
        k ≠ m.base + m.e.index i j m.offset) → m.assignExpr rhs d k = d k) :=
  m.assignExpr_spec ha rhs hr hp hn d

/-- the same, as one equation: the statement leaves the storage exactly as the alias-free assignment
    (`C17_assign_raw`, `C17_assign_view`) from a snapshot of the storage taken before the statement -/
theorem C17_self_assign_snapshot (m : SM) (ha : m.Adm) (rhs : AExpr) (hr : rhs.AllAdm) (hp : rhs.Plain)
    (hn : rhs.DimIs m.dim) (d : Raw) (k : Int) : m.assignExpr rhs d k = m.assign (rhs.bind d) d k := by
  obtain ⟨s1, s2⟩ := m.assignExpr_spec ha rhs hr hp hn d
  obtain ⟨a1, a2⟩ := m.assign_raw ha (rhs.bind d) (rhs.bind_allAdm hr d) d
  by_cases hk : ∃ i j : Int, 0 ≤ i ∧ i < m.dim ∧ 0 ≤ j ∧ j < m.dim ∧ Canonical m.e i j ∧
      k = m.base + m.e.index i j m.offset
  · obtain ⟨i, j, hi0, hi, hj0, hj, hc, rfl⟩ := hk
    rw [s1 i j hi0 hi hj0 hj hc, a1 i j hi0 hi hj0 hj hc]
  · have hmiss : ∀ i j : Int, 0 ≤ i → i < m.dim → 0 ≤ j → j < m.dim → Canonical m.e i j →
        k ≠ m.base + m.e.index i j m.offset := fun i j hi0 hi hj0 hj hc heq => hk ⟨i, j, hi0, hi, hj0, hj, hc, heq⟩
    rw [s2 k hmiss, a2 k hmiss]

/-- compound_semantics: the compound operators `M += rhs`, `M -= rhs`, `M *= rhs`, `M /= rhs`
    (`*this = (noalias(*this) OP rhs)`: the alias test of `operator=` sees only `rhs`, the wrapped target is never
    reported) for a right-hand side whose leaves are special matrices ANYWHERE in M's own Storage object (M itself,
    its transpose, shifted sub-blocks, other blocks), dense operands, scalar multiples, sums and element-wise
    operations.  Every position `get_row_range` enumerates holds `old M(i,j) OP rhs(i,j)` with `rhs` evaluated over
    the storage as it was BEFORE the statement, and no other raw element changes (the zero structure and the rest of
    the Storage object are kept).  For every operation `OP : Int → Int → Int`, every engine, size, offset. -/
theorem C17_compound_semantics (m : SM) (ha : m.Adm) (o : BinOp) (rhs : AExpr) (hr : rhs.AllAdm) (hp : rhs.Plain)
    (hn : rhs.DimIs m.dim) (d : Raw) :
    (∀ i j : Int, 0 ≤ i → i < m.dim → 0 ≤ j → j < m.dim → Canonical m.e i j →
        m.compound o rhs d (m.base + m.e.index i j m.offset)
          = o.apply (d (m.base + m.e.index i j m.offset)) ((rhs.bind d).val i j)) ∧
    (∀ k : Int, (∀ i j : Int, 0 ≤ i → i < m.dim → 0 ≤ j → j < m.dim → Canonical m.e i j →
        k ≠ m.base + m.e.index i j m.offset) → m.compound o rhs d k = d k) :=
  m.compound_spec ha o rhs hr hp hn d

/-- the compound operators with a scalar on the right, `M += c`, `M -= c`, `M *= c`, `M /= c`: every position
    `get_row_range` enumerates holds `old M(i,j) OP c`, nothing else changes -/
theorem C17_compound_scalar_semantics (m : SM) (ha : m.Adm) (o : BinOp) (c : Int) (d : Raw) :
    (∀ i j : Int, 0 ≤ i → i < m.dim → 0 ≤ j → j < m.dim → Canonical m.e i j →
        m.compoundScalar o c d (m.base + m.e.index i j m.offset) = o.apply (d (m.base + m.e.index i j m.offset)) c) ∧
    (∀ k : Int, (∀ i j : Int, 0 ≤ i → i < m.dim → 0 ≤ j → j < m.dim → Canonical m.e i j →
        k ≠ m.base + m.e.index i j m.offset) → m.compoundScalar o c d k = d k) :=
  m.compoundScalar_spec ha o c d

/-- hence the dense view after `M OP= rhs` is `(M OP rhs)` computed on the dense equivalents from the values before
    the statement on the pattern (for a symmetric engine: the triangle its orientation designates, mirrored) and
    zero elsewhere -/
theorem C17_compound_view (m : SM) (ha : m.Adm) (o : BinOp) (rhs : AExpr) (hr : rhs.AllAdm) (hp : rhs.Plain)
    (hn : rhs.DimIs m.dim) (d : Raw) (i j : Int) (hi0 : 0 ≤ i) (hi : i < m.dim) (hj0 : 0 ≤ j) (hj : j < m.dim) :
    (Canonical m.e i j → m.get (m.compound o rhs d) i j = o.apply (m.get d i j) ((rhs.bind d).val i j)) ∧
    (isSymm m.e = true → Canonical m.e j i →
        m.get (m.compound o rhs d) i j = o.apply (m.get d j i) ((rhs.bind d).val j i)) ∧
    (¬ InPattern m.e i j → m.get (m.compound o rhs d) i j = 0) := by
  obtain ⟨h1, _⟩ := m.compound_spec ha o rhs hr hp hn d
  refine ⟨fun hc => ?_, fun hs hc => ?_, fun hnp => (m.get_eq _ i j).2 hnp⟩
  · rw [(m.get_eq _ i j).1 (canonical_pattern _ _ _ hc), (m.get_eq d i j).1 (canonical_pattern _ _ _ hc)]
    exact h1 i j hi0 hi hj0 hj hc
  · rw [(m.get_eq _ i j).1 (symm_all_pattern _ hs i j), (m.get_eq d j i).1 (symm_all_pattern _ hs j i),
      index_mirror m.e hs]
    exact h1 j i hj0 hj hi0 hi hc

/-- the positions a statement writes (`SM.canonPositions`: row by row, the columns `get_row_range` enumerates) are
    exactly the canonical positions inside the dimension, each listed once, and different positions have different
    addresses -/
theorem C17_written_positions (m : SM) (ha : m.Adm) :
    (∀ p : Int × Int, p ∈ m.canonPositions ↔
        (0 ≤ p.1 ∧ p.1 < m.dim ∧ 0 ≤ p.2 ∧ p.2 < m.dim ∧ Canonical m.e p.1 p.2)) ∧
    m.canonPositions.Nodup ∧ (m.canonPositions.map m.addr).Nodup :=
  ⟨m.mem_canonPositions ha, m.canonPositions_nodup, m.canonAddrs_nodup ha⟩

/-- active_scalar_statements: `A = x` for an ACTIVE special matrix (any engine / orientation / sub-block / `A.T()`
    lvalue) and an active scalar `x` with gradient index `gx`, while recording
    (`operator=(const Active<PType>&)`): the values stored are those of the passive scalar assignment (`val` at every
    canonical position, nothing else touched), and the tape receives exactly one statement per written position, in
    row order, whose left-hand side is `gradient_index() + index` of THAT stored element and whose single operation
    is `(1.0, gx)` -/
theorem C17_active_scalar_statements (m : SM) (ha : m.Adm) (val gx : Int) (d : Raw) :
    m.assignActiveScalar val gx d
      = (m.assign (.dense (fun _ _ => val)) d, m.canonPositions.map (fun p => (⟨m.addr p, [(1, gx)]⟩ : SM.Stmt))) :=
  m.assignActiveScalar_eq ha val gx d

/-- passive_scalar_statements: `A = c` for an active special matrix and a passive scalar
    (`assign_inactive_scalar<true>`, one `push_lhs_range` per row): one statement WITHOUT operations per written
    position, in row order, left-hand side = gradient index of the stored element -/
theorem C17_passive_scalar_statements (m : SM) (ha : m.Adm) :
    m.recPassiveScalar.map SM.Stmt.lhs = m.canonPositions.map m.addr ∧ ∀ s ∈ m.recPassiveScalar, s.ops = [] :=
  ⟨m.recPassiveScalar_lhs ha, m.recPassiveScalar_ops⟩

/-- active_expr_statements: `A = rhs` for an active special matrix and an active expression
    (`assign_expression_<true,true>`): one statement per written position, in row order; its left-hand side is the
    gradient index of the stored element, its operations are those the right-hand side pushes at that (i,j) -/
theorem C17_active_expr_statements (m : SM) (ha : m.Adm) (rhs : AExpr) (hr : rhs.AllAdm) :
    (m.recExpr rhs).map SM.Stmt.lhs = m.canonPositions.map m.addr ∧
    (m.recExpr rhs).map SM.Stmt.ops = m.canonPositions.map (fun p => (rhs.setLocation p.1 p.2).grads 1) :=
  ⟨m.recExpr_lhs ha rhs, m.recExpr_ops rhs hr⟩

/-- an active special-matrix leaf positioned at (i,j) pushes `(multiplier, gradient index of its stored element
    (i,j))` inside its pattern and nothing at a structural zero -/
theorem C17_leaf_gradient (m : SM) (ha : m.Adm) (l : SM.Loc) (i j mult : Int) :
    (InPattern m.e i j → ((AExpr.sm m l).setLocation i j).grads mult = [(mult, m.base + m.e.index i j m.offset)]) ∧
    (¬ InPattern m.e i j → ((AExpr.sm m l).setLocation i j).grads mult = []) := by
  simp only [AExpr.setLocation, AExpr.grads, SM.setLocation]
  rw [value_at_spec m.e ha.wf m.dim m.offset i j ha.dim_pos ha.off]
  exact ⟨fun h => by rw [(get_scalar_spec m.e i j m.dim m.offset).1 h],
         fun h => by rw [(get_scalar_spec m.e i j m.dim m.offset).2 h]⟩

/-! Non-vacuity.  The hypotheses (`WF`, `SM.Adm`, `AllAdm`) are met by every matrix the library can create; in
particular by the packed column-major diagonal matrix (offset 0) that finding F-27 was about, and the theorems
compute the right thing on it: `Matrix(D.T())` for `DiagMatrix D(2)` holding 1, 2 is `{{1,0},{0,2}}`. -/
example : (SM.packed (.BandEngine_ROW_MAJOR 0 0) 2).T.Adm := ⟨⟨by decide, by decide⟩, by decide, by decide⟩
example : (SM.packed (.BandEngine_ROW_MAJOR 0 0) 2).T.e = .BandEngine_COL_MAJOR 0 0 := rfl
example : (RExpr.sm (SM.packed (.BandEngine_ROW_MAJOR 0 0) 2).T ⟨fun k => k + 1⟩).toDense 2 = [1, 0, 0, 2] := by decide
example : (SM.packed (.BandEngine_COL_MAJOR 3 1) 5).Adm := ⟨⟨by decide, by decide⟩, by decide, by decide⟩
example : (SM.packed .SymmEngine_ROW_UPPER_COL_LOWER 4).Adm := ⟨trivial, by decide, by decide⟩
example : ∃ x, (SM.packed .SymmEngine_ROW_LOWER_COL_UPPER 4).sub 1 2 = some x ∧ x.offset = 4 ∧ x.dim = 2 :=
  ⟨_, rfl, rfl, rfl⟩
example : InPattern (.BandEngine_ROW_MAJOR 3 1) 4 1 ∧ ¬ InPattern (.BandEngine_ROW_MAJOR 3 1) 0 2 := by
  simp only [InPattern]; omega
example : ∃ v, (SM.packed (.BandEngine_ROW_MAJOR 1 1) 4).diag 1 = some v ∧ v.len = 3 := ⟨_, rfl, rfl⟩
example : (SM.packed (.BandEngine_ROW_MAJOR 1 1) 4).diag 2 = none := rfl

/-! Self-referential statements: `S.submatrix_on_diagonal(2,4) = 2.0*S.submatrix_on_diagonal(0,2)` for a 5x5
`SquareMatrix` whose raw element k holds k+1.  Source block and target block share exactly the corner element
S(2,2) (raw element 12): the source's `data_end` EQUALS the target's `data_begin`, `is_aliased` answers true, and
the statement stores 2*13 = 26 in S(4,4).  The in-place path alone (what a test `ptr_end > mem1` would select) reads
the already overwritten corner and stores 2*(2*1) = 4; for a block that does not touch the target the alias test
answers false and the in-place path is taken. -/
example : ∃ x y, (SM.packed .SquareEngine_ROW_MAJOR 5).sub 2 4 = some x ∧ (SM.packed .SquareEngine_ROW_MAJOR 5).sub 0 2 = some y ∧
    x.Adm ∧ y.Adm ∧ y.dataEnd = x.dataBegin ∧ (AExpr.scale (.leaf y) 2).isAliased x.dataBegin x.dataEnd = true ∧
    x.assignExpr (.scale (.leaf y) 2) ⟨fun k => k + 1⟩ 24 = 26 ∧
    x.assignInPlace (.scale (.leaf y) 2) ⟨fun k => k + 1⟩ 24 = 4 :=
  ⟨_, _, rfl, rfl, ⟨trivial, by decide, by decide⟩, ⟨trivial, by decide, by decide⟩, by decide, by decide, by decide,
    by decide⟩
example : ∃ x y, (SM.packed .SquareEngine_ROW_MAJOR 5).sub 3 4 = some x ∧ (SM.packed .SquareEngine_ROW_MAJOR 5).sub 0 1 = some y ∧
    (AExpr.scale (.leaf y) 2).isAliased x.dataBegin x.dataEnd = false ∧ (AExpr.scale (.leaf y) 2).DimIs x.dim :=
  ⟨_, _, rfl, rfl, by decide, rfl⟩

/-! Compound operators.  `S -= S.T()` for the 2x2 `SquareMatrix` holding 1,2,3,4: `operator-=` builds
`noalias(S) - S.T()`, the alias test sees `S.T()`, answers true, and the statement stores `{{0,-1},{1,0}}`.  With the
wrapper around the WHOLE right-hand side (`noalias(S - S.T())`, the variant the property excludes) the test is
switched off, the in-place traversal reads the already overwritten S(0,1) when it computes S(1,0), and the result is
`{{0,-1},{4,0}}` — so the hypothesis `rhs.Plain` of `C17_compound_semantics` cannot be dropped. -/
example : (SM.packed .SquareEngine_ROW_MAJOR 2).Adm ∧
    (AExpr.leaf (SM.packed .SquareEngine_ROW_MAJOR 2).T).Plain ∧ (AExpr.leaf (SM.packed .SquareEngine_ROW_MAJOR 2).T).AllAdm ∧
    (AExpr.leaf (SM.packed .SquareEngine_ROW_MAJOR 2).T).DimIs (SM.packed .SquareEngine_ROW_MAJOR 2).dim :=
  ⟨⟨trivial, by decide, by decide⟩, trivial, ⟨trivial, by decide, by decide⟩, rfl⟩
example : let S := SM.packed .SquareEngine_ROW_MAJOR 2
    (List.range 4).map (fun (k : Nat) => S.compound .sub (.leaf S.T) ⟨fun k => k + 1⟩ k) = [0, -1, 1, 0] ∧
    (List.range 4).map (fun (k : Nat) =>
      S.assignExpr (.noalias (.bin .sub (.leaf S) (.leaf S.T))) ⟨fun k => k + 1⟩ k) = [0, -1, 4, 0] := by decide
/-! Active matrices.  `A.T() = x` for a 3x3 active `LowerMatrix` A (the lvalue `A.T()` is a column-major upper
matrix on A's storage, index stride 3 along a row): the written positions are (0,0) (0,1) (0,2) (1,1) (1,2) (2,2) and
the recorded left-hand sides are the raw elements 0, 3, 6, 4, 7, 8 of A — not 0, 1, 2, … -/
example : (SM.packed .LowerEngine_ROW_MAJOR 3).T.canonPositions = [(0, 0), (0, 1), (0, 2), (1, 1), (1, 2), (2, 2)] ∧
    ((SM.packed .LowerEngine_ROW_MAJOR 3).T.assignActiveScalar 5 (-1) ⟨fun k => k + 1⟩).2.map SM.Stmt.lhs = [0, 3, 6, 4, 7, 8] := by
  decide

end Adept.Special
