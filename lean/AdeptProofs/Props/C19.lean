import AdeptProofs.Lemmas.Minimizer
/-!
# C19 — each algorithm finds the box-constrained minimum of a convex quadratic (soundness half)

What a proof can carry (DESIGN section 5, C19): uniqueness of the point satisfying the first-order conditions, so
that the oracle's "the KKT point" is meaningful; "converged" implies those conditions to the tolerance; a step that
reaches a face flags the variable that reached it.  That every algorithm DOES converge within an iteration budget
is explored against an exact active-set oracle (checks/c19.py), not proved.
-/
namespace Adept.Minimizer
set_option linter.unusedSectionVars false

variable {α : Type} [Field α] [LinearOrder α] [IsStrictOrderedRing α] {δ : Type}

/-- **kkt_unique**: for a positive definite `H` and any box, at most one point satisfies the first-order
    optimality conditions of `min 1/2 (x-c)ᵀ H (x-c)` subject to `lo ≤ x ≤ up` -/
theorem C19_kkt_unique {n : Nat} {H : Nat → Nat → α} {c lo up x y : Vec α} (hH : PosDef n H)
    (hx : KKT n H c lo up x) (hy : KKT n H c lo up y) : ∀ i < n, x i = y i :=
  kkt_unique_aux hH hx hy

/-- **no_false_capture** (Levenberg family, after F-18): the fraction of the step that is taken is the smallest
    collision fraction of both collision sets, and the variable that is flagged is one whose fraction it is — the
    argmin — so no variable is left free beyond the face it has reached, and the flagged one lands on its face -/
theorem C19_no_false_capture (n : Nat) (free : Nat → Bool) (x dx lo up : Vec α) (hx : Box n lo up x) :
    (∀ j ∈ colMin n free x dx lo, (lmCapture n free x dx lo up).frac ≤ fracMin x dx lo j) ∧
    (∀ j ∈ colMax n free x dx up, (lmCapture n free x dx lo up).frac ≤ fracMax x dx up j) ∧
    ((lmCapture n free x dx lo up).ty = -1 →
      (lmCapture n free x dx lo up).idx ∈ colMin n free x dx lo ∧
      (lmCapture n free x dx lo up).frac = fracMin x dx lo (lmCapture n free x dx lo up).idx ∧
      x (lmCapture n free x dx lo up).idx + dx (lmCapture n free x dx lo up).idx * (lmCapture n free x dx lo up).frac
        = lo (lmCapture n free x dx lo up).idx) ∧
    ((lmCapture n free x dx lo up).ty = 1 →
      (lmCapture n free x dx lo up).idx ∈ colMax n free x dx up ∧
      (lmCapture n free x dx lo up).frac = fracMax x dx up (lmCapture n free x dx lo up).idx ∧
      x (lmCapture n free x dx lo up).idx + dx (lmCapture n free x dx lo up).idx * (lmCapture n free x dx lo up).frac
        = up (lmCapture n free x dx lo up).idx) := by
  have h := lmCapture_spec n free (dx := dx) hx
  have hl := lmCapture_lands n free (dx := dx) hx
  exact ⟨h.le_min, h.le_max, fun ht => ⟨(h.lower ht).1, (h.lower ht).2, hl.1 ht⟩,
    fun ht => ⟨(h.upper ht).1, (h.upper ht).2, hl.2 ht⟩⟩

/-- the nearest-bound loop of the line-search minimizers names a variable that attains the minimal distance -/
theorem C19_no_false_capture_ls (n : Nat) (big nd : α) (x d lo up : Vec α) (i : Nat)
    (hi : (nearestBound n big nd x d lo up).idx = some i) :
    ∀ j < n, (d j > 0 ∧ up j < big → (nearestBound n big nd x d lo up).b ≤ nd * (up j - x j) / d j) ∧
             (d j < 0 ∧ lo j > -big → (nearestBound n big nd x d lo up).b ≤ nd * (lo j - x j) / d j) :=
  (nearestBound_spec n big nd x d lo up).2

/-- **converged_is_kkt** (line-search minimizers, exact form).  Suppose the pass that declares convergence tested
    the true gradient `qGrad` of the quadratic at a state `x` in the box with truthful flags, with threshold `0` and a
    definite norm (flags take the values 0, ∓1: `hrange`).  Then `x` satisfies the first-order conditions — hence, by `C19_kkt_unique`, it is THE
    constrained minimum.  (For a positive threshold the same argument gives the conditions up to the threshold:
    `C18_converged_means`.) -/
theorem C19_converged_is_kkt (S : Settings α) (nrm : Vec α → α) (D : DirStrategy α δ) (st1 : DSt α δ)
    (H : Nat → Nat → α) (c : Vec α)
    (hn : NormDef S.n nrm) (htol : S.tol = 0)
    (hbox : Box S.n S.lo S.up st1.x) (hvalid : ValidBounds S.n S.lo S.up)
    (hg : ∀ i < S.n, st1.g i = qGrad S.n H c st1.x i)
    (hflags : FlagsTrue S.n S.lo S.up st1.x st1.bs)
    (hrange : ∀ i < S.n, st1.bs i = 0 ∨ st1.bs i = -1 ∨ st1.bs i = 1)
    (h1 : st1.status = .notYet) (h : (lsRelease S nrm D st1).status = .success) :
    KKT S.n H c S.lo S.up st1.x := by
  obtain ⟨hgn, hsign⟩ := lsRelease_converged h1 h
  have hbs : (lsRelease S nrm D st1).bs = releaseCG st1.bs st1.g := rfl
  -- the masked gradient vanishes
  have hzero : ∀ i < S.n, (lsRelease S nrm D st1).bs i = 0 → st1.g i = 0 := by
    intro i hi hb
    unfold gradNorm at hgn
    have hnf : nFree S.n (lsRelease S nrm D st1).bs > 0 := by
      unfold nFree
      apply List.length_pos_of_mem (a := i)
      simp [List.mem_filter, hi, hb]
    rw [if_pos hnf, htol] at hgn
    have h0 := (hn _).2 (le_antisymm hgn (hn _).1) i hi
    simpa [maskGrad, hb] using h0
  refine ⟨hbox, fun i hi => ?_⟩
  have hfi := hflags i hi
  have hvi := hvalid i hi
  rw [← hg i hi]
  -- status of variable i after the release test
  have hrel : (lsRelease S nrm D st1).bs i = st1.bs i ∨ (lsRelease S nrm D st1).bs i = 0 := by
    rw [hbs]; simp only [releaseCG]; split
    · exact Or.inr rfl
    · exact Or.inl rfl
  -- gradient sign information for each possible flag
  have hinfo : (st1.x i = S.lo i → 0 ≤ st1.g i) ∧ (st1.x i = S.up i → st1.g i ≤ 0) ∧
      (S.lo i < st1.x i → st1.x i < S.up i → st1.g i = 0) := by
    by_cases hb0 : (lsRelease S nrm D st1).bs i = 0
    · have hz := hzero i hi hb0
      exact ⟨fun _ => hz.ge, fun _ => hz.le, fun _ _ => hz⟩
    · rcases hrel with hr | hr
      · have hs := hsign i
        rw [hr] at hs hb0
        rcases hrange i hi with h0 | hm | hp
        · exact absurd h0 hb0
        · have hx := hfi.1 hm
          refine ⟨fun _ => hs.1 hm, fun hu => ?_, fun hl _ => ?_⟩
          · rw [hx] at hu; exact absurd hu hvi.ne
          · rw [hx] at hl; exact absurd hl (lt_irrefl _)
        · have hx := hfi.2 hp
          refine ⟨fun hl => ?_, fun _ => hs.2 hp, fun _ hu => ?_⟩
          · rw [hx] at hl; exact absurd hl hvi.ne'
          · rw [hx] at hu; exact absurd hu (lt_irrefl _)
      · exact absurd hr hb0
  exact hinfo

end Adept.Minimizer
