import AdeptProofs.Lemmas.ArrayAD
/-!
Helper lemmas for the reduction part of C03: the statements recorded by `reduce_active` / `reduce_dimension`
(one accumulator statement for sum, the `t·dx + x·dt` form for product, overwriting statements for minval/maxval)
have the same tangent-linear map, and leave the same values, as the scalar accumulation loop.
-/
set_option linter.unusedSectionVars false
set_option linter.unusedSimpArgs false
set_option linter.unusedVariables false
namespace Adept.ArrayAD
open Adept.Tape

variable {R : Type} [Field R] [DecidableEq R] [LT R] [DecidableLT R]

/-! ### memory -/

/-- the cell exists in its allocation -/
def Mem.HasCell (m : Mem R) (c : Cell) : Prop :=
  ∃ x, m.sto? c.1 = some x ∧ 0 ≤ c.2 ∧ c.2.toNat < x.cells.length

theorem val_store_self (m : Mem R) (c : Cell) (v : R) (h : m.HasCell c) : (m.store c v).val c = v := by
  obtain ⟨x, hx, h0, hl⟩ := h
  unfold Mem.val
  rw [store_sto?, hx]
  have hn : ¬ c.2 < 0 := by omega
  simp [hn, hl]

theorem val_store_other (m : Mem R) (c c' : Cell) (v : R) (h : c'.1 ≠ c.1) : (m.store c v).val c' = m.val c' := by
  unfold Mem.val
  rw [store_sto?]
  cases m.sto? c'.1 with
  | none => rfl
  | some x => simp [h]

theorem hasCell_store (m : Mem R) (c : Cell) (v : R) (c' : Cell) (h : m.HasCell c') : (m.store c v).HasCell c' := by
  obtain ⟨x, hx, h0, hl⟩ := h
  unfold Mem.HasCell
  rw [store_sto?, hx]
  simp only [Option.map_some]
  refine ⟨_, rfl, h0, ?_⟩
  split <;> simp [hl]

theorem store_store (m : Mem R) (c : Cell) (v v' : R) : (m.store c v).store c v' = m.store c v' := by
  unfold Mem.store
  by_cases hn : c.2 < 0
  · simp [hn]
  · simp only [hn, if_false, List.map_map]
    congr 1
    funext p
    simp only [Function.comp]
    by_cases hp : p.1 = c.1
    · simp [hp]
    · simp [hp]

theorem eval_store_other (x : SExpr R) (m : Mem R) (c : Cell) (v : R) (h : ∀ c' ∈ x.cellsOf, c'.1 ≠ c.1) :
    x.eval (m.store c v) = x.eval m := by
  induction x with
  | cell c' => simp only [SExpr.eval]; exact val_store_other m c c' v (h c' (by simp [SExpr.cellsOf]))
  | const y => rfl
  | add a b iha ihb | sub a b iha ihb | mul a b iha ihb | div a b iha ihb | max a b iha ihb | min a b iha ihb =>
    simp only [SExpr.cellsOf, List.mem_append] at h
    simp only [SExpr.eval, iha (fun c' hc => h c' (Or.inl hc)), ihb (fun c' hc => h c' (Or.inr hc))]
  | neg a ih | noalias a ih | abs a ih =>
    simp only [SExpr.cellsOf] at h
    simp only [SExpr.eval, ih h]

theorem grad_store_other (x : SExpr R) (m : Mem R) (c : Cell) (v : R) (w : Option R)
    (h : ∀ c' ∈ x.cellsOf, c'.1 ≠ c.1) : x.grad (m.store c v) w = x.grad m w := by
  induction x generalizing w with
  | cell c' => simp only [SExpr.grad, store_isActive, store_gidx]
  | const y => rfl
  | add a b iha ihb | sub a b iha ihb | mul a b iha ihb | div a b iha ihb | max a b iha ihb | min a b iha ihb =>
    simp only [SExpr.cellsOf, List.mem_append] at h
    have ha := fun c' hc => h c' (Or.inl hc)
    have hb := fun c' hc => h c' (Or.inr hc)
    simp only [SExpr.grad, iha _ ha, ihb _ hb, eval_store_other a m c v ha, eval_store_other b m c v hb]
  | neg a ih | noalias a ih =>
    simp only [SExpr.cellsOf] at h
    simp only [SExpr.grad, ih _ h]
  | abs a ih =>
    simp only [SExpr.cellsOf] at h
    simp only [SExpr.grad, ih _ h, eval_store_other a m c v h]

/-- the gradient indices pushed by an element are those of its cells -/
theorem grad_indices (x : SExpr R) (m : Mem R) (T : Nat) (w : Option R) (h : ∀ c' ∈ x.cellsOf, m.gidx c' ≠ T) :
    ∀ p ∈ x.grad m w, p.2 ≠ T := by
  induction x generalizing w with
  | cell c' =>
    intro p hp
    simp only [SExpr.grad] at hp
    split at hp
    · simp at hp; rw [hp]; exact h c' (by simp [SExpr.cellsOf])
    · simp at hp
  | const y => intro p hp; simp [SExpr.grad] at hp
  | add a b iha ihb | sub a b iha ihb | mul a b iha ihb | div a b iha ihb | max a b iha ihb | min a b iha ihb =>
    simp only [SExpr.cellsOf, List.mem_append] at h
    intro p hp
    simp only [SExpr.grad, List.mem_append] at hp
    cases hp with
    | inl hp =>
      first
        | exact iha _ (fun c' hc => h c' (Or.inl hc)) p hp
        | (split at hp
           · exact iha _ (fun c' hc => h c' (Or.inl hc)) p hp
           · simp at hp)
    | inr hp =>
      first
        | exact ihb _ (fun c' hc => h c' (Or.inr hc)) p hp
        | (split at hp
           · simp at hp
           · exact ihb _ (fun c' hc => h c' (Or.inr hc)) p hp)
  | neg a ih | noalias a ih | abs a ih =>
    simp only [SExpr.cellsOf] at h
    intro p hp
    simp only [SExpr.grad] at hp
    exact ih _ h p hp

/-! ### the tangent-linear sweep -/

theorem fwd_append (a b : List (Stmt R)) (g : Vec R) : fwd (a ++ b) g = fwd b (fwd a g) := by
  unfold fwd; rw [List.foldl_append]

theorem set_rd_self (g : Vec R) (T : Nat) (h : T < g.length) : g.set T (rd g T) = g := by
  rw [rd_eq_getElem g T h]; exact List.set_getElem_self h

theorem rhsVal_cons (p : R × Nat) (ops : List (R × Nat)) (g : Vec R) :
    rhsVal (p :: ops) g = p.1 * rd g p.2 + rhsVal ops g := by
  rw [rhsVal_eq_sum, rhsVal_eq_sum, List.map_cons, List.sum_cons]

theorem rhsVal_nil (g : Vec R) : rhsVal ([] : List (R × Nat)) g = 0 := rfl

theorem rhsVal_append (a b : List (R × Nat)) (g : Vec R) : rhsVal (a ++ b) g = rhsVal a g + rhsVal b g := by
  rw [rhsVal_eq_sum, rhsVal_eq_sum, rhsVal_eq_sum, List.map_append, List.sum_append]

theorem rhsVal_set_other (ops : List (R × Nat)) (g : Vec R) (T : Nat) (v : R) (h : ∀ p ∈ ops, p.2 ≠ T) :
    rhsVal ops (g.set T v) = rhsVal ops g := by
  rw [rhsVal_eq_sum, rhsVal_eq_sum]
  congr 1
  apply List.map_congr_left
  intro p hp
  rw [rd_set_ne g T p.2 v (h p hp)]

theorem elemStep_mem (s : St R) (c : Cell) (x : SExpr R) : (elemStep s c x).mem = s.mem.store c (x.eval s.mem) := rfl
theorem elemStep_tape (s : St R) (c : Cell) (x : SExpr R) :
    (elemStep s c x).tape = s.tape ++ [⟨s.mem.gidx c, x.grad s.mem none⟩] := rfl

theorem St.ext' (a b : St R) (h1 : a.mem = b.mem) (h2 : a.tape = b.tape) : a = b := by
  cases a; cases b; simp_all

/-! ### record vs loop, over an arbitrary list of element expressions -/

/-- what `reduce_active` (or one strip of `reduce_dimension`) records and leaves in `tot` over the elements `xs` -/
def recordCore (f : RFun) (tot : Cell) (xs : List (SExpr R)) (n : Nat) (s : St R) : St R :=
  let s0 : St R := { s with tape := s.tape ++ [⟨s.mem.gidx tot, []⟩] }
  let a0 : Acc R := ⟨s0, firstValue f, (f == .minval || f == .maxval), []⟩
  let a1 := finishActive f tot n (xs.foldl (accumulate f tot) a0)
  { a1.st with mem := a1.st.mem.store tot a1.val }

/-- the accumulator is a live active cell whose allocation and gradient index no element uses -/
structure Cond (m : Mem R) (tot : Cell) (xs : List (SExpr R)) : Prop where
  has : m.HasCell tot
  act : m.isActive tot.1 = true
  sid : ∀ x ∈ xs, ∀ c ∈ x.cellsOf, c.1 ≠ tot.1
  gix : ∀ x ∈ xs, ∀ c ∈ x.cellsOf, m.gidx c ≠ m.gidx tot

/-- same values, and tapes with the same tangent-linear map on every gradient vector that has slot `T` -/
def Eqv (T : Nat) (a b : St R) : Prop :=
  a.mem = b.mem ∧ ∀ g : Vec R, T < g.length → fwd a.tape g = fwd b.tape g

theorem foldl_rel {α β γ : Type} (Rel : α → β → Prop) (f : α → γ → α) (g : β → γ → β) (l : List γ) (a : α) (b : β)
    (h0 : Rel a b) (hstep : ∀ a b x, x ∈ l → Rel a b → Rel (f a x) (g b x)) : Rel (l.foldl f a) (l.foldl g b) := by
  induction l generalizing a b with
  | nil => exact h0
  | cons x l ih =>
    simp only [List.foldl_cons]
    exact ih _ _ (hstep a b x (List.mem_cons_self ..) h0) (fun a b y hy => hstep a b y (List.mem_cons_of_mem _ hy))

theorem cellTot_grad (m : Mem R) (tot : Cell) (w : Option R) (h : m.isActive tot.1 = true) :
    (SExpr.cell tot : SExpr R).grad m w = [(w.getD 1, m.gidx tot)] := by
  simp [SExpr.grad, h]

/-- sum: one statement carrying every element's operations ≃ `tot = 0; tot = tot + x …` -/
theorem sum_core (tot : Cell) (xs : List (SExpr R)) (n : Nat) (sr sl : St R) (hc : Cond sr.mem tot xs)
    (he : Eqv (sr.mem.gidx tot) sr sl) :
    Eqv (sr.mem.gidx tot) (recordCore .sum tot xs n sr) (runProg sl (loopStmts .sum tot xs n)) := by
  obtain ⟨hm, hf⟩ := he
  set m := sr.mem with hmdef
  set T := m.gidx tot with hT
  let sr0 : St R := { sr with tape := sr.tape ++ [⟨T, []⟩] }
  let Rel : Acc R → St R → Prop := fun a l =>
    a.st = sr0 ∧ l.mem = m.store tot a.val ∧ (∀ p ∈ a.pend, p.2 ≠ T) ∧
    ∃ front, l.tape = sl.tape ++ ⟨T, []⟩ :: front ∧
      ∀ h : Vec R, T < h.length → fwd front h = h.set T (rd h T + rhsVal a.pend h)
  have hrel : Rel (xs.foldl (accumulate .sum tot) ⟨sr0, 0, false, []⟩)
      (xs.foldl (fun l x => elemStep l tot (.add (.cell tot) x)) (elemStep sl tot (.const 0))) := by
    apply foldl_rel Rel
    · refine ⟨rfl, ?_, by simp, [], ?_, ?_⟩
      · rw [elemStep_mem, ← hm]; rfl
      · rw [elemStep_tape, ← hm]; rfl
      · intro h hh; simp [fwd_nil, rhsVal_nil, set_rd_self h T hh]
    · intro a l x hx ⟨r1, r2, r3, front, r4, r5⟩
      have hxs := hc.sid x hx
      have hxg := hc.gix x hx
      have hmem : a.st.mem = m := by rw [r1]
      have hstore_act : l.mem.isActive tot.1 = true := by rw [r2, store_isActive]; exact hc.act
      have hgx : x.grad l.mem none = x.grad m none := by rw [r2, grad_store_other x m tot a.val none hxs]
      have hex : x.eval l.mem = x.eval m := by rw [r2, eval_store_other x m tot a.val hxs]
      have hvt : l.mem.val tot = a.val := by rw [r2, val_store_self m tot a.val hc.has]
      have hgi : l.mem.gidx tot = T := by rw [r2, store_gidx]
      refine ⟨?_, ?_, ?_, front ++ [⟨T, (1, T) :: x.grad m none⟩], ?_, ?_⟩
      · simp only [accumulate]; exact r1
      · simp only [accumulate, elemStep_mem, SExpr.eval, hmem, hex, hvt]
        rw [r2, store_store]
      · simp only [accumulate, hmem]
        intro p hp
        rw [List.mem_append] at hp
        cases hp with
        | inl hp => exact r3 p hp
        | inr hp => exact grad_indices x m T none hxg p hp
      · rw [elemStep_tape, r4, hgi]
        simp only [SExpr.grad, hgi, hgx, Option.getD_none, hstore_act, if_true]
        simp
      · intro h hh
        simp only [accumulate, hmem]
        rw [fwd_append, r5 h hh, fwd_cons, fwd_nil]
        simp only [fwdStep]
        have hl : T < (h.set T (rd h T + rhsVal a.pend h)).length := by simpa using hh
        rw [rhsVal_cons, rd_set_self _ _ _ hh,
          rhsVal_set_other _ _ _ _ (grad_indices x m T none hxg), List.set_set, rhsVal_append]
        congr 1
        ring
  obtain ⟨r1, r2, r3, front, r4, r5⟩ := hrel
  have hloop : runProg sl (loopStmts .sum tot xs n) =
      xs.foldl (fun l x => elemStep l tot (.add (.cell tot) x)) (elemStep sl tot (.const 0)) := by
    simp only [runProg, loopStmts, List.foldl_cons, List.foldl_map]
    rfl
  rw [hloop]
  set a := xs.foldl (accumulate .sum tot) ⟨sr0, 0, false, []⟩ with ha
  have hrec : recordCore .sum tot xs n sr =
      ⟨m.store tot a.val, sr.tape ++ [⟨T, []⟩] ++ [⟨T, a.pend⟩]⟩ := by
    simp only [recordCore, finishActive, firstValue]
    have : (RFun.sum == RFun.minval || RFun.sum == RFun.maxval) = false := by decide
    rw [this, ← ha, r1]
  rw [hrec]
  refine ⟨r2.symm, ?_⟩
  intro g hg
  have hg0 : T < (fwd sr.tape g).length := by rw [fwd_length]; exact hg
  rw [r4, fwd_append, fwd_append, fwd_append, ← hf g hg, fwd_cons, fwd_cons, fwd_nil, fwd_cons, fwd_nil]
  simp only [fwdStep, rhsVal_nil]
  have hl : T < ((fwd sr.tape g).set T 0).length := by simpa using hg0
  rw [r5 _ hl, rd_set_self _ _ _ hg0, rhsVal_set_other _ _ _ _ r3, List.set_set, List.set_set, zero_add]

theorem Eqv.elemStep {T : Nat} {a b : St R} (h : Eqv T a b) (c : Cell) (x : SExpr R) :
    Eqv T (elemStep a c x) (elemStep b c x) := by
  obtain ⟨h1, h2⟩ := h
  refine ⟨by rw [elemStep_mem, elemStep_mem, h1], ?_⟩
  intro g hg
  rw [elemStep_tape, elemStep_tape, fwd_append, fwd_append, h2 g hg, h1]

/-- mean: the sum, then one more statement `tot = tot·(1/n)` on both sides -/
theorem mean_core (tot : Cell) (xs : List (SExpr R)) (n : Nat) (sr sl : St R) (hc : Cond sr.mem tot xs)
    (he : Eqv (sr.mem.gidx tot) sr sl) :
    Eqv (sr.mem.gidx tot) (recordCore .mean tot xs n sr) (runProg sl (loopStmts .mean tot xs n)) := by
  have hsum := sum_core tot xs n sr sl hc he
  have hloop : runProg sl (loopStmts .mean tot xs n) =
      elemStep (runProg sl (loopStmts .sum tot xs n)) tot (.mul (.cell tot) (.const (1 / (n : R)))) := by
    simp only [runProg, loopStmts, List.foldl_append, List.foldl_cons, List.foldl_nil]
    rfl
  have hacc : ∀ (a : Acc R), xs.foldl (accumulate .mean tot) a = xs.foldl (accumulate .sum tot) a := by
    intro a; congr 1
  have hrec : recordCore .mean tot xs n sr =
      elemStep (recordCore .sum tot xs n sr) tot (.mul (.cell tot) (.const (1 / (n : R)))) := by
    have hb1 : (RFun.mean == RFun.minval || RFun.mean == RFun.maxval) = false := by decide
    have hb2 : (RFun.sum == RFun.minval || RFun.sum == RFun.maxval) = false := by decide
    simp only [recordCore, finishActive, firstValue, hacc, hb1, hb2]
    set a := xs.foldl (accumulate .sum tot) ⟨{ sr with tape := sr.tape ++ [⟨sr.mem.gidx tot, []⟩] }, 0, false, []⟩ with ha
    have hmem : a.st.mem = sr.mem := by
      have : ∀ (l : List (SExpr R)) (a : Acc R), (l.foldl (accumulate .sum tot) a).st = a.st := by
        intro l
        induction l with
        | nil => intro a; rfl
        | cons x l ih => intro a; rw [List.foldl_cons, ih]; rfl
      rw [ha, this]
    apply St.ext'
    · simp only [elemStep_mem, SExpr.eval, hmem]
      rw [val_store_self _ _ _ hc.has, store_store]
    · simp only [elemStep_tape, SExpr.grad, SExpr.eval, hmem, store_gidx, store_isActive, hc.act, if_true, Option.getD_some]
      simp
  rw [hloop, hrec]
  exact hsum.elemStep _ _

/-- product: `d tot = t·dx + x·d tot` per element ≃ `tot = 1; tot = tot·x …` -/
theorem product_core (tot : Cell) (xs : List (SExpr R)) (n : Nat) (sr sl : St R) (hc : Cond sr.mem tot xs)
    (he : Eqv (sr.mem.gidx tot) sr sl) :
    Eqv (sr.mem.gidx tot) (recordCore .product tot xs n sr) (runProg sl (loopStmts .product tot xs n)) := by
  obtain ⟨hm, hf⟩ := he
  let Rel : Acc R → St R → Prop := fun a l =>
    a.st.mem = sr.mem ∧ a.pend = [] ∧ l.mem = sr.mem.store tot a.val ∧
    ∃ fr fl, a.st.tape = sr.tape ++ ⟨(sr.mem.gidx tot), []⟩ :: fr ∧ l.tape = sl.tape ++ ⟨(sr.mem.gidx tot), []⟩ :: fl ∧
      ∀ h : Vec R, fwd fr h = fwd fl h
  have hrel : Rel (xs.foldl (accumulate .product tot) ⟨{ sr with tape := sr.tape ++ [⟨(sr.mem.gidx tot), []⟩] }, 1, false, []⟩)
      (xs.foldl (fun l x => elemStep l tot (.mul (.cell tot) x)) (elemStep sl tot (.const 1))) := by
    apply foldl_rel Rel
    · refine ⟨rfl, rfl, ?_, [], [], rfl, ?_, fun h => rfl⟩
      · rw [elemStep_mem, ← hm]; rfl
      · rw [elemStep_tape, ← hm]; rfl
    · intro a l x hx ⟨r1, r2, r3, fr, fl, r4, r5, r6⟩
      have hxs := hc.sid x hx
      have hstore_act : l.mem.isActive tot.1 = true := by rw [r3, store_isActive]; exact hc.act
      have hex : x.eval l.mem = x.eval sr.mem := by rw [r3, eval_store_other x sr.mem tot a.val hxs]
      have hvt : l.mem.val tot = a.val := by rw [r3, val_store_self sr.mem tot a.val hc.has]
      have hgi : l.mem.gidx tot = (sr.mem.gidx tot) := by rw [r3, store_gidx]
      have hgx : ∀ w, x.grad l.mem w = x.grad sr.mem w := fun w => by rw [r3, grad_store_other x sr.mem tot a.val w hxs]
      refine ⟨?_, ?_, ?_, fr ++ [⟨(sr.mem.gidx tot), x.grad sr.mem (some a.val) ++ [(x.eval sr.mem, (sr.mem.gidx tot))]⟩],
        fl ++ [⟨(sr.mem.gidx tot), (x.eval sr.mem, (sr.mem.gidx tot)) :: x.grad sr.mem (some a.val)⟩], ?_, ?_, ?_⟩
      · simp only [accumulate]; exact r1
      · simp only [accumulate]
      · simp only [accumulate, elemStep_mem, SExpr.eval, r1, hex, hvt]
        rw [r3, store_store]
      · simp only [accumulate, r1, r2, r4, List.nil_append]
        simp
      · rw [elemStep_tape, r5, hgi]
        simp only [SExpr.grad, SExpr.eval, hgi, hgx, hex, hvt, hstore_act, if_true, Option.getD_some]
        simp
      · intro h
        rw [fwd_append, fwd_append, r6 h, fwd_cons, fwd_cons, fwd_nil, fwd_nil]
        simp only [fwdStep]
        congr 1
        rw [rhsVal_append, rhsVal_cons, rhsVal_cons, rhsVal_nil]
        ring
  obtain ⟨r1, r2, r3, fr, fl, r4, r5, r6⟩ := hrel
  have hloop : runProg sl (loopStmts .product tot xs n) =
      xs.foldl (fun l x => elemStep l tot (.mul (.cell tot) x)) (elemStep sl tot (.const 1)) := by
    simp only [runProg, loopStmts, List.foldl_cons, List.foldl_map]
    rfl
  rw [hloop]
  have hb : (RFun.product == RFun.minval || RFun.product == RFun.maxval) = false := by decide
  simp only [recordCore, finishActive, firstValue, hb]
  refine ⟨?_, ?_⟩
  · simp only [r1]; exact r3.symm
  · intro g hg
    simp only [r4, r5]
    rw [fwd_append, fwd_append, hf g hg, fwd_cons, fwd_cons, r6]

/-- maxval: every new maximum overwrites `tot` — the same statements as `tot = -∞; tot = x₀; if (x > tot) tot = x …` -/
theorem maxval_core (tot : Cell) (xs : List (SExpr R)) (n : Nat) (sr sl : St R) (hc : Cond sr.mem tot xs)
    (he : Eqv (sr.mem.gidx tot) sr sl) :
    Eqv (sr.mem.gidx tot) (recordCore .maxval tot xs n sr) (runProg sl (loopStmts .maxval tot xs n)) := by
  obtain ⟨hm, hf⟩ := he
  have hb : (RFun.maxval == RFun.minval || RFun.maxval == RFun.maxval) = true := by decide
  cases xs with
  | nil =>
    simp only [recordCore, finishActive, firstValue, hb, List.foldl_nil, runProg, loopStmts, List.foldl_cons]
    refine ⟨?_, ?_⟩
    · simp only [runS_none, elemStep_mem, SExpr.eval, hm]
    · intro g hg
      simp only [runS_none, elemStep_tape, SExpr.grad, ← hm]
      rw [fwd_append, fwd_append, hf g hg]
  | cons x0 rest =>
    let Rel : Acc R → St R → Prop := fun a l =>
      a.st.mem = sr.mem ∧ a.pend = [] ∧ a.fresh = false ∧ l.mem = sr.mem.store tot a.val ∧
      ∃ fr, a.st.tape = sr.tape ++ fr ∧ l.tape = sl.tape ++ fr
    have hx0s := hc.sid x0 (List.mem_cons_self ..)
    have hrel : Rel (rest.foldl (accumulate .maxval tot)
          (accumulate .maxval tot ⟨{ sr with tape := sr.tape ++ [⟨sr.mem.gidx tot, []⟩] }, 0, true, []⟩ x0))
        (rest.foldl (fun l x => runS l ⟨some ⟨false, x, .cell tot⟩, tot, x⟩)
          (elemStep (elemStep sl tot (.const 0)) tot x0)) := by
      apply foldl_rel Rel
      · refine ⟨?_, ?_, ?_, ?_, [⟨sr.mem.gidx tot, []⟩, ⟨sr.mem.gidx tot, x0.grad sr.mem none⟩], ?_, ?_⟩
        · simp [accumulate]
        · simp [accumulate]
        · simp [accumulate]
        · simp only [accumulate, Bool.true_or, if_true, elemStep_mem, SExpr.eval, ← hm]
          rw [eval_store_other x0 sr.mem tot 0 hx0s, store_store]
        · simp [accumulate]
        · simp only [elemStep_tape, elemStep_mem, SExpr.grad, SExpr.eval, ← hm, store_gidx,
            grad_store_other x0 sr.mem tot 0 none hx0s]
          simp
      · intro a l x hx ⟨r1, r2, r3, r4, fr, r5, r6⟩
        have hxs := hc.sid x (List.mem_cons_of_mem _ hx)
        have hex : x.eval l.mem = x.eval sr.mem := by rw [r4, eval_store_other x sr.mem tot a.val hxs]
        have hvt : l.mem.val tot = a.val := by rw [r4, val_store_self sr.mem tot a.val hc.has]
        have hgi : l.mem.gidx tot = sr.mem.gidx tot := by rw [r4, store_gidx]
        have hgx : x.grad l.mem none = x.grad sr.mem none := by rw [r4, grad_store_other x sr.mem tot a.val none hxs]
        simp only [accumulate, r1, r2, r3, Bool.false_or, runS_some, SMask.eval, SExpr.eval, hex, hvt,
          Bool.false_eq_true, if_false, List.nil_append]
        by_cases hcmp : a.val < x.eval sr.mem
        · simp only [hcmp, decide_true, if_true]
          refine ⟨rfl, rfl, rfl, ?_, fr ++ [⟨sr.mem.gidx tot, x.grad sr.mem none⟩], ?_, ?_⟩
          · simp only [elemStep_mem, hex]; rw [r4, store_store]
          · simp only [r5, List.append_assoc]
          · simp only [elemStep_tape, r6, hgi, hgx, List.append_assoc]
        · simp only [hcmp, decide_false, Bool.false_eq_true, if_false]
          exact ⟨r1, r2, r3, r4, fr, r5, r6⟩
    obtain ⟨r1, r2, r3, r4, fr, r5, r6⟩ := hrel
    have hloop : runProg sl (loopStmts .maxval tot (x0 :: rest) n) =
        rest.foldl (fun l x => runS l ⟨some ⟨false, x, .cell tot⟩, tot, x⟩)
          (elemStep (elemStep sl tot (.const 0)) tot x0) := by
      simp only [runProg, loopStmts, List.foldl_cons, List.foldl_map]
      rfl
    rw [hloop]
    simp only [recordCore, finishActive, firstValue, hb, List.foldl_cons]
    refine ⟨?_, ?_⟩
    · simp only [r1]; exact r4.symm
    · intro g hg
      simp only [r5, r6]
      rw [fwd_append, fwd_append, hf g hg]

/-- minval: as maxval with the comparison reversed -/
theorem minval_core (tot : Cell) (xs : List (SExpr R)) (n : Nat) (sr sl : St R) (hc : Cond sr.mem tot xs)
    (he : Eqv (sr.mem.gidx tot) sr sl) :
    Eqv (sr.mem.gidx tot) (recordCore .minval tot xs n sr) (runProg sl (loopStmts .minval tot xs n)) := by
  obtain ⟨hm, hf⟩ := he
  have hb : (RFun.minval == RFun.minval || RFun.minval == RFun.maxval) = true := by decide
  cases xs with
  | nil =>
    simp only [recordCore, finishActive, firstValue, hb, List.foldl_nil, runProg, loopStmts, List.foldl_cons]
    refine ⟨?_, ?_⟩
    · simp only [runS_none, elemStep_mem, SExpr.eval, hm]
    · intro g hg
      simp only [runS_none, elemStep_tape, SExpr.grad, ← hm]
      rw [fwd_append, fwd_append, hf g hg]
  | cons x0 rest =>
    let Rel : Acc R → St R → Prop := fun a l =>
      a.st.mem = sr.mem ∧ a.pend = [] ∧ a.fresh = false ∧ l.mem = sr.mem.store tot a.val ∧
      ∃ fr, a.st.tape = sr.tape ++ fr ∧ l.tape = sl.tape ++ fr
    have hx0s := hc.sid x0 (List.mem_cons_self ..)
    have hrel : Rel (rest.foldl (accumulate .minval tot)
          (accumulate .minval tot ⟨{ sr with tape := sr.tape ++ [⟨sr.mem.gidx tot, []⟩] }, 0, true, []⟩ x0))
        (rest.foldl (fun l x => runS l ⟨some ⟨false, .cell tot, x⟩, tot, x⟩)
          (elemStep (elemStep sl tot (.const 0)) tot x0)) := by
      apply foldl_rel Rel
      · refine ⟨?_, ?_, ?_, ?_, [⟨sr.mem.gidx tot, []⟩, ⟨sr.mem.gidx tot, x0.grad sr.mem none⟩], ?_, ?_⟩
        · simp [accumulate]
        · simp [accumulate]
        · simp [accumulate]
        · simp only [accumulate, Bool.true_or, if_true, elemStep_mem, SExpr.eval, ← hm]
          rw [eval_store_other x0 sr.mem tot 0 hx0s, store_store]
        · simp [accumulate]
        · simp only [elemStep_tape, elemStep_mem, SExpr.grad, SExpr.eval, ← hm, store_gidx,
            grad_store_other x0 sr.mem tot 0 none hx0s]
          simp
      · intro a l x hx ⟨r1, r2, r3, r4, fr, r5, r6⟩
        have hxs := hc.sid x (List.mem_cons_of_mem _ hx)
        have hex : x.eval l.mem = x.eval sr.mem := by rw [r4, eval_store_other x sr.mem tot a.val hxs]
        have hvt : l.mem.val tot = a.val := by rw [r4, val_store_self sr.mem tot a.val hc.has]
        have hgi : l.mem.gidx tot = sr.mem.gidx tot := by rw [r4, store_gidx]
        have hgx : x.grad l.mem none = x.grad sr.mem none := by rw [r4, grad_store_other x sr.mem tot a.val none hxs]
        simp only [accumulate, r1, r2, r3, Bool.false_or, runS_some, SMask.eval, SExpr.eval, hex, hvt,
          Bool.false_eq_true, if_false, List.nil_append]
        by_cases hcmp : x.eval sr.mem < a.val
        · simp only [hcmp, decide_true, if_true]
          refine ⟨rfl, rfl, rfl, ?_, fr ++ [⟨sr.mem.gidx tot, x.grad sr.mem none⟩], ?_, ?_⟩
          · simp only [elemStep_mem, hex]; rw [r4, store_store]
          · simp only [r5, List.append_assoc]
          · simp only [elemStep_tape, r6, hgi, hgx, List.append_assoc]
        · simp only [hcmp, decide_false, Bool.false_eq_true, if_false]
          exact ⟨r1, r2, r3, r4, fr, r5, r6⟩
    obtain ⟨r1, r2, r3, r4, fr, r5, r6⟩ := hrel
    have hloop : runProg sl (loopStmts .minval tot (x0 :: rest) n) =
        rest.foldl (fun l x => runS l ⟨some ⟨false, .cell tot, x⟩, tot, x⟩)
          (elemStep (elemStep sl tot (.const 0)) tot x0) := by
      simp only [runProg, loopStmts, List.foldl_cons, List.foldl_map]
      rfl
    rw [hloop]
    simp only [recordCore, finishActive, firstValue, hb, List.foldl_cons]
    refine ⟨?_, ?_⟩
    · simp only [r1]; exact r4.symm
    · intro g hg
      simp only [r5, r6]
      rw [fwd_append, fwd_append, hf g hg]

/-- all five functions -/
theorem core (f : RFun) (tot : Cell) (xs : List (SExpr R)) (n : Nat) (sr sl : St R) (hc : Cond sr.mem tot xs)
    (he : Eqv (sr.mem.gidx tot) sr sl) :
    Eqv (sr.mem.gidx tot) (recordCore f tot xs n sr) (runProg sl (loopStmts f tot xs n)) := by
  cases f with
  | sum => exact sum_core tot xs n sr sl hc he
  | mean => exact mean_core tot xs n sr sl hc he
  | product => exact product_core tot xs n sr sl hc he
  | minval => exact minval_core tot xs n sr sl hc he
  | maxval => exact maxval_core tot xs n sr sl hc he

/-! ### the loops of reduce.h feed `accumulate` with the elements in index order -/

theorem reduceLoop_eq (f : RFun) (tot : Cell) (e : AExpr R) (dl : Nat) (rd : List Nat) (hpos : AllPos (dl :: rd))
    (hw : e.WF (rd.length + 1) dl) (a : Acc R) :
    reduceLoop f tot e (dl :: rd) a =
      ((List.range (prod (dl :: rd))).map (fun p => e.at (unflatR (dl :: rd) p))).foldl (accumulate f tot) a := by
  unfold reduceLoop nRows
  simp only [List.tail_cons, List.headD_cons]
  rw [rowsLoop_eq _ rd _ (by simp) hpos.tail, List.foldl_map]
  have hrow : ∀ (a : Acc R) (ri : List Nat),
      ((List.range dl).foldl (fun (p : Acc R × List Int) _ =>
          (accumulate f tot p.1 (e.atLoc p.2), e.advLoc p.2)) (a, e.setLoc (0 :: ri))).1 =
      (List.range dl).foldl (fun a j => accumulate f tot a (e.at (j :: ri))) a := by
    intro a ri
    have key : ∀ n, n ≤ dl →
        let r := (List.range n).foldl (fun (p : Acc R × List Int) _ =>
          (accumulate f tot p.1 (e.atLoc p.2), e.advLoc p.2)) (a, e.setLoc (0 :: ri))
        r.1 = (List.range n).foldl (fun a j => accumulate f tot a (e.at (j :: ri))) a ∧
        (n < dl → r.2 = e.setLoc (n :: ri)) := by
      intro n
      induction n with
      | zero => intro _; simp
      | succ n ih =>
        intro hn
        obtain ⟨h1, h2⟩ := ih (by omega)
        rw [range_succ_foldl, range_succ_foldl]
        refine ⟨?_, ?_⟩
        · simp only
          rw [h1, h2 (by omega), atLoc_setLoc e (rd.length + 1) dl (by omega) hw]
        · intro hlt
          simp only
          rw [h2 (by omega)]
          exact advLoc_setLoc e (rd.length + 1) dl (by omega) hw n ri hlt
    exact (key dl (Nat.le_refl _)).1
  simp only [hrow]
  exact rows_inner_eq_flat (fun a ri => accumulate f tot a (e.at ri)) dl rd hpos.head a

/-- `s = f(expr)` is the core over the elements in index order, followed by the copy into `s` -/
theorem reduceAll_eq (f : RFun) (sc tot : Cell) (e : AExpr R) (dl : Nat) (rd : List Nat) (hpos : AllPos (dl :: rd))
    (hw : e.WF (rd.length + 1) dl) (s : St R) :
    reduceAll f sc tot e (dl :: rd) s =
      elemStep (recordCore f tot ((List.range (prod (dl :: rd))).map (fun p => e.at (unflatR (dl :: rd) p)))
        (prod (dl :: rd)) s) sc (.cell tot) := by
  unfold reduceAll recordCore
  simp only [reduceLoop_eq f tot e dl rd hpos hw]

theorem Eqv.refl (T : Nat) (s : St R) : Eqv T s s := ⟨rfl, fun _ _ => rfl⟩

theorem runProg_append (s : St R) (a b : List (SStmt R)) : runProg s (a ++ b) = runProg (runProg s a) b := by
  unfold runProg; rw [List.foldl_append]

/-- the elements of `e` at the indices `I` stay clear of the accumulator: they read neither its allocation nor a cell
    with its gradient index -/
def Clear (m : Mem R) (tot : Cell) (e : AExpr R) (I : List Nat → Prop) : Prop :=
  m.HasCell tot ∧ m.isActive tot.1 = true ∧
  ∀ ri, I ri → ∀ c ∈ (e.at ri).cellsOf, c.1 ≠ tot.1 ∧ m.gidx c ≠ m.gidx tot

theorem Clear.cond {m : Mem R} {tot : Cell} {e : AExpr R} {I : List Nat → Prop} (h : Clear m tot e I)
    (l : List (List Nat)) (hl : ∀ ri ∈ l, I ri) : Cond m tot (l.map (fun ri => e.at ri)) := by
  obtain ⟨h1, h2, h3⟩ := h
  refine ⟨h1, h2, ?_, ?_⟩
  · intro x hx c hc
    obtain ⟨ri, hri, rfl⟩ := List.mem_map.mp hx
    exact (h3 ri (hl ri hri) c hc).1
  · intro x hx c hc
    obtain ⟨ri, hri, rfl⟩ := List.mem_map.mp hx
    exact (h3 ri (hl ri hri) c hc).2

/-- the indices of an array with (reversed) extents `rd` -/
def InRange (rd : List Nat) (ri : List Nat) : Prop := ∃ p, p < prod rd ∧ ri = unflatR rd p

/-- the indices `reduce_dimension` visits: strip `p` of the result, position `i` along the reduced dimension `k` -/
def InStrips (rd : List Nat) (k : Nat) (ri : List Nat) : Prop :=
  ∃ p i, p < prod (rd.take k ++ rd.drop (k + 1)) ∧ i < rd.getD k 0 ∧
    ri = insertAt (unflatR (rd.take k ++ rd.drop (k + 1)) p) k i

/-- whole-array reductions: same values, same tangent-linear map as the accumulation loop followed by `s = tot` -/
theorem reduceAll_eqv (f : RFun) (sc tot : Cell) (e : AExpr R) (dl : Nat) (rd : List Nat) (hpos : AllPos (dl :: rd))
    (hw : e.WF (rd.length + 1) dl) (s : St R) (hc : Clear s.mem tot e (InRange (dl :: rd))) :
    Eqv (s.mem.gidx tot) (reduceAll f sc tot e (dl :: rd) s) (runProg s (denoteReduce f sc tot e (dl :: rd))) := by
  rw [reduceAll_eq f sc tot e dl rd hpos hw]
  unfold denoteReduce
  rw [runProg_append]
  have hxs : (List.range (prod (dl :: rd))).map (fun p => e.at (unflatR (dl :: rd) p)) =
      ((List.range (prod (dl :: rd))).map (unflatR (dl :: rd))).map (fun ri => e.at ri) := by
    rw [List.map_map]; rfl
  have hin : ∀ ri ∈ (List.range (prod (dl :: rd))).map (unflatR (dl :: rd)), InRange (dl :: rd) ri := by
    intro ri hri
    obtain ⟨p, hp, rfl⟩ := List.mem_map.mp hri
    exact ⟨p, List.mem_range.mp hp, rfl⟩
  have := core f tot _ (prod (dl :: rd)) s s (hxs ▸ hc.cond _ hin) (Eqv.refl _ s)
  exact this.elemStep sc (.cell tot)

/-! ### per-dimension reductions -/

/-- gradient indices, activeness and existing cells carried over from `m` to `m'` -/
def Shape (m m' : Mem R) : Prop :=
  (∀ c, m'.gidx c = m.gidx c) ∧ (∀ sid, m'.isActive sid = m.isActive sid) ∧ (∀ c, m.HasCell c → m'.HasCell c)

theorem Shape.refl (m : Mem R) : Shape m m := ⟨fun _ => rfl, fun _ => rfl, fun _ h => h⟩
theorem Shape.store {m m' : Mem R} (h : Shape m m') (c : Cell) (v : R) : Shape m (m'.store c v) :=
  ⟨fun c' => by rw [store_gidx, h.1], fun sid => by rw [store_isActive, h.2.1],
   fun c' hc => hasCell_store m' c v c' (h.2.2 c' hc)⟩

theorem Clear.shape {m m' : Mem R} {tot : Cell} {e : AExpr R} {I : List Nat → Prop} (h : Clear m tot e I)
    (hs : Shape m m') : Clear m' tot e I := by
  obtain ⟨h1, h2, h3⟩ := h
  refine ⟨hs.2.2 _ h1, by rw [hs.2.1]; exact h2, ?_⟩
  intro ri hri c hc
  exact ⟨(h3 ri hri c hc).1, by rw [hs.1, hs.1]; exact (h3 ri hri c hc).2⟩

theorem acc_fold_mem (f : RFun) (tot : Cell) (xs : List (SExpr R)) (a : Acc R) :
    (xs.foldl (accumulate f tot) a).st.mem = a.st.mem := by
  induction xs generalizing a with
  | nil => rfl
  | cons x xs ih =>
    rw [List.foldl_cons, ih]
    cases f <;> simp only [accumulate] <;> (try split) <;> rfl

theorem recordCore_mem (f : RFun) (tot : Cell) (xs : List (SExpr R)) (n : Nat) (s : St R) :
    ∃ v, (recordCore f tot xs n s).mem = s.mem.store tot v := by
  have hfin : ∀ a : Acc R, (finishActive f tot n a).st.mem = a.st.mem := by
    intro a; cases f <;> rfl
  refine ⟨(finishActive f tot n (xs.foldl (accumulate f tot)
    ⟨{ s with tape := s.tape ++ [⟨s.mem.gidx tot, []⟩] }, firstValue f, (f == .minval || f == .maxval), []⟩)).val, ?_⟩
  show Mem.store _ _ _ = _
  rw [hfin, acc_fold_mem]

theorem insertAt_cons (rj : List Nat) (k i : Nat) : ∃ j r, insertAt rj k i = j :: r := by
  unfold insertAt
  cases h : rj.take k with
  | nil => exact ⟨i, _, rfl⟩
  | cons a l => exact ⟨a, _, rfl⟩

/-- one strip of `reduce_dimension` is the core over the elements along the reduced dimension, then the copy -/
theorem reduceStrip_eq (f : RFun) (tot : Cell) (e : AExpr R) (k d : Nat) (res : View) (rank dl : Nat) (hr : 0 < rank)
    (hw : e.WF rank dl) (s : St R) (rj : List Nat) :
    reduceStrip f tot e k d res s rj =
      elemStep (recordCore f tot ((List.range d).map (fun i => e.at (insertAt rj k i))) d s)
        (res.cellAt rj) (.cell tot) := by
  unfold reduceStrip recordCore View.cellAt
  simp only
  rw [List.foldl_map]
  have : (fun (a : Acc R) (i : Nat) => accumulate f tot a (e.atLoc (e.setLoc (insertAt rj k i)))) =
      (fun a i => accumulate f tot a (e.at (insertAt rj k i))) := by
    funext a i
    obtain ⟨j, r, hjr⟩ := insertAt_cons rj k i
    rw [hjr, atLoc_setLoc e rank dl hr hw]
  rw [this]

/-- `result = f(expr, dim)`: same values, same tangent-linear map as the strip-by-strip accumulation loops -/
theorem reduceDim_eqv (f : RFun) (tot : Cell) (e : AExpr R) (rd : List Nat) (k : Nat) (res : View) (rank dl : Nat)
    (hr : 0 < rank) (hw : e.WF rank dl) (s : St R) (hc : Clear s.mem tot e (InStrips rd k)) :
    Eqv (s.mem.gidx tot) (reduceDim f tot e rd k res s) (runProg s (denoteRdim f tot e rd k res)) := by
  unfold reduceDim denoteRdim runProg
  simp only
  rw [List.foldl_flatMap]
  have hrel := foldl_rel (fun (a b : St R) => Eqv (s.mem.gidx tot) a b ∧ Shape s.mem a.mem)
    (fun s p => reduceStrip f tot e k (rd.getD k 0) res s (unflatR (rd.take k ++ rd.drop (k + 1)) p))
    (fun acc p => List.foldl runS acc
      (loopStmts f tot ((List.range (rd.getD k 0)).map
          (fun i => e.at (insertAt (unflatR (rd.take k ++ rd.drop (k + 1)) p) k i))) (rd.getD k 0) ++
        [⟨none, res.cellAt (unflatR (rd.take k ++ rd.drop (k + 1)) p), .cell tot⟩]))
    (List.range (prod (rd.take k ++ rd.drop (k + 1)))) s s ⟨Eqv.refl _ s, Shape.refl _⟩ ?_
  · exact hrel.1
  · intro a b p hp ⟨he, hs⟩
    have hT : a.mem.gidx tot = s.mem.gidx tot := hs.1 tot
    rw [reduceStrip_eq f tot e k _ res rank dl hr hw, List.foldl_append]
    have hxs : (List.range (rd.getD k 0)).map (fun i => e.at (insertAt (unflatR (rd.take k ++ rd.drop (k + 1)) p) k i)) =
        ((List.range (rd.getD k 0)).map (fun i => insertAt (unflatR (rd.take k ++ rd.drop (k + 1)) p) k i)).map
          (fun ri => e.at ri) := by
      rw [List.map_map]; rfl
    have hin : ∀ ri ∈ (List.range (rd.getD k 0)).map
        (fun i => insertAt (unflatR (rd.take k ++ rd.drop (k + 1)) p) k i), InStrips rd k ri := by
      intro ri hri
      obtain ⟨i, hi, rfl⟩ := List.mem_map.mp hri
      exact ⟨p, i, List.mem_range.mp hp, List.mem_range.mp hi, rfl⟩
    have hcore := core f tot _ (rd.getD k 0) a b (hxs ▸ (hc.shape hs).cond _ hin) (hT ▸ he)
    rw [hT] at hcore
    refine ⟨hcore.elemStep _ _, ?_⟩
    rw [elemStep_mem]
    obtain ⟨v, hv⟩ := recordCore_mem f tot
      ((List.range (rd.getD k 0)).map (fun i => e.at (insertAt (unflatR (rd.take k ++ rd.drop (k + 1)) p) k i)))
      (rd.getD k 0) a
    rw [hv]
    exact (hs.store tot v).store _ _

/-! ### `reduce_dimension`'s own odometer -/

theorem reduceStripLit_eq (f : RFun) (tot : Cell) (e : AExpr R) (k d : Nat) (res : View) (s : St R) (rj : List Nat)
    (hk : k ≤ rj.length) :
    reduceStripLit f tot e k d res s (insertAt rj k 0) rj = reduceStrip f tot e k d res s rj := by
  unfold reduceStripLit reduceStrip
  simp only [insertAt_set rj k _ hk]

/-- the `do { strip; advance i and inew } while (my_rank >= 0)` loop of the active `reduce_dimension` takes the strips in
    index order of the result, `i` being `inew` with the reduced dimension put back -/
theorem stripsLoop_eq (f : RFun) (tot : Cell) (e : AExpr R) (rd : List Nat) (k : Nat) (res : View) (hp : AllPos rd)
    (hk : k < rd.length) (s : St R) :
    stripsLoop f tot e rd k res (prod (dropAt rd k)) (insertAt (zeros (dropAt rd k).length) k 0)
        (zeros (dropAt rd k).length) s =
      (List.range (prod (dropAt rd k))).foldl
        (fun s p => reduceStrip f tot e k (rd.getD k 0) res s (unflatR (dropAt rd k) p)) s := by
  have hlen : ∀ p, k ≤ (unflatR (dropAt rd k) p).length := by
    intro p; rw [unflatR_length, dropAt_length rd k hk]; omega
  have key : ∀ m p (s : St R), p + m = prod (dropAt rd k) → 0 < m →
      stripsLoop f tot e rd k res m (insertAt (unflatR (dropAt rd k) p) k 0) (unflatR (dropAt rd k) p) s =
        (List.range' p m).foldl
          (fun s p => reduceStrip f tot e k (rd.getD k 0) res s (unflatR (dropAt rd k) p)) s := by
    intro m
    induction m with
    | zero => intro p s _ h; omega
    | succ m ih =>
      intro p s hpm _
      have hlt : p < prod (dropAt rd k) := by omega
      simp only [stripsLoop]
      rw [advStrip_unflat rd k hp hk p hlt, reduceStripLit_eq f tot e k _ res s _ (hlen p)]
      by_cases hn : p + 1 < prod (dropAt rd k)
      · rw [if_pos hn]
        simp only [Bool.false_eq_true, if_false]
        rw [ih (p + 1) _ (by omega) (by omega)]
        rw [List.range'_succ, List.foldl_cons]
      · rw [if_neg hn]
        simp only [if_true]
        have : m = 0 := by omega
        subst this
        simp [List.range']
  have hpos := prod_pos (hp.dropAt k)
  have := key (prod (dropAt rd k)) 0 s (by omega) hpos
  rw [unflatR_zero] at this
  rw [this, List.range_eq_range']

/-- **the transcription of `reduce_dimension` (active) equals the reference form** whose strips are taken in index
    order of the result -/
theorem reduceDimLit_eq (f : RFun) (tot : Cell) (e : AExpr R) (rd : List Nat) (k : Nat) (res : View) (hp : AllPos rd)
    (hk : k < rd.length) (s : St R) :
    reduceDimLit f tot e rd k res s = reduceDim f tot e rd k res s := by
  unfold reduceDimLit reduceDim
  have h1 : rd.length = (rd.length - 1) + 1 := by omega
  have hz : zeros rd.length = insertAt (zeros (dropAt rd k).length) k 0 := by
    rw [dropAt_length rd k hk, zeros_insertAt (rd.length - 1) k (by omega), ← h1]
  have hz2 : zeros (rd.length - 1) = zeros (dropAt rd k).length := by rw [dropAt_length rd k hk]
  rw [hz, hz2]
  exact stripsLoop_eq f tot e rd k res hp hk s

end Adept.ArrayAD
