import AdeptProofs.Lemmas.AssignLoops
/-!
Helper lemmas for C04: memory updates, soundness of `data_range`, conservativeness of the alias test,
"in-order loop = evaluate everything, then store" under the read-safety condition, and the semantics of every
statement form of `AdeptModel/Assign.lean`.  Core Lean only.
-/
namespace Adept.Assign

/-! ### memory -/

@[simp] theorem write_same (m : Mem) (a x : Int) : write m a x a = x := by simp [write]

theorem write_other (m : Mem) (a x k : Int) (h : k ≠ a) : write m a x k = m k := by simp [write, h]

@[simp] theorem storePairs_nil (m : Mem) : storePairs [] m = m := rfl

@[simp] theorem storePairs_cons (p : Int × Int) (ps : List (Int × Int)) (m : Mem) :
    storePairs (p :: ps) m = storePairs ps (write m p.1 p.2) := rfl

theorem storePairs_not_mem (ps : List (Int × Int)) (m : Mem) (a : Int) (h : ∀ p ∈ ps, p.1 ≠ a) :
    storePairs ps m a = m a := by
  induction ps generalizing m with
  | nil => rfl
  | cons p ps ih =>
    rw [storePairs_cons, ih _ (fun q hq => h q (List.mem_cons_of_mem _ hq))]
    exact write_other _ _ _ _ (fun e => h p List.mem_cons_self e.symm)

/-- the final content of a cell is what the LAST pair addressing it stored, or the old content -/
theorem storePairs_lastWrite (ps : List (Int × Int)) (m : Mem) (a : Int) :
    storePairs ps m a = (lastWrite ps a).getD (m a) := by
  induction ps generalizing m with
  | nil => rfl
  | cons p ps ih =>
    obtain ⟨k, x⟩ := p
    rw [storePairs_cons, ih]
    simp only [lastWrite]
    cases h : lastWrite ps a with
    | some y => simp
    | none =>
      by_cases hk : k = a
      · subst hk; simp
      · simp [hk, write_other _ _ _ _ (Ne.symm hk)]

/-- zipping addresses and values computed from the same positions -/
theorem storePairs_zip_map {α : Type} (L : List α) (f g : α → Int) (m : Mem) :
    storePairs ((L.map f).zip (L.map g)) m = L.foldl (fun m ix => write m (f ix) (g ix)) m := by
  induction L generalizing m with
  | nil => rfl
  | cons a L ih => simp [ih]

theorem storePairs_zip_filter {α : Type} (L : List α) (f g : α → Int) (b : α → Bool) (m : Mem) :
    storePairs ((((L.map f).zip (L.map g)).zip (L.map b)).filterMap fun p => if p.2 then some p.1 else none) m
      = L.foldl (fun m ix => if b ix then write m (f ix) (g ix) else m) m := by
  induction L generalizing m with
  | nil => rfl
  | cons a L ih =>
    cases hb : b a <;> simp [hb, ih]

/-! ### index tuples -/

theorem mem_idxs_cons {d : Nat} {ds : List Nat} {ix : List Nat} :
    ix ∈ idxs (d :: ds) ↔ ∃ i r, i < d ∧ r ∈ idxs ds ∧ ix = i :: r := by
  simp only [idxs, List.mem_flatMap, List.mem_range, List.mem_map]
  constructor
  · rintro ⟨i, hi, r, hr, rfl⟩; exact ⟨i, r, hi, hr, rfl⟩
  · rintro ⟨i, r, hi, hr, rfl⟩; exact ⟨i, hi, r, hr, rfl⟩

theorem pairwise_of_forall_mem {α : Type} {R : α → α → Prop} {l : List α}
    (h : ∀ a ∈ l, ∀ b ∈ l, R a b) : l.Pairwise R := by
  induction l with
  | nil => exact List.Pairwise.nil
  | cons a l ih =>
    refine List.pairwise_cons.mpr ⟨fun b hb => h a List.mem_cons_self b (List.mem_cons_of_mem _ hb), ?_⟩
    exact ih fun x hx y hy => h x (List.mem_cons_of_mem _ hx) y (List.mem_cons_of_mem _ hy)

/-! ### `data_range` is sound for strides of either sign -/

theorem rangeLoop_sound : ∀ (ds : List Nat) (ss : List Int) (b e x : Int), b ≤ x → x ≤ e →
    ∀ ix ∈ idxs ds, (rangeLoop ds ss (b, e)).1 ≤ x + dot ix ss ∧ x + dot ix ss ≤ (rangeLoop ds ss (b, e)).2 := by
  intro ds
  induction ds with
  | nil =>
    intro ss b e x hb he ix hix
    simp only [idxs, List.mem_singleton] at hix
    subst hix
    cases ss <;> simp [rangeLoop, dot] <;> omega
  | cons d ds ih =>
    intro ss b e x hb he ix hix
    obtain ⟨i, r, hi, hr, rfl⟩ := mem_idxs_cons.mp hix
    cases ss with
    | nil => simp [rangeLoop, dot]; omega
    | cons s ss =>
      simp only [rangeLoop, dot]
      have hid : (i : Int) ≤ (d : Int) - 1 := by omega
      have hi0 : (0 : Int) ≤ (i : Int) := Int.natCast_nonneg i
      by_cases hs : s ≥ 0
      · simp only [hs, if_true]
        have h1 : (0 : Int) ≤ (i : Int) * s := Int.mul_nonneg hi0 hs
        have h2 : (i : Int) * s ≤ ((d : Int) - 1) * s := Int.mul_le_mul_of_nonneg_right hid hs
        have := ih ss b (e + ((d : Int) - 1) * s) (x + (i : Int) * s) (by omega) (by omega) r hr
        rw [Int.add_assoc] at this
        exact this
      · simp only [hs, if_false]
        have hs' : s ≤ 0 := by omega
        have h1 : (i : Int) * s ≤ 0 := Int.mul_nonpos_of_nonneg_of_nonpos hi0 hs'
        have h2 : ((d : Int) - 1) * s ≤ (i : Int) * s := Int.mul_le_mul_of_nonpos_right hid hs'
        have := ih ss (b + ((d : Int) - 1) * s) e (x + (i : Int) * s) (by omega) (by omega) r hr
        rw [Int.add_assoc] at this
        exact this

theorem dataRange_sound (v : View) : ∀ ix ∈ idxs v.dims,
    v.dataRange.1 ≤ v.addr ix ∧ v.addr ix ≤ v.dataRange.2 :=
  rangeLoop_sound v.dims v.strides v.base v.base v.base (Int.le_refl _) (Int.le_refl _)

theorem cells_in_range (v : View) : ∀ a ∈ v.cells, v.dataRange.1 ≤ a ∧ a ≤ v.dataRange.2 := by
  intro a ha
  simp only [View.cells, List.mem_map] at ha
  obtain ⟨ix, hix, rfl⟩ := ha
  exact dataRange_sound v ix hix

/-! ### the alias test is conservative -/

theorem not_aliased_disjoint (lhs v : View) (h : v.isAliased lhs.dataRange.1 lhs.dataRange.2 = false) :
    ∀ a ∈ lhs.cells, a ∉ v.cells := by
  intro a ha hv
  have h1 := cells_in_range lhs a ha
  have h2 := cells_in_range v a hv
  simp only [View.isAliased, Bool.and_eq_false_iff, decide_eq_false_iff_not] at h
  omega

theorem alias_conservative (lhs : View) (e : Expr) (h : e.isAliased lhs.dataRange.1 lhs.dataRange.2 = false) :
    ∀ v ∈ e.checkedLeaves, ∀ a ∈ lhs.cells, a ∉ v.cells := by
  induction e with
  | leaf v => intro u hu; simp only [Expr.checkedLeaves, List.mem_singleton] at hu; subst hu; exact not_aliased_disjoint lhs _ h
  | ileaf w => intro u hu; simp only [Expr.checkedLeaves, List.mem_singleton] at hu; subst hu; exact not_aliased_disjoint lhs _ h
  | const c => intro u hu; simp [Expr.checkedLeaves] at hu
  | bin op l r ihl ihr =>
    simp only [Expr.isAliased, Bool.or_eq_false_iff] at h
    intro u hu
    simp only [Expr.checkedLeaves, List.mem_append] at hu
    cases hu with
    | inl hu => exact ihl h.1 u hu
    | inr hu => exact ihr h.2 u hu
  | noalias e _ => intro u hu; simp [Expr.checkedLeaves] at hu
  | spread d v => intro u hu; simp only [Expr.checkedLeaves, List.mem_singleton] at hu; subst hu; exact not_aliased_disjoint lhs _ h
  | outer l r =>
    simp only [Expr.isAliased, Bool.or_eq_false_iff] at h
    intro u hu
    simp only [Expr.checkedLeaves, List.mem_cons, List.mem_nil_iff, or_false] at hu
    cases hu with
    | inl hu => subst hu; exact not_aliased_disjoint lhs _ h.1
    | inr hu => subst hu; exact not_aliased_disjoint lhs _ h.2
  | tmp f => intro u hu; simp [Expr.checkedLeaves] at hu

/-! ### evaluation depends only on the cells read -/

theorem evalAt_congr (e : Expr) (m m' : Mem) (ix : List Nat) (h : ∀ a ∈ e.reads ix, m a = m' a) :
    e.evalAt m ix = e.evalAt m' ix := by
  induction e with
  | leaf v => simp only [Expr.evalAt]; exact h _ (by simp [Expr.reads])
  | ileaf w => simp only [Expr.evalAt]; exact h _ (by simp [Expr.reads])
  | const c => rfl
  | bin op l r ihl ihr =>
    simp only [Expr.evalAt]
    rw [ihl (fun a ha => h a (by simp [Expr.reads, ha])), ihr (fun a ha => h a (by simp [Expr.reads, ha]))]
  | noalias e ih => simp only [Expr.evalAt]; exact ih (fun a ha => h a (by simpa [Expr.reads] using ha))
  | spread d v => simp only [Expr.evalAt]; exact h _ (by simp [Expr.reads])
  | outer l r =>
    simp only [Expr.evalAt]
    rw [h _ (by simp [Expr.reads]), h _ (by simp [Expr.reads])]
  | tmp f => rfl

theorem bevalAt_congr (b : BExpr) (m m' : Mem) (ix : List Nat) (h : ∀ a ∈ b.reads ix, m a = m' a) :
    b.evalAt m ix = b.evalAt m' ix := by
  induction b with
  | cmp c l r =>
    simp only [BExpr.evalAt]
    rw [evalAt_congr l m m' ix (fun a ha => h a (by simp [BExpr.reads, ha])),
        evalAt_congr r m m' ix (fun a ha => h a (by simp [BExpr.reads, ha]))]
  | not b ih => simp only [BExpr.evalAt]; rw [ih (fun a ha => h a (by simpa [BExpr.reads] using ha))]
  | and l r ihl ihr =>
    simp only [BExpr.evalAt]
    rw [ihl (fun a ha => h a (by simp [BExpr.reads, ha])), ihr (fun a ha => h a (by simp [BExpr.reads, ha]))]
  | or l r ihl ihr =>
    simp only [BExpr.evalAt]
    rw [ihl (fun a ha => h a (by simp [BExpr.reads, ha])), ihr (fun a ha => h a (by simp [BExpr.reads, ha]))]
  | lit f => rfl

/-! ### in-order loop = "evaluate everything, then store" -/

/-- one conditional element update of the loops, with mask and value functions of the *current* memory -/
def condStep (addr : List Nat → Int) (mk : Mem → List Nat → Bool) (rd : Mem → List Nat → Int)
    (m : Mem) (ix : List Nat) : Mem :=
  if mk m ix then write m (addr ix) (rd m ix) else m

/-- core: while the cells written so far (`W`) are never read later, evaluating mask and value in the running
    memory is the same as evaluating them in the initial memory `m0` -/
theorem fold_cond_frozen (addr : List Nat → Int) (mk : Mem → List Nat → Bool) (rd : Mem → List Nat → Int)
    (reads : List Nat → List Int) (m0 : Mem)
    (hmk : ∀ m m' ix, (∀ a ∈ reads ix, m a = m' a) → mk m ix = mk m' ix)
    (hrd : ∀ m m' ix, (∀ a ∈ reads ix, m a = m' a) → rd m ix = rd m' ix) :
    ∀ (L : List (List Nat)) (W : List Int) (m : Mem),
      (∀ a, a ∉ W → m a = m0 a) →
      (∀ ix ∈ L, ∀ a ∈ reads ix, a ∉ W) →
      L.Pairwise (fun ix' ix => addr ix' ∉ reads ix) →
      L.foldl (condStep addr mk rd) m = L.foldl (condStep addr (fun _ => mk m0) (fun _ => rd m0)) m := by
  intro L
  induction L with
  | nil => intros; rfl
  | cons ix L ih =>
    intro W m hW hR hP
    obtain ⟨hP1, hP2⟩ := List.pairwise_cons.mp hP
    have hag : ∀ a ∈ reads ix, m a = m0 a := fun a ha => hW a (hR ix List.mem_cons_self a ha)
    have e1 : mk m ix = mk m0 ix := hmk m m0 ix hag
    have e2 : rd m ix = rd m0 ix := hrd m m0 ix hag
    simp only [List.foldl_cons]
    have hstep : condStep addr mk rd m ix = condStep addr (fun _ => mk m0) (fun _ => rd m0) m ix := by
      simp only [condStep, e1, e2]
    rw [hstep]
    refine ih (addr ix :: W) _ ?_ ?_ hP2
    · intro a ha
      simp only [List.mem_cons, not_or] at ha
      simp only [condStep]
      split
      · rw [write_other _ _ _ _ ha.1]; exact hW a ha.2
      · exact hW a ha.2
    · intro ix2 h2 a ha
      simp only [List.mem_cons, not_or]
      refine ⟨?_, hR ix2 (List.mem_cons_of_mem _ h2) a ha⟩
      intro e; subst e; exact hP1 ix2 h2 ha

theorem fold_write_eq_cond (addr : List Nat → Int) (rd : Mem → List Nat → Int) (L : List (List Nat)) (m : Mem) :
    L.foldl (fun m ix => write m (addr ix) (rd m ix)) m = L.foldl (condStep addr (fun _ _ => true) rd) m := by
  induction L generalizing m with
  | nil => rfl
  | cons ix L ih => simp only [List.foldl_cons, ih]; rfl

/-- `seq_eq_par` for any address function (array view or indexed view) -/
theorem seq_eq_par_gen (addr : List Nat → Int) (e : Expr) (L : List (List Nat)) (m : Mem)
    (hs : SafeFor addr L e.reads) :
    L.foldl (fun m ix => write m (addr ix) (e.evalAt m ix)) m
      = storePairs ((L.map addr).zip (L.map (e.evalAt m))) m := by
  rw [storePairs_zip_map, fold_write_eq_cond, fold_write_eq_cond]
  exact fold_cond_frozen addr (fun _ _ => true) (fun m ix => e.evalAt m ix) e.reads m
    (fun _ _ _ _ => rfl) (fun m m' ix h => evalAt_congr e m m' ix h) L [] m (fun _ _ => rfl)
    (fun _ _ _ _ => List.not_mem_nil) hs

/-- disjoint ⇒ the in-order loop equals "evaluate all, then store" -/
theorem seq_eq_par (lhs : View) (rhs : Expr) (m : Mem) (hs : SafeFor lhs.addr (idxs lhs.dims) rhs.reads) :
    seqAssign lhs rhs m = storeAll lhs (evalAll rhs lhs.dims m) m :=
  seq_eq_par_gen lhs.addr rhs (idxs lhs.dims) m hs

/-- aliased ⇒ temporary ⇒ the same, without any condition -/
theorem copy_path (lhs : View) (rhs : Expr) (m : Mem) :
    seqAssign lhs (rhs.snapshot m) m = storeAll lhs (evalAll rhs lhs.dims m) m := by
  simp only [seqAssign, storeAll, evalAll, View.cells, storePairs_zip_map, Expr.snapshot, Expr.evalAt]

/-! ### when are reads safe -/

theorem safeFor_of_disjoint (addr : List Nat → Int) (L : List (List Nat)) (reads : List Nat → List Int)
    (h : ∀ ix' ∈ L, ∀ ix ∈ L, addr ix' ∉ reads ix) : SafeFor addr L reads :=
  pairwise_of_forall_mem h

theorem safeFor_append (addr : List Nat → Int) (L : List (List Nat)) (r1 r2 : List Nat → List Int)
    (h1 : SafeFor addr L r1) (h2 : SafeFor addr L r2) : SafeFor addr L (fun ix => r1 ix ++ r2 ix) := by
  unfold SafeFor at *
  exact (h1.and h2).imp (fun h => by simp only [List.mem_append, not_or]; exact h)

/-- reading, at every position, exactly the cell that position writes is safe when the target is injective
    (the `noalias(*this)` of `op=`) -/
theorem safeFor_self (addr : List Nat → Int) (L : List (List Nat)) (h : (L.map addr).Nodup) :
    SafeFor addr L (fun ix => [addr ix]) := by
  unfold SafeFor
  have := List.pairwise_map.mp h
  exact this.imp (fun h => by simpa using h)

theorem mem_cells {v : View} {ix : List Nat} (h : ix ∈ idxs v.dims) : v.addr ix ∈ v.cells :=
  List.mem_map.mpr ⟨ix, h, rfl⟩

/-- when the alias test finds nothing, every checked operand is safe; the `noalias` terms are the caller's duty -/
theorem safeFor_of_not_aliased (addr : List Nat → Int) (cells : List Int) (lo hi : Int) (dims : List Nat)
    (haddr : ∀ ix ∈ idxs dims, addr ix ∈ cells)
    (hdis : ∀ v : View, v.isAliased lo hi = false → ∀ a ∈ cells, a ∉ v.cells)
    (e : Expr) (hc : e.Conforms dims) (ha : e.isAliased lo hi = false)
    (hna : ∀ t ∈ e.noaliasTerms, SafeFor addr (idxs dims) t.reads) :
    SafeFor addr (idxs dims) e.reads := by
  induction e with
  | leaf v =>
    refine safeFor_of_disjoint _ _ _ fun ix' h' ix h => ?_
    simp only [Expr.reads, List.mem_singleton]
    intro e
    exact hdis v ha _ (haddr ix' h') (e ▸ mem_cells (hc ix h))
  | ileaf w =>
    refine safeFor_of_disjoint _ _ _ fun ix' h' ix h => ?_
    simp only [Expr.reads, List.mem_singleton, IView.addr]
    intro e
    exact hdis w.a ha _ (haddr ix' h') (e ▸ mem_cells (hc ix h))
  | const c => exact safeFor_of_disjoint _ _ _ fun _ _ _ _ => by simp [Expr.reads]
  | bin op l r ihl ihr =>
    simp only [Expr.isAliased, Bool.or_eq_false_iff] at ha
    exact safeFor_append _ _ _ _
      (ihl hc.1 ha.1 (fun t ht => hna t (by simp [Expr.noaliasTerms, ht])))
      (ihr hc.2 ha.2 (fun t ht => hna t (by simp [Expr.noaliasTerms, ht])))
  | noalias e _ => exact hna e (by simp [Expr.noaliasTerms])
  | spread d v =>
    refine safeFor_of_disjoint _ _ _ fun ix' h' ix h => ?_
    simp only [Expr.reads, List.mem_singleton]
    intro e
    exact hdis v ha _ (haddr ix' h') (e ▸ mem_cells (hc ix h))
  | outer l r =>
    simp only [Expr.isAliased, Bool.or_eq_false_iff] at ha
    refine safeFor_of_disjoint _ _ _ fun ix' h' ix h => ?_
    simp only [Expr.reads, List.mem_cons, List.mem_nil_iff, or_false, not_or]
    exact ⟨fun e => hdis l ha.1 _ (haddr ix' h') (e ▸ mem_cells (hc ix h).1),
           fun e => hdis r ha.2 _ (haddr ix' h') (e ▸ mem_cells (hc ix h).2)⟩
  | tmp f => exact safeFor_of_disjoint _ _ _ fun _ _ _ _ => by simp [Expr.reads]

/-! ### statements on an `Array` target -/

theorem not_empty_of_WF {v : View} (h : v.WF) : v.empty = false := by
  obtain ⟨_, hpos, hrank⟩ := h
  cases hd : v.dims with
  | nil => exact absurd hd hrank
  | cons d ds =>
    have : 0 < d := hpos d (by simp [hd])
    simp [View.empty, hd]; omega

theorem assign_semantics (lhs : View) (rhs : Expr) (m : Mem) (hw : lhs.WF) (hc : rhs.Conforms lhs.dims)
    (hna : ∀ t ∈ rhs.noaliasTerms, SafeFor lhs.addr (idxs lhs.dims) t.reads) :
    assign lhs rhs m = storeAll lhs (evalAll rhs lhs.dims m) m := by
  unfold assign
  rw [not_empty_of_WF hw]
  simp only [Bool.false_eq_true, if_false]
  cases ha : rhs.isAliased lhs.dataRange.1 lhs.dataRange.2 with
  | true => simp only [if_true]; rw [assignExpression_eq_seq _ _ _ hw]; exact copy_path lhs rhs m
  | false =>
    simp only [Bool.false_eq_true, if_false]
    rw [assignExpression_eq_seq _ _ _ hw]
    refine seq_eq_par lhs rhs m ?_
    exact safeFor_of_not_aliased lhs.addr lhs.cells _ _ lhs.dims (fun ix h => mem_cells h)
      (fun v hv => not_aliased_disjoint lhs v hv) rhs hc ha hna

theorem compound_semantics (op : BOp) (lhs : View) (rhs : Expr) (m : Mem) (hw : lhs.WF) (hinj : lhs.Injective)
    (hc : rhs.Conforms lhs.dims)
    (hna : ∀ t ∈ rhs.noaliasTerms, SafeFor lhs.addr (idxs lhs.dims) t.reads) :
    compound op lhs rhs m
      = storeAll lhs ((idxs lhs.dims).map fun ix => op.ap (m (lhs.addr ix)) (rhs.evalAt m ix)) m := by
  unfold compound
  rw [assign_semantics lhs _ m hw (show Expr.Conforms lhs.dims (Expr.bin op (Expr.noalias (Expr.leaf lhs)) rhs) from ⟨fun ix h => h, hc⟩) ?_]
  · rfl
  · intro t ht
    simp only [Expr.noaliasTerms, List.singleton_append, List.mem_cons] at ht
    cases ht with
    | inl h => subst h; exact safeFor_self lhs.addr _ hinj
    | inr h => exact hna t h

theorem assignScalar_semantics (lhs : View) (x : Int) (m : Mem) (hw : lhs.WF) :
    assignScalar lhs x m = storeAll lhs ((idxs lhs.dims).map fun _ => x) m := by
  unfold assignScalar
  rw [not_empty_of_WF hw]
  simp only [Bool.false_eq_true, if_false]
  rw [traverseScalar_eq_seq lhs x m hw]
  simp only [seqScalar, storeAll, View.cells, storePairs_zip_map]

/-! ### conditional assignment -/

theorem seqWhere_eq_cond (lhs : View) (mask : BExpr) (rhs : Expr) (m : Mem) :
    seqWhere lhs mask rhs m
      = (idxs lhs.dims).foldl (condStep lhs.addr (fun m ix => mask.evalAt m ix) (fun m ix => rhs.evalAt m ix)) m := rfl

/-- the conditional loop with mask and right-hand side that are safe to read lazily -/
theorem seqWhere_frozen (lhs : View) (mask : BExpr) (rhs : Expr) (m : Mem)
    (hm : SafeFor lhs.addr (idxs lhs.dims) mask.reads) (hr : SafeFor lhs.addr (idxs lhs.dims) rhs.reads) :
    seqWhere lhs mask rhs m = storeWhere lhs (maskAll mask lhs.dims m) (evalAll rhs lhs.dims m) m := by
  rw [seqWhere_eq_cond]
  rw [fold_cond_frozen lhs.addr (fun m ix => mask.evalAt m ix) (fun m ix => rhs.evalAt m ix)
      (fun ix => mask.reads ix ++ rhs.reads ix) m
      (fun m m' ix h => bevalAt_congr mask m m' ix (fun a ha => h a (by simp [ha])))
      (fun m m' ix h => evalAt_congr rhs m m' ix (fun a ha => h a (by simp [ha])))
      (idxs lhs.dims) [] m (fun _ _ => rfl) (fun _ _ _ _ => List.not_mem_nil)
      (safeFor_append _ _ _ _ hm hr)]
  simp only [storeWhere, maskAll, evalAll, View.cells, storePairs_zip_filter]
  rfl

theorem snapshot_reads (e : Expr) (m : Mem) (ix : List Nat) : (e.snapshot m).reads ix = [] := rfl

theorem safeFor_nil (addr : List Nat → Int) (L : List (List Nat)) : SafeFor addr L (fun _ => []) :=
  safeFor_of_disjoint _ _ _ fun _ _ _ _ => List.not_mem_nil

/-- `A.where(mask) = rhs` as coded, for masks that are safe to evaluate lazily -/
theorem assignConditional_semantics (lhs : View) (mask : BExpr) (rhs : Expr) (m : Mem) (hw : lhs.WF)
    (hc : rhs.Conforms lhs.dims)
    (hm : SafeFor lhs.addr (idxs lhs.dims) mask.reads)
    (hna : ∀ t ∈ rhs.noaliasTerms, SafeFor lhs.addr (idxs lhs.dims) t.reads) :
    assignConditional lhs mask rhs m = storeWhere lhs (maskAll mask lhs.dims m) (evalAll rhs lhs.dims m) m := by
  cases ha : rhs.isAliased lhs.dataRange.1 lhs.dataRange.2 with
  | true =>
    simp only [assignConditional, ha, if_true]
    rw [assignConditional__eq_seq _ _ _ _ hw, seqWhere_frozen lhs mask _ m hm (safeFor_nil _ _)]
    rfl
  | false =>
    simp only [assignConditional, ha, Bool.false_eq_true, if_false]
    rw [assignConditional__eq_seq _ _ _ _ hw]
    exact seqWhere_frozen lhs mask rhs m hm
      (safeFor_of_not_aliased lhs.addr lhs.cells _ _ lhs.dims (fun ix h => mem_cells h)
        (fun v hv => not_aliased_disjoint lhs v hv) rhs hc ha hna)

theorem assignConditionalScalar_semantics (lhs : View) (mask : BExpr) (x : Int) (m : Mem) (hw : lhs.WF)
    (hm : SafeFor lhs.addr (idxs lhs.dims) mask.reads) :
    assignConditionalScalar lhs mask x m
      = storeWhere lhs (maskAll mask lhs.dims m) ((idxs lhs.dims).map fun _ => x) m := by
  unfold assignConditionalScalar
  rw [not_empty_of_WF hw]
  simp only [Bool.false_eq_true, if_false]
  rw [assignConditional__eq_seq _ _ _ _ hw, seqWhere_frozen lhs mask _ m hm (safeFor_nil _ _)]
  rfl

/-! ### right-hand sides of `where` that may be scalars; `either_or` -/

def WRhs.evalAll : WRhs → List Nat → Mem → List Int
  | .expr e, dims, m => Adept.Assign.evalAll e dims m
  | .scalar x, dims, _ => (idxs dims).map fun _ => x

def WRhs.Conforms (dims : List Nat) : WRhs → Prop
  | .expr e => e.Conforms dims
  | .scalar _ => True

/-- the `noalias` terms of the right-hand side are safe to read lazily -/
def WRhs.NaSafe (lhs : View) : WRhs → Prop
  | .expr e => ∀ t ∈ e.noaliasTerms, SafeFor lhs.addr (idxs lhs.dims) t.reads
  | .scalar _ => True

/-- no operand of the right-hand side reads a cell of the target at all -/
def WRhs.Avoids (lhs : View) : WRhs → Prop
  | .expr e => ∀ ix ∈ idxs lhs.dims, ∀ a ∈ e.reads ix, a ∉ lhs.cells
  | .scalar _ => True

theorem whereAssign_semantics (lhs : View) (mask : BExpr) (r : WRhs) (m : Mem) (hw : lhs.WF)
    (hc : r.Conforms lhs.dims) (hm : SafeFor lhs.addr (idxs lhs.dims) mask.reads) (hna : r.NaSafe lhs) :
    whereAssign lhs mask r m = storeWhere lhs (maskAll mask lhs.dims m) (r.evalAll lhs.dims m) m := by
  cases r with
  | expr e => exact assignConditional_semantics lhs mask e m hw hc hm hna
  | scalar x => exact assignConditionalScalar_semantics lhs mask x m hw hm

theorem storeWhere_off (lhs : View) (bs : List Bool) (xs : List Int) (m : Mem) (a : Int) (h : a ∉ lhs.cells) :
    storeWhere lhs bs xs m a = m a := by
  unfold storeWhere
  apply storePairs_not_mem
  intro p hp e
  simp only [List.mem_filterMap] at hp
  obtain ⟨⟨⟨k, x⟩, b⟩, hq, hq2⟩ := hp
  have h1 := (List.of_mem_zip hq).1
  have h2 := (List.of_mem_zip h1).1
  cases b with
  | false => simp at hq2
  | true =>
    simp only [if_true, Option.some.injEq] at hq2
    subst hq2
    exact h (e ▸ h2)

theorem maskAll_congr (mask : BExpr) (dims : List Nat) (m m' : Mem)
    (h : ∀ ix ∈ idxs dims, ∀ a ∈ mask.reads ix, m a = m' a) : maskAll mask dims m = maskAll mask dims m' := by
  unfold maskAll
  exact List.map_congr_left fun ix hix => bevalAt_congr mask m m' ix (h ix hix)

theorem evalAll_congr (e : Expr) (dims : List Nat) (m m' : Mem)
    (h : ∀ ix ∈ idxs dims, ∀ a ∈ e.reads ix, m a = m' a) : evalAll e dims m = evalAll e dims m' := by
  unfold evalAll
  exact List.map_congr_left fun ix hix => evalAt_congr e m m' ix (h ix hix)

/-- `A.where(B) = either_or(C, D)` as coded (two passes) equals "evaluate B, C, D first" provided neither the
    mask nor `C` reads any cell of the target (`D` may: it is alias-tested and evaluated in the first pass) -/
theorem whereEitherOr_semantics (lhs : View) (mask : BExpr) (c d : WRhs) (m : Mem) (hw : lhs.WF)
    (hcc : c.Conforms lhs.dims) (hcd : d.Conforms lhs.dims)
    (hmask : ∀ ix ∈ idxs lhs.dims, ∀ a ∈ mask.reads ix, a ∉ lhs.cells)
    (hcav : c.Avoids lhs) (hnac : c.NaSafe lhs) (hnad : d.NaSafe lhs) :
    whereEitherOr lhs mask c d m
      = storeWhere lhs (maskAll mask lhs.dims m) (c.evalAll lhs.dims m)
          (storeWhere lhs (maskAll (.not mask) lhs.dims m) (d.evalAll lhs.dims m) m) := by
  have hm : SafeFor lhs.addr (idxs lhs.dims) mask.reads :=
    safeFor_of_disjoint _ _ _ fun ix' h' ix h e => hmask ix h _ e (mem_cells h')
  have hm' : SafeFor lhs.addr (idxs lhs.dims) (BExpr.not mask).reads := hm
  unfold whereEitherOr
  rw [whereAssign_semantics lhs (.not mask) d m hw hcd hm' hnad]
  rw [whereAssign_semantics lhs mask c _ hw hcc hm hnac]
  have hoff : ∀ a, a ∉ lhs.cells →
      storeWhere lhs (maskAll (.not mask) lhs.dims m) (d.evalAll lhs.dims m) m a = m a :=
    fun a ha => storeWhere_off lhs _ _ m a ha
  rw [maskAll_congr mask lhs.dims _ m (fun ix hix a ha => hoff a (hmask ix hix a ha))]
  congr 1
  cases c with
  | scalar x => rfl
  | expr e => exact evalAll_congr e lhs.dims _ m (fun ix hix a ha => hoff a (hcav ix hix a ha))

/-! ### `FixedArray` target: no alias test, the caller must guarantee safety -/

theorem fixedAssign_semantics (lhs : View) (rhs : Expr) (m : Mem) (hw : lhs.WF)
    (hs : SafeFor lhs.addr (idxs lhs.dims) rhs.reads) :
    fixedAssign lhs rhs m = storeAll lhs (evalAll rhs lhs.dims m) m := by
  unfold fixedAssign
  rw [assignExpression_eq_seq _ _ _ hw]
  exact seq_eq_par lhs rhs m hs

/-! ### `IndexedArray` target -/

/-- every selected index lies inside the wrapped array, and the selection is not empty -/
structure IView.WF (w : IView) : Prop where
  inb : ∀ ix ∈ idxs w.dims, pick w.sel ix ∈ idxs w.a.dims
  nonempty : (w.dims.head? == some 0 || w.dims.isEmpty) = false

theorem indexedAssign_semantics (lhs : IView) (rhs : Expr) (m : Mem) (hw : lhs.WF) (hc : rhs.Conforms lhs.dims)
    (hna : ∀ t ∈ rhs.noaliasTerms, SafeFor lhs.addr (idxs lhs.dims) t.reads) :
    indexedAssign lhs rhs m = storeAllI lhs (evalAll rhs lhs.dims m) m := by
  unfold indexedAssign
  rw [hw.nonempty]
  simp only [Bool.false_eq_true, if_false]
  cases ha : rhs.isAliased lhs.a.dataRange.1 lhs.a.dataRange.2 with
  | true =>
    simp only [if_true, indexedAssignExpression, storeAllI, evalAll, IView.cells, storePairs_zip_map,
      Expr.snapshot, Expr.evalAt]
  | false =>
    simp only [Bool.false_eq_true, if_false, indexedAssignExpression]
    refine seq_eq_par_gen lhs.addr rhs (idxs lhs.dims) m ?_
    exact safeFor_of_not_aliased lhs.addr lhs.a.cells _ _ lhs.dims (fun ix h => mem_cells (hw.inb ix h))
      (fun v hv => not_aliased_disjoint lhs.a v hv) rhs hc ha hna

theorem indexedCompound_semantics (op : BOp) (lhs : IView) (rhs : Expr) (m : Mem) (hw : lhs.WF)
    (hinj : lhs.cells.Nodup) (hc : rhs.Conforms lhs.dims)
    (hna : ∀ t ∈ rhs.noaliasTerms, SafeFor lhs.addr (idxs lhs.dims) t.reads) :
    indexedCompound op lhs rhs m
      = storeAllI lhs ((idxs lhs.dims).map fun ix => op.ap (m (lhs.addr ix)) (rhs.evalAt m ix)) m := by
  unfold indexedCompound
  rw [indexedAssign_semantics lhs _ m hw
    (show Expr.Conforms lhs.dims (Expr.bin op (Expr.noalias (Expr.ileaf lhs)) rhs) from ⟨hw.inb, hc⟩) ?_]
  · rfl
  · intro t ht
    simp only [Expr.noaliasTerms, List.singleton_append, List.mem_cons] at ht
    cases ht with
    | inl h => subst h; exact safeFor_self lhs.addr _ hinj
    | inr h => exact hna t h

theorem indexedAssignScalar_semantics (lhs : IView) (x : Int) (m : Mem) (hw : lhs.WF) :
    indexedAssignScalar lhs x m = storeAllI lhs ((idxs lhs.dims).map fun _ => x) m := by
  unfold indexedAssignScalar
  rw [hw.nonempty]
  simp only [Bool.false_eq_true, if_false, storeAllI, IView.cells, storePairs_zip_map]

/-! ### compound conditional assignment `A.where(B) OP= C`; `FixedArray.where` -/

theorem reads_bin (op : BOp) (l r : Expr) : (Expr.bin op l r).reads = fun ix => l.reads ix ++ r.reads ix := by
  funext ix; rfl

theorem reads_noalias_leaf (v : View) : (Expr.noalias (Expr.leaf v)).reads = fun ix => [v.addr ix] := by
  funext ix; rfl

theorem toExpr_conforms (r : WRhs) (dims : List Nat) (h : r.Conforms dims) : r.toExpr.Conforms dims := by
  cases r with
  | expr e => exact h
  | scalar x => exact trivial

theorem toExpr_naSafe (r : WRhs) (lhs : View) (h : r.NaSafe lhs) :
    ∀ t ∈ r.toExpr.noaliasTerms, SafeFor lhs.addr (idxs lhs.dims) t.reads := by
  cases r with
  | expr e => exact h
  | scalar x => intro t ht; simp [WRhs.toExpr, Expr.noaliasTerms] at ht

/-- `A.where(B) OP= C` as coded (`assign_conditional(B, noalias(A) OP C)`): selected elements become `old OP C` with mask and
    `C` read before anything is stored, for every overlap of `C` with `A` (it is alias-tested); the mask must be safe to read
    lazily (F-25) -/
theorem whereCompound_semantics (op : BOp) (lhs : View) (mask : BExpr) (r : WRhs) (m : Mem) (hw : lhs.WF)
    (hinj : lhs.Injective) (hc : r.Conforms lhs.dims) (hm : SafeFor lhs.addr (idxs lhs.dims) mask.reads)
    (hna : r.NaSafe lhs) :
    whereCompound op lhs mask r m
      = storeWhere lhs (maskAll mask lhs.dims m)
          ((idxs lhs.dims).map fun ix => op.ap (m (lhs.addr ix)) (r.toExpr.evalAt m ix)) m := by
  unfold whereCompound
  rw [assignConditional_semantics lhs mask _ m hw
    (show Expr.Conforms lhs.dims (Expr.bin op (Expr.noalias (Expr.leaf lhs)) r.toExpr) from
      ⟨fun ix h => h, toExpr_conforms r lhs.dims hc⟩) hm ?_]
  · rfl
  · intro t ht
    simp only [Expr.noaliasTerms, List.singleton_append, List.mem_cons] at ht
    cases ht with
    | inl h => subst h; exact safeFor_self lhs.addr _ hinj
    | inr h => exact toExpr_naSafe r lhs hna t h

theorem zip3_mem {α β γ : Type} (k : α) (x : β) (b : γ) :
    ∀ (l1 : List α) (l2 : List β) (l3 : List γ), ((k, x), b) ∈ (l1.zip l2).zip l3 → (k, b) ∈ l1.zip l3
  | [], _, _, h => by simp at h
  | _ :: _, [], _, h => by simp at h
  | _ :: _, _ :: _, [], h => by simp at h
  | a :: l1, y :: l2, c :: l3, h => by
    simp only [List.zip_cons_cons, List.mem_cons, Prod.mk.injEq] at h ⊢
    rcases h with ⟨⟨h1, _⟩, h3⟩ | h
    · exact Or.inl ⟨h1, h3⟩
    · exact Or.inr (zip3_mem k x b l1 l2 l3 h)

/-- a conditional store leaves alone every cell none of whose positions is selected -/
theorem storeWhere_unselected (lhs : View) (bs : List Bool) (xs : List Int) (m : Mem) (a : Int)
    (h : ∀ p ∈ lhs.cells.zip bs, p.1 = a → p.2 = false) : storeWhere lhs bs xs m a = m a := by
  unfold storeWhere
  apply storePairs_not_mem
  intro p hp e
  simp only [List.mem_filterMap] at hp
  obtain ⟨⟨⟨k, x⟩, b⟩, hq, hq2⟩ := hp
  cases b with
  | false => simp at hq2
  | true =>
    simp only [if_true, Option.some.injEq] at hq2
    subst hq2
    have := h (k, true) (zip3_mem k x true _ _ _ hq) e
    simp at this

/-- `F.where(B) = C` on a `FixedArray` (no alias test): mask and right-hand side must both be safe to read lazily -/
theorem fixedWhereAssign_semantics (lhs : View) (mask : BExpr) (r : WRhs) (m : Mem) (hw : lhs.WF)
    (hm : SafeFor lhs.addr (idxs lhs.dims) mask.reads) (hr : SafeFor lhs.addr (idxs lhs.dims) r.toExpr.reads) :
    fixedWhereAssign lhs mask r m = storeWhere lhs (maskAll mask lhs.dims m) (r.evalAll lhs.dims m) m := by
  unfold fixedWhereAssign
  rw [assignConditional__eq_seq _ _ _ _ hw, seqWhere_frozen lhs mask _ m hm hr]
  cases r <;> rfl

theorem fixedWhereCompound_semantics (op : BOp) (lhs : View) (mask : BExpr) (r : WRhs) (m : Mem) (hw : lhs.WF)
    (hinj : lhs.Injective) (hm : SafeFor lhs.addr (idxs lhs.dims) mask.reads)
    (hr : SafeFor lhs.addr (idxs lhs.dims) r.toExpr.reads) :
    fixedWhereCompound op lhs mask r m
      = storeWhere lhs (maskAll mask lhs.dims m)
          ((idxs lhs.dims).map fun ix => op.ap (m (lhs.addr ix)) (r.toExpr.evalAt m ix)) m := by
  unfold fixedWhereCompound
  rw [fixedWhereAssign_semantics lhs mask _ m hw hm ?_]
  · rfl
  · show SafeFor lhs.addr (idxs lhs.dims) (Expr.bin op (Expr.noalias (Expr.leaf lhs)) r.toExpr).reads
    rw [reads_bin, reads_noalias_leaf]
    exact safeFor_append _ _ _ _ (safeFor_self lhs.addr _ hinj) hr

/-! ### initializer lists -/

theorem fold_zipIdx_write (base s : Int) (xs : List Int) (k : Nat) (m : Mem) :
    (xs.zipIdx k).foldl (fun m p => write m (base + (p.2 : Int) * s) p.1) m
      = storePairs (((List.range' k xs.length).map fun (j : Nat) => base + (j : Int) * s).zip xs) m := by
  induction xs generalizing k m with
  | nil => simp [storePairs]
  | cons x xs ih =>
    simp only [List.zipIdx_cons, List.foldl_cons, List.length_cons, List.range'_succ, List.map_cons, List.zip_cons_cons,
      storePairs]
    exact ih (k + 1) _

/-- `v = {x0, x1, ..}` as coded: the whole vector is zeroed (every element: `assignScalar_semantics`), then element `j` of the
    list is stored at `data_[j*offset_[0]]`, in list order -/
theorem ilAssign1_semantics (lhs : View) (xs : List Int) (m : Mem) (hw : lhs.WF) :
    ilAssign1 lhs xs m
      = storePairs (((List.range xs.length).map fun (j : Nat) => lhs.base + (j : Int) * lhs.strides.headD 0).zip xs)
          (storeAll lhs ((idxs lhs.dims).map fun _ => 0) m) := by
  unfold ilAssign1
  rw [assignScalar_semantics lhs 0 m hw, fold_zipIdx_write, List.range_eq_range']

/-- `data_[j*offset_[0]]` is the address of coordinate `[j]` of a vector -/
theorem vector_addr (lhs : View) (s : Int) (j : Nat) (h : lhs.strides = [s]) :
    lhs.addr [j] = lhs.base + (j : Int) * lhs.strides.headD 0 := by
  simp [View.addr, dot, h]

/-- `(*this)[i]` addresses element `ix` of row `i` where the matrix addresses `i :: ix` -/
theorem sub_addr (lhs : View) (i : Nat) (ix : List Nat) (s : Int) (ss : List Int) (h : lhs.strides = s :: ss) :
    (lhs.sub i).addr ix = lhs.addr (i :: ix) := by
  simp [View.sub, View.addr, dot, h, Int.add_assoc]

end Adept.Assign
