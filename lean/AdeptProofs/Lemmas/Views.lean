import AdeptModel.Views
/-!
Helper lemmas for C06 (views).  Core Lean only (`omega`, `simp`, `grind`, induction).

Contents, in order: `get_index_with_len` / ranged `update_index` outcomes; `sliceGo` address lemma;
truncating-division arithmetic of the extent formula (`extent_pos/neg`, documented and maximal extents);
admissible arguments and in-range lemmas for slices; bounds-checked rejection; `operator[]`, `T`;
`permute` (scatter sums, permutations); `diag_vector`, `submatrix_on_diagonal`; `reshape` (row-major
linear index); every operation (`apply_addr`, `apply_inRange`), runs (`run_addr`, `run_inRange`,
`run_cells`); freshly packed parents (row- and column-major address bounds); `is_contiguous`; rank of a slice;
checked build ⇒ unchecked build.
-/
namespace Adept.Views

theorem getIndex_ok {c : Bool} {e : EndExpr} {len : Nat} {j : Int}
    (h : getIndexWithLen c e len = .ok j) :
    j = e.resolve len ∧ (c = true → 0 ≤ j ∧ j < len) := by
  unfold getIndexWithLen at h
  simp only at h
  split at h
  · cases h
  · cases h
    refine ⟨rfl, ?_⟩
    intro hc
    subst hc
    simp_all

/-- what a successful ranged `update_index` returns -/
theorem updateRange_ok {c : Bool} {len : Nat} {off : Int} {b e : EndExpr} {s inc o : Int} {n : Nat}
    (h : updateRange c len off b e s = .ok (inc, n, o)) :
    inc = b.resolve len * off ∧ o = s * off ∧ s ≠ 0 ∧
    (n : Int) = (e.resolve len + s - b.resolve len).tdiv s ∧
    (c = true → (0 ≤ b.resolve len ∧ b.resolve len < len) ∧ (0 ≤ e.resolve len ∧ e.resolve len < len)) := by
  unfold updateRange at h
  cases hb : getIndexWithLen c b len with
  | error x => simp [hb, bind, Except.bind] at h
  | ok bi =>
    cases he : getIndexWithLen c e len with
    | error x => simp [hb, he, bind, Except.bind] at h
    | ok ei =>
      simp only [hb, he, bind, Except.bind] at h
      obtain ⟨hb1, hb2⟩ := getIndex_ok hb
      obtain ⟨he1, he2⟩ := getIndex_ok he
      split at h
      · cases h
      · split at h
        · cases h
        · cases h
          subst hb1 he1
          refine ⟨rfl, rfl, by assumption, ?_, fun hc => ⟨hb2 hc, he2 hc⟩⟩
          omega

/-- the three shapes of a successful `update_index` -/
theorem updateIndex_ok {c : Bool} {len : Nat} {off : Int} {a : Ix} {inc : Int} {nd : Option (Nat × Int)}
    (h : updateIndex c len off a = .ok (inc, nd)) :
    match a with
    | .at e => nd = none ∧ inc = e.resolve len * off ∧ (c = true → 0 ≤ e.resolve len ∧ e.resolve len < len)
    | .range b e => ∃ n o, nd = some (n, o) ∧ updateRange c len off b e 1 = .ok (inc, n, o)
    | .stride b e s => ∃ n o, nd = some (n, o) ∧ updateRange c len off b e (s.resolve len) = .ok (inc, n, o)
    | .all => nd = some (len, off) ∧ inc = 0 := by
  cases a with
  | «at» e =>
    simp only [updateIndex] at h ⊢
    cases hj : getIndexWithLen c e len with
    | error x => simp [hj, bind, Except.bind] at h
    | ok j =>
      simp only [hj, bind, Except.bind] at h
      obtain ⟨h1, h2⟩ := getIndex_ok hj
      cases h
      subst h1
      exact ⟨rfl, rfl, h2⟩
  | range b e =>
    simp only [updateIndex] at h ⊢
    cases hr : updateRange c len off b e 1 with
    | error x => simp [hr, bind, Except.bind] at h
    | ok r =>
      obtain ⟨i, n, o⟩ := r
      simp only [hr, bind, Except.bind] at h
      cases h
      exact ⟨n, o, rfl, rfl⟩
  | stride b e s =>
    simp only [updateIndex] at h ⊢
    cases hr : updateRange c len off b e (s.resolve len) with
    | error x => simp [hr, bind, Except.bind] at h
    | ok r =>
      obtain ⟨i, n, o⟩ := r
      simp only [hr, bind, Except.bind] at h
      cases h
      exact ⟨n, o, rfl, rfl⟩
  | all =>
    simp only [updateIndex] at h ⊢
    cases h
    exact ⟨rfl, rfl⟩

/-- unfolding of one step of `sliceGo` -/
theorem sliceGo_cons_ok {c : Bool} {d : Nat} {ds : List Nat} {s : Int} {ss : List Int} {a : Ix} {as : List Ix}
    {inc : Int} {nd : List Nat} {ns : List Int}
    (h : sliceGo c (d :: ds) (s :: ss) (a :: as) = .ok (inc, nd, ns)) :
    ∃ i1 o1 i2 nd2 ns2, updateIndex c d s a = .ok (i1, o1) ∧ sliceGo c ds ss as = .ok (i2, nd2, ns2) ∧
      inc = i1 + i2 ∧
      (match o1 with
       | none => nd = nd2 ∧ ns = ns2
       | some (n, o) => nd = n :: nd2 ∧ ns = o :: ns2) := by
  simp only [sliceGo] at h
  cases hu : updateIndex c d s a with
  | error x => simp [hu, bind, Except.bind] at h
  | ok r =>
    obtain ⟨i1, o1⟩ := r
    cases hr : sliceGo c ds ss as with
    | error x => simp [hu, hr, bind, Except.bind] at h
    | ok r2 =>
      obtain ⟨i2, nd2, ns2⟩ := r2
      simp only [hu, hr, bind, Except.bind] at h
      refine ⟨i1, o1, i2, nd2, ns2, rfl, rfl, ?_⟩
      cases o1 with
      | none => cases h; exact ⟨rfl, rfl, rfl⟩
      | some p => obtain ⟨n, o⟩ := p; cases h; exact ⟨rfl, rfl, rfl⟩

theorem sliceGo_addr (c : Bool) : ∀ (ds : List Nat) (ss : List Int) (as : List Ix) (inc : Int) (nd : List Nat) (ns : List Int),
    sliceGo c ds ss as = .ok (inc, nd, ns) →
    nd.length = ns.length ∧
    ∀ ix : List Int, ix.length = nd.length → inc + dot ix ns = dot (expandSlice ds as ix) ss := by
  intro ds
  induction ds with
  | nil =>
    intro ss as inc nd ns h
    cases ss <;> cases as <;> simp [sliceGo] at h
    obtain ⟨rfl, rfl, rfl⟩ := h
    refine ⟨rfl, ?_⟩
    intro ix _
    simp [dot, expandSlice]
  | cons d ds ih =>
    intro ss as inc nd ns h
    cases ss with
    | nil => cases as <;> simp [sliceGo] at h
    | cons s ss =>
      cases as with
      | nil => simp [sliceGo] at h
      | cons a as =>
        obtain ⟨i1, o1, i2, nd2, ns2, hu, hr, hinc, hm⟩ := sliceGo_cons_ok h
        obtain ⟨hl, ihx⟩ := ih ss as i2 nd2 ns2 hr
        have hu' := updateIndex_ok hu
        cases a with
        | «at» e =>
          obtain ⟨rfl, hi1, _⟩ := hu'
          obtain ⟨rfl, rfl⟩ := hm
          refine ⟨hl, ?_⟩
          intro ix hix
          have := ihx ix hix
          simp only [expandSlice, dot]
          omega
        | range b e =>
          obtain ⟨n, o, rfl, hur⟩ := hu'
          obtain ⟨rfl, rfl⟩ := hm
          obtain ⟨hi1, ho, _, _, _⟩ := updateRange_ok hur
          refine ⟨by simp [hl], ?_⟩
          intro ix hix
          cases ix with
          | nil => simp at hix
          | cons i ix =>
            have := ihx ix (by simpa using hix)
            simp only [expandSlice, dot]
            subst hi1 ho hinc
            grind
        | stride b e st =>
          obtain ⟨n, o, rfl, hur⟩ := hu'
          obtain ⟨rfl, rfl⟩ := hm
          obtain ⟨hi1, ho, _, _, _⟩ := updateRange_ok hur
          refine ⟨by simp [hl], ?_⟩
          intro ix hix
          cases ix with
          | nil => simp at hix
          | cons i ix =>
            have := ihx ix (by simpa using hix)
            simp only [expandSlice, dot]
            subst hi1 ho hinc
            grind
        | all =>
          obtain ⟨rfl, hi1⟩ := hu'
          obtain ⟨rfl, rfl⟩ := hm
          refine ⟨by simp [hl], ?_⟩
          intro ix hix
          cases ix with
          | nil => simp at hix
          | cons i ix =>
            have := ihx ix (by simpa using hix)
            simp only [expandSlice, dot]
            omega

/-- positive stride: the `i`-th element of `b, b+s, …` (with `i` below the extent
    `(e + s - b)/s`, C++ division) lies between `b` and `e` -/
theorem extent_pos {b e s i : Int} {n : Nat} (hs : 0 < s)
    (hn : (n : Int) = (e + s - b).tdiv s) (hi0 : 0 ≤ i) (hin : i < n) :
    0 ≤ i * s ∧ i * s ≤ e - b := by
  have ha : 0 ≤ e + s - b := by
    false_or_by_contra
    rename_i hneg
    have h1 : 0 ≤ (-(e + s - b)).tdiv s := Int.tdiv_nonneg (by omega) (by omega)
    rw [Int.neg_tdiv] at h1
    omega
  rw [Int.tdiv_eq_ediv_of_nonneg ha] at hn
  have h2 : (e + s - b) / s * s ≤ e + s - b := Int.ediv_mul_le _ (by omega)
  have h3 : (i + 1) * s ≤ (n : Int) * s := Int.mul_le_mul_of_nonneg_right (by omega) (by omega)
  have h4 : 0 ≤ i * s := Int.mul_nonneg hi0 (by omega)
  rw [← hn] at h2
  have h5 : (i + 1) * s = i * s + s := by grind
  omega

/-- negative stride -/
theorem extent_neg {b e s i : Int} {n : Nat} (hs : s < 0)
    (hn : (n : Int) = (e + s - b).tdiv s) (hi0 : 0 ≤ i) (hin : i < n) :
    i * s ≤ 0 ∧ e - b ≤ i * s := by
  have hn' : (n : Int) = (b + (-s) - e).tdiv (-s) := by
    rw [hn, ← Int.neg_tdiv_neg]
    congr 1
    omega
  have := extent_pos (by omega) hn' hi0 hin
  have h5 : i * -s = -(i * s) := by grind
  omega

/-- every element selected by `stride(b,e,s)` with in-range end points is in range -/
theorem range_elem_inRange {b e s i : Int} {len n : Nat}
    (hb : 0 ≤ b ∧ b < len) (he : 0 ≤ e ∧ e < len) (hs : s ≠ 0)
    (hn : (n : Int) = (e + s - b).tdiv s) (hi0 : 0 ≤ i) (hin : i < n) :
    0 ≤ b + i * s ∧ b + i * s < len := by
  rcases Int.lt_or_gt_of_ne hs with h | h
  · have := extent_neg h hn hi0 hin
    omega
  · have := extent_pos h hn hi0 hin
    omega


/-- the documented extent of `stride(b,e,s)`, `s > 0`, `b ≤ e`: ⌊(e-b)/s⌋ + 1 … -/
theorem extent_documented_pos {b e s : Int} (hs : 0 < s) (hbe : b ≤ e) :
    (e + s - b).tdiv s = (e - b) / s + 1 := by
  rw [Int.tdiv_eq_ediv_of_nonneg (by omega)]
  have : e + s - b = (e - b) + 1 * s := by omega
  rw [this, Int.add_mul_ediv_right _ _ (by omega)]

/-- … and `s < 0`, `e ≤ b`: ⌊(b-e)/|s|⌋ + 1 -/
theorem extent_documented_neg {b e s : Int} (hs : s < 0) (hbe : e ≤ b) :
    (e + s - b).tdiv s = (b - e) / (-s) + 1 := by
  have h := extent_documented_pos (b := e) (e := b) (s := -s) (by omega) hbe
  rw [← h, ← Int.neg_tdiv_neg]
  congr 1
  omega

/-- the extent is maximal: one more step would pass the end point -/
theorem extent_maximal_pos {b e s : Int} (hs : 0 < s) (hbe : b ≤ e) :
    e < b + (e + s - b).tdiv s * s := by
  rw [extent_documented_pos hs hbe]
  have := Int.lt_ediv_add_one_mul_self (e - b) hs
  omega

theorem extent_maximal_neg {b e s : Int} (hs : s < 0) (hbe : e ≤ b) :
    b + (e + s - b).tdiv s * s < e := by
  rw [extent_documented_neg hs hbe]
  have := Int.lt_ediv_add_one_mul_self (b - e) (b := -s) (by omega)
  have h5 : ((b - e) / -s + 1) * -s = -(((b - e) / -s + 1) * s) := by grind
  omega

/-- a direction-inconsistent range is empty or has no meaningful extent: never positive -/
theorem extent_inconsistent {b e s : Int} (h : (0 < s ∧ e < b) ∨ (s < 0 ∧ b < e)) :
    (e + s - b).tdiv s ≤ 0 := by
  false_or_by_contra
  rename_i hpos
  have hn : (((e + s - b).tdiv s).toNat : Int) = (e + s - b).tdiv s := by omega
  rcases h with ⟨h1, h2⟩ | ⟨h1, h2⟩
  · have := extent_pos (i := 0) h1 hn (by omega) (by omega)
    omega
  · have := extent_neg (i := 0) h1 hn (by omega) (by omega)
    omega

/-! ### admissible arguments -/

/-- end points of argument `a` for a dimension of length `len` are valid indices -/
def ArgAdm (len : Nat) : Ix → Prop
  | .at e => 0 ≤ e.resolve len ∧ e.resolve len < len
  | .range b e => (0 ≤ b.resolve len ∧ b.resolve len < len) ∧ (0 ≤ e.resolve len ∧ e.resolve len < len)
  | .stride b e _ => (0 ≤ b.resolve len ∧ b.resolve len < len) ∧ (0 ≤ e.resolve len ∧ e.resolve len < len)
  | .all => True

def ArgsAdm : List Nat → List Ix → Prop
  | d :: ds, a :: as => ArgAdm d a ∧ ArgsAdm ds as
  | _, _ => True

/-- in the bounds-checked build a successful `update_index` had an admissible argument -/
theorem updateIndex_checked_adm {len : Nat} {off : Int} {a : Ix} {inc : Int} {nd : Option (Nat × Int)}
    (h : updateIndex true len off a = .ok (inc, nd)) : ArgAdm len a := by
  have h' := updateIndex_ok h
  cases a with
  | «at» e => exact (h'.2.2 rfl)
  | range b e =>
    obtain ⟨n, o, _, hr⟩ := h'
    exact (updateRange_ok hr).2.2.2.2 rfl
  | stride b e s =>
    obtain ⟨n, o, _, hr⟩ := h'
    exact (updateRange_ok hr).2.2.2.2 rfl
  | all => trivial

theorem sliceGo_checked_adm : ∀ (ds : List Nat) (ss : List Int) (as : List Ix) (inc : Int) (nd : List Nat) (ns : List Int),
    sliceGo true ds ss as = .ok (inc, nd, ns) → ArgsAdm ds as := by
  intro ds
  induction ds with
  | nil => intro ss as inc nd ns _; simp [ArgsAdm]
  | cons d ds ih =>
    intro ss as inc nd ns h
    cases ss with
    | nil => cases as <;> simp [sliceGo] at h
    | cons s ss =>
      cases as with
      | nil => simp [ArgsAdm]
      | cons a as =>
        obtain ⟨i1, o1, i2, nd2, ns2, hu, hr, _, _⟩ := sliceGo_cons_ok h
        exact ⟨updateIndex_checked_adm hu, ih ss as i2 nd2 ns2 hr⟩

theorem sliceGo_inRange (c : Bool) : ∀ (ds : List Nat) (ss : List Int) (as : List Ix) (inc : Int) (nd : List Nat) (ns : List Int),
    sliceGo c ds ss as = .ok (inc, nd, ns) → ArgsAdm ds as →
    ∀ ix : List Int, InRange ix nd → InRange (expandSlice ds as ix) ds := by
  intro ds
  induction ds with
  | nil =>
    intro ss as inc nd ns h _ ix hix
    cases ss <;> cases as <;> simp [sliceGo] at h
    simp [expandSlice, InRange]
  | cons d ds ih =>
    intro ss as inc nd ns h hadm ix hix
    cases ss with
    | nil => cases as <;> simp [sliceGo] at h
    | cons s ss =>
      cases as with
      | nil => simp [sliceGo] at h
      | cons a as =>
        obtain ⟨i1, o1, i2, nd2, ns2, hu, hr, hinc, hm⟩ := sliceGo_cons_ok h
        obtain ⟨ha, hadm'⟩ := hadm
        have ih' := ih ss as i2 nd2 ns2 hr hadm'
        have hu' := updateIndex_ok hu
        cases a with
        | «at» e =>
          obtain ⟨rfl, _, _⟩ := hu'
          obtain ⟨rfl, rfl⟩ := hm
          simp only [expandSlice, InRange]
          exact ⟨ha, ih' ix hix⟩
        | range b e =>
          obtain ⟨n, o, rfl, hur⟩ := hu'
          obtain ⟨rfl, rfl⟩ := hm
          obtain ⟨_, _, hs, hn, _⟩ := updateRange_ok hur
          cases ix with
          | nil => simp [InRange] at hix
          | cons i ix =>
            obtain ⟨⟨hi0, hin⟩, hix'⟩ := hix
            simp only [expandSlice, InRange]
            have := range_elem_inRange ha.1 ha.2 hs hn hi0 hin
            exact ⟨by omega, ih' ix hix'⟩
        | stride b e st =>
          obtain ⟨n, o, rfl, hur⟩ := hu'
          obtain ⟨rfl, rfl⟩ := hm
          obtain ⟨_, _, hs, hn, _⟩ := updateRange_ok hur
          cases ix with
          | nil => simp [InRange] at hix
          | cons i ix =>
            obtain ⟨⟨hi0, hin⟩, hix'⟩ := hix
            simp only [expandSlice, InRange]
            exact ⟨range_elem_inRange ha.1 ha.2 hs hn hi0 hin, ih' ix hix'⟩
        | all =>
          obtain ⟨rfl, _⟩ := hu'
          obtain ⟨rfl, rfl⟩ := hm
          cases ix with
          | nil => simp [InRange] at hix
          | cons i ix =>
            obtain ⟨hi, hix'⟩ := hix
            simp only [expandSlice, InRange]
            exact ⟨hi, ih' ix hix'⟩

theorem InRange_length : ∀ {ix : List Int} {ds : List Nat}, InRange ix ds → ix.length = ds.length
  | [], [], _ => rfl
  | _ :: _, _ :: _, h => by simp [InRange_length h.2]
  | [], _ :: _, h => by simp [InRange] at h
  | _ :: _, [], h => by simp [InRange] at h

theorem getIndex_checked (e : EndExpr) (len : Nat) :
    getIndexWithLen true e len =
      if 0 ≤ e.resolve len ∧ e.resolve len < len then .ok (e.resolve len) else .error .index_out_of_bounds := by
  unfold getIndexWithLen
  by_cases h : 0 ≤ e.resolve len ∧ e.resolve len < len
  · simp [h]
  · simp [h]

/-- the C++ result is meaningful: non-zero stride and a non-negative extent -/
def ArgDefined (len : Nat) : Ix → Prop
  | .range b e => 0 ≤ (e.resolve len + 1 - b.resolve len).tdiv 1
  | .stride b e s => s.resolve len ≠ 0 ∧ 0 ≤ (e.resolve len + s.resolve len - b.resolve len).tdiv (s.resolve len)
  | _ => True

def ArgsDefined : List Nat → List Ix → Prop
  | d :: ds, a :: as => ArgDefined d a ∧ ArgsDefined ds as
  | _, _ => True

theorem updateRange_checked_oob {len : Nat} {off : Int} {b e : EndExpr} {s : Int}
    (h : ¬ ((0 ≤ b.resolve len ∧ b.resolve len < len) ∧ (0 ≤ e.resolve len ∧ e.resolve len < len))) :
    updateRange true len off b e s = .error .index_out_of_bounds := by
  unfold updateRange
  rw [getIndex_checked b, getIndex_checked e]
  by_cases hb : 0 ≤ b.resolve len ∧ b.resolve len < len
  · have he : ¬ (0 ≤ e.resolve len ∧ e.resolve len < len) := fun he => h ⟨hb, he⟩
    simp [hb, he, bind, Except.bind]
  · simp [hb, bind, Except.bind]

theorem updateRange_checked_total {len : Nat} {off : Int} {b e : EndExpr} {s : Int}
    (h : (0 ≤ b.resolve len ∧ b.resolve len < len) ∧ (0 ≤ e.resolve len ∧ e.resolve len < len))
    (hs : s ≠ 0) (hn : 0 ≤ (e.resolve len + s - b.resolve len).tdiv s) :
    ∃ r, updateRange true len off b e s = .ok r := by
  unfold updateRange
  rw [getIndex_checked b, getIndex_checked e]
  simp [h.1, h.2, bind, Except.bind, hs]
  rw [if_neg (by omega)]
  exact ⟨_, _, _, rfl⟩

/-- bounds-checked build: an argument with an end point outside `0 … len-1` makes `update_index` throw -/
theorem updateIndex_checked_oob {len : Nat} {off : Int} {a : Ix} (h : ¬ ArgAdm len a) :
    updateIndex true len off a = .error .index_out_of_bounds := by
  cases a with
  | «at» e =>
    simp only [ArgAdm] at h
    simp [updateIndex, getIndex_checked, h, bind, Except.bind]
  | range b e =>
    simp only [ArgAdm] at h
    simp [updateIndex, updateRange_checked_oob h, bind, Except.bind]
  | stride b e s =>
    simp only [ArgAdm] at h
    simp [updateIndex, updateRange_checked_oob h, bind, Except.bind]
  | all => exact absurd trivial h

theorem updateIndex_checked_total {len : Nat} {off : Int} {a : Ix} (h : ArgAdm len a) (hd : ArgDefined len a) :
    ∃ r, updateIndex true len off a = .ok r := by
  cases a with
  | «at» e =>
    simp only [ArgAdm] at h
    simp [updateIndex, getIndex_checked, h, bind, Except.bind]
  | range b e =>
    obtain ⟨r, hr⟩ := updateRange_checked_total (off := off) h (by omega) hd
    simp [updateIndex, hr, bind, Except.bind]
  | stride b e s =>
    obtain ⟨r, hr⟩ := updateRange_checked_total (off := off) h hd.1 hd.2
    simp [updateIndex, hr, bind, Except.bind]
  | all => simp [updateIndex]

/-- bounds-checked `operator()`: if some argument has an end point out of range (and the arguments
    before it are meaningful), `index_out_of_bounds` is thrown -/
theorem sliceGo_checked_rejects : ∀ (ds : List Nat) (ss : List Int) (as : List Ix),
    ds.length = ss.length → ds.length = as.length → ArgsDefined ds as → ¬ ArgsAdm ds as →
    sliceGo true ds ss as = .error .index_out_of_bounds := by
  intro ds
  induction ds with
  | nil => intro ss as _ _ _ h; exact absurd (by simp [ArgsAdm]) h
  | cons d ds ih =>
    intro ss as h1 h2 hd h
    cases ss with
    | nil => simp at h1
    | cons s ss =>
      cases as with
      | nil => simp at h2
      | cons a as =>
        by_cases ha : ArgAdm d a
        · have hrest : ¬ ArgsAdm ds as := fun hr => h ⟨ha, hr⟩
          obtain ⟨r, hr⟩ := updateIndex_checked_total (off := s) ha hd.1
          have := ih ss as (by simpa using h1) (by simpa using h2) hd.2 hrest
          simp [sliceGo, hr, this, bind, Except.bind]
        · simp [sliceGo, updateIndex_checked_oob ha, bind, Except.bind]


theorem sliceGo_expand_length (c : Bool) : ∀ (ds : List Nat) (ss : List Int) (as : List Ix) (inc : Int) (nd : List Nat) (ns : List Int),
    sliceGo c ds ss as = .ok (inc, nd, ns) →
    ∀ ix : List Int, ix.length = nd.length → (expandSlice ds as ix).length = ds.length := by
  intro ds
  induction ds with
  | nil =>
    intro ss as inc nd ns h ix _
    cases ss <;> cases as <;> simp [sliceGo] at h
    simp [expandSlice]
  | cons d ds ih =>
    intro ss as inc nd ns h ix hix
    cases ss with
    | nil => cases as <;> simp [sliceGo] at h
    | cons s ss =>
      cases as with
      | nil => simp [sliceGo] at h
      | cons a as =>
        obtain ⟨i1, o1, i2, nd2, ns2, hu, hr, hinc, hm⟩ := sliceGo_cons_ok h
        have ih' := ih ss as i2 nd2 ns2 hr
        have hu' := updateIndex_ok hu
        cases a with
        | «at» e =>
          obtain ⟨rfl, _, _⟩ := hu'
          obtain ⟨rfl, rfl⟩ := hm
          simp [expandSlice, ih' ix hix]
        | range b e =>
          obtain ⟨n, o, rfl, hur⟩ := hu'
          obtain ⟨rfl, rfl⟩ := hm
          cases ix with
          | nil => simp at hix
          | cons i ix => simp [expandSlice, ih' ix (by simpa using hix)]
        | stride b e st =>
          obtain ⟨n, o, rfl, hur⟩ := hu'
          obtain ⟨rfl, rfl⟩ := hm
          cases ix with
          | nil => simp at hix
          | cons i ix => simp [expandSlice, ih' ix (by simpa using hix)]
        | all =>
          obtain ⟨rfl, _⟩ := hu'
          obtain ⟨rfl, rfl⟩ := hm
          cases ix with
          | nil => simp at hix
          | cons i ix => simp [expandSlice, ih' ix (by simpa using hix)]

theorem sliceRaw_ok {v w : View} {args : List Ix} {c : Bool} (h : sliceRaw v args c = .ok w) :
    ∃ inc, sliceGo c v.dims v.strides args = .ok (inc, w.dims, w.strides) ∧ w.base = v.base + inc := by
  unfold sliceRaw at h
  cases hg : sliceGo c v.dims v.strides args with
  | error x => simp [hg, bind, Except.bind] at h
  | ok r =>
    obtain ⟨inc, nd, ns⟩ := r
    simp only [hg, bind, Except.bind] at h
    cases h
    exact ⟨inc, rfl, rfl⟩

/-- `operator()` with scalar/range/stride/`__` arguments -/
theorem sliceRaw_addr {v w : View} {args : List Ix} {c : Bool} (h : sliceRaw v args c = .ok w) :
    w.WF ∧ ∀ ix : List Int, ix.length = w.dims.length →
      (expandSlice v.dims args ix).length = v.dims.length ∧
      addr w ix = addr v (expandSlice v.dims args ix) := by
  obtain ⟨inc, hg, hb⟩ := sliceRaw_ok h
  obtain ⟨hl, ha⟩ := sliceGo_addr c _ _ _ _ _ _ hg
  refine ⟨hl, fun ix hix => ⟨sliceGo_expand_length c _ _ _ _ _ _ hg ix hix, ?_⟩⟩
  have := ha ix hix
  simp only [addr, hb]
  omega

theorem sliceRaw_inRange {v w : View} {args : List Ix} {c : Bool} (h : sliceRaw v args c = .ok w)
    (hadm : c = true ∨ ArgsAdm v.dims args) :
    ∀ ix : List Int, InRange ix w.dims → InRange (expandSlice v.dims args ix) v.dims := by
  obtain ⟨inc, hg, _⟩ := sliceRaw_ok h
  have hadm' : ArgsAdm v.dims args := by
    rcases hadm with rfl | h'
    · exact sliceGo_checked_adm _ _ _ _ _ _ hg
    · exact h'
  exact sliceGo_inRange c _ _ _ _ _ _ hg hadm'

/-! ### operator[] -/
theorem sub1Raw_ok {v w : View} {e : EndExpr} {c : Bool} (h : sub1Raw v e c = .ok w) :
    ∃ d ds s ss, v.dims = d :: ds ∧ v.strides = s :: ss ∧ w = ⟨v.base + e.resolve d * s, ds, ss⟩ ∧
      (c = true → 0 ≤ e.resolve d ∧ e.resolve d < d) := by
  unfold sub1Raw at h
  split at h
  · rename_i d ds s ss hd hs
    cases hj : getIndexWithLen c e d with
    | error x => simp [hj, bind, Except.bind] at h
    | ok j =>
      simp only [hj, bind, Except.bind] at h
      obtain ⟨h1, h2⟩ := getIndex_ok hj
      cases h
      subst h1
      exact ⟨d, ds, s, ss, hd, hs, rfl, h2⟩
  · cases h

theorem sub1Raw_addr {v w : View} {e : EndExpr} {c : Bool} (hwf : v.WF) (h : sub1Raw v e c = .ok w) :
    w.WF ∧ ∀ ix : List Int, ix.length = w.dims.length →
      (e.resolve (v.dims.headD 0) :: ix).length = v.dims.length ∧
      addr w ix = addr v (e.resolve (v.dims.headD 0) :: ix) := by
  obtain ⟨d, ds, s, ss, hd, hs, rfl, _⟩ := sub1Raw_ok h
  simp only [View.WF, hd, hs, List.length_cons] at hwf
  refine ⟨by simp only [View.WF]; omega, fun ix hix => ?_⟩
  simp only [addr, hd, hs, List.headD_cons, dot, List.length_cons]
  simp only at hix
  omega

theorem sub1Raw_inRange {v w : View} {e : EndExpr} {c : Bool} (h : sub1Raw v e c = .ok w)
    (hadm : c = true ∨ (0 ≤ e.resolve (v.dims.headD 0) ∧ e.resolve (v.dims.headD 0) < v.dims.headD 0)) :
    ∀ ix : List Int, InRange ix w.dims → InRange (e.resolve (v.dims.headD 0) :: ix) v.dims := by
  obtain ⟨d, ds, s, ss, hd, hs, rfl, hc⟩ := sub1Raw_ok h
  intro ix hix
  simp only [hd, List.headD_cons, InRange] at hadm ⊢
  refine ⟨?_, hix⟩
  rcases hadm with hc' | h'
  · exact hc hc'
  · exact h'

/-! ### T -/
theorem transpose_ok {v w : View} (h : transpose v = .ok w) :
    ∃ d0 d1 s0 s1, v.dims = [d0, d1] ∧ v.strides = [s0, s1] ∧ w = ⟨v.base, [d1, d0], [s1, s0]⟩ := by
  unfold transpose at h
  split at h
  · rename_i d0 d1 s0 s1 hd hs
    cases h
    exact ⟨d0, d1, s0, s1, hd, hs, rfl⟩
  · cases h

theorem transpose_addr {v w : View} (h : transpose v = .ok w) :
    w.WF ∧ ∀ ix : List Int, ix.length = w.dims.length →
      (expandOp v .T ix).length = v.dims.length ∧ addr w ix = addr v (expandOp v .T ix) := by
  obtain ⟨d0, d1, s0, s1, hd, hs, rfl⟩ := transpose_ok h
  refine ⟨rfl, fun ix hix => ?_⟩
  match ix, hix with
  | [i, j], _ =>
    simp only [expandOp, addr, hd, hs, dot, List.length_cons, List.length_nil]
    exact ⟨trivial, by omega⟩

theorem transpose_inRange {v w : View} (h : transpose v = .ok w) :
    ∀ ix : List Int, InRange ix w.dims → InRange (expandOp v .T ix) v.dims := by
  obtain ⟨d0, d1, s0, s1, hd, hs, rfl⟩ := transpose_ok h
  intro ix hix
  match ix, hix with
  | [i, j], hix =>
    simp only [expandOp, hd, InRange] at hix ⊢
    exact ⟨hix.2.1, hix.1, trivial⟩


/-! ### permute -/

theorem dot_tabulate_add (g h : Nat → Int) : ∀ (n k : Nat) (ss : List Int),
    dot (tabulate (fun d => g d + h d) k n) ss = dot (tabulate g k n) ss + dot (tabulate h k n) ss := by
  intro n
  induction n with
  | zero => intro k ss; simp [tabulate, dot]
  | succ n ih =>
    intro k ss
    cases ss with
    | nil => simp [tabulate, dot]
    | cons s ss =>
      simp only [tabulate, dot, ih]
      grind

theorem dot_tabulate_zero : ∀ (n k : Nat) (ss : List Int), dot (tabulate (fun _ => 0) k n) ss = 0 := by
  intro n
  induction n with
  | zero => intro k ss; simp [tabulate, dot]
  | succ n ih =>
    intro k ss
    cases ss with
    | nil => simp [tabulate, dot]
    | cons s ss => simp [tabulate, dot, ih]

theorem dot_tabulate_unit (p x : Int) (hp : 0 ≤ p) : ∀ (ss : List Int) (k : Nat),
    dot (tabulate (fun d => if p = (d : Int) then x else 0) k ss.length) ss =
      if k ≤ p.toNat ∧ p.toNat < k + ss.length then x * ss.getD (p.toNat - k) 0 else 0 := by
  intro ss
  induction ss with
  | nil => intro k; simp [tabulate, dot]
  | cons s ss ih =>
    intro k
    simp only [List.length_cons, tabulate, dot, ih]
    by_cases h1 : p = (k : Int)
    · have hk : p.toNat - k = 0 := by omega
      rw [if_pos h1, if_neg (by omega), if_pos (by omega), hk]
      simp
    · by_cases h2 : k + 1 ≤ p.toNat ∧ p.toNat < k + 1 + ss.length
      · have h4 : p.toNat - k = (p.toNat - (k + 1)) + 1 := by omega
        rw [if_neg h1, if_pos h2, if_pos (by omega), h4]
        simp
      · rw [if_neg h1, if_neg h2, if_neg (by omega)]
        simp

theorem scatterAt_nil_left (ix : List Int) : scatterAt [] ix = fun _ => 0 := by
  funext d; simp [scatterAt]

theorem scatterAt_nil_right (p : List Int) : scatterAt p [] = fun _ => 0 := by
  funext d; cases p <;> simp [scatterAt]

theorem scatterAt_cons (p : Int) (ps : List Int) (i : Int) (ix : List Int) :
    scatterAt (p :: ps) (i :: ix) = fun (d : Nat) => (if p = (d : Int) then i else 0) + scatterAt ps ix d := by
  funext d; simp [scatterAt]

/-- Σ_d (parent coordinate d)·stride_d = Σ_i ix_i·stride_{p i}: holds for every `p` with entries in
    range (a permutation is not needed for the address equation) -/
theorem dot_scatter (ss : List Int) : ∀ (p ix : List Int), (∀ x ∈ p, 0 ≤ x ∧ x < (ss.length : Int)) →
    dot (tabulate (scatterAt p ix) 0 ss.length) ss = dot ix (p.map fun x => ss.getD x.toNat 0) := by
  intro p
  induction p with
  | nil => intro ix _; rw [scatterAt_nil_left, dot_tabulate_zero]; cases ix <;> simp [dot]
  | cons x ps ih =>
    intro ix hp
    cases ix with
    | nil => rw [scatterAt_nil_right, dot_tabulate_zero]; simp [dot]
    | cons i ix =>
      have hx := hp x (by simp)
      rw [scatterAt_cons, dot_tabulate_add, dot_tabulate_unit x i hx.1, ih ix (fun y hy => hp y (by simp [hy]))]
      rw [if_pos (by omega)]
      simp [dot]

theorem tabulate_length (f : Nat → Int) : ∀ (n k : Nat), (tabulate f k n).length = n := by
  intro n
  induction n with
  | zero => intro k; rfl
  | succ n ih => intro k; simp [tabulate, ih]

theorem permuteGo_ok (dims : List Nat) (strides : List Int) : ∀ (p : List Int) (nd : List Nat) (ns : List Int),
    permuteGo dims strides p = .ok (nd, ns) →
    nd = p.map (fun x => dims.getD x.toNat 0) ∧ ns = p.map (fun x => strides.getD x.toNat 0) ∧
    ∀ x ∈ p, 0 ≤ x ∧ x < (dims.length : Int) := by
  intro p
  induction p with
  | nil => intro nd ns h; simp [permuteGo] at h; simp [h]
  | cons x ps ih =>
    intro nd ns h
    simp only [permuteGo] at h
    split at h
    · rename_i hx
      cases hr : permuteGo dims strides ps with
      | error e => simp [hr, bind, Except.bind] at h
      | ok r =>
        obtain ⟨nd2, ns2⟩ := r
        simp only [hr, bind, Except.bind] at h
        cases h
        obtain ⟨h1, h2, h3⟩ := ih nd2 ns2 hr
        subst h1 h2
        refine ⟨rfl, rfl, ?_⟩
        intro y hy
        simp at hy
        rcases hy with rfl | hy
        · exact hx
        · exact h3 y hy
    · cases h

theorem permuteRaw_ok {v w : View} {p : List Int} (h : permuteRaw v p = .ok w) :
    p.length = v.dims.length ∧ v.dims.length = v.strides.length ∧
    w = ⟨v.base, p.map (fun x => v.dims.getD x.toNat 0), p.map (fun x => v.strides.getD x.toNat 0)⟩ ∧
    ∀ x ∈ p, 0 ≤ x ∧ x < (v.dims.length : Int) := by
  unfold permuteRaw at h
  split at h
  · cases h
  · rename_i h0
    split at h
    · cases h
    · cases hr : permuteGo v.dims v.strides p with
      | error e => simp [hr, bind, Except.bind] at h
      | ok r =>
        obtain ⟨nd, ns⟩ := r
        simp only [hr, bind, Except.bind] at h
        split at h
        · cases h
        · cases h
          obtain ⟨h1, h2, h3⟩ := permuteGo_ok _ _ _ _ _ hr
          subst h1 h2
          refine ⟨?_, ?_, rfl, h3⟩ <;> omega

/-- `permute` returns no view with a zero extent ("Missing dimension" branch of the second loop) -/
theorem permuteRaw_pos {v w : View} {p : List Int} (h : permuteRaw v p = .ok w) : ∀ d ∈ w.dims, d ≠ 0 := by
  unfold permuteRaw at h
  split at h
  · cases h
  · split at h
    · cases h
    · cases hr : permuteGo v.dims v.strides p with
      | error e => simp [hr, bind, Except.bind] at h
      | ok r =>
        obtain ⟨nd, ns⟩ := r
        simp only [hr, bind, Except.bind] at h
        split at h
        · cases h
        · rename_i hno
          cases h
          intro d hd h0
          apply hno
          simp only [Bool.or_eq_true]
          right
          exact List.any_eq_true.mpr ⟨d, hd, by simp [h0]⟩

theorem permuteRaw_addr {v w : View} {p : List Int} (h : permuteRaw v p = .ok w) :
    w.WF ∧ ∀ ix : List Int, ix.length = w.dims.length →
      (expandPermute v.dims.length p ix).length = v.dims.length ∧
      addr w ix = addr v (expandPermute v.dims.length p ix) := by
  obtain ⟨h1, h2, rfl, h4⟩ := permuteRaw_ok h
  refine ⟨by simp [View.WF], fun ix _ => ⟨tabulate_length _ _ _, ?_⟩⟩
  simp only [addr, expandPermute]
  rw [h2] at h4 ⊢
  rw [dot_scatter v.strides p ix h4]

/-- `p` lists every dimension `0 … r-1` exactly once -/
def IsPerm (p : List Int) (r : Nat) : Prop := p.length = r ∧ ∀ d : Nat, d < r → p.count (d : Int) = 1

theorem scatterAt_count_zero (d : Nat) : ∀ (p ix : List Int), p.count (d : Int) = 0 → scatterAt p ix d = 0 := by
  intro p
  induction p with
  | nil => intro ix _; simp [scatterAt]
  | cons x ps ih =>
    intro ix h
    cases ix with
    | nil => simp [scatterAt]
    | cons i ix =>
      rw [List.count_cons] at h
      have hx : ¬ x = (d : Int) := by
        intro hx; subst hx; simp at h
      simp [scatterAt, hx, ih ix (by omega)]

theorem scatterAt_count_one (dims : List Nat) (d : Nat) : ∀ (p ix : List Int), p.count (d : Int) = 1 →
    InRange ix (p.map fun x => dims.getD x.toNat 0) →
    0 ≤ scatterAt p ix d ∧ scatterAt p ix d < (dims.getD d 0 : Nat) := by
  intro p
  induction p with
  | nil => intro ix h; simp at h
  | cons x ps ih =>
    intro ix h hix
    cases ix with
    | nil => simp [InRange] at hix
    | cons i ix =>
      simp only [List.map_cons, InRange] at hix
      rw [List.count_cons] at h
      by_cases hx : x = (d : Int)
      · subst hx
        simp at h
        have := scatterAt_count_zero d ps ix h
        simp only [scatterAt, this, if_true]
        have h5 := hix.1
        rw [Int.toNat_natCast] at h5
        omega
      · have hc : ps.count (d : Int) = 1 := by
          have : (x == (d : Int)) = false := by simpa using hx
          simpa [this] using h
        have := ih ix hc hix.2
        simp only [scatterAt, hx, if_false]
        omega

theorem inRange_tabulate (f : Nat → Int) : ∀ (ds : List Nat) (k : Nat),
    (∀ j, j < ds.length → 0 ≤ f (k + j) ∧ f (k + j) < (ds.getD j 0 : Nat)) →
    InRange (tabulate f k ds.length) ds := by
  intro ds
  induction ds with
  | nil => intro k _; simp [tabulate, InRange]
  | cons d ds ih =>
    intro k h
    simp only [List.length_cons, tabulate, InRange]
    refine ⟨by simpa using h 0 (by simp), ih (k + 1) ?_⟩
    intro j hj
    have := h (j + 1) (by simp; omega)
    have e : k + (j + 1) = k + 1 + j := by omega
    simpa [e] using this

theorem permuteRaw_inRange {v w : View} {p : List Int} (h : permuteRaw v p = .ok w) (hp : IsPerm p v.dims.length) :
    ∀ ix : List Int, InRange ix w.dims → InRange (expandPermute v.dims.length p ix) v.dims := by
  obtain ⟨h1, h2, rfl, h4⟩ := permuteRaw_ok h
  intro ix hix
  simp only [expandPermute]
  apply inRange_tabulate
  intro j hj
  simp only [Nat.zero_add]
  exact scatterAt_count_one v.dims j p ix (hp.2 j hj) hix


/-! ### diag_vector, submatrix_on_diagonal -/

theorem diagRaw_addr {v w : View} {k : Int} (h : diagVectorRaw v k = .ok w) :
    w.WF ∧ ∀ ix : List Int, ix.length = w.dims.length →
      (expandOp v (.diag k) ix).length = v.dims.length ∧ addr w ix = addr v (expandOp v (.diag k) ix) := by
  unfold diagVectorRaw at h
  split at h
  · rename_i d0 d1 s0 s1 hd hs
    have key : ∀ (b : Int) (n : Nat), w = ⟨b, [n], [s0 + s1]⟩ →
        b = (if k ≥ 0 then v.base + s1 * k else v.base - s0 * k) →
        w.WF ∧ ∀ ix : List Int, ix.length = w.dims.length →
          (expandOp v (.diag k) ix).length = v.dims.length ∧ addr w ix = addr v (expandOp v (.diag k) ix) := by
      intro b n hw hb
      subst hw
      refine ⟨rfl, fun ix hix => ?_⟩
      match ix, hix with
      | [i], _ =>
        by_cases hk : k ≥ 0
        · simp only [expandOp, addr, hd, hs, dot, hk, if_true, List.length_cons, List.length_nil] at hb ⊢
          subst hb
          exact ⟨trivial, by grind⟩
        · simp only [expandOp, addr, hd, hs, dot, hk, if_false, List.length_cons, List.length_nil] at hb ⊢
          subst hb
          exact ⟨trivial, by grind⟩
    split at h
    · cases h; exact key _ _ rfl rfl
    · split at h
      · cases h
      · split at h
        · rename_i hk
          simp only at h
          split at h
          · cases h
          · cases h; exact key _ _ rfl (by simp [hk])
        · rename_i hk
          simp only at h
          split at h
          · cases h
          · cases h; exact key _ _ rfl (by simp [hk])
  · cases h

theorem diagRaw_inRange {v w : View} {k : Int} (h : diagVectorRaw v k = .ok w) :
    ∀ ix : List Int, InRange ix w.dims → InRange (expandOp v (.diag k) ix) v.dims := by
  unfold diagVectorRaw at h
  split at h
  · rename_i d0 d1 s0 s1 hd hs
    split at h
    · cases h
      intro ix hix
      match ix, hix with
      | [i], hix => simp [InRange] at hix; omega
    · split at h
      · cases h
      · rename_i hne hsq
        have hsq' : d0 = d1 := by simpa using hsq
        subst hsq'
        split at h
        · rename_i hk
          have hmin : min (d0 : Int) ((d0 : Int) - k) = (d0 : Int) - k := Int.min_eq_right (by omega)
          simp only [hmin] at h
          split at h
          · cases h
          · cases h
            intro ix hix
            match ix, hix with
            | [i], hix =>
              rename_i hn
              simp only [InRange] at hix hn
              rw [Int.toNat_of_nonneg (by omega)] at hix
              simp only [expandOp, hk, if_true, hd, InRange]
              obtain ⟨⟨a1, a2⟩, _⟩ := hix
              exact ⟨⟨by omega, by omega⟩, ⟨by omega, by omega⟩, trivial⟩
        · rename_i hk
          have hmin : min ((d0 : Int) + k) (d0 : Int) = (d0 : Int) + k := Int.min_eq_left (by omega)
          simp only [hmin] at h
          split at h
          · cases h
          · cases h
            intro ix hix
            match ix, hix with
            | [i], hix =>
              rename_i hn
              simp only [InRange] at hix hn
              rw [Int.toNat_of_nonneg (by omega)] at hix
              simp only [expandOp, hk, if_false, hd, InRange]
              obtain ⟨⟨a1, a2⟩, _⟩ := hix
              exact ⟨⟨by omega, by omega⟩, ⟨by omega, by omega⟩, trivial⟩
  · cases h

theorem subdiagRaw_ok {v w : View} {b e : Int} (h : submatrixOnDiagonalRaw v b e = .ok w) :
    ∃ d s0 s1, v.dims = [d, d] ∧ v.strides = [s0, s1] ∧ 0 ≤ b ∧ b ≤ e ∧ e < d ∧
      w = ⟨v.base + b * (s0 + s1), [(e - b + 1).toNat, (e - b + 1).toNat], [s0, s1]⟩ := by
  unfold submatrixOnDiagonalRaw at h
  split at h
  · rename_i d0 d1 s0 s1 hd hs
    split at h
    · cases h
    · rename_i hsq
      have hsq' : d0 = d1 := by simpa using hsq
      subst hsq'
      split at h
      · cases h
      · cases h
        exact ⟨d0, s0, s1, hd, hs, by omega, by omega, by omega, rfl⟩
  · cases h

theorem subdiagRaw_addr {v w : View} {b e : Int} (h : submatrixOnDiagonalRaw v b e = .ok w) :
    w.WF ∧ ∀ ix : List Int, ix.length = w.dims.length →
      (expandOp v (.subdiag b e) ix).length = v.dims.length ∧ addr w ix = addr v (expandOp v (.subdiag b e) ix) := by
  obtain ⟨d, s0, s1, hd, hs, _, _, _, rfl⟩ := subdiagRaw_ok h
  refine ⟨rfl, fun ix hix => ?_⟩
  match ix, hix with
  | [i, j], _ =>
    simp only [expandOp, addr, hd, hs, dot, List.length_cons, List.length_nil]
    exact ⟨trivial, by grind⟩

theorem subdiagRaw_inRange {v w : View} {b e : Int} (h : submatrixOnDiagonalRaw v b e = .ok w) :
    ∀ ix : List Int, InRange ix w.dims → InRange (expandOp v (.subdiag b e) ix) v.dims := by
  obtain ⟨d, s0, s1, hd, hs, h0, h1, h2, rfl⟩ := subdiagRaw_ok h
  intro ix hix
  match ix, hix with
  | [i, j], hix =>
    simp only [InRange] at hix
    rw [Int.toNat_of_nonneg (by omega)] at hix
    simp only [expandOp, hd, InRange]
    obtain ⟨⟨a1, a2⟩, ⟨a3, a4⟩, _⟩ := hix
    exact ⟨⟨by omega, by omega⟩, ⟨by omega, by omega⟩, trivial⟩


/-! ### reshape -/

theorem reshapeStrides_spec (s0 : Int) : ∀ (ds : List Nat), ds ≠ [] →
    ∃ o os, reshapeStrides s0 ds = o :: os ∧ o = prodInt (ds.tail.map Int.ofNat) * s0 ∧
      os.length + 1 = ds.length ∧
      ∀ ix : List Int, ix.length = ds.length → dot ix (o :: os) = lin ds ix * s0 := by
  intro ds
  induction ds with
  | nil => intro h; exact absurd rfl h
  | cons d ds ih =>
    intro _
    cases ds with
    | nil =>
      refine ⟨s0, [], rfl, by simp [prodInt], rfl, ?_⟩
      intro ix hix
      match ix, hix with
      | [i], _ => simp [dot, lin, prodInt]
    | cons d1 ds =>
      obtain ⟨o, os, h1, h2, h3, h4⟩ := ih (by simp)
      refine ⟨(d1 : Int) * o, o :: os, by simp [reshapeStrides, h1], ?_, by simp at h3 ⊢; omega, ?_⟩
      · subst h2
        simp only [List.tail_cons, List.map_cons, prodInt]
        grind
      · intro ix hix
        cases ix with
        | nil => simp at hix
        | cons i ix =>
          have := h4 ix (by simpa using hix)
          simp only [dot] at this ⊢
          simp only [lin, List.map_cons, prodInt]
          subst h2
          simp only [List.tail_cons] at this ⊢
          grind

theorem lin_bound : ∀ (ds : List Nat) (ix : List Int), InRange ix ds →
    0 ≤ lin ds ix ∧ lin ds ix < prodInt (ds.map Int.ofNat) := by
  intro ds
  induction ds with
  | nil => intro ix h; cases ix <;> simp [InRange] at h; simp [lin, prodInt]
  | cons d ds ih =>
    intro ix h
    cases ix with
    | nil => simp [InRange] at h
    | cons i ix =>
      obtain ⟨⟨h0, h1⟩, h2⟩ := h
      obtain ⟨l0, l1⟩ := ih ix h2
      simp only [lin, List.map_cons, prodInt]
      have hP : 0 ≤ prodInt (ds.map Int.ofNat) := by omega
      have a1 : 0 ≤ i * prodInt (ds.map Int.ofNat) := Int.mul_nonneg h0 hP
      have a2 : (i + 1) * prodInt (ds.map Int.ofNat) ≤ (d : Int) * prodInt (ds.map Int.ofNat) :=
        Int.mul_le_mul_of_nonneg_right (by omega) hP
      have a3 : (i + 1) * prodInt (ds.map Int.ofNat) = i * prodInt (ds.map Int.ofNat) + prodInt (ds.map Int.ofNat) := by grind
      have a4 : Int.ofNat d = (d : Int) := rfl
      rw [a4]
      omega

theorem map_toNat_ofNat : ∀ (nd : List Int), (nd.any (· < 0)) = false → (nd.map Int.toNat).map Int.ofNat = nd := by
  intro nd
  induction nd with
  | nil => intro _; rfl
  | cons x xs ih =>
    intro h
    simp only [List.any_cons, Bool.or_eq_false_iff, decide_eq_false_iff_not] at h
    simp only [List.map_cons, ih h.2]
    congr 1
    have : Int.ofNat x.toNat = (x.toNat : Int) := rfl
    rw [this]
    omega

theorem reshapeRaw_ok {v w : View} {nd : List Int} (h : reshapeRaw v nd = .ok w) :
    ∃ d0 s0, v.dims = [d0] ∧ v.strides = [s0] ∧ nd ≠ [] ∧ prodInt nd = (d0 : Int) ∧ (nd.any (· < 0)) = false ∧
      w = ⟨v.base, nd.map Int.toNat, reshapeStrides s0 (nd.map Int.toNat)⟩ := by
  unfold reshapeRaw at h
  split at h
  · rename_i d0 s0 hd hs
    split at h
    · cases h
    · rename_i hne
      split at h
      · cases h
      · rename_i hp
        split at h
        · cases h
        · rename_i hneg
          cases h
          exact ⟨d0, s0, hd, hs, hne, by simpa using hp, by simpa using hneg, rfl⟩
  · cases h

theorem reshapeRaw_addr {v w : View} {nd : List Int} (h : reshapeRaw v nd = .ok w) :
    w.WF ∧ ∀ ix : List Int, ix.length = w.dims.length →
      (expandOp v (.reshape nd) ix).length = v.dims.length ∧ addr w ix = addr v (expandOp v (.reshape nd) ix) := by
  obtain ⟨d0, s0, hd, hs, hne, hp, hneg, rfl⟩ := reshapeRaw_ok h
  have hne' : nd.map Int.toNat ≠ [] := by simpa using hne
  obtain ⟨o, os, h1, h2, h3, h4⟩ := reshapeStrides_spec s0 _ hne'
  refine ⟨by simp only [View.WF, h1]; simp at h3 ⊢; omega, fun ix hix => ?_⟩
  simp only [expandOp, addr, hd, hs, h1, dot, List.length_cons, List.length_nil]
  have := h4 ix hix
  exact ⟨trivial, by omega⟩

theorem reshapeRaw_inRange {v w : View} {nd : List Int} (h : reshapeRaw v nd = .ok w) :
    ∀ ix : List Int, InRange ix w.dims → InRange (expandOp v (.reshape nd) ix) v.dims := by
  obtain ⟨d0, s0, hd, hs, hne, hp, hneg, rfl⟩ := reshapeRaw_ok h
  intro ix hix
  obtain ⟨l0, l1⟩ := lin_bound _ ix hix
  rw [map_toNat_ofNat nd hneg, hp] at l1
  simp only [expandOp, hd, InRange]
  exact ⟨⟨l0, l1⟩, trivial⟩


/-! ### every operation; composition -/

/-- what the unchecked build needs from its caller (and the checked build tests itself); `permute`
    must be given a permutation (neither build tests that, the documentation requires it) -/
def OpAdm (c : Bool) (v : View) : Op → Prop
  | .slice args => c = true ∨ ArgsAdm v.dims args
  | .subset be => c = true ∨ ArgsAdm v.dims (be.map fun p => Ix.range p.1 p.2)
  | .sub1 e => c = true ∨ (0 ≤ e.resolve (v.dims.headD 0) ∧ e.resolve (v.dims.headD 0) < v.dims.headD 0)
  | .permute p => IsPerm p v.dims.length
  | _ => True

/-- admissibility along a run -/
def RunAdm (c : Bool) : View → List Op → Prop
  | _, [] => True
  | v, op :: ops => OpAdm c v op ∧ ∀ w, apply c v op = .ok w → RunAdm c w ops

theorem applyRaw_addr {c : Bool} {v w : View} {op : Op} (hwf : v.WF) (h : applyRaw c v op = .ok w) :
    w.WF ∧ ∀ ix : List Int, ix.length = w.dims.length →
      (expandOp v op ix).length = v.dims.length ∧ addr w ix = addr v (expandOp v op ix) := by
  cases op with
  | slice args => exact sliceRaw_addr h
  | subset be => exact sliceRaw_addr h
  | sub1 e => exact sub1Raw_addr hwf h
  | T => exact transpose_addr h
  | permute p => exact permuteRaw_addr h
  | diag k => exact diagRaw_addr h
  | subdiag b e => exact subdiagRaw_addr h
  | reshape nd => exact reshapeRaw_addr h
  | softLink =>
    simp only [applyRaw] at h
    cases h
    exact ⟨hwf, fun ix hix => ⟨hix, rfl⟩⟩

theorem applyRaw_inRange {c : Bool} {v w : View} {op : Op} (h : applyRaw c v op = .ok w) (hadm : OpAdm c v op) :
    ∀ ix : List Int, InRange ix w.dims → InRange (expandOp v op ix) v.dims := by
  cases op with
  | slice args => exact sliceRaw_inRange h hadm
  | subset be => exact sliceRaw_inRange h hadm
  | sub1 e => exact sub1Raw_inRange h hadm
  | T => exact transpose_inRange h
  | permute p => exact permuteRaw_inRange h hadm
  | diag k => exact diagRaw_inRange h
  | subdiag b e => exact subdiagRaw_inRange h
  | reshape nd => exact reshapeRaw_inRange h
  | softLink =>
    simp only [applyRaw] at h
    cases h
    exact fun ix hix => hix

/-! ### the view constructors: all extents zero as soon as one is zero (`View.canon`, F-76) -/

theorem canonDims_length (ds : List Nat) : (canonDims ds).length = ds.length := by
  unfold canonDims
  split <;> simp

theorem canonDims_of_pos {ds : List Nat} (h : ∀ d ∈ ds, d ≠ 0) : canonDims ds = ds := by
  unfold canonDims
  rw [if_neg]
  intro hany
  obtain ⟨d, hd, h0⟩ := List.any_eq_true.mp hany
  exact h d hd (by simpa using h0)

theorem canonDims_of_zero {ds : List Nat} (h : 0 ∈ ds) : canonDims ds = ds.map (fun _ => 0) := by
  unfold canonDims
  rw [if_pos]
  exact List.any_eq_true.mpr ⟨0, h, by simp⟩

theorem canonDims_singleton (n : Nat) : canonDims [n] = [n] := by
  by_cases h : n = 0
  · subst h; rfl
  · exact canonDims_of_pos (by simpa using h)

/-- an array with a zero extent has no valid index -/
theorem not_inRange_of_zero : ∀ {ds : List Nat} {ix : List Int}, 0 ∈ ds → ¬ InRange ix ds := by
  intro ds
  induction ds with
  | nil => intro ix h; simp at h
  | cons d ds ih =>
    intro ix h hin
    cases ix with
    | nil => simp [InRange] at hin
    | cons i ix =>
      obtain ⟨⟨h0, h1⟩, hr⟩ := hin
      rcases List.mem_cons.mp h with h | h
      · subst h; omega
      · exact ih h hr

/-- the canonical extents admit exactly the same indices -/
theorem inRange_canon {ds : List Nat} {ix : List Int} : InRange ix (canonDims ds) ↔ InRange ix ds := by
  by_cases h : 0 ∈ ds
  · rw [canonDims_of_zero h]
    constructor
    · intro hin
      exfalso
      refine not_inRange_of_zero (ds := ds.map fun _ => 0) ?_ hin
      exact List.mem_map.mpr ⟨0, h, rfl⟩
    · intro hin
      exact absurd hin (not_inRange_of_zero h)
  · rw [canonDims_of_pos (fun d hd h0 => h (h0 ▸ hd))]

theorem canon_addr (u : View) (ix : List Int) : addr u.canon ix = addr u ix := rfl

theorem canon_WF {u : View} : u.canon.WF ↔ u.WF := by
  simp only [View.WF, View.canon, canonDims_length]

theorem construct_ok {r : Except Err View} {w : View} (h : construct r = .ok w) : ∃ u, r = .ok u ∧ w = u.canon := by
  cases r with
  | error e => simp [construct] at h
  | ok u =>
    simp only [construct] at h
    cases h
    exact ⟨u, rfl, rfl⟩

theorem construct_err {r : Except Err View} {e : Err} (h : r = .error e) : construct r = .error e := by
  subst h; rfl

/-- every operation: what the member function computes, then (all but `T`) the view constructor -/
theorem apply_eq (c : Bool) (v : View) (op : Op) :
    apply c v op = if op.constructs then construct (applyRaw c v op) else applyRaw c v op := by
  cases op <;> rfl

theorem apply_ok {c : Bool} {v w : View} {op : Op} (h : apply c v op = .ok w) :
    ∃ u, applyRaw c v op = .ok u ∧ w = (if op.constructs then u.canon else u) := by
  rw [apply_eq] at h
  by_cases hc : op.constructs = true
  · rw [if_pos hc] at h
    obtain ⟨u, hu, rfl⟩ := construct_ok h
    exact ⟨u, hu, by rw [if_pos hc]⟩
  · rw [if_neg hc] at h
    exact ⟨w, h, by rw [if_neg hc]⟩

theorem apply_addr {c : Bool} {v w : View} {op : Op} (hwf : v.WF) (h : apply c v op = .ok w) :
    w.WF ∧ ∀ ix : List Int, ix.length = w.dims.length →
      (expandOp v op ix).length = v.dims.length ∧ addr w ix = addr v (expandOp v op ix) := by
  obtain ⟨u, hu, rfl⟩ := apply_ok h
  obtain ⟨h1, h2⟩ := applyRaw_addr hwf hu
  split
  · exact ⟨canon_WF.mpr h1, fun ix hix => h2 ix (by simpa [View.canon, canonDims_length] using hix)⟩
  · exact ⟨h1, h2⟩

theorem apply_inRange {c : Bool} {v w : View} {op : Op} (h : apply c v op = .ok w) (hadm : OpAdm c v op) :
    ∀ ix : List Int, InRange ix w.dims → InRange (expandOp v op ix) v.dims := by
  obtain ⟨u, hu, rfl⟩ := apply_ok h
  have h2 := applyRaw_inRange hu hadm
  split
  · exact fun ix hix => h2 ix (inRange_canon.mp hix)
  · exact h2

theorem run_cons_ok {c : Bool} {v w : View} {op : Op} {ops : List Op} (h : run c v (op :: ops) = .ok w) :
    ∃ u, apply c v op = .ok u ∧ run c u ops = .ok w := by
  simp only [run] at h
  split at h
  · rename_i u hu; exact ⟨u, hu, h⟩
  · cases h

theorem run_addr (c : Bool) : ∀ (ops : List Op) (v w : View), v.WF → run c v ops = .ok w →
    w.WF ∧ ∀ ix : List Int, ix.length = w.dims.length →
      (expandAll c v ops ix).length = v.dims.length ∧ addr w ix = addr v (expandAll c v ops ix) := by
  intro ops
  induction ops with
  | nil =>
    intro v w hwf h
    simp only [run] at h
    cases h
    exact ⟨hwf, fun ix hix => ⟨hix, rfl⟩⟩
  | cons op ops ih =>
    intro v w hwf h
    obtain ⟨u, hu, hr⟩ := run_cons_ok h
    obtain ⟨huwf, ha⟩ := apply_addr hwf hu
    obtain ⟨hwwf, hb⟩ := ih u w huwf hr
    refine ⟨hwwf, fun ix hix => ?_⟩
    obtain ⟨l1, e1⟩ := hb ix hix
    obtain ⟨l2, e2⟩ := ha _ l1
    simp only [expandAll, hu]
    exact ⟨l2, e1.trans e2⟩

theorem run_inRange (c : Bool) : ∀ (ops : List Op) (v w : View), run c v ops = .ok w → RunAdm c v ops →
    ∀ ix : List Int, InRange ix w.dims → InRange (expandAll c v ops ix) v.dims := by
  intro ops
  induction ops with
  | nil =>
    intro v w h _ ix hix
    simp only [run] at h
    cases h
    exact hix
  | cons op ops ih =>
    intro v w h hadm ix hix
    obtain ⟨u, hu, hr⟩ := run_cons_ok h
    simp only [expandAll, hu]
    exact apply_inRange hu hadm.1 _ (ih u w hr (hadm.2 u hu) ix hix)

/-- the set of parent-allocation cells a view can touch -/
def cells (v : View) (a : Int) : Prop := ∃ ix : List Int, InRange ix v.dims ∧ addr v ix = a

theorem run_cells (c : Bool) (ops : List Op) (v w : View) (hwf : v.WF) (h : run c v ops = .ok w)
    (hadm : RunAdm c v ops) : ∀ a, cells w a → cells v a := by
  rintro a ⟨ix, hix, rfl⟩
  refine ⟨expandAll c v ops ix, run_inRange c ops v w h hadm ix hix, ?_⟩
  exact ((run_addr c ops v w hwf h).2 ix (InRange_length hix)).2.symm

/-! ### freshly allocated parents: addresses fill `0 … volume-1` -/

theorem packRowMajor_eq (dims : List Nat) : packRowMajor dims = reshapeStrides 1 dims := by
  induction dims with
  | nil => rfl
  | cons d ds ih =>
    cases ds with
    | nil => rfl
    | cons d1 ds => simp only [packRowMajor, reshapeStrides, ih]

theorem fresh_rowMajor_addr (dims : List Nat) (ix : List Int) (h : InRange ix dims) :
    addr (fresh true dims) ix = lin dims ix := by
  cases dims with
  | nil => cases ix <;> simp [InRange] at h; simp [addr, fresh, dot, lin]
  | cons d ds =>
    obtain ⟨o, os, h1, _, _, h4⟩ := reshapeStrides_spec 1 (d :: ds) (by simp)
    have := h4 ix (InRange_length h)
    simp only [addr, fresh, packRowMajor_eq, h1, if_true, this]
    omega

/-- column-major linear index -/
def colLin : List Nat → List Int → Int
  | d :: ds, i :: ix => i + (d : Int) * colLin ds ix
  | _, _ => 0

theorem dot_packColMajorGo : ∀ (ds : List Nat) (o : Int) (ix : List Int), ix.length = ds.length →
    dot ix (packColMajorGo o ds) = o * colLin ds ix := by
  intro ds
  induction ds with
  | nil => intro o ix h; cases ix <;> simp at h; simp [dot, colLin]
  | cons d ds ih =>
    intro o ix h
    cases ix with
    | nil => simp at h
    | cons i ix =>
      simp only [packColMajorGo, dot, colLin, ih (o * d) ix (by simpa using h)]
      grind

theorem colLin_bound : ∀ (ds : List Nat) (ix : List Int), InRange ix ds →
    0 ≤ colLin ds ix ∧ colLin ds ix < prodInt (ds.map Int.ofNat) := by
  intro ds
  induction ds with
  | nil => intro ix h; cases ix <;> simp [InRange] at h; simp [colLin, prodInt]
  | cons d ds ih =>
    intro ix h
    cases ix with
    | nil => simp [InRange] at h
    | cons i ix =>
      obtain ⟨⟨h0, h1⟩, h2⟩ := h
      obtain ⟨l0, l1⟩ := ih ix h2
      simp only [colLin, List.map_cons, prodInt]
      have a4 : Int.ofNat d = (d : Int) := rfl
      rw [a4]
      have a1 : 0 ≤ (d : Int) * colLin ds ix := Int.mul_nonneg (by omega) l0
      have a2 : (d : Int) * (colLin ds ix + 1) ≤ (d : Int) * prodInt (ds.map Int.ofNat) :=
        Int.mul_le_mul_of_nonneg_left (by omega) (by omega)
      have a3 : (d : Int) * (colLin ds ix + 1) = (d : Int) * colLin ds ix + d := by grind
      omega

/-- every element of a freshly allocated array (either storage order) lies in `0 … volume-1` -/
theorem fresh_addr_bounds (rowMajor : Bool) (dims : List Nat) (ix : List Int) (h : InRange ix dims) :
    0 ≤ addr (fresh rowMajor dims) ix ∧ addr (fresh rowMajor dims) ix < prodInt (dims.map Int.ofNat) := by
  cases rowMajor with
  | true => rw [fresh_rowMajor_addr dims ix h]; exact lin_bound dims ix h
  | false =>
    have := dot_packColMajorGo dims 1 ix (InRange_length h)
    have hb := colLin_bound dims ix h
    simp only [addr, fresh, packColMajor]
    simp only [Bool.false_eq_true, if_false]
    omega

theorem packRowMajor_length (dims : List Nat) : (packRowMajor dims).length = dims.length := by
  cases dims with
  | nil => rfl
  | cons d ds =>
    obtain ⟨o, os, h1, _, h3, _⟩ := reshapeStrides_spec 1 (d :: ds) (by simp)
    rw [packRowMajor_eq, h1]; simpa using h3

theorem packColMajorGo_length : ∀ (dims : List Nat) (o : Int), (packColMajorGo o dims).length = dims.length := by
  intro dims
  induction dims with
  | nil => intro o; rfl
  | cons d ds ih => intro o; simp [packColMajorGo, ih]

theorem fresh_WF (rowMajor : Bool) (dims : List Nat) : (fresh rowMajor dims).WF := by
  cases rowMajor with
  | true => simp [View.WF, fresh, packRowMajor_length]
  | false => simp [View.WF, fresh, packColMajor, packColMajorGo_length]


/-! ### is_contiguous (with the loop counting down) -/

theorem contigGo_iff : ∀ (rd : List Nat) (rs : List Int) (e : Int), rd.length = rs.length →
    (contigGo e rd rs = true ↔ rs = packColMajorGo e rd) := by
  intro rd
  induction rd with
  | nil => intro rs e h; cases rs <;> simp at h; simp [contigGo, packColMajorGo]
  | cons d rd ih =>
    intro rs e h
    cases rs with
    | nil => simp at h
    | cons s rs =>
      simp only [contigGo, packColMajorGo]
      by_cases hs : s = e
      · subst hs
        simp [ih rs (s * d) (by simpa using h)]
      · simp [hs]

theorem prodInt_append (l : List Int) (x : Int) : prodInt (l ++ [x]) = prodInt l * x := by
  induction l with
  | nil => simp [prodInt]
  | cons a l ih => simp only [List.cons_append, prodInt, ih]; grind

theorem prodInt_reverse (l : List Int) : prodInt l.reverse = prodInt l := by
  induction l with
  | nil => rfl
  | cons a l ih => simp only [List.reverse_cons, prodInt_append, prodInt, ih]; grind

theorem packColMajorGo_append : ∀ (l : List Nat) (o : Int) (d : Nat),
    packColMajorGo o (l ++ [d]) = packColMajorGo o l ++ [o * prodInt (l.map Int.ofNat)] := by
  intro l
  induction l with
  | nil => intro o d; simp [packColMajorGo, prodInt]
  | cons a l ih =>
    intro o d
    simp only [List.cons_append, packColMajorGo, ih, List.map_cons, prodInt]
    congr 2
    have : Int.ofNat a = (a : Int) := rfl
    rw [this]; grind

theorem packRowMajor_reverse : ∀ (ds : List Nat), (packRowMajor ds).reverse = packColMajorGo 1 ds.reverse := by
  intro ds
  induction ds with
  | nil => rfl
  | cons d rest ih =>
    cases rest with
    | nil => rfl
    | cons d1 ds' =>
      obtain ⟨o, os, h1, h2, _, _⟩ := reshapeStrides_spec 1 (d1 :: ds') (by simp)
      rw [← packRowMajor_eq] at h1
      have e1 : packRowMajor (d :: d1 :: ds') = (d1 : Int) * o :: o :: os := by
        simp only [packRowMajor, h1]
      rw [e1, List.reverse_cons (a := d), packColMajorGo_append, ← ih, h1, List.reverse_cons (a := (d1 : Int) * o)]
      congr 2
      rw [List.map_reverse, prodInt_reverse]
      subst h2
      simp only [List.tail_cons, List.map_cons, prodInt]
      have : Int.ofNat d1 = (d1 : Int) := rfl
      rw [this]; grind

/-- `is_contiguous()` (repaired loop) is true exactly for the packed row-major offsets -/
theorem isContiguous_iff (v : View) (hwf : v.WF) : isContiguous v = true ↔ v.strides = packRowMajor v.dims := by
  unfold isContiguous
  rw [contigGo_iff _ _ _ (by simpa [View.WF] using hwf), ← packRowMajor_reverse]
  constructor
  · intro h; simpa using congrArg List.reverse h
  · intro h; rw [h]


/-! ### rank of a slice; checked build = unchecked build + rejection -/

/-- number of ranged (non-scalar) arguments: the rank `is_ranged<…>::count` of the result -/
def rangedCount : List Ix → Nat
  | [] => 0
  | .at _ :: as => rangedCount as
  | _ :: as => rangedCount as + 1

theorem sliceGo_rank (c : Bool) : ∀ (ds : List Nat) (ss : List Int) (as : List Ix) (inc : Int) (nd : List Nat) (ns : List Int),
    sliceGo c ds ss as = .ok (inc, nd, ns) → nd.length = rangedCount as ∧ as.length = ds.length := by
  intro ds
  induction ds with
  | nil =>
    intro ss as inc nd ns h
    cases ss <;> cases as <;> simp [sliceGo] at h
    simp [h, rangedCount]
  | cons d ds ih =>
    intro ss as inc nd ns h
    cases ss with
    | nil => cases as <;> simp [sliceGo] at h
    | cons s ss =>
      cases as with
      | nil => simp [sliceGo] at h
      | cons a as =>
        obtain ⟨i1, o1, i2, nd2, ns2, hu, hr, hinc, hm⟩ := sliceGo_cons_ok h
        obtain ⟨ih1, ih2⟩ := ih ss as i2 nd2 ns2 hr
        have hu' := updateIndex_ok hu
        cases a with
        | «at» e =>
          obtain ⟨rfl, _, _⟩ := hu'
          obtain ⟨rfl, rfl⟩ := hm
          simp [rangedCount, ih1, ih2]
        | range b e =>
          obtain ⟨n, o, rfl, _⟩ := hu'
          obtain ⟨rfl, rfl⟩ := hm
          simp [rangedCount, ih1, ih2]
        | stride b e st =>
          obtain ⟨n, o, rfl, _⟩ := hu'
          obtain ⟨rfl, rfl⟩ := hm
          simp [rangedCount, ih1, ih2]
        | all =>
          obtain ⟨rfl, _⟩ := hu'
          obtain ⟨rfl, rfl⟩ := hm
          simp [rangedCount, ih1, ih2]

theorem getIndex_unchecked (e : EndExpr) (len : Nat) : getIndexWithLen false e len = .ok (e.resolve len) := by
  simp [getIndexWithLen]

theorem getIndex_checked_imp {e : EndExpr} {len : Nat} {j : Int} (h : getIndexWithLen true e len = .ok j) :
    getIndexWithLen false e len = .ok j := by
  rw [getIndex_unchecked, (getIndex_ok h).1]

theorem updateRange_checked_imp {len : Nat} {off : Int} {b e : EndExpr} {s : Int} {r : Int × Nat × Int}
    (h : updateRange true len off b e s = .ok r) : updateRange false len off b e s = .ok r := by
  unfold updateRange at h ⊢
  cases hb : getIndexWithLen true b len with
  | error x => simp [hb, bind, Except.bind] at h
  | ok bi =>
    cases he : getIndexWithLen true e len with
    | error x => simp [hb, he, bind, Except.bind] at h
    | ok ei =>
      rw [getIndex_checked_imp hb, getIndex_checked_imp he]
      simpa [hb, he, bind, Except.bind] using h

theorem updateIndex_checked_imp {len : Nat} {off : Int} {a : Ix} {r : Int × Option (Nat × Int)}
    (h : updateIndex true len off a = .ok r) : updateIndex false len off a = .ok r := by
  cases a with
  | «at» e =>
    simp only [updateIndex] at h ⊢
    cases hj : getIndexWithLen true e len with
    | error x => simp [hj, bind, Except.bind] at h
    | ok j => rw [getIndex_checked_imp hj]; simpa [hj, bind, Except.bind] using h
  | range b e =>
    simp only [updateIndex] at h ⊢
    cases hr : updateRange true len off b e 1 with
    | error x => simp [hr, bind, Except.bind] at h
    | ok q => rw [updateRange_checked_imp hr]; simpa [hr, bind, Except.bind] using h
  | stride b e s =>
    simp only [updateIndex] at h ⊢
    cases hr : updateRange true len off b e (s.resolve len) with
    | error x => simp [hr, bind, Except.bind] at h
    | ok q => rw [updateRange_checked_imp hr]; simpa [hr, bind, Except.bind] using h
  | all => simpa [updateIndex] using h

theorem sliceGo_checked_imp : ∀ (ds : List Nat) (ss : List Int) (as : List Ix) (r : Int × List Nat × List Int),
    sliceGo true ds ss as = .ok r → sliceGo false ds ss as = .ok r := by
  intro ds
  induction ds with
  | nil =>
    intro ss as r h
    cases ss <;> cases as <;> simp [sliceGo] at h
    simp [sliceGo, h]
  | cons d ds ih =>
    intro ss as r h
    cases ss with
    | nil => cases as <;> simp [sliceGo] at h
    | cons s ss =>
      cases as with
      | nil => simp [sliceGo] at h
      | cons a as =>
        simp only [sliceGo] at h ⊢
        cases hu : updateIndex true d s a with
        | error x => simp [hu, bind, Except.bind] at h
        | ok q =>
          cases hr : sliceGo true ds ss as with
          | error x => simp [hu, hr, bind, Except.bind] at h
          | ok q2 =>
            rw [updateIndex_checked_imp hu, ih ss as q2 hr]
            simpa [hu, hr, bind, Except.bind] using h

/-- a view the bounds-checked build returns is the view the default build returns -/
theorem sliceRaw_checked_imp {v w : View} {args : List Ix} (h : sliceRaw v args true = .ok w) :
    sliceRaw v args false = .ok w := by
  unfold sliceRaw at h ⊢
  cases hg : sliceGo true v.dims v.strides args with
  | error x => simp [hg, bind, Except.bind] at h
  | ok r => rw [sliceGo_checked_imp _ _ _ r hg]; simpa [hg, bind, Except.bind] using h

theorem sub1Raw_checked_rejects {v : View} {e : EndExpr} {d : Nat} {ds : List Nat} {s : Int} {ss : List Int}
    (hd : v.dims = d :: ds) (hs : v.strides = s :: ss) (h : ¬ (0 ≤ e.resolve d ∧ e.resolve d < d)) :
    sub1Raw v e true = .error .index_out_of_bounds := by
  unfold sub1Raw
  rw [hd, hs]
  simp [getIndex_checked, h, bind, Except.bind]

/-! ### diag_vector: shape -/
theorem diagRaw_ok {v w : View} {k : Int} {n : Nat} {s0 s1 : Int} (hd : v.dims = [n, n]) (hs : v.strides = [s0, s1])
    (hn : 0 < n) (h : diagVectorRaw v k = .ok w) :
    (k.natAbs : Int) ≤ n ∧ w.dims = [((n : Int) - k.natAbs).toNat] ∧ w.strides = [s0 + s1] := by
  unfold diagVectorRaw at h
  rw [hd, hs] at h
  simp only at h
  rw [if_neg (by omega)] at h
  simp only [ne_eq, not_true_eq_false, if_false] at h
  by_cases hk : k ≥ 0
  · have hmin : min (n : Int) ((n : Int) - k) = (n : Int) - k := Int.min_eq_right (by omega)
    rw [if_pos hk, hmin] at h
    clear hmin
    have hab : (k.natAbs : Int) = k := Int.natAbs_of_nonneg hk
    split at h
    · cases h
    · cases h
      rw [hab]
      exact ⟨by omega, rfl, rfl⟩
  · have hmin : min ((n : Int) + k) (n : Int) = (n : Int) + k := Int.min_eq_left (by omega)
    rw [if_neg hk, hmin] at h
    clear hmin
    have hab : (k.natAbs : Int) = -k := Int.ofNat_natAbs_of_nonpos (by omega)
    split at h
    · cases h
    · cases h
      rw [hab]
      refine ⟨by omega, ?_, rfl⟩
      simp only [Int.sub_neg]

/-! ### views without elements: canonical extents -/

/-- the class invariant the view constructors establish (F-76) and `resize` / the default constructor always had:
    if one extent is zero, all are -/
def View.Canonical (v : View) : Prop := v.dims = canonDims v.dims

theorem canonDims_idem (ds : List Nat) : canonDims (canonDims ds) = canonDims ds := by
  by_cases h : 0 ∈ ds
  · rw [canonDims_of_zero h]
    cases ds with
    | nil => simp at h
    | cons d ds =>
      have h0 : 0 ∈ (d :: ds).map (fun _ => 0) := by simp
      rw [canonDims_of_zero h0]
      simp
  · rw [canonDims_of_pos (fun d hd h0 => h (h0 ▸ hd))]
    exact canonDims_of_pos (fun d hd h0 => h (h0 ▸ hd))

theorem canon_canonical (u : View) : u.canon.Canonical := by
  simp only [View.Canonical, View.canon, canonDims_idem]

/-- canonical extents with a zero among them are all zero -/
theorem canonical_all_zero {ds : List Nat} (hc : ds = canonDims ds) (hz : 0 ∈ ds) : ∀ d ∈ ds, d = 0 := by
  intro d hd
  rw [canonDims_of_zero hz] at hc
  rw [hc] at hd
  obtain ⟨_, _, rfl⟩ := List.mem_map.mp hd
  rfl

theorem allIndices_of_zero : ∀ {ds : List Nat}, 0 ∈ ds → allIndices ds = [] := by
  intro ds
  induction ds with
  | nil => intro h; simp at h
  | cons d ds ih =>
    intro h
    rcases List.mem_cons.mp h with h | h
    · subst h; simp [allIndices]
    · simp [allIndices, ih h]

theorem allIndices_eq_nil : ∀ {ds : List Nat}, allIndices ds = [] → 0 ∈ ds := by
  intro ds
  induction ds with
  | nil => intro h; simp [allIndices] at h
  | cons d ds ih =>
    intro h
    by_cases hd : d = 0
    · simp [hd]
    · simp only [allIndices, List.flatMap_eq_nil_iff, List.map_eq_nil_iff] at h
      have := h 0 (by simp; omega)
      exact List.mem_cons_of_mem _ (ih this)

theorem transpose_canonical {v w : View} (hv : v.Canonical) (h : transpose v = .ok w) : w.Canonical := by
  obtain ⟨d0, d1, s0, s1, hd, hs, rfl⟩ := transpose_ok h
  simp only [View.Canonical, hd] at hv ⊢
  by_cases h0 : d0 = 0
  · subst h0
    have h1 : d1 = 0 := by
      unfold canonDims at hv
      simpa using hv
    subst h1
    rfl
  · by_cases h1 : d1 = 0
    · subst h1
      unfold canonDims at hv
      simp at hv
      exact absurd hv h0
    · exact (canonDims_of_pos (by intro x hx; simp at hx; omega)).symm

/-- every operation keeps the extents canonical: the constructing ones whatever the receiver, `T` for a canonical
    receiver -/
theorem apply_canonical {c : Bool} {v w : View} {op : Op} (hop : op.constructs = true ∨ v.Canonical)
    (h : apply c v op = .ok w) : w.Canonical := by
  by_cases hc : op.constructs = true
  · obtain ⟨u, _, rfl⟩ := apply_ok h
    rw [if_pos hc]
    exact canon_canonical u
  · cases op with
    | T =>
      rcases hop with hop | hop
      · exact absurd hop hc
      · exact transpose_canonical hop h
    | _ => exact absurd rfl hc

theorem run_canonical (c : Bool) : ∀ (ops : List Op) (v w : View), v.Canonical → run c v ops = .ok w → w.Canonical := by
  intro ops
  induction ops with
  | nil =>
    intro v w hv h
    simp only [run] at h
    cases h
    exact hv
  | cons op ops ih =>
    intro v w hv h
    obtain ⟨u, hu, hr⟩ := run_cons_ok h
    exact ih u w (apply_canonical (Or.inr hv) hu) hr

theorem fresh_canonical (rowMajor : Bool) {dims : List Nat} (h : ∀ d ∈ dims, d ≠ 0) : (fresh rowMajor dims).Canonical := by
  simp only [View.Canonical, fresh]
  exact (canonDims_of_pos h).symm

/-- decidable equality of results (for the concrete examples in `Props/C06.lean`) -/
instance instDecEqResult : DecidableEq (Except Err View)
  | .ok a, .ok b => if h : a = b then isTrue (by rw [h]) else isFalse (by intro h'; cases h'; exact h rfl)
  | .error a, .error b => if h : a = b then isTrue (by rw [h]) else isFalse (by intro h'; cases h'; exact h rfl)
  | .ok _, .error _ => isFalse (by intro h; cases h)
  | .error _, .ok _ => isFalse (by intro h; cases h)

end Adept.Views
