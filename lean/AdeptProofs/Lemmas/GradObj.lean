import AdeptProofs.Lemmas.GradObjBase
/-!
Helper lemmas for the object layer of C08, part 2: the invariant `OInv` that ties the objects to the ghost list of live blocks of
the allocator, and its preservation by every primitive action.  Core Lean only.
-/
namespace Adept.GradObj
open Adept.GradAlloc

/-- slots held by the objects that register for themselves (scalars, fixed arrays, vector / array elements) -/
def ownBlocks (owns : List (Nat × OwnObj)) : List Block := owns.flatMap (fun p => p.2.bs)
/-- slots held by the `Storage` objects -/
def heapBlocks (heap : List Stor) : List Block := heap.map (fun t => (t.gi, t.n))
/-- all live OWNERS -/
def blocks (s : OS) : List Block := ownBlocks s.owns ++ heapBlocks s.heap
/-- number of array objects whose `storage_` is `sid` -/
def refcount (arrs : List (Nat × ArrObj)) (sid : Nat) : Nat := arrs.countP (fun p => p.2.st == some sid)

/-- The invariant of the object layer, relative to the ghost list `L` of live blocks of the allocator. -/
structure OInv (s : OS) (L : List Block) : Prop where
  /-- the allocator calls made so far are a LEGAL allocator history, and it leads to the present allocator state -/
  hist : runHist stackInit [] s.log.reverse = some (s.ga, L)
  /-- the live blocks of the allocator are exactly the blocks of the live owners -/
  perm : (blocks s).Perm L
  ownKeys : (s.owns.map (·.1)).Nodup
  arrKeys : (s.arrs.map (·.1)).Nodup
  sids : (s.heap.map (·.sid)).Nodup
  sidLt : ∀ t ∈ s.heap, t.sid < s.nextSid
  /-- `n_links_` is the number of arrays that point to the storage, and a storage with no link does not exist -/
  links : ∀ t ∈ s.heap, 0 < t.links ∧ t.links = refcount s.arrs t.sid
  /-- every `storage_` pointer is valid; the array addresses slots of that storage only and its gradient index is the
      storage's plus the data offset -/
  refs : ∀ p ∈ s.arrs, ∀ sid, p.2.st = some sid →
    ∃ t ∈ s.heap, t.sid = sid ∧ p.2.off + ext p.2.dims p.2.strides < t.n ∧ p.2.g = some (t.gi + p.2.off)
  scal : ∀ p ∈ s.owns, p.2.scalar = true → ∀ b ∈ p.2.bs, b.2 = 1
  noub : s.ub = false
  pk : 0 < s.packet

/-- one allocator call -/
def callOp (s : OS) (op : Op) : OS := { s with ga := (step s.ga op).1, log := op :: s.log }

theorem hist_call {s : OS} {L : List Block} (op : Op)
    (h : runHist stackInit [] s.log.reverse = some (s.ga, L)) (hl : Legal L op) :
    runHist stackInit [] (callOp s op).log.reverse = some ((callOp s op).ga, ghost s.ga L op) := by
  simp only [callOp, List.reverse_cons]
  exact runHist_snoc _ op h hl

theorem inv_of_OInv {s : OS} {L : List Block} (h : OInv s L) : Inv s.ga L := inv_reachable _ h.hist

/-! ### lists of blocks -/
theorem insertAt_perm (l : List Blk) (pos : Nat) (b : Blk) : (insertAt l pos b).Perm (b :: l) := by
  unfold insertAt
  have := @List.perm_middle _ b (l.take pos) (l.drop pos)
  rwa [List.take_append_drop] at this

theorem perm_eraseIdx : ∀ {l : List Blk} {k : Nat} {b : Blk}, l[k]? = some b → l.Perm (b :: l.eraseIdx k)
  | [], _, _, h => by simp at h
  | x :: l, 0, b, h => by
    simp only [List.getElem?_cons_zero, Option.some.injEq] at h
    subst h; simp
  | x :: l, k + 1, b, h => by
    simp only [List.getElem?_cons_succ] at h
    simp only [List.eraseIdx_cons_succ]
    exact ((perm_eraseIdx h).cons x).trans (List.Perm.swap _ _ _)

theorem ownBlocks_cons (h : Nat) (o : OwnObj) (l : List (Nat × OwnObj)) :
    ownBlocks ((h, o) :: l) = o.bs ++ ownBlocks l := by
  simp [ownBlocks, List.flatMap_cons]

theorem ownBlocks_split {owns : List (Nat × OwnObj)} {h : Nat} {o : OwnObj}
    (hn : (owns.map (·.1)).Nodup) (hm : (h, o) ∈ owns) :
    (ownBlocks owns).Perm (o.bs ++ ownBlocks (others owns h)) := by
  have := (perm_split hn hm).flatMap_right (fun p => p.2.bs)
  simpa [ownBlocks, List.flatMap_cons] using this

theorem perm_erase_of_cons {L X : List Block} {b : Block} (h : L.Perm (b :: X)) : (L.erase b).Perm X := by
  have := h.erase b
  simpa using this

/-! ### objects that register for themselves -/

theorem pstep_ownNew {s : OS} {L : List Block} (hI : OInv s L) (h : Nat) (sc : Bool) (tag : Nat) :
    OInv (pstep s (.ownNew h sc tag)) L := by
  simp only [pstep]
  split
  · exact hI
  · rename_i hl
    exact {
      hist := hI.hist
      perm := by
        have : blocks { s with owns := (h, { scalar := sc, bs := [], cap := 0, tag := tag }) :: s.owns } = blocks s := by
          simp [blocks, ownBlocks_cons]
        rw [this]; exact hI.perm
      ownKeys := by
        simp only [List.map_cons, List.nodup_cons]
        exact ⟨lookup_none_not_mem hl, hI.ownKeys⟩
      arrKeys := hI.arrKeys
      sids := hI.sids
      sidLt := hI.sidLt
      links := hI.links
      refs := hI.refs
      scal := by
        intro p hp hs b hb
        rcases List.mem_cons.1 hp with rfl | hp
        · simp at hb
        · exact hI.scal p hp hs b hb
      noub := hI.noub
      pk := hI.pk }

/-- replacing the entry of `h` after an allocator call: everything that does not concern `owns`, `ga`, `log` is untouched -/
theorem oinv_putOwn {s : OS} {L L' : List Block} (hI : OInv s L) (op : Op) (hl : Legal L op)
    (hL : L' = ghost s.ga L op) (h : Nat) (o' : OwnObj)
    (hperm : (o'.bs ++ ownBlocks (others s.owns h) ++ heapBlocks s.heap).Perm L')
    (hscal : o'.scalar = true → ∀ b ∈ o'.bs, b.2 = 1) :
    OInv (putOwn (callOp s op) h o') L' := by
  subst hL
  exact {
    hist := hist_call op hI.hist hl
    perm := by
      have : blocks (putOwn (callOp s op) h o') = o'.bs ++ ownBlocks (others s.owns h) ++ heapBlocks s.heap := by
        simp [blocks, putOwn, callOp, ownBlocks_cons, others]
      rw [this]; exact hperm
    ownKeys := cons_others_keys_nodup h o' hI.ownKeys
    arrKeys := hI.arrKeys
    sids := hI.sids
    sidLt := hI.sidLt
    links := hI.links
    refs := hI.refs
    scal := by
      intro p hp hs b hb
      rcases List.mem_cons.1 hp with rfl | hp
      · exact hscal hs b hb
      · exact hI.scal p (mem_others.1 hp).1 hs b hb
    noub := hI.noub
    pk := hI.pk }

theorem blocks_split {s : OS} {L : List Block} (hI : OInv s L) {h : Nat} {o : OwnObj} (hm : (h, o) ∈ s.owns) :
    (o.bs ++ ownBlocks (others s.owns h) ++ heapBlocks s.heap).Perm L :=
  (((ownBlocks_split hI.ownKeys hm).append_right _).symm).trans hI.perm

theorem pstep_ownPush {s : OS} {L : List Block} (hI : OInv s L) (h n pos : Nat) :
    ∃ L', OInv (pstep s (.ownPush h n pos)) L' := by
  simp only [pstep]
  split
  · exact ⟨L, hI⟩
  · rename_i o hl
    have hm := lookup_some_mem hl
    have hb := blocks_split hI hm
    split
    · rename_i hs
      split
      · refine ⟨_, oinv_putOwn (o' := { o with bs := insertAt o.bs pos ((reg1 s.ga).2, 1) }) hI .reg1 trivial rfl h ?_ ?_⟩
        · simp only [ghost]
          have h1 := (insertAt_perm o.bs pos ((reg1 s.ga).2, 1))
          have h2 : (insertAt o.bs pos ((reg1 s.ga).2, 1) ++ ownBlocks (others s.owns h) ++ heapBlocks s.heap).Perm
              (((reg1 s.ga).2, 1) :: (o.bs ++ ownBlocks (others s.owns h) ++ heapBlocks s.heap)) := by
            have := (h1.append_right (ownBlocks (others s.owns h))).append_right (heapBlocks s.heap)
            simpa using this
          exact h2.trans (hb.cons _)
        · intro _ b hbm
          rcases List.mem_cons.1 ((insertAt_perm o.bs pos _).mem_iff.1 hbm) with rfl | hbm
          · rfl
          · exact hI.scal _ hm hs b hbm
      · exact ⟨L, hI⟩
    · rename_i hs
      split
      · rename_i hn
        refine ⟨_, oinv_putOwn (o' := { o with bs := insertAt o.bs pos ((regN n s.ga).2, n) }) hI (.regN n) hn rfl h ?_ ?_⟩
        · simp only [ghost]
          have h1 := (insertAt_perm o.bs pos ((regN n s.ga).2, n))
          have h2 : (insertAt o.bs pos ((regN n s.ga).2, n) ++ ownBlocks (others s.owns h) ++ heapBlocks s.heap).Perm
              (((regN n s.ga).2, n) :: (o.bs ++ ownBlocks (others s.owns h) ++ heapBlocks s.heap)) := by
            have := (h1.append_right (ownBlocks (others s.owns h))).append_right (heapBlocks s.heap)
            simpa using this
          exact h2.trans (hb.cons _)
        · intro hsc; exact absurd hsc hs
      · exact ⟨L, hI⟩

theorem pstep_ownDrop {s : OS} {L : List Block} (hI : OInv s L) (h k : Nat) :
    ∃ L', OInv (pstep s (.ownDrop h k)) L' := by
  simp only [pstep]
  split
  · exact ⟨L, hI⟩
  · rename_i o hl
    have hm := lookup_some_mem hl
    have hb := blocks_split hI hm
    split
    · exact ⟨L, hI⟩
    · rename_i b hk
      have hbo : b ∈ o.bs := List.mem_of_getElem? hk
      have hbL : b ∈ L := hb.mem_iff.1 (by simp [hbo])
      have hpe := perm_eraseIdx hk
      have hsub : ∀ x ∈ o.bs.eraseIdx k, x ∈ o.bs := fun x hx => (List.eraseIdx_sublist _ _).subset hx
      -- L ~ b :: (rest)
      have hL : L.Perm (b :: (o.bs.eraseIdx k ++ ownBlocks (others s.owns h) ++ heapBlocks s.heap)) := by
        have := (hpe.append_right (ownBlocks (others s.owns h))).append_right (heapBlocks s.heap)
        exact hb.symm.trans (by simpa using this)
      by_cases hs : o.scalar = true
      · have hb1 : b = (b.1, 1) := by
          have := hI.scal _ hm hs b hbo
          exact Prod.ext rfl this
        rw [if_pos hs]
        refine ⟨_, oinv_putOwn (o' := { o with bs := o.bs.eraseIdx k }) hI (.unreg1 b.1) ?_ rfl h ?_ ?_⟩
        · show (b.1, 1) ∈ L
          rw [← hb1]; exact hbL
        · simp only [ghost]
          rw [← hb1]
          exact (perm_erase_of_cons hL).symm
        · intro _ x hx; exact hI.scal _ hm hs x (hsub x hx)
      · rw [if_neg hs]
        refine ⟨_, oinv_putOwn (o' := { o with bs := o.bs.eraseIdx k }) hI (.unregN b.1 b.2) ?_ rfl h ?_ ?_⟩
        · show (b.1, b.2) ∈ L
          exact hbL
        · simp only [ghost]
          exact (perm_erase_of_cons hL).symm
        · intro hsc; exact absurd hsc hs

theorem oinv_putOwn0 {s : OS} {L : List Block} (hI : OInv s L) (h : Nat) (o' : OwnObj)
    (hperm : (o'.bs ++ ownBlocks (others s.owns h) ++ heapBlocks s.heap).Perm L)
    (hscal : o'.scalar = true → ∀ b ∈ o'.bs, b.2 = 1) :
    OInv (putOwn s h o') L :=
  { hist := hI.hist
    perm := by
      have : blocks (putOwn s h o') = o'.bs ++ ownBlocks (others s.owns h) ++ heapBlocks s.heap := by
        simp [blocks, putOwn, ownBlocks_cons, others]
      rw [this]; exact hperm
    ownKeys := cons_others_keys_nodup h o' hI.ownKeys
    arrKeys := hI.arrKeys
    sids := hI.sids
    sidLt := hI.sidLt
    links := hI.links
    refs := hI.refs
    scal := by
      intro p hp hs b hb
      rcases List.mem_cons.1 hp with rfl | hp
      · exact hscal hs b hb
      · exact hI.scal p (mem_others.1 hp).1 hs b hb
    noub := hI.noub
    pk := hI.pk }

theorem pstep_ownSetCap {s : OS} {L : List Block} (hI : OInv s L) (h c : Nat) :
    OInv (pstep s (.ownSetCap h c)) L := by
  simp only [pstep]
  split
  · exact hI
  · rename_i o hl
    have hm := lookup_some_mem hl
    have hb := blocks_split hI hm
    exact oinv_putOwn0 (o' := { o with cap := c }) hI h hb (fun hs b hb => hI.scal _ hm hs b hb)

theorem pstep_ownDel {s : OS} {L : List Block} (hI : OInv s L) (h : Nat) :
    OInv (pstep s (.ownDel h)) L := by
  simp only [pstep]
  split
  · exact hI
  · rename_i o hl
    have hm := lookup_some_mem hl
    split
    · rename_i he
      have hbs : o.bs = [] := by simpa using he
      have hb := blocks_split hI hm
      rw [hbs] at hb
      exact {
        hist := hI.hist
        perm := by
          have : blocks { s with owns := s.owns.filter (fun p => p.1 != h) }
              = [] ++ ownBlocks (others s.owns h) ++ heapBlocks s.heap := by
            simp [blocks, others]
          rw [this]; exact hb
        ownKeys := others_keys_nodup h hI.ownKeys
        arrKeys := hI.arrKeys
        sids := hI.sids
        sidLt := hI.sidLt
        links := hI.links
        refs := hI.refs
        scal := fun p hp hs b hb => hI.scal p (mem_others.1 hp).1 hs b hb
        noub := hI.noub
        pk := hI.pk }
    · exact hI

/-! ### arrays and their storages -/

theorem refcount_cons (h : Nat) (a : ArrObj) (l : List (Nat × ArrObj)) (sid : Nat) :
    refcount ((h, a) :: l) sid = refcount l sid + if a.st = some sid then 1 else 0 := by
  simp only [refcount, List.countP_cons]
  by_cases hc : a.st = some sid <;> simp [hc]

theorem refcount_split {arrs : List (Nat × ArrObj)} {h : Nat} {a : ArrObj}
    (hn : (arrs.map (·.1)).Nodup) (hm : (h, a) ∈ arrs) (sid : Nat) :
    refcount arrs sid = refcount (others arrs h) sid + if a.st = some sid then 1 else 0 := by
  have := (perm_split hn hm).countP_eq (fun p => p.2.st == some sid)
  rw [show refcount arrs sid = List.countP (fun p => p.2.st == some sid) arrs from rfl, this]
  exact refcount_cons h a _ sid

theorem refcount_zero_iff {arrs : List (Nat × ArrObj)} {sid : Nat} :
    refcount arrs sid = 0 ↔ ∀ p ∈ arrs, p.2.st ≠ some sid := by
  simp [refcount, List.countP_eq_zero]

theorem stor_unique : ∀ {heap : List Stor} {t u : Stor}, (heap.map (·.sid)).Nodup → t ∈ heap → u ∈ heap →
    t.sid = u.sid → t = u
  | [], _, _, _, ht, _, _ => by simp at ht
  | x :: heap, t, u, hn, ht, hu, he => by
    simp only [List.map_cons, List.nodup_cons] at hn
    rcases List.mem_cons.1 ht with h1 | ht
    · rcases List.mem_cons.1 hu with h2 | hu
      · rw [h1, h2]
      · have : x.sid ∈ heap.map (·.sid) := List.mem_map.2 ⟨u, hu, by rw [← he, h1]⟩
        exact absurd this hn.1
    · rcases List.mem_cons.1 hu with h2 | hu
      · have : x.sid ∈ heap.map (·.sid) := List.mem_map.2 ⟨t, ht, by rw [he, h2]⟩
        exact absurd this hn.1
      · exact stor_unique hn.2 ht hu he

theorem findStor_of_mem {s : OS} {t : Stor} (hn : (s.heap.map (·.sid)).Nodup) (ht : t ∈ s.heap) :
    findStor s t.sid = some t := by
  unfold findStor
  cases hf : s.heap.find? (fun u => u.sid == t.sid) with
  | none =>
    have := List.find?_eq_none.1 hf t ht
    simp at this
  | some u =>
    have hu := List.mem_of_find?_eq_some hf
    have he : u.sid = t.sid := by simpa using List.find?_some hf
    rw [stor_unique hn hu ht he]

theorem heapBlocks_map_links (heap : List Stor) (f : Stor → Stor) (hf : ∀ u, (f u).gi = u.gi ∧ (f u).n = u.n) :
    heapBlocks (heap.map f) = heapBlocks heap := by
  simp only [heapBlocks, List.map_map]
  apply List.map_congr_left
  intro u _
  simp [(hf u).1, (hf u).2]

theorem pstep_arrNew {s : OS} {L : List Block} (hI : OInv s L) (h kind : Nat) :
    OInv (pstep s (.arrNew h kind)) L := by
  simp only [pstep]
  split
  · exact hI
  · rename_i hl
    exact {
      hist := hI.hist
      perm := hI.perm
      ownKeys := hI.ownKeys
      arrKeys := by
        simp only [List.map_cons, List.nodup_cons]
        exact ⟨lookup_none_not_mem hl, hI.arrKeys⟩
      sids := hI.sids
      sidLt := hI.sidLt
      links := by
        intro t ht
        have := hI.links t ht
        simp only [refcount_cons, emptyArr]
        simpa using this
      refs := by
        intro p hp sid hst
        rcases List.mem_cons.1 hp with rfl | hp
        · simp [emptyArr] at hst
        · exact hI.refs p hp sid hst
      scal := hI.scal
      noub := hI.noub
      pk := hI.pk }

theorem pstep_arrDel {s : OS} {L : List Block} (hI : OInv s L) (h : Nat) :
    OInv (pstep s (.arrDel h)) L := by
  simp only [pstep]
  split
  · exact hI
  · rename_i a hl
    have hm := lookup_some_mem hl
    split
    · exact hI
    · rename_i hst
      have hnone : a.st = none := by simpa using hst
      exact {
        hist := hI.hist
        perm := hI.perm
        ownKeys := hI.ownKeys
        arrKeys := others_keys_nodup h hI.arrKeys
        sids := hI.sids
        sidLt := hI.sidLt
        links := by
          intro t ht
          have := hI.links t ht
          have hr := refcount_split hI.arrKeys hm t.sid
          simp only [hnone] at hr
          show 0 < t.links ∧ t.links = refcount (others s.arrs h) t.sid
          simp at hr
          rw [← hr]; exact this
        refs := fun p hp sid hst => hI.refs p (mem_others.1 hp).1 sid hst
        scal := hI.scal
        noub := hI.noub
        pk := hI.pk }

theorem heap_split : ∀ {heap : List Stor} {t : Stor}, (heap.map (·.sid)).Nodup → t ∈ heap →
    heap.Perm (t :: heap.filter (fun u => u.sid != t.sid))
  | [], _, _, hm => by simp at hm
  | x :: heap, t, hn, hm => by
    have hn' := hn
    simp only [List.map_cons, List.nodup_cons] at hn
    by_cases hx : x = t
    · subst hx
      have : (x :: heap).filter (fun u => u.sid != x.sid) = heap := by
        simp only [List.filter_cons, bne_self_eq_false, Bool.false_eq_true, if_false]
        apply List.filter_eq_self.2
        intro u hu
        have : u.sid ≠ x.sid := fun e => hn.1 (List.mem_map.2 ⟨u, hu, e⟩)
        simpa using this
      rw [this]
    · have hin : t ∈ heap := by
        rcases List.mem_cons.1 hm with heq | hin
        · exact absurd heq.symm hx
        · exact hin
      have hsid : x.sid ≠ t.sid := by
        intro e
        exact hx (stor_unique hn' (by simp) (List.mem_cons_of_mem _ hin) e)
      have : (x :: heap).filter (fun u => u.sid != t.sid) = x :: heap.filter (fun u => u.sid != t.sid) := by
        simp [hsid]
      rw [this]
      exact ((heap_split hn.2 hin).cons x).trans (List.Perm.swap _ _ _)

/-- the link count of some storages changes (`add_link`, `remove_link` that does not reach zero), array `h` is re-pointed -/
theorem oinv_maplinks {s : OS} {L : List Block} (hI : OInv s L) (f : Stor → Stor)
    (hf : ∀ u, (f u).sid = u.sid ∧ (f u).gi = u.gi ∧ (f u).n = u.n) (h : Nat) (a' : ArrObj)
    (hlinks : ∀ u ∈ s.heap, 0 < (f u).links ∧ (f u).links = refcount ((h, a') :: others s.arrs h) u.sid)
    (hrefs : ∀ sid, a'.st = some sid →
      ∃ t ∈ s.heap, t.sid = sid ∧ a'.off + ext a'.dims a'.strides < t.n ∧ a'.g = some (t.gi + a'.off)) :
    OInv (putArr { s with heap := s.heap.map f } h a') L :=
  { hist := hI.hist
    perm := by
      have : blocks (putArr { s with heap := s.heap.map f } h a') = blocks s := by
        simp only [blocks, putArr]
        rw [heapBlocks_map_links _ f (fun u => ⟨(hf u).2.1, (hf u).2.2⟩)]
      rw [this]; exact hI.perm
    ownKeys := hI.ownKeys
    arrKeys := cons_others_keys_nodup h a' hI.arrKeys
    sids := by
      have : (s.heap.map f).map (·.sid) = s.heap.map (·.sid) := by
        simp only [List.map_map]
        apply List.map_congr_left
        intro u _
        exact (hf u).1
      show ((s.heap.map f).map (·.sid)).Nodup
      rw [this]; exact hI.sids
    sidLt := by
      intro t ht
      obtain ⟨u, hu, rfl⟩ := List.mem_map.1 ht
      rw [(hf u).1]; exact hI.sidLt u hu
    links := by
      intro t ht
      obtain ⟨u, hu, rfl⟩ := List.mem_map.1 ht
      rw [(hf u).1]; exact hlinks u hu
    refs := by
      intro p hp sid hst
      have key : ∀ (a : ArrObj), (∃ t ∈ s.heap, t.sid = sid ∧ a.off + ext a.dims a.strides < t.n ∧ a.g = some (t.gi + a.off)) →
          ∃ t ∈ s.heap.map f, t.sid = sid ∧ a.off + ext a.dims a.strides < t.n ∧ a.g = some (t.gi + a.off) := by
        rintro a ⟨t, ht, h1, h2, h3⟩
        exact ⟨f t, List.mem_map.2 ⟨t, ht, rfl⟩, by rw [(hf t).1]; exact h1, by rw [(hf t).2.2]; exact h2,
          by rw [(hf t).2.1]; exact h3⟩
      rcases List.mem_cons.1 hp with rfl | hp
      · exact key _ (hrefs sid hst)
      · exact key _ (hI.refs p (mem_others.1 hp).1 sid hst)
    scal := hI.scal
    noub := hI.noub
    pk := hI.pk }

theorem pstep_arrRelease {s : OS} {L : List Block} (hI : OInv s L) (h : Nat) :
    ∃ L', OInv (pstep s (.arrRelease h)) L' := by
  simp only [pstep]
  split
  · exact ⟨L, hI⟩
  · rename_i a hl
    have hm := lookup_some_mem hl
    cases hst : a.st with
    | none =>
      refine ⟨L, ?_⟩
      show OInv (putArr s h (emptyArr a.kind)) L
      have := oinv_maplinks hI id (fun u => ⟨rfl, rfl, rfl⟩) h (emptyArr a.kind)
        (by
          intro u hu
          have hk := hI.links u hu
          have hr := refcount_split hI.arrKeys hm u.sid
          simp only [hst] at hr
          simp only [refcount_cons, emptyArr, id]
          simp at hr ⊢
          rw [← hr]; exact hk)
        (by intro sid hs; simp [emptyArr] at hs)
      simpa using this
    | some sid =>
      obtain ⟨t, ht, htsid, _, _⟩ := hI.refs _ hm sid hst
      have hf : findStor s sid = some t := by rw [← htsid]; exact findStor_of_mem hI.sids ht
      have hlk := hI.links t ht
      have hrc := refcount_split hI.arrKeys hm sid
      simp only [hst, if_true] at hrc
      rw [htsid] at hlk
      simp only [removeLink, hf]
      have h0 : ¬ t.links = 0 := by omega
      rw [if_neg h0]
      by_cases h1 : t.links = 1
      · rw [if_pos h1]
        have hbL : (t.gi, t.n) ∈ L := hI.perm.mem_iff.1 (by
          simp only [blocks, List.mem_append]
          exact Or.inr (List.mem_map.2 ⟨t, ht, rfl⟩))
        have hzero : ∀ p ∈ others s.arrs h, p.2.st ≠ some sid := refcount_zero_iff.1 (by omega)
        refine ⟨ghost s.ga L (.unregN t.gi t.n), ?_⟩
        exact {
          hist := hist_call (.unregN t.gi t.n) hI.hist hbL
          perm := by
            show (ownBlocks s.owns ++ heapBlocks (s.heap.filter (fun u => u.sid != sid))).Perm (L.erase (t.gi, t.n))
            have hs := heap_split hI.sids ht
            rw [htsid] at hs
            have h2 : (heapBlocks s.heap).Perm ((t.gi, t.n) :: heapBlocks (s.heap.filter (fun u => u.sid != sid))) := by
              have := hs.map (fun u : Stor => (u.gi, u.n))
              simpa [heapBlocks] using this
            have h3 : L.Perm ((t.gi, t.n) :: (ownBlocks s.owns ++ heapBlocks (s.heap.filter (fun u => u.sid != sid)))) :=
              hI.perm.symm.trans (((List.Perm.refl _).append h2).trans List.perm_middle)
            exact (perm_erase_of_cons h3).symm
          ownKeys := hI.ownKeys
          arrKeys := cons_others_keys_nodup h _ hI.arrKeys
          sids := List.Pairwise.sublist (List.Sublist.map _ List.filter_sublist) hI.sids
          sidLt := fun u hu => hI.sidLt u (List.mem_filter.1 hu).1
          links := by
            intro u hu
            have hu' := List.mem_filter.1 hu
            have hne : u.sid ≠ sid := by simpa using hu'.2
            have hk := hI.links u hu'.1
            have hr := refcount_split hI.arrKeys hm u.sid
            have : ¬ (a.st = some u.sid) := by rw [hst]; intro e; exact hne (Option.some.inj e).symm
            simp only [this, if_false, Nat.add_zero] at hr
            show 0 < u.links ∧ u.links = refcount ((h, emptyArr a.kind) :: others s.arrs h) u.sid
            simp only [refcount_cons, emptyArr]
            simp
            rw [← hr]; exact hk
          refs := by
            intro p hp sid' hs
            rcases List.mem_cons.1 hp with rfl | hp
            · simp [emptyArr] at hs
            · obtain ⟨u, hu, h1', h2', h3'⟩ := hI.refs p (mem_others.1 hp).1 sid' hs
              refine ⟨u, List.mem_filter.2 ⟨hu, ?_⟩, h1', h2', h3'⟩
              have : sid' ≠ sid := by
                intro e; subst e
                exact hzero p hp hs
              simp [h1', this]
          scal := hI.scal
          noub := hI.noub
          pk := hI.pk }
      · rw [if_neg h1]
        refine ⟨L, ?_⟩
        exact oinv_maplinks hI _ (by intro u; split <;> simp) h (emptyArr a.kind)
          (by
            intro u hu
            have hk := hI.links u hu
            have hr := refcount_split hI.arrKeys hm u.sid
            simp only [refcount_cons, emptyArr]
            by_cases hus : u.sid = sid
            · have hut : u = t := stor_unique hI.sids hu ht (by rw [hus, htsid])
              subst hut
              simp only [hus, beq_self_eq_true, if_true]
              simp
              omega
            · have : ¬ (a.st = some u.sid) := by rw [hst]; intro e; exact hus (Option.some.inj e).symm
              simp only [this, if_false, Nat.add_zero] at hr
              have hb : (u.sid == sid) = false := by simpa using hus
              simp only [hb]
              simp
              rw [← hr]; exact hk)
          (by intro sid' hs; simp [emptyArr] at hs)

@[simp] theorem callRegN_nextSid (n : Nat) (s : OS) : (callRegN n s).1.nextSid = s.nextSid := rfl
@[simp] theorem callRegN_heap (n : Nat) (s : OS) : (callRegN n s).1.heap = s.heap := rfl
@[simp] theorem callRegN_owns (n : Nat) (s : OS) : (callRegN n s).1.owns = s.owns := rfl
@[simp] theorem callRegN_arrs (n : Nat) (s : OS) : (callRegN n s).1.arrs = s.arrs := rfl
@[simp] theorem callRegN_packet (n : Nat) (s : OS) : (callRegN n s).1.packet = s.packet := rfl
@[simp] theorem callRegN_ub (n : Nat) (s : OS) : (callRegN n s).1.ub = s.ub := rfl
@[simp] theorem callRegN_ga (n : Nat) (s : OS) : (callRegN n s).1.ga = (regN n s.ga).1 := rfl
@[simp] theorem callRegN_log (n : Nat) (s : OS) : (callRegN n s).1.log = Op.regN n :: s.log := rfl
@[simp] theorem callRegN_snd (n : Nat) (s : OS) : (callRegN n s).2 = (regN n s.ga).2 := rfl

theorem pstep_arrAlloc {s : OS} {L : List Block} (hI : OInv s L) (h : Nat) (dims : List Nat) :
    ∃ L', OInv (pstep s (.arrAlloc h dims)) L' := by
  simp only [pstep]
  split
  · exact ⟨L, hI⟩
  · rename_i a hl
    have hm := lookup_some_mem hl
    split
    · exact ⟨L, hI⟩
    · rename_i hst
      have hnone : a.st = none := by simpa using hst
      split
      · rename_i hc
        obtain ⟨hne, _, hall⟩ := hc
        have hpos : ∀ d ∈ dims, 0 < d := by
          intro d hd
          have := List.all_eq_true.1 hall d hd
          simpa using this
        have hlay := layout_ok hI.pk a.kind dims hne hpos
        have hvol : 0 < (layout a.kind s.packet dims).2.2 := by omega
        have hnoref : ∀ p ∈ s.arrs, p.2.st ≠ some s.nextSid := by
          intro p hp e
          obtain ⟨t, ht, h1, _, _⟩ := hI.refs p hp _ e
          have := hI.sidLt t ht
          omega
        refine ⟨ghost s.ga L (.regN (layout a.kind s.packet dims).2.2), ?_⟩
        simp only [callRegN_nextSid, callRegN_heap, callRegN_owns, callRegN_arrs, callRegN_packet, callRegN_ub, callRegN_ga,
          callRegN_log, callRegN_snd, putArr]
        exact {
          hist := by
            have := hist_call (.regN (layout a.kind s.packet dims).2.2) hI.hist hvol
            exact this
          perm := by
            show (ownBlocks s.owns ++ ((regN (layout a.kind s.packet dims).2.2 s.ga).2, (layout a.kind s.packet dims).2.2)
                :: heapBlocks s.heap).Perm
              (((regN (layout a.kind s.packet dims).2.2 s.ga).2, (layout a.kind s.packet dims).2.2) :: L)
            exact List.perm_middle.trans (hI.perm.cons _)
          ownKeys := hI.ownKeys
          arrKeys := cons_others_keys_nodup h _ hI.arrKeys
          sids := by
            show (s.nextSid :: s.heap.map (·.sid)).Nodup
            simp only [List.nodup_cons]
            refine ⟨?_, hI.sids⟩
            intro hmem
            obtain ⟨t, ht, he⟩ := List.mem_map.1 hmem
            have := hI.sidLt t ht
            omega
          sidLt := by
            intro t ht
            show t.sid < s.nextSid + 1
            rcases List.mem_cons.1 ht with rfl | ht
            · exact Nat.lt_succ_self _
            · exact Nat.lt_succ_of_lt (hI.sidLt t ht)
          links := by
            intro t ht
            rcases List.mem_cons.1 ht with rfl | ht
            · show 0 < 1 ∧ 1 = refcount ((h, _) :: others s.arrs h) s.nextSid
              rw [refcount_cons]
              have : refcount (others s.arrs h) s.nextSid = 0 :=
                refcount_zero_iff.2 (fun p hp => hnoref p (mem_others.1 hp).1)
              simp [this]
            · have hk := hI.links t ht
              have hlt := hI.sidLt t ht
              have hr := refcount_split hI.arrKeys hm t.sid
              simp only [hnone] at hr
              show 0 < t.links ∧ t.links = refcount ((h, _) :: others s.arrs h) t.sid
              rw [refcount_cons]
              have : ¬ (s.nextSid = t.sid) := by omega
              simp [this]
              simp at hr
              rw [← hr]; exact hk
          refs := by
            intro p hp sid hs
            rcases List.mem_cons.1 hp with rfl | hp
            · simp only [Option.some.injEq] at hs
              subst hs
              refine ⟨_, List.mem_cons_self, rfl, ?_, by simp⟩
              show 0 + ext (layout a.kind s.packet dims).1 (layout a.kind s.packet dims).2.1 < (layout a.kind s.packet dims).2.2
              omega
            · obtain ⟨t, ht, h1, h2, h3⟩ := hI.refs p (mem_others.1 hp).1 sid hs
              exact ⟨t, List.mem_cons_of_mem _ ht, h1, h2, h3⟩
          scal := hI.scal
          noub := hI.noub
          pk := hI.pk }
      · exact ⟨L, hI⟩

theorem pstep_arrShare {s : OS} {L : List Block} (hI : OInv s L) (h src : Nat) (spec : Option (List Ix)) :
    OInv (pstep s (.arrShare h src spec)) L := by
  simp only [pstep]
  split
  · rename_i a b hl hlb
    have hma := lookup_some_mem hl
    have hmb := lookup_some_mem hlb
    split
    · exact hI
    · rename_i hst
      have hnone : a.st = none := by simpa using hst
      split
      · exact hI
      · rename_i sid hbst
        obtain ⟨t, ht, htsid, hbnd, hg⟩ := hI.refs _ hmb sid hbst
        replace hbnd : b.off + ext b.dims b.strides < t.n := hbnd
        replace hg : b.g = some (t.gi + b.off) := hg
        have hf : findStor s sid = some t := by rw [← htsid]; exact findStor_of_mem hI.sids ht
        split
        · rename_i o ds ss t' hview hf'
          have htt : t' = t := by rw [hf] at hf'; exact (Option.some.inj hf').symm
          subst htt
          have hvb : o + ext ds ss ≤ ext b.dims b.strides ∧ (spec = none → o = 0) := by
            cases spec with
            | none =>
              simp only [Option.some.injEq, Prod.mk.injEq] at hview
              obtain ⟨rfl, rfl, rfl⟩ := hview
              exact ⟨by omega, fun _ => rfl⟩
            | some xs =>
              exact ⟨sliceView_bound xs _ _ hview, fun e => by simp at e⟩
          refine oinv_maplinks hI _ (by intro u; split <;> simp) h _ ?_ ?_
          · intro u hu
            have hk := hI.links u hu
            have hr := refcount_split hI.arrKeys hma u.sid
            simp only [hnone] at hr
            simp at hr
            rw [refcount_cons]
            by_cases hus : u.sid = sid
            · simp only [hus, beq_self_eq_true, if_true]
              rw [hus] at hr hk
              simp
              omega
            · have hb : (u.sid == sid) = false := by simpa using hus
              have : ¬ (sid = u.sid) := fun e => hus e.symm
              simp only [hb]
              simp [this]
              rw [← hr]; exact hk
          · intro sid' hs
            simp only [Option.some.injEq] at hs
            subst hs
            refine ⟨t', ht, htsid, ?_, ?_⟩
            · show b.off + o + ext ds ss < t'.n
              omega
            · cases spec with
              | none =>
                have := hvb.2 rfl
                subst this
                simpa using hg
              | some xs => rfl
        · rename_i hf'
          rw [hf] at hf'
          exact absurd hf' (by simp)
        · exact hI
  · exact hI

theorem others_others {β : Type} (l : List (Nat × β)) (h1 h2 : Nat) :
    others (others l h1) h2 = l.filter (fun p => p.1 != h1 && p.1 != h2) := by
  simp only [others, List.filter_filter]
  apply List.filter_congr
  intro p _
  exact Bool.and_comm _ _

theorem pstep_arrSwap {s : OS} {L : List Block} (hI : OInv s L) (h1 h2 : Nat) :
    OInv (pstep s (.arrSwap h1 h2)) L := by
  simp only [pstep]
  split
  · rename_i a1 a2 hl1 hl2
    have hm1 := lookup_some_mem hl1
    have hm2 := lookup_some_mem hl2
    split
    · exact hI
    · rename_i hne
      have hm2' : (h2, a2) ∈ others s.arrs h1 := mem_others.2 ⟨hm2, fun e => hne e.symm⟩
      have hn1 := others_keys_nodup h1 hI.arrKeys
      rw [← others_others]
      have hcount : ∀ sid, refcount s.arrs sid
          = refcount ((h1, a2) :: (h2, a1) :: others (others s.arrs h1) h2) sid := by
        intro sid
        rw [refcount_split hI.arrKeys hm1 sid, refcount_split hn1 hm2' sid, refcount_cons, refcount_cons]
        omega
      exact {
        hist := hI.hist
        perm := hI.perm
        ownKeys := hI.ownKeys
        arrKeys := by
          simp only [List.map_cons, List.nodup_cons, List.mem_cons, not_or]
          refine ⟨⟨hne, ?_⟩, not_mem_others_keys _ h2, others_keys_nodup h2 hn1⟩
          intro hmem
          obtain ⟨p, hp, he⟩ := List.mem_map.1 hmem
          exact (mem_others.1 (mem_others.1 hp).1).2 he
        sids := hI.sids
        sidLt := hI.sidLt
        links := by
          intro t ht
          have := hI.links t ht
          rw [hcount] at this
          exact this
        refs := by
          intro p hp sid hs
          rcases List.mem_cons.1 hp with rfl | hp
          · exact hI.refs _ hm2 sid hs
          · rcases List.mem_cons.1 hp with rfl | hp
            · exact hI.refs _ hm1 sid hs
            · exact hI.refs p (mem_others.1 (mem_others.1 hp).1).1 sid hs
        scal := hI.scal
        noub := hI.noub
        pk := hI.pk }
  · exact hI

theorem pstep_newRec {s : OS} {L : List Block} (hI : OInv s L) : OInv (pstep s .newRec) L :=
  { hist := hist_call .newRec hI.hist trivial
    perm := hI.perm
    ownKeys := hI.ownKeys
    arrKeys := hI.arrKeys
    sids := hI.sids
    sidLt := hI.sidLt
    links := hI.links
    refs := hI.refs
    scal := hI.scal
    noub := hI.noub
    pk := hI.pk }

/-- every primitive action preserves the invariant -/
theorem pstep_inv {s : OS} {L : List Block} (hI : OInv s L) (p : Prim) : ∃ L', OInv (pstep s p) L' := by
  cases p with
  | ownNew h sc tag => exact ⟨L, pstep_ownNew hI h sc tag⟩
  | ownPush h n pos => exact pstep_ownPush hI h n pos
  | ownDrop h k => exact pstep_ownDrop hI h k
  | ownSetCap h c => exact ⟨L, pstep_ownSetCap hI h c⟩
  | ownDel h => exact ⟨L, pstep_ownDel hI h⟩
  | arrNew h kind => exact ⟨L, pstep_arrNew hI h kind⟩
  | arrRelease h => exact pstep_arrRelease hI h
  | arrAlloc h dims => exact pstep_arrAlloc hI h dims
  | arrShare h src spec => exact ⟨L, pstep_arrShare hI h src spec⟩
  | arrSwap h1 h2 => exact ⟨L, pstep_arrSwap hI h1 h2⟩
  | arrDel h => exact ⟨L, pstep_arrDel hI h⟩
  | newRec => exact ⟨L, pstep_newRec hI⟩

theorem prun_inv : ∀ (ps : List Prim) {s : OS} {L : List Block}, OInv s L → ∃ L', OInv (prun s ps) L'
  | [], _, L, hI => ⟨L, hI⟩
  | p :: ps, _, _, hI => by
    obtain ⟨L1, h1⟩ := pstep_inv hI p
    exact prun_inv ps h1

theorem ostep_inv {s : OS} {L : List Block} (hI : OInv s L) (op : OOp) : ∃ L', OInv (ostep s op) L' := by
  unfold ostep
  split
  · exact prun_inv _ hI
  · exact ⟨L, hI⟩

theorem orun_inv : ∀ (ops : List OOp) {s : OS} {L : List Block}, OInv s L → ∃ L', OInv (orun s ops) L'
  | [], _, L, hI => ⟨L, hI⟩
  | op :: ops, _, _, hI => by
    obtain ⟨L1, h1⟩ := ostep_inv hI op
    exact orun_inv ops h1

/-- the state before any object exists, for a build with packet size `P` -/
def initP (P : Nat) : OS := { init with packet := P }

theorem oinv_init {P : Nat} (hP : 0 < P) : OInv (initP P) [] :=
  { hist := rfl
    perm := List.Perm.refl _
    ownKeys := List.nodup_nil
    arrKeys := List.nodup_nil
    sids := List.nodup_nil
    sidLt := by intro t ht; simp [initP, init] at ht
    links := by intro t ht; simp [initP, init] at ht
    refs := by intro p hp; simp [initP, init] at hp
    scal := by intro p hp; simp [initP, init] at hp
    noub := rfl
    pk := hP }

/-! ### consequences used by the property theorems -/

theorem perm_sum_int {α : Type} (f : α → Int) {l₁ l₂ : List α} (h : l₁.Perm l₂) :
    (l₁.map f).sum = (l₂.map f).sum := by
  induction h with
  | nil => rfl
  | cons x _ ih => simp [ih]
  | swap x y l => simp only [List.map_cons, List.sum_cons]; omega
  | trans _ _ ih1 ih2 => exact ih1.trans ih2

theorem pairwise_mem {α : Type} {R : α → α → Prop} (hsym : ∀ {x y}, R x y → R y x) :
    ∀ {l : List α}, l.Pairwise R → ∀ {a b : α}, a ∈ l → b ∈ l → a ≠ b → R a b
  | [], _, _, _, ha, _, _ => by simp at ha
  | x :: l, hp, a, b, ha, hb, hne => by
    rw [List.pairwise_cons] at hp
    rcases List.mem_cons.1 ha with h1 | ha
    · rcases List.mem_cons.1 hb with h2 | hb
      · exact absurd (h1.trans h2.symm) hne
      · rw [h1]; exact hp.1 b hb
    · rcases List.mem_cons.1 hb with h2 | hb
      · rw [h2]; exact hsym (hp.1 a ha)
      · exact pairwise_mem hsym hp.2 ha hb hne

theorem disj_symm {B C : Block} (h : ∀ j, ¬ (inBlock B j ∧ inBlock C j)) : ∀ j, ¬ (inBlock C j ∧ inBlock B j) :=
  fun j hj => h j ⟨hj.2, hj.1⟩

/-- the primitives that make or unmake an array object without storage never touch the allocator -/
theorem pstep_arrNew_frame (s : OS) (h kind : Nat) :
    (pstep s (.arrNew h kind)).ga = s.ga ∧ (pstep s (.arrNew h kind)).log = s.log ∧
    (pstep s (.arrNew h kind)).owns = s.owns ∧ (pstep s (.arrNew h kind)).heap = s.heap := by
  simp only [pstep]; split <;> simp

theorem pstep_arrDel_frame (s : OS) (h : Nat) :
    (pstep s (.arrDel h)).ga = s.ga ∧ (pstep s (.arrDel h)).log = s.log ∧
    (pstep s (.arrDel h)).owns = s.owns ∧ (pstep s (.arrDel h)).heap = s.heap := by
  simp only [pstep]
  split
  · simp
  · split <;> simp

end Adept.GradObj
