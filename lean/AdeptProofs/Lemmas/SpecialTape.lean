import AdeptProofs.Lemmas.Special
import Mathlib.Data.List.Nodup
/-!
Lemmas for C17 about the statements an assignment to an ACTIVE special matrix records (`SM.assignActiveScalar`,
`SM.recPassiveScalar`, `SM.recExpr` of AdeptModel/Special.lean): the left-hand-side gradient indices are the addresses
of the positions `get_row_range` enumerates, each once, in row order.
-/
namespace Adept.Special
open Adept.Engines

/-! ### active special matrices: the recorded statements -/

/-- columns of row `i` that `get_row_range` enumerates -/
def SM.rowLen (m : SM) (i : Nat) : Nat :=
  (m.e.get_row_range_j_end_plus_1 (i : Int) m.dim m.offset - m.e.get_row_range_j_start (i : Int) m.dim m.offset).toNat

/-- the positions a statement writes, in the order of the traversal: row by row, the columns `get_row_range`
    enumerates (by `row_range_spec` exactly the canonical positions of the row, ascending) -/
def SM.canonPositions (m : SM) : List (Int × Int) :=
  (List.range m.dim.toNat).flatMap (fun (i : Nat) =>
    (List.range (m.rowLen i)).map (fun (t : Nat) =>
      ((i : Int), m.e.get_row_range_j_start (i : Int) m.dim m.offset + (t : Int))))

/-- address (= gradient index relative to the Storage object) of a position -/
def SM.addr (m : SM) (p : Int × Int) : Int := m.base + m.e.index p.1 p.2 m.offset

theorem SM.mem_canonPositions (m : SM) (ha : m.Adm) (p : Int × Int) :
    p ∈ m.canonPositions ↔ (0 ≤ p.1 ∧ p.1 < m.dim ∧ 0 ≤ p.2 ∧ p.2 < m.dim ∧ Canonical m.e p.1 p.2) := by
  obtain ⟨pi, pj⟩ := p
  simp only [SM.canonPositions, SM.rowLen, List.mem_flatMap, List.mem_range, List.mem_map, Prod.mk.injEq]
  constructor
  · rintro ⟨i, hi, t, ht, rfl, rfl⟩
    have hi' : (i : Int) < m.dim := by omega
    have := ((row_range_spec m.e ha.wf m.dim m.offset i (by omega) hi').1
      (m.e.get_row_range_j_start (i : Int) m.dim m.offset + t)).1 ⟨by omega, by omega⟩
    exact ⟨by omega, hi', this.1, this.2.1, this.2.2⟩
  · rintro ⟨hi0, hi, hj0, hj, hc⟩
    have := ((row_range_spec m.e ha.wf m.dim m.offset pi hi0 hi).1 pj).2 ⟨hj0, hj, hc⟩
    refine ⟨pi.toNat, by omega, (pj - m.e.get_row_range_j_start pi m.dim m.offset).toNat, ?_, by omega, ?_⟩
    · have e : ((pi.toNat : Nat) : Int) = pi := by omega
      rw [e]; omega
    · have e : ((pi.toNat : Nat) : Int) = pi := by omega
      rw [e]; omega

theorem SM.canonPositions_nodup (m : SM) : m.canonPositions.Nodup := by
  simp only [SM.canonPositions]
  rw [List.nodup_flatMap]
  constructor
  · intro i _
    apply List.Nodup.map_on _ List.nodup_range
    intro a _ b _ h
    simp only [Prod.mk.injEq, true_and] at h
    omega
  · apply List.Pairwise.imp _ (List.nodup_range (n := m.dim.toNat))
    intro a b hab
    simp only [Function.onFun, List.disjoint_left, List.mem_map]
    rintro p ⟨t, _, rfl⟩ ⟨t', _, h⟩
    simp only [Prod.mk.injEq] at h
    exact hab (by omega)

/-- different written positions have different addresses -/
theorem SM.addr_inj_on (m : SM) (ha : m.Adm) (p q : Int × Int) (hp : p ∈ m.canonPositions) (hq : q ∈ m.canonPositions)
    (h : m.addr p = m.addr q) : p = q := by
  obtain ⟨a0, a1, a2, a3, a4⟩ := (m.mem_canonPositions ha p).1 hp
  obtain ⟨b0, b1, b2, b3, b4⟩ := (m.mem_canonPositions ha q).1 hq
  have := canonical_inj m.e ha.wf m.dim m.offset p.1 p.2 q.1 q.2 ha.off a0 a1 a2 a3 b0 b1 b2 b3 a4 b4
    (by simp only [SM.addr] at h; omega)
  exact Prod.ext this.1 this.2

theorem SM.canonAddrs_nodup (m : SM) (ha : m.Adm) : (m.canonPositions.map m.addr).Nodup :=
  List.Nodup.map_on (fun p hp q hq h => m.addr_inj_on ha p q hp hq h) m.canonPositions_nodup

/-- `index_start + t * index_stride` is the address of the t-th written position of the row -/
theorem SM.row_addr (m : SM) (ha : m.Adm) (i : Nat) (hi : (i : Int) < m.dim) (t : Nat) (ht : t < m.rowLen i) :
    m.base + m.e.get_row_range_index_start (i : Int) m.dim m.offset
        + (t : Int) * m.e.get_row_range_index_stride (i : Int) m.dim m.offset
      = m.addr ((i : Int), m.e.get_row_range_j_start (i : Int) m.dim m.offset + (t : Int)) := by
  have hx := (row_range_spec m.e ha.wf m.dim m.offset i (by omega) hi).2
    (m.e.get_row_range_j_start (i : Int) m.dim m.offset + t) (by omega) (by simp only [SM.rowLen] at ht; omega)
  simp only [SM.addr]
  rw [← hx]; ring

theorem SM.recRow_lhs (m : SM) : ∀ (n : Nat) (rhs : AExpr) (idx stride : Int),
    (m.recRow n rhs idx stride).map Stmt.lhs = (List.range n).map (fun (t : Nat) => m.base + idx + (t : Int) * stride) := by
  intro n
  induction n with
  | zero => intro _ _ _; rfl
  | succ n ih =>
    intro rhs idx stride
    rw [SM.recRow, List.map_cons, ih, List.range_succ_eq_map]
    simp only [List.map_cons, List.map_map, Nat.cast_zero, zero_mul, add_zero, List.cons.injEq, true_and]
    apply List.map_congr_left
    intro t _
    simp only [Function.comp, Nat.cast_succ]
    ring

theorem SM.recRow_ops (m : SM) (rhs : AExpr) (hr : rhs.AllAdm) (i : Int) : ∀ (n : Nat) (j idx stride : Int),
    (m.recRow n (rhs.setLocation i j) idx stride).map Stmt.ops
      = (List.range n).map (fun (t : Nat) => (rhs.setLocation i (j + (t : Int))).grads 1) := by
  intro n
  induction n with
  | zero => intro _ _ _; rfl
  | succ n ih =>
    intro j idx stride
    rw [SM.recRow, List.map_cons, rhs.advance_setLocation hr, ih, List.range_succ_eq_map]
    simp only [List.map_cons, List.map_map, Nat.cast_zero, add_zero, List.cons.injEq, true_and]
    apply List.map_congr_left
    intro t _
    simp only [Function.comp, Nat.cast_succ]
    congr 2; ring

theorem SM.lhsRange_lhs : ∀ (n : Nat) (first stride : Int),
    (SM.lhsRange first n stride).map Stmt.lhs = (List.range n).map (fun (t : Nat) => first + (t : Int) * stride) := by
  intro n
  induction n with
  | zero => intro _ _; rfl
  | succ n ih =>
    intro first stride
    rw [SM.lhsRange, List.map_cons, ih, List.range_succ_eq_map]
    simp only [List.map_cons, List.map_map, Nat.cast_zero, zero_mul, add_zero, List.cons.injEq, true_and]
    apply List.map_congr_left
    intro t _
    simp only [Function.comp, Nat.cast_succ]
    ring

theorem SM.lhsRange_ops : ∀ (n : Nat) (first stride : Int), ∀ s ∈ SM.lhsRange first n stride, s.ops = [] := by
  intro n
  induction n with
  | zero => intro _ _ s hs; simp [SM.lhsRange] at hs
  | succ n ih =>
    intro first stride s hs
    simp only [SM.lhsRange, List.mem_cons] at hs
    rcases hs with rfl | hs
    · rfl
    · exact ih _ _ s hs

/-- the loop of `operator=(const Active&)`: the stores of the passive scalar loop, and one statement
    `lhs = address, ops = [(1, gx)]` per store -/
theorem SM.activeScalarRow_eq (m : SM) (val gx : Int) : ∀ (n : Nat) (idx stride : Int) (d : Raw) (tape : List Stmt),
    m.activeScalarRow val gx n idx stride (d, tape)
      = (m.assignRow ((List.range n).map (fun (_ : Nat) => val)) idx stride d,
         tape ++ (List.range n).map (fun (t : Nat) => (⟨m.base + idx + (t : Int) * stride, [(1, gx)]⟩ : Stmt))) := by
  intro n
  induction n with
  | zero => intro _ _ _ _; simp [SM.activeScalarRow, SM.assignRow]
  | succ n ih =>
    intro idx stride d tape
    rw [SM.activeScalarRow, ih, List.range_succ_eq_map]
    simp only [List.map_cons, List.map_map, SM.assignRow, Nat.cast_zero, zero_mul, add_zero, List.append_assoc,
      List.cons_append, List.nil_append, Prod.mk.injEq]
    refine ⟨by congr 1, ?_⟩
    congr 2
    apply List.map_congr_left
    intro t _
    simp only [Function.comp, Nat.cast_succ]
    congr 1; ring

/-- per row, the three recorders produce the addresses of the row's written positions -/
theorem SM.row_addrs (m : SM) (ha : m.Adm) (i : Nat) (hi : (i : Int) < m.dim) :
    (List.range (m.rowLen i)).map (fun (t : Nat) => m.base + m.e.get_row_range_index_start (i : Int) m.dim m.offset
        + (t : Int) * m.e.get_row_range_index_stride (i : Int) m.dim m.offset)
      = (List.range (m.rowLen i)).map (fun (t : Nat) =>
          m.addr ((i : Int), m.e.get_row_range_j_start (i : Int) m.dim m.offset + (t : Int))) := by
  apply List.map_congr_left
  intro t ht
  exact m.row_addr ha i hi t (List.mem_range.mp ht)

theorem SM.canonAddrs_eq (m : SM) :
    m.canonPositions.map m.addr = (List.range m.dim.toNat).flatMap (fun (i : Nat) =>
      (List.range (m.rowLen i)).map (fun (t : Nat) =>
        m.addr ((i : Int), m.e.get_row_range_j_start (i : Int) m.dim m.offset + (t : Int)))) := by
  simp only [SM.canonPositions, List.map_flatMap, List.map_map]
  rfl

theorem flatMap_congr_range {α : Type} (n : Nat) (f g : Nat → List α) (h : ∀ i, i < n → f i = g i) :
    (List.range n).flatMap f = (List.range n).flatMap g :=
  List.flatMap_congr (fun i hi => h i (List.mem_range.mp hi))

/-- `A = rhs` (active expression): the recorded left-hand sides are the addresses of the written positions, in order -/
theorem SM.recExpr_lhs (m : SM) (ha : m.Adm) (rhs : AExpr) :
    (m.recExpr rhs).map Stmt.lhs = m.canonPositions.map m.addr := by
  rw [m.canonAddrs_eq]
  simp only [SM.recExpr, List.map_flatMap]
  apply flatMap_congr_range
  intro i hi
  have hi' : (i : Int) < m.dim := by omega
  simp only [SM.recRowOf]
  rw [m.recRow_lhs]
  have := m.row_addrs ha i hi'
  simp only [SM.rowLen] at this ⊢
  rw [← this]

/-- … and the operations of the statement of position (i,j) are those the right-hand side pushes at (i,j) -/
theorem SM.recExpr_ops (m : SM) (rhs : AExpr) (hr : rhs.AllAdm) :
    (m.recExpr rhs).map Stmt.ops = m.canonPositions.map (fun p => (rhs.setLocation p.1 p.2).grads 1) := by
  simp only [SM.recExpr, SM.canonPositions, List.map_flatMap, List.map_map]
  apply flatMap_congr_range
  intro i _
  simp only [SM.recRowOf]
  rw [m.recRow_ops rhs hr]
  rfl

/-- `A = c` (passive scalar): one statement without operations per written position, in order -/
theorem SM.recPassiveScalar_lhs (m : SM) (ha : m.Adm) :
    m.recPassiveScalar.map Stmt.lhs = m.canonPositions.map m.addr := by
  rw [m.canonAddrs_eq]
  simp only [SM.recPassiveScalar, List.map_flatMap]
  apply flatMap_congr_range
  intro i hi
  have hi' : (i : Int) < m.dim := by omega
  rw [SM.lhsRange_lhs]
  have := m.row_addrs ha i hi'
  simp only [SM.rowLen] at this ⊢
  rw [← this]

theorem SM.recPassiveScalar_ops (m : SM) : ∀ s ∈ m.recPassiveScalar, s.ops = [] := by
  intro s hs
  simp only [SM.recPassiveScalar, List.mem_flatMap] at hs
  obtain ⟨i, _, hs⟩ := hs
  exact SM.lhsRange_ops _ _ _ s hs

/-- `A = x` (active scalar): the stored values are those of the passive scalar assignment, and the tape is one
    statement `lhs = address of the written position, ops = [(1, gx)]` per written position, in order -/
theorem SM.assignActiveScalar_eq (m : SM) (ha : m.Adm) (val gx : Int) (d : Raw) :
    m.assignActiveScalar val gx d
      = (m.assign (.dense (fun _ _ => val)) d,
         m.canonPositions.map (fun p => (⟨m.addr p, [(1, gx)]⟩ : Stmt))) := by
  have key : ∀ (rows : List Nat), (∀ i ∈ rows, (i : Int) < m.dim) → ∀ (s : Raw × List Stmt),
      rows.foldl (m.activeScalarRowOf val gx) s
        = (rows.foldl (m.assignRowOf (.dense (fun _ _ => val))) s.1,
           s.2 ++ rows.flatMap (fun (i : Nat) => (List.range (m.rowLen i)).map (fun (t : Nat) =>
             (⟨m.addr ((i : Int), m.e.get_row_range_j_start (i : Int) m.dim m.offset + (t : Int)), [(1, gx)]⟩ : Stmt)))) := by
    intro rows
    induction rows with
    | nil => intro _ s; simp
    | cons i rest ih =>
      intro hrows s
      obtain ⟨d', tape⟩ := s
      have hi : (i : Int) < m.dim := hrows i (by simp)
      simp only [List.foldl_cons]
      rw [SM.activeScalarRowOf, m.activeScalarRow_eq, ih (fun i' hi' => hrows i' (by simp [hi']))]
      simp only [List.flatMap_cons, List.append_assoc, Prod.mk.injEq]
      refine ⟨rfl, ?_⟩
      congr 2
      apply List.map_congr_left
      intro t ht
      have := m.row_addr ha i hi t (by simpa [SM.rowLen] using List.mem_range.mp ht)
      simp only [Stmt.mk.injEq, and_true]
      exact this
  rw [SM.assignActiveScalar, key _ (by
    intro i hi
    have := List.mem_range.mp hi
    have := ha.dim_pos
    omega)]
  simp only [SM.assign, List.nil_append, SM.canonPositions, List.map_flatMap, List.map_map, Prod.mk.injEq, true_and]
  rfl

end Adept.Special
