import AdeptModel.Storage
/-!
Helper lemmas for C07 (storage life cycle).  Core Lean only.

`Inv` is the reference-count invariant of `AdeptModel/Storage.lean`; every micro-step of the transcribed code
(`add_link`+store, `remove_link`+`storage_ = 0`, allocation, swap, append/erase of an object without storage)
preserves it, and every operation is a sequence of such micro-steps.
-/
namespace Adept.Storage

/-! ### counting in lists -/

theorem countP_set_add {α} (p : α → Bool) : ∀ (l : List α) (i : Nat) (a x : α), l[i]? = some a →
    (l.set i x).countP p + (if p a then 1 else 0) = l.countP p + (if p x then 1 else 0) := by
  intro l
  induction l with
  | nil => intro i a x h; simp at h
  | cons b l ih =>
    intro i a x h
    cases i with
    | zero =>
      simp at h; subst h
      simp [List.countP_cons]; omega
    | succ i =>
      simp at h
      have := ih i a x h
      simp [List.countP_cons]; omega

theorem countP_eraseIdx_add {α} (p : α → Bool) : ∀ (l : List α) (i : Nat) (a : α), l[i]? = some a →
    (l.eraseIdx i).countP p + (if p a then 1 else 0) = l.countP p := by
  intro l
  induction l with
  | nil => intro i a h; simp at h
  | cons b l ih =>
    intro i a h
    cases i with
    | zero => simp at h; subst h; simp [List.countP_cons]
    | succ i =>
      simp at h
      have := ih i a h
      simp [List.countP_cons]; omega

theorem sum_map_set_add {α} (f : α → Nat) : ∀ (l : List α) (i : Nat) (a x : α), l[i]? = some a →
    ((l.set i x).map f).sum + f a = (l.map f).sum + f x := by
  intro l
  induction l with
  | nil => intro i a x h; simp at h
  | cons b l ih =>
    intro i a x h
    cases i with
    | zero =>
      simp at h; subst h
      simp [List.sum_cons]; omega
    | succ i =>
      simp at h
      have := ih i a x h
      simp only [List.set_cons_succ, List.map_cons, List.sum_cons]; omega

/-! ### referrers -/

/-- does the object hold a link to Storage σ -/
def holds (σ : Nat) (o : Obj) : Bool := o.storage == some σ

/-- 1 if the object holds a link to σ, else 0 -/
def wt (σ : Nat) (o : Obj) : Nat := if holds σ o then 1 else 0

/-- number of live array objects whose `storage_` is Storage σ -/
def refs (σ : Nat) (pool : List Obj) : Nat := pool.countP (holds σ)

theorem holds_iff {σ : Nat} {o : Obj} : holds σ o = true ↔ o.storage = some σ := by
  simp [holds]

theorem wt_none {σ : Nat} {o : Obj} (h : o.storage = none) : wt σ o = 0 := by
  simp [wt, holds, h]

theorem wt_eq {σ : Nat} {o : Obj} (h : o.storage = some σ) : wt σ o = 1 := by
  simp [wt, holds, h]

theorem wt_ne {σ τ : Nat} {o : Obj} (h : o.storage = some τ) (hne : τ ≠ σ) : wt σ o = 0 := by
  simp [wt, holds, h, hne]

theorem wt_le_one (σ : Nat) (o : Obj) : wt σ o ≤ 1 := by
  unfold wt; split <;> omega

theorem refs_set {σ : Nat} {p : List Obj} {i : Nat} {a x : Obj} (h : p[i]? = some a) :
    refs σ (p.set i x) + wt σ a = refs σ p + wt σ x :=
  countP_set_add (holds σ) p i a x h

theorem refs_erase {σ : Nat} {p : List Obj} {i : Nat} {a : Obj} (h : p[i]? = some a) :
    refs σ (p.eraseIdx i) + wt σ a = refs σ p :=
  countP_eraseIdx_add (holds σ) p i a h

theorem refs_push {σ : Nat} {p : List Obj} {o : Obj} : refs σ (p ++ [o]) = refs σ p + wt σ o := by
  simp [refs, wt, List.countP_append, List.countP_cons]

theorem refs_pos_of_mem {σ : Nat} {p : List Obj} {o : Obj} (hm : o ∈ p) (h : o.storage = some σ) :
    0 < refs σ p :=
  List.countP_pos_iff.mpr ⟨o, hm, holds_iff.mpr h⟩

theorem refs_nil (σ : Nat) : refs σ [] = 0 := rfl

/-! ### the invariant -/

/-- the view lies inside an allocation of `size` elements -/
def Inside (o : Obj) (size : Nat) : Prop := o.off + extentOf o ≤ size

/-- the invariant on the four components it mentions -/
structure InvC (h : List Sto) (p : List Obj) (c d : Nat) : Prop where
  /-- a Storage that has not been deleted has exactly as many links as live objects refer to it, at least one -/
  counts : ∀ σ r, h[σ]? = some r → r.freed = false → r.nLinks = refs σ p ∧ 0 < r.nLinks
  /-- an object holding a Storage holds one that has not been deleted, and its data lie inside it -/
  objs : ∀ o, o ∈ p → ∀ σ, o.storage = some σ →
    ∃ r, h[σ]? = some r ∧ r.freed = false ∧ o.region = .sto σ ∧ Inside o r.size
  /-- data pointers only point at allocations that have existed -/
  inScope : ∀ o, o ∈ p → ∀ σ, o.region = .sto σ → σ < h.length
  created : c = h.length
  deleted : d = h.countP (fun r => r.freed)

/-- gradients a Storage object holds registered: its `n_` while it is active and has not been deleted -/
def gradOf (r : Sto) : Nat := if r.active && !r.freed then r.size else 0

/-- gradients registered by all Storage objects that have not been deleted -/
def gradSum (h : List Sto) : Nat := (h.map gradOf).sum

/-- the invariant of the life-cycle model: reference counts (`core`) and gradient registration (`grad`) -/
structure Inv (s : St) : Prop where
  core : InvC s.heap s.pool s.created s.deleted
  /-- `n_gradients_registered()` is exactly what the live active Storage objects registered -/
  grad : s.gradReg = gradSum s.heap

theorem Inv.counts {s : St} (I : Inv s) :
    ∀ σ r, s.heap[σ]? = some r → r.freed = false → r.nLinks = refs σ s.pool ∧ 0 < r.nLinks := I.core.counts
theorem Inv.objs {s : St} (I : Inv s) : ∀ o, o ∈ s.pool → ∀ σ, o.storage = some σ →
    ∃ r, s.heap[σ]? = some r ∧ r.freed = false ∧ o.region = .sto σ ∧ Inside o r.size := I.core.objs
theorem Inv.inScope {s : St} (I : Inv s) : ∀ o, o ∈ s.pool → ∀ σ, o.region = .sto σ → σ < s.heap.length :=
  I.core.inScope
theorem Inv.created {s : St} (I : Inv s) : s.created = s.heap.length := I.core.created
theorem Inv.deleted {s : St} (I : Inv s) : s.deleted = s.heap.countP (fun r => r.freed) := I.core.deleted

theorem inv_init : Inv init := by
  refine ⟨⟨?_, ?_, ?_, rfl, rfl⟩, rfl⟩
  · intro σ r h; simp [init] at h
  · intro o h; simp [init] at h
  · intro o h; simp [init] at h

theorem gradSum_set {h : List Sto} {σ : Nat} {r r' : Sto} (hr : h[σ]? = some r) :
    gradSum (h.set σ r') + gradOf r = gradSum h + gradOf r' :=
  sum_map_set_add gradOf h σ r r' hr

theorem gradSum_set_same {h : List Sto} {σ : Nat} {r r' : Sto} (hr : h[σ]? = some r) (he : gradOf r' = gradOf r) :
    gradSum (h.set σ r') = gradSum h := by
  have := gradSum_set (r' := r') hr
  omega

theorem gradSum_append (h : List Sto) (r : Sto) : gradSum (h ++ [r]) = gradSum h + gradOf r := by
  simp [gradSum]

/-- a deleted Storage has no referrer -/
theorem InvC.freed_no_ref {h p c d} (I : InvC h p c d) {σ r} (hr : h[σ]? = some r) (hf : r.freed = true) :
    refs σ p = 0 := by
  apply Nat.eq_zero_of_not_pos
  intro hpos
  obtain ⟨o, hm, ho⟩ := List.countP_pos_iff.mp hpos
  obtain ⟨r', hr', hf', _⟩ := I.objs o hm σ (holds_iff.mp ho)
  rw [hr] at hr'; cases hr'; rw [hf] at hf'; cases hf'

/-! ### micro-steps -/

theorem invC_push {h p c d} (I : InvC h p c d) {o : Obj} (ho : o.storage = none)
    (hs : ∀ σ, o.region = .sto σ → σ < h.length) : InvC h (p ++ [o]) c d := by
  refine ⟨?_, ?_, ?_, I.created, I.deleted⟩
  · intro σ r hr hf
    rw [refs_push, wt_none ho]; exact I.counts σ r hr hf
  · intro o' hm σ hσ
    rcases List.mem_append.mp hm with hm | hm
    · exact I.objs o' hm σ hσ
    · simp at hm; subst hm; rw [ho] at hσ; cases hσ
  · intro o' hm σ hσ
    rcases List.mem_append.mp hm with hm | hm
    · exact I.inScope o' hm σ hσ
    · simp at hm; subst hm; exact hs σ hσ

theorem invC_set_none {h p c d} (I : InvC h p c d) {i : Nat} {a o : Obj} (ha : p[i]? = some a)
    (has : a.storage = none) (ho : o.storage = none)
    (hs : ∀ σ, o.region = .sto σ → σ < h.length) : InvC h (p.set i o) c d := by
  refine ⟨?_, ?_, ?_, I.created, I.deleted⟩
  · intro σ r hr hf
    have := refs_set (σ := σ) (x := o) ha
    rw [wt_none has, wt_none ho] at this
    have := I.counts σ r hr hf
    omega
  · intro o' hm σ hσ
    rcases List.mem_or_eq_of_mem_set hm with hm | hm
    · exact I.objs o' hm σ hσ
    · subst hm; rw [ho] at hσ; cases hσ
  · intro o' hm σ hσ
    rcases List.mem_or_eq_of_mem_set hm with hm | hm
    · exact I.inScope o' hm σ hσ
    · subst hm; exact hs σ hσ

/-- heap entry after `add_link` -/
def bump (r : Sto) : Sto := { nLinks := r.nLinks + 1, freed := false, size := r.size, active := r.active }

theorem getElem?_set_self' {α} {l : List α} {i : Nat} {a x : α} (h : l[i]? = some a) : (l.set i x)[i]? = some x := by
  have : i < l.length := by
    rcases List.getElem?_eq_some_iff.mp h with ⟨hlt, _⟩; exact hlt
  simp [this]

theorem getElem?_set_ne' {α} {l : List α} {i j : Nat} {x : α} (h : i ≠ j) : (l.set i x)[j]? = l[j]? := by
  simp [h]

theorem countP_freed_set_same {h : List Sto} {σ : Nat} {r r' : Sto} (hr : h[σ]? = some r) (hf : r'.freed = r.freed) :
    (h.set σ r').countP (fun r => r.freed) = h.countP (fun r => r.freed) := by
  have := countP_set_add (fun r : Sto => r.freed) h σ r r' hr
  simp only [hf] at this
  omega

theorem gradOf_bump {r : Sto} (hf : r.freed = false) : gradOf (bump r) = gradOf r := by
  simp [gradOf, bump, hf]

/-- shared core of the linking micro-steps: the heap entry of σ is bumped and the pool gains one referrer of σ -/
theorem invC_link_core {h p p' c d} (I : InvC h p c d) {σ : Nat} {r : Sto} {o : Obj}
    (hr : h[σ]? = some r) (hf : r.freed = false)
    (ho : o.storage = some σ) (hreg : o.region = .sto σ) (hin : Inside o r.size)
    (hrefs : ∀ τ, refs τ p' = refs τ p + wt τ o)
    (hmem : ∀ o', o' ∈ p' → o' ∈ p ∨ o' = o) : InvC (h.set σ (bump r)) p' c d := by
  have hlen : (h.set σ (bump r)).length = h.length := by simp
  refine ⟨?_, ?_, ?_, by rw [hlen]; exact I.created, ?_⟩
  · intro τ r' hr' hf'
    by_cases hτ : σ = τ
    · subst hτ
      rw [getElem?_set_self' hr] at hr'; cases hr'
      have := I.counts σ r hr hf
      rw [hrefs, wt_eq ho]; simp [bump]; omega
    · rw [getElem?_set_ne' hτ] at hr'
      have := I.counts τ r' hr' hf'
      rw [hrefs, wt_ne ho hτ]; simpa using this
  · intro o' hm τ hτ
    have key : ∀ (o'' : Obj) (τ' : Nat) (r'' : Sto), h[τ']? = some r'' → r''.freed = false → o''.region = .sto τ' →
        Inside o'' r''.size →
        ∃ r3, (h.set σ (bump r))[τ']? = some r3 ∧ r3.freed = false ∧ o''.region = .sto τ' ∧ Inside o'' r3.size := by
      intro o'' τ' r'' h1 h2 h3 h4
      by_cases hτ' : σ = τ'
      · subst hτ'
        rw [hr] at h1; cases h1
        exact ⟨bump r, getElem?_set_self' hr, by simp [bump], h3, by simpa [bump] using h4⟩
      · exact ⟨r'', by rw [getElem?_set_ne' hτ']; exact h1, h2, h3, h4⟩
    rcases hmem o' hm with hm | hm
    · obtain ⟨r'', h1, h2, h3, h4⟩ := I.objs o' hm τ hτ
      exact key o' τ r'' h1 h2 h3 h4
    · subst hm
      rw [ho] at hτ; cases hτ
      exact key o' σ r hr hf hreg hin
  · intro o' hm τ hτ
    rw [hlen]
    rcases hmem o' hm with hm | hm
    · exact I.inScope o' hm τ hτ
    · subst hm; rw [hreg] at hτ; cases hτ
      rcases List.getElem?_eq_some_iff.mp hr with ⟨hlt, _⟩; exact hlt
  · rw [countP_freed_set_same hr (by simp [bump, hf])]; exact I.deleted

theorem invC_link_push {h p c d} (I : InvC h p c d) {σ : Nat} {r : Sto} {o : Obj}
    (hr : h[σ]? = some r) (hf : r.freed = false)
    (ho : o.storage = some σ) (hreg : o.region = .sto σ) (hin : Inside o r.size) :
    InvC (h.set σ (bump r)) (p ++ [o]) c d :=
  invC_link_core I hr hf ho hreg hin (fun _ => refs_push)
    (fun o' hm => by
      rcases List.mem_append.mp hm with hm | hm
      · exact Or.inl hm
      · simp at hm; exact Or.inr hm)

theorem invC_link_set {h p c d} (I : InvC h p c d) {σ i : Nat} {r : Sto} {a o : Obj}
    (ha : p[i]? = some a) (has : a.storage = none)
    (hr : h[σ]? = some r) (hf : r.freed = false)
    (ho : o.storage = some σ) (hreg : o.region = .sto σ) (hin : Inside o r.size) :
    InvC (h.set σ (bump r)) (p.set i o) c d :=
  invC_link_core I hr hf ho hreg hin
    (fun τ => by have := refs_set (σ := τ) (x := o) ha; rw [wt_none has] at this; omega)
    (fun o' hm => List.mem_or_eq_of_mem_set hm)

/-- the object `a` with `storage_ = 0` -/
def dropSto (a : Obj) : Obj := { a with storage := none }

/-- `remove_link` + `storage_ = 0` on the object at position `i` -/
theorem invC_release {h p c d} (I : InvC h p c d) {i σ : Nat} {a : Obj}
    (ha : p[i]? = some a) (has : a.storage = some σ) :
    ∃ r, h[σ]? = some r ∧ r.freed = false ∧ 0 < r.nLinks ∧
      (r.nLinks - 1 = 0 →
        InvC (h.set σ { r with nLinks := 0, freed := true }) (p.set i (dropSto a)) c (d + 1)) ∧
      (r.nLinks - 1 ≠ 0 →
        InvC (h.set σ { nLinks := r.nLinks - 1, freed := false, size := r.size, active := r.active }) (p.set i (dropSto a)) c d) := by
  have ham : a ∈ p := List.mem_of_getElem? ha
  obtain ⟨r, hr, hf, hreg, hin⟩ := I.objs a ham σ has
  obtain ⟨hcnt, hpos⟩ := I.counts σ r hr hf
  have hdrop : (dropSto a).storage = none := rfl
  have hrefs : ∀ τ, refs τ (p.set i (dropSto a)) + wt τ a = refs τ p := by
    intro τ
    have := refs_set (σ := τ) (x := dropSto a) ha
    rw [wt_none hdrop] at this; omega
  have hmem : ∀ o', o' ∈ p.set i (dropSto a) → o' ∈ p ∨ o' = dropSto a :=
    fun o' hm => List.mem_or_eq_of_mem_set hm
  have hscoped : ∀ (h' : List Sto), h'.length = h.length →
      ∀ o', o' ∈ p.set i (dropSto a) → ∀ τ, o'.region = .sto τ → τ < h'.length := by
    intro h' hl o' hm τ hτ
    rw [hl]
    rcases hmem o' hm with hm | hm
    · exact I.inScope o' hm τ hτ
    · subst hm; exact I.inScope a ham τ hτ
  refine ⟨r, hr, hf, hpos, ?_, ?_⟩
  · intro h0
    have hone : r.nLinks = 1 := by omega
    refine ⟨?_, ?_, hscoped _ (by simp), by simpa using I.created, ?_⟩
    · intro τ r' hr' hf'
      by_cases hτ : σ = τ
      · subst hτ
        rw [getElem?_set_self' hr] at hr'; cases hr'; simp at hf'
      · rw [getElem?_set_ne' hτ] at hr'
        have := I.counts τ r' hr' hf'
        have h2 := hrefs τ
        rw [wt_ne has hτ] at h2
        omega
    · intro o' hm τ hτ
      have hne : σ ≠ τ := by
        intro e; subst e
        have := refs_pos_of_mem hm hτ
        have h2 := hrefs σ
        rw [wt_eq has] at h2
        omega
      rcases hmem o' hm with hm' | hm'
      · obtain ⟨r'', h1, h2, h3, h4⟩ := I.objs o' hm' τ hτ
        exact ⟨r'', by rw [getElem?_set_ne' hne]; exact h1, h2, h3, h4⟩
      · subst hm'; simp [dropSto] at hτ
    · have := countP_set_add (fun r : Sto => r.freed) h σ r { r with nLinks := 0, freed := true } hr
      simp [hf] at this
      have hd := I.deleted
      omega
  · intro h0
    refine ⟨?_, ?_, hscoped _ (by simp), by simpa using I.created, ?_⟩
    · intro τ r' hr' hf'
      by_cases hτ : σ = τ
      · subst hτ
        rw [getElem?_set_self' hr] at hr'; cases hr'
        have h2 := hrefs σ
        rw [wt_eq has] at h2
        simp; omega
      · rw [getElem?_set_ne' hτ] at hr'
        have := I.counts τ r' hr' hf'
        have h2 := hrefs τ
        rw [wt_ne has hτ] at h2
        omega
    · intro o' hm τ hτ
      rcases hmem o' hm with hm' | hm'
      · obtain ⟨r'', h1, h2, h3, h4⟩ := I.objs o' hm' τ hτ
        by_cases hτ' : σ = τ
        · subst hτ'
          rw [hr] at h1; cases h1
          exact ⟨_, getElem?_set_self' hr, by simp, h3, by simpa using h4⟩
        · exact ⟨r'', by rw [getElem?_set_ne' hτ']; exact h1, h2, h3, h4⟩
      · subst hm'; simp [dropSto] at hτ
    · rw [countP_freed_set_same hr (by simp [hf])]; exact I.deleted

theorem invC_erase_none {h p c d} (I : InvC h p c d) {i : Nat} {a : Obj} (ha : p[i]? = some a)
    (has : a.storage = none) : InvC h (p.eraseIdx i) c d := by
  refine ⟨?_, ?_, ?_, I.created, I.deleted⟩
  · intro σ r hr hf
    have := refs_erase (σ := σ) ha
    rw [wt_none has] at this
    have := I.counts σ r hr hf
    omega
  · intro o hm; exact I.objs o (List.mem_of_mem_eraseIdx hm)
  · intro o hm; exact I.inScope o (List.mem_of_mem_eraseIdx hm)

/-- a fresh allocation of `n` elements handed to the object at position `i` -/
theorem invC_alloc_set {h p c d} (I : InvC h p c d) {i n : Nat} {a o : Obj} {act : Bool} (ha : p[i]? = some a)
    (has : a.storage = none) (hos : o.storage = some h.length) (hor : o.region = .sto h.length)
    (hin : Inside o n) :
    InvC (h ++ [{ nLinks := 1, freed := false, size := n, active := act }]) (p.set i o) (c + 1) d := by
  have hmem : ∀ o', o' ∈ p.set i o → o' ∈ p ∨ o' = o :=
    fun o' hm => List.mem_or_eq_of_mem_set hm
  have hrefs : ∀ τ, refs τ (p.set i o) = refs τ p + wt τ o := by
    intro τ
    have := refs_set (σ := τ) (x := o) ha
    rw [wt_none has] at this; omega
  have hnew : refs h.length p = 0 := by
    apply Nat.eq_zero_of_not_pos
    intro hpos
    obtain ⟨o', hm, ho'⟩ := List.countP_pos_iff.mp hpos
    obtain ⟨r', hr', _⟩ := I.objs o' hm h.length (holds_iff.mp ho')
    rcases List.getElem?_eq_some_iff.mp hr' with ⟨hlt, _⟩
    omega
  refine ⟨?_, ?_, ?_, by simp [I.created], ?_⟩
  · intro τ r hr hf
    by_cases hτ : τ < h.length
    · rw [List.getElem?_append_left hτ] at hr
      have := I.counts τ r hr hf
      rw [hrefs, wt_ne hos (by omega)]; simpa using this
    · rw [List.getElem?_append_right (by omega)] at hr
      have : τ = h.length := by
        by_cases e : τ - h.length = 0
        · omega
        · have : ([{ nLinks := 1, freed := false, size := n, active := act }] : List Sto)[τ - h.length]? = none := by
            apply List.getElem?_eq_none; simp; omega
          rw [this] at hr; cases hr
      subst this
      simp at hr; subst hr
      rw [hrefs, hnew, wt_eq hos]; simp
  · intro o' hm τ hτ
    rcases hmem o' hm with hm' | hm'
    · obtain ⟨r'', h1, h2, h3, h4⟩ := I.objs o' hm' τ hτ
      rcases List.getElem?_eq_some_iff.mp h1 with ⟨hlt, _⟩
      exact ⟨r'', by rw [List.getElem?_append_left hlt]; exact h1, h2, h3, h4⟩
    · subst hm'
      rw [hos] at hτ; cases hτ
      exact ⟨{ nLinks := 1, freed := false, size := n, active := act }, by simp, rfl, hor, hin⟩
  · intro o' hm τ hτ
    simp
    rcases hmem o' hm with hm' | hm'
    · have := I.inScope o' hm' τ hτ; omega
    · subst hm'; rw [hor] at hτ; cases hτ; omega
  · simp [List.countP_append]; exact I.deleted

theorem invC_swap {h p c d} (I : InvC h p c d) {i j : Nat} {a b : Obj} (ha : p[i]? = some a) (hb : p[j]? = some b) :
    InvC h ((p.set i b).set j a) c d := by
  have hj : (p.set i b)[j]? = some b := by
    by_cases e : i = j
    · subst e; exact getElem?_set_self' ha
    · rw [getElem?_set_ne' e]; exact hb
  have hrefs : ∀ τ, refs τ ((p.set i b).set j a) = refs τ p := by
    intro τ
    have h1 := refs_set (σ := τ) (x := b) ha
    have h2 := refs_set (σ := τ) (x := a) hj
    omega
  have hmem : ∀ o', o' ∈ (p.set i b).set j a → o' ∈ p := by
    intro o' hm
    rcases List.mem_or_eq_of_mem_set hm with hm | hm
    · rcases List.mem_or_eq_of_mem_set hm with hm | hm
      · exact hm
      · subst hm; exact List.mem_of_getElem? hb
    · subst hm; exact List.mem_of_getElem? ha
  refine ⟨?_, ?_, ?_, I.created, I.deleted⟩
  · intro σ r hr hf; rw [hrefs]; exact I.counts σ r hr hf
  · intro o hm; exact I.objs o (hmem o hm)
  · intro o hm; exact I.inScope o (hmem o hm)

/-! ### geometry of fresh owners -/

theorem ownerOf_storage (k : Kind) (σ n0 n1 : Nat) : (ownerOf k σ n0 n1).storage = some σ := by
  cases k <;> rfl

theorem ownerOf_region (k : Kind) (σ n0 n1 : Nat) : (ownerOf k σ n0 n1).region = .sto σ := by
  cases k <;> rfl

theorem ownerOf_kind (k : Kind) (σ n0 n1 : Nat) : (ownerOf k σ n0 n1).kind = k := by
  cases k <;> rfl

/-- what `resize` allocates holds the whole packed object -/
theorem ownerOf_inside (k : Kind) (σ n0 n1 : Nat) : Inside (ownerOf k σ n0 n1) (dataVolume k n0 n1) := by
  unfold Inside
  cases k with
  | vec => simp only [ownerOf, extentOf, dataVolume]; by_cases h0 : n0 = 0 <;> simp [h0]; omega
  | avec => simp only [ownerOf, extentOf, dataVolume]; by_cases h0 : n0 = 0 <;> simp [h0]; omega
  | mat =>
    simp only [ownerOf, extentOf, dataVolume]
    by_cases hz : n0 = 0 ∨ n1 = 0
    · simp [hz]
    · simp only [hz, if_false]
      cases n0 with
      | zero => simp at hz
      | succ m => rw [Nat.succ_mul]; simp; omega
  | symm => simp only [ownerOf, extentOf, dataVolume]; by_cases h0 : n0 = 0 <;> simp [h0]
  | tri => simp only [ownerOf, extentOf, dataVolume]; by_cases h0 : n0 = 0 <;> simp [h0]
  | diag => simp only [ownerOf, extentOf, dataVolume]; by_cases h0 : n0 = 0 <;> simp [h0]
  | adiag => simp only [ownerOf, extentOf, dataVolume]; by_cases h0 : n0 = 0 <;> simp [h0]
  | asymm => simp only [ownerOf, extentOf, dataVolume]; by_cases h0 : n0 = 0 <;> simp [h0]
  | dvec => simp only [ownerOf, extentOf, dataVolume]; by_cases h0 : n0 = 0 <;> simp [h0]; omega

/-- an object without elements addresses nothing -/
theorem cells_of_len_zero {o : Obj} (h : o.len = 0) : cells o = [] := by
  unfold cells
  cases o.kind <;> simp [h]

/-! ### the operations preserve the invariant -/

/-- the new object `o` may be stored in state `s`: what it holds is alive and contains its data -/
structure Fits (s : St) (o : Obj) : Prop where
  scope : ∀ σ, o.region = .sto σ → σ < s.heap.length
  held : ∀ σ, o.storage = some σ → ∃ r, s.heap[σ]? = some r ∧ r.freed = false ∧ o.region = .sto σ ∧ Inside o r.size

theorem fits_of_mem {s : St} (I : Inv s) {o : Obj} (hm : o ∈ s.pool) : Fits s o :=
  ⟨I.inScope o hm, I.objs o hm⟩

theorem fits_blank (s : St) (k : Kind) : Fits s (blank k) :=
  ⟨(by intro σ h; simp [blank] at h), (by intro σ h; simp [blank] at h)⟩

theorem inv_of_same {s s' : St} (I : Inv s) (h1 : s'.heap = s.heap) (h2 : s'.pool = s.pool)
    (h3 : s'.created = s.created) (h4 : s'.deleted = s.deleted) (h5 : s'.gradReg = s.gradReg) : Inv s' := by
  refine ⟨?_, ?_⟩
  · rw [h1, h2, h3, h4]; exact I.core
  · rw [h5, h1]; exact I.grad

theorem dropSto_of_none {a : Obj} (h : a.storage = none) : dropSto a = a := by
  cases a; simp [dropSto] at *; exact h.symm

theorem list_set_same {α} {l : List α} {i : Nat} {a : α} (h : l[i]? = some a) : l.set i a = l := by
  rcases List.getElem?_eq_some_iff.mp h with ⟨hlt, he⟩
  subst he; exact List.set_getElem_self hlt

theorem getObj_ok {s : St} {i : Nat} {a : Obj} : getObj s i = .ok a ↔ s.pool[i]? = some a := by
  unfold getObj
  cases h : s.pool[i]? <;> simp

/-- the gradients of the Storage that `remove_link` deletes are unregistered, those of no other -/
theorem grad_after_free {s : St} {σ : Nat} {r : Sto} (hg : s.gradReg = gradSum s.heap) (hr : s.heap[σ]? = some r)
    (hf : r.freed = false) :
    (if r.active then s.gradReg - r.size else s.gradReg) = gradSum (s.heap.set σ { r with nLinks := 0, freed := true }) := by
  have := gradSum_set (r' := { r with nLinks := 0, freed := true }) hr
  cases hact : r.active <;> simp [gradOf, hf, hact] at this ⊢ <;> omega

/-- `if (storage_) { storage_->remove_link(); storage_ = 0; }` never faults under the invariant, and keeps it -/
theorem releaseAt_spec {s s' : St} {i : Nat} (I : Inv s) (h : releaseAt s i = .ok s') :
    Inv s' ∧ ∃ a, s.pool[i]? = some a ∧ s'.pool = s.pool.set i (dropSto a) ∧
      s'.heap.length = s.heap.length ∧ s'.smem = s.smem ∧ s'.exts = s.exts ∧
      (∀ τ r, s.heap[τ]? = some r → a.storage ≠ some τ → s'.heap[τ]? = some r) := by
  unfold releaseAt getObj at h
  cases ha : s.pool[i]? with
  | none => simp [ha] at h
  | some a =>
    simp only [ha] at h
    cases has : a.storage with
    | none =>
      simp only [has] at h
      cases h
      refine ⟨I, a, rfl, ?_, rfl, rfl, rfl, fun τ r hr _ => hr⟩
      rw [dropSto_of_none has, list_set_same ha]
    | some σ =>
      simp only [has] at h
      obtain ⟨r, hr, hf, hpos, h0, h1⟩ := invC_release I.core ha has
      have hne : r.nLinks ≠ 0 := by omega
      unfold removeLink at h
      simp only [hr, hf, hne] at h
      by_cases hz : r.nLinks - 1 = 0
      · simp [hz] at h
        subst h
        refine ⟨⟨h0 hz, grad_after_free I.grad hr hf⟩, a, rfl, rfl, by simp [setObj], rfl, rfl, ?_⟩
        intro τ r' hr' hne'
        have : σ ≠ τ := fun e => hne' (by rw [← e]; exact has)
        simp [setObj, getElem?_set_ne' this, hr']
      · simp [hz] at h
        subst h
        refine ⟨⟨h1 hz, ?_⟩, a, rfl, rfl, by simp [setObj], rfl, rfl, ?_⟩
        · have hg := I.grad
          have := gradSum_set_same (r' := { nLinks := r.nLinks - 1, freed := false, size := r.size, active := r.active }) hr (by simp [gradOf, hf])
          simp only [setObj]; rw [this]; exact hg
        · intro τ r' hr' hne'
          have : σ ≠ τ := fun e => hne' (by rw [← e]; exact has)
          simp [setObj, getElem?_set_ne' this, hr']

theorem clearAt_spec {s s' : St} {i : Nat} (I : Inv s) (h : clearAt s i = .ok s') :
    Inv s' ∧ ∃ a, s.pool[i]? = some a ∧ s'.pool = s.pool.set i (blank a.kind) ∧ s'.heap.length = s.heap.length ∧
      s'.smem = s.smem ∧ s'.exts = s.exts := by
  unfold clearAt at h
  cases hg : getObj s i with
  | error e => simp [hg] at h
  | ok a0 =>
    simp only [hg] at h
    cases hr : releaseAt s i with
    | error e => simp [hr] at h
    | ok s1 =>
      simp only [hr] at h
      cases h
      obtain ⟨I1, a, ha, hp, hl, hm, he, _⟩ := releaseAt_spec I hr
      have e0 : a0 = a := by
        have := getObj_ok.mp hg; rw [ha] at this; cases this; rfl
      subst e0
      have hi : s1.pool[i]? = some (dropSto a0) := by rw [hp]; exact getElem?_set_self' ha
      refine ⟨⟨?_, I1.grad⟩, a0, ha, ?_, hl, hm, he⟩
      · exact invC_set_none I1.core hi rfl rfl (by intro σ h; simp [blank] at h)
      · simp [setObj, hp]

theorem fillOwner_frame (s : St) (o : Obj) (v0 : Int) :
    (fillOwner s o v0).heap = s.heap ∧ (fillOwner s o v0).pool = s.pool ∧ (fillOwner s o v0).created = s.created ∧
    (fillOwner s o v0).deleted = s.deleted ∧ (fillOwner s o v0).gradReg = s.gradReg ∧
    (fillOwner s o v0).exts = s.exts := by
  unfold fillOwner
  split
  · exact ⟨rfl, rfl, rfl, rfl, rfl, rfl⟩
  · split <;> exact ⟨rfl, rfl, rfl, rfl, rfl, rfl⟩

theorem allocTick_frame (s : St) :
    (allocTick s).1.heap = s.heap ∧ (allocTick s).1.pool = s.pool ∧ (allocTick s).1.created = s.created ∧
    (allocTick s).1.deleted = s.deleted ∧ (allocTick s).1.gradReg = s.gradReg ∧ (allocTick s).1.smem = s.smem ∧
    (allocTick s).1.exts = s.exts := by
  unfold allocTick
  split <;> exact ⟨rfl, rfl, rfl, rfl, rfl, rfl, rfl⟩

theorem allocTick_inv {s : St} (I : Inv s) : Inv (allocTick s).1 := by
  obtain ⟨a1, a2, a3, a4, a5, _⟩ := allocTick_frame s
  exact inv_of_same I a1 a2 a3 a4 a5

theorem tickIf_inv {s : St} (c : Bool) (I : Inv s) : Inv (if c = true then (allocTick s).1 else s) := by
  split
  · exact allocTick_inv I
  · exact I

theorem tickIf_frame (s : St) (c : Bool) :
    (if c = true then (allocTick s).1 else s).heap = s.heap ∧ (if c = true then (allocTick s).1 else s).pool = s.pool := by
  split
  · exact ⟨(allocTick_frame s).1, (allocTick_frame s).2.1⟩
  · exact ⟨rfl, rfl⟩

theorem allocTick_failed (s : St) (h : (allocTick s).2 = true) : (allocTick s).1.thrown = true := by
  unfold allocTick at h ⊢
  split
  · rfl
  · rename_i hne; simp [hne] at h

/-- a failed allocation is reported, a successful one is not -/
theorem allocTick_thrown (s : St) (h : s.thrown = false) : (allocTick s).1.thrown = (allocTick s).2 := by
  unfold allocTick
  split <;> simp [h]

/-- the state `resize` leaves when it allocates: released, a new Storage, the packed owner stored, elements filled -/
def resized (s1 : St) (i : Nat) (k : Kind) (m0 m1 : Nat) (v0 : Int) : St :=
  fillOwner (setObj (newStorage s1 (dataVolume k m0 m1) k.active).1 i (ownerOf k s1.heap.length m0 m1))
    (ownerOf k s1.heap.length m0 m1) v0

/-- the three ways `resize` returns: cleared, allocated, or — its allocation having failed — released and empty -/
theorem resizeAt_cases {s s' : St} {i : Nat} {strict : Bool} {n0 n1 v0 : Int} (h : resizeAt s i strict n0 n1 v0 = .ok s') :
    ∃ a, s.pool[i]? = some a ∧
      ((resizeCheck a.kind strict n0 n1 = .ok none ∧ clearAt s i = .ok s') ∨
       (∃ m0 m1 s1, resizeCheck a.kind strict n0 n1 = .ok (some (m0, m1)) ∧ releaseAt s i = .ok s1 ∧
          (allocTick s1).2 = false ∧ s' = resized (allocTick s1).1 i a.kind m0 m1 v0) ∨
       (∃ m0 m1 s1, resizeCheck a.kind strict n0 n1 = .ok (some (m0, m1)) ∧ releaseAt s i = .ok s1 ∧
          (allocTick s1).2 = true ∧ s' = setObj (allocTick s1).1 i (blank a.kind))) := by
  unfold resizeAt at h
  cases hg : getObj s i with
  | error e => simp [hg] at h
  | ok a0 =>
    simp only [hg] at h
    refine ⟨a0, getObj_ok.mp hg, ?_⟩
    cases hc : resizeCheck a0.kind strict n0 n1 with
    | error e => simp [hc] at h
    | ok r =>
      cases r with
      | none => simp only [hc] at h; exact Or.inl ⟨rfl, h⟩
      | some pr =>
        obtain ⟨m0, m1⟩ := pr
        simp only [hc] at h
        cases hr : releaseAt s i with
        | error e => simp [hr] at h
        | ok s1 =>
          simp only [hr] at h
          cases ht : (allocTick s1).2 with
          | true => simp only [ht, if_true] at h; cases h; exact Or.inr (Or.inr ⟨m0, m1, s1, rfl, rfl, ht, rfl⟩)
          | false =>
            simp only [ht] at h
            cases h
            exact Or.inr (Or.inl ⟨m0, m1, s1, rfl, rfl, ht, rfl⟩)

theorem resized_inv {s1 : St} {i : Nat} {a : Obj} (I1 : Inv s1) (hi : s1.pool[i]? = some a) (has : a.storage = none)
    (k : Kind) (m0 m1 : Nat) (v0 : Int) : Inv (resized s1 i k m0 m1 v0) := by
  obtain ⟨f1, f2, f3, f4, f5, _⟩ :=
    fillOwner_frame (setObj (newStorage s1 (dataVolume k m0 m1) k.active).1 i (ownerOf k s1.heap.length m0 m1))
      (ownerOf k s1.heap.length m0 m1) v0
  unfold resized
  refine ⟨?_, ?_⟩
  · rw [f1, f2, f3, f4]
    exact invC_alloc_set I1.core hi has (ownerOf_storage ..) (ownerOf_region ..) (ownerOf_inside ..)
  · rw [f5, f1]
    have hg := I1.grad
    simp only [setObj, newStorage, gradSum_append, gradOf]
    cases k.active <;> simp <;> omega

theorem resizeAt_inv {s s' : St} {i : Nat} {strict : Bool} {n0 n1 v0 : Int} (I : Inv s)
    (h : resizeAt s i strict n0 n1 v0 = .ok s') : Inv s' := by
  obtain ⟨a, ha, hc | ⟨m0, m1, s1, _, hr, _, rfl⟩ | ⟨m0, m1, s1, _, hr, _, rfl⟩⟩ := resizeAt_cases h
  · exact (clearAt_spec I hc.2).1
  · obtain ⟨I1, a', ha', hp, _⟩ := releaseAt_spec I hr
    have hi : (allocTick s1).1.pool[i]? = some (dropSto a') := by
      rw [(allocTick_frame s1).2.1, hp]; exact getElem?_set_self' ha'
    exact resized_inv (allocTick_inv I1) hi rfl _ _ _ _
  · obtain ⟨I1, a', ha', hp, _⟩ := releaseAt_spec I hr
    rw [ha] at ha'; cases ha'
    have I2 := allocTick_inv I1
    have hi : (allocTick s1).1.pool[i]? = some (dropSto a) := by
      rw [(allocTick_frame s1).2.1, hp]; exact getElem?_set_self' ha
    exact ⟨invC_set_none I2.core hi rfl rfl (by intro σ h; simp [blank] at h), I2.grad⟩

theorem destroyAt_inv {s s' : St} {i : Nat} (I : Inv s) (h : destroyAt s i = .ok s') : Inv s' := by
  unfold destroyAt at h
  cases hr : releaseAt s i with
  | error e => simp [hr] at h
  | ok s1 =>
    simp only [hr] at h
    cases h
    obtain ⟨I1, a, ha, hp, _⟩ := releaseAt_spec I hr
    have hi : s1.pool[i]? = some (dropSto a) := by rw [hp]; exact getElem?_set_self' ha
    exact ⟨invC_erase_none I1.core hi rfl, I1.grad⟩

theorem push_inv {s : St} (I : Inv s) {o : Obj} (ho : o.storage = none) (hs : ∀ σ, o.region = .sto σ → σ < s.heap.length) :
    Inv (push s o) := ⟨invC_push I.core ho hs, I.grad⟩

theorem push_blank_inv {s : St} (I : Inv s) (k : Kind) : Inv (push s (blank k)) :=
  push_inv I rfl (by intro σ h; simp [blank] at h)

theorem removeLink_thrown {s s' : St} {σ : Nat} (h : removeLink s σ = .ok s') : s'.thrown = s.thrown := by
  unfold removeLink at h
  repeat' split at h
  all_goals first | (cases h; rfl) | cases h

theorem releaseAt_thrown {s s' : St} {i : Nat} (h : releaseAt s i = .ok s') : s'.thrown = s.thrown := by
  unfold releaseAt at h
  split at h
  · cases h
  · split at h
    · cases h; rfl
    · split at h
      · cases h
      · rename_i s1 hr
        cases h
        exact (removeLink_thrown hr : s1.thrown = s.thrown)

theorem resized_thrown (s1 : St) (i : Nat) (k : Kind) (m0 m1 : Nat) (v0 : Int) :
    (resized s1 i k m0 m1 v0).thrown = s1.thrown := by
  unfold resized fillOwner
  split
  · rfl
  · split <;> rfl

/-- a constructor whose allocation failed: the object that was being built (it holds nothing) is gone -/
theorem erase_thrown_inv {s0 s1 : St} {i : Nat} {strict : Bool} {n0 n1 v0 : Int} (I0 : Inv s0)
    (h : resizeAt s0 i strict n0 n1 v0 = .ok s1) (ht : s1.thrown = true) (h0 : s0.thrown = false) :
    Inv { s1 with pool := s1.pool.eraseIdx i } := by
  have I1 := resizeAt_inv I0 h
  obtain ⟨a, ha, hc | ⟨m0, m1, s2, _, hr, hf, rfl⟩ | ⟨m0, m1, s2, _, hr, _, rfl⟩⟩ := resizeAt_cases h
  · -- cleared: the object is blank
    obtain ⟨_, a', ha', hp, _⟩ := clearAt_spec I0 hc.2
    have hi : s1.pool[i]? = some (blank a'.kind) := by rw [hp]; exact getElem?_set_self' ha'
    exact ⟨invC_erase_none I1.core hi rfl, I1.grad⟩
  · -- allocated: then nothing was thrown
    exfalso
    rw [resized_thrown, allocTick_thrown s2 (by rw [releaseAt_thrown hr]; exact h0), hf] at ht
    cases ht
  · have hi : (setObj (allocTick s2).1 i (blank a.kind)).pool[i]? = some (blank a.kind) := by
      obtain ⟨_, a', ha', hp, _⟩ := releaseAt_spec I0 hr
      simp only [setObj]
      rw [(allocTick_frame s2).2.1, hp]
      exact getElem?_set_self' (getElem?_set_self' ha')
    exact ⟨invC_erase_none I1.core hi rfl, I1.grad⟩

theorem newAt_inv {s s' : St} {k : Kind} {n0 n1 v0 : Int} (I : Inv s) (hs : s.thrown = false)
    (h : newAt s k n0 n1 v0 = .ok s') : Inv s' := by
  unfold newAt at h
  cases hr : resizeAt (push s (blank k)) s.pool.length (!k.isArray) n0 n1 v0 with
  | error e => simp [hr] at h
  | ok s1 =>
    simp only [hr] at h
    split at h
    · rename_i ht
      cases h
      exact erase_thrown_inv (push_blank_inv I k) hr ht hs
    · cases h; exact resizeAt_inv (push_blank_inv I k) hr

theorem newExternalAt_inv {s s' : St} {x off : Nat} {n : Int} {dm : Bool} (I : Inv s) (h : newExternalAt s x off n dm = .ok s') : Inv s' := by
  unfold newExternalAt at h
  cases he : s.exts[x]? with
  | none => simp [he] at h
  | some e =>
    simp only [he] at h
    split at h
    · cases h
    · split at h
      · cases h; exact push_inv I rfl (by intro σ h; cases h)
      · cases h

/-- `add_link` + append of an object that fits -/
theorem linkNew_inv {s s' : St} {o : Obj} (I : Inv s) (F : Fits s o) (h : linkNew s o = .ok s') : Inv s' := by
  unfold linkNew at h
  cases ho : o.storage with
  | none =>
    simp only [ho] at h; cases h
    exact push_inv I ho F.scope
  | some σ =>
    simp only [ho] at h
    obtain ⟨r, hr, hf, hreg, hin⟩ := F.held σ ho
    unfold addLink at h
    simp only [hr, hf] at h
    simp at h; subst h
    refine ⟨invC_link_push I.core hr hf ho hreg hin, ?_⟩
    have := gradSum_set_same (r' := bump r) hr (gradOf_bump hf)
    simp only [push]
    exact I.grad.trans this.symm

theorem copyCtorAt_inv {s s' : St} {j : Nat} (I : Inv s) (h : copyCtorAt s j = .ok s') : Inv s' := by
  unfold copyCtorAt getObj at h
  cases hb : s.pool[j]? with
  | none => simp [hb] at h
  | some b =>
    simp only [hb] at h
    exact linkNew_inv I (fits_of_mem I (List.mem_of_getElem? hb)) h

theorem softLinkAt_inv {s s' : St} {j : Nat} (I : Inv s) (h : softLinkAt s j = .ok s') : Inv s' := by
  unfold softLinkAt getObj at h
  cases hb : s.pool[j]? with
  | none => simp [hb] at h
  | some b =>
    simp only [hb] at h; cases h
    exact push_inv I rfl (I.inScope b (List.mem_of_getElem? hb))

/-- the object the view constructor builds from its source `b` -/
abbrev viewObj (b : Obj) (v : ViewSpec) : Obj := viewObject b v

/-- a view constructor that completes has appended `viewObj b v` through `linkNew`, and that view lies inside
    the extent of its source -/
theorem viewCtor_ok {s s' : St} {b : Obj} {v : ViewSpec} (h : viewCtor s b v = .ok s') :
    linkNew s (viewObj b v) = .ok s' ∧ v.delta.toNat + extentOf (viewObj b v) ≤ extentOf b := by
  unfold viewCtor at h
  split at h
  · cases h
  · split at h
    · cases h
    · split at h
      · cases h
      · simp only at h
        split at h
        · rename_i hc
          exact ⟨h, hc⟩
        · cases h

/-- a view that stays within the extent of its source stays within the source's allocation -/
theorem fits_view {s : St} (I : Inv s) {b : Obj} (hm : b ∈ s.pool) {v : ViewSpec}
    (hc : v.delta.toNat + extentOf (viewObj b v) ≤ extentOf b) : Fits s (viewObj b v) := by
  refine ⟨?_, ?_⟩
  · intro σ hσ; exact I.inScope b hm σ hσ
  · intro σ hσ
    obtain ⟨r, hr, hf, hreg, hin⟩ := I.objs b hm σ hσ
    refine ⟨r, hr, hf, hreg, ?_⟩
    unfold Inside at hin ⊢
    have : (viewObj b v).off = b.off + v.delta.toNat := rfl
    omega

theorem viewAt_inv {s s' : St} {j : Nat} {f : ViewFn} (I : Inv s) (h : viewAt s j f = .ok s') : Inv s' := by
  unfold viewAt getObj at h
  cases hb : s.pool[j]? with
  | none => simp [hb] at h
  | some b =>
    simp only [hb] at h
    cases he : evalView b f with
    | error e => simp [he] at h
    | ok r =>
      cases r with
      | empty k => simp only [he] at h; cases h; exact push_blank_inv I k
      | ctor v =>
        simp only [he] at h
        obtain ⟨h1, hc⟩ := viewCtor_ok h
        exact linkNew_inv I (fits_view I (List.mem_of_getElem? hb) hc) h1

theorem linkAt_inv {s s' : St} {i j : Nat} (I : Inv s) (h : linkAt s i j = .ok s') : Inv s' := by
  unfold linkAt at h
  cases hgi : getObj s i with
  | error e => simp [hgi] at h
  | ok a0 =>
    cases hgj : getObj s j with
    | error e => simp [hgi, hgj] at h
    | ok b =>
      simp only [hgi, hgj] at h
      split at h
      · cases h
      · split at h
        · cases h
        · cases hc : clearAt s i with
          | error e => simp [hc] at h
          | ok s1 =>
            simp only [hc] at h
            obtain ⟨I1, a, ha, hp, _⟩ := clearAt_spec I hc
            have hi : s1.pool[i]? = some (blank a.kind) := by rw [hp]; exact getElem?_set_self' ha
            unfold getObj at h
            cases hb1 : s1.pool[j]? with
            | none => simp [hb1] at h
            | some b1 =>
              simp only [hb1] at h
              have F := fits_of_mem I1 (List.mem_of_getElem? hb1)
              cases hs : b1.storage with
              | none =>
                simp only [hs] at h; cases h
                exact ⟨invC_set_none I1.core hi rfl hs F.scope, I1.grad⟩
              | some σ =>
                simp only [hs] at h
                obtain ⟨r, hr, hf, hreg, hin⟩ := F.held σ hs
                unfold addLink at h
                simp only [hr, hf] at h
                simp at h; subst h
                refine ⟨invC_link_set I1.core hi rfl hr hf hs hreg hin, ?_⟩
                have := gradSum_set_same (r' := bump r) hr (gradOf_bump hf)
                simp only [setObj]
                exact I1.grad.trans this.symm

theorem writeCell_frame {s s' : St} {r : Region} {c : Nat} {v : Int} (h : writeCell s r c v = .ok s') :
    s'.heap = s.heap ∧ s'.pool = s.pool ∧ s'.created = s.created ∧ s'.deleted = s.deleted ∧ s'.gradReg = s.gradReg := by
  unfold writeCell at h
  split at h
  · cases h
  · split at h
    · split at h
      · cases h
      · split at h
        · cases h; exact ⟨rfl, rfl, rfl, rfl, rfl⟩
        · cases h
    · cases h
  · split at h
    · split at h
      · cases h; exact ⟨rfl, rfl, rfl, rfl, rfl⟩
      · cases h
    · cases h

theorem writeCells_frame {r : Region} : ∀ (cs : List Nat) (vs : List Int) (s s' : St), writeCells s r cs vs = .ok s' →
    s'.heap = s.heap ∧ s'.pool = s.pool ∧ s'.created = s.created ∧ s'.deleted = s.deleted ∧ s'.gradReg = s.gradReg := by
  intro cs
  induction cs with
  | nil => intro vs s s' h; simp [writeCells] at h; subst h; exact ⟨rfl, rfl, rfl, rfl, rfl⟩
  | cons c cs ih =>
    intro vs s s' h
    cases vs with
    | nil => simp [writeCells] at h; subst h; exact ⟨rfl, rfl, rfl, rfl, rfl⟩
    | cons v vs =>
      unfold writeCells at h
      cases hw : writeCell s r c v with
      | error e => simp [hw] at h
      | ok s1 =>
        simp only [hw] at h
        obtain ⟨a1, a2, a3, a4, a5⟩ := writeCell_frame hw
        obtain ⟨b1, b2, b3, b4, b5⟩ := ih vs s1 s' h
        exact ⟨b1.trans a1, b2.trans a2, b3.trans a3, b4.trans a4, b5.trans a5⟩

theorem assignCopyAt_inv {s s' : St} {i j : Nat} (I : Inv s) (h : assignCopyAt s i j = .ok s') : Inv s' := by
  unfold assignCopyAt at h
  cases hgi : getObj s i with
  | error e => simp [hgi] at h
  | ok a =>
    cases hgj : getObj s j with
    | error e => simp [hgi, hgj] at h
    | ok b =>
      simp only [hgi, hgj] at h
      split at h
      · cases h
      · split at h
        · cases h
        · rename_i s1 hs1
          have I1 : Inv s1 := by
            split at hs1
            · exact resizeAt_inv I hs1
            · split at hs1
              · cases hs1
              · cases hs1; exact I
          split at h
          · cases h
          · cases h
          · split at h
            · cases h; exact I1
            · split at h
              · cases h; exact I1
              · split at h
                · cases h; exact allocTick_inv I1
                · split at h
                  · cases h
                  · obtain ⟨a1, a2, a3, a4, a5⟩ := writeCells_frame _ _ _ _ h
                    exact inv_of_same (tickIf_inv _ I1) a1 a2 a3 a4 a5

theorem swapObjs_inv {s : St} {i j : Nat} {a b : Obj} (I : Inv s) (ha : s.pool[i]? = some a) (hb : s.pool[j]? = some b) :
    Inv (swapObjs s i j a b) := ⟨invC_swap I.core ha hb, I.grad⟩

theorem assignMoveAt_inv {s s' : St} {i j : Nat} (I : Inv s) (h : assignMoveAt s i j = .ok s') : Inv s' := by
  unfold assignMoveAt at h
  cases hgi : getObj s i with
  | error e => simp [hgi] at h
  | ok a =>
    cases hgj : getObj s j with
    | error e => simp [hgi, hgj] at h
    | ok b =>
      simp only [hgi, hgj] at h
      have ha := getObj_ok.mp hgi
      have hb := getObj_ok.mp hgj
      split at h
      · cases h
      · split at h
        · exact assignCopyAt_inv I h
        · split at h
          · cases h
          · exact assignCopyAt_inv I h
          · split at h
            · cases h
            · exact assignCopyAt_inv I h
            · split at h
              · cases h; exact swapObjs_inv I ha hb
              · cases h

theorem swapAt_inv {s s' : St} {i j : Nat} (I : Inv s) (h : swapAt s i j = .ok s') : Inv s' := by
  unfold swapAt at h
  cases hgi : getObj s i with
  | error e => simp [hgi] at h
  | ok a =>
    cases hgj : getObj s j with
    | error e => simp [hgi, hgj] at h
    | ok b =>
      simp only [hgi, hgj] at h
      split at h
      · cases h
      · cases h; exact swapObjs_inv I (getObj_ok.mp hgi) (getObj_ok.mp hgj)

theorem newSumAt_inv {s s' : St} {j1 j2 : Nat} (I : Inv s) (hs : s.thrown = false)
    (h : newSumAt s j1 j2 = .ok s') : Inv s' := by
  unfold newSumAt at h
  cases hg1 : getObj s j1 with
  | error e => simp [hg1] at h
  | ok b =>
    cases hg2 : getObj s j2 with
    | error e => simp [hg1, hg2] at h
    | ok c =>
      simp only [hg1, hg2] at h
      split at h
      · cases h
      · split at h
        · cases h
        · split at h
          · cases h
          · cases h
          · split at h
            · cases h
            · rename_i s1 hs1
              have I1 : Inv s1 := resizeAt_inv (push_blank_inv I b.kind) hs1
              split at h
              · rename_i ht
                cases h
                exact erase_thrown_inv (push_blank_inv I b.kind) hs1 ht hs
              · split at h
                · cases h
                · obtain ⟨a1, a2, a3, a4, a5⟩ := writeCells_frame _ _ _ _ h
                  exact inv_of_same I1 a1 a2 a3 a4 a5

theorem newListAt_inv {s s' : St} {k : Kind} {n0 n1 : Nat} {v0 : Int} (I : Inv s) (hs : s.thrown = false)
    (h : newListAt s k n0 n1 v0 = .ok s') : Inv s' := by
  unfold newListAt at h
  split at h
  · cases h
  · exact newAt_inv I hs h

theorem assignListAt_inv {s s' : St} {i n : Nat} {v0 : Int} (I : Inv s)
    (h : assignListAt s i n v0 = .ok s') : Inv s' := by
  unfold assignListAt at h
  cases hg : getObj s i with
  | error e => simp [hg] at h
  | ok a =>
    simp only [hg] at h
    split at h
    · cases h
    · split at h
      · exact resizeAt_inv I h
      · split at h
        · cases h
        · obtain ⟨a1, a2, a3, a4, a5⟩ := writeCells_frame _ _ _ _ h
          exact inv_of_same I a1 a2 a3 a4 a5

theorem writeAt_inv {s s' : St} {i k : Nat} {v : Int} (I : Inv s) (h : writeAt s i k v = .ok s') : Inv s' := by
  unfold writeAt at h
  cases hg : getObj s i with
  | error e => simp [hg] at h
  | ok a =>
    simp only [hg] at h
    split at h
    · obtain ⟨a1, a2, a3, a4, a5⟩ := writeCell_frame h
      exact inv_of_same I a1 a2 a3 a4 a5
    · cases h

theorem xwriteAt_inv {s s' : St} {x k : Nat} {v : Int} (I : Inv s) (h : xwriteAt s x k v = .ok s') : Inv s' := by
  unfold xwriteAt at h
  split at h
  · cases h
  · split at h
    · cases h; exact ⟨I.core, I.grad⟩
    · cases h

theorem xendAt_inv {s s' : St} {x : Nat} (I : Inv s) (h : xendAt s x = .ok s') : Inv s' := by
  unfold xendAt at h
  split at h
  · cases h
  · split at h
    · cases h; exact ⟨I.core, I.grad⟩
    · cases h

theorem inv_stepCore {s s' : St} (op : Op) (I : Inv s) (hs : s.thrown = false) (h : stepCore s op = .ok s') : Inv s' := by
  cases op with
  | xnew n v0 => simp [stepCore] at h; subst h; exact ⟨I.core, I.grad⟩
  | xwrite x k v => exact xwriteAt_inv I h
  | xend x => exact xendAt_inv I h
  | new k n0 n1 v0 => exact newAt_inv I hs h
  | newEmpty k => simp [stepCore, newEmptyAt] at h; subst h; exact push_blank_inv I k
  | newExternal x off n dm => exact newExternalAt_inv I h
  | copyCtor j => exact copyCtorAt_inv I h
  | view j f => exact viewAt_inv I h
  | softLink j => exact softLinkAt_inv I h
  | link i j => exact linkAt_inv I h
  | assignCopy i j => exact assignCopyAt_inv I h
  | assignMove i j => exact assignMoveAt_inv I h
  | resize i strict n0 n1 v0 => exact resizeAt_inv I h
  | clear i => exact (clearAt_spec I h).1
  | destroy i => exact destroyAt_inv I h
  | write i k v => exact writeAt_inv I h
  | swap i j => exact swapAt_inv I h
  | newSum j1 j2 => exact newSumAt_inv I hs h
  | newList k n0 n1 v0 => exact newListAt_inv I hs h
  | assignList i n v0 => exact assignListAt_inv I h
  | failNext k => simp [stepCore] at h; subst h; exact ⟨I.core, I.grad⟩

/-- every operation that returns — normally, or by throwing `std::bad_alloc` out of a failed allocation — preserves
    the invariant -/
theorem inv_step {s s' : St} (op : Op) (I : Inv s) (h : step s op = .ok s') : Inv s' :=
  inv_stepCore op (s := { s with thrown := false }) ⟨I.core, I.grad⟩ rfl h

theorem inv_stepOrStay {s : St} (op : Op) (I : Inv s) : Inv (stepOrStay s op) := by
  unfold stepOrStay
  cases h : step s op with
  | error e => exact I
  | ok s' => exact inv_step op I h

theorem inv_run (ops : List Op) {s : St} (I : Inv s) : Inv (run s ops) := by
  induction ops generalizing s with
  | nil => exact I
  | cons op ops ih => exact ih (inv_stepOrStay op I)

/-! ### release happens once; nothing leaks -/

/-- a deleted Storage can be neither released nor linked again: in the model that is a fault, not a second delete -/
theorem freed_is_final {s : St} {σ : Nat} {r : Sto} (hr : s.heap[σ]? = some r) (hf : r.freed = true) :
    removeLink s σ = .error .fault ∧ addLink s σ = .error .fault ∧ nLinksOf s σ = .error .fault := by
  simp [removeLink, addLink, nLinksOf, hr, hf]

/-- `remove_link` at zero links throws and changes nothing -/
theorem removeLink_at_zero {s : St} {σ : Nat} {r : Sto} (hr : s.heap[σ]? = some r) (hf : r.freed = false)
    (h0 : r.nLinks = 0) : removeLink s σ = .error .linkUnderflow := by
  simp [removeLink, hr, hf, h0]

/-- `remove_link` deletes exactly when it takes the last link, counts the deletion once, and exactly then (and only
    for an active Storage) its gradients are unregistered -/
theorem removeLink_deletes_iff {s s' : St} {σ : Nat} {r : Sto} (hr : s.heap[σ]? = some r)
    (h : removeLink s σ = .ok s') :
    r.freed = false ∧ 0 < r.nLinks ∧
    ((r.nLinks = 1 ∧ s'.heap[σ]? = some { nLinks := 0, freed := true, size := r.size, active := r.active } ∧
        s'.deleted = s.deleted + 1 ∧ s'.gradReg = (if r.active then s.gradReg - r.size else s.gradReg)) ∨
     (1 < r.nLinks ∧ s'.heap[σ]? = some { nLinks := r.nLinks - 1, freed := false, size := r.size, active := r.active } ∧
        s'.deleted = s.deleted ∧ s'.gradReg = s.gradReg)) := by
  unfold removeLink at h
  simp only [hr] at h
  cases hf : r.freed with
  | true => simp [hf] at h
  | false =>
    simp only [hf] at h
    by_cases h0 : r.nLinks = 0
    · simp [h0] at h
    · simp only [h0, if_false] at h
      by_cases h1 : r.nLinks - 1 = 0
      · simp [h1] at h; subst h
        refine ⟨rfl, by omega, Or.inl ⟨by omega, ?_, rfl, rfl⟩⟩
        exact getElem?_set_self' hr
      · simp [h1] at h; subst h
        refine ⟨rfl, by omega, Or.inr ⟨by omega, ?_, rfl, rfl⟩⟩
        exact getElem?_set_self' hr

/-- under the invariant `n_storage_objects()` is the number of Storage objects not yet deleted -/
theorem nStorageObjects_eq {s : St} (I : Inv s) :
    nStorageObjects s = (s.heap.countP (fun r => !r.freed) : Nat) := by
  have h1 := I.created
  have h2 := I.deleted
  have h3 := List.length_eq_countP_add_countP (fun r : Sto => r.freed) (l := s.heap)
  have h4 : s.heap.countP (fun a : Sto => decide ¬a.freed = true) = s.heap.countP (fun r => !r.freed) := by
    congr 1; funext r; cases r.freed <;> simp
  unfold nStorageObjects
  omega

theorem gradSum_all_freed : ∀ (h : List Sto), (∀ r, r ∈ h → r.freed = true) → gradSum h = 0 := by
  intro h
  induction h with
  | nil => intro _; rfl
  | cons r h ih =>
    intro hall
    have h1 : gradOf r = 0 := by simp [gradOf, hall r (by simp)]
    have h2 := ih (fun r' hm => hall r' (by simp [hm]))
    simp only [gradSum, List.map_cons, List.sum_cons] at h2 ⊢
    omega

/-- empty pool ⇒ every Storage ever created has been deleted ⇒ created − deleted = 0, no gradient stays registered -/
theorem no_leak {s : St} (I : Inv s) (hp : s.pool = []) :
    (∀ (σ : Nat) (r : Sto), s.heap[σ]? = some r → r.freed = true) ∧ nStorageObjects s = 0 ∧ s.gradReg = 0 := by
  have hall : ∀ (σ : Nat) (r : Sto), s.heap[σ]? = some r → r.freed = true := by
    intro σ r hr
    cases hf : r.freed with
    | true => rfl
    | false =>
      have := I.counts σ r hr hf
      rw [hp, refs_nil] at this
      omega
  have hmem : ∀ r, r ∈ s.heap → r.freed = true := by
    intro r hm
    obtain ⟨σ, hσ⟩ := List.mem_iff_getElem?.mp hm
    exact hall σ r hσ
  refine ⟨hall, ?_, ?_⟩
  · have hc : s.heap.countP (fun r => r.freed) = s.heap.length := List.countP_eq_length.mpr hmem
    have h1 := I.created
    have h2 := I.deleted
    unfold nStorageObjects
    omega
  · rw [I.grad]; exact gradSum_all_freed _ hmem

/-! ### who shares with whom -/

/-- heap after a linking constructor / `link`: the source's Storage gains exactly one link, nothing else moves -/
def heapLinked (s s' : St) (o : Obj) : Prop :=
  match o.storage with
  | none => s'.heap = s.heap
  | some σ => ∃ r, s.heap[σ]? = some r ∧ r.freed = false ∧ s'.heap = s.heap.set σ (bump r)

theorem linkNew_spec {s s' : St} {o : Obj} (h : linkNew s o = .ok s') :
    s'.pool = s.pool ++ [o] ∧ heapLinked s s' o ∧ s'.smem = s.smem ∧ s'.exts = s.exts := by
  unfold linkNew at h
  unfold heapLinked
  cases ho : o.storage with
  | none => simp only [ho] at h; cases h; exact ⟨rfl, rfl, rfl, rfl⟩
  | some σ =>
    simp only [ho] at h
    unfold addLink at h
    cases hr : s.heap[σ]? with
    | none => simp [hr] at h
    | some r =>
      simp only [hr] at h
      cases hf : r.freed with
      | true => simp [hf] at h
      | false =>
        simp [hf] at h; subst h
        exact ⟨rfl, ⟨r, hr, hf, by simp [push, bump]⟩, rfl, rfl⟩

/-- copy construction: the new object is the source's (data pointer, storage, extents, strides), one link added -/
theorem copyCtor_shares {s s' : St} {j : Nat} {b : Obj} (h : copyCtorAt s j = .ok s') (hb : s.pool[j]? = some b) :
    s'.pool = s.pool ++ [b] ∧ heapLinked s s' b := by
  unfold copyCtorAt at h
  rw [getObj_ok.mpr hb] at h
  obtain ⟨h1, h2, _⟩ := linkNew_spec h
  exact ⟨h1, h2⟩

/-- every member function that returns a view (slices of any rank, rows, columns, `T()`, `diag_vector`,
    `submatrix_on_diagonal`, `reshape`, `permute`, of arrays and of special matrices): the new object points into
    the source's allocation and holds the source's storage, one link added — or the function returned a
    default-constructed object and nothing changed -/
theorem view_shares {s s' : St} {j : Nat} {f : ViewFn} {b : Obj} (h : viewAt s j f = .ok s') (hb : s.pool[j]? = some b) :
    ∃ o, s'.pool = s.pool ++ [o] ∧
      ((o.region = b.region ∧ o.storage = b.storage ∧ heapLinked s s' o) ∨
       (o.region = .null ∧ o.storage = none ∧ s'.heap = s.heap)) := by
  unfold viewAt at h
  rw [getObj_ok.mpr hb] at h
  simp only at h
  cases he : evalView b f with
  | error e => simp [he] at h
  | ok r =>
    cases r with
    | empty k => simp only [he] at h; cases h; exact ⟨blank k, rfl, Or.inr ⟨rfl, rfl, rfl⟩⟩
    | ctor v =>
      simp only [he] at h
      obtain ⟨h1, _⟩ := viewCtor_ok h
      obtain ⟨p1, p2, _⟩ := linkNew_spec h1
      exact ⟨viewObj b v, p1, Or.inl ⟨rfl, rfl, p2⟩⟩

/-- soft link: same view, no storage, no count touched -/
theorem softLink_holds_nothing {s s' : St} {j : Nat} {b : Obj} (h : softLinkAt s j = .ok s') (hb : s.pool[j]? = some b) :
    s'.pool = s.pool ++ [{ b with storage := none }] ∧ s'.heap = s.heap ∧ s'.created = s.created ∧ s'.deleted = s.deleted := by
  unfold softLinkAt at h
  rw [getObj_ok.mpr hb] at h
  cases h; exact ⟨rfl, rfl, rfl, rfl⟩

/-- array over external memory: no storage, no count touched -/
theorem newExternal_holds_nothing {s s' : St} {x off : Nat} {n : Int} {dm : Bool} (h : newExternalAt s x off n dm = .ok s') :
    (∃ o, s'.pool = s.pool ++ [o] ∧ o.region = .ext x ∧ o.storage = none) ∧
    s'.heap = s.heap ∧ s'.created = s.created ∧ s'.deleted = s.deleted := by
  unfold newExternalAt at h
  split at h
  · cases h
  · split at h
    · cases h
    · split at h
      · cases h; exact ⟨⟨_, rfl, rfl, rfl⟩, rfl, rfl, rfl⟩
      · cases h

theorem addLink_pool {s s' : St} {σ : Nat} (h : addLink s σ = .ok s') : s'.pool = s.pool := by
  unfold addLink at h
  split at h
  · cases h
  · split at h
    · cases h
    · cases h; rfl

/-- `a.link(b)`, a ≠ b: afterwards `a` is `b`'s (data pointer, storage, extents, strides) -/
theorem link_shares {s s' : St} {i j : Nat} {b : Obj} (I : Inv s) (hij : i ≠ j)
    (h : linkAt s i j = .ok s') (hb : s.pool[j]? = some b) :
    s'.pool = s.pool.set i b ∧ b.region ≠ .null := by
  unfold linkAt at h
  cases hgi : getObj s i with
  | error e => simp [hgi] at h
  | ok a0 =>
    rw [getObj_ok.mpr hb] at h
    simp only [hgi] at h
    split at h
    · cases h
    · split at h
      · cases h
      · rename_i hnull
        cases hc : clearAt s i with
        | error e => simp [hc] at h
        | ok s1 =>
          simp only [hc] at h
          obtain ⟨_, a, ha, hp, _⟩ := clearAt_spec I hc
          have hb1 : s1.pool[j]? = some b := by rw [hp, getElem?_set_ne' hij]; exact hb
          rw [getObj_ok.mpr hb1] at h
          simp only at h
          cases hs : b.storage with
          | none => simp only [hs] at h; cases h; exact ⟨by simp [setObj, hp], hnull⟩
          | some σ =>
            simp only [hs] at h
            cases hadd : addLink s1 σ with
            | error e => simp [hadd] at h
            | ok s2 =>
              simp only [hadd] at h
              cases h
              exact ⟨by simp [setObj, addLink_pool hadd, hp], hnull⟩

/-! ### assignment -/

/-- where `resize` leaves the object: cleared, the packed owner of a Storage created by this call, or — the
    allocation having failed — released and empty -/
theorem resizeAt_spec {s s' : St} {i : Nat} {strict : Bool} {n0 n1 v0 : Int} {a : Obj} (I : Inv s)
    (ha : s.pool[i]? = some a) (h : resizeAt s i strict n0 n1 v0 = .ok s') :
    s'.pool = s.pool.set i (blank a.kind) ∨
    (∃ m0 m1, s'.pool = s.pool.set i (ownerOf a.kind s.heap.length m0 m1) ∧
       s'.heap[s.heap.length]? =
         some { nLinks := 1, freed := false, size := dataVolume a.kind m0 m1, active := a.kind.active }) ∨
    (s'.pool = s.pool.set i (blank a.kind) ∧ s'.thrown = true) := by
  obtain ⟨a0, ha0, hc | ⟨m0, m1, s1, _, hr, _, rfl⟩ | ⟨m0, m1, s1, _, hr, hf, rfl⟩⟩ := resizeAt_cases h
  · rw [ha] at ha0; cases ha0
    obtain ⟨_, a', ha', hp, _⟩ := clearAt_spec I hc.2
    rw [ha] at ha'; cases ha'
    exact Or.inl hp
  · rw [ha] at ha0; cases ha0
    obtain ⟨_, a', ha', hp, hl, _⟩ := releaseAt_spec I hr
    obtain ⟨t1, t2, _⟩ := allocTick_frame s1
    obtain ⟨f1, f2, _⟩ :=
      fillOwner_frame (setObj (newStorage (allocTick s1).1 (dataVolume a.kind m0 m1) a.kind.active).1 i
          (ownerOf a.kind (allocTick s1).1.heap.length m0 m1))
        (ownerOf a.kind (allocTick s1).1.heap.length m0 m1) v0
    refine Or.inr (Or.inl ⟨m0, m1, ?_, ?_⟩)
    · unfold resized; rw [f2]; simp [setObj, newStorage, hp, hl, t1, t2]
    · unfold resized; rw [f1]; simp [setObj, newStorage, ← hl, t1]
  · rw [ha] at ha0; cases ha0
    obtain ⟨_, a', ha', hp, hl, _⟩ := releaseAt_spec I hr
    refine Or.inr (Or.inr ⟨?_, ?_⟩)
    · simp [setObj, (allocTick_frame s1).2.1, hp]
    · exact allocTick_failed s1 hf

/-- where the target of `a = b` ends up -/
inductive Owns (s s' : St) (i j : Nat) (a b : Obj) : Prop
  /-- the values were stored through the target's existing view; no object and no count changed -/
  | inPlace (hlen : a.len ≠ 0) (hp : s'.pool = s.pool) (hh : s'.heap = s.heap)
  /-- empty := empty : the target is the cleared array -/
  | emptied (ha : a.len = 0) (hp : s'.pool = s.pool.set i (blank a.kind))
  /-- the target was empty and now owns a Storage created by this assignment -/
  | fresh (o : Obj) (r : Sto) (ha : a.len = 0) (hp : s'.pool = s.pool.set i o)
      (hos : o.storage = some s.heap.length) (hor : o.region = .sto s.heap.length)
      (hh : s'.heap[s.heap.length]? = some r) (hone : r.nLinks = 1) (hfr : r.freed = false)
  /-- move assignment swapped: the source owned an unshared Storage, which the target now holds, and the
      source holds what the target had -/
  | stolen (σ : Nat) (r : Sto) (hb : b.storage = some σ) (hr : s.heap[σ]? = some r) (hone : r.nLinks = 1)
      (hl : a.len = 0 ∨ ∃ τ rt, a.storage = some τ ∧ s.heap[τ]? = some rt ∧ rt.nLinks = 1)
      (hp : s'.pool = (s.pool.set i b).set j a) (hh : s'.heap = s.heap)
  /-- the statement ended by throwing `std::bad_alloc` out of the `resize` of an empty target: the target is the
      cleared array -/
  | failed (ht : s'.thrown = true) (ha : a.len = 0) (hp : s'.pool = s.pool.set i (blank a.kind))

theorem assignCopyAt_owns {s s' : St} {i j : Nat} {a b : Obj} (I : Inv s)
    (ha : s.pool[i]? = some a) (hb : s.pool[j]? = some b)
    (h : assignCopyAt s i j = .ok s') : Owns s s' i j a b := by
  unfold assignCopyAt at h
  rw [getObj_ok.mpr ha, getObj_ok.mpr hb] at h
  simp only at h
  split at h
  · cases h
  · split at h
    · cases h
    · rename_i s1 hs1
      -- what the rest of the statement does to pool and heap
      have hrest : s'.pool = s1.pool ∧ s'.heap = s1.heap ∧ (s1.thrown = true → s' = s1) := by
        split at h
        · cases h
        · cases h
        · split at h
          · cases h; exact ⟨rfl, rfl, fun _ => rfl⟩
          · rename_i hnt
            split at h
            · cases h; exact ⟨rfl, rfl, fun _ => rfl⟩
            · split at h
              · cases h; exact ⟨(allocTick_frame s1).2.1, (allocTick_frame s1).1, fun ht => absurd ht hnt⟩
              · split at h
                · cases h
                · obtain ⟨a1, a2, _⟩ := writeCells_frame _ _ _ _ h
                  obtain ⟨t1, t2⟩ := tickIf_frame s1 _
                  exact ⟨a2.trans t2, a1.trans t1, fun ht => absurd ht hnt⟩
      by_cases hal : a.len = 0
      · simp only [hal, if_true] at hs1
        rcases resizeAt_spec I ha hs1 with hp | ⟨m0, m1, hp, hh⟩ | ⟨hp, ht⟩
        · exact .emptied hal (by rw [hrest.1]; exact hp)
        · exact .fresh _ _ hal (by rw [hrest.1]; exact hp) (ownerOf_storage ..) (ownerOf_region ..)
            (by rw [hrest.2.1]; exact hh) rfl rfl
        · have e := hrest.2.2 ht
          subst e
          exact .failed ht hal hp
      · simp only [hal, if_false] at hs1
        split at hs1
        · cases hs1
        · cases hs1
          exact .inPlace hal hrest.1 hrest.2.1

theorem ownsUnshared_true {s : St} {o : Obj} (h : ownsUnshared s o = .ok true) :
    ∃ σ r, o.storage = some σ ∧ s.heap[σ]? = some r ∧ r.nLinks = 1 := by
  unfold ownsUnshared at h
  cases ho : o.storage with
  | none => simp [ho] at h
  | some σ =>
    simp only [ho] at h
    unfold nLinksOf at h
    cases hr : s.heap[σ]? with
    | none => simp [hr] at h
    | some r =>
      simp only [hr] at h
      cases hf : r.freed with
      | true => simp [hf] at h
      | false =>
        simp [hf] at h
        exact ⟨σ, r, rfl, hr, h⟩

/-- `assign_owns`: after `a = b` (copy or move, repaired code) the target is where it was, or empty, or owns a
    Storage that is new or was the source's own unshared one -/
theorem assignMoveAt_owns {s s' : St} {i j : Nat} {a b : Obj} (I : Inv s)
    (ha : s.pool[i]? = some a) (hb : s.pool[j]? = some b)
    (h : assignMoveAt s i j = .ok s') : Owns s s' i j a b := by
  unfold assignMoveAt at h
  rw [getObj_ok.mpr ha, getObj_ok.mpr hb] at h
  simp only at h
  split at h
  · cases h
  · split at h
    · exact assignCopyAt_owns I ha hb h
    · split at h
      · cases h
      · exact assignCopyAt_owns I ha hb h
      · rename_i hl
        split at h
        · cases h
        · exact assignCopyAt_owns I ha hb h
        · rename_i hrhs
          obtain ⟨σ, r, h1, h2, h3⟩ := ownsUnshared_true hrhs
          split at h
          · cases h
            refine .stolen σ r h1 h2 h3 ?_ rfl rfl
            by_cases hal : a.len = 0
            · exact Or.inl hal
            · simp only [hal, if_false] at hl
              obtain ⟨τ, rt, t1, t2, t3⟩ := ownsUnshared_true hl
              exact Or.inr ⟨τ, rt, t1, t2, t3⟩
          · cases h

/-- two different positions holding σ ⇒ at least two referrers -/
theorem two_refs {p : List Obj} {i j σ : Nat} {a b : Obj} (hij : i ≠ j) (ha : p[i]? = some a) (hb : p[j]? = some b)
    (has : a.storage = some σ) (hbs : b.storage = some σ) : 2 ≤ refs σ p := by
  have h1 := refs_set (σ := σ) (x := dropSto a) ha
  rw [wt_eq has, wt_none (show (dropSto a).storage = none from rfl)] at h1
  have hb' : (p.set i (dropSto a))[j]? = some b := by rw [getElem?_set_ne' hij]; exact hb
  have := refs_pos_of_mem (List.mem_of_getElem? hb') hbs
  omega

/-- after the assignment the target never *becomes* a view of external memory -/
theorem owns_not_external {s s' : St} {i j : Nat} {a b a' : Obj} (I : Inv s) (O : Owns s s' i j a b)
    (ha : s.pool[i]? = some a) (hb : s.pool[j]? = some b) (hij : i ≠ j)
    (ha' : s'.pool[i]? = some a') {x : Nat} (hx : a'.region = .ext x) : a' = a ∧ a.region = .ext x := by
  cases O with
  | inPlace hlen hp hh => rw [hp, ha] at ha'; cases ha'; exact ⟨rfl, hx⟩
  | emptied hal hp => rw [hp, getElem?_set_self' ha] at ha'; cases ha'; simp [blank] at hx
  | fresh o r hal hp hos hor hh hone hfr => rw [hp, getElem?_set_self' ha] at ha'; cases ha'; rw [hor] at hx; cases hx
  | stolen σ r hbs hr hone hl hp hh =>
    have : ((s.pool.set i b).set j a)[i]? = some b := by
      rw [getElem?_set_ne' (Ne.symm hij)]; exact getElem?_set_self' ha
    rw [hp, this] at ha'; cases ha'
    obtain ⟨_, _, _, hreg, _⟩ := I.objs b (List.mem_of_getElem? hb) σ hbs
    rw [hreg] at hx; cases hx
  | failed ht hal hp => rw [hp, getElem?_set_self' ha] at ha'; cases ha'; simp [blank] at hx

/-- after the assignment the target and the source look into the same allocation only if they already did and
    the target was written in place -/
theorem owns_apart_from_source {s s' : St} {i j : Nat} {a b a' b' : Obj} (I : Inv s) (O : Owns s s' i j a b)
    (ha : s.pool[i]? = some a) (hb : s.pool[j]? = some b) (hij : i ≠ j)
    (ha' : s'.pool[i]? = some a') (hb' : s'.pool[j]? = some b')
    (hla : a'.len ≠ 0) (hlb : b'.len ≠ 0) (hreg : a'.region = b'.region) :
    a' = a ∧ b' = b ∧ a.region = b.region := by
  cases O with
  | inPlace hlen hp hh =>
    rw [hp, ha] at ha'; rw [hp, hb] at hb'; cases ha'; cases hb'; exact ⟨rfl, rfl, hreg⟩
  | emptied hal hp => rw [hp, getElem?_set_self' ha] at ha'; cases ha'; exact absurd rfl hla
  | fresh o r hal hp hos hor hh hone hfr =>
    rw [hp, getElem?_set_self' ha] at ha'; cases ha'
    rw [hp, getElem?_set_ne' hij, hb] at hb'; cases hb'
    have := I.inScope b (List.mem_of_getElem? hb) s.heap.length (by rw [← hreg]; exact hor)
    omega
  | stolen σ r hbs hr hone hl hp hh =>
    have e1 : ((s.pool.set i b).set j a)[i]? = some b := by
      rw [getElem?_set_ne' (Ne.symm hij)]; exact getElem?_set_self' ha
    have e2 : ((s.pool.set i b).set j a)[j]? = some a := by
      have : (s.pool.set i b)[j]? = some b := by rw [getElem?_set_ne' hij]; exact hb
      exact getElem?_set_self' this
    rw [hp, e1] at ha'; cases ha'
    rw [hp, e2] at hb'; cases hb'
    -- the source (now holding the target's old quadruple) is not empty, so the target owned an unshared τ ≠ σ
    rcases hl with hl | ⟨τ, rt, t1, t2, t3⟩
    · exact absurd hl hlb
    · exfalso
      obtain ⟨rb, hrb, hfb, hregb, _⟩ := I.objs b (List.mem_of_getElem? hb) σ hbs
      obtain ⟨ra, hra, hfa, hrega, _⟩ := I.objs a (List.mem_of_getElem? ha) τ t1
      rw [hregb, hrega] at hreg
      cases hreg
      rw [hr] at hrb; cases hrb
      have := two_refs hij ha hb t1 hbs
      have := (I.counts σ r hr hfb).1
      omega
  | failed ht hal hp => rw [hp, getElem?_set_self' ha] at ha'; cases ha'; exact absurd rfl hla

/-! ### values: a write shows only through views of the written allocation -/

theorem readCell_congr {s s' : St} {r : Region} (c : Nat)
    (hh : s'.heap = s.heap)
    (hs : ∀ σ, r = .sto σ → s'.smem[σ]? = s.smem[σ]?)
    (he : ∀ x, r = .ext x → s'.exts[x]? = s.exts[x]?) :
    readCell s' r c = readCell s r c := by
  unfold readCell
  cases r with
  | null => rfl
  | sto σ => simp only [hh, hs σ rfl]
  | ext x => simp only [he x rfl]

theorem readCells_congr {s s' : St} {r : Region}
    (hh : s'.heap = s.heap)
    (hs : ∀ σ, r = .sto σ → s'.smem[σ]? = s.smem[σ]?)
    (he : ∀ x, r = .ext x → s'.exts[x]? = s.exts[x]?) :
    ∀ cs, readCells s' r cs = readCells s r cs := by
  intro cs
  induction cs with
  | nil => rfl
  | cons c cs ih =>
    unfold readCells
    rw [readCell_congr _ hh hs he, ih]

theorem readView_congr {s s' : St} {o : Obj}
    (hh : s'.heap = s.heap)
    (hs : ∀ σ, o.region = .sto σ → s'.smem[σ]? = s.smem[σ]?)
    (he : ∀ x, o.region = .ext x → s'.exts[x]? = s.exts[x]?) :
    readView s' o = readView s o := readCells_congr hh hs he _

/-- what a store into allocation `r` leaves alone -/
theorem writeCell_frame_mem {s s' : St} {r : Region} {c : Nat} {v : Int} (h : writeCell s r c v = .ok s') :
    s'.heap = s.heap ∧ (∀ σ, r ≠ .sto σ → s'.smem[σ]? = s.smem[σ]?) ∧ (∀ x, r ≠ .ext x → s'.exts[x]? = s.exts[x]?) := by
  unfold writeCell at h
  split at h
  · cases h
  · rename_i σ
    split at h
    · split at h
      · cases h
      · split at h
        · cases h
          refine ⟨rfl, ?_, fun _ _ => rfl⟩
          intro τ hτ
          have : σ ≠ τ := fun e => hτ (by rw [e])
          simp [getElem?_set_ne' this]
        · cases h
    · cases h
  · rename_i x
    split at h
    · split at h
      · cases h
        refine ⟨rfl, fun _ _ => rfl, ?_⟩
        intro y hy
        have : x ≠ y := fun e => hy (by rw [e])
        simp [getElem?_set_ne' this]
      · cases h
    · cases h

/-- a store through a view of another allocation does not change what `o` reads -/
theorem read_after_write_elsewhere {s s' : St} {o : Obj} {r : Region} {c : Nat} {v : Int}
    (h : writeCell s r c v = .ok s') (hne : o.region ≠ r) : readView s' o = readView s o := by
  obtain ⟨h1, h2, h3⟩ := writeCell_frame_mem h
  refine readView_congr h1 ?_ ?_
  · intro σ hσ; exact h2 σ (by rw [← hσ]; exact Ne.symm hne)
  · intro x hx; exact h3 x (by rw [← hx]; exact Ne.symm hne)

/-- the environment changing (or ending) external block `x` does not change what a view of another allocation reads -/
theorem read_after_env {s s' : St} {o : Obj} {x : Nat} (hne : o.region ≠ .ext x)
    (h : (∃ k v, xwriteAt s x k v = .ok s') ∨ xendAt s x = .ok s') : readView s' o = readView s o := by
  have key : s'.heap = s.heap ∧ s'.smem = s.smem ∧ ∀ y, x ≠ y → s'.exts[y]? = s.exts[y]? := by
    rcases h with ⟨k, v, h⟩ | h
    · unfold xwriteAt at h
      split at h
      · cases h
      · split at h
        · cases h; exact ⟨rfl, rfl, fun y hy => by simp [getElem?_set_ne' hy]⟩
        · cases h
    · unfold xendAt at h
      split at h
      · cases h
      · split at h
        · cases h; exact ⟨rfl, rfl, fun y hy => by simp [getElem?_set_ne' hy]⟩
        · cases h
  obtain ⟨h1, h2, h3⟩ := key
  refine readView_congr h1 (fun σ _ => by rw [h2]) ?_
  intro y hy
  exact h3 y (fun e => hne (by rw [hy, e]))

/-! ### no operation ever touches a deleted Storage or underflows a count -/

/-- the result is a state, a documented array exception, a protocol error or a data access through a stale view
    (user error): never a touch of a deleted Storage object (`fault`) nor `remove_link` at zero (`linkUnderflow`) -/
def Clean (r : Except Err St) : Prop := r ≠ .error .fault ∧ r ≠ .error .linkUnderflow

theorem clean_ok (s : St) : Clean (.ok s) := ⟨(by intro h; cases h), (by intro h; cases h)⟩

theorem clean_err {e : Err} (h1 : e ≠ .fault) (h2 : e ≠ .linkUnderflow) : Clean (.error e) :=
  ⟨(by intro h; cases h; exact h1 rfl), (by intro h; cases h; exact h2 rfl)⟩

theorem clean_badOp : Clean (.error .badOp) := clean_err (by decide) (by decide)

theorem getObj_err {s : St} {i : Nat} {e : Err} (h : getObj s i = .error e) : e = .badOp := by
  unfold getObj at h; split at h
  · cases h
  · cases h; rfl

theorem releaseAt_total {s : St} {i : Nat} {a : Obj} (I : Inv s) (ha : s.pool[i]? = some a) :
    ∃ s', releaseAt s i = .ok s' := by
  unfold releaseAt
  rw [getObj_ok.mpr ha]
  simp only
  cases has : a.storage with
  | none => exact ⟨s, rfl⟩
  | some σ =>
    obtain ⟨r, hr, hf, hpos, _, _⟩ := invC_release I.core ha has
    have hne : r.nLinks ≠ 0 := by omega
    unfold removeLink
    simp only [hr, hf, hne]
    by_cases hz : r.nLinks - 1 = 0
    · simp [hz]
    · simp [hz]

theorem clearAt_total {s : St} {i : Nat} {a : Obj} (I : Inv s) (ha : s.pool[i]? = some a) :
    ∃ s', clearAt s i = .ok s' := by
  obtain ⟨s1, h1⟩ := releaseAt_total I ha
  unfold clearAt; rw [getObj_ok.mpr ha]; simp only; rw [h1]; exact ⟨_, rfl⟩

theorem destroyAt_total {s : St} {i : Nat} {a : Obj} (I : Inv s) (ha : s.pool[i]? = some a) :
    ∃ s', destroyAt s i = .ok s' := by
  obtain ⟨s1, h1⟩ := releaseAt_total I ha
  unfold destroyAt; rw [h1]; exact ⟨_, rfl⟩

theorem clean_of_total {r : Except Err St} (h : ∃ s', r = .ok s') : Clean r := by
  obtain ⟨s', h⟩ := h; rw [h]; exact clean_ok s'

theorem clearAt_clean {s : St} {i : Nat} (I : Inv s) : Clean (clearAt s i) := by
  cases ha : s.pool[i]? with
  | none =>
    have : clearAt s i = .error .badOp := by simp [clearAt, getObj, ha]
    rw [this]; exact clean_badOp
  | some a => exact clean_of_total (clearAt_total I ha)

theorem destroyAt_clean {s : St} {i : Nat} (I : Inv s) : Clean (destroyAt s i) := by
  cases ha : s.pool[i]? with
  | none =>
    have : destroyAt s i = .error .badOp := by simp [destroyAt, releaseAt, getObj, ha]
    rw [this]; exact clean_badOp
  | some a => exact clean_of_total (destroyAt_total I ha)

theorem resizeCheck_err {k : Kind} {strict : Bool} {n0 n1 : Int} {e : Err}
    (h : resizeCheck k strict n0 n1 = .error e) : e = .invalidDimension := by
  unfold resizeCheck at h
  repeat' split at h
  all_goals first | (cases h; rfl) | cases h

theorem resizeAt_clean {s : St} {i : Nat} {strict : Bool} {n0 n1 v0 : Int} (I : Inv s) :
    Clean (resizeAt s i strict n0 n1 v0) := by
  unfold resizeAt
  cases hg : getObj s i with
  | error e => rw [getObj_err hg]; exact clean_badOp
  | ok a =>
    simp only
    cases hc : resizeCheck a.kind strict n0 n1 with
    | error e => rw [resizeCheck_err hc]; exact clean_err (by decide) (by decide)
    | ok r =>
      cases r with
      | none => exact clearAt_clean I
      | some pr =>
        obtain ⟨m0, m1⟩ := pr
        simp only
        obtain ⟨s1, h1⟩ := releaseAt_total I (getObj_ok.mp hg)
        rw [h1]; simp only
        split <;> exact clean_ok _

theorem newAt_clean {s : St} {k : Kind} {n0 n1 v0 : Int} (I : Inv s) : Clean (newAt s k n0 n1 v0) := by
  unfold newAt
  cases hr : resizeAt (push s (blank k)) s.pool.length (!k.isArray) n0 n1 v0 with
  | error e =>
    have := resizeAt_clean (i := s.pool.length) (strict := !k.isArray) (n0 := n0) (n1 := n1) (v0 := v0) (push_blank_inv I k)
    rw [hr] at this; exact this
  | ok s1 => simp only; split <;> exact clean_ok _

theorem linkNew_total {s : St} {o : Obj} (F : Fits s o) : ∃ s', linkNew s o = .ok s' := by
  unfold linkNew
  cases ho : o.storage with
  | none => exact ⟨_, rfl⟩
  | some σ =>
    obtain ⟨r, hr, hf, _⟩ := F.held σ ho
    unfold addLink
    simp [hr, hf]

/-- the member functions themselves only throw documented exceptions -/
theorem evalView_err {b : Obj} {f : ViewFn} {e : Err} (h : evalView b f = .error e) :
    e ≠ .fault ∧ e ≠ .linkUnderflow := by
  unfold evalView at h
  repeat' split at h
  all_goals first | (cases h; exact ⟨by decide, by decide⟩) | cases h

theorem viewCtor_clean {s : St} {b : Obj} {v : ViewSpec} (I : Inv s) (hm : b ∈ s.pool) : Clean (viewCtor s b v) := by
  unfold viewCtor
  split
  · exact clean_err (by decide) (by decide)
  · split
    · exact clean_err (by decide) (by decide)
    · split
      · exact clean_badOp
      · simp only
        split
        · rename_i hc
          exact clean_of_total (linkNew_total (fits_view I hm hc))
        · exact clean_badOp

theorem viewAt_clean {s : St} {j : Nat} {f : ViewFn} (I : Inv s) : Clean (viewAt s j f) := by
  unfold viewAt
  cases hg : getObj s j with
  | error e => rw [getObj_err hg]; exact clean_badOp
  | ok b =>
    simp only
    cases he : evalView b f with
    | error e => exact clean_err (evalView_err he).1 (evalView_err he).2
    | ok r =>
      cases r with
      | empty k => exact clean_ok _
      | ctor v => exact viewCtor_clean I (List.mem_of_getElem? (getObj_ok.mp hg))

theorem linkAt_clean {s : St} {i j : Nat} (I : Inv s) : Clean (linkAt s i j) := by
  unfold linkAt
  cases hgi : getObj s i with
  | error e => rw [getObj_err hgi]; exact clean_badOp
  | ok a0 =>
    cases hgj : getObj s j with
    | error e => rw [getObj_err hgj]; exact clean_badOp
    | ok b =>
      simp only
      split
      · exact clean_badOp
      · split
        · exact clean_err (by decide) (by decide)
        · obtain ⟨s1, hc⟩ := clearAt_total I (getObj_ok.mp hgi)
          rw [hc]
          simp only
          obtain ⟨I1, _⟩ := clearAt_spec I hc
          cases hb1 : getObj s1 j with
          | error e => rw [getObj_err hb1]; exact clean_badOp
          | ok b1 =>
            simp only
            have F := fits_of_mem I1 (List.mem_of_getElem? (getObj_ok.mp hb1))
            cases hs : b1.storage with
            | none => exact clean_ok _
            | some σ =>
              obtain ⟨r, hr, hf, _⟩ := F.held σ hs
              simp only [addLink, hr, hf]
              exact clean_ok _

theorem readCell_err {s : St} {r : Region} {c : Nat} {e : Err} (h : readCell s r c = .error e) : e = .badAccess := by
  unfold readCell at h
  repeat' split at h
  all_goals first | (cases h; rfl) | cases h

theorem writeCell_err {s : St} {r : Region} {c : Nat} {v : Int} {e : Err} (h : writeCell s r c v = .error e) :
    e = .badAccess := by
  unfold writeCell at h
  repeat' split at h
  all_goals first | (cases h; rfl) | cases h

theorem readCells_err {s : St} {r : Region} : ∀ (cs : List Nat) {e : Err}, readCells s r cs = .error e → e = .badAccess := by
  intro cs
  induction cs with
  | nil => intro e h; simp [readCells] at h
  | cons c cs ih =>
    intro e h
    unfold readCells at h
    cases hc : readCell s r c with
    | error e' => simp only [hc] at h; cases h; exact readCell_err hc
    | ok v =>
      simp only [hc] at h
      cases hr : readCells s r cs with
      | error e' => simp only [hr] at h; cases h; exact ih hr
      | ok vs => simp [hr] at h

theorem writeCells_err {r : Region} : ∀ (cs : List Nat) (vs : List Int) (s : St) {e : Err},
    writeCells s r cs vs = .error e → e = .badAccess := by
  intro cs
  induction cs with
  | nil => intro vs s e h; simp [writeCells] at h
  | cons c cs ih =>
    intro vs s e h
    cases vs with
    | nil => simp [writeCells] at h
    | cons v vs =>
      unfold writeCells at h
      cases hw : writeCell s r c v with
      | error e' => simp only [hw] at h; cases h; exact writeCell_err hw
      | ok s1 => simp only [hw] at h; exact ih vs s1 h

theorem clean_badAccess : Clean (.error .badAccess) := clean_err (by decide) (by decide)

theorem assignCopyAt_clean {s : St} {i j : Nat} (I : Inv s) : Clean (assignCopyAt s i j) := by
  unfold assignCopyAt
  cases hgi : getObj s i with
  | error e => rw [getObj_err hgi]; exact clean_badOp
  | ok a =>
    cases hgj : getObj s j with
    | error e => rw [getObj_err hgj]; exact clean_badOp
    | ok b =>
      simp only
      split
      · exact clean_badOp
      · split
        · rename_i e he
          -- the error comes from resize (clean) or is size_mismatch
          split at he
          · have := resizeAt_clean (i := i) (strict := false) (n0 := (dimsOf b).1) (n1 := (dimsOf b).2) (v0 := 0) I
            rw [he] at this; exact this
          · split at he
            · cases he; exact clean_err (by decide) (by decide)
            · cases he
        · rename_i s1 hs1
          cases h1 : getObj s1 i with
          | error e => rw [getObj_err h1]; exact clean_badOp
          | ok a1 =>
            cases h2 : getObj s1 j with
            | error e => rw [getObj_err h2]; exact clean_badOp
            | ok b1 =>
              simp only
              split
              · exact clean_ok _
              · split
                · exact clean_ok _
                · split
                  · exact clean_ok _
                  · split
                    · rename_i e hr
                      rw [readCells_err _ hr]; exact clean_badAccess
                    · rename_i vs hr
                      cases hw : writeCells (if aliased a1 b1 = true then (allocTick s1).1 else s1) a1.region (cells a1) vs with
                      | error e => rw [writeCells_err _ _ _ hw]; exact clean_badAccess
                      | ok s2 => exact clean_ok _

theorem ownsUnshared_total {s : St} {o : Obj} (I : Inv s) (hm : o ∈ s.pool) : ∃ b, ownsUnshared s o = .ok b := by
  unfold ownsUnshared
  cases ho : o.storage with
  | none => exact ⟨false, rfl⟩
  | some σ =>
    obtain ⟨r, hr, hf, _⟩ := I.objs o hm σ ho
    simp [nLinksOf, hr, hf]

theorem assignMoveAt_clean {s : St} {i j : Nat} (I : Inv s) : Clean (assignMoveAt s i j) := by
  unfold assignMoveAt
  cases hgi : getObj s i with
  | error e => rw [getObj_err hgi]; exact clean_badOp
  | ok a =>
    cases hgj : getObj s j with
    | error e => rw [getObj_err hgj]; exact clean_badOp
    | ok b =>
      simp only
      split
      · exact clean_badOp
      · split
        · exact assignCopyAt_clean I
        · obtain ⟨ba, hba⟩ := ownsUnshared_total I (List.mem_of_getElem? (getObj_ok.mp hgi))
          obtain ⟨bb, hbb⟩ := ownsUnshared_total I (List.mem_of_getElem? (getObj_ok.mp hgj))
          have hl : ∃ bl, (if a.len = 0 then (Except.ok true : Except Err Bool) else ownsUnshared s a) = .ok bl := by
            split
            · exact ⟨true, rfl⟩
            · exact ⟨ba, hba⟩
          obtain ⟨bl, hbl⟩ := hl
          rw [hbl, hbb]
          cases bl with
          | false => exact assignCopyAt_clean I
          | true =>
            cases bb with
            | false => exact assignCopyAt_clean I
            | true =>
              simp only
              split
              · exact clean_ok _
              · exact clean_err (by decide) (by decide)

theorem swapAt_clean {s : St} {i j : Nat} : Clean (swapAt s i j) := by
  unfold swapAt
  cases hgi : getObj s i with
  | error e => rw [getObj_err hgi]; exact clean_badOp
  | ok a =>
    cases hgj : getObj s j with
    | error e => rw [getObj_err hgj]; exact clean_badOp
    | ok b =>
      simp only
      split
      · exact clean_badOp
      · exact clean_ok _

theorem newSumAt_clean {s : St} {j1 j2 : Nat} (I : Inv s) : Clean (newSumAt s j1 j2) := by
  unfold newSumAt
  cases hg1 : getObj s j1 with
  | error e => rw [getObj_err hg1]; exact clean_badOp
  | ok b =>
    cases hg2 : getObj s j2 with
    | error e => rw [getObj_err hg2]; exact clean_badOp
    | ok c =>
      simp only
      split
      · exact clean_badOp
      · split
        · exact clean_err (by decide) (by decide)
        · cases hrb : readView s b with
          | error e => rw [readCells_err _ hrb]; exact clean_badAccess
          | ok vb =>
            cases hrc : readView s c with
            | error e => rw [readCells_err _ hrc]; exact clean_badAccess
            | ok vc =>
              simp only
              cases hrs : resizeAt (push s (blank b.kind)) s.pool.length false (↑b.len) 0 0 with
              | error e =>
                have := resizeAt_clean (i := s.pool.length) (strict := false) (n0 := (b.len : Int)) (n1 := 0) (v0 := 0)
                  (push_blank_inv I b.kind)
                rw [hrs] at this; exact this
              | ok s1 =>
                simp only
                split
                · exact clean_ok _
                · cases hg : getObj s1 s.pool.length with
                  | error e => rw [getObj_err hg]; exact clean_badOp
                  | ok a1 =>
                    simp only
                    cases hw : writeCells s1 a1.region (cells a1) (List.zipWith (· + ·) vb vc) with
                    | error e => rw [writeCells_err _ _ _ hw]; exact clean_badAccess
                    | ok s2 => exact clean_ok _

/-- in a state satisfying the invariant no operation touches a deleted Storage object or removes a link that is
    not there: `delete this` cannot run twice, the `invalid_operation` of `remove_link` is unreachable -/
theorem no_storage_faultCore {s : St} (I : Inv s) (op : Op) : Clean (stepCore s op) := by
  cases op with
  | xnew n v0 => exact clean_ok _
  | xwrite x k v =>
    simp only [stepCore, xwriteAt]
    split
    · exact clean_badOp
    · split
      · exact clean_ok _
      · exact clean_badOp
  | xend x =>
    simp only [stepCore, xendAt]
    split
    · exact clean_badOp
    · split
      · exact clean_ok _
      · exact clean_badOp
  | new k n0 n1 v0 => exact newAt_clean I
  | newEmpty k => exact clean_ok _
  | newExternal x off n dm =>
    simp only [stepCore, newExternalAt]
    split
    · exact clean_badOp
    · split
      · exact clean_err (by decide) (by decide)
      · split
        · exact clean_ok _
        · exact clean_badOp
  | copyCtor j =>
    simp only [stepCore, copyCtorAt]
    cases hg : getObj s j with
    | error e => rw [getObj_err hg]; exact clean_badOp
    | ok b => exact clean_of_total (linkNew_total (fits_of_mem I (List.mem_of_getElem? (getObj_ok.mp hg))))
  | view j f => exact viewAt_clean I
  | softLink j =>
    simp only [stepCore, softLinkAt]
    cases hg : getObj s j with
    | error e => rw [getObj_err hg]; exact clean_badOp
    | ok b => exact clean_ok _
  | link i j => exact linkAt_clean I
  | assignCopy i j => exact assignCopyAt_clean I
  | assignMove i j => exact assignMoveAt_clean I
  | resize i strict n0 n1 v0 => exact resizeAt_clean I
  | clear i => exact clearAt_clean I
  | destroy i => exact destroyAt_clean I
  | write i k v =>
    simp only [stepCore, writeAt]
    cases hg : getObj s i with
    | error e => rw [getObj_err hg]; exact clean_badOp
    | ok a =>
      simp only
      split
      · rename_i c hc
        cases hw : writeCell s a.region c v with
        | error e => rw [writeCell_err hw]; exact clean_badAccess
        | ok s' => exact clean_ok _
      · exact clean_badOp
  | swap i j => exact swapAt_clean
  | newSum j1 j2 => exact newSumAt_clean I
  | newList k n0 n1 v0 =>
    simp only [stepCore, newListAt]
    split
    · exact clean_badOp
    · exact newAt_clean I
  | assignList i n v0 =>
    simp only [stepCore, assignListAt]
    cases hg : getObj s i with
    | error e => rw [getObj_err hg]; exact clean_badOp
    | ok a =>
      simp only
      split
      · exact clean_badOp
      · split
        · exact resizeAt_clean I
        · split
          · exact clean_err (by decide) (by decide)
          · cases hw : writeCells s a.region (cells a) (iota n v0 ++ List.replicate (a.len - n) 0) with
            | error e => rw [writeCells_err _ _ _ hw]; exact clean_badAccess
            | ok s2 => exact clean_ok _
  | failNext k => exact clean_ok _

theorem no_storage_fault {s : St} (I : Inv s) (op : Op) : Clean (step s op) :=
  no_storage_faultCore (s := { s with thrown := false }) ⟨I.core, I.grad⟩ op

/-! ### rejected operations; temporaries -/

/-- a rejected operation can be struck from a history: the run continues from the state before the call -/
theorem stepOrStay_rejected {s : St} {op : Op} {e : Err} (h : step s op = .error e) : stepOrStay s op = s := by
  unfold stepOrStay; rw [h]

theorem run_skip_rejected {s : St} (ops1 ops2 : List Op) {op : Op} {e : Err}
    (h : step (run s ops1) op = .error e) : run s (ops1 ++ op :: ops2) = run s (ops1 ++ ops2) := by
  have hs := stepOrStay_rejected h
  unfold run at hs ⊢
  rw [List.foldl_append, List.foldl_append, List.foldl_cons, hs]

theorem eraseIdx_append_last {α} (l : List α) (x : α) : (l ++ [x]).eraseIdx l.length = l := by
  induction l with
  | nil => rfl
  | cons a l ih => simp [ih]

theorem St.ext' {s t : St} (h1 : s.heap = t.heap) (h2 : s.smem = t.smem) (h3 : s.exts = t.exts) (h4 : s.pool = t.pool)
    (h5 : s.created = t.created) (h6 : s.deleted = t.deleted) (h7 : s.gradReg = t.gradReg)
    (h8 : s.failIn = t.failIn) (h9 : s.thrown = t.thrown) : s = t := by
  cases s; cases t; simp_all

/-- an object built by a linking constructor (copy construction, any view) and destroyed again — a by-value
    parameter, a temporary slice, the local copy inside `T()` — leaves the state exactly as it was: the link it took
    is the link it gives back, nothing is released -/
theorem linkNew_destroy_roundtrip {s s1 s2 : St} {o : Obj} (I : Inv s) (F : Fits s o) (h1 : linkNew s o = .ok s1)
    (h2 : destroyAt s1 s.pool.length = .ok s2) : s2 = s := by
  unfold linkNew at h1
  unfold destroyAt releaseAt getObj at h2
  cases ho : o.storage with
  | none =>
    simp only [ho] at h1; cases h1
    simp [push, ho] at h2
    subst h2
    apply St.ext' <;> simp [eraseIdx_append_last]
  | some σ =>
    simp only [ho] at h1
    obtain ⟨r, hr, hf, _, _⟩ := F.held σ ho
    have hpos := (I.counts σ r hr hf).2
    unfold addLink at h1
    simp only [hr, hf] at h1
    simp at h1; subst h1
    have hσ : σ < s.heap.length := by
      rcases List.getElem?_eq_some_iff.mp hr with ⟨hlt, _⟩; exact hlt
    have hne : r.nLinks + 1 ≠ 0 := by omega
    have hne' : ¬ r.nLinks = 0 := by omega
    simp [push, ho, removeLink, hσ, hne', setObj] at h2
    subst h2
    have hback : s.heap.set σ { nLinks := r.nLinks, freed := false, size := r.size, active := r.active } = s.heap := by
      have : ({ nLinks := r.nLinks, freed := false, size := r.size, active := r.active } : Sto) = r := by
        cases r; simp at hf ⊢; exact hf
      rw [this]; exact list_set_same hr
    apply St.ext' <;> simp [hback, eraseIdx_append_last]

end Adept.Storage
