import AdeptModel.Storage
/-!
Helper lemmas for C07 (storage life cycle).  Core Lean only.

`Inv` is the reference-count invariant of `AdeptModel/Storage.lean`; every micro-step of the transcribed code
(`add_link`+store, `remove_link`+`storage_ = 0`, allocation, swap, append/erase of an object without storage)
preserves it, and every operation is a sequence of such micro-steps.
-/
namespace Adept.Storage

/-! ### counting in lists -/

theorem countP_set_add {α} (p : α → Bool) : ∀ (l : List α) (i : Nat) (a x : α), l[i]? = some a →
    (l.set i x).countP p + (if p a then 1 else 0) = l.countP p + (if p x then 1 else 0) := by
  intro l
  induction l with
  | nil => intro i a x h; simp at h
  | cons b l ih =>
    intro i a x h
    cases i with
    | zero =>
      simp at h; subst h
      simp [List.countP_cons]; omega
    | succ i =>
      simp at h
      have := ih i a x h
      simp [List.countP_cons]; omega

theorem countP_eraseIdx_add {α} (p : α → Bool) : ∀ (l : List α) (i : Nat) (a : α), l[i]? = some a →
    (l.eraseIdx i).countP p + (if p a then 1 else 0) = l.countP p := by
  intro l
  induction l with
  | nil => intro i a h; simp at h
  | cons b l ih =>
    intro i a h
    cases i with
    | zero => simp at h; subst h; simp [List.countP_cons]
    | succ i =>
      simp at h
      have := ih i a h
      simp [List.countP_cons]; omega

/-! ### referrers -/

/-- does the object hold a link to Storage σ -/
def holds (σ : Nat) (o : Obj) : Bool := o.storage == some σ

/-- 1 if the object holds a link to σ, else 0 -/
def wt (σ : Nat) (o : Obj) : Nat := if holds σ o then 1 else 0

/-- number of live array objects whose `storage_` is Storage σ -/
def refs (σ : Nat) (pool : List Obj) : Nat := pool.countP (holds σ)

theorem holds_iff {σ : Nat} {o : Obj} : holds σ o = true ↔ o.storage = some σ := by
  simp [holds]

theorem wt_none {σ : Nat} {o : Obj} (h : o.storage = none) : wt σ o = 0 := by
  simp [wt, holds, h]

theorem wt_eq {σ : Nat} {o : Obj} (h : o.storage = some σ) : wt σ o = 1 := by
  simp [wt, holds, h]

theorem wt_ne {σ τ : Nat} {o : Obj} (h : o.storage = some τ) (hne : τ ≠ σ) : wt σ o = 0 := by
  simp [wt, holds, h, hne]

theorem wt_le_one (σ : Nat) (o : Obj) : wt σ o ≤ 1 := by
  unfold wt; split <;> omega

theorem refs_set {σ : Nat} {p : List Obj} {i : Nat} {a x : Obj} (h : p[i]? = some a) :
    refs σ (p.set i x) + wt σ a = refs σ p + wt σ x :=
  countP_set_add (holds σ) p i a x h

theorem refs_erase {σ : Nat} {p : List Obj} {i : Nat} {a : Obj} (h : p[i]? = some a) :
    refs σ (p.eraseIdx i) + wt σ a = refs σ p :=
  countP_eraseIdx_add (holds σ) p i a h

theorem refs_push {σ : Nat} {p : List Obj} {o : Obj} : refs σ (p ++ [o]) = refs σ p + wt σ o := by
  simp [refs, wt, List.countP_append, List.countP_cons]

theorem refs_pos_of_mem {σ : Nat} {p : List Obj} {o : Obj} (hm : o ∈ p) (h : o.storage = some σ) :
    0 < refs σ p :=
  List.countP_pos_iff.mpr ⟨o, hm, holds_iff.mpr h⟩

theorem refs_nil (σ : Nat) : refs σ [] = 0 := rfl

/-! ### the invariant -/

/-- the view lies inside an allocation of `size` elements -/
def Inside (o : Obj) (size : Nat) : Prop :=
  (o.len = 0 → o.off ≤ size) ∧ (0 < o.len → o.off + (o.len - 1) * o.stride < size)

/-- the invariant on the four components it mentions -/
structure InvC (h : List Sto) (p : List Obj) (c d : Nat) : Prop where
  /-- a Storage that has not been deleted has exactly as many links as live objects refer to it, at least one -/
  counts : ∀ σ r, h[σ]? = some r → r.freed = false → r.nLinks = refs σ p ∧ 0 < r.nLinks
  /-- an object holding a Storage holds one that has not been deleted, and its data lie inside it -/
  objs : ∀ o, o ∈ p → ∀ σ, o.storage = some σ →
    ∃ r, h[σ]? = some r ∧ r.freed = false ∧ o.region = .sto σ ∧ Inside o r.size
  /-- data pointers only point at allocations that have existed -/
  inScope : ∀ o, o ∈ p → ∀ σ, o.region = .sto σ → σ < h.length
  created : c = h.length
  deleted : d = h.countP (fun r => r.freed)

def Inv (s : St) : Prop := InvC s.heap s.pool s.created s.deleted

theorem inv_init : Inv init := by
  refine ⟨?_, ?_, ?_, rfl, rfl⟩
  · intro σ r h; simp [init] at h
  · intro o h; simp [init] at h
  · intro o h; simp [init] at h

/-- a deleted Storage has no referrer -/
theorem InvC.freed_no_ref {h p c d} (I : InvC h p c d) {σ r} (hr : h[σ]? = some r) (hf : r.freed = true) :
    refs σ p = 0 := by
  apply Nat.eq_zero_of_not_pos
  intro hpos
  obtain ⟨o, hm, ho⟩ := List.countP_pos_iff.mp hpos
  obtain ⟨r', hr', hf', _⟩ := I.objs o hm σ (holds_iff.mp ho)
  rw [hr] at hr'; cases hr'; rw [hf] at hf'; cases hf'

/-! ### micro-steps -/

theorem invC_push {h p c d} (I : InvC h p c d) {o : Obj} (ho : o.storage = none)
    (hs : ∀ σ, o.region = .sto σ → σ < h.length) : InvC h (p ++ [o]) c d := by
  refine ⟨?_, ?_, ?_, I.created, I.deleted⟩
  · intro σ r hr hf
    rw [refs_push, wt_none ho]; exact I.counts σ r hr hf
  · intro o' hm σ hσ
    rcases List.mem_append.mp hm with hm | hm
    · exact I.objs o' hm σ hσ
    · simp at hm; subst hm; rw [ho] at hσ; cases hσ
  · intro o' hm σ hσ
    rcases List.mem_append.mp hm with hm | hm
    · exact I.inScope o' hm σ hσ
    · simp at hm; subst hm; exact hs σ hσ

theorem invC_set_none {h p c d} (I : InvC h p c d) {i : Nat} {a o : Obj} (ha : p[i]? = some a)
    (has : a.storage = none) (ho : o.storage = none)
    (hs : ∀ σ, o.region = .sto σ → σ < h.length) : InvC h (p.set i o) c d := by
  refine ⟨?_, ?_, ?_, I.created, I.deleted⟩
  · intro σ r hr hf
    have := refs_set (σ := σ) (x := o) ha
    rw [wt_none has, wt_none ho] at this
    have := I.counts σ r hr hf
    omega
  · intro o' hm σ hσ
    rcases List.mem_or_eq_of_mem_set hm with hm | hm
    · exact I.objs o' hm σ hσ
    · subst hm; rw [ho] at hσ; cases hσ
  · intro o' hm σ hσ
    rcases List.mem_or_eq_of_mem_set hm with hm | hm
    · exact I.inScope o' hm σ hσ
    · subst hm; exact hs σ hσ

/-- heap entry after `add_link` -/
def bump (r : Sto) : Sto := { nLinks := r.nLinks + 1, freed := false, size := r.size }

theorem getElem?_set_self' {α} {l : List α} {i : Nat} {a x : α} (h : l[i]? = some a) : (l.set i x)[i]? = some x := by
  have : i < l.length := by
    rcases List.getElem?_eq_some_iff.mp h with ⟨hlt, _⟩; exact hlt
  simp [this]

theorem getElem?_set_ne' {α} {l : List α} {i j : Nat} {x : α} (h : i ≠ j) : (l.set i x)[j]? = l[j]? := by
  simp [h]

theorem countP_freed_set_same {h : List Sto} {σ : Nat} {r r' : Sto} (hr : h[σ]? = some r) (hf : r'.freed = r.freed) :
    (h.set σ r').countP (fun r => r.freed) = h.countP (fun r => r.freed) := by
  have := countP_set_add (fun r : Sto => r.freed) h σ r r' hr
  simp only [hf] at this
  omega

/-- shared core of the linking micro-steps: the heap entry of σ is bumped and the pool gains one referrer of σ -/
theorem invC_link_core {h p p' c d} (I : InvC h p c d) {σ : Nat} {r : Sto} {o : Obj}
    (hr : h[σ]? = some r) (hf : r.freed = false)
    (ho : o.storage = some σ) (hreg : o.region = .sto σ) (hin : Inside o r.size)
    (hrefs : ∀ τ, refs τ p' = refs τ p + wt τ o)
    (hmem : ∀ o', o' ∈ p' → o' ∈ p ∨ o' = o) : InvC (h.set σ (bump r)) p' c d := by
  have hlen : (h.set σ (bump r)).length = h.length := by simp
  refine ⟨?_, ?_, ?_, by rw [hlen]; exact I.created, ?_⟩
  · intro τ r' hr' hf'
    by_cases hτ : σ = τ
    · subst hτ
      rw [getElem?_set_self' hr] at hr'; cases hr'
      have := I.counts σ r hr hf
      rw [hrefs, wt_eq ho]; simp [bump]; omega
    · rw [getElem?_set_ne' hτ] at hr'
      have := I.counts τ r' hr' hf'
      rw [hrefs, wt_ne ho hτ]; simpa using this
  · intro o' hm τ hτ
    have key : ∀ (o'' : Obj) (τ' : Nat) (r'' : Sto), h[τ']? = some r'' → r''.freed = false → o''.region = .sto τ' →
        Inside o'' r''.size →
        ∃ r3, (h.set σ (bump r))[τ']? = some r3 ∧ r3.freed = false ∧ o''.region = .sto τ' ∧ Inside o'' r3.size := by
      intro o'' τ' r'' h1 h2 h3 h4
      by_cases hτ' : σ = τ'
      · subst hτ'
        rw [hr] at h1; cases h1
        exact ⟨bump r, getElem?_set_self' hr, by simp [bump], h3, by simpa [bump] using h4⟩
      · exact ⟨r'', by rw [getElem?_set_ne' hτ']; exact h1, h2, h3, h4⟩
    rcases hmem o' hm with hm | hm
    · obtain ⟨r'', h1, h2, h3, h4⟩ := I.objs o' hm τ hτ
      exact key o' τ r'' h1 h2 h3 h4
    · subst hm
      rw [ho] at hτ; cases hτ
      exact key o' σ r hr hf hreg hin
  · intro o' hm τ hτ
    rw [hlen]
    rcases hmem o' hm with hm | hm
    · exact I.inScope o' hm τ hτ
    · subst hm; rw [hreg] at hτ; cases hτ
      rcases List.getElem?_eq_some_iff.mp hr with ⟨hlt, _⟩; exact hlt
  · rw [countP_freed_set_same hr (by simp [bump, hf])]; exact I.deleted

theorem invC_link_push {h p c d} (I : InvC h p c d) {σ : Nat} {r : Sto} {o : Obj}
    (hr : h[σ]? = some r) (hf : r.freed = false)
    (ho : o.storage = some σ) (hreg : o.region = .sto σ) (hin : Inside o r.size) :
    InvC (h.set σ (bump r)) (p ++ [o]) c d :=
  invC_link_core I hr hf ho hreg hin (fun _ => refs_push)
    (fun o' hm => by
      rcases List.mem_append.mp hm with hm | hm
      · exact Or.inl hm
      · simp at hm; exact Or.inr hm)

theorem invC_link_set {h p c d} (I : InvC h p c d) {σ i : Nat} {r : Sto} {a o : Obj}
    (ha : p[i]? = some a) (has : a.storage = none)
    (hr : h[σ]? = some r) (hf : r.freed = false)
    (ho : o.storage = some σ) (hreg : o.region = .sto σ) (hin : Inside o r.size) :
    InvC (h.set σ (bump r)) (p.set i o) c d :=
  invC_link_core I hr hf ho hreg hin
    (fun τ => by have := refs_set (σ := τ) (x := o) ha; rw [wt_none has] at this; omega)
    (fun o' hm => List.mem_or_eq_of_mem_set hm)

/-- the object `a` with `storage_ = 0` -/
def dropSto (a : Obj) : Obj := { a with storage := none }

/-- `remove_link` + `storage_ = 0` on the object at position `i` -/
theorem invC_release {h p c d} (I : InvC h p c d) {i σ : Nat} {a : Obj}
    (ha : p[i]? = some a) (has : a.storage = some σ) :
    ∃ r, h[σ]? = some r ∧ r.freed = false ∧ 0 < r.nLinks ∧
      (r.nLinks - 1 = 0 →
        InvC (h.set σ { r with nLinks := 0, freed := true }) (p.set i (dropSto a)) c (d + 1)) ∧
      (r.nLinks - 1 ≠ 0 →
        InvC (h.set σ { nLinks := r.nLinks - 1, freed := false, size := r.size }) (p.set i (dropSto a)) c d) := by
  have ham : a ∈ p := List.mem_of_getElem? ha
  obtain ⟨r, hr, hf, hreg, hin⟩ := I.objs a ham σ has
  obtain ⟨hcnt, hpos⟩ := I.counts σ r hr hf
  have hdrop : (dropSto a).storage = none := rfl
  have hrefs : ∀ τ, refs τ (p.set i (dropSto a)) + wt τ a = refs τ p := by
    intro τ
    have := refs_set (σ := τ) (x := dropSto a) ha
    rw [wt_none hdrop] at this; omega
  have hmem : ∀ o', o' ∈ p.set i (dropSto a) → o' ∈ p ∨ o' = dropSto a :=
    fun o' hm => List.mem_or_eq_of_mem_set hm
  have hscoped : ∀ (h' : List Sto), h'.length = h.length →
      ∀ o', o' ∈ p.set i (dropSto a) → ∀ τ, o'.region = .sto τ → τ < h'.length := by
    intro h' hl o' hm τ hτ
    rw [hl]
    rcases hmem o' hm with hm | hm
    · exact I.inScope o' hm τ hτ
    · subst hm; exact I.inScope a ham τ hτ
  refine ⟨r, hr, hf, hpos, ?_, ?_⟩
  · intro h0
    have hone : r.nLinks = 1 := by omega
    refine ⟨?_, ?_, hscoped _ (by simp), by simpa using I.created, ?_⟩
    · intro τ r' hr' hf'
      by_cases hτ : σ = τ
      · subst hτ
        rw [getElem?_set_self' hr] at hr'; cases hr'; simp at hf'
      · rw [getElem?_set_ne' hτ] at hr'
        have := I.counts τ r' hr' hf'
        have h2 := hrefs τ
        rw [wt_ne has hτ] at h2
        omega
    · intro o' hm τ hτ
      have hne : σ ≠ τ := by
        intro e; subst e
        have := refs_pos_of_mem hm hτ
        have h2 := hrefs σ
        rw [wt_eq has] at h2
        omega
      rcases hmem o' hm with hm' | hm'
      · obtain ⟨r'', h1, h2, h3, h4⟩ := I.objs o' hm' τ hτ
        exact ⟨r'', by rw [getElem?_set_ne' hne]; exact h1, h2, h3, h4⟩
      · subst hm'; simp [dropSto] at hτ
    · have := countP_set_add (fun r : Sto => r.freed) h σ r { r with nLinks := 0, freed := true } hr
      simp [hf] at this
      have hd := I.deleted
      omega
  · intro h0
    refine ⟨?_, ?_, hscoped _ (by simp), by simpa using I.created, ?_⟩
    · intro τ r' hr' hf'
      by_cases hτ : σ = τ
      · subst hτ
        rw [getElem?_set_self' hr] at hr'; cases hr'
        have h2 := hrefs σ
        rw [wt_eq has] at h2
        simp; omega
      · rw [getElem?_set_ne' hτ] at hr'
        have := I.counts τ r' hr' hf'
        have h2 := hrefs τ
        rw [wt_ne has hτ] at h2
        omega
    · intro o' hm τ hτ
      rcases hmem o' hm with hm' | hm'
      · obtain ⟨r'', h1, h2, h3, h4⟩ := I.objs o' hm' τ hτ
        by_cases hτ' : σ = τ
        · subst hτ'
          rw [hr] at h1; cases h1
          exact ⟨_, getElem?_set_self' hr, by simp, h3, by simpa using h4⟩
        · exact ⟨r'', by rw [getElem?_set_ne' hτ']; exact h1, h2, h3, h4⟩
      · subst hm'; simp [dropSto] at hτ
    · rw [countP_freed_set_same hr (by simp [hf])]; exact I.deleted

theorem invC_erase_none {h p c d} (I : InvC h p c d) {i : Nat} {a : Obj} (ha : p[i]? = some a)
    (has : a.storage = none) : InvC h (p.eraseIdx i) c d := by
  refine ⟨?_, ?_, ?_, I.created, I.deleted⟩
  · intro σ r hr hf
    have := refs_erase (σ := σ) ha
    rw [wt_none has] at this
    have := I.counts σ r hr hf
    omega
  · intro o hm; exact I.objs o (List.mem_of_mem_eraseIdx hm)
  · intro o hm; exact I.inScope o (List.mem_of_mem_eraseIdx hm)

/-- the object a fresh allocation of `n` elements gives: `data_ = storage_->data()`, `offset_[0] = 1` -/
def ownerOf (σ n : Nat) : Obj := { region := .sto σ, off := 0, storage := some σ, len := n, stride := 1 }

theorem invC_alloc_set {h p c d} (I : InvC h p c d) {i n : Nat} {a : Obj} (ha : p[i]? = some a)
    (has : a.storage = none) (hn : 0 < n) :
    InvC (h ++ [{ nLinks := 1, freed := false, size := n }]) (p.set i (ownerOf h.length n)) (c + 1) d := by
  have hmem : ∀ o', o' ∈ p.set i (ownerOf h.length n) → o' ∈ p ∨ o' = ownerOf h.length n :=
    fun o' hm => List.mem_or_eq_of_mem_set hm
  have hrefs : ∀ τ, refs τ (p.set i (ownerOf h.length n)) = refs τ p + wt τ (ownerOf h.length n) := by
    intro τ
    have := refs_set (σ := τ) (x := ownerOf h.length n) ha
    rw [wt_none has] at this; omega
  have hnew : refs h.length p = 0 := by
    apply Nat.eq_zero_of_not_pos
    intro hpos
    obtain ⟨o, hm, ho⟩ := List.countP_pos_iff.mp hpos
    obtain ⟨r', hr', _⟩ := I.objs o hm h.length (holds_iff.mp ho)
    rcases List.getElem?_eq_some_iff.mp hr' with ⟨hlt, _⟩
    omega
  refine ⟨?_, ?_, ?_, by simp [I.created], ?_⟩
  · intro τ r hr hf
    by_cases hτ : τ < h.length
    · rw [List.getElem?_append_left hτ] at hr
      have := I.counts τ r hr hf
      rw [hrefs, wt_ne (τ := h.length) rfl (by omega)]; simpa using this
    · rw [List.getElem?_append_right (by omega)] at hr
      have : τ = h.length := by
        by_cases e : τ - h.length = 0
        · omega
        · have : ([{ nLinks := 1, freed := false, size := n }] : List Sto)[τ - h.length]? = none := by
            apply List.getElem?_eq_none; simp; omega
          rw [this] at hr; cases hr
      subst this
      simp at hr; subst hr
      rw [hrefs, hnew, wt_eq rfl]; simp
  · intro o' hm τ hτ
    rcases hmem o' hm with hm' | hm'
    · obtain ⟨r'', h1, h2, h3, h4⟩ := I.objs o' hm' τ hτ
      rcases List.getElem?_eq_some_iff.mp h1 with ⟨hlt, _⟩
      exact ⟨r'', by rw [List.getElem?_append_left hlt]; exact h1, h2, h3, h4⟩
    · subst hm'
      simp [ownerOf] at hτ; subst hτ
      refine ⟨{ nLinks := 1, freed := false, size := n }, by simp, rfl, rfl, ?_⟩
      constructor
      · intro h0; simp [ownerOf] at h0; omega
      · intro _; simp [ownerOf]; omega
  · intro o' hm τ hτ
    simp
    rcases hmem o' hm with hm' | hm'
    · have := I.inScope o' hm' τ hτ; omega
    · subst hm'; simp [ownerOf] at hτ; omega
  · simp [List.countP_append]; exact I.deleted

theorem invC_swap {h p c d} (I : InvC h p c d) {i j : Nat} {a b : Obj} (ha : p[i]? = some a) (hb : p[j]? = some b) :
    InvC h ((p.set i b).set j a) c d := by
  have hj : (p.set i b)[j]? = some b := by
    by_cases e : i = j
    · subst e; exact getElem?_set_self' ha
    · rw [getElem?_set_ne' e]; exact hb
  have hrefs : ∀ τ, refs τ ((p.set i b).set j a) = refs τ p := by
    intro τ
    have h1 := refs_set (σ := τ) (x := b) ha
    have h2 := refs_set (σ := τ) (x := a) hj
    omega
  have hmem : ∀ o', o' ∈ (p.set i b).set j a → o' ∈ p := by
    intro o' hm
    rcases List.mem_or_eq_of_mem_set hm with hm | hm
    · rcases List.mem_or_eq_of_mem_set hm with hm | hm
      · exact hm
      · subst hm; exact List.mem_of_getElem? hb
    · subst hm; exact List.mem_of_getElem? ha
  refine ⟨?_, ?_, ?_, I.created, I.deleted⟩
  · intro σ r hr hf; rw [hrefs]; exact I.counts σ r hr hf
  · intro o hm; exact I.objs o (hmem o hm)
  · intro o hm; exact I.inScope o (hmem o hm)

/-! ### the operations preserve the invariant -/

/-- the new object `o` may be stored in state `s`: what it holds is alive and contains its data -/
structure Fits (s : St) (o : Obj) : Prop where
  scope : ∀ σ, o.region = .sto σ → σ < s.heap.length
  held : ∀ σ, o.storage = some σ → ∃ r, s.heap[σ]? = some r ∧ r.freed = false ∧ o.region = .sto σ ∧ Inside o r.size

theorem fits_of_mem {s : St} (I : Inv s) {o : Obj} (hm : o ∈ s.pool) : Fits s o :=
  ⟨I.inScope o hm, I.objs o hm⟩

theorem fits_blank (s : St) : Fits s {} := ⟨(by intro σ h; cases h), (by intro σ h; cases h)⟩

theorem inv_of_same {s s' : St} (I : Inv s) (h1 : s'.heap = s.heap) (h2 : s'.pool = s.pool)
    (h3 : s'.created = s.created) (h4 : s'.deleted = s.deleted) : Inv s' := by
  unfold Inv; rw [h1, h2, h3, h4]; exact I

theorem dropSto_of_none {a : Obj} (h : a.storage = none) : dropSto a = a := by
  cases a; simp [dropSto] at *; exact h.symm

theorem list_set_same {α} {l : List α} {i : Nat} {a : α} (h : l[i]? = some a) : l.set i a = l := by
  rcases List.getElem?_eq_some_iff.mp h with ⟨hlt, he⟩
  subst he; exact List.set_getElem_self hlt

/-- `if (storage_) { storage_->remove_link(); storage_ = 0; }` never faults under the invariant, and keeps it -/
theorem releaseAt_spec {s s' : St} {i : Nat} (I : Inv s) (h : releaseAt s i = .ok s') :
    Inv s' ∧ ∃ a, s.pool[i]? = some a ∧ s'.pool = s.pool.set i (dropSto a) ∧
      s'.heap.length = s.heap.length ∧ s'.smem = s.smem ∧ s'.exts = s.exts ∧
      (∀ τ r, s.heap[τ]? = some r → a.storage ≠ some τ → s'.heap[τ]? = some r) := by
  unfold releaseAt getObj at h
  cases ha : s.pool[i]? with
  | none => simp [ha] at h
  | some a =>
    simp only [ha] at h
    cases has : a.storage with
    | none =>
      simp only [has] at h
      cases h
      refine ⟨I, a, rfl, ?_, rfl, rfl, rfl, fun τ r hr _ => hr⟩
      rw [dropSto_of_none has, list_set_same ha]
    | some σ =>
      simp only [has] at h
      obtain ⟨r, hr, hf, hpos, h0, h1⟩ := invC_release I ha has
      have hne : r.nLinks ≠ 0 := by omega
      unfold removeLink at h
      simp only [hr, hf, hne] at h
      by_cases hz : r.nLinks - 1 = 0
      · simp [hz] at h
        subst h
        refine ⟨h0 hz, a, rfl, rfl, by simp [setObj], rfl, rfl, ?_⟩
        intro τ r' hr' hne'
        have : σ ≠ τ := fun e => hne' (by rw [← e]; exact has)
        simp [setObj, getElem?_set_ne' this, hr']
      · simp [hz] at h
        subst h
        refine ⟨h1 hz, a, rfl, rfl, by simp [setObj], rfl, rfl, ?_⟩
        intro τ r' hr' hne'
        have : σ ≠ τ := fun e => hne' (by rw [← e]; exact has)
        simp [setObj, getElem?_set_ne' this, hr']

theorem clearAt_spec {s s' : St} {i : Nat} (I : Inv s) (h : clearAt s i = .ok s') :
    Inv s' ∧ ∃ a, s.pool[i]? = some a ∧ s'.pool = s.pool.set i {} ∧ s'.heap.length = s.heap.length ∧
      s'.smem = s.smem ∧ s'.exts = s.exts := by
  unfold clearAt at h
  cases hr : releaseAt s i with
  | error e => simp [hr] at h
  | ok s1 =>
    simp only [hr] at h
    cases h
    obtain ⟨I1, a, ha, hp, hl, hm, he, _⟩ := releaseAt_spec I hr
    have hi : s1.pool[i]? = some (dropSto a) := by rw [hp]; exact getElem?_set_self' ha
    refine ⟨?_, a, ha, ?_, hl, hm, he⟩
    · exact invC_set_none I1 hi rfl rfl (by intro σ h; cases h)
    · simp [setObj, hp]

theorem resizeAt_inv {s s' : St} {i : Nat} {n v0 : Int} (I : Inv s) (h : resizeAt s i n v0 = .ok s') : Inv s' := by
  unfold resizeAt at h
  cases hg : getObj s i with
  | error e => simp [hg] at h
  | ok a0 =>
    simp only [hg] at h
    by_cases hneg : n < 0
    · simp [hneg] at h
    · simp only [hneg, if_false] at h
      by_cases hz : n = 0
      · simp only [hz, if_true] at h
        exact (clearAt_spec I h).1
      · simp only [hz, if_false] at h
        cases hr : releaseAt s i with
        | error e => simp [hr] at h
        | ok s1 =>
          simp only [hr] at h
          cases h
          obtain ⟨I1, a, ha, hp, _⟩ := releaseAt_spec I hr
          have hi : s1.pool[i]? = some (dropSto a) := by rw [hp]; exact getElem?_set_self' ha
          have hn : 0 < n.toNat := by omega
          exact invC_alloc_set I1 hi rfl hn

theorem destroyAt_inv {s s' : St} {i : Nat} (I : Inv s) (h : destroyAt s i = .ok s') : Inv s' := by
  unfold destroyAt at h
  cases hr : releaseAt s i with
  | error e => simp [hr] at h
  | ok s1 =>
    simp only [hr] at h
    cases h
    obtain ⟨I1, a, ha, hp, _⟩ := releaseAt_spec I hr
    have hi : s1.pool[i]? = some (dropSto a) := by rw [hp]; exact getElem?_set_self' ha
    exact invC_erase_none I1 hi rfl

theorem push_inv {s : St} (I : Inv s) {o : Obj} (ho : o.storage = none) (hs : ∀ σ, o.region = .sto σ → σ < s.heap.length) :
    Inv (push s o) := invC_push I ho hs

theorem newAt_inv {s s' : St} {n v0 : Int} (I : Inv s) (h : newAt s n v0 = .ok s') : Inv s' := by
  unfold newAt at h
  exact resizeAt_inv (push_inv I rfl (by intro σ h; cases h)) h

theorem newExternalAt_inv {s s' : St} {x off n : Nat} (I : Inv s) (h : newExternalAt s x off n = .ok s') : Inv s' := by
  unfold newExternalAt at h
  cases he : s.exts[x]? with
  | none => simp [he] at h
  | some e =>
    simp only [he] at h
    split at h
    · cases h; exact push_inv I rfl (by intro σ h; cases h)
    · cases h

/-- `add_link` + append of an object that fits -/
theorem linkNew_inv {s s' : St} {o : Obj} (I : Inv s) (F : Fits s o) (h : linkNew s o = .ok s') : Inv s' := by
  unfold linkNew at h
  cases ho : o.storage with
  | none =>
    simp only [ho] at h; cases h
    exact push_inv I ho F.scope
  | some σ =>
    simp only [ho] at h
    obtain ⟨r, hr, hf, hreg, hin⟩ := F.held σ ho
    unfold addLink at h
    simp only [hr, hf] at h
    simp at h; subst h
    exact invC_link_push I hr hf ho hreg hin

theorem copyCtorAt_inv {s s' : St} {j : Nat} (I : Inv s) (h : copyCtorAt s j = .ok s') : Inv s' := by
  unfold copyCtorAt getObj at h
  cases hb : s.pool[j]? with
  | none => simp [hb] at h
  | some b =>
    simp only [hb] at h
    exact linkNew_inv I (fits_of_mem I (List.mem_of_getElem? hb)) h

theorem softLinkAt_inv {s s' : St} {j : Nat} (I : Inv s) (h : softLinkAt s j = .ok s') : Inv s' := by
  unfold softLinkAt getObj at h
  cases hb : s.pool[j]? with
  | none => simp [hb] at h
  | some b =>
    simp only [hb] at h; cases h
    exact push_inv I rfl (I.inScope b (List.mem_of_getElem? hb))

/-- a slice that stays within its source stays within the source's allocation -/
theorem inside_slice {b : Obj} {size lo n st : Nat}
    (hb : Inside b size) (hg : (n = 0 ∧ lo < b.len) ∨ (0 < n ∧ lo + (n - 1) * st < b.len)) :
    Inside { region := b.region, off := b.off + lo * b.stride, storage := b.storage, len := n, stride := st * b.stride } size := by
  have key : ∀ m, m < b.len → b.off + m * b.stride < size := by
    intro m hm
    have h1 := hb.2 (by omega)
    have : m * b.stride ≤ (b.len - 1) * b.stride := Nat.mul_le_mul_right _ (by omega)
    omega
  constructor
  · intro h0
    simp at h0
    rcases hg with ⟨_, hlo⟩ | ⟨hn, _⟩
    · have := key lo hlo; simp; omega
    · omega
  · intro hpos
    simp at hpos
    rcases hg with ⟨hn, _⟩ | ⟨_, hlt⟩
    · omega
    · have := key _ hlt
      have e : (lo + (n - 1) * st) * b.stride = lo * b.stride + (n - 1) * (st * b.stride) := by
        rw [Nat.add_mul, Nat.mul_assoc]
      simp; omega

theorem sliceAt_inv {s s' : St} {j lo hi st : Nat} (I : Inv s) (h : sliceAt s j lo hi st = .ok s') : Inv s' := by
  unfold sliceAt getObj at h
  cases hb : s.pool[j]? with
  | none => simp [hb] at h
  | some b =>
    simp only [hb] at h
    split at h
    · cases h
    · split at h
      · rename_i hg
        have hm := List.mem_of_getElem? hb
        refine linkNew_inv I ⟨?_, ?_⟩ h
        · intro σ hσ; exact I.inScope b hm σ hσ
        · intro σ hσ
          obtain ⟨r, hr, hf, hreg, hin⟩ := I.objs b hm σ hσ
          exact ⟨r, hr, hf, hreg, inside_slice hin hg⟩
      · cases h

theorem linkAt_inv {s s' : St} {i j : Nat} (I : Inv s) (h : linkAt s i j = .ok s') : Inv s' := by
  unfold linkAt at h
  cases hgi : getObj s i with
  | error e => simp [hgi] at h
  | ok a0 =>
    cases hgj : getObj s j with
    | error e => simp [hgi, hgj] at h
    | ok b =>
      simp only [hgi, hgj] at h
      split at h
      · cases h
      · cases hc : clearAt s i with
        | error e => simp [hc] at h
        | ok s1 =>
          simp only [hc] at h
          obtain ⟨I1, a, ha, hp, _⟩ := clearAt_spec I hc
          have hi : s1.pool[i]? = some {} := by rw [hp]; exact getElem?_set_self' ha
          unfold getObj at h
          cases hb1 : s1.pool[j]? with
          | none => simp [hb1] at h
          | some b1 =>
            simp only [hb1] at h
            have F := fits_of_mem I1 (List.mem_of_getElem? hb1)
            cases hs : b1.storage with
            | none =>
              simp only [hs] at h; cases h
              exact invC_set_none I1 hi rfl hs F.scope
            | some σ =>
              simp only [hs] at h
              obtain ⟨r, hr, hf, hreg, hin⟩ := F.held σ hs
              unfold addLink at h
              simp only [hr, hf] at h
              simp at h; subst h
              exact invC_link_set I1 hi rfl hr hf hs hreg hin

theorem writeCell_frame {s s' : St} {r : Region} {c : Nat} {v : Int} (h : writeCell s r c v = .ok s') :
    s'.heap = s.heap ∧ s'.pool = s.pool ∧ s'.created = s.created ∧ s'.deleted = s.deleted := by
  unfold writeCell at h
  split at h
  · cases h
  · split at h
    · split at h
      · cases h
      · split at h
        · cases h; exact ⟨rfl, rfl, rfl, rfl⟩
        · cases h
    · cases h
  · split at h
    · split at h
      · cases h; exact ⟨rfl, rfl, rfl, rfl⟩
      · cases h
    · cases h

theorem writeFrom_frame {o : Obj} : ∀ (vs : List Int) (s s' : St) (k : Nat), writeFrom s o k vs = .ok s' →
    s'.heap = s.heap ∧ s'.pool = s.pool ∧ s'.created = s.created ∧ s'.deleted = s.deleted := by
  intro vs
  induction vs with
  | nil => intro s s' k h; simp [writeFrom] at h; subst h; exact ⟨rfl, rfl, rfl, rfl⟩
  | cons v vs ih =>
    intro s s' k h
    unfold writeFrom at h
    cases hw : writeCell s o.region (cellOf o k) v with
    | error e => simp [hw] at h
    | ok s1 =>
      simp only [hw] at h
      obtain ⟨a1, a2, a3, a4⟩ := writeCell_frame hw
      obtain ⟨b1, b2, b3, b4⟩ := ih s1 s' (k + 1) h
      exact ⟨b1.trans a1, b2.trans a2, b3.trans a3, b4.trans a4⟩

theorem assignCopyAt_inv {s s' : St} {i j : Nat} (I : Inv s) (h : assignCopyAt s i j = .ok s') : Inv s' := by
  unfold assignCopyAt at h
  cases hgi : getObj s i with
  | error e => simp [hgi] at h
  | ok a =>
    cases hgj : getObj s j with
    | error e => simp [hgi, hgj] at h
    | ok b =>
      simp only [hgi, hgj] at h
      split at h
      · cases h
      · rename_i s1 hs1
        have I1 : Inv s1 := by
          split at hs1
          · exact resizeAt_inv I hs1
          · split at hs1
            · cases hs1
            · cases hs1; exact I
        split at h
        · cases h
        · cases h
        · split at h
          · cases h; exact I1
          · split at h
            · cases h
            · obtain ⟨a1, a2, a3, a4⟩ := writeFrom_frame _ _ _ _ h
              exact inv_of_same I1 a1 a2 a3 a4

theorem assignMoveAt_inv {s s' : St} {i j : Nat} (I : Inv s) (h : assignMoveAt s i j = .ok s') : Inv s' := by
  unfold assignMoveAt at h
  cases hgi : getObj s i with
  | error e => simp [hgi] at h
  | ok a =>
    cases hgj : getObj s j with
    | error e => simp [hgi, hgj] at h
    | ok b =>
      simp only [hgi, hgj] at h
      have ha : s.pool[i]? = some a := by
        unfold getObj at hgi; split at hgi
        · cases hgi; assumption
        · cases hgi
      have hb : s.pool[j]? = some b := by
        unfold getObj at hgj; split at hgj
        · cases hgj; assumption
        · cases hgj
      split at h
      · cases h
      · exact assignCopyAt_inv I h
      · split at h
        · cases h
        · exact assignCopyAt_inv I h
        · split at h
          · cases h; exact invC_swap I ha hb
          · cases h

theorem writeAt_inv {s s' : St} {i k : Nat} {v : Int} (I : Inv s) (h : writeAt s i k v = .ok s') : Inv s' := by
  unfold writeAt at h
  cases hg : getObj s i with
  | error e => simp [hg] at h
  | ok a =>
    simp only [hg] at h
    split at h
    · obtain ⟨a1, a2, a3, a4⟩ := writeCell_frame h
      exact inv_of_same I a1 a2 a3 a4
    · cases h

theorem xwriteAt_inv {s s' : St} {x k : Nat} {v : Int} (I : Inv s) (h : xwriteAt s x k v = .ok s') : Inv s' := by
  unfold xwriteAt at h
  split at h
  · cases h
  · split at h
    · cases h; exact I
    · cases h

theorem xendAt_inv {s s' : St} {x : Nat} (I : Inv s) (h : xendAt s x = .ok s') : Inv s' := by
  unfold xendAt at h
  split at h
  · cases h
  · split at h
    · cases h; exact I
    · cases h

/-- every operation that completes preserves the invariant -/
theorem inv_step {s s' : St} (op : Op) (I : Inv s) (h : step s op = .ok s') : Inv s' := by
  cases op with
  | xnew n v0 => simp [step] at h; subst h; exact I
  | xwrite x k v => exact xwriteAt_inv I h
  | xend x => exact xendAt_inv I h
  | new n v0 => exact newAt_inv I h
  | newEmpty => simp [step, newEmptyAt] at h; subst h; exact push_inv I rfl (by intro σ h; cases h)
  | newExternal x off n => exact newExternalAt_inv I h
  | copyCtor j => exact copyCtorAt_inv I h
  | slice j lo hi st => exact sliceAt_inv I h
  | softLink j => exact softLinkAt_inv I h
  | link i j => exact linkAt_inv I h
  | assignCopy i j => exact assignCopyAt_inv I h
  | assignMove i j => exact assignMoveAt_inv I h
  | resize i n v0 => exact resizeAt_inv I h
  | clear i => exact (clearAt_spec I h).1
  | destroy i => exact destroyAt_inv I h
  | write i k v => exact writeAt_inv I h

theorem inv_stepOrStay {s : St} (op : Op) (I : Inv s) : Inv (stepOrStay s op) := by
  unfold stepOrStay
  cases h : step s op with
  | error e => exact I
  | ok s' => exact inv_step op I h

theorem inv_run (ops : List Op) {s : St} (I : Inv s) : Inv (run s ops) := by
  induction ops generalizing s with
  | nil => exact I
  | cons op ops ih => exact ih (inv_stepOrStay op I)

/-! ### release happens once; nothing leaks -/

/-- a deleted Storage can be neither released nor linked again: in the model that is a fault, not a second delete -/
theorem freed_is_final {s : St} {σ : Nat} {r : Sto} (hr : s.heap[σ]? = some r) (hf : r.freed = true) :
    removeLink s σ = .error .fault ∧ addLink s σ = .error .fault ∧ nLinksOf s σ = .error .fault := by
  simp [removeLink, addLink, nLinksOf, hr, hf]

/-- `remove_link` at zero links throws `invalid_operation` and changes nothing -/
theorem removeLink_at_zero {s : St} {σ : Nat} {r : Sto} (hr : s.heap[σ]? = some r) (hf : r.freed = false)
    (h0 : r.nLinks = 0) : removeLink s σ = .error .invalidOperation := by
  simp [removeLink, hr, hf, h0]

/-- `remove_link` deletes exactly when it takes the last link, and counts the deletion once -/
theorem removeLink_deletes_iff {s s' : St} {σ : Nat} {r : Sto} (hr : s.heap[σ]? = some r)
    (h : removeLink s σ = .ok s') :
    r.freed = false ∧ 0 < r.nLinks ∧
    ((r.nLinks = 1 ∧ s'.heap[σ]? = some { nLinks := 0, freed := true, size := r.size } ∧ s'.deleted = s.deleted + 1) ∨
     (1 < r.nLinks ∧ s'.heap[σ]? = some { nLinks := r.nLinks - 1, freed := false, size := r.size } ∧ s'.deleted = s.deleted)) := by
  unfold removeLink at h
  simp only [hr] at h
  cases hf : r.freed with
  | true => simp [hf] at h
  | false =>
    simp only [hf] at h
    by_cases h0 : r.nLinks = 0
    · simp [h0] at h
    · simp only [h0, if_false] at h
      by_cases h1 : r.nLinks - 1 = 0
      · simp [h1] at h; subst h
        refine ⟨rfl, by omega, Or.inl ⟨by omega, ?_, rfl⟩⟩
        exact getElem?_set_self' hr
      · simp [h1] at h; subst h
        refine ⟨rfl, by omega, Or.inr ⟨by omega, ?_, rfl⟩⟩
        exact getElem?_set_self' hr

/-- under the invariant `n_storage_objects()` is the number of Storage objects not yet deleted -/
theorem nStorageObjects_eq {s : St} (I : Inv s) :
    nStorageObjects s = (s.heap.countP (fun r => !r.freed) : Nat) := by
  have h1 := I.created
  have h2 := I.deleted
  have h3 := List.length_eq_countP_add_countP (fun r : Sto => r.freed) (l := s.heap)
  have h4 : s.heap.countP (fun a : Sto => decide ¬a.freed = true) = s.heap.countP (fun r => !r.freed) := by
    congr 1; funext r; cases r.freed <;> simp
  unfold nStorageObjects
  omega

/-- empty pool ⇒ every Storage ever created has been deleted ⇒ created − deleted = 0 -/
theorem no_leak {s : St} (I : Inv s) (hp : s.pool = []) :
    (∀ (σ : Nat) (r : Sto), s.heap[σ]? = some r → r.freed = true) ∧ nStorageObjects s = 0 := by
  have hall : ∀ (σ : Nat) (r : Sto), s.heap[σ]? = some r → r.freed = true := by
    intro σ r hr
    cases hf : r.freed with
    | true => rfl
    | false =>
      have := I.counts σ r hr hf
      rw [hp, refs_nil] at this
      omega
  refine ⟨hall, ?_⟩
  have hc : s.heap.countP (fun r => r.freed) = s.heap.length := by
    apply List.countP_eq_length.mpr
    intro r hm
    obtain ⟨σ, hσ⟩ := List.mem_iff_getElem?.mp hm
    exact hall σ r hσ
  have h1 := I.created
  have h2 := I.deleted
  unfold nStorageObjects
  omega

/-! ### who shares with whom -/

theorem getObj_ok {s : St} {i : Nat} {a : Obj} : getObj s i = .ok a ↔ s.pool[i]? = some a := by
  unfold getObj
  cases h : s.pool[i]? <;> simp

/-- heap after a linking constructor / `link`: the source's Storage gains exactly one link, nothing else moves -/
def heapLinked (s s' : St) (o : Obj) : Prop :=
  match o.storage with
  | none => s'.heap = s.heap
  | some σ => ∃ r, s.heap[σ]? = some r ∧ r.freed = false ∧ s'.heap = s.heap.set σ (bump r)

theorem linkNew_spec {s s' : St} {o : Obj} (h : linkNew s o = .ok s') :
    s'.pool = s.pool ++ [o] ∧ heapLinked s s' o ∧ s'.smem = s.smem ∧ s'.exts = s.exts := by
  unfold linkNew at h
  unfold heapLinked
  cases ho : o.storage with
  | none => simp only [ho] at h; cases h; exact ⟨rfl, rfl, rfl, rfl⟩
  | some σ =>
    simp only [ho] at h
    unfold addLink at h
    cases hr : s.heap[σ]? with
    | none => simp [hr] at h
    | some r =>
      simp only [hr] at h
      cases hf : r.freed with
      | true => simp [hf] at h
      | false =>
        simp [hf] at h; subst h
        exact ⟨rfl, ⟨r, hr, hf, by simp [push, bump]⟩, rfl, rfl⟩

/-- copy construction: the new object is the source's (data pointer, storage, extent, stride), one link added -/
theorem copyCtor_shares {s s' : St} {j : Nat} {b : Obj} (h : copyCtorAt s j = .ok s') (hb : s.pool[j]? = some b) :
    s'.pool = s.pool ++ [b] ∧ heapLinked s s' b := by
  unfold copyCtorAt at h
  rw [getObj_ok.mpr hb] at h
  obtain ⟨h1, h2, _⟩ := linkNew_spec h
  exact ⟨h1, h2⟩

/-- slicing: the new object points into the source's allocation and holds the source's storage, one link added -/
theorem slice_shares {s s' : St} {j lo hi st : Nat} {b : Obj} (h : sliceAt s j lo hi st = .ok s') (hb : s.pool[j]? = some b) :
    ∃ o, s'.pool = s.pool ++ [o] ∧ o.region = b.region ∧ o.storage = b.storage ∧ heapLinked s s' o := by
  unfold sliceAt at h
  rw [getObj_ok.mpr hb] at h
  simp only at h
  split at h
  · cases h
  · split at h
    · obtain ⟨h1, h2, _⟩ := linkNew_spec h
      exact ⟨_, h1, rfl, rfl, h2⟩
    · cases h

/-- soft link: same view, no storage, no count touched -/
theorem softLink_holds_nothing {s s' : St} {j : Nat} {b : Obj} (h : softLinkAt s j = .ok s') (hb : s.pool[j]? = some b) :
    s'.pool = s.pool ++ [{ b with storage := none }] ∧ s'.heap = s.heap ∧ s'.created = s.created ∧ s'.deleted = s.deleted := by
  unfold softLinkAt at h
  rw [getObj_ok.mpr hb] at h
  cases h; exact ⟨rfl, rfl, rfl, rfl⟩

/-- array over external memory: no storage, no count touched -/
theorem newExternal_holds_nothing {s s' : St} {x off n : Nat} (h : newExternalAt s x off n = .ok s') :
    s'.pool = s.pool ++ [{ region := .ext x, off := off, storage := none, len := n, stride := 1 }] ∧
    s'.heap = s.heap ∧ s'.created = s.created ∧ s'.deleted = s.deleted := by
  unfold newExternalAt at h
  split at h
  · cases h
  · split at h
    · cases h; exact ⟨rfl, rfl, rfl, rfl⟩
    · cases h

/-- `a.link(b)`, a ≠ b: afterwards `a` is `b`'s (data pointer, storage, extent, stride) -/
theorem link_shares {s s' : St} {i j : Nat} {b : Obj} (I : Inv s) (hij : i ≠ j)
    (h : linkAt s i j = .ok s') (hb : s.pool[j]? = some b) :
    s'.pool = s.pool.set i b ∧ b.region ≠ .null := by
  unfold linkAt at h
  cases hgi : getObj s i with
  | error e => simp [hgi] at h
  | ok a0 =>
    rw [getObj_ok.mpr hb] at h
    simp only [hgi] at h
    split at h
    · cases h
    · rename_i hnull
      cases hc : clearAt s i with
      | error e => simp [hc] at h
      | ok s1 =>
        simp only [hc] at h
        obtain ⟨_, a, ha, hp, _⟩ := clearAt_spec I hc
        have hb1 : s1.pool[j]? = some b := by rw [hp, getElem?_set_ne' hij]; exact hb
        rw [getObj_ok.mpr hb1] at h
        simp only at h
        cases hs : b.storage with
        | none => simp only [hs] at h; cases h; exact ⟨by simp [setObj, hp], hnull⟩
        | some σ =>
          simp only [hs] at h
          cases hadd : addLink s1 σ with
          | error e => simp [hadd] at h
          | ok s2 =>
            simp only [hadd] at h
            cases h
            have : s2.pool = s1.pool := by
              unfold addLink at hadd
              split at hadd
              · cases hadd
              · split at hadd
                · cases hadd
                · cases hadd; rfl
            exact ⟨by simp [setObj, this, hp], hnull⟩

/-! ### assignment -/

theorem resizeAt_spec {s s' : St} {i : Nat} {n : Nat} {v0 : Int} (I : Inv s) (h : resizeAt s i (n : Int) v0 = .ok s') :
    (n = 0 → s'.pool = s.pool.set i {}) ∧
    (n ≠ 0 → s'.pool = s.pool.set i (ownerOf s.heap.length n) ∧
             s'.heap[s.heap.length]? = some { nLinks := 1, freed := false, size := n }) := by
  unfold resizeAt at h
  cases hg : getObj s i with
  | error e => simp [hg] at h
  | ok a0 =>
    simp only [hg] at h
    have hneg : ¬ ((n : Int) < 0) := by omega
    simp only [hneg, if_false] at h
    by_cases hz : n = 0
    · subst hz
      simp only [Int.natCast_zero, if_true] at h
      obtain ⟨_, a, ha, hp, _⟩ := clearAt_spec I h
      exact ⟨fun _ => hp, fun hn => absurd rfl hn⟩
    · have hz' : ¬ ((n : Int) = 0) := by omega
      simp only [hz', if_false] at h
      cases hr : releaseAt s i with
      | error e => simp [hr] at h
      | ok s1 =>
        simp only [hr] at h
        cases h
        obtain ⟨_, a, ha, hp, hl, _⟩ := releaseAt_spec I hr
        refine ⟨fun hn => absurd hn hz, fun _ => ⟨?_, ?_⟩⟩
        · simp [setObj, newStorage, hp, hl, ownerOf]
        · simp [setObj, newStorage, ← hl]

/-- where the target of `a = b` ends up -/
inductive Owns (s s' : St) (i j : Nat) (a b : Obj) : Prop
  /-- the values were stored through the target's existing view; no object and no count changed -/
  | inPlace (hlen : a.len ≠ 0) (hp : s'.pool = s.pool) (hh : s'.heap = s.heap)
  /-- empty := empty : the target is the cleared array -/
  | emptied (ha : a.len = 0) (hp : s'.pool = s.pool.set i {})
  /-- the target was empty and now owns a Storage created by this assignment -/
  | fresh (ha : a.len = 0) (hb : b.len ≠ 0) (hp : s'.pool = s.pool.set i (ownerOf s.heap.length b.len))
      (hh : s'.heap[s.heap.length]? = some { nLinks := 1, freed := false, size := b.len })
  /-- move assignment swapped: the source owned an unshared Storage, which the target now holds, and the
      source holds what the target had -/
  | stolen (σ : Nat) (r : Sto) (hb : b.storage = some σ) (hr : s.heap[σ]? = some r) (hone : r.nLinks = 1)
      (hl : a.len = 0 ∨ ∃ τ rt, a.storage = some τ ∧ s.heap[τ]? = some rt ∧ rt.nLinks = 1)
      (hp : s'.pool = (s.pool.set i b).set j a) (hh : s'.heap = s.heap)

theorem assignCopyAt_owns {s s' : St} {i j : Nat} {a b : Obj} (I : Inv s)
    (ha : s.pool[i]? = some a) (hb : s.pool[j]? = some b)
    (h : assignCopyAt s i j = .ok s') : Owns s s' i j a b := by
  unfold assignCopyAt at h
  rw [getObj_ok.mpr ha, getObj_ok.mpr hb] at h
  simp only at h
  split at h
  · cases h
  · rename_i s1 hs1
    by_cases hal : a.len = 0
    · simp only [hal, if_true] at hs1
      have I1 := resizeAt_inv I hs1
      obtain ⟨hz, hnz⟩ := resizeAt_spec I hs1
      -- the rest only stores values
      have hrest : s'.pool = s1.pool ∧ s'.heap = s1.heap := by
        split at h
        · cases h
        · cases h
        · split at h
          · cases h; exact ⟨rfl, rfl⟩
          · split at h
            · cases h
            · obtain ⟨a1, a2, _, _⟩ := writeFrom_frame _ _ _ _ h
              exact ⟨a2, a1⟩
      by_cases hbl : b.len = 0
      · exact .emptied hal (by rw [hrest.1]; exact hz hbl)
      · obtain ⟨h1, h2⟩ := hnz hbl
        exact .fresh hal hbl (by rw [hrest.1]; exact h1) (by rw [hrest.2]; exact h2)
    · simp only [hal, if_false] at hs1
      split at hs1
      · cases hs1
      · cases hs1
        rw [getObj_ok.mpr ha, getObj_ok.mpr hb] at h
        simp only [hal, if_false] at h
        split at h
        · cases h
        · obtain ⟨a1, a2, _, _⟩ := writeFrom_frame _ _ _ _ h
          exact .inPlace hal a2 a1

theorem ownsUnshared_true {s : St} {o : Obj} (h : ownsUnshared s o = .ok true) :
    ∃ σ r, o.storage = some σ ∧ s.heap[σ]? = some r ∧ r.nLinks = 1 := by
  unfold ownsUnshared at h
  cases ho : o.storage with
  | none => simp [ho] at h
  | some σ =>
    simp only [ho] at h
    unfold nLinksOf at h
    cases hr : s.heap[σ]? with
    | none => simp [hr] at h
    | some r =>
      simp only [hr] at h
      cases hf : r.freed with
      | true => simp [hf] at h
      | false =>
        simp [hf] at h
        exact ⟨σ, r, rfl, hr, h⟩

/-- `assign_owns`: after `a = b` (copy or move, repaired code) the target is where it was, or empty, or owns a
    Storage that is new or was the source's own unshared one -/
theorem assignMoveAt_owns {s s' : St} {i j : Nat} {a b : Obj} (I : Inv s)
    (ha : s.pool[i]? = some a) (hb : s.pool[j]? = some b)
    (h : assignMoveAt s i j = .ok s') : Owns s s' i j a b := by
  unfold assignMoveAt at h
  rw [getObj_ok.mpr ha, getObj_ok.mpr hb] at h
  simp only at h
  split at h
  · cases h
  · exact assignCopyAt_owns I ha hb h
  · rename_i hl
    split at h
    · cases h
    · exact assignCopyAt_owns I ha hb h
    · rename_i hrhs
      obtain ⟨σ, r, h1, h2, h3⟩ := ownsUnshared_true hrhs
      split at h
      · cases h
        refine .stolen σ r h1 h2 h3 ?_ rfl rfl
        by_cases hal : a.len = 0
        · exact Or.inl hal
        · simp only [hal, if_false] at hl
          obtain ⟨τ, rt, t1, t2, t3⟩ := ownsUnshared_true hl
          exact Or.inr ⟨τ, rt, t1, t2, t3⟩
      · cases h

/-- two different positions holding σ ⇒ at least two referrers -/
theorem two_refs {p : List Obj} {i j σ : Nat} {a b : Obj} (hij : i ≠ j) (ha : p[i]? = some a) (hb : p[j]? = some b)
    (has : a.storage = some σ) (hbs : b.storage = some σ) : 2 ≤ refs σ p := by
  have h1 := refs_set (σ := σ) (x := dropSto a) ha
  rw [wt_eq has, wt_none (show (dropSto a).storage = none from rfl)] at h1
  have hb' : (p.set i (dropSto a))[j]? = some b := by rw [getElem?_set_ne' hij]; exact hb
  have := refs_pos_of_mem (List.mem_of_getElem? hb') hbs
  omega

/-- after the assignment the target never *becomes* a view of external memory -/
theorem owns_not_external {s s' : St} {i j : Nat} {a b a' : Obj} (I : Inv s) (O : Owns s s' i j a b)
    (ha : s.pool[i]? = some a) (hb : s.pool[j]? = some b) (hij : i ≠ j)
    (ha' : s'.pool[i]? = some a') {x : Nat} (hx : a'.region = .ext x) : a' = a ∧ a.region = .ext x := by
  cases O with
  | inPlace hlen hp hh => rw [hp, ha] at ha'; cases ha'; exact ⟨rfl, hx⟩
  | emptied hal hp => rw [hp, getElem?_set_self' ha] at ha'; cases ha'; cases hx
  | fresh hal hbl hp hh => rw [hp, getElem?_set_self' ha] at ha'; cases ha'; simp [ownerOf] at hx
  | stolen σ r hbs hr hone hl hp hh =>
    have : ((s.pool.set i b).set j a)[i]? = some b := by
      rw [getElem?_set_ne' (Ne.symm hij)]; exact getElem?_set_self' ha
    rw [hp, this] at ha'; cases ha'
    obtain ⟨_, _, _, hreg, _⟩ := I.objs b (List.mem_of_getElem? hb) σ hbs
    rw [hreg] at hx; cases hx

/-- after the assignment the target and the source look into the same allocation only if they already did and
    the target was written in place -/
theorem owns_apart_from_source {s s' : St} {i j : Nat} {a b a' b' : Obj} (I : Inv s) (O : Owns s s' i j a b)
    (ha : s.pool[i]? = some a) (hb : s.pool[j]? = some b) (hij : i ≠ j)
    (ha' : s'.pool[i]? = some a') (hb' : s'.pool[j]? = some b')
    (hla : a'.len ≠ 0) (hlb : b'.len ≠ 0) (hreg : a'.region = b'.region) :
    a' = a ∧ b' = b ∧ a.region = b.region := by
  cases O with
  | inPlace hlen hp hh =>
    rw [hp, ha] at ha'; rw [hp, hb] at hb'; cases ha'; cases hb'; exact ⟨rfl, rfl, hreg⟩
  | emptied hal hp => rw [hp, getElem?_set_self' ha] at ha'; cases ha'; exact absurd rfl hla
  | fresh hal hbl hp hh =>
    rw [hp, getElem?_set_self' ha] at ha'; cases ha'
    rw [hp, getElem?_set_ne' hij, hb] at hb'; cases hb'
    have := I.inScope b (List.mem_of_getElem? hb) s.heap.length (by rw [← hreg]; rfl)
    omega
  | stolen σ r hbs hr hone hl hp hh =>
    have e1 : ((s.pool.set i b).set j a)[i]? = some b := by
      rw [getElem?_set_ne' (Ne.symm hij)]; exact getElem?_set_self' ha
    have e2 : ((s.pool.set i b).set j a)[j]? = some a := by
      have : (s.pool.set i b)[j]? = some b := by rw [getElem?_set_ne' hij]; exact hb
      exact getElem?_set_self' this
    rw [hp, e1] at ha'; cases ha'
    rw [hp, e2] at hb'; cases hb'
    -- the source (now holding the target's old quadruple) is not empty, so the target owned an unshared τ ≠ σ
    rcases hl with hl | ⟨τ, rt, t1, t2, t3⟩
    · exact absurd hl hlb
    · exfalso
      obtain ⟨rb, hrb, hfb, hregb, _⟩ := I.objs b (List.mem_of_getElem? hb) σ hbs
      obtain ⟨ra, hra, hfa, hrega, _⟩ := I.objs a (List.mem_of_getElem? ha) τ t1
      rw [hregb, hrega] at hreg
      cases hreg
      rw [hr] at hrb; cases hrb
      have := two_refs hij ha hb t1 hbs
      have := (I.counts σ r hr hfb).1
      omega

/-! ### values: a write shows only through views of the written allocation -/

theorem readCell_congr {s s' : St} {r : Region} (c : Nat)
    (hh : s'.heap = s.heap)
    (hs : ∀ σ, r = .sto σ → s'.smem[σ]? = s.smem[σ]?)
    (he : ∀ x, r = .ext x → s'.exts[x]? = s.exts[x]?) :
    readCell s' r c = readCell s r c := by
  unfold readCell
  cases r with
  | null => rfl
  | sto σ => simp only [hh, hs σ rfl]
  | ext x => simp only [he x rfl]

theorem readFrom_congr {s s' : St} {o : Obj}
    (hh : s'.heap = s.heap)
    (hs : ∀ σ, o.region = .sto σ → s'.smem[σ]? = s.smem[σ]?)
    (he : ∀ x, o.region = .ext x → s'.exts[x]? = s.exts[x]?) :
    ∀ n k, readFrom s' o k n = readFrom s o k n := by
  intro n
  induction n with
  | zero => intro k; rfl
  | succ n ih =>
    intro k
    unfold readFrom
    rw [readCell_congr _ hh hs he, ih (k + 1)]

theorem readView_congr {s s' : St} {o : Obj}
    (hh : s'.heap = s.heap)
    (hs : ∀ σ, o.region = .sto σ → s'.smem[σ]? = s.smem[σ]?)
    (he : ∀ x, o.region = .ext x → s'.exts[x]? = s.exts[x]?) :
    readView s' o = readView s o := readFrom_congr hh hs he _ _

/-- what a store into allocation `r` leaves alone -/
theorem writeCell_frame_mem {s s' : St} {r : Region} {c : Nat} {v : Int} (h : writeCell s r c v = .ok s') :
    s'.heap = s.heap ∧ (∀ σ, r ≠ .sto σ → s'.smem[σ]? = s.smem[σ]?) ∧ (∀ x, r ≠ .ext x → s'.exts[x]? = s.exts[x]?) := by
  unfold writeCell at h
  split at h
  · cases h
  · rename_i σ
    split at h
    · split at h
      · cases h
      · split at h
        · cases h
          refine ⟨rfl, ?_, fun _ _ => rfl⟩
          intro τ hτ
          have : σ ≠ τ := fun e => hτ (by rw [e])
          simp [getElem?_set_ne' this]
        · cases h
    · cases h
  · rename_i x
    split at h
    · split at h
      · cases h
        refine ⟨rfl, fun _ _ => rfl, ?_⟩
        intro y hy
        have : x ≠ y := fun e => hy (by rw [e])
        simp [getElem?_set_ne' this]
      · cases h
    · cases h

/-- a store through a view of another allocation does not change what `o` reads -/
theorem read_after_write_elsewhere {s s' : St} {o : Obj} {r : Region} {c : Nat} {v : Int}
    (h : writeCell s r c v = .ok s') (hne : o.region ≠ r) : readView s' o = readView s o := by
  obtain ⟨h1, h2, h3⟩ := writeCell_frame_mem h
  refine readView_congr h1 ?_ ?_
  · intro σ hσ; exact h2 σ (by rw [← hσ]; exact Ne.symm hne)
  · intro x hx; exact h3 x (by rw [← hx]; exact Ne.symm hne)

/-- the environment changing (or ending) external block `x` does not change what a view of another allocation reads -/
theorem read_after_env {s s' : St} {o : Obj} {x : Nat} (hne : o.region ≠ .ext x)
    (h : (∃ k v, xwriteAt s x k v = .ok s') ∨ xendAt s x = .ok s') : readView s' o = readView s o := by
  have key : s'.heap = s.heap ∧ s'.smem = s.smem ∧ ∀ y, x ≠ y → s'.exts[y]? = s.exts[y]? := by
    rcases h with ⟨k, v, h⟩ | h
    · unfold xwriteAt at h
      split at h
      · cases h
      · split at h
        · cases h; exact ⟨rfl, rfl, fun y hy => by simp [getElem?_set_ne' hy]⟩
        · cases h
    · unfold xendAt at h
      split at h
      · cases h
      · split at h
        · cases h; exact ⟨rfl, rfl, fun y hy => by simp [getElem?_set_ne' hy]⟩
        · cases h
  obtain ⟨h1, h2, h3⟩ := key
  refine readView_congr h1 (fun σ _ => by rw [h2]) ?_
  intro y hy
  exact h3 y (fun e => hne (by rw [hy, e]))

/-! ### no operation ever touches a deleted Storage or underflows a count -/

/-- the result is a state, a documented array exception, a protocol error or a data access through a stale view
    (user error): never a touch of a deleted Storage object (`fault`) nor `remove_link` at zero (`invalidOperation`) -/
def Clean (r : Except Err St) : Prop := r ≠ .error .fault ∧ r ≠ .error .invalidOperation

theorem clean_ok (s : St) : Clean (.ok s) := ⟨(by intro h; cases h), (by intro h; cases h)⟩

theorem clean_err {e : Err} (h1 : e ≠ .fault) (h2 : e ≠ .invalidOperation) : Clean (.error e) :=
  ⟨(by intro h; cases h; exact h1 rfl), (by intro h; cases h; exact h2 rfl)⟩

theorem clean_badOp : Clean (.error .badOp) := clean_err (by decide) (by decide)

theorem getObj_err {s : St} {i : Nat} {e : Err} (h : getObj s i = .error e) : e = .badOp := by
  unfold getObj at h; split at h
  · cases h
  · cases h; rfl

theorem releaseAt_total {s : St} {i : Nat} {a : Obj} (I : Inv s) (ha : s.pool[i]? = some a) :
    ∃ s', releaseAt s i = .ok s' := by
  unfold releaseAt
  rw [getObj_ok.mpr ha]
  simp only
  cases has : a.storage with
  | none => exact ⟨s, rfl⟩
  | some σ =>
    obtain ⟨r, hr, hf, hpos, _, _⟩ := invC_release I ha has
    have hne : r.nLinks ≠ 0 := by omega
    unfold removeLink
    simp only [hr, hf, hne]
    by_cases hz : r.nLinks - 1 = 0
    · simp [hz]
    · simp [hz]

theorem clearAt_total {s : St} {i : Nat} {a : Obj} (I : Inv s) (ha : s.pool[i]? = some a) :
    ∃ s', clearAt s i = .ok s' := by
  obtain ⟨s1, h1⟩ := releaseAt_total I ha
  unfold clearAt; rw [h1]; exact ⟨_, rfl⟩

theorem destroyAt_total {s : St} {i : Nat} {a : Obj} (I : Inv s) (ha : s.pool[i]? = some a) :
    ∃ s', destroyAt s i = .ok s' := by
  obtain ⟨s1, h1⟩ := releaseAt_total I ha
  unfold destroyAt; rw [h1]; exact ⟨_, rfl⟩

theorem clean_of_total {r : Except Err St} (h : ∃ s', r = .ok s') : Clean r := by
  obtain ⟨s', h⟩ := h; rw [h]; exact clean_ok s'

theorem clearAt_clean {s : St} {i : Nat} (I : Inv s) : Clean (clearAt s i) := by
  cases ha : s.pool[i]? with
  | none =>
    have : clearAt s i = .error .badOp := by simp [clearAt, releaseAt, getObj, ha]
    rw [this]; exact clean_badOp
  | some a => exact clean_of_total (clearAt_total I ha)

theorem destroyAt_clean {s : St} {i : Nat} (I : Inv s) : Clean (destroyAt s i) := by
  cases ha : s.pool[i]? with
  | none =>
    have : destroyAt s i = .error .badOp := by simp [destroyAt, releaseAt, getObj, ha]
    rw [this]; exact clean_badOp
  | some a => exact clean_of_total (destroyAt_total I ha)

theorem resizeAt_clean {s : St} {i : Nat} {n v0 : Int} (I : Inv s) : Clean (resizeAt s i n v0) := by
  unfold resizeAt
  cases hg : getObj s i with
  | error e => rw [getObj_err hg]; exact clean_badOp
  | ok a =>
    simp only
    split
    · exact clean_err (by decide) (by decide)
    · split
      · exact clearAt_clean I
      · obtain ⟨s1, h1⟩ := releaseAt_total I (getObj_ok.mp hg)
        rw [h1]; exact clean_ok _

theorem linkNew_total {s : St} {o : Obj} (F : Fits s o) : ∃ s', linkNew s o = .ok s' := by
  unfold linkNew
  cases ho : o.storage with
  | none => exact ⟨_, rfl⟩
  | some σ =>
    obtain ⟨r, hr, hf, _⟩ := F.held σ ho
    unfold addLink
    simp [hr, hf]

theorem linkAt_clean {s : St} {i j : Nat} (I : Inv s) : Clean (linkAt s i j) := by
  unfold linkAt
  cases hgi : getObj s i with
  | error e => rw [getObj_err hgi]; exact clean_badOp
  | ok a0 =>
    cases hgj : getObj s j with
    | error e => rw [getObj_err hgj]; exact clean_badOp
    | ok b =>
      simp only
      split
      · exact clean_err (by decide) (by decide)
      · obtain ⟨s1, hc⟩ := clearAt_total I (getObj_ok.mp hgi)
        rw [hc]
        simp only
        obtain ⟨I1, _⟩ := clearAt_spec I hc
        cases hb1 : getObj s1 j with
        | error e => rw [getObj_err hb1]; exact clean_badOp
        | ok b1 =>
          simp only
          have F := fits_of_mem I1 (List.mem_of_getElem? (getObj_ok.mp hb1))
          cases hs : b1.storage with
          | none => exact clean_ok _
          | some σ =>
            obtain ⟨r, hr, hf, _⟩ := F.held σ hs
            simp only [addLink, hr, hf]
            exact clean_ok _

theorem readCell_err {s : St} {r : Region} {c : Nat} {e : Err} (h : readCell s r c = .error e) : e = .badAccess := by
  unfold readCell at h
  repeat' split at h
  all_goals first | (cases h; rfl) | cases h

theorem writeCell_err {s : St} {r : Region} {c : Nat} {v : Int} {e : Err} (h : writeCell s r c v = .error e) :
    e = .badAccess := by
  unfold writeCell at h
  repeat' split at h
  all_goals first | (cases h; rfl) | cases h

theorem readFrom_err {s : St} {o : Obj} : ∀ (n k : Nat) {e : Err}, readFrom s o k n = .error e → e = .badAccess := by
  intro n
  induction n with
  | zero => intro k e h; simp [readFrom] at h
  | succ n ih =>
    intro k e h
    unfold readFrom at h
    cases hc : readCell s o.region (cellOf o k) with
    | error e' => simp only [hc] at h; cases h; exact readCell_err hc
    | ok v =>
      simp only [hc] at h
      cases hr : readFrom s o (k + 1) n with
      | error e' => simp only [hr] at h; cases h; exact ih (k + 1) hr
      | ok vs => simp [hr] at h

theorem writeFrom_err {o : Obj} : ∀ (vs : List Int) (s : St) (k : Nat) {e : Err}, writeFrom s o k vs = .error e →
    e = .badAccess := by
  intro vs
  induction vs with
  | nil => intro s k e h; simp [writeFrom] at h
  | cons v vs ih =>
    intro s k e h
    unfold writeFrom at h
    cases hw : writeCell s o.region (cellOf o k) v with
    | error e' => simp only [hw] at h; cases h; exact writeCell_err hw
    | ok s1 => simp only [hw] at h; exact ih s1 (k + 1) h

theorem clean_badAccess : Clean (.error .badAccess) := clean_err (by decide) (by decide)

theorem assignCopyAt_clean {s : St} {i j : Nat} (I : Inv s) : Clean (assignCopyAt s i j) := by
  unfold assignCopyAt
  cases hgi : getObj s i with
  | error e => rw [getObj_err hgi]; exact clean_badOp
  | ok a =>
    cases hgj : getObj s j with
    | error e => rw [getObj_err hgj]; exact clean_badOp
    | ok b =>
      simp only
      split
      · rename_i e he
        -- the error comes from resize (clean) or is size_mismatch
        split at he
        · have := resizeAt_clean (i := i) (n := (b.len : Int)) (v0 := 0) I
          rw [he] at this; exact this
        · split at he
          · cases he; exact clean_err (by decide) (by decide)
          · cases he
      · rename_i s1 hs1
        cases h1 : getObj s1 i with
        | error e => rw [getObj_err h1]; exact clean_badOp
        | ok a1 =>
          cases h2 : getObj s1 j with
          | error e => rw [getObj_err h2]; exact clean_badOp
          | ok b1 =>
            simp only
            split
            · exact clean_ok _
            · cases hr : readView s1 b1 with
              | error e => rw [readFrom_err _ _ hr]; exact clean_badAccess
              | ok vs =>
                simp only
                cases hw : writeFrom s1 a1 0 vs with
                | error e => rw [writeFrom_err _ _ _ hw]; exact clean_badAccess
                | ok s2 => exact clean_ok _

theorem ownsUnshared_total {s : St} {o : Obj} (I : Inv s) (hm : o ∈ s.pool) : ∃ b, ownsUnshared s o = .ok b := by
  unfold ownsUnshared
  cases ho : o.storage with
  | none => exact ⟨false, rfl⟩
  | some σ =>
    obtain ⟨r, hr, hf, _⟩ := I.objs o hm σ ho
    simp [nLinksOf, hr, hf]

theorem assignMoveAt_clean {s : St} {i j : Nat} (I : Inv s) : Clean (assignMoveAt s i j) := by
  unfold assignMoveAt
  cases hgi : getObj s i with
  | error e => rw [getObj_err hgi]; exact clean_badOp
  | ok a =>
    cases hgj : getObj s j with
    | error e => rw [getObj_err hgj]; exact clean_badOp
    | ok b =>
      simp only
      obtain ⟨ba, hba⟩ := ownsUnshared_total I (List.mem_of_getElem? (getObj_ok.mp hgi))
      obtain ⟨bb, hbb⟩ := ownsUnshared_total I (List.mem_of_getElem? (getObj_ok.mp hgj))
      have hl : ∃ bl, (if a.len = 0 then (Except.ok true : Except Err Bool) else ownsUnshared s a) = .ok bl := by
        split
        · exact ⟨true, rfl⟩
        · exact ⟨ba, hba⟩
      obtain ⟨bl, hbl⟩ := hl
      rw [hbl, hbb]
      cases bl with
      | false => exact assignCopyAt_clean I
      | true =>
        cases bb with
        | false => exact assignCopyAt_clean I
        | true =>
          simp only
          split
          · exact clean_ok _
          · exact clean_err (by decide) (by decide)

/-- in a state satisfying the invariant no operation touches a deleted Storage object or removes a link that is
    not there: `delete this` cannot run twice, the `invalid_operation` of `remove_link` is unreachable -/
theorem no_storage_fault {s : St} (I : Inv s) (op : Op) : Clean (step s op) := by
  cases op with
  | xnew n v0 => exact clean_ok _
  | xwrite x k v =>
    simp only [step, xwriteAt]
    split
    · exact clean_badOp
    · split
      · exact clean_ok _
      · exact clean_badOp
  | xend x =>
    simp only [step, xendAt]
    split
    · exact clean_badOp
    · split
      · exact clean_ok _
      · exact clean_badOp
  | new n v0 => exact resizeAt_clean (push_inv I rfl (by intro σ h; cases h))
  | newEmpty => exact clean_ok _
  | newExternal x off n =>
    simp only [step, newExternalAt]
    split
    · exact clean_badOp
    · split
      · exact clean_ok _
      · exact clean_badOp
  | copyCtor j =>
    simp only [step, copyCtorAt]
    cases hg : getObj s j with
    | error e => rw [getObj_err hg]; exact clean_badOp
    | ok b => exact clean_of_total (linkNew_total (fits_of_mem I (List.mem_of_getElem? (getObj_ok.mp hg))))
  | slice j lo hi st =>
    simp only [step, sliceAt]
    cases hg : getObj s j with
    | error e => rw [getObj_err hg]; exact clean_badOp
    | ok b =>
      simp only
      split
      · exact clean_badOp
      · split
        · rename_i hgd
          have hm := List.mem_of_getElem? (getObj_ok.mp hg)
          refine clean_of_total (linkNew_total ⟨?_, ?_⟩)
          · intro σ hσ; exact I.inScope b hm σ hσ
          · intro σ hσ
            obtain ⟨r, hr, hf, hreg, hin⟩ := I.objs b hm σ hσ
            exact ⟨r, hr, hf, hreg, inside_slice hin hgd⟩
        · exact clean_badOp
  | softLink j =>
    simp only [step, softLinkAt]
    cases hg : getObj s j with
    | error e => rw [getObj_err hg]; exact clean_badOp
    | ok b => exact clean_ok _
  | link i j => exact linkAt_clean I
  | assignCopy i j => exact assignCopyAt_clean I
  | assignMove i j => exact assignMoveAt_clean I
  | resize i n v0 => exact resizeAt_clean I
  | clear i => exact clearAt_clean I
  | destroy i => exact destroyAt_clean I
  | write i k v =>
    simp only [step, writeAt]
    cases hg : getObj s i with
    | error e => rw [getObj_err hg]; exact clean_badOp
    | ok a =>
      simp only
      split
      · cases hw : writeCell s a.region (cellOf a k) v with
        | error e => rw [writeCell_err hw]; exact clean_badAccess
        | ok s' => exact clean_ok _
      · exact clean_badOp

end Adept.Storage
