import AdeptModel.Interp
import Mathlib.Tactic.Linarith
import Mathlib.Tactic.Ring
import Mathlib.Tactic.FieldSimp
import Mathlib.Algebra.Order.Field.Basic
/-! Helper lemmas for C20 (interpolation).  Everything is about `AdeptModel/Interp.lean`, instantiated
with an arbitrary linear ordered field `α`. -/
set_option linter.unusedSectionVars false
set_option linter.unusedSimpArgs false
namespace Adept.Interp
open Ext

variable {α : Type} [Field α] [LinearOrder α] [IsStrictOrderedRing α]

/-! ### `Ext` arithmetic and comparisons on finite values -/
@[simp] theorem blt_fin (a b : α) : blt (fin a) (fin b) = decide (a < b) := rfl
@[simp] theorem ble_fin (a b : α) : ble (fin a) (fin b) = decide (a ≤ b) := rfl
@[simp] theorem bgt_fin (a b : α) : bgt (fin a) (fin b) = decide (b < a) := rfl
@[simp] theorem bge_fin (a b : α) : bge (fin a) (fin b) = decide (b ≤ a) := rfl
@[simp] theorem beq_fin (a b : α) : beq (fin a) (fin b) = decide (a = b) := by
  simp only [beq]
  by_cases h : a = b
  · simp [h]
  · rcases lt_or_gt_of_ne h with h' | h'
    · simp [h, not_le.mpr h']
    · simp [h, not_le.mpr h']
@[simp] theorem add_fin (a b : α) : (fin a + fin b : Ext α) = fin (a + b) := rfl
@[simp] theorem sub_fin (a b : α) : (fin a - fin b : Ext α) = fin (a - b) := rfl
@[simp] theorem mul_fin (a b : α) : (fin a * fin b : Ext α) = fin (a * b) := rfl
theorem div_fin (a b : α) (h : b ≠ 0) : (fin a / fin b : Ext α) = fin (a / b) := by
  show Ext.div (fin a) (fin b) = _
  simp only [Ext.div]
  rw [if_pos]
  exact (lt_or_gt_of_ne h)


/-! ### the bracket search of `interp` (bisection) -/

/-- loop invariant of the bisection, normal ordering: `x jmin < q ≤ x jmax` is kept, and on exit the
    pair is adjacent.  No monotonicity is needed for the invariant itself. -/
theorem bisectInc_spec (x : Nat → α) (r : α) (jmin jmax : Nat)
    (hlt : jmin < jmax) (hlo : x jmin < r) (hhi : r ≤ x jmax) :
    (bisectInc x (fin r) jmin jmax).2 = (bisectInc x (fin r) jmin jmax).1 + 1 ∧
    jmin ≤ (bisectInc x (fin r) jmin jmax).1 ∧ (bisectInc x (fin r) jmin jmax).2 ≤ jmax ∧
    x (bisectInc x (fin r) jmin jmax).1 < r ∧ r ≤ x (bisectInc x (fin r) jmin jmax).2 := by
  fun_induction bisectInc x (fin r) jmin jmax with
  | case1 jmin jmax h jmid hgt ih =>
    have hr : x jmid < r := by simpa using hgt
    have := ih (by omega) hr hhi
    refine ⟨this.1, by omega, this.2.2.1, this.2.2.2.1, this.2.2.2.2⟩
  | case2 jmin jmax h jmid hgt ih =>
    have hr : r ≤ x jmid := by simpa using hgt
    have := ih (by omega) hlo hr
    refine ⟨this.1, this.2.1, by omega, this.2.2.2.1, this.2.2.2.2⟩
  | case3 jmin jmax h =>
    refine ⟨by simp; omega, le_refl _, le_refl _, hlo, hhi⟩

/-- the same for the reverse ordering: `x jmin > q ≥ x jmax` -/
theorem bisectDec_spec (x : Nat → α) (r : α) (jmin jmax : Nat)
    (hlt : jmin < jmax) (hlo : r < x jmin) (hhi : x jmax ≤ r) :
    (bisectDec x (fin r) jmin jmax).2 = (bisectDec x (fin r) jmin jmax).1 + 1 ∧
    jmin ≤ (bisectDec x (fin r) jmin jmax).1 ∧ (bisectDec x (fin r) jmin jmax).2 ≤ jmax ∧
    r < x (bisectDec x (fin r) jmin jmax).1 ∧ x (bisectDec x (fin r) jmin jmax).2 ≤ r := by
  fun_induction bisectDec x (fin r) jmin jmax with
  | case1 jmin jmax h jmid hgt ih =>
    have hr : r < x jmid := by simpa using hgt
    have := ih (by omega) hr hhi
    refine ⟨this.1, by omega, this.2.2.1, this.2.2.2.1, this.2.2.2.2⟩
  | case2 jmin jmax h jmid hgt ih =>
    have hr : x jmid ≤ r := by simpa using hgt
    have := ih (by omega) hlo hr
    refine ⟨this.1, this.2.1, by omega, this.2.2.2.1, this.2.2.2.2⟩
  | case3 jmin jmax h =>
    refine ⟨by simp; omega, le_refl _, le_refl _, hlo, hhi⟩


/-! ### knot vectors, the textbook interpolant -/

/-- strictly increasing / decreasing on the first `n` indices -/
def IncOn (n : Nat) (x : Nat → α) : Prop := ∀ i j, i < j → j < n → x i < x j
def DecOn (n : Nat) (x : Nat → α) : Prop := ∀ i j, i < j → j < n → x j < x i

theorem IncOn.le {n : Nat} {x : Nat → α} (h : IncOn n x) {i j : Nat} (hij : i ≤ j) (hj : j < n) : x i ≤ x j := by
  rcases Nat.lt_or_eq_of_le hij with h' | h'
  · exact le_of_lt (h i j h' hj)
  · subst h'; exact le_refl _
theorem DecOn.le {n : Nat} {x : Nat → α} (h : DecOn n x) {i j : Nat} (hij : i ≤ j) (hj : j < n) : x j ≤ x i := by
  rcases Nat.lt_or_eq_of_le hij with h' | h'
  · exact le_of_lt (h i j h' hj)
  · subst h'; exact le_refl _
theorem IncOn.le_of_le {n : Nat} {x : Nat → α} (h : IncOn n x) {i j : Nat} (hi : i < n) (hx : x i ≤ x j) : i ≤ j := by
  by_contra hc
  exact absurd hx (not_le.mpr (h j i (Nat.lt_of_not_le hc) hi))
theorem DecOn.le_of_le {n : Nat} {x : Nat → α} (h : DecOn n x) {i j : Nat} (hi : i < n) (hx : x j ≤ x i) : i ≤ j := by
  by_contra hc
  exact absurd hx (not_le.mpr (h j i (Nat.lt_of_not_le hc) hi))

/-- the straight line through `(xa, ya)` and `(xb, yb)`, at `q` -/
def lineThrough (xa xb ya yb q : α) : α := ya + (q - xa) * (yb - ya) / (xb - xa)

theorem lineThrough_left (xa xb ya yb : α) : lineThrough xa xb ya yb xa = ya := by simp [lineThrough]
theorem lineThrough_right {xa xb : α} (ya yb : α) (h : xb ≠ xa) : lineThrough xa xb ya yb xb = yb := by
  unfold lineThrough
  have : xb - xa ≠ 0 := sub_ne_zero.mpr h
  field_simp
  ring

/-- `v` is the value at `r` of the piecewise-linear interpolant of the points `(x j, y j)`, `j < n`:
    `r` lies in the closed segment between two consecutive knots (in either order) and `v` is on the
    straight line through the two data points. -/
def IsPWL (n : Nat) (x y : Nat → α) (r v : α) : Prop :=
  ∃ j, j + 1 < n ∧ ((x j ≤ r ∧ r ≤ x (j + 1)) ∨ (x (j + 1) ≤ r ∧ r ≤ x j)) ∧
    v = lineThrough (x j) (x (j + 1)) (y j) (y (j + 1)) r

/-- at a knot the interpolant takes the data value (increasing knots) -/
theorem IsPWL.knot_inc {n : Nat} {x y : Nat → α} (hx : IncOn n x) {k : Nat} (hk : k < n) {v : α}
    (h : IsPWL n x y (x k) v) : v = y k := by
  obtain ⟨j, hj, hb, rfl⟩ := h
  have hlt : x j < x (j + 1) := hx j (j + 1) (by omega) hj
  rcases hb with ⟨h1, h2⟩ | ⟨h1, h2⟩
  · have a := hx.le_of_le (by omega : j < n) h1
    have b := hx.le_of_le hk h2
    rcases (by omega : k = j ∨ k = j + 1) with rfl | rfl
    · exact lineThrough_left _ _ _ _
    · exact lineThrough_right _ _ (ne_of_gt hlt)
  · exact absurd (le_trans h1 h2) (not_le.mpr hlt)

theorem IsPWL.knot_dec {n : Nat} {x y : Nat → α} (hx : DecOn n x) {k : Nat} (hk : k < n) {v : α}
    (h : IsPWL n x y (x k) v) : v = y k := by
  obtain ⟨j, hj, hb, rfl⟩ := h
  have hlt : x (j + 1) < x j := hx j (j + 1) (by omega) hj
  rcases hb with ⟨h1, h2⟩ | ⟨h1, h2⟩
  · exact absurd (le_trans h1 h2) (not_le.mpr hlt)
  · have a := hx.le_of_le (by omega : j < n) h2
    have b := hx.le_of_le hk h1
    rcases (by omega : k = j ∨ k = j + 1) with rfl | rfl
    · exact lineThrough_left _ _ _ _
    · exact lineThrough_right _ _ (ne_of_lt hlt)

/-- the interpolant is single valued (increasing knots) -/
theorem IsPWL.unique_inc {n : Nat} {x y : Nat → α} (hx : IncOn n x) {r v v' : α}
    (h : IsPWL n x y r v) (h' : IsPWL n x y r v') : v = v' := by
  obtain ⟨j, hj, hb, rfl⟩ := h
  obtain ⟨k, hk, hb', rfl⟩ := h'
  have hltj : x j < x (j + 1) := hx j (j + 1) (by omega) hj
  have hltk : x k < x (k + 1) := hx k (k + 1) (by omega) hk
  rcases hb with ⟨a1, a2⟩ | ⟨a1, a2⟩
  swap
  · exact absurd (le_trans a1 a2) (not_le.mpr hltj)
  rcases hb' with ⟨b1, b2⟩ | ⟨b1, b2⟩
  swap
  · exact absurd (le_trans b1 b2) (not_le.mpr hltk)
  rcases Nat.lt_trichotomy j k with hjk | rfl | hjk
  · -- r = x (j+1) = x k
    have e1 : x (j + 1) ≤ x k := hx.le (by omega) (by omega)
    have hr : r = x (j + 1) := le_antisymm a2 (le_trans e1 b1)
    have hk' : k = j + 1 := by
      have := hx.le_of_le (by omega : k < n) (le_trans b1 a2)
      omega
    subst hk'
    rw [hr, lineThrough_right _ _ (ne_of_gt hltj), lineThrough_left]
  · rfl
  · have e1 : x (k + 1) ≤ x j := hx.le (by omega) (by omega)
    have hr : r = x (k + 1) := le_antisymm b2 (le_trans e1 a1)
    have hj' : j = k + 1 := by
      have := hx.le_of_le (by omega : j < n) (le_trans a1 b2)
      omega
    subst hj'
    rw [hr, lineThrough_right _ _ (ne_of_gt hltk), lineThrough_left]

theorem IsPWL.unique_dec {n : Nat} {x y : Nat → α} (hx : DecOn n x) {r v v' : α}
    (h : IsPWL n x y r v) (h' : IsPWL n x y r v') : v = v' := by
  obtain ⟨j, hj, hb, rfl⟩ := h
  obtain ⟨k, hk, hb', rfl⟩ := h'
  have hltj : x (j + 1) < x j := hx j (j + 1) (by omega) hj
  have hltk : x (k + 1) < x k := hx k (k + 1) (by omega) hk
  rcases hb with ⟨a1, a2⟩ | ⟨a1, a2⟩
  · exact absurd (le_trans a1 a2) (not_le.mpr hltj)
  rcases hb' with ⟨b1, b2⟩ | ⟨b1, b2⟩
  · exact absurd (le_trans b1 b2) (not_le.mpr hltk)
  rcases Nat.lt_trichotomy j k with hjk | rfl | hjk
  · have e1 : x k ≤ x (j + 1) := hx.le (by omega) (by omega)
    have hr : r = x (j + 1) := le_antisymm (le_trans b2 e1) a1
    have hk' : k = j + 1 := by
      have := hx.le_of_le (by omega : k < n) (le_trans a1 b2)
      omega
    subst hk'
    rw [hr, lineThrough_right _ _ (ne_of_lt hltj), lineThrough_left]
  · rfl
  · have e1 : x j ≤ x (k + 1) := hx.le (by omega) (by omega)
    have hr : r = x (k + 1) := le_antisymm (le_trans a2 e1) b1
    have hj' : j = k + 1 := by
      have := hx.le_of_le (by omega : j < n) (le_trans b1 a2)
      omega
    subst hj'
    rw [hr, lineThrough_right _ _ (ne_of_lt hltk), lineThrough_left]

/-- every knot is a point of the interpolant -/
theorem isPWL_knot {n : Nat} (x y : Nat → α) (hn : 2 ≤ n) {k : Nat} (hk : k < n)
    (hne : ∀ j, j + 1 < n → x (j + 1) ≠ x j) : IsPWL n x y (x k) (y k) := by
  by_cases h : k + 1 < n
  · refine ⟨k, h, ?_, (lineThrough_left _ _ _ _).symm⟩
    rcases le_total (x k) (x (k + 1)) with h' | h'
    · exact Or.inl ⟨le_refl _, h'⟩
    · exact Or.inr ⟨h', le_refl _⟩
  · obtain ⟨j, rfl⟩ : ∃ j, k = j + 1 := ⟨k - 1, by omega⟩
    refine ⟨j, hk, ?_, (lineThrough_right _ _ (hne j hk)).symm⟩
    rcases le_total (x j) (x (j + 1)) with h' | h'
    · exact Or.inl ⟨h', le_refl _⟩
    · exact Or.inr ⟨le_refl _, h'⟩


/-! ### `interp`: unfolding on finite queries -/

theorem endBranch_fin (x : Nat → α) (policy : Nat) (r : α) (jend lo hi : Nat) :
    endBranch x policy (fin r) jend lo hi =
      if policy = 1 then .pair lo hi else if policy = 2 ∨ r = x jend then .copy jend else .extrap := by
  simp [endBranch, ADEPT_EXTRAPOLATE_LINEAR, ADEPT_EXTRAPOLATE_CLAMP]

theorem select1_inc_fin (n : Nat) (x : Nat → α) (policy : Nat) (r : α) :
    select1 n x true policy (fin r) =
      if r ≤ x 0 then endBranch x policy (fin r) 0 0 1
      else if x (n - 1) ≤ r then endBranch x policy (fin r) (n - 1) (n - 1 - 1) (n - 1)
      else .pair (bisectInc x (fin r) 0 (n - 1)).1 (bisectInc x (fin r) 0 (n - 1)).2 := by
  simp [select1]

theorem select1_dec_fin (n : Nat) (x : Nat → α) (policy : Nat) (r : α) :
    select1 n x false policy (fin r) =
      if x 0 ≤ r then endBranch x policy (fin r) 0 0 1
      else if r ≤ x (n - 1) then endBranch x policy (fin r) (n - 1) (n - 1 - 1) (n - 1)
      else .pair (bisectDec x (fin r) 0 (n - 1)).1 (bisectDec x (fin r) 0 (n - 1)).2 := by
  simp [select1]

/-- the interpolation formula of the code is the straight line through the two data points
    (both in the `a / d` and in the `a * (1 / d)` form) -/
theorem linFormula_fin (recip : Bool) (x y : Nat → α) (r : α) (a b : Nat) (h : x b ≠ x a) :
    linFormula recip x y (fin r) a b = fin (lineThrough (x a) (x b) (y a) (y b) r) := by
  have hd : x b - x a ≠ 0 := sub_ne_zero.mpr h
  unfold linFormula lineThrough
  cases recip
  · simp only [sub_fin, mul_fin, add_fin, div_fin _ _ hd, Bool.false_eq_true, if_false]
    congr 1
    field_simp
    ring
  · simp only [sub_fin, mul_fin, add_fin, div_fin _ _ hd, if_true]
    congr 1
    field_simp
    ring

theorem eval1_pair_linear (recip : Bool) (x y : Nat → α) (inc : Bool) (ev : Ext α) (r : α) (a b : Nat)
    (h : x b ≠ x a) :
    eval1 recip x y inc ADEPT_INTERPOLATE_LINEAR ev (fin r) (.pair a b)
      = fin (lineThrough (x a) (x b) (y a) (y b) r) := by
  simp [eval1, linFormula_fin recip x y r a b h]

/-! ### `interp`, linear scheme, query inside the knot range -/

theorem interp1_inc_inrange (recip : Bool) {n : Nat} {x : Nat → α} (y : Nat → α) (hx : IncOn n x) (hn : 2 ≤ n)
    (policy : Nat) (ev : Ext α) {r : α} (h0 : x 0 ≤ r) (h1 : r ≤ x (n - 1)) :
    ∃ v, eval1 recip x y true ADEPT_INTERPOLATE_LINEAR ev (fin r) (select1 n x true policy (fin r)) = fin v
      ∧ IsPWL n x y r v := by
  rw [select1_inc_fin]
  have h01 : x 0 < x 1 := hx 0 1 (by omega) (by omega)
  have e1 : n - 1 - 1 = n - 2 := by omega
  have e2 : n - 2 + 1 = n - 1 := by omega
  have hlast : x (n - 2) < x (n - 1) := hx _ _ (by omega) (by omega)
  by_cases c0 : r ≤ x 0
  · have hr : r = x 0 := le_antisymm c0 h0
    have hseg : IsPWL n x y r (lineThrough (x 0) (x 1) (y 0) (y 1) r) :=
      ⟨0, by omega, Or.inl ⟨h0, by rw [hr]; exact le_of_lt h01⟩, rfl⟩
    rw [if_pos c0, endBranch_fin]
    by_cases p1 : policy = 1
    · rw [if_pos p1]
      exact ⟨_, eval1_pair_linear recip x y true ev r 0 1 (ne_of_gt h01), hseg⟩
    · rw [if_neg p1, if_pos (Or.inr hr)]
      refine ⟨y 0, rfl, ?_⟩
      have : lineThrough (x 0) (x 1) (y 0) (y 1) r = y 0 := by rw [hr, lineThrough_left]
      rw [← this]; exact hseg
  · rw [if_neg c0]
    by_cases c1 : x (n - 1) ≤ r
    · have hr : r = x (n - 1) := le_antisymm h1 c1
      have hseg : IsPWL n x y r (lineThrough (x (n - 2)) (x (n - 1)) (y (n - 2)) (y (n - 1)) r) := by
        refine ⟨n - 2, by omega, Or.inl ⟨?_, ?_⟩, ?_⟩
        · rw [hr]; exact le_of_lt hlast
        · rw [e2]; exact h1
        · rw [e2]
      rw [if_pos c1, endBranch_fin, e1]
      by_cases p1 : policy = 1
      · rw [if_pos p1]
        exact ⟨_, eval1_pair_linear recip x y true ev r _ _ (ne_of_gt hlast), hseg⟩
      · rw [if_neg p1, if_pos (Or.inr hr)]
        refine ⟨y (n - 1), rfl, ?_⟩
        have : lineThrough (x (n - 2)) (x (n - 1)) (y (n - 2)) (y (n - 1)) r = y (n - 1) := by
          rw [hr, lineThrough_right _ _ (ne_of_gt hlast)]
        rw [← this]; exact hseg
    · rw [if_neg c1]
      obtain ⟨b1, b2, b3, b4, b5⟩ := bisectInc_spec x r 0 (n - 1) (by omega) (not_le.mp c0) (le_of_lt (not_le.mp c1))
      generalize bisectInc x (fin r) 0 (n - 1) = p at *
      obtain ⟨a, b⟩ := p
      simp only at b1 b2 b3 b4 b5 ⊢
      subst b1
      have hab : x a < x (a + 1) := hx _ _ (by omega) (by omega)
      exact ⟨_, eval1_pair_linear recip x y true ev r a (a + 1) (ne_of_gt hab),
        a, by omega, Or.inl ⟨le_of_lt b4, b5⟩, rfl⟩

theorem interp1_dec_inrange (recip : Bool) {n : Nat} {x : Nat → α} (y : Nat → α) (hx : DecOn n x) (hn : 2 ≤ n)
    (policy : Nat) (ev : Ext α) {r : α} (h0 : r ≤ x 0) (h1 : x (n - 1) ≤ r) :
    ∃ v, eval1 recip x y false ADEPT_INTERPOLATE_LINEAR ev (fin r) (select1 n x false policy (fin r)) = fin v
      ∧ IsPWL n x y r v := by
  rw [select1_dec_fin]
  have h01 : x 1 < x 0 := hx 0 1 (by omega) (by omega)
  have e1 : n - 1 - 1 = n - 2 := by omega
  have e2 : n - 2 + 1 = n - 1 := by omega
  have hlast : x (n - 1) < x (n - 2) := hx _ _ (by omega) (by omega)
  by_cases c0 : x 0 ≤ r
  · have hr : r = x 0 := le_antisymm h0 c0
    have hseg : IsPWL n x y r (lineThrough (x 0) (x 1) (y 0) (y 1) r) :=
      ⟨0, by omega, Or.inr ⟨by rw [hr]; exact le_of_lt h01, h0⟩, rfl⟩
    rw [if_pos c0, endBranch_fin]
    by_cases p1 : policy = 1
    · rw [if_pos p1]
      exact ⟨_, eval1_pair_linear recip x y false ev r 0 1 (ne_of_lt h01), hseg⟩
    · rw [if_neg p1, if_pos (Or.inr hr)]
      refine ⟨y 0, rfl, ?_⟩
      have : lineThrough (x 0) (x 1) (y 0) (y 1) r = y 0 := by rw [hr, lineThrough_left]
      rw [← this]; exact hseg
  · rw [if_neg c0]
    by_cases c1 : r ≤ x (n - 1)
    · have hr : r = x (n - 1) := le_antisymm c1 h1
      have hseg : IsPWL n x y r (lineThrough (x (n - 2)) (x (n - 1)) (y (n - 2)) (y (n - 1)) r) := by
        refine ⟨n - 2, by omega, Or.inr ⟨?_, ?_⟩, ?_⟩
        · rw [e2]; exact h1
        · rw [hr]; exact le_of_lt hlast
        · rw [e2]
      rw [if_pos c1, endBranch_fin, e1]
      by_cases p1 : policy = 1
      · rw [if_pos p1]
        exact ⟨_, eval1_pair_linear recip x y false ev r _ _ (ne_of_lt hlast), hseg⟩
      · rw [if_neg p1, if_pos (Or.inr hr)]
        refine ⟨y (n - 1), rfl, ?_⟩
        have : lineThrough (x (n - 2)) (x (n - 1)) (y (n - 2)) (y (n - 1)) r = y (n - 1) := by
          rw [hr, lineThrough_right _ _ (ne_of_lt hlast)]
        rw [← this]; exact hseg
    · rw [if_neg c1]
      obtain ⟨b1, b2, b3, b4, b5⟩ := bisectDec_spec x r 0 (n - 1) (by omega) (not_le.mp c0) (le_of_lt (not_le.mp c1))
      generalize bisectDec x (fin r) 0 (n - 1) = p at *
      obtain ⟨a, b⟩ := p
      simp only at b1 b2 b3 b4 b5 ⊢
      subst b1
      have hab : x (a + 1) < x a := hx _ _ (by omega) (by omega)
      exact ⟨_, eval1_pair_linear recip x y false ev r a (a + 1) (ne_of_lt hab),
        a, by omega, Or.inr ⟨b5, le_of_lt b4⟩, rfl⟩


/-! ### `interp`: queries outside the knot range -/

/-- direction of a knot vector as the code sees it (`inc` = outcome of `x(0) < x(1)`) -/
def Dir (n : Nat) (x : Nat → α) (inc : Bool) : Prop := if inc then IncOn n x else DecOn n x

/-- `q` lies strictly beyond the end of the range where knot `0` is (below all knots for
    increasing knots, above all knots for decreasing ones); infinite queries included -/
def OffFirst (inc : Bool) (x0 : α) : Ext α → Prop
  | fin r => if inc then r < x0 else x0 < r
  | pinf => inc = false
  | ninf => inc = true
  | nan => False

/-- `q` lies strictly beyond the end of the range where knot `n-1` is -/
def OffLast (inc : Bool) (xl : α) : Ext α → Prop
  | fin r => if inc then xl < r else r < xl
  | pinf => inc = true
  | ninf => inc = false
  | nan => False

/-- what the three policies do beyond an end: end segment `(lo, hi)`, end knot `jend` -/
def offSel (policy jend lo hi : Nat) : Sel1 :=
  if policy = 1 then .pair lo hi else if policy = 2 then .copy jend else .extrap

theorem select1_offFirst (n : Nat) (x : Nat → α) (inc : Bool) (policy : Nat) (q : Ext α)
    (h : OffFirst inc (x 0) q) : select1 n x inc policy q = offSel policy 0 0 1 := by
  cases q with
  | fin r =>
    cases inc
    · have h' : x 0 < r := by simpa [OffFirst] using h
      rw [select1_dec_fin, if_pos (le_of_lt h'), endBranch_fin]
      simp [offSel, ne_of_gt h']
    · have h' : r < x 0 := by simpa [OffFirst] using h
      rw [select1_inc_fin, if_pos (le_of_lt h'), endBranch_fin]
      simp [offSel, ne_of_lt h']
  | pinf =>
    have : inc = false := by simpa [OffFirst] using h
    subst this
    simp [select1, endBranch, offSel, bge, ble, Ext.beq, ADEPT_EXTRAPOLATE_LINEAR, ADEPT_EXTRAPOLATE_CLAMP]
  | ninf =>
    have : inc = true := by simpa [OffFirst] using h
    subst this
    simp [select1, endBranch, offSel, bge, ble, Ext.beq, ADEPT_EXTRAPOLATE_LINEAR, ADEPT_EXTRAPOLATE_CLAMP]
  | nan => exact absurd h (by simp [OffFirst])

theorem select1_offLast {n : Nat} {x : Nat → α} {inc : Bool} (hx : Dir n x inc) (hn : 2 ≤ n) (policy : Nat)
    (q : Ext α) (h : OffLast inc (x (n - 1)) q) :
    select1 n x inc policy q = offSel policy (n - 1) (n - 2) (n - 1) := by
  have e1 : n - 1 - 1 = n - 2 := by omega
  cases q with
  | fin r =>
    cases inc
    · have h' : r < x (n - 1) := by simpa [OffLast] using h
      have hx' : DecOn n x := by simpa [Dir] using hx
      have h0 : x (n - 1) ≤ x 0 := hx'.le (Nat.zero_le _) (by omega)
      rw [select1_dec_fin, if_neg (not_le.mpr (lt_of_lt_of_le h' h0)), if_pos (le_of_lt h'), endBranch_fin, e1]
      simp [offSel, ne_of_lt h']
    · have h' : x (n - 1) < r := by simpa [OffLast] using h
      have hx' : IncOn n x := by simpa [Dir] using hx
      have h0 : x 0 ≤ x (n - 1) := hx'.le (Nat.zero_le _) (by omega)
      rw [select1_inc_fin, if_neg (not_le.mpr (lt_of_le_of_lt h0 h')), if_pos (le_of_lt h'), endBranch_fin, e1]
      simp [offSel, ne_of_gt h']
  | pinf =>
    have : inc = true := by simpa [OffLast] using h
    subst this
    simp [select1, endBranch, offSel, bge, ble, Ext.beq, e1, ADEPT_EXTRAPOLATE_LINEAR, ADEPT_EXTRAPOLATE_CLAMP]
  | ninf =>
    have : inc = false := by simpa [OffLast] using h
    subst this
    simp [select1, endBranch, offSel, bge, ble, Ext.beq, e1, ADEPT_EXTRAPOLATE_LINEAR, ADEPT_EXTRAPOLATE_CLAMP]
  | nan => exact absurd h (by simp [OffLast])


/-! ### nearest neighbour -/

/-- knot `k` is a nearest knot to `r`, and among equally near knots it has the lowest index -/
def IsNearestLow (n : Nat) (x : Nat → α) (r : α) (k : Nat) : Prop :=
  k < n ∧ (∀ i, i < n → |r - x k| ≤ |r - x i|) ∧ (∀ i, i < n → |r - x i| = |r - x k| → k ≤ i)

theorem abs_sub_of_le {a r : α} (h : a ≤ r) : |r - a| = r - a := abs_of_nonneg (sub_nonneg.mpr h)
theorem abs_sub_of_ge {a r : α} (h : r ≤ a) : |r - a| = a - r := by
  rw [abs_sub_comm]; exact abs_of_nonneg (sub_nonneg.mpr h)

theorem nearestPick_inc_fin (x : Nat → α) (r : α) (a b : Nat) :
    nearestPick x true (fin r) a b = if x b - r < r - x a then b else a := by
  simp [nearestPick]

theorem nearestPick_dec_fin (x : Nat → α) (r : α) (a b : Nat) :
    nearestPick x false (fin r) a b = if r - x a < x b - r then b else a := by
  simp [nearestPick]

/-- increasing knots, `x a ≤ r ≤ x (a+1)`: the comparison of the code picks a nearest knot, ties to the lower index -/
theorem nearest_of_bracket_inc {n : Nat} {x : Nat → α} (hx : IncOn n x) {a : Nat} (ha : a + 1 < n) {r : α}
    (h1 : x a ≤ r) (h2 : r ≤ x (a + 1)) :
    IsNearestLow n x r (if x (a + 1) - r < r - x a then a + 1 else a) := by
  have hlt : x a < x (a + 1) := hx _ _ (by omega) ha
  by_cases c : x (a + 1) - r < r - x a
  · rw [if_pos c]
    refine ⟨ha, ?_, ?_⟩
    · intro i hi
      rw [abs_sub_of_ge h2]
      by_cases hia : i ≤ a
      · have : x i ≤ x a := hx.le hia (by omega)
        rw [abs_sub_of_le (le_trans this h1)]; linarith
      · have : x (a + 1) ≤ x i := hx.le (by omega) hi
        rw [abs_sub_of_ge (le_trans h2 this)]; linarith
    · intro i hi he
      by_contra hc
      have hia : i ≤ a := by omega
      have : x i ≤ x a := hx.le hia (by omega)
      rw [abs_sub_of_ge h2, abs_sub_of_le (le_trans this h1)] at he
      linarith
  · rw [if_neg c]
    have c' : r - x a ≤ x (a + 1) - r := not_lt.mp c
    refine ⟨by omega, ?_, ?_⟩
    · intro i hi
      rw [abs_sub_of_le h1]
      by_cases hia : i ≤ a
      · have : x i ≤ x a := hx.le hia (by omega)
        rw [abs_sub_of_le (le_trans this h1)]; linarith
      · have : x (a + 1) ≤ x i := hx.le (by omega) hi
        rw [abs_sub_of_ge (le_trans h2 this)]; linarith
    · intro i hi he
      by_contra hc
      have hia : i < a := by omega
      have : x i < x a := hx _ _ hia (by omega)
      rw [abs_sub_of_le h1, abs_sub_of_le (le_trans (le_of_lt this) h1)] at he
      linarith

/-- decreasing knots, `x a ≥ r ≥ x (a+1)` -/
theorem nearest_of_bracket_dec {n : Nat} {x : Nat → α} (hx : DecOn n x) {a : Nat} (ha : a + 1 < n) {r : α}
    (h1 : r ≤ x a) (h2 : x (a + 1) ≤ r) :
    IsNearestLow n x r (if r - x a < x (a + 1) - r then a + 1 else a) := by
  have hlt : x (a + 1) < x a := hx _ _ (by omega) ha
  by_cases c : r - x a < x (a + 1) - r
  · rw [if_pos c]
    refine ⟨ha, ?_, ?_⟩
    · intro i hi
      rw [abs_sub_of_le h2]
      by_cases hia : i ≤ a
      · have : x a ≤ x i := hx.le hia (by omega)
        rw [abs_sub_of_ge (le_trans h1 this)]; linarith
      · have : x i ≤ x (a + 1) := hx.le (by omega) hi
        rw [abs_sub_of_le (le_trans this h2)]; linarith
    · intro i hi he
      by_contra hc
      have hia : i ≤ a := by omega
      have : x a ≤ x i := hx.le hia (by omega)
      rw [abs_sub_of_le h2, abs_sub_of_ge (le_trans h1 this)] at he
      linarith
  · rw [if_neg c]
    have c' : x (a + 1) - r ≤ r - x a := not_lt.mp c
    refine ⟨by omega, ?_, ?_⟩
    · intro i hi
      rw [abs_sub_of_ge h1]
      by_cases hia : i ≤ a
      · have : x a ≤ x i := hx.le hia (by omega)
        rw [abs_sub_of_ge (le_trans h1 this)]; linarith
      · have : x i ≤ x (a + 1) := hx.le (by omega) hi
        rw [abs_sub_of_le (le_trans this h2)]; linarith
    · intro i hi he
      by_contra hc
      have hia : i < a := by omega
      have : x a < x i := hx _ _ hia (by omega)
      rw [abs_sub_of_ge h1, abs_sub_of_ge (le_trans h1 (le_of_lt this))] at he
      linarith

/-- beyond the first knot the first knot is the nearest one (either direction) -/
theorem nearest_first {n : Nat} {x : Nat → α} {inc : Bool} (hx : Dir n x inc) (hn : 2 ≤ n) {r : α}
    (h : if inc then r ≤ x 0 else x 0 ≤ r) : IsNearestLow n x r 0 := by
  refine ⟨by omega, ?_, fun i _ _ => Nat.zero_le _⟩
  intro i hi
  cases inc
  · have hx' : DecOn n x := by simpa [Dir] using hx
    have h' : x 0 ≤ r := by simpa using h
    have : x i ≤ x 0 := hx'.le (Nat.zero_le _) hi
    rw [abs_sub_of_le h', abs_sub_of_le (le_trans this h')]; linarith
  · have hx' : IncOn n x := by simpa [Dir] using hx
    have h' : r ≤ x 0 := by simpa using h
    have : x 0 ≤ x i := hx'.le (Nat.zero_le _) hi
    rw [abs_sub_of_ge h', abs_sub_of_ge (le_trans h' this)]; linarith

/-- beyond the last knot the last knot is the nearest one (either direction) -/
theorem nearest_last {n : Nat} {x : Nat → α} {inc : Bool} (hx : Dir n x inc) (hn : 2 ≤ n) {r : α}
    (h : if inc then x (n - 1) ≤ r else r ≤ x (n - 1)) : IsNearestLow n x r (n - 1) := by
  refine ⟨by omega, ?_, ?_⟩
  · intro i hi
    cases inc
    · have hx' : DecOn n x := by simpa [Dir] using hx
      have h' : r ≤ x (n - 1) := by simpa using h
      have : x (n - 1) ≤ x i := hx'.le (by omega) (by omega)
      rw [abs_sub_of_ge h', abs_sub_of_ge (le_trans h' this)]; linarith
    · have hx' : IncOn n x := by simpa [Dir] using hx
      have h' : x (n - 1) ≤ r := by simpa using h
      have : x i ≤ x (n - 1) := hx'.le (by omega) (by omega)
      rw [abs_sub_of_le h', abs_sub_of_le (le_trans this h')]; linarith
  · intro i hi he
    by_contra hc
    have hlt : i < n - 1 := by omega
    cases inc
    · have hx' : DecOn n x := by simpa [Dir] using hx
      have h' : r ≤ x (n - 1) := by simpa using h
      have : x (n - 1) < x i := hx' _ _ hlt (by omega)
      rw [abs_sub_of_ge h', abs_sub_of_ge (le_trans h' (le_of_lt this))] at he
      linarith
    · have hx' : IncOn n x := by simpa [Dir] using hx
      have h' : x (n - 1) ≤ r := by simpa using h
      have : x i < x (n - 1) := hx' _ _ hlt (by omega)
      rw [abs_sub_of_le h', abs_sub_of_le (le_trans (le_of_lt this) h')] at he
      linarith


/-- `r` lies in the closed knot range -/
def InRange (inc : Bool) (n : Nat) (x : Nat → α) (r : α) : Prop :=
  if inc then x 0 ≤ r ∧ r ≤ x (n - 1) else x (n - 1) ≤ r ∧ r ≤ x 0

theorem Dir.ne {n : Nat} {x : Nat → α} {inc : Bool} (hx : Dir n x inc) {j : Nat} (hj : j + 1 < n) :
    x (j + 1) ≠ x j := by
  cases inc
  · exact ne_of_lt ((by simpa [Dir] using hx : DecOn n x) j (j + 1) (by omega) hj)
  · exact ne_of_gt ((by simpa [Dir] using hx : IncOn n x) j (j + 1) (by omega) hj)

theorem IsPWL.knot {n : Nat} {x y : Nat → α} {inc : Bool} (hx : Dir n x inc) {k : Nat} (hk : k < n) {v : α}
    (h : IsPWL n x y (x k) v) : v = y k := by
  cases inc
  · exact h.knot_dec (by simpa [Dir] using hx) hk
  · exact h.knot_inc (by simpa [Dir] using hx) hk

theorem IsPWL.unique {n : Nat} {x y : Nat → α} {inc : Bool} (hx : Dir n x inc) {r v v' : α}
    (h : IsPWL n x y r v) (h' : IsPWL n x y r v') : v = v' := by
  cases inc
  · exact h.unique_dec (by simpa [Dir] using hx) h'
  · exact h.unique_inc (by simpa [Dir] using hx) h'

/-- linear scheme, query in range, either direction, any of the three policies -/
theorem interp1_inrange (recip : Bool) {n : Nat} {x : Nat → α} (y : Nat → α) {inc : Bool} (hx : Dir n x inc)
    (hn : 2 ≤ n) (policy : Nat) (ev : Ext α) {r : α} (hr : InRange inc n x r) :
    ∃ v, eval1 recip x y inc ADEPT_INTERPOLATE_LINEAR ev (fin r) (select1 n x inc policy (fin r)) = fin v
      ∧ IsPWL n x y r v := by
  cases inc
  · have h : x (n - 1) ≤ r ∧ r ≤ x 0 := by simpa [InRange] using hr
    exact interp1_dec_inrange recip y (by simpa [Dir] using hx) hn policy ev h.2 h.1
  · have h : x 0 ≤ r ∧ r ≤ x (n - 1) := by simpa [InRange] using hr
    exact interp1_inc_inrange recip y (by simpa [Dir] using hx) hn policy ev h.1 h.2

/-- nearest-neighbour scheme: in range under any admissible policy, and everywhere under the clamp policy,
    the result is the data value at a nearest knot, ties going to the lower index -/
theorem interp1_nearest (recip : Bool) {n : Nat} {x : Nat → α} (y : Nat → α) {inc : Bool} (hx : Dir n x inc)
    (hn : 2 ≤ n) {policy : Nat} (hp : policy ≠ 1) (ev : Ext α) {r : α} (hr : policy = 2 ∨ InRange inc n x r) :
    ∃ k, eval1 recip x y inc ADEPT_INTERPOLATE_NEAREST ev (fin r) (select1 n x inc policy (fin r)) = fin (y k)
      ∧ IsNearestLow n x r k := by
  have e1 : n - 1 - 1 = n - 2 := by omega
  cases inc
  · have hx' : DecOn n x := by simpa [Dir] using hx
    rw [select1_dec_fin]
    by_cases c0 : x 0 ≤ r
    · rw [if_pos c0, endBranch_fin, if_neg hp]
      have hc : policy = 2 ∨ r = x 0 := by
        rcases hr with h | h
        · exact Or.inl h
        · exact Or.inr (le_antisymm (by simpa [InRange] using h.2) c0)
      rw [if_pos hc]
      exact ⟨0, rfl, nearest_first hx hn (by simpa using c0)⟩
    · rw [if_neg c0]
      by_cases c1 : r ≤ x (n - 1)
      · rw [if_pos c1, endBranch_fin, if_neg hp]
        have hc : policy = 2 ∨ r = x (n - 1) := by
          rcases hr with h | h
          · exact Or.inl h
          · exact Or.inr (le_antisymm c1 (by simpa [InRange] using h.1))
        rw [if_pos hc]
        exact ⟨n - 1, rfl, nearest_last hx hn (by simpa using c1)⟩
      · rw [if_neg c1]
        obtain ⟨b1, b2, b3, b4, b5⟩ := bisectDec_spec x r 0 (n - 1) (by omega) (not_le.mp c0) (le_of_lt (not_le.mp c1))
        generalize bisectDec x (fin r) 0 (n - 1) = p at *
        obtain ⟨a, b⟩ := p
        simp only at b1 b2 b3 b4 b5 ⊢
        subst b1
        refine ⟨_, ?_, nearest_of_bracket_dec hx' (by omega : a + 1 < n) (le_of_lt b4) b5⟩
        simp [eval1, ADEPT_INTERPOLATE_NEAREST, ADEPT_INTERPOLATE_LINEAR, nearestPick_dec_fin]
  · have hx' : IncOn n x := by simpa [Dir] using hx
    rw [select1_inc_fin]
    by_cases c0 : r ≤ x 0
    · rw [if_pos c0, endBranch_fin, if_neg hp]
      have hc : policy = 2 ∨ r = x 0 := by
        rcases hr with h | h
        · exact Or.inl h
        · exact Or.inr (le_antisymm c0 (by simpa [InRange] using h.1))
      rw [if_pos hc]
      exact ⟨0, rfl, nearest_first hx hn (by simpa using c0)⟩
    · rw [if_neg c0]
      by_cases c1 : x (n - 1) ≤ r
      · rw [if_pos c1, endBranch_fin, if_neg hp]
        have hc : policy = 2 ∨ r = x (n - 1) := by
          rcases hr with h | h
          · exact Or.inl h
          · exact Or.inr (le_antisymm (by simpa [InRange] using h.2) c1)
        rw [if_pos hc]
        exact ⟨n - 1, rfl, nearest_last hx hn (by simpa using c1)⟩
      · rw [if_neg c1]
        obtain ⟨b1, b2, b3, b4, b5⟩ := bisectInc_spec x r 0 (n - 1) (by omega) (not_le.mp c0) (le_of_lt (not_le.mp c1))
        generalize bisectInc x (fin r) 0 (n - 1) = p at *
        obtain ⟨a, b⟩ := p
        simp only at b1 b2 b3 b4 b5 ⊢
        subst b1
        refine ⟨_, ?_, nearest_of_bracket_inc hx' (by omega : a + 1 < n) (le_of_lt b4) b5⟩
        simp [eval1, ADEPT_INTERPOLATE_NEAREST, ADEPT_INTERPOLATE_LINEAR, nearestPick_inc_fin]


/-! ### the linear scans of `interp_get_indices_weights` -/

/-- loop invariant of the upward scan: `jj = 0 ∨ x jj < q` is kept; on exit `q ≤ x (jj+1)` -/
theorem scanUp_spec (n : Nat) (x : Nat → α) (r : α) (jj : Nat) (hjj : jj + 2 ≤ n)
    (hinv : jj = 0 ∨ x jj < r) (hhi : r ≤ x (n - 1)) :
    jj ≤ scanUp n x (fin r) jj ∧ scanUp n x (fin r) jj + 2 ≤ n ∧
    (scanUp n x (fin r) jj = 0 ∨ x (scanUp n x (fin r) jj) < r) ∧ r ≤ x (scanUp n x (fin r) jj + 1) := by
  fun_induction scanUp n x (fin r) jj with
  | case1 jj hc ih =>
    have hlt : x (jj + 1) < r := by simpa using hc.2
    have := ih (by omega) (Or.inr hlt)
    exact ⟨by omega, this.2.1, this.2.2.1, this.2.2.2⟩
  | case2 jj hc =>
    refine ⟨le_refl _, hjj, hinv, ?_⟩
    by_cases h2 : jj + 2 < n
    · have : ¬ x (jj + 1) < r := by
        intro h; exact hc ⟨h2, by simpa using h⟩
      exact not_lt.mp this
    · have : jj + 1 = n - 1 := by omega
      rw [this]; exact hhi

/-- loop invariant of the downward scan: `x (jj+1) ≤ q` is kept; on exit `q ≤ x jj` -/
theorem scanDown_spec (x : Nat → α) (r : α) (h0 : r ≤ x 0) (jj : Nat) (hinv : x (jj + 1) ≤ r) :
    scanDown x (fin r) jj ≤ jj ∧ x (scanDown x (fin r) jj + 1) ≤ r ∧ r ≤ x (scanDown x (fin r) jj) := by
  induction jj with
  | zero => simpa [scanDown] using ⟨hinv, h0⟩
  | succ j ih =>
    unfold scanDown
    by_cases hc : x (j + 1) < r
    · have : blt (fin (x (j + 1))) (fin r) = true := by simpa using hc
      rw [if_pos this]
      have := ih (le_of_lt hc)
      exact ⟨by omega, this.2.1, this.2.2⟩
    · have : ¬ (blt (fin (x (j + 1))) (fin r) = true) := by simpa using hc
      rw [if_neg this]
      exact ⟨le_refl _, hinv, not_lt.mp hc⟩

/-- what `interp_get_indices_weights` delivers for an in-range query: a valid entry whose index brackets
    the query and whose weight is `(x(j+1) - q) / (x(j+1) - x(j))` -/
structure Bracketed (n : Nat) (x : Nat → α) (r : α) (w : IW α) : Prop where
  valid : w.valid = true
  lt : w.ind0 + 1 < n
  seg : (x w.ind0 ≤ r ∧ r ≤ x (w.ind0 + 1)) ∨ (x (w.ind0 + 1) ≤ r ∧ r ≤ x w.ind0)
  ne : x (w.ind0 + 1) ≠ x w.ind0
  weight : w.weight0 = fin ((x (w.ind0 + 1) - r) / (x (w.ind0 + 1) - x w.ind0))

theorem indexWeight_inc_fin (n : Nat) (x : Nat → α) (policy : Nat) (r : α) :
    indexWeight n x true policy (fin r) =
      if x 0 ≤ r ∧ r ≤ x (n - 1) then
        { ind0 := scanUp n x (fin r) 0,
          weight0 := (fin (x (scanUp n x (fin r) 0 + 1)) - fin r) /
            (fin (x (scanUp n x (fin r) 0 + 1)) - fin (x (scanUp n x (fin r) 0))) }
      else if r < x 0 then offEnd x policy (fin r) 0 1 else offEnd x policy (fin r) (n - 2) 0 := by
  simp [indexWeight]

theorem indexWeight_dec_fin (n : Nat) (x : Nat → α) (policy : Nat) (r : α) :
    indexWeight n x false policy (fin r) =
      if r ≤ x 0 ∧ x (n - 1) ≤ r then
        { ind0 := scanDown x (fin r) (n - 2),
          weight0 := (fin (x (scanDown x (fin r) (n - 2) + 1)) - fin r) /
            (fin (x (scanDown x (fin r) (n - 2) + 1)) - fin (x (scanDown x (fin r) (n - 2)))) }
      else if x 0 < r then offEnd x policy (fin r) 0 1 else offEnd x policy (fin r) (n - 2) 0 := by
  simp [indexWeight]

theorem indexWeight_inrange {n : Nat} {x : Nat → α} {inc : Bool} (hx : Dir n x inc) (hn : 2 ≤ n)
    (policy : Nat) {r : α} (hr : InRange inc n x r) : Bracketed n x r (indexWeight n x inc policy (fin r)) := by
  cases inc
  · have h : x (n - 1) ≤ r ∧ r ≤ x 0 := by simpa [InRange] using hr
    rw [indexWeight_dec_fin, if_pos ⟨h.2, h.1⟩]
    have e : n - 2 + 1 = n - 1 := by omega
    obtain ⟨s1, s2, s3⟩ := scanDown_spec x r h.2 (n - 2) (by rw [e]; exact h.1)
    generalize scanDown x (fin r) (n - 2) = j at *
    have hne := hx.ne (by omega : j + 1 < n)
    exact ⟨rfl, by simp only; omega, Or.inr ⟨s2, s3⟩, hne, by simp [div_fin _ _ (sub_ne_zero.mpr hne)]⟩
  · have h : x 0 ≤ r ∧ r ≤ x (n - 1) := by simpa [InRange] using hr
    rw [indexWeight_inc_fin, if_pos h]
    obtain ⟨_, s2, s3, s4⟩ := scanUp_spec n x r 0 (by omega) (Or.inl rfl) h.2
    generalize scanUp n x (fin r) 0 = j at *
    have hne := hx.ne (by omega : j + 1 < n)
    have hlo : x j ≤ r := by
      rcases s3 with rfl | s3
      · exact h.1
      · exact le_of_lt s3
    exact ⟨rfl, by simp only; omega, Or.inl ⟨hlo, s4⟩, hne, by simp [div_fin _ _ (sub_ne_zero.mpr hne)]⟩

/-- the two weights of a bracketed entry lie in `[0, 1]` (and sum to one by construction: `w`, `1 - w`) -/
theorem Bracketed.weight_unit {n : Nat} {x : Nat → α} {r : α} {w : IW α} (h : Bracketed n x r w) :
    ∃ a : α, w.weight0 = fin a ∧ 0 ≤ a ∧ a ≤ 1 ∧ fin (1 : α) - w.weight0 = fin (1 - a) ∧ a + (1 - a) = 1 := by
  refine ⟨_, h.weight, ?_, ?_, by rw [h.weight]; rfl, by ring⟩
  · rcases h.seg with ⟨a1, a2⟩ | ⟨a1, a2⟩
    · have : x w.ind0 < x (w.ind0 + 1) := lt_of_le_of_ne (le_trans a1 a2) (Ne.symm h.ne)
      exact div_nonneg (sub_nonneg.mpr a2) (le_of_lt (sub_pos.mpr this))
    · have : x (w.ind0 + 1) < x w.ind0 := lt_of_le_of_ne (le_trans a1 a2) h.ne
      exact div_nonneg_of_nonpos (sub_nonpos.mpr a1) (le_of_lt (sub_neg.mpr this))
  · rcases h.seg with ⟨a1, a2⟩ | ⟨a1, a2⟩
    · have : x w.ind0 < x (w.ind0 + 1) := lt_of_le_of_ne (le_trans a1 a2) (Ne.symm h.ne)
      rw [div_le_one (sub_pos.mpr this)]; linarith
    · have : x (w.ind0 + 1) < x w.ind0 := lt_of_le_of_ne (le_trans a1 a2) h.ne
      rw [div_le_one_of_neg (sub_neg.mpr this)]; linarith

/-- `w * u + (1 - w) * v` with the weight of the code is the straight line through the two points -/
theorem weight_line {xa xb : α} (h : xb ≠ xa) (u v r : α) :
    (xb - r) / (xb - xa) * u + (1 - (xb - r) / (xb - xa)) * v = lineThrough xa xb u v r := by
  have hd : xb - xa ≠ 0 := sub_ne_zero.mpr h
  unfold lineThrough
  field_simp
  ring


/-! ### out-of-range entries of `interp_get_indices_weights` -/

theorem offEnd_linear (x : Nat → α) (r : α) (ind : Nat) (c : α) (h : x (ind + 1) ≠ x ind) :
    offEnd x 1 (fin r) ind c = { ind0 := ind, weight0 := fin ((x (ind + 1) - r) / (x (ind + 1) - x ind)) } := by
  simp [offEnd, ADEPT_EXTRAPOLATE_LINEAR, div_fin _ _ (sub_ne_zero.mpr h)]

theorem offEnd_clamp (x : Nat → α) (q : Ext α) (ind : Nat) (c : α) :
    offEnd x 2 q ind c = { ind0 := ind, weight0 := fin c } := by
  simp [offEnd, ADEPT_EXTRAPOLATE_LINEAR, ADEPT_EXTRAPOLATE_CLAMP]

theorem offEnd_constant (x : Nat → α) (q : Ext α) (ind : Nat) (c : α) :
    (offEnd x 3 q ind c).valid = false := by
  simp [offEnd, ADEPT_EXTRAPOLATE_LINEAR, ADEPT_EXTRAPOLATE_CLAMP]

/-- beyond the first / last knot `interp_get_indices_weights` takes the `offEnd` branch with the end segment
    (`OffFirst`/`OffLast` include the infinite queries) -/
theorem indexWeight_offFirst (n : Nat) (x : Nat → α) (inc : Bool) (policy : Nat) (q : Ext α)
    (h : OffFirst inc (x 0) q) : indexWeight n x inc policy q = offEnd x policy q 0 1 := by
  cases q with
  | fin r =>
    cases inc
    · have h' : x 0 < r := by simpa [OffFirst] using h
      rw [indexWeight_dec_fin, if_neg (fun c => absurd c.1 (not_le.mpr h')), if_pos h']
    · have h' : r < x 0 := by simpa [OffFirst] using h
      rw [indexWeight_inc_fin, if_neg (fun c => absurd c.1 (not_le.mpr h')), if_pos h']
  | pinf =>
    have : inc = false := by simpa [OffFirst] using h
    subst this
    simp [indexWeight, bge, ble, bgt, blt]
  | ninf =>
    have : inc = true := by simpa [OffFirst] using h
    subst this
    simp [indexWeight, bge, ble, bgt, blt]
  | nan => exact absurd h (by simp [OffFirst])

theorem indexWeight_offLast {n : Nat} {x : Nat → α} {inc : Bool} (hx : Dir n x inc) (hn : 2 ≤ n) (policy : Nat)
    (q : Ext α) (h : OffLast inc (x (n - 1)) q) : indexWeight n x inc policy q = offEnd x policy q (n - 2) 0 := by
  cases q with
  | fin r =>
    cases inc
    · have h' : r < x (n - 1) := by simpa [OffLast] using h
      have hx' : DecOn n x := by simpa [Dir] using hx
      have h0 : x (n - 1) ≤ x 0 := hx'.le (Nat.zero_le _) (by omega)
      rw [indexWeight_dec_fin, if_neg (fun c => absurd c.2 (not_le.mpr h')),
        if_neg (not_lt.mpr (le_of_lt (lt_of_lt_of_le h' h0)))]
    · have h' : x (n - 1) < r := by simpa [OffLast] using h
      have hx' : IncOn n x := by simpa [Dir] using hx
      have h0 : x 0 ≤ x (n - 1) := hx'.le (Nat.zero_le _) (by omega)
      rw [indexWeight_inc_fin, if_neg (fun c => absurd c.2 (not_le.mpr h')),
        if_neg (not_lt.mpr (le_of_lt (lt_of_le_of_lt h0 h')))]
  | pinf =>
    have : inc = true := by simpa [OffLast] using h
    subst this
    simp [indexWeight, bge, ble, bgt, blt]
  | ninf =>
    have : inc = false := by simpa [OffLast] using h
    subst this
    simp [indexWeight, bge, ble, bgt, blt]
  | nan => exact absurd h (by simp [OffLast])

/-! ### the final loops of `interp2d` / `interp3d`: tensor product of 1-D operators -/

/-- the finite weight of an entry (0 if the weight is not finite) -/
def IW.fw (w : IW α) : α := match w.weight0 with | fin a => a | _ => 0

/-- the 1-D operator an entry stands for, applied to a column `f` of data:
    `w * f(ind0) + (1 - w) * f(ind0 + 1)` -/
def op1 (w : IW α) (f : Nat → α) : α := w.fw * f w.ind0 + (1 - w.fw) * f (w.ind0 + 1)

theorem IW.fw_of {w : IW α} {a : α} (h : w.weight0 = fin a) : w.fw = a := by simp [IW.fw, h]

theorem eval2_tensor (m : Nat → Nat → α) (ev : Ext α) {wx wy : IW α} (hx : wx.valid = true) (hy : wy.valid = true)
    {a b : α} (ha : wx.weight0 = fin a) (hb : wy.weight0 = fin b) :
    eval2 m ev wx wy = fin (op1 wy (fun j => op1 wx (fun i => m i j))) := by
  simp [eval2, op1, hx, hy, ha, hb, IW.fw_of ha, IW.fw_of hb]

theorem eval2_invalid (m : Nat → Nat → α) (ev : Ext α) {wx wy : IW α} (h : wx.valid = false ∨ wy.valid = false) :
    eval2 m ev wx wy = ev := by
  rcases h with h | h <;> simp [eval2, h]

theorem eval3_tensor (m : Nat → Nat → Nat → α) (ev : Ext α) {wx wy wz : IW α}
    (hx : wx.valid = true) (hy : wy.valid = true) (hz : wz.valid = true)
    {a b c : α} (ha : wx.weight0 = fin a) (hb : wy.weight0 = fin b) (hc : wz.weight0 = fin c) :
    eval3 m ev wx wy wz = fin (op1 wx (fun i => op1 wy (fun j => op1 wz (fun k => m i j k)))) := by
  simp [eval3, op1, hx, hy, hz, ha, hb, hc, IW.fw_of ha, IW.fw_of hb, IW.fw_of hc]

theorem eval3_invalid (m : Nat → Nat → Nat → α) (ev : Ext α) {wx wy wz : IW α}
    (h : wx.valid = false ∨ wy.valid = false ∨ wz.valid = false) : eval3 m ev wx wy wz = ev := by
  rcases h with h | h | h <;> simp [eval3, h]

/-- for an in-range entry the 1-D operator is the piecewise-linear interpolant of the column -/
theorem Bracketed.op1_isPWL {n : Nat} {x : Nat → α} {r : α} {w : IW α} (h : Bracketed n x r w) (f : Nat → α) :
    IsPWL n x f r (op1 w f) := by
  refine ⟨w.ind0, h.lt, h.seg, ?_⟩
  rw [op1, IW.fw_of h.weight, weight_line h.ne]

theorem indexWeightR_linear [HasRound α] (n : Nat) (x : Nat → α) (inc : Bool) (policy : Nat) (q : Ext α) :
    indexWeightR n x inc ADEPT_INTERPOLATE_LINEAR policy q = indexWeight n x inc policy q := by
  simp [indexWeightR, roundIf, ADEPT_INTERPOLATE_LINEAR, ADEPT_INTERPOLATE_NEAREST]

/-! ### option word -/

theorem extract_spec (o : Nat) :
    extractInterpExtrap o =
      if (o / 16 = 0 ∨ o / 16 = 1) ∧ o % 16 ≤ 3 ∧ ¬ (o / 16 = 1 ∧ o % 16 = 1) then
        .ok (16 * (o / 16), if o % 16 = 0 then (if o / 16 = 0 then 1 else 2) else o % 16)
      else .error .arrayException := by
  have e : o - o % 16 = 16 * (o / 16) := by omega
  simp only [extractInterpExtrap, e, ADEPT_INTERPOLATE_LINEAR, ADEPT_INTERPOLATE_NEAREST,
    ADEPT_EXTRAPOLATE_CONSTANT, ADEPT_EXTRAPOLATE_LINEAR, ADEPT_EXTRAPOLATE_DEFAULT, ADEPT_EXTRAPOLATE_CLAMP]
  split_ifs <;> first | rfl | (exfalso; omega)

/-! ### weights are the coefficients of the data -/

/-- `Σ w · y[j]` over a weight list, in `Ext` arithmetic -/
def dotW (ws : List (Nat × Ext α)) (y : Nat → α) : Ext α :=
  ws.foldr (fun jw acc => jw.2 * fin (y jw.1) + acc) (fin 0)

theorem eval1_eq_dotW (recip : Bool) (x y : Nat → α) (inc : Bool) (scheme : Nat) (ev : Ext α) (r : α)
    (s : Sel1) (hs : s ≠ .extrap) (hne : ∀ a b, s = .pair a b → x b ≠ x a) :
    eval1 recip x y inc scheme ev (fin r) s = dotW (weights1 x inc scheme (fin r) s) y := by
  cases s with
  | extrap => exact absurd rfl hs
  | copy j => simp [eval1, weights1, dotW]
  | pair a b =>
    have hd : x b - x a ≠ 0 := sub_ne_zero.mpr (hne a b rfl)
    by_cases hl : scheme = ADEPT_INTERPOLATE_LINEAR
    · simp only [eval1, weights1, hl, if_true, dotW, List.foldr, sub_fin, div_fin _ _ hd, mul_fin, add_fin]
      rw [linFormula_fin recip x y r a b (hne a b rfl)]
      congr 1
      unfold lineThrough
      field_simp
      ring
    · simp [eval1, weights1, hl, dotW]


/-! ### array level: sizes, exceptions, trailing dimensions -/

theorem interp1_size_mismatch (e : Bool) (xs : Array α) (ydims : List Nat) (data : Array α) (xi : List (Ext α))
    (o : Nat) (ev : Ext α) (h : xs.size ≠ ydims.headD 0 ∨ xs.size = 0) :
    interp1 e xs ydims data xi o ev = .error .sizeMismatch := by
  simp only [interp1]
  rcases h with h | h
  · rw [if_pos h]
  · by_cases h' : xs.size = ydims.headD 0
    · rw [if_neg (not_not.mpr h'), if_pos h]
    · rw [if_pos h']

theorem interp1_single (e : Bool) (xs : Array α) (ydims : List Nat) (data : Array α) (xi : List (Ext α))
    (o : Nat) (ev : Ext α) (h : xs.size = ydims.headD 0) (h1 : xs.size = 1) :
    (interp1 e xs ydims data xi o ev).map Result.vals = .ok
      (xi.flatMap fun _ => (List.range (prod (ydims.drop 1))).map fun k => fin (data.getD k 0)) := by
  simp only [interp1]
  rw [if_neg (not_not.mpr h), if_neg (by omega), if_pos h1]
  simp [Except.map]

theorem interp1_bad_options (e : Bool) (xs : Array α) (ydims : List Nat) (data : Array α) (xi : List (Ext α))
    (o : Nat) (ev : Ext α) (h : xs.size = ydims.headD 0) (h2 : 2 ≤ xs.size)
    (ho : extractInterpExtrap o = .error .arrayException) :
    interp1 e xs ydims data xi o ev = .error .arrayException := by
  simp only [interp1]
  rw [if_neg (not_not.mpr h), if_neg (by omega), if_neg (by omega), ho]

theorem interp1_ok (e : Bool) (xs : Array α) (ydims : List Nat) (data : Array α) (xi : List (Ext α))
    (o : Nat) (ev : Ext α) (h : xs.size = ydims.headD 0) (h2 : 2 ≤ xs.size) {s p : Nat}
    (ho : extractInterpExtrap o = .ok (s, p)) :
    (interp1 e xs ydims data xi o ev).map Result.vals = .ok
      (xi.flatMap fun q => (List.range (prod (ydims.drop 1))).map fun k =>
          eval1 e (fun j => xs.getD j 0) (fun j => data.getD (j * prod (ydims.drop 1) + k) 0)
            (decide (xs.getD 0 0 < xs.getD 1 0)) s ev q
            (select1 xs.size (fun j => xs.getD j 0) (decide (xs.getD 0 0 < xs.getD 1 0)) p q)) := by
  simp only [interp1]
  rw [if_neg (not_not.mpr h), if_neg (by omega), if_neg (by omega), ho]
  simp [Except.map]


theorem interp2_size_mismatch [HasRound α] (xs ys : Array α) (mdims : List Nat) (data : Array α)
    (xi yi : List (Ext α)) (o : Nat) (ev : Ext α)
    (h : xs.size ≠ mdims.getD 0 0 ∨ ys.size ≠ mdims.getD 1 0 ∨ xs.size < 2 ∨ ys.size < 2 ∨ xi.length ≠ yi.length) :
    interp2 xs ys mdims data xi yi o ev = .error .sizeMismatch := by
  simp only [interp2]
  by_cases c1 : xs.size ≠ mdims.getD 0 0
  · rw [if_pos c1]
  rw [if_neg c1]
  by_cases c2 : ys.size ≠ mdims.getD 1 0
  · rw [if_pos c2]
  rw [if_neg c2]
  by_cases c3 : xs.size < 2 ∨ ys.size < 2
  · rw [if_pos c3]
  rw [if_neg c3]
  by_cases c4 : xi.length ≠ yi.length
  · rw [if_pos c4]
  exfalso
  rcases h with h | h | h | h | h
  · exact c1 h
  · exact c2 h
  · exact c3 (Or.inl h)
  · exact c3 (Or.inr h)
  · exact c4 h

theorem interp2_bad_options [HasRound α] (xs ys : Array α) (mdims : List Nat) (data : Array α)
    (xi yi : List (Ext α)) (o : Nat) (ev : Ext α)
    (h1 : xs.size = mdims.getD 0 0) (h2 : ys.size = mdims.getD 1 0) (h3 : 2 ≤ xs.size) (h4 : 2 ≤ ys.size)
    (h5 : xi.length = yi.length) (ho : extractInterpExtrap o = .error .arrayException) :
    interp2 xs ys mdims data xi yi o ev = .error .arrayException := by
  simp only [interp2]
  rw [if_neg (not_not.mpr h1), if_neg (not_not.mpr h2), if_neg (by omega), if_neg (not_not.mpr h5), ho]

theorem interp2_ok [HasRound α] (xs ys : Array α) (mdims : List Nat) (data : Array α)
    (xi yi : List (Ext α)) (o : Nat) (ev : Ext α)
    (h1 : xs.size = mdims.getD 0 0) (h2 : ys.size = mdims.getD 1 0) (h3 : 2 ≤ xs.size) (h4 : 2 ≤ ys.size)
    (h5 : xi.length = yi.length) {s p : Nat} (ho : extractInterpExtrap o = .ok (s, p)) :
    (interp2 xs ys mdims data xi yi o ev).map Result.vals = .ok
      ((xi.zip yi).flatMap fun q => (List.range (prod (mdims.drop 2))).map fun k =>
        eval2 (fun i j => data.getD ((i * ys.size + j) * prod (mdims.drop 2) + k) 0) ev
          (indexWeightR xs.size (fun j => xs.getD j 0) (decide (xs.getD 1 0 > xs.getD 0 0)) s p q.1)
          (indexWeightR ys.size (fun j => ys.getD j 0) (decide (ys.getD 1 0 > ys.getD 0 0)) s p q.2)) := by
  simp only [interp2]
  rw [if_neg (not_not.mpr h1), if_neg (not_not.mpr h2), if_neg (by omega), if_neg (not_not.mpr h5), ho]
  simp [Except.map]

theorem interp3_size_mismatch [HasRound α] (xs ys zs : Array α) (mdims : List Nat) (data : Array α)
    (xi yi zi : List (Ext α)) (o : Nat) (ev : Ext α)
    (h : xs.size ≠ mdims.getD 0 0 ∨ ys.size ≠ mdims.getD 1 0 ∨ zs.size ≠ mdims.getD 2 0 ∨
      xs.size < 2 ∨ ys.size < 2 ∨ zs.size < 2 ∨ xi.length ≠ yi.length ∨ xi.length ≠ zi.length) :
    interp3 xs ys zs mdims data xi yi zi o ev = .error .sizeMismatch := by
  simp only [interp3]
  by_cases c1 : xs.size ≠ mdims.getD 0 0
  · rw [if_pos c1]
  rw [if_neg c1]
  by_cases c2 : ys.size ≠ mdims.getD 1 0
  · rw [if_pos c2]
  rw [if_neg c2]
  by_cases c2' : zs.size ≠ mdims.getD 2 0
  · rw [if_pos c2']
  rw [if_neg c2']
  by_cases c3 : xs.size < 2 ∨ ys.size < 2 ∨ zs.size < 2
  · rw [if_pos c3]
  rw [if_neg c3]
  by_cases c4 : xi.length ≠ yi.length ∨ xi.length ≠ zi.length
  · rw [if_pos c4]
  exfalso
  rcases h with h | h | h | h | h | h | h | h
  · exact c1 h
  · exact c2 h
  · exact c2' h
  · exact c3 (Or.inl h)
  · exact c3 (Or.inr (Or.inl h))
  · exact c3 (Or.inr (Or.inr h))
  · exact c4 (Or.inl h)
  · exact c4 (Or.inr h)

theorem interp3_ok [HasRound α] (xs ys zs : Array α) (mdims : List Nat) (data : Array α)
    (xi yi zi : List (Ext α)) (o : Nat) (ev : Ext α)
    (h1 : xs.size = mdims.getD 0 0) (h2 : ys.size = mdims.getD 1 0) (h2' : zs.size = mdims.getD 2 0)
    (h3 : 2 ≤ xs.size) (h4 : 2 ≤ ys.size) (h4' : 2 ≤ zs.size)
    (h5 : xi.length = yi.length) (h5' : xi.length = zi.length) {s p : Nat}
    (ho : extractInterpExtrap o = .ok (s, p)) :
    (interp3 xs ys zs mdims data xi yi zi o ev).map Result.vals = .ok
      ((xi.zip (yi.zip zi)).flatMap fun q => (List.range (prod (mdims.drop 3))).map fun l =>
        eval3 (fun i j k => data.getD (((i * ys.size + j) * zs.size + k) * prod (mdims.drop 3) + l) 0) ev
          (indexWeightR xs.size (fun j => xs.getD j 0) (decide (xs.getD 1 0 > xs.getD 0 0)) s p q.1)
          (indexWeightR ys.size (fun j => ys.getD j 0) (decide (ys.getD 1 0 > ys.getD 0 0)) s p q.2.1)
          (indexWeightR zs.size (fun j => zs.getD j 0) (decide (zs.getD 1 0 > zs.getD 0 0)) s p q.2.2)) := by
  simp only [interp3]
  rw [if_neg (not_not.mpr h1), if_neg (not_not.mpr h2), if_neg (not_not.mpr h2'), if_neg (by omega),
    if_neg (by omega), ho]
  simp [Except.map]


/-! ### strictly monotone knot vectors in either direction -/

/-- strictly monotone (increasing or decreasing) on the first `n` indices -/
def Knots (n : Nat) (x : Nat → α) : Prop := IncOn n x ∨ DecOn n x

/-- `r` lies in the closed interval spanned by the end knots -/
def Inside (n : Nat) (x : Nat → α) (r : α) : Prop :=
  (x 0 ≤ r ∧ r ≤ x (n - 1)) ∨ (x (n - 1) ≤ r ∧ r ≤ x 0)

/-- the direction test of `interp`, `x(0) < x(1)`, recognises the direction -/
theorem Knots.dir {n : Nat} {x : Nat → α} (h : Knots n x) (hn : 2 ≤ n) : Dir n x (decide (x 0 < x 1)) := by
  rcases h with h | h
  · have : x 0 < x 1 := h 0 1 (by omega) (by omega)
    simpa [Dir, this] using h
  · have : ¬ x 0 < x 1 := not_lt.mpr (le_of_lt (h 0 1 (by omega) (by omega)))
    simpa [Dir, this] using h

/-- the direction test of `interp_get_indices_weights`, `x(1) > x(0)`, is the same test -/
theorem decide_gt_eq (x : Nat → α) : decide (x 1 > x 0) = decide (x 0 < x 1) := rfl

theorem Knots.inRange {n : Nat} {x : Nat → α} (h : Knots n x) (hn : 2 ≤ n) {r : α} (hr : Inside n x r) :
    InRange (decide (x 0 < x 1)) n x r := by
  rcases h with h | h
  · have h01 : x 0 < x 1 := h 0 1 (by omega) (by omega)
    have h0l : x 0 < x (n - 1) := h 0 (n - 1) (by omega) (by omega)
    rcases hr with hr | hr
    · simpa [InRange, h01] using hr
    · exact absurd (le_trans hr.1 hr.2) (not_le.mpr h0l)
  · have h01 : ¬ x 0 < x 1 := not_lt.mpr (le_of_lt (h 0 1 (by omega) (by omega)))
    have h0l : x (n - 1) < x 0 := h 0 (n - 1) (by omega) (by omega)
    rcases hr with hr | hr
    · exact absurd (le_trans hr.1 hr.2) (not_le.mpr h0l)
    · simpa [InRange, h01] using hr

theorem Knots.inside_knot {n : Nat} {x : Nat → α} (h : Knots n x) {k : Nat} (hk : k < n) : Inside n x (x k) := by
  rcases h with h | h
  · exact Or.inl ⟨h.le (Nat.zero_le _) hk, h.le (by omega) (by omega)⟩
  · exact Or.inr ⟨h.le (by omega) (by omega), h.le (Nat.zero_le _) hk⟩

/-- one output element of `interp` as the model computes it (`n ≥ 2` knots): the loop body up to the
    formula, then the formula; `y` is the data along the interpolated dimension for one trailing index -/
def interp1Elem (recip : Bool) (n : Nat) (x y : Nat → α) (scheme policy : Nat) (ev q : Ext α) : Ext α :=
  eval1 recip x y (decide (x 0 < x 1)) scheme ev q (select1 n x (decide (x 0 < x 1)) policy q)

/-- the interpolation weights the model reports for that element -/
def interp1Weights (n : Nat) (x : Nat → α) (scheme policy : Nat) (q : Ext α) : List (Nat × Ext α) :=
  weights1 x (decide (x 0 < x 1)) scheme q (select1 n x (decide (x 0 < x 1)) policy q)

/-- one output element of `interp2d` / `interp3d` -/
def interp2Elem [HasRound α] (nx ny : Nat) (x y : Nat → α) (m : Nat → Nat → α) (scheme policy : Nat)
    (ev qx qy : Ext α) : Ext α :=
  eval2 m ev (indexWeightR nx x (decide (x 1 > x 0)) scheme policy qx)
    (indexWeightR ny y (decide (y 1 > y 0)) scheme policy qy)

def interp3Elem [HasRound α] (nx ny nz : Nat) (x y z : Nat → α) (m : Nat → Nat → Nat → α) (scheme policy : Nat)
    (ev qx qy qz : Ext α) : Ext α :=
  eval3 m ev (indexWeightR nx x (decide (x 1 > x 0)) scheme policy qx)
    (indexWeightR ny y (decide (y 1 > y 0)) scheme policy qy)
    (indexWeightR nz z (decide (z 1 > z 0)) scheme policy qz)


/-- whenever the loop body falls through to the formula, the pair consists of two different knots -/
theorem select1_pair_ne {n : Nat} {x : Nat → α} {inc : Bool} (hx : Dir n x inc) (hn : 2 ≤ n) (policy : Nat)
    (r : α) {a b : Nat} (h : select1 n x inc policy (fin r) = .pair a b) : x b ≠ x a := by
  have e1 : n - 1 - 1 = n - 2 := by omega
  have e2 : n - 2 + 1 = n - 1 := by omega
  have key : ∀ a' b', endBranch x policy (fin r) a' a' b' = .pair a b ∨ True → True := fun _ _ _ => trivial
  have hend : ∀ jend lo hi, endBranch x policy (fin r) jend lo hi = .pair a b → a = lo ∧ b = hi := by
    intro jend lo hi he
    rw [endBranch_fin] at he
    split_ifs at he
    · injection he with h1 h2; exact ⟨h1.symm, h2.symm⟩
  cases inc
  · rw [select1_dec_fin] at h
    split_ifs at h with c0 c1
    · obtain ⟨rfl, rfl⟩ := hend _ _ _ h
      exact hx.ne (by omega : 0 + 1 < n)
    · obtain ⟨rfl, rfl⟩ := hend _ _ _ h
      have := hx.ne (by omega : (n - 2) + 1 < n)
      rw [e1]; rw [e2] at this; exact this
    · obtain ⟨b1, b2, b3, b4, b5⟩ := bisectDec_spec x r 0 (n - 1) (by omega) (not_le.mp c0) (le_of_lt (not_le.mp c1))
      injection h with h1 h2
      rw [← h1, ← h2, b1]
      exact hx.ne (by omega)
  · rw [select1_inc_fin] at h
    split_ifs at h with c0 c1
    · obtain ⟨rfl, rfl⟩ := hend _ _ _ h
      exact hx.ne (by omega : 0 + 1 < n)
    · obtain ⟨rfl, rfl⟩ := hend _ _ _ h
      have := hx.ne (by omega : (n - 2) + 1 < n)
      rw [e1]; rw [e2] at this; exact this
    · obtain ⟨b1, b2, b3, b4, b5⟩ := bisectInc_spec x r 0 (n - 1) (by omega) (not_le.mp c0) (le_of_lt (not_le.mp c1))
      injection h with h1 h2
      rw [← h1, ← h2, b1]
      exact hx.ne (by omega)

/-! ### weights of `interp2d` / `interp3d` are the coefficients of the data -/

def dotW2 (ws : List ((Nat × Nat) × Ext α)) (m : Nat → Nat → α) : Ext α :=
  ws.foldr (fun e acc => e.2 * fin (m e.1.1 e.1.2) + acc) (fin 0)

def dotW3 (ws : List ((Nat × Nat × Nat) × Ext α)) (m : Nat → Nat → Nat → α) : Ext α :=
  ws.foldr (fun e acc => e.2 * fin (m e.1.1 e.1.2.1 e.1.2.2) + acc) (fin 0)

theorem eval2_eq_dotW2 (m : Nat → Nat → α) (ev : Ext α) {wx wy : IW α} (hx : wx.valid = true)
    (hy : wy.valid = true) {a b : α} (ha : wx.weight0 = fin a) (hb : wy.weight0 = fin b) :
    eval2 m ev wx wy = dotW2 (weights2 wx wy) m := by
  simp only [eval2, weights2, dotW2, hx, hy, ha, hb, Bool.and_self, if_true, List.foldr, sub_fin, mul_fin, add_fin]
  congr 1
  ring

theorem eval3_eq_dotW3 (m : Nat → Nat → Nat → α) (ev : Ext α) {wx wy wz : IW α} (hx : wx.valid = true)
    (hy : wy.valid = true) (hz : wz.valid = true) {a b c : α} (ha : wx.weight0 = fin a)
    (hb : wy.weight0 = fin b) (hc : wz.weight0 = fin c) :
    eval3 m ev wx wy wz = dotW3 (weights3 wx wy wz) m := by
  simp only [eval3, weights3, dotW3, hx, hy, hz, ha, hb, hc, Bool.and_self, if_true, List.foldr, sub_fin, mul_fin,
    add_fin]
  congr 1
  ring

theorem weights2_invalid {wx wy : IW α} (h : wx.valid = false ∨ wy.valid = false) : weights2 wx wy = [] := by
  rcases h with h | h <;> simp [weights2, h]

theorem weights3_invalid {wx wy wz : IW α} (h : wx.valid = false ∨ wy.valid = false ∨ wz.valid = false) :
    weights3 wx wy wz = [] := by
  rcases h with h | h | h <;> simp [weights3, h]

/-! ### infinite queries under linear extrapolation: the result is not finite -/

def Ext.isFin : Ext α → Bool
  | fin _ => true
  | _ => false

theorem infTimes_nonfin (p : Bool) (b : α) : (infTimes p b).isFin = false := by
  unfold infTimes
  split_ifs <;> rfl

theorem add_nonfin {a b : Ext α} (ha : a.isFin = false) (hb : b.isFin = false) : (a + b).isFin = false := by
  cases a <;> cases b <;> first | rfl | exact absurd ha (by simp [Ext.isFin])

theorem mul_fin_nonfin {a : Ext α} (ha : a.isFin = false) (c : α) : (a * fin c).isFin = false := by
  cases a with
  | fin _ => exact absurd ha (by simp [Ext.isFin])
  | pinf => exact infTimes_nonfin true c
  | ninf => exact infTimes_nonfin false c
  | nan => rfl

theorem div_fin_nonfin {a : Ext α} (ha : a.isFin = false) (d : α) : (a / fin d).isFin = false := by
  cases a with
  | fin _ => exact absurd ha (by simp [Ext.isFin])
  | pinf => show (Ext.div pinf (fin d)).isFin = false; simp only [Ext.div]; split_ifs <;> rfl
  | ninf => show (Ext.div ninf (fin d)).isFin = false; simp only [Ext.div]; split_ifs <;> rfl
  | nan => rfl

/-- the formula of `interp` on an infinite query is never a finite number -/
theorem linFormula_inf_nonfin (recip : Bool) (x y : Nat → α) (a b : Nat) (h : x b ≠ x a) (q : Ext α)
    (hq : q = pinf ∨ q = ninf) : (linFormula recip x y q a b).isFin = false := by
  have hd : x b - x a ≠ 0 := sub_ne_zero.mpr h
  have hnum : ((q - fin (x a)) * fin (y b) + (fin (x b) - q) * fin (y a)).isFin = false := by
    rcases hq with rfl | rfl
    · exact add_nonfin (infTimes_nonfin true _) (infTimes_nonfin false _)
    · exact add_nonfin (infTimes_nonfin false _) (infTimes_nonfin true _)
  unfold linFormula
  cases recip
  · simp only [Bool.false_eq_true, if_false, sub_fin]
    exact div_fin_nonfin hnum _
  · simp only [if_true, sub_fin, div_fin _ _ hd]
    exact mul_fin_nonfin hnum _


/-! ### nearest neighbour in `interp_get_indices_weights`: `round` of a weight in `[0,1]` (over `ℚ`) -/

theorem roundC_unit {w : ℚ} (h0 : 0 ≤ w) (h1 : w ≤ 1) :
    HasRound.roundC w = if w < 1 / 2 then 0 else 1 := by
  show (if 0 ≤ w then (((w + 1 / 2).floor : Int) : ℚ) else _) = _
  rw [if_pos h0]
  by_cases c : w < 1 / 2
  · rw [if_pos c]
    have a : (0 : Int) ≤ (w + 1 / 2).floor := Rat.le_floor_iff.mpr (by push_cast; linarith)
    have b : (w + 1 / 2).floor < (1 : Int) := Rat.floor_lt_iff.mpr (by push_cast; linarith)
    have : (w + 1 / 2).floor = 0 := by omega
    rw [this]; rfl
  · rw [if_neg c]
    have c' : 1 / 2 ≤ w := not_lt.mp c
    have a : (1 : Int) ≤ (w + 1 / 2).floor := Rat.le_floor_iff.mpr (by push_cast; linarith)
    have b : (w + 1 / 2).floor < (2 : Int) := Rat.floor_lt_iff.mpr (by push_cast; linarith)
    have : (w + 1 / 2).floor = 1 := by omega
    rw [this]; rfl

/-- nearest-neighbour scheme, query inside the knot range: after `weight0 = round(weight0)` the entry
    selects exactly one of the two bracketing knots (weight 1 or 0), namely a nearest knot, ties going to
    the lower index (`round(0.5) = 1` keeps `ind0`) -/
theorem indexWeightR_nearest {n : Nat} {x : Nat → ℚ} {inc : Bool} (hx : Dir n x inc) (hn : 2 ≤ n)
    (policy : Nat) {r : ℚ} (hr : InRange inc n x r) :
    ∃ k, IsNearestLow n x r k ∧
      (indexWeightR n x inc ADEPT_INTERPOLATE_NEAREST policy (fin r)).valid = true ∧
      (∃ a, (indexWeightR n x inc ADEPT_INTERPOLATE_NEAREST policy (fin r)).weight0 = fin a) ∧
      ∀ f : Nat → ℚ, op1 (indexWeightR n x inc ADEPT_INTERPOLATE_NEAREST policy (fin r)) f = f k := by
  have hb := indexWeight_inrange hx hn policy hr
  obtain ⟨a, ha, h0, h1, _, _⟩ := hb.weight_unit
  have hw := hb.weight
  have ha' : a = (x ((indexWeight n x inc policy (fin r)).ind0 + 1) - r) /
      (x ((indexWeight n x inc policy (fin r)).ind0 + 1) - x (indexWeight n x inc policy (fin r)).ind0) := by
    rw [hw] at ha; injection ha with ha; exact ha.symm
  have hlt := hb.lt
  have hseg := hb.seg
  have hne := hb.ne
  have hv := hb.valid
  -- the rounded entry
  have hR : indexWeightR n x inc ADEPT_INTERPOLATE_NEAREST policy (fin r) =
      { indexWeight n x inc policy (fin r) with weight0 := fin (if a < 1 / 2 then 0 else 1) } := by
    simp [indexWeightR, roundIf, ADEPT_INTERPOLATE_NEAREST, ha, Ext.round, roundC_unit h0 h1]
  rw [hR]
  generalize indexWeight n x inc policy (fin r) = w at *
  obtain ⟨j, w0, vld⟩ := w
  simp only at hlt hseg hne hv ha' ha ⊢
  cases inc
  · have hx' : DecOn n x := by simpa [Dir] using hx
    have hd : x (j + 1) - x j < 0 := sub_neg.mpr (hx' j (j + 1) (by omega) hlt)
    rcases hseg with ⟨s1, s2⟩ | ⟨s1, s2⟩
    · exact absurd (le_trans s1 s2) (not_le.mpr (hx' j (j + 1) (by omega) hlt))
    have hk := nearest_of_bracket_dec hx' hlt s2 s1
    have hiff : a < 1 / 2 ↔ r - x j < x (j + 1) - r := by
      rw [ha', div_lt_iff_of_neg hd]
      constructor <;> intro h <;> linarith
    refine ⟨_, hk, hv, ⟨_, rfl⟩, ?_⟩
    intro f
    by_cases c : a < 1 / 2
    · simp only [op1, IW.fw]; rw [if_pos c, if_pos (hiff.mp c)]; ring
    · simp only [op1, IW.fw]; rw [if_neg c, if_neg (mt hiff.mpr c)]; ring
  · have hx' : IncOn n x := by simpa [Dir] using hx
    have hd : 0 < x (j + 1) - x j := sub_pos.mpr (hx' j (j + 1) (by omega) hlt)
    rcases hseg with ⟨s1, s2⟩ | ⟨s1, s2⟩
    swap
    · exact absurd (le_trans s1 s2) (not_le.mpr (hx' j (j + 1) (by omega) hlt))
    have hk := nearest_of_bracket_inc hx' hlt s1 s2
    have hiff : a < 1 / 2 ↔ x (j + 1) - r < r - x j := by
      rw [ha', div_lt_iff₀ hd]
      constructor <;> intro h <;> linarith
    refine ⟨_, hk, hv, ⟨_, rfl⟩, ?_⟩
    intro f
    by_cases c : a < 1 / 2
    · simp only [op1, IW.fw]; rw [if_pos c, if_pos (hiff.mp c)]; ring
    · simp only [op1, IW.fw]; rw [if_neg c, if_neg (mt hiff.mpr c)]; ring


end Adept.Interp
