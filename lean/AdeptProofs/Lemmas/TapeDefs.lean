import AdeptModel.Tape
import AdeptModel.StackProto
import Mathlib.Algebra.Ring.Defs
/-! Specification vocabulary for the tape theorems (C02, C10, C13). -/
namespace Adept.Tape

variable {R : Type} [CommRing R] [DecidableEq R]

/-- every index mentioned by the tape is below `N` -/
def WF (t : List (Stmt R)) (N : Nat) : Prop :=
  ∀ s ∈ t, s.lhs < N ∧ ∀ p ∈ s.ops, p.2 < N

/-- inner product of the first `N` entries -/
def dot (N : Nat) (u v : Vec R) : R := ((List.range N).map (fun k => rd u k * rd v k)).sum

/-- unit vector of length `N` -/
def unit (N x : Nat) : Vec R := (List.replicate N (0 : R)).set x 1

/-- Jacobian entry ∂(slot y)/∂(slot x) by a tangent-linear pass seeded with a unit vector -/
def jacEntryFwd (t : List (Stmt R)) (N x y : Nat) : R := rd (fwd t (unit N x)) y

/-- the same entry by an adjoint pass seeded with a unit vector -/
def jacEntryRev (t : List (Stmt R)) (N x y : Nat) : R := rd (rev t (unit N y)) x

/-- an output layout: cell of entry (i,j) = i*depOff + j*indepOff is injective on the m×n index set
    and stays inside a buffer of `len` cells -/
def LayoutOK (m n depOff indepOff len : Nat) : Prop :=
  (∀ i j, i < m → j < n → i * depOff + j * indepOff < len) ∧
  (∀ i j i' j', i < m → j < n → i' < m → j' < n →
      i * depOff + j * indepOff = i' * depOff + j' * indepOff → i = i' ∧ j = j')

/-- what a Jacobian routine must leave in the caller's buffer: entry (i,j) in its cell, every
    other cell untouched -/
def JacSpec (t : List (Stmt R)) (N : Nat) (indep dep : List Nat) (depOff indepOff : Nat)
    (out out' : Out R) : Prop :=
  out'.length = out.length ∧
  (∀ i j, i < dep.length → j < indep.length →
      rd out' (i * depOff + j * indepOff) = jacEntryFwd t N (indep.getD j 0) (dep.getD i 0)) ∧
  (∀ c, (∀ i j, i < dep.length → j < indep.length → c ≠ i * depOff + j * indepOff) → rd out' c = rd out c)

/-- number of blocks of the OpenMP loops -/
def nBlocks (W n : Nat) : Nat := (n + W - 1) / W

end Adept.Tape
