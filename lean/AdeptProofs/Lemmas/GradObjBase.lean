import AdeptModel.GradObj
import AdeptProofs.Lemmas.GradAlloc
/-!
Helper lemmas for the object layer of C08 (`AdeptModel/GradObj.lean`), part 1: association lists, memory layout, histories.
Core Lean only.
-/
namespace Adept.GradObj
open Adept.GradAlloc

/-! ### association lists keyed by handles -/
section Assoc
variable {β : Type}

theorem lookup_some_mem : ∀ {l : List (Nat × β)} {h : Nat} {o : β}, l.lookup h = some o → (h, o) ∈ l
  | [], _, _, hl => by simp [List.lookup] at hl
  | (k, v) :: l, h, o, hl => by
    by_cases hk : h = k
    · subst hk
      simp [List.lookup] at hl
      subst hl; simp
    · have : (h == k) = false := by simpa using hk
      simp only [List.lookup, this] at hl
      exact List.mem_cons_of_mem _ (lookup_some_mem hl)

theorem lookup_none_not_mem : ∀ {l : List (Nat × β)} {h : Nat}, l.lookup h = none → h ∉ l.map (·.1)
  | [], _, _ => by simp
  | (k, v) :: l, h, hl => by
    by_cases hk : h = k
    · subst hk; simp [List.lookup] at hl
    · have : (h == k) = false := by simpa using hk
      simp only [List.lookup, this] at hl
      have ih := lookup_none_not_mem hl
      simp only [List.map_cons, List.mem_cons, not_or]
      exact ⟨hk, ih⟩

/-- the entries other than `h` -/
def others (l : List (Nat × β)) (h : Nat) : List (Nat × β) := l.filter (fun p => p.1 != h)

theorem mem_others {l : List (Nat × β)} {h : Nat} {p : Nat × β} : p ∈ others l h ↔ p ∈ l ∧ p.1 ≠ h := by
  simp [others, List.mem_filter]

theorem others_keys_nodup {l : List (Nat × β)} (h : Nat) (hn : (l.map (·.1)).Nodup) :
    ((others l h).map (·.1)).Nodup :=
  List.Pairwise.sublist (List.Sublist.map _ List.filter_sublist) hn

theorem not_mem_others_keys (l : List (Nat × β)) (h : Nat) : h ∉ (others l h).map (·.1) := by
  intro hm
  obtain ⟨p, hp, rfl⟩ := List.mem_map.1 hm
  exact (mem_others.1 hp).2 rfl

theorem cons_others_keys_nodup {l : List (Nat × β)} (h : Nat) (o : β) (hn : (l.map (·.1)).Nodup) :
    (((h, o) :: others l h).map (·.1)).Nodup := by
  simp only [List.map_cons, List.nodup_cons]
  exact ⟨not_mem_others_keys l h, others_keys_nodup h hn⟩

/-- with distinct keys, a table is its entry for `h` followed by the rest, up to order -/
theorem perm_split : ∀ {l : List (Nat × β)} {h : Nat} {o : β}, (l.map (·.1)).Nodup → (h, o) ∈ l →
    l.Perm ((h, o) :: others l h)
  | [], _, _, _, hm => by simp at hm
  | (k, v) :: l, h, o, hn, hm => by
    simp only [List.map_cons, List.nodup_cons] at hn
    by_cases hk : k = h
    · subst hk
      have hv : v = o := by
        rcases List.mem_cons.1 hm with heq | hin
        · exact (Prod.mk.inj heq).2.symm
        · exact absurd (List.mem_map.2 ⟨(k, o), hin, rfl⟩) hn.1
      subst hv
      have : others ((k, v) :: l) k = l := by
        simp only [others, List.filter_cons, bne_self_eq_false, Bool.false_eq_true, if_false]
        apply List.filter_eq_self.2
        intro p hp
        have : p.1 ≠ k := fun e => hn.1 (List.mem_map.2 ⟨p, hp, e⟩)
        simpa using this
      rw [this]
    · have hin : (h, o) ∈ l := by
        rcases List.mem_cons.1 hm with heq | hin
        · exact absurd (Prod.mk.inj heq).1.symm hk
        · exact hin
      have : others ((k, v) :: l) h = (k, v) :: others l h := by
        simp [others, hk]
      rw [this]
      exact ((perm_split hn.2 hin).cons (k, v)).trans (List.Perm.swap _ _ _)

theorem key_unique {l : List (Nat × β)} {h : Nat} {o o' : β} (hn : (l.map (·.1)).Nodup)
    (h1 : (h, o) ∈ l) (h2 : (h, o') ∈ l) : o = o' := by
  have hp := perm_split hn h1
  rcases List.mem_cons.1 ((hp.mem_iff).1 h2) with heq | hin
  · exact (Prod.mk.inj heq).2.symm
  · exact absurd rfl (mem_others.1 hin).2

end Assoc

/-! ### memory layout -/

theorem le_rowLen {P : Nat} (hP : 0 < P) (d : Nat) : d ≤ rowLen P d := by
  unfold rowLen
  split
  · rename_i hge
    have h1 := Nat.div_add_mod (d + P - 1) P
    have hm := Nat.mod_lt (d + P - 1) hP
    have h2 : P * ((d + P - 1) / P) = (d + P - 1) / P * P := Nat.mul_comm _ _
    omega
  · exact Nat.le_refl _

theorem pred_mul_add (d s : Nat) (h : 0 < d) : d * s = (d - 1) * s + s := by
  have : d = (d - 1) + 1 := by omega
  conv => lhs; rw [this, Nat.add_mul, Nat.one_mul]

/-- a freshly packed array lies inside the data volume `offset_[0]*dimensions_[0]` that `resize` allocates -/
theorem packAux_bound {P : Nat} (hP : 0 < P) : ∀ (ds : List Nat), ds ≠ [] → (∀ d ∈ ds, 0 < d) →
    ext ds (packAux P ds).2 + 1 ≤ ds.headD 0 * (packAux P ds).1
  | [], hne, _ => absurd rfl hne
  | [d], _, hp => by
    have := hp d (by simp)
    simp only [packAux, ext, List.headD_cons]
    omega
  | [d0, d1], _, hp => by
    have h0 := hp d0 (by simp)
    have h1 := hp d1 (by simp)
    have hr := le_rowLen hP d1
    simp only [packAux, ext, List.headD_cons]
    have := pred_mul_add d0 (rowLen P d1) h0
    omega
  | d0 :: d1 :: d2 :: rest, _, hp => by
    have h0 := hp d0 (by simp)
    have ih := packAux_bound hP (d1 :: d2 :: rest) (by simp) (fun d hd => hp d (List.mem_cons_of_mem _ hd))
    simp only [List.headD_cons] at ih
    simp only [packAux, ext, List.headD_cons]
    have := pred_mul_add d0 (d1 * (packAux P (d1 :: d2 :: rest)).1) h0
    omega

/-- whatever the static type, the view of a freshly allocated object lies inside the storage it allocates (which is not empty) -/
theorem layout_ok {P : Nat} (hP : 0 < P) (kind : Nat) (dims : List Nat) (hne : dims ≠ []) (hp : ∀ d ∈ dims, 0 < d) :
    ext (layout kind P dims).1 (layout kind P dims).2.1 + 1 ≤ (layout kind P dims).2.2 := by
  unfold layout
  split
  · exact packAux_bound hP dims hne hp
  · have hd : 0 < dims.headD 0 := by
      cases dims with
      | nil => exact absurd rfl hne
      | cons d ds => exact hp d (by simp)
    generalize dims.headD 0 = d at hd
    split
    · simp only [ext]; omega
    · split
      · simp only [ext]; omega
      · simp only [ext]
        have := pred_mul_add d d hd
        omega

/-- a view obtained by indexing lies inside the view it was taken from -/
theorem sliceAux_bound : ∀ (xs : List Ix) (ds ss : List Nat) {o : Nat} {ds' ss' : List Nat},
    sliceAux xs ds ss = some (o, ds', ss') → o + ext ds' ss' ≤ ext ds ss
  | [], [], [], o, ds', ss', h => by
    simp only [sliceAux, Option.some.injEq, Prod.mk.injEq] at h
    obtain ⟨rfl, rfl, rfl⟩ := h
    simp [ext]
  | [], [], _ :: _, _, _, _, h => by simp [sliceAux] at h
  | [], _ :: _, _, _, _, _, h => by simp [sliceAux] at h
  | _ :: _, [], _, _, _, _, h => by cases ‹Ix› <;> simp [sliceAux] at h
  | _ :: _, _ :: _, [], _, _, _, h => by cases ‹Ix› <;> simp [sliceAux] at h
  | .fix i :: xs, d :: ds, s :: ss, o, ds', ss', h => by
    simp only [sliceAux] at h
    split at h
    · rename_i hi
      cases hr : sliceAux xs ds ss with
      | none => simp [hr] at h
      | some r =>
        obtain ⟨o1, ds1, ss1⟩ := r
        simp only [hr, Option.some.injEq, Prod.mk.injEq] at h
        obtain ⟨rfl, rfl, rfl⟩ := h
        have ih := sliceAux_bound xs ds ss hr
        simp only [ext]
        have : i * s ≤ (d - 1) * s := Nat.mul_le_mul_right s (by omega)
        omega
    · simp at h
  | .rng lo hi st :: xs, d :: ds, s :: ss, o, ds', ss', h => by
    simp only [sliceAux] at h
    split at h
    · rename_i hc
      obtain ⟨h1, h2, h3⟩ := hc
      cases hr : sliceAux xs ds ss with
      | none => simp [hr] at h
      | some r =>
        obtain ⟨o1, ds1, ss1⟩ := r
        simp only [hr, Option.some.injEq, Prod.mk.injEq] at h
        obtain ⟨rfl, rfl, rfl⟩ := h
        have ih := sliceAux_bound xs ds ss hr
        simp only [ext, Nat.add_sub_cancel]
        have e1 : (hi - lo) / st * (st * s) = ((hi - lo) / st * st) * s := by rw [Nat.mul_assoc]
        have e2 : (hi - lo) / st * st ≤ hi - lo := Nat.div_mul_le_self _ _
        have e3 : lo * s + ((hi - lo) / st * st) * s = (lo + (hi - lo) / st * st) * s := by rw [Nat.add_mul]
        have e4 : (lo + (hi - lo) / st * st) * s ≤ (d - 1) * s := Nat.mul_le_mul_right s (by omega)
        omega
    · split at h
      · rename_i hc
        obtain ⟨h1, h2, h3, h4⟩ := hc
        cases hr : sliceAux xs ds ss with
        | none => simp [hr] at h
        | some r =>
          obtain ⟨o1, ds1, ss1⟩ := r
          simp only [hr, Option.some.injEq, Prod.mk.injEq] at h
          obtain ⟨rfl, rfl, rfl⟩ := h
          have ih := sliceAux_bound xs ds ss hr
          simp only [ext]
          have e4 : lo * s ≤ (d - 1) * s := Nat.mul_le_mul_right s (by omega)
          omega
      · simp at h

theorem ext_zeros : ∀ (ds ss : List Nat), ext (ds.map (fun _ => 0)) ss = 0
  | [], _ => by simp [ext]
  | _ :: _, [] => by simp [ext]
  | _ :: ds, _ :: ss => by simp [ext, ext_zeros ds ss]

theorem ext_canon_le (ds ss : List Nat) : ext (canonDims ds) ss ≤ ext ds ss := by
  unfold canonDims
  split
  · rw [ext_zeros]; omega
  · omega

/-- the view the constructor stores (empty selections canonicalised) lies inside the view it was taken from -/
theorem sliceView_bound (xs : List Ix) (ds ss : List Nat) {o : Nat} {ds' ss' : List Nat}
    (h : sliceView xs ds ss = some (o, ds', ss')) : o + ext ds' ss' ≤ ext ds ss := by
  unfold sliceView at h
  cases hr : sliceAux xs ds ss with
  | none => simp [hr] at h
  | some r =>
    obtain ⟨o1, ds1, ss1⟩ := r
    simp only [hr, Option.some.injEq, Prod.mk.injEq] at h
    obtain ⟨rfl, rfl, rfl⟩ := h
    have := sliceAux_bound xs ds ss hr
    have := ext_canon_le ds1 ss1
    omega

/-! ### histories of allocator calls -/

theorem runHist_snoc : ∀ (ops : List Op) {s0 s : GA} {L0 L : List Block} (op : Op),
    runHist s0 L0 ops = some (s, L) → Legal L op →
    runHist s0 L0 (ops ++ [op]) = some ((step s op).1, ghost s L op)
  | [], s0, s, L0, L, op, h, hl => by
    simp only [runHist, Option.some.injEq, Prod.mk.injEq] at h
    obtain ⟨rfl, rfl⟩ := h
    simp [runHist, hl]
  | o :: ops, s0, s, L0, L, op, h, hl => by
    simp only [runHist, List.cons_append] at h ⊢
    split at h
    · rename_i hlo
      simp only [hlo, if_true]
      exact runHist_snoc ops op h hl
    · simp at h

end Adept.GradObj
