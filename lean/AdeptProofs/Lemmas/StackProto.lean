import AdeptProofs.Lemmas.Tape
/-!
Helper lemmas for C10 (protocol state of `adept::Stack`, `AdeptModel/StackProto.lean`).
-/
set_option linter.unusedSectionVars false
set_option linter.unusedSimpArgs false
namespace Adept.StackProto
open Adept.Tape Adept.GradAlloc

/-! ### `initialize_gradients` -/

/-- the zeroing loop body of `initialize_gradients`, named -/
def zeroStep (g : List Int) (i : Nat) : List Int := g.set i 0

theorem zeroStep_length (g : List Int) (i : Nat) : (zeroStep g i).length = g.length := by
  simp [zeroStep]

theorem zeroLoop_spec (g : List Int) (k : Nat) (hk : k ≤ g.length) :
    ((List.range k).foldl zeroStep g).length = g.length ∧
    ∀ j, j < k → rd ((List.range k).foldl zeroStep g) j = 0 := by
  induction k with
  | zero => exact ⟨rfl, fun j hj => absurd hj (Nat.not_lt_zero _)⟩
  | succ k ih =>
    obtain ⟨hl, hz⟩ := ih (by omega)
    rw [foldl_range_succ]
    refine ⟨by rw [zeroStep_length, hl], fun j hj => ?_⟩
    have e : ∀ (g : List Int) (i : Nat), zeroStep g i = g.set i 0 := fun _ _ => rfl
    rw [e]
    by_cases hjk : j = k
    · subst hjk
      exact rd_set_self _ _ _ (by omega)
    · rw [rd_set_ne _ _ _ _ hjk]
      exact hz j (by omega)

theorem zeroLoop_eq (g : List Int) (n : Nat) (hn : g.length = n) :
    (List.range n).foldl zeroStep g = List.replicate n 0 := by
  obtain ⟨hl, hz⟩ := zeroLoop_spec g n (by omega)
  rw [List.eq_replicate_iff]
  refine ⟨by rw [hl, hn], fun b hb => ?_⟩
  obtain ⟨j, hj, rfl⟩ := List.getElem_of_mem hb
  rw [← rd_eq_getElem _ j hj]
  exact hz j (by omega)

theorem initGradients_grad (s : St) : s.initGradients.grad = List.replicate s.ga.maxGrad 0 := by
  unfold St.initGradients
  show (List.range s.ga.maxGrad).foldl zeroStep
    (if s.grad.length ≠ s.ga.maxGrad then List.replicate s.ga.maxGrad 0 else s.grad) = _
  apply zeroLoop_eq
  split
  · simp
  · rename_i h
    exact not_not.mp h

theorem initGradients_gradInit (s : St) : s.initGradients.gradInit = true := rfl
theorem initGradients_tape (s : St) : s.initGradients.tape = s.tape := rfl
theorem initGradients_ga (s : St) : s.initGradients.ga = s.ga := rfl

/-! ### seeding -/

theorem seed_of_not_init (s : St) (idx : Nat) (v : Int) (h : s.gradInit = false) :
    s.seed idx v = s.initGradients.seed idx v := by
  unfold St.seed
  simp [h, initGradients_gradInit]

theorem seed_of_init (s : St) (idx : Nat) (v : Int) (h : s.gradInit = true) :
    s.seed idx v =
      if idx + 1 > s.grad.length then (s, some .gradient_out_of_range)
      else ({ s with grad := s.grad.set idx v }, none) := by
  unfold St.seed
  simp [h]

theorem first_seed_forgets (s : St) (idx : Nat) (v : Int) (h : idx < s.ga.maxGrad) :
    (({ s with gradInit := false }).seed idx v).1.grad = (List.replicate s.ga.maxGrad 0).set idx v ∧
    (({ s with gradInit := false }).seed idx v).2 = none := by
  rw [seed_of_not_init _ idx v rfl, seed_of_init _ idx v (initGradients_gradInit _),
    initGradients_grad]
  have hlen : ¬ (idx + 1 > (List.replicate ({ s with gradInit := false } : St).ga.maxGrad (0 : Int)).length) := by
    rw [List.length_replicate]
    show ¬ (idx + 1 > s.ga.maxGrad)
    omega
  rw [if_neg hlen]
  exact ⟨rfl, rfl⟩

/-- two stacks that a sweep cannot tell apart -/
structure Rel (s₁ s₂ : St) : Prop where
  tape : s₁.tape = s₂.tape
  init₁ : s₁.gradInit = true
  init₂ : s₂.gradInit = true
  grad : s₁.grad = s₂.grad
  mg : s₁.ga.maxGrad = s₂.ga.maxGrad

theorem rel_seed {s₁ s₂ : St} (r : Rel s₁ s₂) (idx : Nat) (v : Int) :
    Rel (s₁.seed idx v).1 (s₂.seed idx v).1 := by
  rw [seed_of_init s₁ idx v r.init₁, seed_of_init s₂ idx v r.init₂, r.grad]
  split
  · exact r
  · exact ⟨r.tape, r.init₁, r.init₂, rfl, r.mg⟩

theorem seedAll_cons (s : St) (p : Nat × Int) (l : List (Nat × Int)) :
    seedAll s (p :: l) = seedAll (s.seed p.1 p.2).1 l := rfl

theorem rel_seedAll {s₁ s₂ : St} (r : Rel s₁ s₂) (l : List (Nat × Int)) :
    Rel (seedAll s₁ l) (seedAll s₂ l) := by
  induction l generalizing s₁ s₂ with
  | nil => exact r
  | cons p l ih =>
    rw [seedAll_cons, seedAll_cons]
    exact ih (rel_seed r p.1 p.2)

theorem rel_init (s₁ s₂ : St) (ht : s₁.tape = s₂.tape) (hm : s₁.ga.maxGrad = s₂.ga.maxGrad) :
    Rel s₁.initGradients s₂.initGradients :=
  ⟨ht, rfl, rfl, by rw [initGradients_grad, initGradients_grad, hm], hm⟩

theorem rel_cleared (s₁ s₂ : St) (seeds : List (Nat × Int)) (ht : s₁.tape = s₂.tape)
    (hm : s₁.ga.maxGrad = s₂.ga.maxGrad) (hs : seeds ≠ []) :
    Rel (seedAll { s₁ with gradInit := false } seeds) (seedAll { s₂ with gradInit := false } seeds) := by
  cases seeds with
  | nil => exact absurd rfl hs
  | cons p l =>
    rw [seedAll_cons, seedAll_cons, seed_of_not_init { s₁ with gradInit := false } p.1 p.2 rfl,
      seed_of_not_init { s₂ with gradInit := false } p.1 p.2 rfl]
    exact rel_seedAll (rel_seed (rel_init _ _ ht hm) p.1 p.2) l

theorem pass_pure_fwd (s₁ s₂ : St) (seeds : List (Nat × Int)) (ht : s₁.tape = s₂.tape)
    (hm : s₁.ga.maxGrad = s₂.ga.maxGrad) (hs : seeds ≠ []) (_hb : ∀ p ∈ seeds, p.1 < s₁.ga.maxGrad) :
    (seedAll { s₁ with gradInit := false } seeds).forward.toOption.map (·.grad) =
    (seedAll { s₂ with gradInit := false } seeds).forward.toOption.map (·.grad) := by
  have r := rel_cleared s₁ s₂ seeds ht hm hs
  unfold St.forward
  rw [if_pos r.init₁, if_pos r.init₂, r.mg, r.grad, r.tape]
  split <;> simp [Except.toOption]

theorem pass_pure_rev (s₁ s₂ : St) (seeds : List (Nat × Int)) (ht : s₁.tape = s₂.tape)
    (hm : s₁.ga.maxGrad = s₂.ga.maxGrad) (hs : seeds ≠ []) (_hb : ∀ p ∈ seeds, p.1 < s₁.ga.maxGrad) :
    (seedAll { s₁ with gradInit := false } seeds).reverse.toOption.map (·.grad) =
    (seedAll { s₂ with gradInit := false } seeds).reverse.toOption.map (·.grad) := by
  have r := rel_cleared s₁ s₂ seeds ht hm hs
  unfold St.reverse
  rw [if_pos r.init₁, if_pos r.init₂, r.mg, r.grad, r.tape]
  split <;> simp [Except.toOption]

/-! ### recording control -/

theorem new_recording_forgets (s : St) :
    let s' := newRec s
    s'.tape = [] ∧ s'.pend = [] ∧ s'.indep = [] ∧ s'.dep = [] ∧ s'.gradInit = false ∧
    s'.ga.maxGrad = s.ga.iGrad + 1 ∧ s'.vars = s.vars := by
  intro s'
  exact ⟨rfl, rfl, rfl, rfl, rfl, rfl, rfl⟩

theorem var?_setVar (s : St) (h : Nat) (x : Var) : (s.setVar h x).var? h = some x := by
  simp [St.var?, St.setVar]

theorem pause_noop (s : St) (h : Nat) (x : Var) (e : RNode) (hp : s.cfg.pausable = true)
    (hr : s.recording = false) (s' : St) (v : Int) (ha : s.assign h x e = some (s', v)) :
    e.eval s = some v ∧ s'.tape = s.tape ∧ s'.pend = s.pend ∧ s'.ga = s.ga ∧
    s'.var? h = some { x with val := v } := by
  unfold St.assign at ha
  cases hev : e.eval s with
  | none => simp [hev] at ha
  | some w =>
    simp [hev, St.isRecording, hp, hr] at ha
    obtain ⟨rfl, rfl⟩ := ha
    exact ⟨rfl, rfl, rfl, rfl, var?_setVar _ _ _⟩

theorem assign_records_one (s : St) (h : Nat) (x : Var) (e : RNode) (hr : s.isRecording = true)
    (hpe : s.pend = []) (s' : St) (v : Int) (ha : s.assign h x e = some (s', v)) :
    e.eval s = some v ∧ s'.tape = s.tape ++ [⟨x.idx, e.grad s none⟩] ∧ s'.pend = [] := by
  unfold St.assign at ha
  cases hev : e.eval s with
  | none => simp [hev] at ha
  | some w =>
    simp [hev, hr] at ha
    obtain ⟨rfl, rfl⟩ := ha
    refine ⟨rfl, ?_, rfl⟩
    simp [St.setVar, St.pushLhs, St.pushRhs, hpe]

/-! ### user-supplied dependences -/

theorem dependence_is_statement (lhs x : Nat) (m : Int) (g : Vec Int) :
    fwdStep (addDep lhs x m) g = g.set lhs (m * rd g x) := by
  unfold fwdStep addDep
  by_cases hm : m = 0
  · subst hm
    simp [rhsVal]
  · simp [rhsVal, hm]

theorem append_is_extension (st : Stmt Int) (x : Nat) (m : Int) (g : Vec Int) :
    fwdStep (appendDep st x m) g = g.set st.lhs (rhsVal st.ops g + m * rd g x) := by
  unfold fwdStep appendDep
  by_cases hm : m = 0
  · subst hm
    simp [rhsVal]
  · simp [rhsVal, hm, List.foldl_append]

theorem add_dependence_records (s : St) (lhs x : Nat) (m : Int) (hr : s.isRecording = true)
    (hp : s.pend = []) :
    (s.addDependence lhs x m).tape = s.tape ++ [addDep lhs x m] ∧ (s.addDependence lhs x m).pend = [] := by
  unfold St.addDependence
  by_cases hm : m = 0
  · subst hm
    simp [hr, St.pushLhs, St.pushRhs, addDep, hp]
  · simp [hr, St.pushLhs, St.pushRhs, addDep, hp, hm]

theorem append_dependence (s : St) (lhs x : Nat) (m : Int) (hr : s.isRecording = true) :
    (∀ last, s.tape.getLast? = some last → last.lhs = lhs →
        s.appendDependence lhs x m = .ok { s with tape := s.tape.dropLast ++ [appendDep last x m] }) ∧
    ((∀ last, s.tape.getLast? = some last → last.lhs ≠ lhs) →
        s.appendDependence lhs x m = .error .wrong_gradient) := by
  unfold St.appendDependence
  constructor
  · intro last hl hlhs
    simp [hr, hl, hlhs]
  · intro hall
    cases hl : s.tape.getLast? with
    | none => simp [hr]
    | some last => simp [hr, hall last hl]

/-! ### array forms of the user-supplied dependences -/

/-- value of the right-hand side of a term list: `Σ mⱼ·g[xⱼ]` -/
def termSum (ts : List (Nat × Int)) (g : Vec Int) : Int := ts.foldl (fun a t => a + t.2 * rd g t.1) 0

theorem foldl_add_shift (ops : List (Int × Nat)) (g : Vec Int) (a : Int) :
    ops.foldl (fun a p => a + p.1 * rd g p.2) a = a + ops.foldl (fun a p => a + p.1 * rd g p.2) 0 := by
  induction ops generalizing a with
  | nil => simp
  | cons p ps ih =>
    simp only [List.foldl_cons]
    rw [ih (a + p.1 * rd g p.2), ih (0 + p.1 * rd g p.2)]
    omega

theorem termSum_shift (ts : List (Nat × Int)) (g : Vec Int) (a : Int) :
    ts.foldl (fun a t => a + t.2 * rd g t.1) a = a + termSum ts g := by
  unfold termSum
  induction ts generalizing a with
  | nil => simp
  | cons t tl ih =>
    simp only [List.foldl_cons]
    rw [ih (a + t.2 * rd g t.1), ih (0 + t.2 * rd g t.1)]
    omega

/-- dropping the zero multipliers does not change the sum -/
theorem rhsVal_depOps (ts : List (Nat × Int)) (g : Vec Int) : rhsVal (depOps ts) g = termSum ts g := by
  unfold rhsVal depOps termSum
  induction ts with
  | nil => rfl
  | cons t tl ih =>
    by_cases hm : t.2 = 0
    · simp only [List.filter_cons, hm, ne_eq, not_true_eq_false, decide_false, Bool.false_eq_true, if_false,
        List.foldl_cons, Int.zero_mul, Int.add_zero]
      exact ih
    · simp only [List.filter_cons, hm, ne_eq, not_false_eq_true, decide_true, if_true, List.map_cons, List.foldl_cons]
      rw [foldl_add_shift, termSum_shift, ih]
      rfl

theorem dependenceN_is_statement (lhs : Nat) (ts : List (Nat × Int)) (g : Vec Int) :
    fwdStep (addDepN lhs ts) g = g.set lhs (termSum ts g) := by
  unfold fwdStep addDepN
  simp only [rhsVal_depOps]

theorem appendN_is_extension (st : Stmt Int) (ts : List (Nat × Int)) (g : Vec Int) :
    fwdStep (appendDepN st ts) g = g.set st.lhs (rhsVal st.ops g + termSum ts g) := by
  unfold fwdStep appendDepN
  simp only
  congr 1
  unfold rhsVal
  rw [List.foldl_append, foldl_add_shift]
  have := rhsVal_depOps ts g
  unfold rhsVal at this
  rw [this]

theorem add_dependenceN_records (s : St) (lhs : Nat) (ts : List (Nat × Int)) (hr : s.isRecording = true)
    (hp : s.pend = []) :
    (s.addDependenceN lhs ts).tape = s.tape ++ [addDepN lhs ts] ∧ (s.addDependenceN lhs ts).pend = [] := by
  unfold St.addDependenceN
  simp [hr, St.pushLhs, St.pushRhs, addDepN, hp]

/-- the array form is the single-term form repeated: first term added, the others appended -/
theorem depOps_cons (x : Nat) (m : Int) (ts : List (Nat × Int)) :
    depOps ((x, m) :: ts) = (if m ≠ 0 then [(m, x)] else []) ++ depOps ts := by
  unfold depOps
  by_cases hm : m = 0 <;> simp [List.filter_cons, hm]

theorem addDepN_cons (lhs x : Nat) (m : Int) (ts : List (Nat × Int)) :
    addDepN lhs ((x, m) :: ts) = appendDepN (addDep lhs x m) ts := by
  unfold addDepN appendDepN addDep
  simp only [depOps_cons]

theorem appendDepN_cons (st : Stmt Int) (x : Nat) (m : Int) (ts : List (Nat × Int)) :
    appendDepN st ((x, m) :: ts) = appendDepN (appendDep st x m) ts := by
  unfold appendDepN appendDep
  simp only [depOps_cons, List.append_assoc]

theorem append_dependenceN (s : St) (lhs : Nat) (ts : List (Nat × Int)) (hr : s.isRecording = true) :
    (∀ last, s.tape.getLast? = some last → last.lhs = lhs →
        s.appendDependenceN lhs ts = .ok { s with tape := s.tape.dropLast ++ [appendDepN last ts] }) ∧
    ((∀ last, s.tape.getLast? = some last → last.lhs ≠ lhs) →
        s.appendDependenceN lhs ts = .error .wrong_gradient) := by
  unfold St.appendDependenceN
  constructor
  · intro last hl hlhs
    simp [hr, hl, hlhs]
  · intro hall
    cases hl : s.tape.getLast? with
    | none => simp [hr]
    | some last => simp [hr, hall last hl]

theorem dependenceN_paused (s : St) (lhs : Nat) (ts : List (Nat × Int)) (hr : s.isRecording = false) :
    s.addDependenceN lhs ts = s ∧ s.appendDependenceN lhs ts = .ok s := by
  unfold St.addDependenceN St.appendDependenceN
  simp [hr]

end Adept.StackProto
