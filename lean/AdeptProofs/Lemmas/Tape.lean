import AdeptProofs.Lemmas.TapeDefs
import Mathlib.Algebra.BigOperators.Group.List.Basic
import Mathlib.Tactic.Ring
/-!
Helper lemmas for C02 / C13 (tape sweeps and Jacobian routines of `AdeptModel/Tape.lean`).
-/
set_option linter.unusedSectionVars false
set_option linter.unusedSimpArgs false
namespace Adept.Tape
variable {R : Type} [CommRing R] [DecidableEq R]

/-! ### reading and writing list cells -/

theorem rd_set_lt (g : Vec R) (i k : Nat) (v : R) (hi : i < g.length) :
    rd (g.set i v) k = if k = i then v else rd g k := by
  unfold rd
  by_cases hk : k = i
  · subst hk
    simp [List.getD_eq_getElem?_getD, hi]
  · have hk' : i ≠ k := fun h => hk h.symm
    simp [List.getD_eq_getElem?_getD, List.getElem?_set_ne hk', hk]

theorem rd_set_ne (g : Vec R) (i k : Nat) (v : R) (hk : k ≠ i) :
    rd (g.set i v) k = rd g k := by
  unfold rd
  have hk' : i ≠ k := fun h => hk h.symm
  simp [List.getD_eq_getElem?_getD, List.getElem?_set_ne hk']

theorem rd_set_self (g : Vec R) (i : Nat) (v : R) (hi : i < g.length) :
    rd (g.set i v) i = v := by
  rw [rd_set_lt g i i v hi, if_pos rfl]

theorem rd_replicate_zero (N k : Nat) : rd (List.replicate N (0 : R)) k = 0 := by
  unfold rd
  by_cases hk : k < N
  · simp [List.getD_eq_getElem?_getD, List.getElem?_replicate, hk]
  · simp [List.getD_eq_getElem?_getD, List.getElem?_replicate, hk]

theorem rd_eq_getElem (g : Vec R) (i : Nat) (hi : i < g.length) : rd g i = g[i] := by
  unfold rd
  simp [List.getD_eq_getElem?_getD, hi]

/-! ### `dot` -/

theorem dot_zero (u v : Vec R) : dot 0 u v = 0 := by
  simp [dot]

theorem dot_succ (N : Nat) (u v : Vec R) :
    dot (N + 1) u v = dot N u v + rd u N * rd v N := by
  simp [dot, List.range_succ, List.map_append, List.sum_append]

theorem dot_comm (N : Nat) (u v : Vec R) : dot N u v = dot N v u := by
  induction N with
  | zero => simp [dot_zero]
  | succ N ih => rw [dot_succ, dot_succ, ih, mul_comm]

theorem dot_set_right_ge (N : Nat) (g h : Vec R) (j : Nat) (v : R) (hj : N ≤ j) :
    dot N g (h.set j v) = dot N g h := by
  induction N with
  | zero => simp [dot_zero]
  | succ N ih =>
    rw [dot_succ, dot_succ, ih (by omega), rd_set_ne h j N v (by omega)]

theorem dot_set_right (N : Nat) (g h : Vec R) (j : Nat) (v : R) (hj : j < N) (hl : j < h.length) :
    dot N g (h.set j v) = dot N g h + rd g j * (v - rd h j) := by
  induction N with
  | zero => omega
  | succ N ih =>
    rw [dot_succ, dot_succ]
    by_cases hjN : j = N
    · subst hjN
      rw [dot_set_right_ge j g h j v (le_refl _), rd_set_self h j v hl]
      ring
    · rw [ih (by omega), rd_set_ne h j N v (fun e => hjN e.symm)]
      ring

theorem dot_set_left (N : Nat) (g h : Vec R) (j : Nat) (v : R) (hj : j < N) (hl : j < g.length) :
    dot N (g.set j v) h = dot N g h + (v - rd g j) * rd h j := by
  rw [dot_comm, dot_set_right N h g j v hj hl, dot_comm]
  ring

theorem dot_replicate_zero (N M : Nat) (g : Vec R) : dot N g (List.replicate M 0) = 0 := by
  induction N with
  | zero => simp [dot_zero]
  | succ N ih => rw [dot_succ, ih, rd_replicate_zero]; ring

theorem unit_length (N x : Nat) : (unit N x : Vec R).length = N := by
  simp [unit]

theorem dot_unit_right (N : Nat) (g : Vec R) (y : Nat) (hy : y < N) :
    dot N g (unit N y) = rd g y := by
  unfold unit
  rw [dot_set_right N g _ y 1 hy (by simpa using hy), dot_replicate_zero, rd_replicate_zero]
  ring

theorem dot_unit_left (N : Nat) (g : Vec R) (y : Nat) (hy : y < N) :
    dot N (unit N y) g = rd g y := by
  rw [dot_comm, dot_unit_right N g y hy]

/-! ### the two sweeps -/

/-- the multiply-accumulate of `rhsVal` as a named step -/
def accStep (g : Vec R) (a : R) (p : R × Nat) : R := a + p.1 * rd g p.2

theorem rhsVal_eq_foldl (ops : List (R × Nat)) (g : Vec R) :
    rhsVal ops g = ops.foldl (accStep g) 0 := rfl

theorem foldl_accStep (ops : List (R × Nat)) (g : Vec R) (a : R) :
    ops.foldl (accStep g) a = a + (ops.map (fun p => p.1 * rd g p.2)).sum := by
  induction ops generalizing a with
  | nil => simp
  | cons p ops ih =>
    rw [List.foldl_cons, ih, List.map_cons, List.sum_cons, accStep]
    ring

theorem rhsVal_eq_sum (ops : List (R × Nat)) (g : Vec R) :
    rhsVal ops g = (ops.map (fun p => p.1 * rd g p.2)).sum := by
  rw [rhsVal_eq_foldl, foldl_accStep, zero_add]

theorem fwdStep_length (s : Stmt R) (g : Vec R) : (fwdStep s g).length = g.length := by
  simp [fwdStep]

theorem scatterStep_length (a : R) (g : Vec R) (p : R × Nat) :
    (scatterStep a g p).length = g.length := by
  simp [scatterStep]

theorem scatter_length (ops : List (R × Nat)) (a : R) (g : Vec R) :
    (scatter ops a g).length = g.length := by
  unfold scatter
  induction ops generalizing g with
  | nil => rfl
  | cons p ops ih => rw [List.foldl_cons, ih, scatterStep_length]

theorem revStep_length (s : Stmt R) (g : Vec R) : (revStep s g).length = g.length := by
  unfold revStep
  simp only
  split
  · simp
  · rw [scatter_length]; simp

theorem fwd_nil (g : Vec R) : fwd ([] : List (Stmt R)) g = g := rfl
theorem fwd_cons (s : Stmt R) (t : List (Stmt R)) (g : Vec R) :
    fwd (s :: t) g = fwd t (fwdStep s g) := rfl
theorem rev_nil (g : Vec R) : rev ([] : List (Stmt R)) g = g := rfl
theorem rev_cons (s : Stmt R) (t : List (Stmt R)) (g : Vec R) :
    rev (s :: t) g = revStep s (rev t g) := rfl

theorem fwd_length (t : List (Stmt R)) (g : Vec R) : (fwd t g).length = g.length := by
  induction t generalizing g with
  | nil => rfl
  | cons s t ih => rw [fwd_cons, ih, fwdStep_length]

theorem rev_length (t : List (Stmt R)) (g : Vec R) : (rev t g).length = g.length := by
  induction t with
  | nil => rfl
  | cons s t ih => rw [rev_cons, revStep_length, ih]

/-- scattering `a` through `ops` adds `a · Σ mᵢ g[xᵢ]` to the inner product with `g` -/
theorem dot_scatter (N : Nat) (ops : List (R × Nat)) (a : R) (g h : Vec R)
    (hops : ∀ p ∈ ops, p.2 < N) (hh : h.length = N) :
    dot N g (scatter ops a h) = dot N g h + a * (ops.map (fun p => p.1 * rd g p.2)).sum := by
  unfold scatter
  induction ops generalizing h with
  | nil => simp
  | cons p ops ih =>
    have hp : p.2 < N := hops p (List.mem_cons_self ..)
    rw [List.foldl_cons, ih (scatterStep a h p) (fun q hq => hops q (List.mem_cons_of_mem _ hq))
      (by rw [scatterStep_length]; exact hh), scatterStep,
      dot_set_right N g h p.2 _ hp (by omega), List.map_cons, List.sum_cons]
    ring

/-- the `a = 0` short cut of `compute_adjoint` is not observable -/
theorem revStep_eq (N : Nat) (s : Stmt R) (g h : Vec R)
    (hops : ∀ p ∈ s.ops, p.2 < N) (hh : h.length = N) :
    dot N g (revStep s h) = dot N g (scatter s.ops (rd h s.lhs) (h.set s.lhs 0)) := by
  unfold revStep
  simp only
  split
  · rename_i h0
    rw [dot_scatter N s.ops _ g _ hops (by simpa using hh), h0]
    ring
  · rfl

theorem adjoint_step (N : Nat) (s : Stmt R) (g h : Vec R) (hl : s.lhs < N)
    (hops : ∀ p ∈ s.ops, p.2 < N) (hg : g.length = N) (hh : h.length = N) :
    dot N (fwdStep s g) h = dot N g (revStep s h) := by
  rw [revStep_eq N s g h hops hh, dot_scatter N s.ops _ g _ hops (by simpa using hh),
    dot_set_right N g h s.lhs 0 hl (by omega), fwdStep,
    dot_set_left N g h s.lhs _ hl (by omega), rhsVal_eq_sum]
  ring

theorem WF_cons {s : Stmt R} {t : List (Stmt R)} {N : Nat} (h : WF (s :: t) N) :
    (s.lhs < N ∧ ∀ p ∈ s.ops, p.2 < N) ∧ WF t N :=
  ⟨h s (List.mem_cons_self ..), fun s' hs' => h s' (List.mem_cons_of_mem _ hs')⟩

theorem adjoint_tape (N : Nat) (t : List (Stmt R)) (g h : Vec R) (ht : WF t N)
    (hg : g.length = N) (hh : h.length = N) :
    dot N (fwd t g) h = dot N g (rev t h) := by
  induction t generalizing g with
  | nil => rfl
  | cons s t ih =>
    obtain ⟨⟨hl, hops⟩, ht'⟩ := WF_cons ht
    rw [fwd_cons, rev_cons, ih (fwdStep s g) ht' (by rw [fwdStep_length]; exact hg),
      adjoint_step N s g (rev t h) hl hops hg (by rw [rev_length]; exact hh)]

theorem jac_fwd_eq_rev (N : Nat) (t : List (Stmt R)) (x y : Nat) (ht : WF t N)
    (hx : x < N) (hy : y < N) :
    jacEntryFwd t N x y = jacEntryRev t N x y := by
  unfold jacEntryFwd jacEntryRev
  rw [← dot_unit_right N (fwd t (unit N x)) y hy,
    adjoint_tape N t _ _ ht (unit_length N x) (unit_length N y), dot_unit_left N _ x hx]

theorem duality (N : Nat) (t : List (Stmt R)) (u v : Vec R) (ht : WF t N)
    (hu : u.length = N) (hv : v.length = N) :
    dot N v (fwd t u) = dot N (rev t v) u := by
  rw [dot_comm N v, adjoint_tape N t u v ht hu hv, dot_comm]

/-! ### generic `getD` / `set` -/

theorem getD_set_self {α : Type} (l : List α) (i : Nat) (v d : α) (hi : i < l.length) :
    (l.set i v).getD i d = v := by
  simp [List.getD_eq_getElem?_getD, hi]

theorem getD_set_ne {α : Type} (l : List α) (i k : Nat) (v d : α) (hk : k ≠ i) :
    (l.set i v).getD k d = l.getD k d := by
  have hk' : i ≠ k := fun h => hk h.symm
  simp [List.getD_eq_getElem?_getD, List.getElem?_set_ne hk']

theorem foldl_range_succ {α : Type} (f : α → Nat → α) (a : α) (n : Nat) :
    (List.range (n + 1)).foldl f a = f ((List.range n).foldl f a) n := by
  simp [List.range_succ, List.foldl_append]

/-! ### writing a set of cells

`cell a b` is the address of entry `(a, b)`, `a < p` the index of the *outer* copy-out loop and
`b < q` the index along which the routine is blocked; `E a b` is the value the entry must get. -/

structure CellOK (cell : Nat → Nat → Nat) (p q len : Nat) : Prop where
  lt : ∀ a b, a < p → b < q → cell a b < len
  inj : ∀ a b a' b', a < p → b < q → a' < p → b' < q → cell a b = cell a' b' → a = a' ∧ b = b'

/-- `o'` is `o` with `E a b` written to `cell a b` for every `(a, b)` in `P`, nothing else changed -/
def Writes (cell : Nat → Nat → Nat) (E : Nat → Nat → R) (P : Nat → Nat → Prop) (o o' : Out R) : Prop :=
  o'.length = o.length ∧
  (∀ a b, P a b → rd o' (cell a b) = E a b) ∧
  (∀ c, (∀ a b, P a b → c ≠ cell a b) → rd o' c = rd o c)

section Writes
variable {cell : Nat → Nat → Nat} {E : Nat → Nat → R} {p q len : Nat}

theorem Writes.empty (cell : Nat → Nat → Nat) (E : Nat → Nat → R) (o : Out R) :
    Writes cell E (fun _ _ => False) o o :=
  ⟨rfl, fun _ _ h => h.elim, fun _ _ => rfl⟩

theorem Writes.congr {P Q : Nat → Nat → Prop} {o o' : Out R} (h : ∀ a b, P a b ↔ Q a b)
    (w : Writes cell E P o o') : Writes cell E Q o o' := by
  have : P = Q := by funext a b; exact propext (h a b)
  subst this; exact w

theorem Writes.single (hc : CellOK cell p q len) {o : Out R} (ho : o.length = len)
    {a b : Nat} (ha : a < p) (hb : b < q) {v : R} (hv : v = E a b) :
    Writes cell E (fun a' b' => a' = a ∧ b' = b) o (o.set (cell a b) v) := by
  refine ⟨by simp, ?_, ?_⟩
  · rintro a' b' ⟨rfl, rfl⟩
    rw [rd_set_self _ _ _ (by rw [ho]; exact hc.lt _ _ ha hb), hv]
  · intro c hcne
    exact rd_set_ne _ _ _ _ (hcne a b ⟨rfl, rfl⟩)

theorem Writes.trans (hc : CellOK cell p q len) {P Q : Nat → Nat → Prop} {o o' o'' : Out R}
    (hP : ∀ a b, P a b → a < p ∧ b < q) (hQ : ∀ a b, Q a b → a < p ∧ b < q)
    (w1 : Writes cell E P o o') (w2 : Writes cell E Q o' o'') :
    Writes cell E (fun a b => P a b ∨ Q a b) o o'' := by
  obtain ⟨l1, v1, u1⟩ := w1
  obtain ⟨l2, v2, u2⟩ := w2
  refine ⟨l2.trans l1, ?_, ?_⟩
  · intro a b hab
    by_cases hq : Q a b
    · exact v2 a b hq
    · have hp : P a b := hab.resolve_right hq
      rw [u2 _ (fun a' b' hq' e => ?_), v1 a b hp]
      obtain ⟨rfl, rfl⟩ := hc.inj a b a' b' (hP a b hp).1 (hP a b hp).2 (hQ a' b' hq').1
        (hQ a' b' hq').2 e
      exact hq hq'
  · intro c hcne
    rw [u2 c (fun a b hq => hcne a b (Or.inr hq)), u1 c (fun a b hp => hcne a b (Or.inl hp))]

theorem Writes.foldl {ι : Type} (hc : CellOK cell p q len)
    (Pk : ι → Nat → Nat → Prop) (f : Out R → ι → Out R) (l : List ι)
    (hD : ∀ k ∈ l, ∀ a b, Pk k a b → a < p ∧ b < q)
    (hstep : ∀ k ∈ l, ∀ o : Out R, o.length = len → Writes cell E (Pk k) o (f o k))
    (o : Out R) (ho : o.length = len) :
    Writes cell E (fun a b => ∃ k ∈ l, Pk k a b) o (l.foldl f o) := by
  induction l generalizing o with
  | nil => exact (Writes.empty cell E o).congr (by simp)
  | cons k l ih =>
    have w1 := hstep k (List.mem_cons_self ..) o ho
    have w2 := ih (fun k' hk' => hD k' (List.mem_cons_of_mem _ hk'))
      (fun k' hk' => hstep k' (List.mem_cons_of_mem _ hk')) (f o k) (by rw [w1.1, ho])
    have w := Writes.trans hc (hD k (List.mem_cons_self ..))
      (by rintro a b ⟨k', hk', h⟩; exact hD k' (List.mem_cons_of_mem _ hk') a b h) w1 w2
    rw [List.foldl_cons]
    exact w.congr (fun a b => by simp)

/-- the two nested copy-out loops of one block, over an arbitrary addressing and value table -/
def copyOutG (cell : Nat → Nat → Nat) (val : Nat → Nat → R) (p first size : Nat) (out : Out R) : Out R :=
  (List.range p).foldl (fun out a =>
    (List.range size).foldl (fun out i => out.set (cell a (first + i)) (val a i)) out) out

theorem copyOutG_writes (hc : CellOK cell p q len) (val : Nat → Nat → R) (first size : Nat)
    (hfs : first + size ≤ q) (hval : ∀ a i, a < p → i < size → val a i = E a (first + i))
    (o : Out R) (ho : o.length = len) :
    Writes cell E (fun a b => a < p ∧ first ≤ b ∧ b < first + size) o
      (copyOutG cell val p first size o) := by
  unfold copyOutG
  have inner : ∀ a ∈ List.range p, ∀ o : Out R, o.length = len →
      Writes cell E (fun a' b' => a' = a ∧ first ≤ b' ∧ b' < first + size) o
        ((List.range size).foldl (fun out i => out.set (cell a (first + i)) (val a i)) o) := by
    intro a ha o ho
    have ha' : a < p := List.mem_range.mp ha
    have w := Writes.foldl hc (fun i a' b' => a' = a ∧ b' = first + i)
      (fun out i => out.set (cell a (first + i)) (val a i)) (List.range size)
      (by
        rintro i hi a' b' ⟨rfl, rfl⟩
        have := List.mem_range.mp hi
        exact ⟨ha', by omega⟩)
      (by
        intro i hi o ho
        have hi' := List.mem_range.mp hi
        exact Writes.single hc ho ha' (by omega) (hval a i ha' hi'))
      o ho
    refine w.congr (fun a' b' => ?_)
    constructor
    · rintro ⟨i, hi, rfl, rfl⟩
      have := List.mem_range.mp hi
      exact ⟨rfl, by omega, by omega⟩
    · rintro ⟨rfl, h1, h2⟩
      exact ⟨b' - first, List.mem_range.mpr (by omega), rfl, by omega⟩
  have w := Writes.foldl hc (fun a a' b' => a' = a ∧ first ≤ b' ∧ b' < first + size) _
    (List.range p)
    (by
      rintro a ha a' b' ⟨rfl, h1, h2⟩
      exact ⟨List.mem_range.mp ha, by omega⟩)
    inner o ho
  refine w.congr (fun a' b' => ?_)
  constructor
  · rintro ⟨a, ha, rfl, h⟩
    exact ⟨List.mem_range.mp ha, h⟩
  · rintro ⟨ha, h⟩
    exact ⟨a', List.mem_range.mpr ha, rfl, h⟩

end Writes

/-! ### the multipass buffer of one block -/

theorem zeroBuf_length (W M : Nat) : (zeroBuf W M : Buf R).length = W := by
  simp [zeroBuf]

theorem zeroBuf_getD (W M i : Nat) (hi : i < W) :
    (zeroBuf W M : Buf R).getD i [] = List.replicate M 0 := by
  simp [zeroBuf, List.getD_eq_getElem?_getD, List.getElem?_replicate, hi]

theorem seedLane_length (b : Buf R) (lane idx : Nat) : (seedLane b lane idx).length = b.length := by
  simp [seedLane]

theorem seedBlock_succ (b : Buf R) (vars : List Nat) (first size : Nat) :
    seedBlock b vars first (size + 1) =
      seedLane (seedBlock b vars first size) size (vars.getD (first + size) 0) := by
  unfold seedBlock
  rw [foldl_range_succ]

theorem seedBlock_spec (W M : Nat) (vars : List Nat) (first size : Nat) (hs : size ≤ W) :
    (seedBlock (zeroBuf W M) vars first size : Buf R).length = W ∧
    ∀ i, i < W → (seedBlock (zeroBuf W M) vars first size : Buf R).getD i [] =
      if i < size then unit M (vars.getD (first + i) 0) else List.replicate M 0 := by
  induction size with
  | zero =>
    refine ⟨zeroBuf_length W M, fun i hi => ?_⟩
    simp only [Nat.not_lt_zero, if_false]
    exact zeroBuf_getD W M i hi
  | succ size ih =>
    obtain ⟨hl, hg⟩ := ih (by omega)
    rw [seedBlock_succ]
    refine ⟨by rw [seedLane_length, hl], fun i hi => ?_⟩
    unfold seedLane
    rw [hg size (by omega), if_neg (Nat.lt_irrefl _)]
    by_cases his : i = size
    · subst his
      rw [getD_set_self _ _ _ _ (by omega), if_pos (by omega)]
      rfl
    · rw [getD_set_ne _ _ _ _ _ his, hg i hi]
      by_cases hlt : i < size
      · rw [if_pos hlt, if_pos (by omega)]
      · rw [if_neg hlt, if_neg (by omega)]

theorem kernelFwd_getD (t : List (Stmt R)) (nl : Nat) (b : Buf R) (i : Nat) (hi : i < nl)
    (hb : i < b.length) : (kernelFwd t nl b).getD i [] = fwd t (b.getD i []) := by
  simp [kernelFwd, List.getD_eq_getElem?_getD, List.getElem?_mapIdx, hi, hb]

theorem kernelRev_getD (t : List (Stmt R)) (nl : Nat) (b : Buf R) (i : Nat) (hi : i < nl)
    (hb : i < b.length) : (kernelRev t nl b).getD i [] = rev t (b.getD i []) := by
  simp [kernelRev, List.getD_eq_getElem?_getD, List.getElem?_mapIdx, hi, hb]

theorem fwd_lane (t : List (Stmt R)) (W M : Nat) (vars : List Nat) (first size nl i : Nat)
    (hsz : size ≤ nl) (hnl : nl ≤ W) (hi : i < size) :
    (kernelFwd t nl (seedBlock (zeroBuf W M) vars first size)).getD i [] =
      fwd t (unit M (vars.getD (first + i) 0)) := by
  obtain ⟨hl, hg⟩ := seedBlock_spec (R := R) W M vars first size (by omega)
  rw [kernelFwd_getD t nl _ i (by omega) (by omega), hg i (by omega), if_pos hi]

theorem rev_lane (t : List (Stmt R)) (W M : Nat) (vars : List Nat) (first size nl i : Nat)
    (hsz : size ≤ nl) (hnl : nl ≤ W) (hi : i < size) :
    (kernelRev t nl (seedBlock (zeroBuf W M) vars first size)).getD i [] =
      rev t (unit M (vars.getD (first + i) 0)) := by
  obtain ⟨hl, hg⟩ := seedBlock_spec (R := R) W M vars first size (by omega)
  rw [kernelRev_getD t nl _ i (by omega) (by omega), hg i (by omega), if_pos hi]

/-! ### one block -/

theorem getD_lt_of_mem_bound (l : List Nat) (M i : Nat) (h : ∀ x ∈ l, x < M) (hi : i < l.length) :
    l.getD i 0 < M := by
  have : l.getD i 0 = l[i] := by simp [List.getD_eq_getElem?_getD, hi]
  rw [this]
  exact h _ (List.getElem_mem hi)

theorem fwdBlock_writes (t : List (Stmt R)) (c : JacCfg) (indep dep : List Nat)
    (first size nl len : Nat) (hsz : size ≤ nl) (hnl : nl ≤ c.W) (hfs : first + size ≤ indep.length)
    (hc : CellOK (fun a b => a * c.depOff + b * c.indepOff) dep.length indep.length len)
    (o : Out R) (ho : o.length = len) :
    Writes (fun a b => a * c.depOff + b * c.indepOff)
      (fun a b => jacEntryFwd t c.maxGrad (indep.getD b 0) (dep.getD a 0))
      (fun a b => a < dep.length ∧ first ≤ b ∧ b < first + size) o
      (fwdBlock t c indep dep first size nl o) := by
  refine copyOutG_writes hc
    (fun a i => rd ((kernelFwd t nl (seedBlock (zeroBuf c.W c.maxGrad) indep first size)).getD i [])
      (dep.getD a 0)) first size hfs ?_ o ho
  intro a i _ hi
  rw [fwd_lane t c.W c.maxGrad indep first size nl i hsz hnl hi]
  rfl

theorem revBlock_writes (t : List (Stmt R)) (c : JacCfg) (indep dep : List Nat)
    (first size nl len : Nat) (hsz : size ≤ nl) (hnl : nl ≤ c.W) (hfs : first + size ≤ dep.length)
    (ht : WF t c.maxGrad) (hi : ∀ x ∈ indep, x < c.maxGrad) (hd : ∀ y ∈ dep, y < c.maxGrad)
    (hc : CellOK (fun a b => a * c.indepOff + b * c.depOff) indep.length dep.length len)
    (o : Out R) (ho : o.length = len) :
    Writes (fun a b => a * c.indepOff + b * c.depOff)
      (fun a b => jacEntryFwd t c.maxGrad (indep.getD a 0) (dep.getD b 0))
      (fun a b => a < indep.length ∧ first ≤ b ∧ b < first + size) o
      (revBlock t c indep dep first size nl o) := by
  refine copyOutG_writes hc
    (fun a i => rd ((kernelRev t nl (seedBlock (zeroBuf c.W c.maxGrad) dep first size)).getD i [])
      (indep.getD a 0)) first size hfs ?_ o ho
  intro a i ha hi'
  rw [rev_lane t c.W c.maxGrad dep first size nl i hsz hnl hi',
    jac_fwd_eq_rev c.maxGrad t _ _ ht (getD_lt_of_mem_bound indep _ a hi ha)
      (getD_lt_of_mem_bound dep _ (first + i) hd (by omega))]
  rfl

/-! ### block arithmetic -/

theorem serial_cover (W q b : Nat) (hW : 0 < W) :
    b < q ↔ (∃ ib, ib < q / W ∧ W * ib ≤ b ∧ b < W * ib + W) ∨
      (W * (q / W) ≤ b ∧ b < W * (q / W) + q % W) := by
  have hq := Nat.div_add_mod q W
  have hqm := Nat.mod_lt q hW
  constructor
  · intro hb
    have hbd := Nat.div_add_mod b W
    have hbm := Nat.mod_lt b hW
    by_cases h : b / W < q / W
    · exact Or.inl ⟨b / W, h, by omega, by omega⟩
    · have hle : b / W ≤ q / W := Nat.div_le_div_right (by omega)
      have heq : b / W = q / W := by omega
      rw [heq] at hbd
      exact Or.inr ⟨by omega, by omega⟩
  · rintro (⟨ib, h1, h2, h3⟩ | ⟨h1, h2⟩)
    · have := Nat.mul_le_mul_left W (show ib + 1 ≤ q / W from h1)
      rw [Nat.mul_succ] at this
      omega
    · omega

theorem nBlocks_eq (W n : Nat) (hW : 0 < W) :
    nBlocks W n = if n % W > 0 then n / W + 1 else n / W := by
  have hq := Nat.div_add_mod n W
  have hqm := Nat.mod_lt n hW
  unfold nBlocks
  split
  · apply Nat.div_eq_of_lt_le
    · rw [Nat.succ_mul, Nat.mul_comm]; omega
    · rw [Nat.succ_mul, Nat.succ_mul, Nat.mul_comm]; omega
  · apply Nat.div_eq_of_lt_le
    · rw [Nat.mul_comm]; omega
    · rw [Nat.succ_mul, Nat.mul_comm]; omega

theorem ompBlockSize_le (W n nb ib : Nat) (hW : 0 < W) : ompBlockSize W n nb ib ≤ W := by
  unfold ompBlockSize
  split
  · exact Nat.le_of_lt (Nat.mod_lt n hW)
  · exact Nat.le_refl _

theorem omp_blocks_cover (W n : Nat) (hW : 0 < W) :
    (∀ j, j < n → ∃ ib, ib < nBlocks W n ∧ W * ib ≤ j ∧
        j < W * ib + ompBlockSize W n (nBlocks W n) ib) ∧
    (∀ ib, ib < nBlocks W n → W * ib + ompBlockSize W n (nBlocks W n) ib ≤ n) := by
  have hq := Nat.div_add_mod n W
  have hqm := Nat.mod_lt n hW
  have hnb := nBlocks_eq W n hW
  constructor
  · intro j hj
    have hbd := Nat.div_add_mod j W
    have hbm := Nat.mod_lt j hW
    have hle : j / W ≤ n / W := Nat.div_le_div_right (by omega)
    refine ⟨j / W, ?_, by omega, ?_⟩
    · rw [hnb]
      split
      · omega
      · rcases Nat.lt_or_ge (j / W) (n / W) with h | h
        · exact h
        · have heq : j / W = n / W := by omega
          rw [heq] at hbd
          omega
    · unfold ompBlockSize
      split
      · rename_i h
        rw [hnb, if_pos h.2] at h
        have heq : j / W = n / W := by omega
        rw [heq] at hbd ⊢
        omega
      · omega
  · intro ib hib
    unfold ompBlockSize
    split
    · rename_i h
      rw [hnb, if_pos h.2] at h
      have heq : ib = n / W := by omega
      subst heq
      omega
    · rename_i h
      have hlt : ib < n / W := by
        rw [hnb] at hib h
        split at hib
        · rename_i hr
          rw [if_pos hr] at h
          by_contra hcon
          exact h ⟨by omega, hr⟩
        · exact hib
      have := Nat.mul_le_mul_left W (show ib + 1 ≤ n / W from hlt)
      rw [Nat.mul_succ] at this
      omega

/-! ### folds over blocks -/

section Blocks
variable {cell : Nat → Nat → Nat} {E : Nat → Nat → R} {p q len : Nat}

theorem serial_writes (hc : CellOK cell p q len) (W : Nat) (hW : 0 < W)
    (blk : Nat → Nat → Nat → Out R → Out R)
    (hblk : ∀ first size nl (o : Out R), size ≤ nl → nl ≤ W → first + size ≤ q → o.length = len →
      Writes cell E (fun a b => a < p ∧ first ≤ b ∧ b < first + size) o (blk first size nl o))
    (o : Out R) (ho : o.length = len) :
    Writes cell E (fun a b => a < p ∧ b < q) o
      (if q % W > 0 then
        blk (W * (q / W)) (q % W) (q % W)
          ((List.range (q / W)).foldl (fun out ib => blk (W * ib) W W out) o)
       else (List.range (q / W)).foldl (fun out ib => blk (W * ib) W W out) o) := by
  have hq := Nat.div_add_mod q W
  have hqm := Nat.mod_lt q hW
  have hfull : ∀ ib ∈ List.range (q / W), W * ib + W ≤ q := by
    intro ib hib
    have := Nat.mul_le_mul_left W (show ib + 1 ≤ q / W from List.mem_range.mp hib)
    rw [Nat.mul_succ] at this
    omega
  have w1 := Writes.foldl hc (fun ib a b => a < p ∧ W * ib ≤ b ∧ b < W * ib + W)
    (fun out ib => blk (W * ib) W W out) (List.range (q / W))
    (by
      rintro ib hib a b ⟨ha, h1, h2⟩
      have := hfull ib hib
      exact ⟨ha, by omega⟩)
    (by
      intro ib hib o ho
      exact hblk (W * ib) W W o (le_refl _) (le_refl _) (hfull ib hib) ho)
    o ho
  split
  · have w2 := hblk (W * (q / W)) (q % W) (q % W) _ (le_refl _) (by omega) (by omega)
      (by rw [w1.1, ho])
    have w := Writes.trans hc
      (by
        rintro a b ⟨ib, hib, ha, h1, h2⟩
        have := hfull ib hib
        exact ⟨ha, by omega⟩)
      (by
        rintro a b ⟨ha, h1, h2⟩
        exact ⟨ha, by omega⟩) w1 w2
    refine w.congr (fun a b => ?_)
    rw [serial_cover W q b hW]
    constructor
    · rintro (⟨ib, hib, ha, h1, h2⟩ | ⟨ha, h1, h2⟩)
      · exact ⟨ha, Or.inl ⟨ib, List.mem_range.mp hib, h1, h2⟩⟩
      · exact ⟨ha, Or.inr ⟨h1, h2⟩⟩
    · rintro ⟨ha, ⟨ib, hib, h1, h2⟩ | ⟨h1, h2⟩⟩
      · exact Or.inl ⟨ib, List.mem_range.mpr hib, ha, h1, h2⟩
      · exact Or.inr ⟨ha, h1, h2⟩
  · refine w1.congr (fun a b => ?_)
    rw [serial_cover W q b hW]
    constructor
    · rintro ⟨ib, hib, ha, h1, h2⟩
      exact ⟨ha, Or.inl ⟨ib, List.mem_range.mp hib, h1, h2⟩⟩
    · rintro ⟨ha, ⟨ib, hib, h1, h2⟩ | ⟨h1, h2⟩⟩
      · exact ⟨ib, List.mem_range.mpr hib, ha, h1, h2⟩
      · omega

theorem omp_writes (hc : CellOK cell p q len) (W : Nat) (hW : 0 < W)
    (blk : Nat → Nat → Nat → Out R → Out R)
    (hblk : ∀ first size nl (o : Out R), size ≤ nl → nl ≤ W → first + size ≤ q → o.length = len →
      Writes cell E (fun a b => a < p ∧ first ≤ b ∧ b < first + size) o (blk first size nl o))
    (sched : List Nat) (hs : sched.Perm (List.range (nBlocks W q)))
    (nlf : Nat → Nat) (hnl : ∀ ib, ompBlockSize W q (nBlocks W q) ib ≤ nlf ib ∧ nlf ib ≤ W)
    (o : Out R) (ho : o.length = len) :
    Writes cell E (fun a b => a < p ∧ b < q) o
      (sched.foldl (fun out ib =>
        blk (W * ib) (ompBlockSize W q (nBlocks W q) ib) (nlf ib) out) o) := by
  obtain ⟨hcov, hin⟩ := omp_blocks_cover W q hW
  have hmem : ∀ ib, ib ∈ sched ↔ ib < nBlocks W q := fun ib => by
    rw [hs.mem_iff, List.mem_range]
  have w := Writes.foldl hc
    (fun ib a b => a < p ∧ W * ib ≤ b ∧ b < W * ib + ompBlockSize W q (nBlocks W q) ib)
    (fun out ib => blk (W * ib) (ompBlockSize W q (nBlocks W q) ib) (nlf ib) out) sched
    (by
      rintro ib hib a b ⟨ha, h1, h2⟩
      have := hin ib ((hmem ib).mp hib)
      exact ⟨ha, by omega⟩)
    (by
      intro ib hib o ho
      exact hblk _ _ _ o (hnl ib).1 (hnl ib).2 (hin ib ((hmem ib).mp hib)) ho)
    o ho
  refine w.congr (fun a b => ?_)
  constructor
  · rintro ⟨ib, hib, ha, h1, h2⟩
    have := hin ib ((hmem ib).mp hib)
    exact ⟨ha, by omega⟩
  · rintro ⟨ha, hb⟩
    obtain ⟨ib, hib, h1, h2⟩ := hcov b hb
    exact ⟨ib, (hmem ib).mpr hib, ha, h1, h2⟩

end Blocks

/-! ### from `Writes` to `JacSpec` -/

theorem cellOK_fwd {m n dO iO len : Nat} (h : LayoutOK m n dO iO len) :
    CellOK (fun a b => a * dO + b * iO) m n len := ⟨h.1, h.2⟩

theorem cellOK_rev {m n dO iO len : Nat} (h : LayoutOK m n dO iO len) :
    CellOK (fun a b => a * iO + b * dO) n m len := by
  refine ⟨fun a b ha hb => ?_, fun a b a' b' ha hb ha' hb' e => ?_⟩
  · have := h.1 b a hb ha
    show a * iO + b * dO < len
    omega
  · have e' : a * iO + b * dO = a' * iO + b' * dO := e
    have := h.2 b a b' a' hb ha hb' ha' (by omega)
    exact ⟨this.2, this.1⟩

theorem jacSpec_of_writes_fwd {t : List (Stmt R)} {N : Nat} {indep dep : List Nat} {dO iO : Nat}
    {out out' : Out R}
    (w : Writes (fun a b => a * dO + b * iO)
      (fun a b => jacEntryFwd t N (indep.getD b 0) (dep.getD a 0))
      (fun a b => a < dep.length ∧ b < indep.length) out out') :
    JacSpec t N indep dep dO iO out out' :=
  ⟨w.1, fun i j hi hj => w.2.1 i j ⟨hi, hj⟩, fun c h => w.2.2 c (fun a b hab => h a b hab.1 hab.2)⟩

theorem jacSpec_of_writes_rev {t : List (Stmt R)} {N : Nat} {indep dep : List Nat} {dO iO : Nat}
    {out out' : Out R}
    (w : Writes (fun a b => a * iO + b * dO)
      (fun a b => jacEntryFwd t N (indep.getD a 0) (dep.getD b 0))
      (fun a b => a < indep.length ∧ b < dep.length) out out') :
    JacSpec t N indep dep dO iO out out' := by
  refine ⟨w.1, fun i j hi hj => ?_, fun c h => w.2.2 c (fun a b hab => ?_)⟩
  · rw [Nat.add_comm]
    exact w.2.1 j i ⟨hj, hi⟩
  · show c ≠ a * iO + b * dO
    rw [Nat.add_comm]
    exact h b a hab.2 hab.1

theorem JacSpec.unique {t : List (Stmt R)} {N : Nat} {indep dep : List Nat} {dO iO : Nat}
    {out o1 o2 : Out R} (h1 : JacSpec t N indep dep dO iO out o1)
    (h2 : JacSpec t N indep dep dO iO out o2) : o1 = o2 := by
  obtain ⟨l1, v1, u1⟩ := h1
  obtain ⟨l2, v2, u2⟩ := h2
  apply List.ext_getElem (l1.trans l2.symm)
  intro c hc1 hc2
  rw [← rd_eq_getElem o1 c hc1, ← rd_eq_getElem o2 c hc2]
  by_cases h : ∃ i j, i < dep.length ∧ j < indep.length ∧ c = i * dO + j * iO
  · obtain ⟨i, j, hi, hj, rfl⟩ := h
    rw [v1 i j hi hj, v2 i j hi hj]
  · have h' : ∀ i j, i < dep.length → j < indep.length → c ≠ i * dO + j * iO :=
      fun i j hi hj e => h ⟨i, j, hi, hj, e⟩
    rw [u1 c h', u2 c h']

/-! ### the four routines -/

theorem jacFwdSerial_spec (t : List (Stmt R)) (c : JacCfg) (indep dep : List Nat) (out : Out R)
    (hW : 0 < c.W) (_ht : WF t c.maxGrad) (_hi : ∀ x ∈ indep, x < c.maxGrad)
    (_hd : ∀ y ∈ dep, y < c.maxGrad)
    (hl : LayoutOK dep.length indep.length c.depOff c.indepOff out.length) :
    JacSpec t c.maxGrad indep dep c.depOff c.indepOff out (jacFwdSerial t c indep dep out) := by
  apply jacSpec_of_writes_fwd
  exact serial_writes (cellOK_fwd hl) c.W hW
    (fun first size nl o => fwdBlock t c indep dep first size nl o)
    (fun first size nl o h1 h2 h3 h4 =>
      fwdBlock_writes t c indep dep first size nl _ h1 h2 h3 (cellOK_fwd hl) o h4) out rfl

theorem jacRevSerial_spec (t : List (Stmt R)) (c : JacCfg) (indep dep : List Nat) (out : Out R)
    (hW : 0 < c.W) (ht : WF t c.maxGrad) (hi : ∀ x ∈ indep, x < c.maxGrad)
    (hd : ∀ y ∈ dep, y < c.maxGrad)
    (hl : LayoutOK dep.length indep.length c.depOff c.indepOff out.length) :
    JacSpec t c.maxGrad indep dep c.depOff c.indepOff out (jacRevSerial t c indep dep out) := by
  apply jacSpec_of_writes_rev
  exact serial_writes (cellOK_rev hl) c.W hW
    (fun first size nl o => revBlock t c indep dep first size nl o)
    (fun first size nl o h1 h2 h3 h4 =>
      revBlock_writes t c indep dep first size nl _ h1 h2 h3 ht hi hd (cellOK_rev hl) o h4) out rfl

theorem fwd_routine_eq_rev_routine (t : List (Stmt R)) (c : JacCfg) (indep dep : List Nat)
    (out : Out R) (hW : 0 < c.W) (ht : WF t c.maxGrad) (hi : ∀ x ∈ indep, x < c.maxGrad)
    (hd : ∀ y ∈ dep, y < c.maxGrad)
    (hl : LayoutOK dep.length indep.length c.depOff c.indepOff out.length) :
    jacFwdSerial t c indep dep out = jacRevSerial t c indep dep out :=
  (jacFwdSerial_spec t c indep dep out hW ht hi hd hl).unique
    (jacRevSerial_spec t c indep dep out hW ht hi hd hl)

theorem jacFwdOmp_spec (t : List (Stmt R)) (c : JacCfg) (indep dep : List Nat) (sched : List Nat)
    (out : Out R) (hW : 0 < c.W) (_ht : WF t c.maxGrad) (_hi : ∀ x ∈ indep, x < c.maxGrad)
    (_hd : ∀ y ∈ dep, y < c.maxGrad)
    (hl : LayoutOK dep.length indep.length c.depOff c.indepOff out.length)
    (hs : sched.Perm (List.range (nBlocks c.W indep.length))) :
    JacSpec t c.maxGrad indep dep c.depOff c.indepOff out (jacFwdOmp t c indep dep sched out) := by
  apply jacSpec_of_writes_fwd
  exact omp_writes (cellOK_fwd hl) c.W hW
    (fun first size nl o => fwdBlock t c indep dep first size nl o)
    (fun first size nl o h1 h2 h3 h4 =>
      fwdBlock_writes t c indep dep first size nl _ h1 h2 h3 (cellOK_fwd hl) o h4) sched hs
    (fun _ => c.W) (fun ib => ⟨ompBlockSize_le _ _ _ _ hW, le_refl _⟩) out rfl

theorem jacRevOmp_spec (t : List (Stmt R)) (c : JacCfg) (indep dep : List Nat) (sched : List Nat)
    (out : Out R) (hW : 0 < c.W) (ht : WF t c.maxGrad) (hi : ∀ x ∈ indep, x < c.maxGrad)
    (hd : ∀ y ∈ dep, y < c.maxGrad)
    (hl : LayoutOK dep.length indep.length c.depOff c.indepOff out.length)
    (hs : sched.Perm (List.range (nBlocks c.W dep.length))) :
    JacSpec t c.maxGrad indep dep c.depOff c.indepOff out (jacRevOmp t c indep dep sched out) := by
  apply jacSpec_of_writes_rev
  exact omp_writes (cellOK_rev hl) c.W hW
    (fun first size nl o => revBlock t c indep dep first size nl o)
    (fun first size nl o h1 h2 h3 h4 =>
      revBlock_writes t c indep dep first size nl _ h1 h2 h3 ht hi hd (cellOK_rev hl) o h4) sched hs
    (fun ib => ompBlockSize c.W dep.length (nBlocks c.W dep.length) ib)
    (fun ib => ⟨le_refl _, ompBlockSize_le _ _ _ _ hW⟩) out rfl

theorem omp_eq_serial_fwd (t : List (Stmt R)) (c : JacCfg) (indep dep : List Nat) (sched : List Nat)
    (out : Out R) (hW : 0 < c.W) (ht : WF t c.maxGrad) (hi : ∀ x ∈ indep, x < c.maxGrad)
    (hd : ∀ y ∈ dep, y < c.maxGrad)
    (hl : LayoutOK dep.length indep.length c.depOff c.indepOff out.length)
    (hs : sched.Perm (List.range (nBlocks c.W indep.length))) :
    jacFwdOmp t c indep dep sched out = jacFwdSerial t c indep dep out :=
  (jacFwdOmp_spec t c indep dep sched out hW ht hi hd hl hs).unique
    (jacFwdSerial_spec t c indep dep out hW ht hi hd hl)

theorem omp_eq_serial_rev (t : List (Stmt R)) (c : JacCfg) (indep dep : List Nat) (sched : List Nat)
    (out : Out R) (hW : 0 < c.W) (ht : WF t c.maxGrad) (hi : ∀ x ∈ indep, x < c.maxGrad)
    (hd : ∀ y ∈ dep, y < c.maxGrad)
    (hl : LayoutOK dep.length indep.length c.depOff c.indepOff out.length)
    (hs : sched.Perm (List.range (nBlocks c.W dep.length))) :
    jacRevOmp t c indep dep sched out = jacRevSerial t c indep dep out :=
  (jacRevOmp_spec t c indep dep sched out hW ht hi hd hl hs).unique
    (jacRevSerial_spec t c indep dep out hW ht hi hd hl)

/-! ### the default layouts -/

theorem mixed_radix_inj (r a b a' b' : Nat) (ha : a < r) (ha' : a' < r)
    (h : a + b * r = a' + b' * r) : a = a' ∧ b = b' := by
  have h1 : (a + b * r) % r = a := by rw [Nat.add_mul_mod_self_right, Nat.mod_eq_of_lt ha]
  have h1' : (a' + b' * r) % r = a' := by rw [Nat.add_mul_mod_self_right, Nat.mod_eq_of_lt ha']
  have e : a = a' := by rw [← h1, h, h1']
  subst e
  have e2 : b * r = b' * r := by omega
  exact ⟨rfl, Nat.eq_of_mul_eq_mul_right (by omega) e2⟩

theorem mixed_radix_lt (r s a b : Nat) (ha : a < r) (hb : b < s) : a + b * r < r * s := by
  have := Nat.mul_le_mul_right r (show b + 1 ≤ s from hb)
  rw [Nat.succ_mul] at this
  rw [Nat.mul_comm r s]
  omega

theorem layout_colmajor (m n : Nat) : LayoutOK m n 1 m (m * n) := by
  refine ⟨fun i j hi hj => ?_, fun i j i' j' hi hj hi' hj' e => ?_⟩
  · rw [Nat.mul_one]
    exact mixed_radix_lt m n i j hi hj
  · rw [Nat.mul_one, Nat.mul_one] at e
    exact mixed_radix_inj m i j i' j' hi hi' e

theorem layout_rowmajor (m n : Nat) : LayoutOK m n n 1 (m * n) := by
  refine ⟨fun i j hi hj => ?_, fun i j i' j' hi hj hi' hj' e => ?_⟩
  · rw [Nat.mul_one, Nat.add_comm, Nat.mul_comm m n]
    exact mixed_radix_lt n m j i hj hi
  · rw [Nat.mul_one, Nat.mul_one, Nat.add_comm, Nat.add_comm (i' * n)] at e
    have := mixed_radix_inj n j i j' i' hj hj' e
    exact ⟨this.2, this.1⟩

end Adept.Tape
