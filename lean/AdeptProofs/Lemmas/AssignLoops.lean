import AdeptProofs.Lemmas.AssignDefs
/-!
The code-shaped loops of `AdeptModel/Assign.lean` (left-hand `index` advanced by `index += offset_[last]`,
`Array::advance_index` with carries, counted scalar loop, `is_gap`) compute the same function as the folds
over the index tuples in index order (`seqAssign`, `seqScalar`, `seqWhere`).
-/
namespace Adept.Assign

/-! ### list helpers -/

theorem flatMap_congr_mem {α β : Type} {l : List α} {f g : α → List β} (h : ∀ a ∈ l, f a = g a) :
    l.flatMap f = l.flatMap g := by
  induction l with
  | nil => rfl
  | cons a l ih =>
    simp only [List.flatMap_cons]
    rw [h a (by simp), ih (fun b hb => h b (by simp [hb]))]

theorem foldl_congr_mem {α β : Type} {l : List α} {f g : β → α → β}
    (h : ∀ a ∈ l, ∀ t, f t a = g t a) (t : β) : l.foldl f t = l.foldl g t := by
  induction l generalizing t with
  | nil => rfl
  | cons a l ih =>
    simp only [List.foldl_cons]
    rw [h a (by simp), ih (fun b hb => h b (by simp [hb]))]

theorem length_flatMap_const {α β : Type} (l : List α) (f : α → List β) (n : Nat)
    (h : ∀ a, (f a).length = n) : (l.flatMap f).length = l.length * n := by
  induction l with
  | nil => simp
  | cons a l ih =>
    simp only [List.flatMap_cons, List.length_append, List.length_cons, ih, h, Nat.succ_mul]
    omega

/-! ### index tuples -/

/-- append a last coordinate -/
def snocs (d : Nat) (ix : List Nat) : List (List Nat) := (List.range d).map (fun j => ix ++ [j])

theorem idxs_snoc (ds : List Nat) (d : Nat) : idxs (ds ++ [d]) = (idxs ds).flatMap (snocs d) := by
  induction ds with
  | nil =>
    simp only [List.nil_append, idxs, List.map_cons, List.map_nil, List.flatMap_cons, List.flatMap_nil,
      List.append_nil, snocs]
    induction (List.range d) with
    | nil => rfl
    | cons a l ih => simp [List.flatMap_cons, ih]
  | cons e ds ih =>
    simp only [List.cons_append, idxs, ih, List.flatMap_assoc, List.map_flatMap, List.flatMap_map]
    apply flatMap_congr_mem
    intro i _
    apply flatMap_congr_mem
    intro ix _
    simp [snocs]

theorem length_of_mem_idxs {ds : List Nat} {ix : List Nat} (h : ix ∈ idxs ds) : ix.length = ds.length := by
  induction ds generalizing ix with
  | nil => simp [idxs] at h; simp [h]
  | cons d ds ih =>
    simp only [idxs, List.mem_flatMap, List.mem_map] at h
    obtain ⟨i, _, ix', hix', rfl⟩ := h
    simp [ih hix']

theorem dot_snoc (o : List Nat) (ss : List Int) (j : Nat) (s : Int) (h : o.length = ss.length) :
    dot (o ++ [j]) (ss ++ [s]) = dot o ss + (j : Int) * s := by
  induction o generalizing ss with
  | nil =>
    cases ss with
    | nil => simp [dot]
    | cons a ss => simp at h
  | cons i o ih =>
    cases ss with
    | nil => simp at h
    | cons a ss =>
      simp only [List.length_cons, Nat.add_right_cancel_iff] at h
      simp only [List.cons_append, dot, ih ss h]
      omega

/-! ### the odometer -/

/-- every counter is inside its extent -/
def Valid (cs : List Ctr) : Prop := ∀ c ∈ cs, c.i < c.dim

/-- the part of `index` the counters account for -/
def val : List Ctr → Int
  | [] => 0
  | c :: cs => (c.i : Int) * c.off + val cs

/-- all settings of a counter of extent `d`, offset `s`, in front of `cs` -/
def expand (d : Nat) (s : Int) (cs : List Ctr) : List (List Ctr) :=
  (List.range d).map (fun j => (⟨j, d, s⟩ : Ctr) :: cs)

/-- the settings of the first counter after `a`, for `n` steps -/
def bumps (d : Nat) (s : Int) (cs : List Ctr) (a n : Nat) : List (List Ctr) :=
  (List.range' a n).map (fun j => (⟨j, d, s⟩ : Ctr) :: cs)

/-- the counter states that follow `cs`, in the order `advance_index` visits them -/
def after : List Ctr → List (List Ctr)
  | [] => []
  | c :: cs => bumps c.dim c.off cs (c.i + 1) (c.dim - (c.i + 1)) ++ (after cs).flatMap (expand c.dim c.off)

theorem expand_succ (d : Nat) (s : Int) (cs : List Ctr) :
    expand (d + 1) s cs = ((⟨0, d + 1, s⟩ : Ctr) :: cs) :: bumps (d + 1) s cs 1 d := by
  simp [expand, bumps, List.range_eq_range', List.range'_succ]

theorem carry_none (cs : List Ctr) (hv : Valid cs) (index : Int) (h : after cs = []) :
    carry cs index = none := by
  induction cs generalizing index with
  | nil => rfl
  | cons c cs ih =>
    have hc : c.i < c.dim := hv c (by simp)
    have hv' : Valid cs := fun c' hc' => hv c' (by simp [hc'])
    simp only [after, List.append_eq_nil_iff] at h
    obtain ⟨h1, h2⟩ := h
    by_cases hge : c.i + 1 ≥ c.dim
    · cases hA : after cs with
      | nil => simp [carry, hge, ih hv' _ hA]
      | cons nxt rest =>
        exfalso
        obtain ⟨d, hd⟩ : ∃ d, c.dim = d + 1 := ⟨c.dim - 1, by omega⟩
        rw [hA, hd] at h2
        simp [expand_succ] at h2
    · exfalso
      obtain ⟨k, hk⟩ : ∃ k, c.dim - (c.i + 1) = k + 1 := ⟨c.dim - (c.i + 2), by omega⟩
      rw [hk] at h1
      simp [bumps, List.range'_succ] at h1

theorem carry_some (cs : List Ctr) (hv : Valid cs) (index : Int) (nxt : List Ctr) (rest : List (List Ctr))
    (h : after cs = nxt :: rest) :
    carry cs index = some (nxt, index + (val nxt - val cs)) ∧ after nxt = rest ∧ Valid nxt := by
  induction cs generalizing index nxt rest with
  | nil => simp [after] at h
  | cons c cs ih =>
    have hc : c.i < c.dim := hv c (by simp)
    have hv' : Valid cs := fun c' hc' => hv c' (by simp [hc'])
    obtain ⟨i, dim, off⟩ := c
    simp only at hc
    by_cases hge : i + 1 ≥ dim
    · have hd : dim = i + 1 := by omega
      subst hd
      simp only [after, Nat.sub_self, bumps, List.range'_zero, List.map_nil, List.nil_append] at h
      cases hA : after cs with
      | nil => simp [hA] at h
      | cons nxt' rest' =>
        rw [hA, List.flatMap_cons, expand_succ, List.cons_append] at h
        obtain ⟨hn, hr⟩ := List.cons.inj h
        obtain ⟨ih1, ih2, ih3⟩ := ih hv' (index - off * (((i + 1 : Nat) : Int) - 1)) nxt' rest' hA
        subst hn
        refine ⟨?_, ?_, ?_⟩
        · simp only [carry, ge_iff_le, Nat.le_refl, if_true, ih1, val]
          have : off * (((i + 1 : Nat) : Int) - 1) = (i : Int) * off := by
            rw [Int.mul_comm]; congr 1; omega
          rw [this]
          congr 2
          simp only [Int.natCast_zero, Int.zero_mul]; omega
        · simp only [after, ih2]
          rw [← hr]
          simp
        · intro c' hc'
          simp only [List.mem_cons] at hc'
          rcases hc' with rfl | hc'
          · simp
          · exact ih3 c' hc'
    · obtain ⟨k, hk⟩ : ∃ k, dim - (i + 1) = k + 1 := ⟨dim - (i + 2), by omega⟩
      simp only [after, hk, bumps, List.range'_succ, List.map_cons, List.cons_append] at h
      obtain ⟨hn, hr⟩ := List.cons.inj h
      subst hn
      refine ⟨?_, ?_, ?_⟩
      · simp only [carry, hge, if_false, val]
        congr 2
        simp only [Int.natCast_add, Int.add_mul]
        omega
      · simp only [after, bumps]
        rw [← hr]
        have : dim - (i + 1 + 1) = k := by omega
        rw [this]
      · intro c' hc'
        simp only [List.mem_cons] at hc'
        rcases hc' with rfl | hc'
        · simp; omega
        · exact hv' c' hc'

/-! ### the row loop as a fold over the counter states -/

/-- one element of a row in specification form: coordinates `o ++ [k]`, relative address `i0 + k*sl` -/
def rowStep {τ : Type} (cell : List Nat → Int → τ → τ) (o : List Nat) (i0 sl : Int) (t : τ) (k : Nat) : τ :=
  cell (o ++ [k]) (i0 + (k : Int) * sl) t

def rowFold {τ : Type} (cell : List Nat → Int → τ → τ) (dl : Nat) (sl : Int) (o : List Nat) (i0 : Int)
    (t : τ) : τ :=
  (List.range dl).foldl (rowStep cell o i0 sl) t

def stateStep {τ : Type} (rf : List Nat → Int → τ → τ) (t : τ) (cs : List Ctr) : τ :=
  rf (outerOf cs) (val cs) t

theorem rowsLoop_eq {σ τ : Type} (π : σ → τ) (dl : Nat) (sl : Int) (row : List Nat → Int → σ → Int × σ)
    (rf : List Nat → Int → τ → τ)
    (h1 : ∀ o i0 s, (row o i0 s).1 = i0 + (dl : Int) * sl)
    (h2 : ∀ o i0 s, π (row o i0 s).2 = rf o i0 (π s))
    (fuel : Nat) (cs : List Ctr) (hv : Valid cs) (hf : (after cs).length < fuel) (s : σ) :
    π (rowsLoop dl sl row fuel cs (val cs) s) = (cs :: after cs).foldl (stateStep rf) (π s) := by
  induction fuel generalizing cs s with
  | zero => omega
  | succ fuel ih =>
    simp only [rowsLoop, h1]
    have e : val cs + (dl : Int) * sl - sl * (dl : Int) = val cs := by rw [Int.mul_comm]; omega
    rw [e]
    cases hA : after cs with
    | nil => rw [carry_none cs hv _ hA]; simp [stateStep, h2]
    | cons nxt rest =>
      obtain ⟨c1, c2, c3⟩ := carry_some cs hv (val cs) nxt rest hA
      rw [c1]
      simp only
      have e2 : val cs + (val nxt - val cs) = val nxt := by omega
      rw [e2, ih nxt c3 (by rw [c2]; rw [hA] at hf; simpa using hf), c2]
      simp [stateStep, h2]

/-! ### the counter states of a whole traversal -/

def states : List Nat → List Int → List (List Ctr)
  | d :: ds, s :: ss => (states ds ss).flatMap (expand d s)
  | _, _ => [[]]

theorem valid_mkCtrs (ds : List Nat) (ss : List Int) (hpos : ∀ d ∈ ds, 0 < d) : Valid (mkCtrs ds ss) := by
  induction ds generalizing ss with
  | nil => intro c hc; simp [mkCtrs] at hc
  | cons d ds ih =>
    cases ss with
    | nil => intro c hc; simp [mkCtrs] at hc
    | cons s ss =>
      intro c hc
      simp only [mkCtrs, List.mem_cons] at hc
      rcases hc with rfl | hc
      · exact hpos d (by simp)
      · exact ih ss (fun d' hd' => hpos d' (by simp [hd'])) c hc

theorem val_mkCtrs (ds : List Nat) (ss : List Int) : val (mkCtrs ds ss) = 0 := by
  induction ds generalizing ss with
  | nil => simp [mkCtrs, val]
  | cons d ds ih =>
    cases ss with
    | nil => simp [mkCtrs, val]
    | cons s ss => simp [mkCtrs, val, ih]

theorem all_mkCtrs (ds : List Nat) (ss : List Int) (hpos : ∀ d ∈ ds, 0 < d) :
    mkCtrs ds ss :: after (mkCtrs ds ss) = states ds ss := by
  induction ds generalizing ss with
  | nil => simp [mkCtrs, states, after]
  | cons d ds ih =>
    cases ss with
    | nil => simp [mkCtrs, states, after]
    | cons s ss =>
      have hd : 0 < d := hpos d (by simp)
      obtain ⟨d', rfl⟩ : ∃ d', d = d' + 1 := ⟨d - 1, by omega⟩
      simp only [mkCtrs, states, after]
      rw [← ih ss (fun d' hd' => hpos d' (by simp [hd'])), List.flatMap_cons, expand_succ]
      simp

theorem length_states (ds : List Nat) (ss : List Int) (hl : ds.length = ss.length) :
    (states ds ss).length = prodNat ds := by
  induction ds generalizing ss with
  | nil => simp [states, prodNat]
  | cons d ds ih =>
    cases ss with
    | nil => simp at hl
    | cons s ss =>
      simp only [List.length_cons, Nat.add_right_cancel_iff] at hl
      simp only [states, prodNat]
      rw [length_flatMap_const _ _ d (by intro a; simp [expand]), ih ss hl, Nat.mul_comm]

/-- coordinates and relative address of a counter state -/
def ctrInfo (cs : List Ctr) : List Nat × Int := (outerOf cs, val cs)

def idxInfo (ss : List Int) (o : List Nat) : List Nat × Int := (o, dot o ss)

theorem states_map (ds : List Nat) (ss : List Int) (hl : ds.length = ss.length) :
    (states ds ss).map ctrInfo = (idxs ds.reverse).map (idxInfo ss.reverse) := by
  induction ds generalizing ss with
  | nil =>
    cases ss with
    | nil => simp [states, idxs, ctrInfo, idxInfo, outerOf, val, dot]
    | cons s ss => simp at hl
  | cons d ds ih =>
    cases ss with
    | nil => simp at hl
    | cons s ss =>
      simp only [List.length_cons, Nat.add_right_cancel_iff] at hl
      have e1 : (states (d :: ds) (s :: ss)).map ctrInfo
          = ((states ds ss).map ctrInfo).flatMap
              (fun (p : List Nat × Int) => (List.range d).map (fun (j : Nat) => (p.1 ++ [j], (j : Int) * s + p.2))) := by
        simp only [states, List.map_flatMap, List.flatMap_map, expand, List.map_map]
        apply flatMap_congr_mem
        intro cs _
        apply List.map_congr_left
        intro j _
        simp [ctrInfo, outerOf, val]
      rw [e1, ih ss hl, List.reverse_cons, List.reverse_cons, idxs_snoc, List.map_flatMap, List.flatMap_map]
      apply flatMap_congr_mem
      intro o ho
      have hlen : o.length = ss.reverse.length := by
        rw [length_of_mem_idxs ho]; simp [hl]
      simp only [snocs, List.map_map]
      apply List.map_congr_left
      intro j _
      simp only [idxInfo, Function.comp, dot_snoc o ss.reverse j s hlen]
      congr 1
      omega

/-! ### a traversal is a fold over the index tuples -/

theorem traverse_eq {σ τ : Type} (v : View) (h : v.WF) (π : σ → τ)
    (row : Nat → Int → List Nat → Int → σ → Int × σ)
    (cell : List Nat → Int → τ → τ)
    (hrow : ∀ dl sl, v.dims.getLast? = some dl → v.strides.getLast? = some sl → ∀ o i0 s,
       (row dl sl o i0 s).1 = i0 + (dl : Int) * sl ∧
       π (row dl sl o i0 s).2 = rowFold cell dl sl o i0 (π s))
    (s : σ) :
    π (v.traverse row s) = (idxs v.dims).foldl (fun t ix => cell ix (dot ix v.strides) t) (π s) := by
  obtain ⟨hlen, hpos, hrank⟩ := h
  cases hd : v.dims.reverse with
  | nil => simp at hd; exact absurd hd hrank
  | cons dl dsr =>
    cases hss : v.strides.reverse with
    | nil =>
      have e : v.strides = [] := by simpa using hss
      rw [e] at hlen
      have : v.dims = [] := by
        cases hv : v.dims with
        | nil => rfl
        | cons a l => rw [hv] at hlen; simp at hlen
      exact absurd this hrank
    | cons sl ssr =>
      have hD : v.dims = dsr.reverse ++ [dl] := List.reverse_eq_cons_iff.mp hd
      have hS : v.strides = ssr.reverse ++ [sl] := List.reverse_eq_cons_iff.mp hss
      have hl : dsr.length = ssr.length := by
        have := hlen; rw [hD, hS] at this; simpa using this.symm
      have hpos' : ∀ d ∈ dsr, 0 < d := fun d hd' => hpos d (by rw [hD]; simp [hd'])
      have hr := hrow dl sl (by rw [hD]; simp) (by rw [hS]; simp)
      have hA := all_mkCtrs dsr ssr hpos'
      have hfuel : (after (mkCtrs dsr ssr)).length < prodNat dsr + 1 := by
        have := length_states dsr ssr hl
        rw [← hA] at this
        simp at this
        omega
      have key := rowsLoop_eq π dl sl (row dl sl) (rowFold cell dl sl) (fun o i0 s => (hr o i0 s).1)
        (fun o i0 s => (hr o i0 s).2) (prodNat dsr + 1) (mkCtrs dsr ssr) (valid_mkCtrs dsr ssr hpos') hfuel s
      rw [val_mkCtrs, hA] at key
      simp only [View.traverse, hd, hss]
      rw [key]
      have e1 : (states dsr ssr).foldl (stateStep (rowFold cell dl sl)) (π s)
          = ((states dsr ssr).map ctrInfo).foldl (fun t p => rowFold cell dl sl p.1 p.2 t) (π s) := by
        rw [List.foldl_map]; rfl
      rw [e1, states_map dsr ssr hl, List.foldl_map, hD, hS, idxs_snoc, List.foldl_flatMap]
      apply foldl_congr_mem
      intro o ho t
      have hlen' : o.length = ssr.reverse.length := by
        rw [length_of_mem_idxs ho]; simp [hl]
      simp only [snocs, List.foldl_map, idxInfo, rowFold]
      apply foldl_congr_mem
      intro k _ t'
      simp only [rowStep, dot_snoc o ssr.reverse k sl hlen']

/-! ### the innermost loops -/

def cellA (rhs : Expr) (base : Int) (ix : List Nat) (a : Int) (m : Mem) : Mem :=
  write m (base + a) (rhs.evalAt m ix)

def cellS (x base : Int) (_ix : List Nat) (a : Int) (m : Mem) : Mem := write m (base + a) x

def cellW (mask : BExpr) (rhs : Expr) (base : Int) (ix : List Nat) (a : Int) (m : Mem) : Mem :=
  if mask.evalAt m ix then write m (base + a) (rhs.evalAt m ix) else m

theorem innerAssign_eq (rhs : Expr) (base sl : Int) (outer : List Nat) (i0 : Int) (n j : Nat) (index : Int)
    (m : Mem) (hi : index = i0 + (j : Int) * sl) :
    innerAssign rhs base sl outer n j index m =
      (i0 + ((j + n : Nat) : Int) * sl, (List.range' j n).foldl (rowStep (cellA rhs base) outer i0 sl) m) := by
  induction n generalizing j index m with
  | zero => simp [innerAssign, hi]
  | succ n ih =>
    simp only [innerAssign]
    rw [ih (j + 1) (index + sl) _ (by subst hi; simp [Int.add_mul]; omega)]
    subst hi
    have : j + 1 + n = j + (n + 1) := by omega
    rw [this]
    simp only [List.range'_succ, List.foldl_cons]
    rfl

theorem innerScalar_eq (x base sl : Int) (outer : List Nat) (i0 : Int) (n j : Nat)
    (index : Int) (m : Mem) (hi : index = i0 + (j : Int) * sl) :
    innerScalar x base sl n index m =
      (i0 + ((j + n : Nat) : Int) * sl, (List.range' j n).foldl (rowStep (cellS x base) outer i0 sl) m) := by
  induction n generalizing j index m with
  | zero => simp [innerScalar, hi]
  | succ n ih =>
    simp only [innerScalar]
    rw [ih (j + 1) (index + sl) _ (by subst hi; simp [Int.add_mul]; omega)]
    subst hi
    have : j + 1 + n = j + (n + 1) := by omega
    rw [this]
    simp only [List.range'_succ, List.foldl_cons]
    rfl

theorem innerWhere_eq (mask : BExpr) (rhs : Expr) (base sl : Int) (outer : List Nat) (i0 : Int) (n j : Nat)
    (index : Int) (s : WSt) (hinv : s.isGap = false → s.jr = j) (hi : index = i0 + (j : Int) * sl) :
    (innerWhere mask rhs base sl outer n j index s).1 = i0 + ((j + n : Nat) : Int) * sl ∧
    (innerWhere mask rhs base sl outer n j index s).2.m
      = (List.range' j n).foldl (rowStep (cellW mask rhs base) outer i0 sl) s.m := by
  induction n generalizing j index s with
  | zero => simp [innerWhere, hi]
  | succ n ih =>
    simp only [innerWhere]
    have hi' : index + sl = i0 + ((j + 1 : Nat) : Int) * sl := by subst hi; simp [Int.add_mul]; omega
    have e : j + 1 + n = j + (n + 1) := by omega
    by_cases hm : mask.evalAt s.m (outer ++ [j]) = true
    · have hjr : (if s.isGap = true then j else s.jr) = j := by
        cases hg : s.isGap with
        | true => simp
        | false => simp [hinv hg]
      simp only [hm, if_true, hjr]
      obtain ⟨a, b⟩ := ih (j + 1) (index + sl)
        { m := write s.m (base + index) (rhs.evalAt s.m (outer ++ [j])), isGap := false, jr := j + 1 }
        (by simp) hi'
      rw [a, b, e]
      subst hi
      simp [List.range'_succ, rowStep, cellW, hm]
    · simp only [hm, Bool.false_eq_true, if_false]
      obtain ⟨a, b⟩ := ih (j + 1) (index + sl) { s with isGap := true } (by simp) hi'
      rw [a, b, e]
      subst hi
      simp [List.range'_succ, rowStep, cellW, hm]

theorem assignExpression_eq_seq (lhs : View) (rhs : Expr) (m : Mem) (h : lhs.WF) :
    assignExpression lhs rhs m = seqAssign lhs rhs m := by
  have key := traverse_eq lhs h id
    (fun dl sl outer index m => innerAssign rhs lhs.base sl outer dl 0 index m) (cellA rhs lhs.base) ?_ m
  · simpa [assignExpression, seqAssign, View.addr, cellA] using key
  · intro dl sl _ _ o i0 s
    rw [innerAssign_eq rhs lhs.base sl o i0 dl 0 i0 s (by simp)]
    simp [rowFold, List.range_eq_range']

theorem traverseScalar_eq_seq (lhs : View) (x : Int) (m : Mem) (h : lhs.WF) :
    lhs.traverse (fun dl sl _ index m => innerScalar x lhs.base sl dl index m) m
      = seqScalar lhs x m := by
  have key := traverse_eq lhs h id
    (fun dl sl _ index m => innerScalar x lhs.base sl dl index m)
    (cellS x lhs.base) ?_ m
  · simpa [seqScalar, View.addr, cellS] using key
  · intro dl sl _ _ o i0 s
    rw [innerScalar_eq x lhs.base sl o i0 dl 0 i0 s (by simp)]
    simp [rowFold, List.range_eq_range']

theorem assignConditional__eq_seq (lhs : View) (mask : BExpr) (rhs : Expr) (m : Mem) (h : lhs.WF) :
    assignConditional_ lhs mask rhs m = seqWhere lhs mask rhs m := by
  have key := traverse_eq lhs h (fun s : WSt => s.m)
    (fun dl sl outer index (s : WSt) => innerWhere mask rhs lhs.base sl outer dl 0 index { s with jr := 0 })
    (cellW mask rhs lhs.base) ?_ { m := m, isGap := false, jr := 0 }
  · simpa [assignConditional_, seqWhere, View.addr, cellW] using key
  · intro dl sl _ _ o i0 s
    obtain ⟨a, b⟩ := innerWhere_eq mask rhs lhs.base sl o i0 dl 0 i0 { s with jr := 0 } (by simp) (by simp)
    refine ⟨?_, ?_⟩
    · simpa using a
    · simpa [rowFold, List.range_eq_range'] using b

end Adept.Assign
