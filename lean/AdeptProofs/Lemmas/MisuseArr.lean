import AdeptModel.Misuse
import Mathlib.Tactic.Linarith
import Mathlib.Tactic.Ring
/-!
Helper lemmas for C11, part B (`AdeptModel/Misuse.lean`): the run of a history of array operations, the history with
its failing operations removed, "a failing operation other than `fill` hands back the pool it was given", and the
invariants of the `<<` allocators.
-/
namespace Adept.Misuse
set_option linter.unusedSimpArgs false

/-! ### histories -/

def Res.failed : Res → Bool
  | .ok _ => false
  | .error _ => true

/-- removed from the history: the operation failed and left the pool exactly as it was -/
def dropped (s : State) (o : Op) : Bool := (step s o).2.failed && decide ((step s o).1 = s)

def run (s : State) : List Op → State × List Res
  | [] => (s, [])
  | o :: os =>
    let r := step s o
    let rest := run r.1 os
    (rest.1, r.2 :: rest.2)

def runKept (s : State) : List Op → State × List Res
  | [] => (s, [])
  | o :: os =>
    let r := step s o
    let rest := runKept r.1 os
    if dropped s o then rest else (rest.1, r.2 :: rest.2)

def dropFailed (s : State) : List Op → List Op
  | [] => []
  | o :: os => if dropped s o then dropFailed (step s o).1 os else o :: dropFailed (step s o).1 os

theorem dropped_state (s : State) (o : Op) (h : dropped s o = true) : (step s o).1 = s := by
  unfold dropped at h
  simp only [Bool.and_eq_true, decide_eq_true_eq] at h
  exact h.2

theorem run_dropFailed (s : State) (ops : List Op) : run s (dropFailed s ops) = runKept s ops := by
  induction ops generalizing s with
  | nil => rfl
  | cons o os ih =>
    unfold dropFailed runKept
    cases hd : dropped s o with
    | true =>
      simp only [if_true]
      rw [dropped_state s o hd]
      exact ih s
    | false =>
      simp only [Bool.false_eq_true, if_false]
      show (let r := step s o; let rest := run r.1 (dropFailed (step s o).1 os); (rest.1, r.2 :: rest.2)) = _
      simp only [ih]

theorem runKept_state (s : State) (ops : List Op) : (runKept s ops).1 = (run s ops).1 := by
  induction ops generalizing s with
  | nil => rfl
  | cons o os ih =>
    unfold runKept run
    cases hd : dropped s o with
    | true => simp only [if_true]; exact ih _
    | false => simp only [Bool.false_eq_true, if_false]; exact ih _

/-! ### a failing operation hands back the pool it was given -/

theorem commit_fail (s : State) (k : Nat) (r : Except Err Arr) (e : Err) (h : (commit s k r).2 = .error e) :
    commit s k r = (s, .error e) := by
  cases r with
  | ok a => simp [commit] at h
  | error e' => simp only [commit] at h ⊢; rw [Except.error.injEq] at h; rw [h]

theorem viewRes_state (s : State) (r : Except Err View) : (viewRes s r).1 = s := by
  cases r <;> rfl

theorem viewRes_fail (s : State) (r : Except Err View) (e : Err) (h : r = .error e) : viewRes s r = (s, .error e) := by
  subst h; rfl

/-- a result that, if it is a failure, carries the pool `s` unchanged -/
def Safe (s : State) (r : State × Res) : Prop := r.2.failed = true → r.1 = s

theorem safe_same (s : State) (r : Res) : Safe s (s, r) := fun _ => rfl
theorem safe_ok (s s' : State) (o : Out) : Safe s (s', .ok o) := fun h => by simp [Res.failed] at h
theorem safe_bad (s : State) : Safe s (badOp s) := fun _ => rfl
theorem safe_commit (s : State) (k : Nat) (r : Except Err Arr) : Safe s (commit s k r) := by
  cases r with
  | ok a => exact safe_ok _ _ _
  | error e => exact safe_same _ _
theorem safe_commitS (s : State) (k : Nat) (r : Except Err SArr) : Safe s (commitS s k r) := by
  cases r with
  | ok a => exact safe_ok _ _ _
  | error e => exact safe_same _ _
theorem safe_commitA (s : State) (k : Nat) (r : Except Err AArr) : Safe s (commitA s k r) := by
  cases r with
  | ok a => exact safe_ok _ _ _
  | error e => exact safe_same _ _
theorem safe_viewRes (s : State) (r : Except Err View) : Safe s (viewRes s r) := fun _ => viewRes_state s r
theorem safe_redRes (s : State) (r : Except Err RedOut) : Safe s (redRes s r) := by
  intro _
  cases r with
  | ok a => cases a <;> rfl
  | error e => rfl

/-- the new operation kinds (`step2`): every one that fails hands back the pool it was given, except `either_or`, whose
    first conditional assignment stays when the second one is refused -/
theorem step2_safe (s : State) (o : Op) (heor : ∀ k m c d, o ≠ .eor k m c d) : Safe s (step2 s o) := by
  cases o
  case eor k m c d => exact absurd rfl (heor k m c d)
  all_goals simp only [step2]
  all_goals repeat' split
  all_goals first
    | exact safe_bad _
    | exact safe_same _ _
    | exact safe_ok _ _ _
    | exact safe_commit _ _ _
    | exact safe_commitS _ _ _
    | exact safe_commitA _ _ _
    | exact safe_viewRes _ _
    | exact safe_redRes _ _

/-- an operation that is neither a `fill` nor an `either_or` assignment and fails has not changed the pool -/
theorem fail_unchanged (s : State) (o : Op) (hf : (step s o).2.failed = true)
    (hfill : ∀ k items, o ≠ .fill k items) (heor : ∀ k m c d, o ≠ .eor k m c d) : (step s o).1 = s := by
  have commit' : ∀ (k : Nat) (r : Except Err Arr), (commit s k r).2.failed = true → (commit s k r).1 = s := by
    intro k r h
    cases r with
    | ok a => simp [commit, Res.failed] at h
    | error e => rfl
  cases o with
  | fill k items => exact absurd rfl (hfill k items)
  | new k dbl seed dims =>
    simp only [step] at hf ⊢
    split
    · rename_i h; rw [if_pos h] at hf; exact commit' _ _ hf
    · rfl
  | resize k seed dims =>
    simp only [step] at hf ⊢
    split
    · split
      · rename_i h1 h2; simp only [h1, h2, if_true] at hf; exact commit' _ _ hf
      · rfl
    · rfl
  | resized k seed dims =>
    simp only [step] at hf ⊢
    split
    · split
      · rename_i h1 h2; simp only [h1, h2, if_true] at hf; exact commit' _ _ hf
      · rfl
    · rfl
  | asg k i op j =>
    simp only [step] at hf ⊢
    split
    · split
      · rename_i h1 h2 h3 h4; simp only [h1, h2, h3, h4, if_true] at hf; exact commit' _ _ hf
      · rfl
    · rfl
  | cp k i =>
    simp only [step] at hf ⊢
    split
    · split
      · rename_i h1 h2 h3; simp only [h1, h2, h3, if_true] at hf; exact commit' _ _ hf
      · rfl
    · rfl
  | comp k op i =>
    simp only [step] at hf ⊢
    split
    · split
      · rename_i h1 h2 h3; simp only [h1, h2, h3, if_true] at hf; exact commit' _ _ hf
      · rfl
    · rfl
  | whr k m i =>
    simp only [step] at hf ⊢
    split
    · split
      · rename_i h1 h2 h3 h4; simp only [h1, h2, h3, h4, if_true] at hf; exact commit' _ _ hf
      · rfl
    · rfl
  | diag k o =>
    simp only [step]
    split
    · split
      · exact viewRes_state _ _
      · rfl
    · rfl
  | subdiag k ib ie =>
    simp only [step]
    split
    · split
      · exact viewRes_state _ _
      · rfl
    · rfl
  | inv k =>
    simp only [step]
    split
    · split
      · exact viewRes_state _ _
      · rfl
    · rfl
  | permute k p0 p1 =>
    simp only [step]
    split
    · split
      · exact viewRes_state _ _
      · rfl
    · rfl
  | range k b e =>
    simp only [step]
    split
    · split
      · exact viewRes_state _ _
      · rfl
    · rfl
  | reshape k r c =>
    simp only [step]
    split
    · split
      · exact viewRes_state _ _
      · rfl
    · rfl
  | link k i =>
    simp only [step] at hf ⊢
    split
    · split
      · split
        · rfl
        · rename_i h1 h2 h3 h4; simp [h1, h2, h3, h4, Res.failed] at hf
      · rfl
    · rfl
  | matmul k i j =>
    simp only [step] at hf ⊢
    cases hk : s.get? k with
    | none => simp
    | some t =>
      cases hi : s.get? i with
      | none => simp
      | some x =>
        cases hj : s.get? j with
        | none => simp
        | some y =>
          simp only [hk, hi, hj] at hf ⊢
          split
          · rename_i hc
            rw [if_pos hc] at hf
            cases hd : matmulDims x y with
            | error e => rfl
            | ok d => simp only [hd] at hf ⊢; exact commit' _ _ hf
          · rfl
  | get k idx =>
    simp only [step]
    split
    · split
      · split <;> rfl
      · rfl
    · rfl
  | clear k =>
    simp only [step] at hf ⊢
    split
    · rename_i h1; simp [h1, Res.failed] at hf
    · rfl
  | _ => exact step2_safe s _ heor hf

/-! ### `resize`: which extent lists are refused -/

/-- a negative extent that no zero extent precedes -/
def NegFirst : List Int → Prop
  | [] => False
  | d :: ds => d < 0 ∨ (0 < d ∧ NegFirst ds)

theorem resizeLoop_neg (dims : List Int) (h : NegFirst dims) : resizeLoop dims = .error .invalid_dimension := by
  induction dims with
  | nil => exact absurd h (by simp [NegFirst])
  | cons d ds ih =>
    simp only [NegFirst] at h
    unfold resizeLoop
    cases h with
    | inl h => simp [h]
    | inr h =>
      have h1 : ¬ d < 0 := by omega
      have h2 : ¬ d = 0 := by omega
      simp only [h1, h2, if_false, ih h.2]

theorem resizeLoop_error (dims : List Int) (e : Err) (h : resizeLoop dims = .error e) :
    e = .invalid_dimension ∧ NegFirst dims := by
  induction dims with
  | nil => simp [resizeLoop] at h
  | cons d ds ih =>
    unfold resizeLoop at h
    simp only [NegFirst]
    by_cases h1 : d < 0
    · simp only [h1, if_true, Except.error.injEq] at h
      exact ⟨h.symm, Or.inl h1⟩
    · by_cases h2 : d = 0
      · simp [h2] at h
      · simp only [h1, h2, if_false] at h
        cases hr : resizeLoop ds with
        | error e' =>
          simp only [hr, Except.error.injEq] at h
          obtain ⟨he, hn⟩ := ih (h ▸ hr)
          exact ⟨he, Or.inr ⟨by omega, hn⟩⟩
        | ok r => cases r <;> simp [hr] at h

/-! ### `<<`: scalar fills in closed form -/

/-- `vs` stored from index `c` on, one element after the other -/
def setRun : List Int → Nat → List Int → List Int
  | vals, _, [] => vals
  | vals, c, v :: vs => setRun (vals.set c v) (c + 1) vs

theorem writeRun_single (vals : List Int) (c : Nat) (v : Int) : writeRun vals c [v] = vals.set c v := by
  simp [writeRun, List.range_succ]

theorem setRun_length (vals : List Int) (c : Nat) (vs : List Int) : (setRun vals c vs).length = vals.length := by
  induction vs generalizing vals c with
  | nil => rfl
  | cons v vs ih => simp [setRun, ih]

theorem setRun_eq (vals : List Int) (c : Nat) (vs : List Int) (h : c + vs.length ≤ vals.length) :
    setRun vals c vs = vals.take c ++ vs ++ vals.drop (c + vs.length) := by
  induction vs generalizing vals c with
  | nil => simp [setRun]
  | cons v vs ih =>
    simp only [List.length_cons] at h
    simp only [setRun]
    rw [ih _ _ (by simp; omega)]
    have hc : c < vals.length := by omega
    rw [List.set_eq_take_append_cons_drop, if_pos hc]
    simp only [List.length_cons]
    have hl : (vals.take c).length = c := by simp [List.length_take]; omega
    have e1 : (vals.take c ++ v :: vals.drop (c + 1)).take (c + 1) = vals.take c ++ [v] := by
      have := List.take_length_add_append (l₁ := vals.take c) (l₂ := v :: vals.drop (c + 1)) 1
      rw [hl] at this
      rw [this]; simp
    have e2 : (vals.take c ++ v :: vals.drop (c + 1)).drop (c + 1 + vs.length) = vals.drop (c + (vs.length + 1)) := by
      have := List.drop_length_add_append (l₁ := vals.take c) (l₂ := v :: vals.drop (c + 1)) (1 + vs.length)
      rw [hl] at this
      have e : c + 1 + vs.length = c + (1 + vs.length) := by omega
      rw [e, this]
      have e' : 1 + vs.length = vs.length + 1 := by omega
      rw [e', List.drop_succ_cons, List.drop_drop]
      congr 1; omega
    rw [e1, e2]
    simp

/-! ### rank-1 allocator -/

theorem writeRunChk_single (vals : List Int) (c : Nat) (v : Int) (h : c < vals.length) :
    writeRunChk vals c [v] = some (vals.set c v) := by
  unfold writeRunChk
  rw [if_pos (by simp only [List.length_cons, List.length_nil]; omega), writeRun_single]

theorem writeRun_length (vals : List Int) (c : Nat) (xs : List Int) : (writeRun vals c xs).length = vals.length := by
  unfold writeRun
  generalize List.range xs.length = l
  induction l generalizing vals with
  | nil => rfl
  | cons t l ih => simp only [List.foldl_cons]; rw [ih]; simp

theorem writeRunChk_length (vals : List Int) (c : Nat) (xs v' : List Int) (h : writeRunChk vals c xs = some v') :
    v'.length = vals.length := by
  unfold writeRunChk at h
  split at h
  · simp only [Option.some.injEq] at h; rw [← h, writeRun_length]
  · simp at h

/-- a failing piece leaves the allocator as it was; unless the store itself faults, the error is `index_out_of_bounds` -/
theorem al1Step_fail (n : Nat) (al : Al1) (p : Piece) (e : Err) (h : (al1Step n al p).2 = some e) :
    (al1Step n al p).1 = al ∧ (e = .index_out_of_bounds ∨ e = .wild) := by
  cases p with
  | s v =>
    by_cases hc : al.c ≥ n
    · simp only [al1Step, Bool.false_eq_true, ↓reduceIte, hc, if_true, Option.some.injEq] at h ⊢
      exact ⟨trivial, Or.inl h.symm⟩
    · cases hw : writeRunChk al.vals al.c [v] with
      | some v' => simp [al1Step, hc, hw] at h
      | none =>
        simp only [al1Step, Bool.false_eq_true, ↓reduceIte, hc, hw, if_false, Option.some.injEq] at h ⊢
        exact ⟨trivial, Or.inr h.symm⟩
  | a x =>
    by_cases h1 : x.isEmpty = true
    · simp [al1Step, h1] at h
    · by_cases h2 : al.c ≥ n
      · simp only [al1Step, Bool.false_eq_true, ↓reduceIte, h1, h2, if_true, Option.some.injEq] at h ⊢
        exact ⟨trivial, Or.inl h.symm⟩
      · by_cases h3 : al.c + x.vals.length > n
        · simp only [al1Step, Bool.false_eq_true, ↓reduceIte, h1, h2, h3, if_true, if_false, Option.some.injEq] at h ⊢
          exact ⟨trivial, Or.inl h.symm⟩
        · cases hw : writeRunChk al.vals al.c x.vals with
          | some v' => simp [al1Step, h1, h2, h3, hw] at h
          | none =>
            simp only [al1Step, Bool.false_eq_true, ↓reduceIte, h1, h2, h3, hw, if_false, Option.some.injEq] at h ⊢
            exact ⟨trivial, Or.inr h.symm⟩

/-- no store of the rank-1 allocator goes outside the target: with `vals.length = n` the fault cannot occur -/
theorem al1Step_no_wild (n : Nat) (al : Al1) (p : Piece) (hl : al.vals.length = n) :
    (al1Step n al p).2 ≠ some .wild ∧ (al1Step n al p).1.vals.length = n := by
  cases p with
  | s v =>
    by_cases hc : al.c ≥ n
    · simp only [al1Step, Bool.false_eq_true, ↓reduceIte, hc, if_true]; exact ⟨by simp, hl⟩
    · have hlt : al.c < al.vals.length := by omega
      simp only [al1Step, Bool.false_eq_true, ↓reduceIte, hc, if_false, writeRunChk_single _ _ _ hlt]
      exact ⟨by simp, by simp [hl]⟩
  | a x =>
    by_cases h1 : x.isEmpty = true
    · simp only [al1Step, Bool.false_eq_true, ↓reduceIte, h1, if_true]; exact ⟨by simp, hl⟩
    · by_cases h2 : al.c ≥ n
      · simp only [al1Step, Bool.false_eq_true, ↓reduceIte, h1, h2, if_true, if_false]; exact ⟨by simp, hl⟩
      · by_cases h3 : al.c + x.vals.length > n
        · simp only [al1Step, Bool.false_eq_true, ↓reduceIte, h1, h2, h3, if_true, if_false]; exact ⟨by simp, hl⟩
        · have hle : al.c + x.vals.length ≤ al.vals.length := by omega
          simp only [al1Step, Bool.false_eq_true, ↓reduceIte, h1, h2, h3, if_false, writeRunChk, if_pos hle]
          exact ⟨by simp, by rw [writeRun_length, hl]⟩

theorem al1Run_scalars (n : Nat) (vs : List Int) (vals : List Int) (c : Nat) (hc : c ≤ n) (hl : vals.length = n) :
    al1Run n ⟨vals, c⟩ (vs.map Piece.s) =
      if c + vs.length ≤ n then (⟨setRun vals c vs, c + vs.length⟩, none)
      else (⟨setRun vals c (vs.take (n - c)), n⟩, some .index_out_of_bounds) := by
  induction vs generalizing vals c with
  | nil => simp [al1Run, setRun, hc]
  | cons v vs ih =>
    simp only [List.map_cons, al1Run, al1Step, List.length_cons]
    by_cases hcn : c ≥ n
    · have : c = n := by omega
      subst this
      simp [setRun]
    · simp only [hcn, if_false]
      rw [writeRunChk_single _ _ _ (by omega)]
      simp only []
      rw [ih _ _ (by omega) (by simp [hl])]
      have e : n - c = (n - (c + 1)) + 1 := by omega
      by_cases hle : c + 1 + vs.length ≤ n
      · have : c + (vs.length + 1) ≤ n := by omega
        simp only [hle, this, if_true, setRun]
        congr 2; omega
      · have : ¬ c + (vs.length + 1) ≤ n := by omega
        simp only [hle, this, if_false]
        rw [e, List.take_succ_cons, setRun]

/-! ### rank-2 allocator -/

theorem al2CompleteRow_err (R : Nat) (al : Al2) (e : Err) (h : al2CompleteRow R al = .error e) : e = .index_out_of_bounds := by
  unfold al2CompleteRow at h
  split at h
  · simp at h
  · simp only [Except.error.injEq] at h; exact h.symm

theorem al2CompleteRow_ok (R : Nat) (al a : Al2) (h : al2CompleteRow R al = .ok a) :
    a = { al with r := al.r + al.obj, c := 0, obj := 0 } ∧ al.r + al.obj < R := by
  unfold al2CompleteRow at h
  split at h
  · rename_i hlt; simp only [Except.ok.injEq] at h; exact ⟨h.symm, hlt⟩
  · simp at h

/-- the only exception the placement tests raise is `index_out_of_bounds` -/
theorem al2Place_err (R C : Nat) (al : Al2) (sh : Shape) (e : Err) (h : al2Place R C al sh = .error e) :
    e = .index_out_of_bounds := by
  unfold al2Place at h
  split at h
  · split at h
    · cases hcr : al2CompleteRow R al with
      | ok a => simp [hcr] at h
      | error e2 => simp only [hcr, Except.error.injEq] at h; subst h; exact al2CompleteRow_err R al _ hcr
    · split at h
      · simp at h
      · split at h
        · simp only [Except.error.injEq] at h; exact h.symm
        · simp at h
  · split at h
    · rename_i e2 hr
      simp only [Except.error.injEq] at h; subst h
      split at hr
      · exact al2CompleteRow_err R al _ hr
      · simp at hr
    · split at h
      · simp only [Except.error.injEq] at h; exact h.symm
      · split at h
        · simp only [Except.error.injEq] at h; exact h.symm
        · split at h
          · simp only [Except.error.injEq] at h; exact h.symm
          · simp at h

theorem withLead_vals (a : Al2) (l : Nat) : (a.withLead l).vals = a.vals := by unfold Al2.withLead; split <;> rfl
theorem withLead_r (a : Al2) (l : Nat) : (a.withLead l).r = a.r := by unfold Al2.withLead; split <;> rfl
theorem withLead_c (a : Al2) (l : Nat) : (a.withLead l).c = a.c := by unfold Al2.withLead; split <;> rfl

/-- what a successful placement guarantees: memory untouched, the row inside the target, and the piece fits -/
theorem al2Place_ok (R C : Nat) (hC : 0 < C) (al a : Al2) (sh : Shape) (hr : al.r < R)
    (hs : sh.scalar = true → sh.q = 1) (h : al2Place R C al sh = .ok a) :
    a.vals = al.vals ∧ a.r < R ∧ a.c + sh.q ≤ C ∧ (sh.mat = true → sh.scalar = false → a.r + sh.p ≤ R) := by
  unfold al2Place at h
  split at h
  · rename_i hsc
    rw [hs hsc]
    split at h
    · cases hcr : al2CompleteRow R al with
      | error e2 => simp [hcr] at h
      | ok a1 =>
        obtain ⟨ha1, hlt⟩ := al2CompleteRow_ok R al a1 hcr
        simp only [hcr, Except.ok.injEq] at h
        subst h; subst ha1
        exact ⟨rfl, hlt, by simp; omega, by intro _ h2; simp [hsc] at h2⟩
    · rename_i hc
      split at h
      · simp only [Except.ok.injEq] at h; subst h
        exact ⟨rfl, hr, by simp; omega, by intro _ h2; simp [hsc] at h2⟩
      · split at h
        · simp at h
        · simp only [Except.ok.injEq] at h; subst h
          exact ⟨rfl, hr, by omega, by intro _ h2; simp [hsc] at h2⟩
  · split at h
    · simp at h
    · rename_i a1 hr1
      have ha1 : a1.vals = al.vals ∧ a1.r < R := by
        split at hr1
        · obtain ⟨e1, hlt⟩ := al2CompleteRow_ok R al a1 hr1
          subst e1; exact ⟨rfl, hlt⟩
        · simp only [Except.ok.injEq] at hr1; subst hr1; exact ⟨rfl, hr⟩
      split at h
      · simp at h
      · split at h
        · simp at h
        · split at h
          · simp at h
          · rename_i hfit1 hfit2
            simp only [Except.ok.injEq] at h
            subst h
            rw [withLead_vals, withLead_r, withLead_c]
            refine ⟨ha1.1, ha1.2, by omega, ?_⟩
            intro hm _
            simp only [hm, true_and] at hfit1
            omega

theorem writeBlockChk_ok (R C q : Nat) (p : Nat) (vals : List Int) (r c : Nat) (xs : List Int)
    (hl : vals.length = R * C) (hr : r + p ≤ R) (hc : c + q ≤ C) :
    ∃ v', writeBlockChk C vals r c q p xs = some v' ∧ v'.length = vals.length := by
  induction p generalizing vals r xs with
  | zero => exact ⟨vals, rfl, rfl⟩
  | succ p ih =>
    unfold writeBlockChk
    have h1 : (r + 1) * C ≤ R * C := Nat.mul_le_mul_right C (by omega)
    have h2 : (r + 1) * C = r * C + C := Nat.succ_mul r C
    have h3 : (xs.take q).length ≤ q := List.length_take_le q xs
    have hle : r * C + c + (xs.take q).length ≤ vals.length := by omega
    simp only [writeRunChk, if_pos hle]
    obtain ⟨v', hv, hlen⟩ := ih (writeRun vals (r * C + c) (xs.take q)) (r + 1) (xs.drop q)
      (by rw [writeRun_length, hl]) (by omega)
    exact ⟨v', hv, by rw [hlen, writeRun_length]⟩

/-- a failing piece leaves the allocator as it was; the exception is `index_out_of_bounds` unless a store faults -/
theorem al2Put_fail (R C : Nat) (al : Al2) (sh : Shape) (xs : List Int) (e : Err) (h : (al2Put R C al sh xs).2 = some e) :
    (al2Put R C al sh xs).1 = al ∧ (e = .index_out_of_bounds ∨ e = .wild) := by
  unfold al2Put at h ⊢
  cases hp : al2Place R C al sh with
  | error e2 =>
    simp only [hp, Option.some.injEq] at h ⊢
    subst h
    exact ⟨trivial, Or.inl (al2Place_err R C al sh _ hp)⟩
  | ok a =>
    simp only [hp] at h ⊢
    cases hw : writeBlockChk C a.vals a.r a.c sh.q sh.p xs with
    | some v' => simp [hw] at h
    | none => simp only [hw, Option.some.injEq] at h ⊢; exact ⟨trivial, Or.inr h.symm⟩

theorem al2Step_fail (R C : Nat) (al : Al2) (pc : Piece) (e : Err) (h : (al2Step R C al pc).2 = some e) :
    (al2Step R C al pc).1 = al ∧ (e = .index_out_of_bounds ∨ e = .wild) := by
  cases pc with
  | s v => exact al2Put_fail R C al _ _ e h
  | a x =>
    simp only [al2Step] at h ⊢
    split
    · rename_i he; simp [he] at h
    · rename_i he; simp only [he] at h; exact al2Put_fail R C al _ _ e h

/-- the shapes `Piece.shape` produces -/
theorem shape_scalar_q (pc : Piece) : pc.shape.scalar = true → pc.shape.q = 1 := by
  cases pc with
  | s v => intro _; rfl
  | a x =>
    simp only [Piece.shape]
    split <;> simp

theorem shape_notmat_p (pc : Piece) : pc.shape.mat = false → pc.shape.p ≤ 1 := by
  cases pc with
  | s v => intro _; simp [Piece.shape]
  | a x =>
    simp only [Piece.shape]
    split <;> simp

/-- no store of the rank-2 allocator goes outside the target (`vals.length = R*C`, current row inside the target):
    the fault cannot occur, and both facts are preserved -/
theorem al2Step_no_wild (R C : Nat) (hC : 0 < C) (al : Al2) (pc : Piece) (hl : al.vals.length = R * C) (hr : al.r < R) :
    (al2Step R C al pc).2 ≠ some .wild ∧ (al2Step R C al pc).1.vals.length = R * C ∧ (al2Step R C al pc).1.r < R := by
  have put : ∀ pc : Piece, (al2Put R C al pc.shape pc.elems).2 ≠ some .wild ∧
      (al2Put R C al pc.shape pc.elems).1.vals.length = R * C ∧ (al2Put R C al pc.shape pc.elems).1.r < R := by
    intro pc
    unfold al2Put
    cases hp : al2Place R C al pc.shape with
    | error e2 =>
      refine ⟨?_, hl, hr⟩
      have := al2Place_err R C al _ _ hp
      subst this; simp
    | ok a =>
      obtain ⟨hv, hra, hfit, hrow⟩ := al2Place_ok R C hC al a pc.shape hr (shape_scalar_q pc) hp
      have hrow' : a.r + pc.shape.p ≤ R := by
        by_cases hm : pc.shape.mat = true
        · by_cases hs : pc.shape.scalar = true
          · cases pc with
            | s v => simp [Piece.shape] at hm
            | a x =>
              simp only [Piece.shape] at hs
              split at hs <;> simp at hs
          · exact hrow hm (by simpa using hs)
        · have := shape_notmat_p pc (by simpa using hm)
          omega
      obtain ⟨v', hw, hlen⟩ := writeBlockChk_ok R C pc.shape.q pc.shape.p a.vals a.r a.c pc.elems (by rw [hv, hl]) hrow' hfit
      simp only [hw]
      exact ⟨by simp, by simp [hlen, hv, hl], hra⟩
  cases pc with
  | s v => exact put (.s v)
  | a x =>
    simp only [al2Step]
    split
    · exact ⟨by simp, hl, hr⟩
    · exact put (.a x)

/-! ### rank-2 allocator: scalar fills in closed form -/

/-- number of elements a row-major scalar fill has placed when the allocator stands at `(r, c)` -/
def pos2 (C : Nat) (al : Al2) : Nat := al.r * C + al.c

structure Inv2 (R C : Nat) (al : Al2) : Prop where
  cle : al.c ≤ C
  rlt : al.r < R
  obj : al.c = 0 ∨ al.obj = 1
  len : al.vals.length = R * C

theorem writeBlockChk_scalar (C : Nat) (vals : List Int) (r c : Nat) (v : Int) (h : r * C + c < vals.length) :
    writeBlockChk C vals r c 1 1 [v] = some (vals.set (r * C + c) v) := by
  simp only [writeBlockChk, List.take_succ_cons, List.take_zero]
  rw [writeRunChk_single _ _ _ h]

theorem al2Step_scalar (R C : Nat) (hC : 0 < C) (al : Al2) (inv : Inv2 R C al) (v : Int) :
    (pos2 C al < R * C → ∃ al', al2Step R C al (.s v) = (al', none) ∧ al'.vals = al.vals.set (pos2 C al) v ∧
        Inv2 R C al' ∧ pos2 C al' = pos2 C al + 1) ∧
    (¬ pos2 C al < R * C → al2Step R C al (.s v) = (al, some .index_out_of_bounds)) := by
  obtain ⟨hcle, hrlt, hobj, hlen⟩ := inv
  have hsm : (al.r + 1) * C = al.r * C + C := Nat.succ_mul al.r C
  have hRC : (al.r + 1) * C ≤ R * C := Nat.mul_le_mul_right C (by omega)
  simp only [al2Step, al2Put, Piece.shape, Piece.elems, al2Place, pos2, if_true]
  by_cases hc : al.c ≥ C
  · have hcC : al.c = C := by omega
    have hob : al.obj = 1 := by cases hobj with
      | inl h => omega
      | inr h => exact h
    simp only [hc, if_true, al2CompleteRow, hob]
    by_cases hr2 : al.r + 1 < R
    · have h2 : (al.r + 1 + 1) * C ≤ R * C := Nat.mul_le_mul_right C (by omega)
      have h3 : (al.r + 1 + 1) * C = (al.r + 1) * C + C := Nat.succ_mul (al.r + 1) C
      constructor
      · intro _
        simp only [hr2, if_true]
        have hlt : (al.r + 1) * C + 0 < al.vals.length := by omega
        rw [writeBlockChk_scalar C al.vals (al.r + 1) 0 v hlt]
        refine ⟨_, rfl, ?_, ⟨by simp; omega, hr2, Or.inr rfl, by simp [hlen]⟩, ?_⟩
        · simp only []; congr 1; omega
        · simp only []; omega
      · intro hn; omega
    · constructor
      · intro hlt
        have : R * C ≤ (al.r + 1) * C := Nat.mul_le_mul_right C (by omega)
        omega
      · intro _
        simp only [hr2, if_false]
  · have hlt : al.r * C + al.c < al.vals.length := by omega
    simp only [hc, if_false]
    constructor
    · intro _
      by_cases hc0 : al.c = 0
      · simp only [hc0, if_true]
        have hlt' : al.r * C + 0 < al.vals.length := by omega
        rw [writeBlockChk_scalar C al.vals al.r 0 v hlt']
        refine ⟨_, rfl, ?_, ⟨by simp; omega, hrlt, Or.inr rfl, by simp [hlen]⟩, ?_⟩ <;> simp
      · have hob : al.obj = 1 := by cases hobj with
          | inl h => exact absurd h hc0
          | inr h => exact h
        simp only [hc0, if_false, hob, ne_eq, not_true_eq_false]
        rw [writeBlockChk_scalar C al.vals al.r al.c v hlt]
        refine ⟨_, rfl, rfl, ⟨by simp; omega, hrlt, Or.inr rfl, by simp [hlen]⟩, ?_⟩
        simp only []; omega
    · intro hn; omega

theorem al2Run_scalars (R C : Nat) (hC : 0 < C) (vs : List Int) (al : Al2) (inv : Inv2 R C al) :
    ((al2Run R C al (vs.map Piece.s)).1.vals, (al2Run R C al (vs.map Piece.s)).2) =
      if pos2 C al + vs.length ≤ R * C then (setRun al.vals (pos2 C al) vs, none)
      else (setRun al.vals (pos2 C al) (vs.take (R * C - pos2 C al)), some .index_out_of_bounds) := by
  induction vs generalizing al with
  | nil =>
    have : pos2 C al ≤ R * C := by
      have h1 : (al.r + 1) * C ≤ R * C := Nat.mul_le_mul_right C (by have := inv.rlt; omega)
      have h2 : (al.r + 1) * C = al.r * C + C := Nat.succ_mul al.r C
      have := inv.cle
      unfold pos2; omega
    simp [al2Run, setRun, this]
  | cons v vs ih =>
    obtain ⟨hok, hfail⟩ := al2Step_scalar R C hC al inv v
    simp only [List.map_cons, al2Run, List.length_cons]
    by_cases hlt : pos2 C al < R * C
    · obtain ⟨al', hstep, hvals, hinv, hpos⟩ := hok hlt
      simp only [hstep]
      rw [ih al' hinv, hvals, hpos]
      have e : R * C - pos2 C al = (R * C - (pos2 C al + 1)) + 1 := by omega
      by_cases hle : pos2 C al + 1 + vs.length ≤ R * C
      · have : pos2 C al + (vs.length + 1) ≤ R * C := by omega
        simp only [hle, this, if_true, setRun]
      · have : ¬ pos2 C al + (vs.length + 1) ≤ R * C := by omega
        simp only [hle, this, if_false]
        rw [e, List.take_succ_cons, setRun]
    · simp only [hfail hlt]
      have : ¬ pos2 C al + (vs.length + 1) ≤ R * C := by omega
      simp only [this, if_false]
      have e : R * C - pos2 C al = 0 := by omega
      simp [e, setRun]

/-! ### whole `<<` chains: the only exception is `index_out_of_bounds`, never a wild store -/

theorem al1Run_err (n : Nat) (ps : List Piece) (al : Al1) (hl : al.vals.length = n) :
    (al1Run n al ps).1.vals.length = n ∧ ∀ e, (al1Run n al ps).2 = some e → e = .index_out_of_bounds := by
  induction ps generalizing al with
  | nil => exact ⟨hl, by intro e h; simp [al1Run] at h⟩
  | cons p ps ih =>
    obtain ⟨hnw, hlen⟩ := al1Step_no_wild n al p hl
    unfold al1Run
    cases hstep : al1Step n al p with
    | mk al' r =>
      rw [hstep] at hnw hlen
      cases r with
      | none => exact ih al' hlen
      | some e' =>
        refine ⟨hlen, ?_⟩
        intro e he
        simp only [Option.some.injEq] at he
        subst he
        have := (al1Step_fail n al p e' (by rw [hstep])).2
        cases this with
        | inl h => exact h
        | inr h => subst h; exact absurd rfl hnw

theorem al2Run_err (R C : Nat) (hC : 0 < C) (ps : List Piece) (al : Al2) (hl : al.vals.length = R * C) (hr : al.r < R) :
    (al2Run R C al ps).1.vals.length = R * C ∧ ∀ e, (al2Run R C al ps).2 = some e → e = .index_out_of_bounds := by
  induction ps generalizing al with
  | nil => exact ⟨hl, by intro e h; simp [al2Run] at h⟩
  | cons p ps ih =>
    obtain ⟨hnw, hlen, hr'⟩ := al2Step_no_wild R C hC al p hl hr
    unfold al2Run
    cases hstep : al2Step R C al p with
    | mk al' r =>
      rw [hstep] at hnw hlen hr'
      cases r with
      | none => exact ih al' hlen hr'
      | some e' =>
        refine ⟨hlen, ?_⟩
        intro e he
        simp only [Option.some.injEq] at he
        subst he
        have := (al2Step_fail R C al p e' (by rw [hstep])).2
        cases this with
        | inl h => exact h
        | inr h => subst h; exact absurd rfl hnw

/-! ### index arithmetic of the reductions along a dimension and of `diag_vector(expression)` -/

/-- a multi-index inside the extents, position by position -/
abbrev Bounded (idx dims : List Nat) : Prop := List.Forall₂ (· < ·) idx dims

theorem prod_foldl (a : Nat) (ds : List Nat) : ds.foldl (· * ·) a = a * ds.foldl (· * ·) 1 := by
  induction ds generalizing a with
  | nil => simp
  | cons d ds ih =>
    simp only [List.foldl_cons]
    rw [ih (a * d), ih (1 * d)]
    simp [Nat.mul_assoc]

theorem prod_cons (d : Nat) (ds : List Nat) : prod (d :: ds) = d * prod ds := by
  unfold prod
  simp only [List.foldl_cons]
  rw [prod_foldl]
  simp

theorem encode_foldl_lt (idx dims : List Nat) (h : Bounded idx dims) (acc : Nat) :
    (List.zip dims idx).foldl (fun acc p => acc * p.1 + p.2) acc < (acc + 1) * prod dims := by
  induction h generalizing acc with
  | nil => simp [prod]
  | @cons i d is ds hid _ ih =>
    simp only [List.zip_cons_cons, List.foldl_cons]
    have h1 := ih (acc * d + i)
    rw [prod_cons]
    have h2 : (acc * d + i + 1) * prod ds ≤ (acc * d + d) * prod ds := Nat.mul_le_mul_right _ (by omega)
    have h3 : (acc * d + d) * prod ds = (acc + 1) * (d * prod ds) := by
      rw [← Nat.mul_assoc, Nat.succ_mul]
    omega

/-- a multi-index inside the extents has its flat index inside the memory of the array -/
theorem encode_lt (idx dims : List Nat) (h : Bounded idx dims) : encode dims idx < prod dims := by
  have := encode_foldl_lt idx dims h 0
  simpa [encode] using this

theorem decode_cons (d : Nat) (ds : List Nat) (t : Nat) :
    ∃ r, decode (d :: ds) t = (r % d) :: decode ds t := by
  unfold decode
  simp only [List.foldr_cons]
  exact ⟨_, rfl⟩

/-- the multi-index of any flat index lies inside (positive) extents -/
theorem decode_bounded (dims : List Nat) (t : Nat) (hpos : ∀ d ∈ dims, 0 < d) : Bounded (decode dims t) dims := by
  induction dims with
  | nil => simp [decode]
  | cons d ds ih =>
    obtain ⟨r, hr⟩ := decode_cons d ds t
    rw [hr]
    exact List.Forall₂.cons (Nat.mod_lt _ (hpos d (by simp))) (ih (fun e he => hpos e (by simp [he])))

/-- inserting an index `q < dims[dim]` at position `dim` into a multi-index inside the other extents -/
theorem insert_bounded (dims : List Nat) (dim : Nat) (oi : List Nat) (q : Nat) (hd : dim < dims.length)
    (hq : q < dims.getD dim 0) (h : Bounded oi (dims.eraseIdx dim)) :
    Bounded (oi.take dim ++ [q] ++ oi.drop dim) dims := by
  induction dims generalizing dim oi with
  | nil => simp at hd
  | cons d ds ih =>
    cases dim with
    | zero =>
      simp only [List.eraseIdx_cons_zero, List.getD_cons_zero] at h hq
      simp only [List.take_zero, List.nil_append, List.drop_zero, List.singleton_append]
      exact List.Forall₂.cons hq h
    | succ n =>
      simp only [List.eraseIdx_cons_succ] at h
      simp only [List.getD_cons_succ] at hq
      cases h with
      | cons ho hos =>
        rename_i o os
        simp only [List.take_succ_cons, List.drop_succ_cons, List.cons_append]
        exact List.Forall₂.cons ho (ih n os (by simpa using hd) hq hos)

/-- every element a reduction along dimension `dim` reads lies inside the operand -/
theorem stripIdx_lt (dims : List Nat) (dim t : Nat) (hd : dim < dims.length) (hpos : ∀ d ∈ dims, 0 < d) :
    ∀ i ∈ stripIdx dims dim t, i < prod dims := by
  intro i hi
  unfold stripIdx at hi
  simp only [List.mem_map, List.mem_range] at hi
  obtain ⟨q, hq, rfl⟩ := hi
  apply encode_lt
  apply insert_bounded dims dim _ q hd hq
  apply decode_bounded
  intro d hdm
  exact hpos d (List.mem_of_mem_eraseIdx hdm)

/-- every element `diag_vector(expression, o)` reads lies inside the `R × C` operand, for every diagonal that exists -/
theorem diagIdx_lt (R C : Nat) (o : Int) (len : Nat) (hlen : (len : Int) ≤ diagLen R C o) :
    ∀ i ∈ diagIdx C o len, i < R * C := by
  intro i hi
  unfold diagIdx at hi
  simp only [List.mem_map, List.mem_range] at hi
  obtain ⟨j, hj, rfl⟩ := hi
  unfold diagLen at hlen
  by_cases ho : o ≥ 0
  · simp only [ho, if_true] at hlen ⊢
    have h1 : j + 1 ≤ R := by omega
    have h2 : j + o.toNat < C := by omega
    have h3 : (j + 1) * C ≤ R * C := Nat.mul_le_mul_right C h1
    have h4 : (j + 1) * C = j * C + C := Nat.succ_mul j C
    omega
  · simp only [ho, if_false] at hlen ⊢
    have h1 : j + (-o).toNat + 1 ≤ R := by omega
    have h2 : j < C := by omega
    have h3 : (j + (-o).toNat + 1) * C ≤ R * C := Nat.mul_le_mul_right C h1
    have h4 : (j + (-o).toNat + 1) * C = (j + (-o).toNat) * C + C := Nat.succ_mul _ C
    omega

end Adept.Misuse
