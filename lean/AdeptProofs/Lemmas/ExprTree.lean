import AdeptProofs.Lemmas.ExprUnary
import AdeptProofs.Lemmas.ExprBinary
/-!
C01 T1–T3 over the tree model `AdeptModel/Expr.lean` instantiated at ℝ:
scratch discipline (`store` / `stored`), linearity of `grad` in the incoming multiplier, and the analytic correctness
of the pushed multipliers along any differentiable curve of inputs.
-/
namespace Adept.Expr
open Adept Real

/-! ### the generated slot functions, in closed form (fails to compile when an offset of the header changes) -/

@[simp] theorem binStoreLeftSlot_eq (sr k nL nl : Nat) : binStoreLeftSlot sr k nL nl = k + nl := by
  unfold binStoreLeftSlot; split <;> rfl
@[simp] theorem binStoreRightSlot_eq (sr k nL nl : Nat) : binStoreRightSlot sr k nL nl = k + nL + nl := by
  unfold binStoreRightSlot; split <;> rfl
@[simp] theorem binLStoreRightSlot_eq (sr k nL nl : Nat) : binLStoreRightSlot sr k nL nl = k + nl := by
  unfold binLStoreRightSlot; split <;> rfl
@[simp] theorem binRStoreLeftSlot_eq (sr k nL nl : Nat) : binRStoreLeftSlot sr k nL nl = k + nl := by
  unfold binRStoreLeftSlot; split <;> rfl
@[simp] theorem leftSlot_eq (op : BOp) (w : Bool) (k nL sr : Nat) : op.leftSlot w k nL sr = k + sr := by
  cases op <;> cases w <;> rfl
@[simp] theorem rightSlot_eq (op : BOp) (w : Bool) (k nL sr : Nat) : op.rightSlot w k nL sr = k + nL + sr := by
  cases op <;> cases w <;> rfl

theorem storeResult_le (op : BOp) : op.storeResult ≤ 2 := by cases op <;> simp [BOp.storeResult]

/-- `operation_store` exists exactly for the policies with `store_result = 2` -/
theorem operationStore_isSome (op : BOp) (x y : ℝ) : (op.operationStore x y).isSome = decide (op.storeResult = 2) := by
  cases op <;> simp [BOp.operationStore, BOp.storeResult]

/-! ### equations of `store` in projection form -/

theorem store_un (f : UFun) (a : Node ℝ) (k : Nat) (s : Scratch ℝ) :
    (Node.un f a).store k s = (f.fn (a.store (k + 1) s).1, upd (a.store (k + 1) s).2 k (f.fn (a.store (k + 1) s).1)) := rfl

theorem store_bin (op : BOp) (l r : Node ℝ) (k : Nat) (s : Scratch ℝ) :
    (Node.bin op l r).store k s =
      Node.storeOp op false (Node.nLocal op (l.isActive || r.isActive)) binUsesOperationStore
        (l.store (k + Node.nLocal op (l.isActive || r.isActive)) s).1
        (r.store (k + l.nScratch + Node.nLocal op (l.isActive || r.isActive))
          (l.store (k + Node.nLocal op (l.isActive || r.isActive)) s).2).1 k
        (r.store (k + l.nScratch + Node.nLocal op (l.isActive || r.isActive))
          (l.store (k + Node.nLocal op (l.isActive || r.isActive)) s).2).2 := by
  simp [Node.store]

theorem store_binL (op : BOp) (mixed : Bool) (c : ℝ) (r : Node ℝ) (k : Nat) (s : Scratch ℝ) :
    (Node.binL op mixed c r).store k s =
      Node.storeOp op mixed (Node.nLocal op r.isActive) binLUsesOperationStore c
        (r.store (k + Node.nLocal op r.isActive) s).1 k (r.store (k + Node.nLocal op r.isActive) s).2 := by
  simp [Node.store]

theorem store_binR (op : BOp) (mixed : Bool) (l : Node ℝ) (c : ℝ) (k : Nat) (s : Scratch ℝ) :
    (Node.binR op mixed l c).store k s =
      Node.storeOp op mixed (Node.nLocal op l.isActive) binRUsesOperationStore
        (l.store (k + Node.nLocal op l.isActive) s).1 c k (l.store (k + Node.nLocal op l.isActive) s).2 := by
  simp [Node.store]

/-! ### `storeOp` -/

theorem upd_same (s : Scratch ℝ) (i : Nat) (v : ℝ) : upd s i v i = v := by simp [upd]
theorem upd_other (s : Scratch ℝ) (i j : Nat) (v : ℝ) (h : j ≠ i) : upd s i v j = s j := by simp [upd, h]

theorem operation_any (op : BOp) (mixed : Bool) (x y : ℝ) : op.operation mixed x y = op.operation false x y := by
  cases mixed
  · rfl
  · exact operation_mixed op x y

theorem storeOp_fst (op : BOp) (mixed : Bool) (nl : Nat) (uses : Bool) (x y : ℝ) (k : Nat) (s : Scratch ℝ) :
    (Node.storeOp op mixed nl uses x y k s).1 = op.operation false x y := by
  unfold Node.storeOp
  rcases nl with _ | _ | nl
  · simp [operation_any]
  · simp [operation_any]
  · cases uses
    · simp [operation_any]
    · have := res_eq_operation op x y
      unfold BOp.res at this
      cases h : op.operationStore x y with
      | none => simp [operation_any]
      | some p => obtain ⟨a, z⟩ := p; simp [h] at this ⊢; exact this

theorem storeOp_frame (op : BOp) (mixed : Bool) (nl : Nat) (uses : Bool) (x y : ℝ) (k : Nat) (s : Scratch ℝ) (j : Nat)
    (hj : j < k ∨ k + nl ≤ j) : (Node.storeOp op mixed nl uses x y k s).2 j = s j := by
  unfold Node.storeOp
  rcases nl with _ | _ | nl
  · simp
  · simp only []; exact upd_other _ _ _ _ (by omega)
  · cases uses
    · simp only []; exact upd_other _ _ _ _ (by omega)
    · cases h : op.operationStore x y with
      | none => simp only []; exact upd_other _ _ _ _ (by omega)
      | some p =>
        obtain ⟨a, z⟩ := p
        simp only []
        rw [upd_other _ _ _ _ (by omega), upd_other _ _ _ _ (by omega)]

theorem storeOp_res (op : BOp) (mixed : Bool) (nl : Nat) (uses : Bool) (x y : ℝ) (k : Nat) (s : Scratch ℝ)
    (hnl : 0 < nl) : (Node.storeOp op mixed nl uses x y k s).2 k = op.operation false x y := by
  have hv := storeOp_fst op mixed nl uses x y k s
  unfold Node.storeOp at hv ⊢
  rcases nl with _ | _ | nl
  · omega
  · simp only [] at hv ⊢; rw [upd_same]; exact hv
  · cases uses
    · simp only [] at hv ⊢; rw [upd_same]; exact hv
    · cases h : op.operationStore x y with
      | none => simp only [h] at hv ⊢; rw [upd_same]; exact hv
      | some p => obtain ⟨a, z⟩ := p; simp only [h] at hv ⊢; rw [upd_same]; exact hv

theorem storeOp_aux (op : BOp) (mixed : Bool) (nl : Nat) (x y : ℝ) (k : Nat) (s : Scratch ℝ)
    (hnl : 2 ≤ nl) (hsr : op.storeResult = 2) :
    (Node.storeOp op mixed nl true x y k s).2 (k + 1) = op.auxv x y := by
  unfold Node.storeOp BOp.auxv
  rcases nl with _ | _ | nl
  · omega
  · omega
  · have hs := operationStore_isSome op x y
    cases h : op.operationStore x y with
    | none => simp [h, hsr] at hs
    | some p =>
      obtain ⟨a, z⟩ := p
      simp only []
      rw [upd_other _ _ _ _ (by omega), upd_same]

/-! ### T1: scratch discipline -/

/-- frame: `value_at_location_store_<·,k>` writes only slots in `[k, k + n_scratch)` -/
theorem store_frame (n : Node ℝ) : ∀ (k : Nat) (s : Scratch ℝ) (j : Nat),
    (j < k ∨ k + n.nScratch ≤ j) → (n.store k s).2 j = s j := by
  induction n with
  | active i v => intro k s j _; rfl
  | passive v => intro k s j _; rfl
  | un f a ih =>
    intro k s j hj
    rw [store_un]
    simp only [Node.nScratch] at hj
    dsimp only
    rw [upd_other _ _ _ _ (by omega)]
    exact ih (k + 1) s j (by omega)
  | bin op l r ihl ihr =>
    intro k s j hj
    rw [store_bin]
    simp only [Node.nScratch] at hj
    rw [storeOp_frame _ _ _ _ _ _ _ _ _ (by omega)]
    rw [ihr _ _ j (by omega)]
    exact ihl _ _ j (by omega)
  | binL op mixed c r ih =>
    intro k s j hj
    rw [store_binL]
    simp only [Node.nScratch] at hj
    rw [storeOp_frame _ _ _ _ _ _ _ _ _ (by omega)]
    exact ih _ _ j (by omega)
  | binR op mixed l c ih =>
    intro k s j hj
    rw [store_binR]
    simp only [Node.nScratch] at hj
    rw [storeOp_frame _ _ _ _ _ _ _ _ _ (by omega)]
    exact ih _ _ j (by omega)
  | noalias a ih =>
    intro k s j hj
    simp only [Node.nScratch] at hj
    exact ih k s j hj

/-- T6 at node level: the value the store path returns is the plain evaluation (over ℝ: `a * (1/b) = a / b`) -/
theorem store_fst (n : Node ℝ) : ∀ (k : Nat) (s : Scratch ℝ), (n.store k s).1 = n.eval := by
  induction n with
  | active i v => intro k s; rfl
  | passive v => intro k s; rfl
  | un f a ih => intro k s; rw [store_un]; simp only [Node.eval]; rw [ih]
  | bin op l r ihl ihr => intro k s; rw [store_bin, storeOp_fst, ihl, ihr]; rfl
  | binL op mixed c r ih => intro k s; rw [store_binL, storeOp_fst, ih]; exact (operation_any op mixed _ _).symm
  | binR op mixed l c ih => intro k s; rw [store_binR, storeOp_fst, ih]; exact (operation_any op mixed _ _).symm
  | noalias a ih => intro k s; exact ih k s

/-- the scratch holds the stored values of `n` at slot `k` -/
def ScrOK : Node ℝ → Nat → Scratch ℝ → Prop
  | .active _ _, _, _ => True
  | .passive _, _, _ => True
  | .un f a, k, s => s k = f.fn a.eval ∧ ScrOK a (k + 1) s
  | .bin op l r, k, s =>
    (0 < Node.nLocal op (l.isActive || r.isActive) → s k = op.operation false l.eval r.eval) ∧
    (2 ≤ Node.nLocal op (l.isActive || r.isActive) → s (k + 1) = op.auxv l.eval r.eval) ∧
    ScrOK l (k + Node.nLocal op (l.isActive || r.isActive)) s ∧
    ScrOK r (k + l.nScratch + Node.nLocal op (l.isActive || r.isActive)) s
  | .binL op _ c r, k, s =>
    (0 < Node.nLocal op r.isActive → s k = op.operation false c r.eval) ∧
    (2 ≤ Node.nLocal op r.isActive → s (k + 1) = op.auxv c r.eval) ∧
    ScrOK r (k + Node.nLocal op r.isActive) s
  | .binR op _ l c, k, s =>
    (0 < Node.nLocal op l.isActive → s k = op.operation false l.eval c) ∧
    ScrOK l (k + Node.nLocal op l.isActive) s
  | .noalias a, k, s => ScrOK a k s

/-- `ScrOK n k` looks only at the slots `[k, k + n_scratch)` -/
theorem ScrOK_congr (n : Node ℝ) : ∀ (k : Nat) (s s' : Scratch ℝ),
    (∀ j, k ≤ j → j < k + n.nScratch → s' j = s j) → ScrOK n k s → ScrOK n k s' := by
  induction n with
  | active i v => intro k s s' _ _; trivial
  | passive v => intro k s s' _ _; trivial
  | un f a ih =>
    intro k s s' h hs
    simp only [Node.nScratch] at h
    exact ⟨by rw [h k (by omega) (by omega)]; exact hs.1, ih (k + 1) s s' (fun j h1 h2 => h j (by omega) (by omega)) hs.2⟩
  | bin op l r ihl ihr =>
    intro k s s' h hs
    simp only [Node.nScratch] at h
    obtain ⟨h1, h2, h3, h4⟩ := hs
    refine ⟨fun hp => ?_, fun hp => ?_, ihl _ s s' (fun j a b => h j (by omega) (by omega)) h3,
      ihr _ s s' (fun j a b => h j (by omega) (by omega)) h4⟩
    · rw [h k (by omega) (by omega)]; exact h1 hp
    · rw [h (k + 1) (by omega) (by omega)]; exact h2 hp
  | binL op mixed c r ih =>
    intro k s s' h hs
    simp only [Node.nScratch] at h
    obtain ⟨h1, h2, h3⟩ := hs
    refine ⟨fun hp => ?_, fun hp => ?_, ih _ s s' (fun j a b => h j (by omega) (by omega)) h3⟩
    · rw [h k (by omega) (by omega)]; exact h1 hp
    · rw [h (k + 1) (by omega) (by omega)]; exact h2 hp
  | binR op mixed l c ih =>
    intro k s s' h hs
    simp only [Node.nScratch] at h
    obtain ⟨h1, h3⟩ := hs
    refine ⟨fun hp => ?_, ih _ s s' (fun j a b => h j (by omega) (by omega)) h3⟩
    rw [h k (by omega) (by omega)]; exact h1 hp
  | noalias a ih =>
    intro k s s' h hs
    exact ih k s s' h hs

theorem nLocal_le (op : BOp) (b : Bool) : Node.nLocal op b ≤ 2 := by
  unfold Node.nLocal nLocalScratch; split
  · exact storeResult_le op
  · omega

theorem nLocal_two (op : BOp) (b : Bool) (h : 2 ≤ Node.nLocal op b) : op.storeResult = 2 := by
  unfold Node.nLocal nLocalScratch at h
  have := storeResult_le op
  split at h <;> omega

/-- after `value_at_location_store_<·,k>` the scratch holds the stored values of the whole tree -/
theorem store_ScrOK (n : Node ℝ) : ∀ (k : Nat) (s : Scratch ℝ), ScrOK n k (n.store k s).2 := by
  induction n with
  | active i v => intro k s; trivial
  | passive v => intro k s; trivial
  | un f a ih =>
    intro k s
    rw [store_un]
    refine ⟨by dsimp only; rw [upd_same, store_fst], ?_⟩
    exact ScrOK_congr a (k + 1) _ _ (fun j h1 _ => upd_other _ _ _ _ (by omega)) (ih (k + 1) s)
  | bin op l r ihl ihr =>
    intro k s
    rw [store_bin]
    set nl := Node.nLocal op (l.isActive || r.isActive) with hnl
    set s1 := (l.store (k + nl) s).2 with hs1
    set s2 := (r.store (k + l.nScratch + nl) s1).2 with hs2
    have hx : (l.store (k + nl) s).1 = l.eval := store_fst l _ _
    have hy : (r.store (k + l.nScratch + nl) s1).1 = r.eval := store_fst r _ _
    rw [hx, hy]
    refine ⟨fun hp => storeOp_res _ _ _ _ _ _ _ _ hp, fun hp => ?_, ?_, ?_⟩
    · have : binUsesOperationStore = true := rfl
      rw [this]; exact storeOp_aux _ _ _ _ _ _ _ hp (nLocal_two _ _ hp)
    · refine ScrOK_congr l (k + nl) s1 _ (fun j h1 h2 => ?_) (ihl (k + nl) s)
      rw [storeOp_frame _ _ _ _ _ _ _ _ _ (by omega)]
      exact store_frame r _ _ j (by omega)
    · refine ScrOK_congr r (k + l.nScratch + nl) s2 _ (fun j h1 h2 => ?_) (ihr _ s1)
      exact storeOp_frame _ _ _ _ _ _ _ _ _ (by omega)
  | binL op mixed c r ih =>
    intro k s
    rw [store_binL]
    set nl := Node.nLocal op r.isActive with hnl
    have hy : (r.store (k + nl) s).1 = r.eval := store_fst r _ _
    rw [hy]
    refine ⟨fun hp => storeOp_res _ _ _ _ _ _ _ _ hp, fun hp => ?_, ?_⟩
    · have : binLUsesOperationStore = true := rfl
      rw [this]; exact storeOp_aux _ _ _ _ _ _ _ hp (nLocal_two _ _ hp)
    · refine ScrOK_congr r (k + nl) _ _ (fun j h1 h2 => ?_) (ih (k + nl) s)
      exact storeOp_frame _ _ _ _ _ _ _ _ _ (by omega)
  | binR op mixed l c ih =>
    intro k s
    rw [store_binR]
    set nl := Node.nLocal op l.isActive with hnl
    have hx : (l.store (k + nl) s).1 = l.eval := store_fst l _ _
    rw [hx]
    refine ⟨fun hp => storeOp_res _ _ _ _ _ _ _ _ hp, ?_⟩
    refine ScrOK_congr l (k + nl) _ _ (fun j h1 h2 => ?_) (ih (k + nl) s)
    exact storeOp_frame _ _ _ _ _ _ _ _ _ (by omega)
  | noalias a ih => intro k s; exact ih k s

/-- `value_stored_<·,k>` returns the value of the node when the scratch is in order -/
theorem stored_of_ScrOK (n : Node ℝ) : ∀ (k : Nat) (s : Scratch ℝ), ScrOK n k s → n.stored k s = n.eval := by
  induction n with
  | active i v => intro k s _; rfl
  | passive v => intro k s _; rfl
  | un f a _ => intro k s h; exact h.1
  | bin op l r _ _ =>
    intro k s h
    simp only [Node.stored, Node.eval]
    split_ifs with hp
    · exact h.1 hp
    · rfl
  | binL op mixed c r _ =>
    intro k s h
    simp only [Node.stored, Node.eval]
    split_ifs with hp
    · rw [h.1 hp]; exact (operation_any op mixed _ _).symm
    · rfl
  | binR op mixed l c _ =>
    intro k s h
    simp only [Node.stored, Node.eval]
    split_ifs with hp
    · rw [h.1 hp]; exact (operation_any op mixed _ _).symm
    · rfl
  | noalias a ih => intro k s h; exact ih k s h

/-- **T1**: `stored n k (store n k scr).2 = eval n` -/
theorem store_stored (n : Node ℝ) (k : Nat) (s : Scratch ℝ) : n.stored k (n.store k s).2 = n.eval :=
  stored_of_ScrOK n k _ (store_ScrOK n k s)

/-! ### T2: linearity of `grad` in the incoming multiplier -/

/-- the right-hand side of a derivative statement evaluated at a tangent vector: `Σ m · g[i]` -/
def dotOps (ops : List (ℝ × Nat)) (g : Nat → ℝ) : ℝ := (ops.map (fun p => p.1 * g p.2)).sum

@[simp] theorem dotOps_nil (g : Nat → ℝ) : dotOps [] g = 0 := rfl
@[simp] theorem dotOps_append (a b : List (ℝ × Nat)) (g : Nat → ℝ) : dotOps (a ++ b) g = dotOps a g + dotOps b g := by
  simp [dotOps]
@[simp] theorem dotOps_single (m : ℝ) (i : Nat) (g : Nat → ℝ) : dotOps [(m, i)] g = m * g i := by simp [dotOps]

@[simp] theorem one_real : (Node.one : ℝ) = 1 := by simp [Node.one]

/-- table level: the with-multiplier overloads are `m ×` the overloads without, under the same guard -/
theorem mul_linear (op : BOp) (m L R RES AUX : ℝ) :
    (op.leftMul (some m) L R RES AUX).getD 1 = m * (op.leftMul none L R RES AUX).getD 1 ∧
    (op.rightMul (some m) L R RES AUX).getD 1 = m * (op.rightMul none L R RES AUX).getD 1 := by
  cases op <;> constructor <;> simp [BOp.leftMul, BOp.rightMul] <;> ring

theorem guard_same (op : BOp) (L R : ℝ) :
    op.leftGuard true L R = op.leftGuard false L R ∧ op.rightGuard true L R = op.rightGuard false L R := by
  cases op <;> simp [BOp.leftGuard, BOp.rightGuard]

/-- **T2**: `calc_gradient_` with an incoming multiplier pushes `m ×` what the overload without pushes
    (any scratch content, any slot) -/
theorem grad_linear (n : Node ℝ) : ∀ (k : Nat) (s : Scratch ℝ) (mo : Option ℝ) (g : Nat → ℝ),
    dotOps (n.grad k s mo) g = mo.getD 1 * dotOps (n.grad k s none) g := by
  induction n with
  | active i v => intro k s mo g; cases mo <;> simp [Node.grad]
  | passive v => intro k s mo g; simp [Node.grad]
  | un f a ih =>
    intro k s mo g
    cases mo with
    | none => simp
    | some w =>
      simp only [Node.grad, Option.getD_some]
      rw [ih (k + 1) s (some _) g, ih (k + 1) s (some _) g]
      simp only [Option.getD_some]; ring
  | bin op l r ihl ihr =>
    intro k s mo g
    cases mo with
    | none => simp
    | some w =>
      obtain ⟨hgl, hgr⟩ := guard_same op (l.stored (k + op.storeResult) s) (r.stored (k + l.nScratch + op.storeResult) s)
      obtain ⟨hml, hmr⟩ := mul_linear op w (l.stored (k + op.storeResult) s) (r.stored (k + l.nScratch + op.storeResult) s)
        (s k) (s (k + 1))
      simp only [Node.grad, Option.isSome_some, Option.isSome_none, Option.getD_some, dotOps_append, leftSlot_eq, rightSlot_eq,
        hgl, hgr]
      rw [mul_add]
      congr 1
      · split_ifs
        · rw [ihl _ s (op.leftMul (some w) _ _ _ _) g, ihl _ s (op.leftMul none _ _ _ _) g, hml]; ring
        · simp
      · split_ifs
        · rw [ihr _ s (op.rightMul (some w) _ _ _ _) g, ihr _ s (op.rightMul none _ _ _ _) g, hmr]; ring
        · simp
  | binL op mixed c r ih =>
    intro k s mo g
    cases mo with
    | none => simp
    | some w =>
      obtain ⟨_, hgr⟩ := guard_same op c (r.stored (k + 0 + op.storeResult) s)
      obtain ⟨_, hmr⟩ := mul_linear op w c (r.stored (k + 0 + op.storeResult) s) (s k) (s (k + 1))
      simp only [Node.grad, Option.isSome_some, Option.isSome_none, Option.getD_some, rightSlot_eq, hgr]
      split_ifs
      · rw [ih _ s (op.rightMul (some w) _ _ _ _) g, ih _ s (op.rightMul none _ _ _ _) g, hmr]; ring
      · simp
  | binR op mixed l c ih =>
    intro k s mo g
    cases mo with
    | none => simp
    | some w =>
      obtain ⟨hgl, _⟩ := guard_same op (l.stored (k + op.storeResult) s) c
      obtain ⟨hml, _⟩ := mul_linear op w (l.stored (k + op.storeResult) s) c (s k) (s (k + 1))
      simp only [Node.grad, Option.isSome_some, Option.isSome_none, Option.getD_some, leftSlot_eq, hgl]
      split_ifs
      · rw [ih _ s (op.leftMul (some w) _ _ _ _) g, ih _ s (op.leftMul none _ _ _ _) g, hml]; ring
      · simp
  | noalias a ih => intro k s mo g; exact ih k s mo g

/-! ### T3: the pushed multipliers are the derivative along any curve of inputs -/

/-- the same tree with every active leaf reading its value from `env` (leaf `i` holds `env i`) -/
def Node.rebind (env : Nat → ℝ) : Node ℝ → Node ℝ
  | .active i _ => .active i (env i)
  | .passive v => .passive v
  | .un f a => .un f (a.rebind env)
  | .bin op l r => .bin op (l.rebind env) (r.rebind env)
  | .binL op mixed c r => .binL op mixed c (r.rebind env)
  | .binR op mixed l c => .binR op mixed (l.rebind env) c
  | .noalias a => .noalias (a.rebind env)

@[simp] theorem rebind_isActive (env : Nat → ℝ) (n : Node ℝ) : (n.rebind env).isActive = n.isActive := by
  induction n <;> simp [Node.rebind, Node.isActive, *]
@[simp] theorem rebind_nScratch (env : Nat → ℝ) (n : Node ℝ) : (n.rebind env).nScratch = n.nScratch := by
  induction n <;> simp [Node.rebind, Node.nScratch, *]

theorem rebind_inactive (env : Nat → ℝ) (n : Node ℝ) (h : n.isActive = false) : n.rebind env = n := by
  induction n with
  | active i v => simp [Node.isActive] at h
  | passive v => rfl
  | un f a ih => simp only [Node.isActive] at h; simp [Node.rebind, ih h]
  | bin op l r ihl ihr =>
    simp only [Node.isActive, Bool.or_eq_false_iff] at h
    simp [Node.rebind, ihl h.1, ihr h.2]
  | binL op mixed c r ih => simp only [Node.isActive] at h; simp [Node.rebind, ih h]
  | binR op mixed l c ih => simp only [Node.isActive] at h; simp [Node.rebind, ih h]
  | noalias a ih => simp only [Node.isActive] at h; simp [Node.rebind, ih h]

theorem grad_inactive (n : Node ℝ) (h : n.isActive = false) : ∀ (k : Nat) (s : Scratch ℝ) (mo : Option ℝ), n.grad k s mo = [] := by
  induction n with
  | active i v => simp [Node.isActive] at h
  | passive v => intro k s mo; rfl
  | un f a ih => intro k s mo; simp only [Node.isActive] at h; simp only [Node.grad]; exact ih h _ _ _
  | bin op l r ihl ihr =>
    intro k s mo
    simp only [Node.isActive, Bool.or_eq_false_iff] at h
    simp [Node.grad, h.1, h.2]
  | binL op mixed c r ih => intro k s mo; simp only [Node.isActive] at h; simp [Node.grad, h]
  | binR op mixed l c ih => intro k s mo; simp only [Node.isActive] at h; simp [Node.grad, h]
  | noalias a ih => intro k s mo; simp only [Node.isActive] at h; simp only [Node.grad]; exact ih h _ _ _

/-- every function application of the tree is inside its open domain -/
def Node.dom : Node ℝ → Prop
  | .active _ _ => True
  | .passive _ => True
  | .un f a => a.dom ∧ f.dom a.eval
  | .bin op l r => l.dom ∧ r.dom ∧ op.dom l.eval r.eval
  | .binL op _ c r => r.dom ∧ op.dom c r.eval
  | .binR op _ l c =>
    -- `pow(x, n)` with a passive integer exponent is also differentiable (and defined in C) at negative `x`
    l.dom ∧ (op.dom l.eval c ∨ (op = .Pow ∧ l.eval ≠ 0 ∧ ∃ n : ℤ, c = n))
  | .noalias a => a.dom

/-- the multiplier formulas read `RES` only when the policy stores a result and `AUX` only when it stores two -/
theorem mul_indep (op : BOp) (mo : Option ℝ) (L R RES RES' AUX AUX' : ℝ)
    (h1 : 0 < op.storeResult → RES = RES') (h2 : 2 ≤ op.storeResult → AUX = AUX') :
    op.leftMul mo L R RES AUX = op.leftMul mo L R RES' AUX' ∧ op.rightMul mo L R RES AUX = op.rightMul mo L R RES' AUX' := by
  cases op <;> cases mo <;> simp [BOp.storeResult] at h1 h2 <;> simp [BOp.leftMul, BOp.rightMul, *]

theorem nLocal_active (op : BOp) : Node.nLocal op true = op.storeResult := by simp [Node.nLocal, nLocalScratch]

theorem side_sum (n : Node ℝ) (slot : Nat) (s : Scratch ℝ) (mo : Option ℝ) (g : Bool) (γ' : Nat → ℝ) :
    dotOps (if (n.isActive && g) = true then n.grad slot s mo else []) γ' =
      (if g = true then mo.getD 1 else 0) * dotOps (n.grad slot s none) γ' := by
  cases ha : n.isActive
  · simp [grad_inactive n ha]
  · cases g
    · simp
    · simp [grad_linear n slot s mo γ']

/-- **T3**: along any curve of inputs differentiable at `t₀`, the value of the tree has the derivative
    `Σ_{(m,i) ∈ grad} m · γ'ᵢ`, where `grad` is what `calc_gradient_` pushes from a scratch in order -/
theorem grad_hasDerivAt (γ : ℝ → Nat → ℝ) (γ' : Nat → ℝ) (t₀ : ℝ)
    (hγ : ∀ i, HasDerivAt (fun t => γ t i) (γ' i) t₀) (n : Node ℝ) :
    ∀ (k : Nat) (s : Scratch ℝ), (n.rebind (γ t₀)).wf = true → (n.rebind (γ t₀)).dom → ScrOK (n.rebind (γ t₀)) k s →
      HasDerivAt (fun t => (n.rebind (γ t)).eval) (dotOps ((n.rebind (γ t₀)).grad k s none) γ') t₀ := by
  induction n with
  | active i v => intro k s _ _ _; simpa [Node.rebind, Node.eval, Node.grad] using hγ i
  | passive v => intro k s _ _ _; simpa [Node.rebind, Node.eval, Node.grad] using hasDerivAt_const t₀ v
  | un f a ih =>
    intro k s hwf hdom hscr
    simp only [Node.rebind, Node.wf, Node.dom] at hwf hdom
    have hscr' : s k = f.fn (a.rebind (γ t₀)).eval ∧ ScrOK (a.rebind (γ t₀)) (k + 1) s := hscr
    have ha := ih (k + 1) s hwf hdom.1 hscr'.2
    have hf := unary_table_sound f _ hdom.2
    have hc : HasDerivAt (fun t => f.fn ((a.rebind (γ t)).eval)) _ t₀ := hf.comp t₀ ha
    simp only [Node.rebind, Node.eval, Node.grad]
    rw [grad_linear, stored_of_ScrOK _ _ _ hscr'.2, hscr'.1]
    exact hc.congr_deriv (by simp)
  | bin op l r ihl ihr =>
    intro k s hwf hdom hscr
    simp only [Node.rebind, Node.wf, Bool.and_eq_true, Node.dom] at hwf hdom
    by_cases hact : (l.isActive || r.isActive) = true
    · have hscr' : (0 < Node.nLocal op ((l.rebind (γ t₀)).isActive || (r.rebind (γ t₀)).isActive) →
            s k = op.operation false (l.rebind (γ t₀)).eval (r.rebind (γ t₀)).eval) ∧
          (2 ≤ Node.nLocal op ((l.rebind (γ t₀)).isActive || (r.rebind (γ t₀)).isActive) →
            s (k + 1) = op.auxv (l.rebind (γ t₀)).eval (r.rebind (γ t₀)).eval) ∧
          ScrOK (l.rebind (γ t₀)) (k + Node.nLocal op ((l.rebind (γ t₀)).isActive || (r.rebind (γ t₀)).isActive)) s ∧
          ScrOK (r.rebind (γ t₀)) (k + (l.rebind (γ t₀)).nScratch +
            Node.nLocal op ((l.rebind (γ t₀)).isActive || (r.rebind (γ t₀)).isActive)) s := hscr
      simp only [rebind_isActive, rebind_nScratch, hact, nLocal_active] at hscr'
      obtain ⟨h1, h2, h3, h4⟩ := hscr'
      have hl := ihl (k + op.storeResult) s hwf.1 hdom.1 h3
      have hr := ihr (k + l.nScratch + op.storeResult) s hwf.2 hdom.2.1 h4
      have hc := bin_chain op hl hr hdom.2.2
      simp only [Node.rebind, Node.eval, Node.grad, dotOps_append, leftSlot_eq, rightSlot_eq, Option.isSome_none,
        rebind_nScratch]
      rw [stored_of_ScrOK _ _ s h3, stored_of_ScrOK _ _ s h4]
      obtain ⟨e1, e2⟩ := mul_indep op none (l.rebind (γ t₀)).eval (r.rebind (γ t₀)).eval (s k)
        (op.res (l.rebind (γ t₀)).eval (r.rebind (γ t₀)).eval) (s (k + 1))
        (op.auxv (l.rebind (γ t₀)).eval (r.rebind (γ t₀)).eval)
        (fun hp => by rw [h1 hp, res_eq_operation]) (fun hp => h2 hp)
      rw [e1, e2, side_sum, side_sum]
      exact hc.congr_deriv (by simp only [BOp.dL, BOp.dR])
    · have hact' : (l.isActive || r.isActive) = false := by simpa using hact
      have hl : l.isActive = false := by cases h : l.isActive <;> simp_all
      have hr : r.isActive = false := by cases h : r.isActive <;> simp_all
      have hconst : (fun t => ((Node.bin op l r).rebind (γ t)).eval) = fun _ => (Node.bin op l r).eval := by
        funext t; rw [rebind_inactive _ _ (by simp [Node.isActive, hl, hr])]
      rw [hconst, grad_inactive _ (by simp [Node.isActive, hl, hr])]
      simpa using hasDerivAt_const t₀ _
  | binL op mixed c r ih =>
    intro k s hwf hdom hscr
    simp only [Node.rebind, Node.wf, Node.dom] at hwf hdom
    by_cases hact : r.isActive = true
    · have hscr' : (0 < Node.nLocal op (r.rebind (γ t₀)).isActive → s k = op.operation false c (r.rebind (γ t₀)).eval) ∧
          (2 ≤ Node.nLocal op (r.rebind (γ t₀)).isActive → s (k + 1) = op.auxv c (r.rebind (γ t₀)).eval) ∧
          ScrOK (r.rebind (γ t₀)) (k + Node.nLocal op (r.rebind (γ t₀)).isActive) s := hscr
      simp only [rebind_isActive, hact, nLocal_active] at hscr'
      obtain ⟨h1, h2, h4⟩ := hscr'
      have hr := ih (k + op.storeResult) s hwf hdom.1 h4
      have hc := bin_chain op (hasDerivAt_const t₀ c) hr hdom.2
      simp only [Node.rebind, Node.eval, Node.grad, rightSlot_eq, Option.isSome_none, Nat.add_zero]
      rw [stored_of_ScrOK _ _ s h4]
      obtain ⟨_, e2⟩ := mul_indep op none c (r.rebind (γ t₀)).eval (s k)
        (op.res c (r.rebind (γ t₀)).eval) (s (k + 1)) (op.auxv c (r.rebind (γ t₀)).eval)
        (fun hp => by rw [h1 hp, res_eq_operation]) (fun hp => h2 hp)
      rw [e2, side_sum]
      simp only [operation_any op mixed]
      exact hc.congr_deriv (by simp only [BOp.dR]; ring)
    · have hr : r.isActive = false := by simpa using hact
      have hconst : (fun t => ((Node.binL op mixed c r).rebind (γ t)).eval) = fun _ => (Node.binL op mixed c r).eval := by
        funext t; rw [rebind_inactive _ _ (by simp [Node.isActive, hr])]
      rw [hconst, grad_inactive _ (by simp [Node.isActive, hr])]
      simpa using hasDerivAt_const t₀ _
  | binR op mixed l c ih =>
    intro k s hwf hdom hscr
    simp only [Node.rebind, Node.wf, Node.dom, Bool.and_eq_true] at hwf hdom
    by_cases hact : l.isActive = true
    · have hsr : op.storeResult < 2 := by
        have := hwf.2
        simp only [rebind_isActive, hact, Bool.true_and, Bool.not_eq_true', decide_eq_false_iff_not, ge_iff_le, not_le] at this
        exact this
      have hscr' : (0 < Node.nLocal op (l.rebind (γ t₀)).isActive → s k = op.operation false (l.rebind (γ t₀)).eval c) ∧
          ScrOK (l.rebind (γ t₀)) (k + Node.nLocal op (l.rebind (γ t₀)).isActive) s := hscr
      simp only [rebind_isActive, hact, nLocal_active] at hscr'
      obtain ⟨h1, h3⟩ := hscr'
      have hl := ih (k + op.storeResult) s hwf.1 hdom.1 h3
      have hc : HasDerivAt (fun t => op.operation false (l.rebind (γ t)).eval c)
          (op.dL (l.rebind (γ t₀)).eval c * dotOps ((l.rebind (γ t₀)).grad (k + op.storeResult) s none) γ') t₀ := by
        rcases hdom.2 with hd | ⟨hop, hne, _⟩
        · exact (bin_chain op hl (hasDerivAt_const t₀ c) hd).congr_deriv (by ring)
        · subst hop; exact chain_Pow_const hl c (Or.inl hne)
      simp only [Node.rebind, Node.eval, Node.grad, leftSlot_eq, Option.isSome_none]
      rw [stored_of_ScrOK _ _ s h3]
      obtain ⟨e1, _⟩ := mul_indep op none (l.rebind (γ t₀)).eval c (s k)
        (op.res (l.rebind (γ t₀)).eval c) (s (k + 1)) (op.auxv (l.rebind (γ t₀)).eval c)
        (fun hp => by rw [h1 hp, res_eq_operation]) (fun hp => by omega)
      rw [e1, side_sum]
      simp only [operation_any op mixed]
      exact hc.congr_deriv (by simp only [BOp.dL])
    · have hl : l.isActive = false := by simpa using hact
      have hconst : (fun t => ((Node.binR op mixed l c).rebind (γ t)).eval) = fun _ => (Node.binR op mixed l c).eval := by
        funext t; rw [rebind_inactive _ _ (by simp [Node.isActive, hl])]
      rw [hconst, grad_inactive _ (by simp [Node.isActive, hl])]
      simpa using hasDerivAt_const t₀ _
  | noalias a ih =>
    intro k s hwf hdom hscr
    exact ih k s hwf hdom hscr

end Adept.Expr
