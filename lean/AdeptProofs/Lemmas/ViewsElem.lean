import AdeptProofs.Lemmas.Views
/-!
Helper lemmas for the ELEMENT accessors (`elemOffset` / `elemAccess`: Array.h, `fixedElemGo` / `fixedElemAccess`:
FixedArray.h; `AdeptModel/Views.lean`): what a successful access computes, when the bounds-checked build raises, the
Horner form of FixedArray against the packed row-major offsets, element access as an all-scalar `slice`.
-/
namespace Adept.Views

theorem resolveAll_length : ∀ (ds : List Nat) (es : List EndExpr), ds.length = es.length →
    (resolveAll ds es).length = ds.length
  | [], [], _ => rfl
  | _ :: ds, _ :: es, h => by simp [resolveAll, resolveAll_length ds es (by simpa using h)]
  | [], _ :: _, h => by simp at h
  | _ :: _, [], h => by simp at h

/-- position `k` of the index list is argument `k` resolved against the length of dimension `k` -/
theorem resolveAll_getElem : ∀ (ds : List Nat) (es : List EndExpr) (k : Nat) (hd : k < ds.length) (he : k < es.length),
    (resolveAll ds es)[k]? = some ((es[k]).resolve (ds[k]))
  | d :: ds, e :: es, 0, _, _ => by simp [resolveAll]
  | d :: ds, e :: es, k + 1, hd, he => by
      simp only [resolveAll, List.getElem?_cons_succ, List.getElem_cons_succ]
      exact resolveAll_getElem ds es k (by simpa using hd) (by simpa using he)

/-- a successful element access of an `Array` -/
theorem elemOffset_ok (c : Bool) : ∀ (ds : List Nat) (ss : List Int) (es : List EndExpr) (o : Int),
    elemOffset c ds ss es = .ok o →
    ds.length = ss.length ∧ ds.length = es.length ∧ o = dot (resolveAll ds es) ss ∧
      (c = true → InRange (resolveAll ds es) ds) := by
  intro ds
  induction ds with
  | nil =>
    intro ss es o h
    cases ss <;> cases es <;> simp [elemOffset] at h
    subst h
    simp [resolveAll, dot, InRange]
  | cons d ds ih =>
    intro ss es o h
    cases ss with
    | nil => cases es <;> simp [elemOffset] at h
    | cons s ss =>
      cases es with
      | nil => simp [elemOffset] at h
      | cons e es =>
        simp only [elemOffset] at h
        cases hj : getIndexWithLen c e d with
        | error x => simp [hj, bind, Except.bind] at h
        | ok j =>
          cases hr : elemOffset c ds ss es with
          | error x => simp [hj, hr, bind, Except.bind] at h
          | ok rest =>
            simp only [hj, hr, bind, Except.bind] at h
            cases h
            obtain ⟨h1, h2, h3, h4⟩ := ih ss es rest hr
            obtain ⟨g1, g2⟩ := getIndex_ok hj
            refine ⟨by simp [h1], by simp [h2], ?_, ?_⟩
            · simp only [resolveAll, dot, ← h3, ← g1]
            · intro hc
              simp only [resolveAll, InRange]
              exact ⟨g1 ▸ g2 hc, h4 hc⟩

/-- the default build never raises: it forms the address whatever the indices are -/
theorem elemOffset_unchecked : ∀ (ds : List Nat) (ss : List Int) (es : List EndExpr),
    ds.length = ss.length → ds.length = es.length →
    elemOffset false ds ss es = .ok (dot (resolveAll ds es) ss)
  | [], [], [], _, _ => rfl
  | d :: ds, s :: ss, e :: es, h1, h2 => by
      simp only [elemOffset, getIndex_unchecked, elemOffset_unchecked ds ss es (by simpa using h1) (by simpa using h2),
        bind, Except.bind, resolveAll, dot]
  | [], _ :: _, _, h, _ => by simp at h
  | _ :: _, [], _, h, _ => by simp at h
  | [], [], _ :: _, _, h => by simp at h
  | _ :: _, _ :: _, [], _, h => by simp at h

/-- the bounds-checked build returns the element when every index is inside its own dimension … -/
theorem elemOffset_checked_ok : ∀ (ds : List Nat) (ss : List Int) (es : List EndExpr),
    ds.length = ss.length → ds.length = es.length → InRange (resolveAll ds es) ds →
    elemOffset true ds ss es = .ok (dot (resolveAll ds es) ss)
  | [], [], [], _, _, _ => rfl
  | d :: ds, s :: ss, e :: es, h1, h2, hin => by
      simp only [resolveAll, InRange] at hin
      have := elemOffset_checked_ok ds ss es (by simpa using h1) (by simpa using h2) hin.2
      simp only [elemOffset, getIndex_checked, hin.1, and_self, if_true, this, bind, Except.bind, resolveAll, dot]
  | [], _ :: _, _, h, _, _ => by simp at h
  | _ :: _, [], _, h, _, _ => by simp at h
  | [], [], _ :: _, _, h, _ => by simp at h
  | _ :: _, _ :: _, [], _, h, _ => by simp at h

/-- … and raises `index_out_of_bounds` as soon as one of them is not -/
theorem elemOffset_checked_err : ∀ (ds : List Nat) (ss : List Int) (es : List EndExpr),
    ds.length = ss.length → ds.length = es.length → ¬ InRange (resolveAll ds es) ds →
    elemOffset true ds ss es = .error .index_out_of_bounds
  | [], [], [], _, _, hn => by simp [resolveAll, InRange] at hn
  | d :: ds, s :: ss, e :: es, h1, h2, hn => by
      simp only [resolveAll, InRange] at hn
      by_cases hj : 0 ≤ e.resolve d ∧ e.resolve d < d
      · have hrest : ¬ InRange (resolveAll ds es) ds := fun h => hn ⟨hj, h⟩
        have := elemOffset_checked_err ds ss es (by simpa using h1) (by simpa using h2) hrest
        simp only [elemOffset, getIndex_checked, hj, and_self, if_true, this, bind, Except.bind]
      · simp only [elemOffset, getIndex_checked, hj, if_false, bind, Except.bind]
  | [], _ :: _, _, h, _, _ => by simp at h
  | _ :: _, [], _, h, _, _ => by simp at h
  | [], [], _ :: _, _, h, _ => by simp at h
  | _ :: _, _ :: _, [], _, h, _ => by simp at h

/-- element access is the all-scalar case of `operator()`: same outcome as the chain of `update_index` calls -/
theorem sliceGo_all_scalar (c : Bool) : ∀ (ds : List Nat) (ss : List Int) (es : List EndExpr),
    sliceGo c ds ss (es.map Ix.at) = (elemOffset c ds ss es).map fun o => (o, [], [])
  | [], [], [] => rfl
  | d :: ds, s :: ss, e :: es => by
      simp only [List.map_cons, sliceGo, updateIndex, elemOffset, sliceGo_all_scalar c ds ss es]
      cases getIndexWithLen c e d with
      | error x => rfl
      | ok j =>
        cases elemOffset c ds ss es with
        | error x => rfl
        | ok r => rfl
  | [], [], _ :: _ => rfl
  | [], _ :: _, [] => rfl
  | [], _ :: _, _ :: _ => rfl
  | _ :: _, [], [] => rfl
  | _ :: _, [], _ :: _ => rfl
  | _ :: _, _ :: _, [] => rfl

/-! ### FixedArray: the Horner form -/

/-- Horner accumulation of plain indices -/
def horner : Int → List Nat → List Int → Int
  | acc, d :: ds, i :: ix => horner ((d : Int) * acc + i) ds ix
  | acc, _, _ => acc

theorem fixedElemGo_ok (c : Bool) : ∀ (ds : List Nat) (es : List EndExpr) (acc o : Int),
    fixedElemGo c acc ds es = .ok o →
    ds.length = es.length ∧ o = horner acc ds (resolveAll ds es) ∧ (c = true → InRange (resolveAll ds es) ds) := by
  intro ds
  induction ds with
  | nil =>
    intro es acc o h
    cases es <;> simp [fixedElemGo] at h
    subst h
    simp [resolveAll, horner, InRange]
  | cons d ds ih =>
    intro es acc o h
    cases es with
    | nil => simp [fixedElemGo] at h
    | cons e es =>
      simp only [fixedElemGo] at h
      cases hj : getIndexWithLen c e d with
      | error x => simp [hj, bind, Except.bind] at h
      | ok j =>
        simp only [hj, bind, Except.bind] at h
        obtain ⟨h1, h2, h3⟩ := ih es _ o h
        obtain ⟨g1, g2⟩ := getIndex_ok hj
        refine ⟨by simp [h1], ?_, ?_⟩
        · simp only [resolveAll, horner, h2, g1]
        · intro hc
          simp only [resolveAll, InRange]
          exact ⟨g1 ▸ g2 hc, h3 hc⟩

theorem fixedElemGo_unchecked : ∀ (ds : List Nat) (es : List EndExpr) (acc : Int), ds.length = es.length →
    fixedElemGo false acc ds es = .ok (horner acc ds (resolveAll ds es))
  | [], [], _, _ => rfl
  | d :: ds, e :: es, acc, h => by
      simp only [fixedElemGo, getIndex_unchecked, bind, Except.bind, resolveAll, horner]
      exact fixedElemGo_unchecked ds es _ (by simpa using h)
  | [], _ :: _, _, h => by simp at h
  | _ :: _, [], _, h => by simp at h

theorem fixedElemGo_checked_ok : ∀ (ds : List Nat) (es : List EndExpr) (acc : Int), ds.length = es.length →
    InRange (resolveAll ds es) ds → fixedElemGo true acc ds es = .ok (horner acc ds (resolveAll ds es))
  | [], [], _, _, _ => rfl
  | d :: ds, e :: es, acc, h, hin => by
      simp only [resolveAll, InRange] at hin
      simp only [fixedElemGo, getIndex_checked, hin.1, and_self, if_true, bind, Except.bind, resolveAll, horner]
      exact fixedElemGo_checked_ok ds es _ (by simpa using h) hin.2
  | [], _ :: _, _, h, _ => by simp at h
  | _ :: _, [], _, h, _ => by simp at h

theorem fixedElemGo_checked_err : ∀ (ds : List Nat) (es : List EndExpr) (acc : Int), ds.length = es.length →
    ¬ InRange (resolveAll ds es) ds → fixedElemGo true acc ds es = .error .index_out_of_bounds
  | [], [], _, _, hn => by simp [resolveAll, InRange] at hn
  | d :: ds, e :: es, acc, h, hn => by
      simp only [resolveAll, InRange] at hn
      by_cases hj : 0 ≤ e.resolve d ∧ e.resolve d < d
      · have hrest : ¬ InRange (resolveAll ds es) ds := fun h => hn ⟨hj, h⟩
        simp only [fixedElemGo, getIndex_checked, hj, and_self, if_true, bind, Except.bind]
        exact fixedElemGo_checked_err ds es _ (by simpa using h) hrest
      · simp only [fixedElemGo, getIndex_checked, hj, if_false, bind, Except.bind]
  | [], _ :: _, _, h, _ => by simp at h
  | _ :: _, [], _, h, _ => by simp at h

/-- Horner form = accumulated prefix times the volume of the remaining dimensions + row-major linear index -/
theorem horner_lin : ∀ (ds : List Nat) (ix : List Int) (acc : Int), ix.length = ds.length →
    horner acc ds ix = acc * prodInt (ds.map Int.ofNat) + lin ds ix
  | [], [], acc, _ => by simp [horner, prodInt, lin]
  | d :: ds, i :: ix, acc, h => by
      simp only [horner, List.map_cons, prodInt, lin]
      rw [horner_lin ds ix _ (by simpa using h)]
      grind
  | [], _ :: _, _, h => by simp at h
  | _ :: _, [], _, h => by simp at h

/-- the packed row-major offsets give the row-major linear index (no range assumption) -/
theorem dot_packRowMajor (ds : List Nat) (ix : List Int) (h : ix.length = ds.length) :
    dot ix (packRowMajor ds) = lin ds ix := by
  cases ds with
  | nil => cases ix <;> simp [dot, lin, packRowMajor]
  | cons d ds =>
    obtain ⟨o, os, h1, _, _, h4⟩ := reshapeStrides_spec 1 (d :: ds) (by simp)
    have := h4 ix h
    rw [packRowMajor_eq, h1, this]
    omega

/-- decidable equality of element-access results (for the concrete examples in `Props/C06.lean`) -/
instance instDecEqElemResult : DecidableEq (Except Err Int)
  | .ok a, .ok b => if h : a = b then isTrue (by rw [h]) else isFalse (by intro h'; cases h'; exact h rfl)
  | .error a, .error b => if h : a = b then isTrue (by rw [h]) else isFalse (by intro h'; cases h'; exact h rfl)
  | .ok _, .error _ => isFalse (by intro h; cases h)
  | .error _, .ok _ => isFalse (by intro h; cases h)

end Adept.Views
